/-
  AITB.Props.C17 — saved models, experiences and policies load back identically (C17).

  Statements are about the token-level codec model `AITB.Model.Codec`, for every `DblIO D` (any
  representation of doubles and of their stream formatting), every shape, every object and every
  input stream.  See docs/C17.md for the reading of each theorem.
-/
import AITB.Model.Codec
import AITB.Model.CodecNum
import AITB.Gen.IOPrec
namespace AITB.Codec

variable {D : Type}

/-! ### reader combinators -/

@[simp] theorem bind_apply {α β} (m : Rd α) (f : α → Rd β) (s : Stream) :
    Rd.bind m f s = match m s with | .ok a s' => f a s' | .bad e => .bad e := rfl
@[simp] theorem pure_apply {α} (a : α) (s : Stream) : Rd.pure a s = .ok a s := rfl
@[simp] theorem need_true (s : Stream) : need true s = .ok () s := rfl
@[simp] theorem need_false (s : Stream) : need false s = .bad .failbit := rfl

/-- a writer/reader pair for one value: reading what was written gives the value back and leaves the rest -/
def RoundTrips {α} (rd : Rd α) (wr : α → Stream) (x : α) : Prop := ∀ rest, rd (wr x ++ rest) = .ok x rest

theorem rep_roundtrip {α} (rd : Rd α) (wr : α → Stream) :
    ∀ (xs : List α), (∀ x ∈ xs, RoundTrips rd wr x) → RoundTrips (rep rd xs.length) (fun l => l.flatMap wr) xs
  | [], _, rest => by simp [rep]
  | x :: xs, h, rest => by
    have hx := h x (List.mem_cons_self)
    have ih := rep_roundtrip rd wr xs (fun y hy => h y (List.mem_cons_of_mem _ hy)) rest
    simp only [RoundTrips] at hx ih
    simp [rep, List.flatMap_cons, List.append_assoc, hx, ih]

theorem rep_roundtrip' {α} (rd : Rd α) (wr : α → Stream) (n : Nat) (xs : List α) (hn : xs.length = n)
    (h : ∀ x ∈ xs, RoundTrips rd wr x) : RoundTrips (rep rd n) (fun l => l.flatMap wr) xs := by
  subst hn; exact rep_roundtrip rd wr xs h

/-- what `rep` returns on ANY stream: the right number of items, each satisfying what one read guarantees -/
theorem rep_ok {α} (rd : Rd α) (P : α → Prop) (hP : ∀ s a s', rd s = .ok a s' → P a) :
    ∀ n s xs s', rep rd n s = .ok xs s' → xs.length = n ∧ ∀ x ∈ xs, P x
  | 0, s, xs, s', h => by simp [rep] at h; rcases h with ⟨rfl, rfl⟩; simp
  | n + 1, s, xs, s', h => by
    simp only [rep, bind_apply] at h
    cases h1 : rd s with
    | bad e => simp [h1] at h
    | ok a s1 =>
      simp only [h1] at h
      cases h2 : rep rd n s1 with
      | bad e => simp [h2] at h
      | ok r s2 =>
        simp only [h2, pure_apply] at h
        have ih := rep_ok rd P hP n s1 r s2 h2
        injection h with h3 h4
        subst h3
        refine ⟨by simp [ih.1], ?_⟩
        intro x hx
        rcases List.mem_cons.mp hx with rfl | hx
        · exact hP _ _ _ h1
        · exact ih.2 x hx

/-! ### unsigned integers: `is >> n` inverts `os << n` -/

theorem evalDigits_digitsAux : ∀ (f n : Nat) (acc : List Nat), n < f →
    (digitsAux f n acc).foldl (fun a d => a * 10 + d) 0 = acc.foldl (fun a d => a * 10 + d) n
  | 0, n, acc, h => by omega
  | f + 1, n, acc, h => by
    unfold digitsAux
    split
    · simp
    · rename_i h10
      rw [evalDigits_digitsAux f (n / 10) (n % 10 :: acc) (by omega)]
      simp only [List.foldl_cons]
      congr 1
      omega

theorem evalDigits_digits (n : Nat) : evalDigits (digits n) = n := by
  unfold evalDigits digits
  rw [evalDigits_digitsAux (n + 1) n [] (by omega)]
  rfl

theorem digitsAux_lt10 : ∀ (f n : Nat) (acc : List Nat), (∀ d ∈ acc, d < 10) → ∀ d ∈ digitsAux f n acc, d < 10
  | 0, n, acc, h => by simpa [digitsAux] using h
  | f + 1, n, acc, h => by
    unfold digitsAux
    split
    · rename_i h10
      intro d hd
      rcases List.mem_cons.mp hd with rfl | hd
      · exact h10
      · exact h d hd
    · apply digitsAux_lt10
      intro d hd
      rcases List.mem_cons.mp hd with rfl | hd
      · omega
      · exact h d hd

theorem digits_lt10 (n : Nat) : ∀ d ∈ digits n, d < 10 := digitsAux_lt10 _ _ [] (by simp)

theorem digitsAux_ne_nil : ∀ (f n : Nat) (acc : List Nat), acc ≠ [] ∨ 0 < f → digitsAux f n acc ≠ []
  | 0, n, acc, h => by
    rcases h with h | h
    · simpa [digitsAux] using h
    · omega
  | f + 1, n, acc, _ => by
    unfold digitsAux
    split
    · simp
    · exact digitsAux_ne_nil f _ _ (Or.inl (by simp))

theorem digits_ne_nil (n : Nat) : digits n ≠ [] := digitsAux_ne_nil _ _ _ (Or.inr (by omega))

theorem digitChar_toNat (d : Nat) (h : d < 10) : (digitChar d).toNat = 48 + d := by
  have : d = 0 ∨ d = 1 ∨ d = 2 ∨ d = 3 ∨ d = 4 ∨ d = 5 ∨ d = 6 ∨ d = 7 ∨ d = 8 ∨ d = 9 := by omega
  rcases this with rfl | rfl | rfl | rfl | rfl | rfl | rfl | rfl | rfl | rfl <;> rfl

theorem isDig_digitChar (d : Nat) (h : d < 10) : isDig (digitChar d) = true := by
  simp [isDig, digitChar_toNat d h]; omega

theorem digitVal_digitChar (d : Nat) (h : d < 10) : digitVal (digitChar d) = d := by
  simp [digitVal, digitChar_toNat d h]

theorem spanP_all (p : Char → Bool) : ∀ (l : List Char), (∀ c ∈ l, p c = true) → spanP p l = (l, [])
  | [], _ => rfl
  | c :: cs, h => by
    have hc := h c (List.mem_cons_self)
    have ih := spanP_all p cs (fun x hx => h x (List.mem_cons_of_mem _ hx))
    simp [spanP, hc, ih]

theorem digitChar_ne_sign (d : Nat) (h : d < 10) : digitChar d ≠ '-' ∧ digitChar d ≠ '+' ∧ digitChar d ≠ '@' := by
  have : d = 0 ∨ d = 1 ∨ d = 2 ∨ d = 3 ∨ d = 4 ∨ d = 5 ∨ d = 6 ∨ d = 7 ∨ d = 8 ∨ d = 9 := by omega
  rcases this with rfl | rfl | rfl | rfl | rfl | rfl | rfl | rfl | rfl | rfl <;> decide

/-- `is >> n` reads back exactly what `os << n` wrote, consuming the whole token -/
theorem scanN_printN (n : Nat) (hn : n < two64) : scanN (printN n) = some (n, []) := by
  have hne := digits_ne_nil n
  have hlt := digits_lt10 n
  unfold printN
  cases hd : digits n with
  | nil => exact absurd hd hne
  | cons d ds =>
    rw [hd] at hlt
    have hd10 : d < 10 := hlt d (List.mem_cons_self)
    have hs := digitChar_ne_sign d hd10
    have hall : ∀ c ∈ (d :: ds).map digitChar, isDig c = true := by
      intro c hc
      rcases List.mem_map.mp hc with ⟨x, hx, rfl⟩
      exact isDig_digitChar x (hlt x hx)
    have hval : ((d :: ds).map digitChar).map digitVal = d :: ds := by
      rw [List.map_map]
      conv => rhs; rw [← List.map_id (d :: ds)]
      apply List.map_congr_left
      intro x hx
      simp [digitVal_digitChar x (hlt x hx)]
    have hev : evalDigits (d :: ds) = n := by rw [← hd]; exact evalDigits_digits n
    have hsplit : splitSign ((d :: ds).map digitChar) = (false, (d :: ds).map digitChar) := by
      simp only [List.map_cons, splitSign]
      split
      · rename_i r heq; injection heq with h1 _; exact absurd h1 hs.1
      · rename_i r heq; injection heq with h1 _; exact absurd h1 hs.2.1
      · rfl
    unfold scanN
    simp only [hsplit, spanP_all isDig _ hall, hval, hev]
    simp [Nat.not_le.mpr hn]

theorem rdN_printN (n : Nat) (hn : n < two64) (rest : Stream) : rdN (printN n :: rest) = .ok n rest := by
  simp [rdN, scanN_printN n hn, pushBack]

/-! ### doubles: the round-trip hypothesis, value by value -/

/-- `is >> d` returns exactly `d` from the text `os << d` produced under precision `p`, consuming all of it.
    For an IEEE double and `p ≥ 17 = max_digits10` this is the classical shortest-round-trip result
    (trusted; the driver evaluates it on every value it sees). -/
def RT (io : DblIO D) (p : Nat) (d : D) : Prop := io.scanD (io.printD p d) = some (d, [])

theorem rdD_printD (io : DblIO D) (p : Nat) (d : D) (h : RT io p d) (rest : Stream) :
    rdD io (io.printD p d :: rest) = .ok d rest := by
  simp [rdD, RT] at *; simp [h, pushBack]

theorem rt_N (n : Nat) (hn : n < two64) : RoundTrips rdN (fun n => [printN n]) n := fun rest => by
  simpa using rdN_printN n hn rest

theorem rt_D (io : DblIO D) (p : Nat) (d : D) (h : RT io p d) : RoundTrips (rdD io) (fun d => [io.printD p d]) d :=
  fun rest => by simpa using rdD_printD io p d h rest

theorem flatMap_singleton {α β} (f : α → β) (l : List α) : l.flatMap (fun x => [f x]) = l.map f := by
  induction l with
  | nil => rfl
  | cons a l ih => simp [List.flatMap_cons, ih]

/-! ### dense matrices and tables -/

def AllMat {α} (P : α → Prop) (m : Mat α) : Prop := ∀ r ∈ m, ∀ x ∈ r, P x
def AllMat3 {α} (P : α → Prop) (m : List (Mat α)) : Prop := ∀ t ∈ m, AllMat P t

theorem shapeB_iff {α} (rows cols : Nat) (m : Mat α) :
    shapeB rows cols m = true ↔ m.length = rows ∧ ∀ r ∈ m, r.length = cols := by
  simp [shapeB, List.all_eq_true]
theorem shape3B_iff {α} (k rows cols : Nat) (m : List (Mat α)) :
    shape3B k rows cols m = true ↔ m.length = k ∧ ∀ t ∈ m, shapeB rows cols t = true := by
  simp [shape3B, List.all_eq_true]

theorem rt_vec (io : DblIO D) (p cols : Nat) (v : List D) (hl : v.length = cols) (h : ∀ d ∈ v, RT io p d) :
    RoundTrips (rep (rdD io) cols) (wrVec io p) v := by
  have := rep_roundtrip' (rdD io) (fun d => [io.printD p d]) cols v hl (fun d hd => rt_D io p d (h d hd))
  intro rest
  have h2 := this rest
  simp only [flatMap_singleton] at h2
  exact h2

theorem rt_mat (io : DblIO D) (p rows cols : Nat) (m : Mat D) (hs : shapeB rows cols m = true)
    (h : AllMat (RT io p) m) : RoundTrips (rdMat io rows cols) (wrMat io p) m := by
  rw [shapeB_iff] at hs
  exact rep_roundtrip' _ (wrVec io p) rows m hs.1 (fun r hr => rt_vec io p cols r (hs.2 r hr) (h r hr))

theorem rt_mat3 (io : DblIO D) (p k rows cols : Nat) (m : List (Mat D)) (hs : shape3B k rows cols m = true)
    (h : AllMat3 (RT io p) m) : RoundTrips (rdMat3 io k rows cols) (wrMat3 io p) m := by
  rw [shape3B_iff] at hs
  exact rep_roundtrip' _ (wrMat io p) k m hs.1 (fun t ht => rt_mat io p rows cols t (hs.2 t ht) (h t ht))

theorem rt_nats (cols : Nat) (v : List Nat) (hl : v.length = cols) (h : ∀ n ∈ v, n < two64) :
    RoundTrips (rep rdN cols) (fun r => r.map printN) v := by
  have := rep_roundtrip' rdN (fun n => [printN n]) cols v hl (fun n hn => rt_N n (h n hn))
  intro rest
  have h2 := this rest
  simp only [flatMap_singleton] at h2
  exact h2

theorem rt_tab (rows cols : Nat) (m : Mat Nat) (hs : shapeB rows cols m = true)
    (h : AllMat (· < two64) m) : RoundTrips (rdTab rows cols) wrTab m := by
  rw [shapeB_iff] at hs
  exact rep_roundtrip' _ (fun r => r.map printN) rows m hs.1 (fun r hr => rt_nats cols r (hs.2 r hr) (h r hr))

theorem rt_tab3 (k rows cols : Nat) (m : List (Mat Nat)) (hs : shape3B k rows cols m = true)
    (h : AllMat3 (· < two64) m) : RoundTrips (rdTab3 k rows cols) wrTab3 m := by
  rw [shape3B_iff] at hs
  exact rep_roundtrip' _ wrTab k m hs.1 (fun t ht => rt_tab rows cols t (hs.2 t ht) (h t ht))

/-! ### sparse matrices and tables -/

theorem keyLt_iff {V} (a b : SpE V) : keyLt a b = true ↔ a.r < b.r ∨ (a.r = b.r ∧ a.c < b.c) := by
  simp [keyLt]
theorem keyEq_iff {V} (a b : SpE V) : keyEq a b = true ↔ a.r = b.r ∧ a.c = b.c := by
  simp [keyEq]

theorem keyLt_trans {V} (a b c : SpE V) (h1 : keyLt a b = true) (h2 : keyLt b c = true) : keyLt a c = true := by
  rw [keyLt_iff] at *; omega

theorem keyLt_asymm {V} (a b : SpE V) (h : keyLt a b = true) : keyLt b a = false ∧ keyEq b a = false := by
  rw [keyLt_iff] at h
  constructor
  · cases hh : keyLt b a with
    | false => rfl
    | true => rw [keyLt_iff] at hh; omega
  · cases hh : keyEq b a with
    | false => rfl
    | true => rw [keyEq_iff] at hh; omega

theorem keyLt_total {V} (a b : SpE V) (h1 : keyLt a b = false) (h2 : keyEq a b = false) : keyLt b a = true := by
  rw [keyLt_iff]
  have n1 : ¬ (a.r < b.r ∨ (a.r = b.r ∧ a.c < b.c)) := by rw [← keyLt_iff]; simp [h1]
  have n2 : ¬ (a.r = b.r ∧ a.c = b.c) := by rw [← keyEq_iff]; simp [h2]
  omega

/-- storage order as a pairwise relation -/
def Sorted {V} (m : SpMat V) : Prop := List.Pairwise (fun a b => keyLt a b = true) m

theorem sortedB_iff {V} : ∀ (m : SpMat V), sortedB m = true ↔ Sorted m
  | [] => by simp [sortedB, Sorted]
  | [a] => by simp [sortedB, Sorted]
  | a :: b :: r => by
    have ih := sortedB_iff (b :: r)
    simp only [sortedB, Bool.and_eq_true, ih, Sorted, List.pairwise_cons]
    constructor
    · rintro ⟨hab, hb, hr⟩
      refine ⟨?_, hb, hr⟩
      intro y hy
      rcases List.mem_cons.mp hy with rfl | hy
      · exact hab
      · exact keyLt_trans a b y hab (hb y hy)
    · rintro ⟨ha, hb, hr⟩
      exact ⟨ha b (List.mem_cons_self), hb, hr⟩

theorem insertSum_append {V} (add : V → V → V) (e : SpE V) :
    ∀ (acc : SpMat V), (∀ x ∈ acc, keyLt x e = true) → insertSum add e acc = acc ++ [e]
  | [], _ => rfl
  | x :: xs, h => by
    have hx := keyLt_asymm x e (h x (List.mem_cons_self))
    have ih := insertSum_append add e xs (fun y hy => h y (List.mem_cons_of_mem _ hy))
    simp [insertSum, hx.1, hx.2, ih]

theorem foldl_insert_sorted {V} (add : V → V → V) :
    ∀ (rem acc : SpMat V), Sorted (acc ++ rem) → rem.foldl (fun m e => insertSum add e m) acc = acc ++ rem
  | [], acc, _ => by simp
  | e :: rem, acc, h => by
    have hp := List.pairwise_append.mp h
    have h1 : insertSum add e acc = acc ++ [e] :=
      insertSum_append add e acc (fun x hx => hp.2.2 x hx e (List.mem_cons_self))
    simp only [List.foldl_cons, h1]
    rw [foldl_insert_sorted add rem (acc ++ [e]) (by simpa [Sorted, List.append_assoc] using h)]
    simp [List.append_assoc]

/-- `setFromTriplets` of the entries of a matrix already in storage order gives the same matrix -/
theorem fromTriplets_sorted {V} (add : V → V → V) (m : SpMat V) (h : Sorted m) : fromTriplets add m = m := by
  simpa [fromTriplets] using foldl_insert_sorted add m [] (by simpa using h)

theorem incr_length_le : ∀ (l : List Nat) (lo n : Nat), List.Pairwise (· < ·) l → (∀ x ∈ l, lo ≤ x ∧ x < n) → l.length ≤ n - lo
  | [], _, _, _, _ => by simp
  | x :: xs, lo, n, hp, hb => by
    rw [List.pairwise_cons] at hp
    have hx := hb x (List.mem_cons_self)
    have ih := incr_length_le xs (x + 1) n hp.2 (fun y hy => ⟨hp.1 y hy, (hb y (List.mem_cons_of_mem _ hy)).2⟩)
    simp only [List.length_cons]
    omega

theorem idx_lt {rows cols r c : Nat} (hr : r < rows) (hc : c < cols) : r * cols + c < rows * cols := by
  have h1 : (r + 1) * cols ≤ rows * cols := Nat.mul_le_mul_right cols hr
  have h2 : (r + 1) * cols = r * cols + cols := Nat.succ_mul r cols
  omega

theorem inRangeB_iff {V} (rows cols : Nat) (m : SpMat V) :
    inRangeB rows cols m = true ↔ ∀ e ∈ m, e.r < rows ∧ e.c < cols := by
  simp [inRangeB, List.all_eq_true]

/-- a matrix in storage order with in-range indices stores at most rows·cols entries -/
theorem sorted_length_le {V} (rows cols : Nat) (m : SpMat V) (hs : Sorted m) (hr : ∀ e ∈ m, e.r < rows ∧ e.c < cols) :
    m.length ≤ rows * cols := by
  have hp : List.Pairwise (· < ·) (m.map (fun e => e.r * cols + e.c)) := by
    rw [List.pairwise_map]
    refine List.Pairwise.imp_of_mem ?_ hs
    intro a b ha hb hab
    rw [keyLt_iff] at hab
    have hca := (hr a ha).2
    rcases hab with h | ⟨h1, h2⟩
    · have h1 : (a.r + 1) * cols ≤ b.r * cols := Nat.mul_le_mul_right cols h
      have h2 : (a.r + 1) * cols = a.r * cols + cols := Nat.succ_mul a.r cols
      omega
    · rw [h1]; omega
  have := incr_length_le _ 0 (rows * cols) hp (by
    intro x hx
    rcases List.mem_map.mp hx with ⟨e, he, rfl⟩
    exact ⟨Nat.zero_le _, idx_lt (hr e he).1 (hr e he).2⟩)
  simpa using this

theorem rt_triplets {V} (rdV : Rd V) (wrV : V → Tok) (rows cols : Nat) :
    ∀ (m : List (SpE V)),
      (∀ e ∈ m, ∀ rest, rdV (wrV e.v :: rest) = .ok e.v rest) →
      (∀ e ∈ m, e.r < rows ∧ e.c < cols ∧ e.r < two64 ∧ e.c < two64) →
      RoundTrips (rdTriplets rdV rows cols m.length) (fun m => m.flatMap (fun e => [printN e.r, printN e.c, wrV e.v])) m
  | [], _, _, rest => by simp [rdTriplets]
  | e :: m, hv, hr, rest => by
    have he := hr e (List.mem_cons_self)
    have ih := rt_triplets rdV wrV rows cols m (fun x hx => hv x (List.mem_cons_of_mem _ hx))
      (fun x hx => hr x (List.mem_cons_of_mem _ hx)) rest
    simp [rdTriplets, List.flatMap_cons, rdN_printN e.r he.2.2.1, rdN_printN e.c he.2.2.2,
      hv e (List.mem_cons_self), he.1, he.2.1, ih]

/-- generic sparse round trip: a matrix in storage order, indices in range, values that round-trip -/
theorem rt_spgen {V} (rdV : Rd V) (wrV : V → Tok) (add : V → V → V) (rows cols : Nat) (m : SpMat V)
    (hvalid : spValidB rows cols m = true) (hdim : rows * cols < two64)
    (hv : ∀ e ∈ m, ∀ rest, rdV (wrV e.v :: rest) = .ok e.v rest) :
    RoundTrips (rdSpGen rdV add rows cols) (fun m => printN m.length :: m.flatMap (fun e => [printN e.r, printN e.c, wrV e.v])) m := by
  simp only [spValidB, Bool.and_eq_true, sortedB_iff, inRangeB_iff] at hvalid
  obtain ⟨hs, hr⟩ := hvalid
  have hlen := sorted_length_le rows cols m hs hr
  have hr' : ∀ e ∈ m, e.r < rows ∧ e.c < cols ∧ e.r < two64 ∧ e.c < two64 := by
    intro e he
    have h := hr e he
    have h3 := idx_lt h.1 h.2
    have : e.c < two64 := by omega
    have hrc : e.r ≤ e.r * cols := Nat.le_mul_of_pos_right _ (by omega)
    exact ⟨h.1, h.2, by omega, this⟩
  intro rest
  have ht := rt_triplets rdV wrV rows cols m hv hr' rest
  simp [rdSpGen, rdN_printN m.length (by omega), hlen, ht, fromTriplets_sorted add m hs]

theorem rt_spmat (io : DblIO D) (p rows cols : Nat) (m : SpMat D) (hvalid : spValidB rows cols m = true)
    (hdim : rows * cols < two64) (h : ∀ e ∈ m, RT io p e.v) : RoundTrips (rdSpMat io rows cols) (wrSpMat io p) m :=
  rt_spgen (rdD io) (io.printD p) io.add rows cols m hvalid hdim (fun e he rest => rdD_printD io p e.v (h e he) rest)

/-- a visit count survives the sparse-table reader: directly (`unsigned long v`), or through the `double` the
    code as first read extracts it into -/
def CountRT (io : DblIO D) (viaDouble : Bool) (n : Nat) : Prop :=
  n < two64 ∧ (viaDouble = true → ∃ d, io.scanD (printN n) = some (d, []) ∧ io.toCount d = n)

theorem rdCount_printN (io : DblIO D) (vd : Bool) (n : Nat) (h : CountRT io vd n) (rest : Stream) :
    rdCount io vd (printN n :: rest) = .ok n rest := by
  cases vd with
  | false => simpa [rdCount] using rdN_printN n h.1 rest
  | true =>
    obtain ⟨d, h1, h2⟩ := h.2 rfl
    simp [rdCount, rdD, h1, h2, pushBack]

theorem rt_sptab (io : DblIO D) (vd : Bool) (rows cols : Nat) (m : SpMat Nat) (hvalid : spValidB rows cols m = true)
    (hdim : rows * cols < two64) (h : ∀ e ∈ m, CountRT io vd e.v) : RoundTrips (rdSpTab io vd rows cols) wrSpTab m :=
  rt_spgen (rdCount io vd) printN addN rows cols m hvalid hdim (fun e he rest => rdCount_printN io vd e.v (h e he) rest)

theorem sp3ValidB_iff {V} (k rows cols : Nat) (m : List (SpMat V)) :
    sp3ValidB k rows cols m = true ↔ m.length = k ∧ ∀ t ∈ m, spValidB rows cols t = true := by
  simp [sp3ValidB, List.all_eq_true]

theorem rt_spmat3 (io : DblIO D) (p k rows cols : Nat) (m : List (SpMat D)) (hvalid : sp3ValidB k rows cols m = true)
    (hdim : rows * cols < two64) (h : ∀ t ∈ m, ∀ e ∈ t, RT io p e.v) :
    RoundTrips (rdSpMat3 io k rows cols) (wrSpMat3 io p) m := by
  rw [sp3ValidB_iff] at hvalid
  exact rep_roundtrip' _ (wrSpMat io p) k m hvalid.1 (fun t ht => rt_spmat io p rows cols t (hvalid.2 t ht) hdim (h t ht))

theorem rt_sptab3 (io : DblIO D) (vd : Bool) (k rows cols : Nat) (m : List (SpMat Nat)) (hvalid : sp3ValidB k rows cols m = true)
    (hdim : rows * cols < two64) (h : ∀ t ∈ m, ∀ e ∈ t, CountRT io vd e.v) :
    RoundTrips (rdSpTab3 io vd k rows cols) wrSpTab3 m := by
  rw [sp3ValidB_iff] at hvalid
  exact rep_roundtrip' _ wrSpTab k m hvalid.1 (fun t ht => rt_sptab io vd rows cols t (hvalid.2 t ht) hdim (h t ht))

/-! ### round trips of every kind of object -/

theorem allNat_of_validB (v : List (Mat Nat))
    (h : v.all (fun t => t.all (fun r => r.all (fun n => decide (n < two64)))) = true) : AllMat3 (· < two64) v := by
  intro t ht r hr n hn
  simp only [List.all_eq_true, decide_eq_true_eq] at h
  exact h t ht r hr n hn

/-- **MDP::Experience**: every experience (any S, A, any counts below 2^64, any reward/M2 values that round-trip
    at the dense writer's precision) is read back identically, whatever follows on the stream. -/
theorem roundtrip_dexp (io : DblIO D) (pr : Prec) (S A : Nat) (e : DExp D) (hv : dexpValidB S A e = true)
    (hr : AllMat (RT io pr.dense) e.rewards) (hm : AllMat (RT io pr.dense) e.m2) :
    RoundTrips (rdDExp io S A) (wrDExp io pr) e := by
  simp only [dexpValidB, Bool.and_eq_true, decide_eq_true_eq, beq_iff_eq] at hv
  obtain ⟨⟨⟨⟨⟨ht, hsv⟩, hnv⟩, hsum⟩, hsr⟩, hsm⟩ := hv
  intro rest
  have h1 := rt_tab3 A S S e.visits hsv (allNat_of_validB _ hnv)
  have h2 := rt_mat io pr.dense S A e.rewards hsr hr
  have h3 := rt_mat io pr.dense S A e.m2 hsm hm
  simp only [rdDExp, wrDExp, bind_apply, List.cons_append, List.append_assoc, rdN_printN e.timesteps ht,
    h1 _, h2 _, h3 _, pure_apply, ← hsum]

/-- **MDP::SparseExperience** -/
theorem roundtrip_sexp (io : DblIO D) (pr : Prec) (vd : Bool) (S A : Nat) (e : SExp D) (hv : sexpValidB S A e = true)
    (hdimS : S * S < two64) (hdimA : S * A < two64)
    (hc : ∀ t ∈ e.visits, ∀ x ∈ t, CountRT io vd x.v)
    (hr : ∀ x ∈ e.rewards, RT io pr.sparse x.v) (hm : ∀ x ∈ e.m2, RT io pr.sparse x.v) :
    RoundTrips (rdSExp io vd S A) (wrSExp io pr) e := by
  simp only [sexpValidB, Bool.and_eq_true, decide_eq_true_eq, beq_iff_eq] at hv
  obtain ⟨⟨⟨⟨⟨ht, hsv⟩, _⟩, hsum⟩, hsr⟩, hsm⟩ := hv
  intro rest
  have h1 := rt_sptab3 io vd A S S e.visits hsv hdimS hc
  have h2 := rt_spmat io pr.sparse S A e.rewards hsr hdimA hr
  have h3 := rt_spmat io pr.sparse S A e.m2 hsm hdimA hm
  simp only [rdSExp, wrSExp, bind_apply, List.cons_append, List.append_assoc, rdN_printN e.timesteps ht,
    h1 _, h2 _, h3 _, pure_apply, ← hsum]

/-- **MDP::Model** -/
theorem roundtrip_dmodel (io : DblIO D) (pr : Prec) (S A : Nat) (m : DModel D) (hv : dmodelValidB io S A m = true)
    (hd : RT io pr.scalar m.discount) (ht : AllMat3 (RT io pr.dense) m.T) (hr : AllMat (RT io pr.dense) m.R) :
    RoundTrips (rdDModel io S A) (wrDModel io pr) m := by
  simp only [dmodelValidB, Bool.and_eq_true] at hv
  obtain ⟨⟨⟨hdisc, hst⟩, hprob⟩, hsr⟩ := hv
  intro rest
  have h1 := rt_mat3 io pr.dense A S S m.T hst ht
  have h2 := rt_mat io pr.dense S A m.R hsr hr
  simp only [rdDModel, wrDModel, bind_apply, List.cons_append, List.append_assoc,
    rdD_printD io pr.scalar m.discount hd, hdisc, h1 _, h2 _, hprob, need_true, pure_apply, Bool.not_true]
  rfl

/-- **MDP::SparseModel** -/
theorem roundtrip_smodel (io : DblIO D) (pr : Prec) (S A : Nat) (m : SModel D) (hv : smodelValidB io S A m = true)
    (hdimS : S * S < two64) (hdimA : S * A < two64)
    (hd : RT io pr.scalar m.discount) (ht : ∀ t ∈ m.T, ∀ x ∈ t, RT io pr.sparse x.v) (hr : ∀ x ∈ m.R, RT io pr.sparse x.v) :
    RoundTrips (rdSModel io S A) (wrSModel io pr) m := by
  simp only [smodelValidB, Bool.and_eq_true] at hv
  obtain ⟨⟨⟨hdisc, hst⟩, hprob⟩, hsr⟩ := hv
  intro rest
  have h1 := rt_spmat3 io pr.sparse A S S m.T hst hdimS ht
  have h2 := rt_spmat io pr.sparse S A m.R hsr hdimA hr
  simp only [rdSModel, wrSModel, bind_apply, List.cons_append, List.append_assoc,
    rdD_printD io pr.scalar m.discount hd, hdisc, h1 _, h2 _, hprob, need_true, pure_apply, Bool.not_true]
  rfl

/-- **POMDP::Model<M>** over any underlying model kind whose codec round-trips -/
theorem roundtrip_pd {M} (io : DblIO D) (pr : Prec) (rdM : Rd M) (wrM : M → Stream) (vM : M → Bool) (S A O : Nat)
    (x : M × List (Mat D)) (hv : pdValidB io vM S A O x = true) (hM : RoundTrips rdM wrM x.1)
    (ho : AllMat3 (RT io pr.dense) x.2) : RoundTrips (rdPD io rdM S A O) (wrPD io pr wrM) x := by
  simp only [pdValidB, Bool.and_eq_true] at hv
  obtain ⟨⟨_, hso⟩, hprob⟩ := hv
  intro rest
  have h1 := rt_mat3 io pr.dense A S O x.2 hso ho
  simp only [rdPD, wrPD, bind_apply, List.append_assoc, hM _, h1 _, hprob, need_true, pure_apply]

/-- **POMDP::SparseModel<M>** -/
theorem roundtrip_ps {M} (io : DblIO D) (pr : Prec) (rdM : Rd M) (wrM : M → Stream) (vM : M → Bool) (S A O : Nat)
    (x : M × List (SpMat D)) (hv : psValidB io vM S A O x = true) (hdim : S * O < two64) (hM : RoundTrips rdM wrM x.1)
    (ho : ∀ t ∈ x.2, ∀ e ∈ t, RT io pr.sparse e.v) : RoundTrips (rdPS io rdM S A O) (wrPS io pr wrM) x := by
  simp only [psValidB, Bool.and_eq_true] at hv
  obtain ⟨⟨_, hso⟩, hprob⟩ := hv
  intro rest
  have h1 := rt_spmat3 io pr.sparse A S O x.2 hso hdim ho
  simp only [rdPS, wrPS, bind_apply, List.append_assoc, hM _, h1 _, hprob, need_true, pure_apply]

/-- **MDP::Policy** -/
theorem roundtrip_mpol (io : DblIO D) (pr : Prec) (S A : Nat) (m : Mat D) (hv : mpolValidB io S A m = true)
    (h : AllMat (RT io pr.dense) m) : RoundTrips (rdMPol io S A) (wrMPol io pr) m := by
  simp only [mpolValidB, Bool.and_eq_true] at hv
  intro rest
  have h1 := rt_mat io pr.dense S A m hv.1 h
  simp only [rdMPol, wrMPol, bind_apply, h1 _, hv.2, need_true, pure_apply]

/-! ### POMDP::Policy -/

/-- the double scanner never accepts a token that starts with the horizon separator -/
def NoAt (io : DblIO D) : Prop := ∀ r, io.scanD ('@' :: r) = none

def EntryOK (io : DblIO D) (p S A O oldH : Nat) (e : VEntry D) : Prop :=
  e.values.length = S ∧ (∀ d ∈ e.values, RT io p d) ∧ e.action < A ∧ e.action < two64 ∧ e.obs.length = O ∧
  ∀ o ∈ e.obs, o < oldH ∧ o < two64

theorem rt_link (oldH o : Nat) (h : o < oldH) (h64 : o < two64) : RoundTrips (rdLink oldH) (fun o => [printN o]) o := by
  intro rest
  have : decide (o ≥ oldH) = false := by simp; omega
  simp [rdLink, rdN_printN o h64, this]

theorem rt_entry (io : DblIO D) (p S A O oldH : Nat) (e : VEntry D) (h : EntryOK io p S A O oldH e) :
    RoundTrips (rdEntry io S A O oldH) (wrEntry io p) e := by
  obtain ⟨hS, hRT, hA, hA64, hO, hobs⟩ := h
  intro rest
  have h1 := rt_vec io p S e.values hS hRT
  have h2 := rep_roundtrip' (rdLink oldH) (fun o => [printN o]) O e.obs hO (fun o ho => rt_link oldH o (hobs o ho).1 (hobs o ho).2)
  simp only [flatMap_singleton] at h2
  have h1 : ∀ rest, rep (rdD io) S (e.values.map (io.printD p) ++ rest) = .ok e.values rest := h1
  simp only [rdEntry, wrEntry, bind_apply, List.append_assoc, List.cons_append, h1 _, rdN_printN e.action hA64, hA,
    decide_true, need_true, h2 _, pure_apply]

theorem atSign_at (rest : Stream) : atSign (atTok :: rest) = (true, rest) := rfl

theorem atSign_nonAt (t : Tok) (ts : Stream) (h : t.head? ≠ some '@') : atSign (t :: ts) = (false, t :: ts) := by
  unfold atSign
  split
  · rename_i r ts' heq
    injection heq with h1 h2
    subst h1
    simp at h
  · rfl

theorem printN_head (n : Nat) : (printN n).head? ≠ some '@' := by
  have hne := digits_ne_nil n
  have hlt := digits_lt10 n
  unfold printN
  cases hd : digits n with
  | nil => exact absurd hd hne
  | cons d ds =>
    rw [hd] at hlt
    have := (digitChar_ne_sign d (hlt d (List.mem_cons_self))).2.2
    simpa using this

theorem printD_head (io : DblIO D) (hat : NoAt io) (p : Nat) (d : D) (h : RT io p d) : (io.printD p d).head? ≠ some '@' := by
  intro hh
  cases ht : io.printD p d with
  | nil => simp [ht] at hh
  | cons c r =>
    simp [ht] at hh
    subst hh
    have := hat r
    simp [RT, ht, this] at h

/-- the text of an entry starts with a token that is not the separator -/
theorem entry_head (io : DblIO D) (hat : NoAt io) (p S A O oldH : Nat) (e : VEntry D) (h : EntryOK io p S A O oldH e)
    (rest : Stream) : ∃ t ts, wrEntry io p e ++ rest = t :: ts ∧ t.head? ≠ some '@' := by
  cases hv : e.values with
  | nil => exact ⟨printN e.action, e.obs.map printN ++ rest, by simp [wrEntry, hv], printN_head _⟩
  | cons v vs =>
    refine ⟨io.printD p v, vs.map (io.printD p) ++ printN e.action :: (e.obs.map printN ++ rest), by simp [wrEntry, hv], printD_head io hat p v (h.2.1 v (by simp [hv]))⟩

theorem appendToLast_snoc {α} (xs : List (List α)) (l : List α) (e : α) : appendToLast (xs ++ [l]) e = xs ++ [l ++ [e]] := by
  simp [appendToLast]

theorem lastLen_snoc {α} (xs : List (List α)) (l : List α) : lastLen (xs ++ [l]) = l.length := by
  simp [lastLen]

/-- L1: inside one horizon — the remaining entries `e :: es`, the separator, then `tail` -/
theorem polLoop_entries (io : DblIO D) (hat : NoAt io) (p S A O oldH : Nat) :
    ∀ (es : List (VEntry D)) (e : VEntry D) (xs : VF D) (l : VList D) (f : Nat) (tail : Stream),
      (∀ x ∈ e :: es, EntryOK io p S A O oldH x) → es.length + 1 ≤ f →
      polLoop io S A O f (xs ++ [l]) false oldH ((e :: es).flatMap (wrEntry io p) ++ atTok :: tail)
        = polLoop io S A O (f - (es.length + 1)) (xs ++ [l ++ e :: es]) true oldH tail
  | [], e, xs, l, f, tail, hok, hf => by
    obtain ⟨f, rfl⟩ : ∃ g, f = g + 1 := ⟨f - 1, by simp at hf; omega⟩
    have he := rt_entry io p S A O oldH e (hok e (List.mem_cons_self)) (atTok :: tail)
    simp only [List.flatMap_cons, List.flatMap_nil, List.append_nil, polLoop, he, atSign_at, appendToLast_snoc]
    simp
  | e' :: es, e, xs, l, f, tail, hok, hf => by
    obtain ⟨f, rfl⟩ : ∃ g, f = g + 1 := ⟨f - 1, by simp at hf; omega⟩
    have he := rt_entry io p S A O oldH e (hok e (List.mem_cons_self))
      ((e' :: es).flatMap (wrEntry io p) ++ atTok :: tail)
    obtain ⟨t, ts, hts, hnat⟩ := entry_head io hat p S A O oldH e' (hok e' (by simp))
      (es.flatMap (wrEntry io p) ++ atTok :: tail)
    have hstream : (e :: e' :: es).flatMap (wrEntry io p) ++ atTok :: tail
        = wrEntry io p e ++ ((e' :: es).flatMap (wrEntry io p) ++ atTok :: tail) := by
      simp [List.flatMap_cons, List.append_assoc]
    have hnext : (e' :: es).flatMap (wrEntry io p) ++ atTok :: tail = t :: ts := by
      rw [← hts]; simp [List.flatMap_cons, List.append_assoc]
    rw [hstream]
    simp only [polLoop, he]
    rw [hnext, atSign_nonAt t ts hnat, ← hnext, appendToLast_snoc]
    have ih := polLoop_entries io hat p S A O oldH es e' xs (l ++ [e]) f tail
      (fun x hx => hok x (List.mem_cons_of_mem _ hx)) (by simp only [List.length_cons] at hf ⊢; omega)
    rw [ih]
    simp [List.append_assoc, Nat.add_sub_add_right]

/-- horizons `hs` hang correctly below a value function whose last list has `prev` entries -/
def HorizonsOK (io : DblIO D) (p S A O : Nat) : Nat → List (VList D) → Prop
  | _, [] => True
  | prev, l :: r => l ≠ [] ∧ l.length ≤ two64 ∧ (∀ e ∈ l, EntryOK io p S A O prev e) ∧ HorizonsOK io p S A O l.length r

def cost {α} (hs : List (List α)) : Nat := (hs.map (fun l => l.length + 1)).sum

/-- L2: at a horizon boundary — the remaining horizons `hs`, the closing separator, then `rest` -/
theorem polLoop_horizons (io : DblIO D) (hat : NoAt io) (p S A O : Nat) :
    ∀ (hs : List (VList D)) (vf : VF D) (oldH f : Nat) (rest : Stream),
      HorizonsOK io p S A O (lastLen vf) hs → cost hs + 1 ≤ f →
      polLoop io S A O f vf true oldH (hs.flatMap (wrVList io p) ++ atTok :: rest) = .ok (vf ++ hs) rest
  | [], vf, oldH, f, rest, _, hf => by
    obtain ⟨f, rfl⟩ : ∃ g, f = g + 1 := ⟨f - 1, by omega⟩
    simp [polLoop, atSign_at]
  | l :: hs, vf, oldH, f, rest, hok, hf => by
    obtain ⟨hne, _, hent, hrest⟩ := hok
    cases l with
    | nil => exact absurd rfl hne
    | cons e es =>
      have hc : cost ((e :: es) :: hs) = es.length + 1 + 1 + cost hs := by simp [cost]
      obtain ⟨f, rfl⟩ : ∃ g, f = g + 1 := ⟨f - 1, by omega⟩
      obtain ⟨t, ts, hts, hnat⟩ := entry_head io hat p S A O (lastLen vf) e (hent e (List.mem_cons_self))
        (es.flatMap (wrEntry io p) ++ atTok :: (hs.flatMap (wrVList io p) ++ atTok :: rest))
      have hstream : ((e :: es) :: hs).flatMap (wrVList io p) ++ atTok :: rest
          = (e :: es).flatMap (wrEntry io p) ++ atTok :: (hs.flatMap (wrVList io p) ++ atTok :: rest) := by
        simp [List.flatMap_cons, wrVList, List.append_assoc]
      have hhead : (e :: es).flatMap (wrEntry io p) ++ atTok :: (hs.flatMap (wrVList io p) ++ atTok :: rest) = t :: ts := by
        rw [← hts]; simp [List.flatMap_cons, List.append_assoc]
      rw [hstream, hhead]
      simp only [polLoop, atSign_nonAt t ts hnat]
      rw [← hhead]
      have h1 := polLoop_entries io hat p S A O (lastLen vf) es e vf [] f
        (hs.flatMap (wrVList io p) ++ atTok :: rest) hent (by omega)
      rw [h1]
      have ih := polLoop_horizons io hat p S A O hs (vf ++ [[] ++ e :: es]) (lastLen vf) (f - (es.length + 1)) rest
        (by simpa [lastLen_snoc] using hrest) (by omega)
      rw [ih]
      simp [List.append_assoc]

theorem length_le_streamSize : ∀ (s : Stream), s.length ≤ streamSize s
  | [] => by simp [streamSize]
  | t :: ts => by
    have ih := length_le_streamSize ts
    simp only [streamSize, List.map_cons, List.sum_cons, List.length_cons] at *
    omega

theorem wrEntries_length (io : DblIO D) (p : Nat) : ∀ (l : VList D), l.length ≤ (l.flatMap (wrEntry io p)).length
  | [] => by simp
  | e :: l => by
    have ih := wrEntries_length io p l
    simp only [List.flatMap_cons, List.length_append, List.length_cons, wrEntry, List.length_map] at *
    omega

theorem wrHorizons_length (io : DblIO D) (p : Nat) : ∀ (hs : List (VList D)), cost hs ≤ (hs.flatMap (wrVList io p)).length
  | [] => by simp [cost]
  | l :: hs => by
    have ih := wrHorizons_length io p hs
    have h1 := wrEntries_length io p l
    simp only [cost, List.map_cons, List.sum_cons, List.flatMap_cons, List.length_append, wrVList, List.length_cons,
      List.length_nil] at *
    omega

theorem entryOK_of_validB (io : DblIO D) (p S A O prev : Nat) (e : VEntry D) (hA : A ≤ two64) (hprev : prev ≤ two64)
    (hv : entryValidB S A O prev e = true) (hrt : ∀ d ∈ e.values, RT io p d) : EntryOK io p S A O prev e := by
  simp only [entryValidB, Bool.and_eq_true, beq_iff_eq, decide_eq_true_eq, List.all_eq_true] at hv
  obtain ⟨⟨⟨h1, h2⟩, h3⟩, h4⟩ := hv
  exact ⟨h1, hrt, h2, by omega, h3, fun o ho => ⟨h4 o ho, by have := h4 o ho; omega⟩⟩

theorem horizonsOK_of_validB (io : DblIO D) (p S A O : Nat) (hA : A ≤ two64) :
    ∀ (hs : List (VList D)) (prev : Nat), prev ≤ two64 → horizonsValidB S A O prev hs = true →
      (∀ l ∈ hs, l.length ≤ two64) → (∀ l ∈ hs, ∀ e ∈ l, ∀ d ∈ e.values, RT io p d) → HorizonsOK io p S A O prev hs
  | [], _, _, _, _, _ => trivial
  | l :: hs, prev, hprev, hv, hlen, hrt => by
    simp only [horizonsValidB, Bool.and_eq_true, List.all_eq_true] at hv
    obtain ⟨⟨hne, hent⟩, hrest⟩ := hv
    have hl := hlen l (List.mem_cons_self)
    refine ⟨?_, hl, ?_, ?_⟩
    · intro h; simp [h] at hne
    · intro e he
      exact entryOK_of_validB io p S A O prev e hA hprev (hent e he) (hrt l (List.mem_cons_self) e he)
    · exact horizonsOK_of_validB io p S A O hA hs l.length hl hrest (fun x hx => hlen x (List.mem_cons_of_mem _ hx))
        (fun x hx => hrt x (List.mem_cons_of_mem _ hx))

/-- **POMDP::Policy**: every policy of any horizon (horizon-0 list as `makeValueFunction` builds it, non-empty
    lists above, links into the previous list) whose values round-trip at the precision the writer has in force is read
    back identically, whatever follows the closing `@`. -/
theorem roundtrip_ppol [DecidableEq D] (io : DblIO D) (hat : NoAt io) (pr : Prec) (S A O : Nat) (vf : VF D)
    (hv : ppolValidB io S A O vf = true) (hA : A ≤ two64) (hlen : ∀ l ∈ vf, l.length ≤ two64)
    (hrt : ∀ l ∈ vf.drop 1, ∀ e ∈ l, ∀ d ∈ e.values, RT io pr.pomdpPolicy d) :
    RoundTrips (rdPPol io S A O) (wrPPol io pr) vf := by
  cases vf with
  | nil => simp [ppolValidB] at hv
  | cons h0 hs =>
    simp only [ppolValidB, Bool.and_eq_true, decide_eq_true_eq] at hv
    obtain ⟨rfl, hhs⟩ := hv
    have hok := horizonsOK_of_validB io pr.pomdpPolicy S A O hA hs 1 (by decide) hhs
      (fun l hl => hlen l (List.mem_cons_of_mem _ hl)) (by simpa using hrt)
    intro rest
    have hfuel : cost hs + 1 ≤ 2 * streamSize (hs.flatMap (wrVList io pr.pomdpPolicy) ++ atTok :: rest) + 2 := by
      have h1 := wrHorizons_length io pr.pomdpPolicy hs
      have h2 := length_le_streamSize (hs.flatMap (wrVList io pr.pomdpPolicy) ++ atTok :: rest)
      simp only [List.length_append] at h2
      omega
    have := polLoop_horizons io hat pr.pomdpPolicy S A O hs (vf0 io S) 1 _ rest (by simpa [vf0, lastLen] using hok) hfuel
    simpa [rdPPol, wrPPol, vf0, List.append_assoc] using this

/-! ### what a successful read guarantees, for EVERY input stream -/

theorem bind_ok_iff {α β} (m : Rd α) (f : α → Rd β) (s s' : Stream) (b : β) :
    Rd.bind m f s = .ok b s' ↔ ∃ a s1, m s = .ok a s1 ∧ f a s1 = .ok b s' := by
  simp only [bind_apply]
  cases m s with
  | ok a s1 =>
    constructor
    · intro h; exact ⟨a, s1, rfl, h⟩
    · rintro ⟨_, _, h1, h⟩
      injection h1 with h2 h3
      subst h2; subst h3; exact h
  | bad e => simp

theorem need_ok_iff (c : Bool) (s s' : Stream) (u : Unit) : need c s = .ok u s' ↔ c = true ∧ s = s' := by
  cases c <;> simp [need]

theorem pure_ok_iff {α} (a b : α) (s s' : Stream) : Rd.pure a s = .ok b s' ↔ a = b ∧ s = s' := by
  simp [Rd.pure]

theorem scanN_lt (t r : Tok) (n : Nat) (h : scanN t = some (n, r)) : n < two64 := by
  unfold scanN at h
  simp only [] at h
  split at h
  · simp at h
  · split at h
    · simp at h
    · rename_i hv
      simp only [Option.some.injEq, Prod.mk.injEq] at h
      rw [← h.1]
      split
      · exact Nat.mod_lt _ (by decide)
      · omega

theorem rdN_ok (s s' : Stream) (n : Nat) (h : rdN s = .ok n s') : n < two64 := by
  unfold rdN at h
  split at h
  · simp at h
  · split at h
    · simp at h
    · rename_i hsc
      simp only [R.ok.injEq] at h
      rw [← h.1]
      exact scanN_lt _ _ _ hsc

theorem rdVecGen_ok {α} (rd : Rd α) (P : α → Prop) (hP : ∀ s a s', rd s = .ok a s' → P a) (rows cols : Nat)
    (s s' : Stream) (m : Mat α) (h : rep (rep rd cols) rows s = .ok m s') : shapeB rows cols m = true ∧ AllMat P m := by
  have := rep_ok (rep rd cols) (fun r => r.length = cols ∧ ∀ x ∈ r, P x)
    (fun s a s' h => rep_ok rd P hP cols s a s' h) rows s m s' h
  rw [shapeB_iff]
  exact ⟨⟨this.1, fun r hr => (this.2 r hr).1⟩, fun r hr => (this.2 r hr).2⟩

theorem rdMat_ok (io : DblIO D) (rows cols : Nat) (s s' : Stream) (m : Mat D) (h : rdMat io rows cols s = .ok m s') :
    shapeB rows cols m = true :=
  (rdVecGen_ok (rdD io) (fun _ => True) (fun _ _ _ _ => trivial) rows cols s s' m h).1

theorem rdMat3_ok (io : DblIO D) (k rows cols : Nat) (s s' : Stream) (m : List (Mat D))
    (h : rdMat3 io k rows cols s = .ok m s') : shape3B k rows cols m = true := by
  have := rep_ok (rdMat io rows cols) (fun t => shapeB rows cols t = true) (fun s a s' h => rdMat_ok io rows cols s s' a h) k s m s' h
  rw [shape3B_iff]; exact this

theorem rdTab3_ok (k rows cols : Nat) (s s' : Stream) (m : List (Mat Nat)) (h : rdTab3 k rows cols s = .ok m s') :
    shape3B k rows cols m = true ∧ m.all (fun t => t.all (fun r => r.all (fun n => decide (n < two64)))) = true := by
  have := rep_ok (rdTab rows cols) (fun t => shapeB rows cols t = true ∧ AllMat (· < two64) t)
    (fun s a s' h => rdVecGen_ok rdN (· < two64) (fun s a s' h => rdN_ok s s' a h) rows cols s s' a h) k s m s' h
  rw [shape3B_iff]
  refine ⟨⟨this.1, fun t ht => (this.2 t ht).1⟩, ?_⟩
  simp only [List.all_eq_true, decide_eq_true_eq]
  intro t ht r hr n hn
  exact (this.2 t ht).2 r hr n hn

/-! sparse: `setFromTriplets` always produces storage order, and keeps indices in range -/

theorem insertSum_keys {V} (add : V → V → V) (e : SpE V) : ∀ (m : SpMat V) (y : SpE V), y ∈ insertSum add e m →
    (y.r = e.r ∧ y.c = e.c) ∨ ∃ x ∈ m, y.r = x.r ∧ y.c = x.c
  | [], y, h => by simp [insertSum] at h; simp [h]
  | x :: xs, y, h => by
    unfold insertSum at h
    split at h
    · rcases List.mem_cons.mp h with rfl | h
      · exact Or.inl ⟨rfl, rfl⟩
      · exact Or.inr ⟨y, h, rfl, rfl⟩
    · split at h
      · rcases List.mem_cons.mp h with rfl | h
        · exact Or.inr ⟨x, List.mem_cons_self, rfl, rfl⟩
        · exact Or.inr ⟨y, List.mem_cons_of_mem _ h, rfl, rfl⟩
      · rcases List.mem_cons.mp h with rfl | h
        · exact Or.inr ⟨y, List.mem_cons_self, rfl, rfl⟩
        · rcases insertSum_keys add e xs y h with h | ⟨x', hx', h⟩
          · exact Or.inl h
          · exact Or.inr ⟨x', List.mem_cons_of_mem _ hx', h⟩

theorem keyLt_congr_right {V} (a b b' : SpE V) (hr : b'.r = b.r) (hc : b'.c = b.c) (h : keyLt a b = true) : keyLt a b' = true := by
  rw [keyLt_iff] at *; omega
theorem keyLt_congr_left {V} (a a' b : SpE V) (hr : a'.r = a.r) (hc : a'.c = a.c) (h : keyLt a b = true) : keyLt a' b = true := by
  rw [keyLt_iff] at *; omega

theorem insertSum_sorted {V} (add : V → V → V) (e : SpE V) : ∀ (m : SpMat V), Sorted m → Sorted (insertSum add e m)
  | [], _ => by simp [insertSum, Sorted]
  | x :: xs, h => by
    simp only [Sorted, List.pairwise_cons] at h
    obtain ⟨hx, hxs⟩ := h
    unfold insertSum
    split
    · rename_i hlt
      simp only [Sorted, List.pairwise_cons]
      refine ⟨?_, hx, hxs⟩
      intro y hy
      rcases List.mem_cons.mp hy with rfl | hy
      · exact hlt
      · exact keyLt_trans e x y hlt (hx y hy)
    · split
      · simp only [Sorted, List.pairwise_cons]
        exact ⟨fun y hy => keyLt_congr_left x _ y rfl rfl (hx y hy), hxs⟩
      · rename_i hnlt hneq
        simp only [Sorted, List.pairwise_cons]
        refine ⟨?_, insertSum_sorted add e xs hxs⟩
        intro y hy
        have hxe : keyLt x e = true := keyLt_total e x (by simpa using hnlt) (by simpa using hneq)
        rcases insertSum_keys add e xs y hy with ⟨h1, h2⟩ | ⟨x', hx', h1, h2⟩
        · exact keyLt_congr_right x e y h1 h2 hxe
        · exact keyLt_congr_right x x' y h1 h2 (hx x' hx')

theorem fromTriplets_valid {V} (add : V → V → V) (rows cols : Nat) (ts : List (SpE V))
    (hr : ∀ e ∈ ts, e.r < rows ∧ e.c < cols) : spValidB rows cols (fromTriplets add ts) = true := by
  have key : ∀ (ts acc : SpMat V), Sorted acc → (∀ e ∈ acc, e.r < rows ∧ e.c < cols) → (∀ e ∈ ts, e.r < rows ∧ e.c < cols) →
      Sorted (ts.foldl (fun m e => insertSum add e m) acc) ∧ ∀ e ∈ ts.foldl (fun m e => insertSum add e m) acc, e.r < rows ∧ e.c < cols := by
    intro ts
    induction ts with
    | nil => intro acc h1 h2 _; exact ⟨h1, h2⟩
    | cons t ts ih =>
      intro acc h1 h2 h3
      simp only [List.foldl_cons]
      apply ih _ (insertSum_sorted add t acc h1)
      · intro y hy
        rcases insertSum_keys add t acc y hy with ⟨e1, e2⟩ | ⟨x, hx, e1, e2⟩
        · have := h3 t (List.mem_cons_self); omega
        · have := h2 x hx; omega
      · exact fun e he => h3 e (List.mem_cons_of_mem _ he)
  have := key ts [] (by simp [Sorted]) (by simp) hr
  simp only [spValidB, Bool.and_eq_true, sortedB_iff, inRangeB_iff]
  exact this

theorem rdTriplets_ok {V} (rdV : Rd V) (P : V → Prop) (hP : ∀ s a s', rdV s = .ok a s' → P a) (rows cols : Nat) :
    ∀ (n : Nat) (s s' : Stream) (ts : List (SpE V)), rdTriplets rdV rows cols n s = .ok ts s' →
      ∀ e ∈ ts, e.r < rows ∧ e.c < cols ∧ P e.v
  | 0, s, s', ts, h => by
    have h' : Rd.pure [] s = .ok ts s' := h
    rw [pure_ok_iff] at h'
    simp [← h'.1]
  | n + 1, s, s', ts, h => by
    simp only [rdTriplets, bind_ok_iff, need_ok_iff, pure_ok_iff, decide_eq_true_eq] at h
    obtain ⟨r, s1, _, c, s2, _, v, s3, hv, _, s4, ⟨hr, _⟩, _, s5, ⟨hc, _⟩, rest, s6, hrest, rfl, _⟩ := h
    intro e he
    rcases List.mem_cons.mp he with rfl | he
    · exact ⟨hr, hc, hP _ _ _ hv⟩
    · exact rdTriplets_ok rdV P hP rows cols n _ _ rest hrest e he

theorem fromTriplets_all {V} (add : V → V → V) (P : V → Prop) (hadd : ∀ a b, P a → P b → P (add a b)) :
    ∀ (ts acc : SpMat V), (∀ e ∈ acc, P e.v) → (∀ e ∈ ts, P e.v) → ∀ e ∈ ts.foldl (fun m e => insertSum add e m) acc, P e.v := by
  have ins : ∀ (t : SpE V) (acc : SpMat V), P t.v → (∀ e ∈ acc, P e.v) → ∀ e ∈ insertSum add t acc, P e.v := by
    intro t acc
    induction acc with
    | nil => intro ht _ e he; simp [insertSum] at he; simp [he, ht]
    | cons x xs ih =>
      intro ht hacc e he
      unfold insertSum at he
      split at he
      · rcases List.mem_cons.mp he with rfl | he
        · exact ht
        · exact hacc e he
      · split at he
        · rcases List.mem_cons.mp he with rfl | he
          · exact hadd _ _ (hacc x List.mem_cons_self) ht
          · exact hacc e (List.mem_cons_of_mem _ he)
        · rcases List.mem_cons.mp he with rfl | he
          · exact hacc e List.mem_cons_self
          · exact ih ht (fun y hy => hacc y (List.mem_cons_of_mem _ hy)) e he
  intro ts
  induction ts with
  | nil => intro acc h1 _; simpa using h1
  | cons t ts ih =>
    intro acc h1 h2
    simp only [List.foldl_cons]
    exact ih _ (ins t acc (h2 t List.mem_cons_self) h1) (fun e he => h2 e (List.mem_cons_of_mem _ he))

theorem rdSpGen_ok {V} (rdV : Rd V) (add : V → V → V) (P : V → Prop) (hP : ∀ s a s', rdV s = .ok a s' → P a)
    (hadd : ∀ a b, P a → P b → P (add a b)) (rows cols : Nat)
    (s s' : Stream) (m : SpMat V) (h : rdSpGen rdV add rows cols s = .ok m s') :
    spValidB rows cols m = true ∧ ∀ e ∈ m, P e.v := by
  simp only [rdSpGen, bind_ok_iff, need_ok_iff, pure_ok_iff] at h
  obtain ⟨n, s1, _, _, s2, _, ts, s3, hts, rfl, _⟩ := h
  have hr := rdTriplets_ok rdV P hP rows cols n _ _ ts hts
  exact ⟨fromTriplets_valid add rows cols ts (fun e he => ⟨(hr e he).1, (hr e he).2.1⟩),
    fromTriplets_all add P hadd ts [] (by simp) (fun e he => (hr e he).2.2)⟩

theorem rdSpMat_ok (io : DblIO D) (rows cols : Nat) (s s' : Stream) (m : SpMat D) (h : rdSpMat io rows cols s = .ok m s') :
    spValidB rows cols m = true :=
  (rdSpGen_ok (rdD io) io.add (fun _ => True) (fun _ _ _ _ => trivial) (fun _ _ _ _ => trivial) rows cols s s' m h).1

theorem rdSpMat3_ok (io : DblIO D) (k rows cols : Nat) (s s' : Stream) (m : List (SpMat D))
    (h : rdSpMat3 io k rows cols s = .ok m s') : sp3ValidB k rows cols m = true := by
  have := rep_ok (rdSpMat io rows cols) (fun t => spValidB rows cols t = true) (fun s a s' h => rdSpMat_ok io rows cols s s' a h) k s m s' h
  rw [sp3ValidB_iff]; exact this

theorem rdCount_ok (io : DblIO D) (hc : ∀ d, io.toCount d < two64) (vd : Bool) (s s' : Stream) (n : Nat)
    (h : rdCount io vd s = .ok n s') : n < two64 := by
  cases vd with
  | false => exact rdN_ok s s' n (by simpa [rdCount] using h)
  | true =>
    simp only [rdCount, if_true, bind_ok_iff, pure_ok_iff] at h
    obtain ⟨d, s1, _, rfl, _⟩ := h
    exact hc d

theorem addN_lt (a b : Nat) : addN a b < two64 := Nat.mod_lt _ (by decide)

theorem rdSpTab3_ok (io : DblIO D) (hc : ∀ d, io.toCount d < two64) (vd : Bool) (k rows cols : Nat) (s s' : Stream) (m : List (SpMat Nat))
    (h : rdSpTab3 io vd k rows cols s = .ok m s') :
    sp3ValidB k rows cols m = true ∧ m.all (fun t => t.all (fun x => decide (x.v < two64))) = true := by
  have := rep_ok (rdSpTab io vd rows cols) (fun t => spValidB rows cols t = true ∧ ∀ e ∈ t, e.v < two64)
    (fun s a s' h => rdSpGen_ok (rdCount io vd) addN (· < two64) (fun s a s' h => rdCount_ok io hc vd s s' a h)
      (fun a b _ _ => addN_lt a b) rows cols s s' a h) k s m s' h
  rw [sp3ValidB_iff]
  refine ⟨⟨this.1, fun t ht => (this.2 t ht).1⟩, ?_⟩
  simp only [List.all_eq_true, decide_eq_true_eq]
  exact fun t ht e he => (this.2 t ht).2 e he

/-- **every stream, MDP::Experience**: whatever the input, a successful read yields a well-formed experience
    (shapes, counts in range, `visitsSum` consistent with the visits table). -/
theorem rdDExp_ok (io : DblIO D) (S A : Nat) (s s' : Stream) (e : DExp D) (h : rdDExp io S A s = .ok e s') :
    dexpValidB S A e = true := by
  simp only [rdDExp, bind_ok_iff, pure_ok_iff] at h
  obtain ⟨t, s1, ht, v, s2, hv, r, s3, hr, m, s4, hm, rfl, _⟩ := h
  have h1 := rdTab3_ok A S S _ _ v hv
  simp [dexpValidB, rdN_ok _ _ t ht, h1.1, h1.2, rdMat_ok io S A _ _ r hr, rdMat_ok io S A _ _ m hm]

theorem rdSExp_ok (io : DblIO D) (hc : ∀ d, io.toCount d < two64) (vd : Bool) (S A : Nat) (s s' : Stream) (e : SExp D)
    (h : rdSExp io vd S A s = .ok e s') : sexpValidB S A e = true := by
  simp only [rdSExp, bind_ok_iff, pure_ok_iff] at h
  obtain ⟨t, s1, ht, v, s2, hv, r, s3, hr, m, s4, hm, rfl, _⟩ := h
  have h1 := rdSpTab3_ok io hc vd A S S _ _ v hv
  simp [sexpValidB, rdN_ok _ _ t ht, h1.1, h1.2, rdSpMat_ok io S A _ _ r hr, rdSpMat_ok io S A _ _ m hm]

theorem rdDModel_ok (io : DblIO D) (S A : Nat) (s s' : Stream) (m : DModel D) (h : rdDModel io S A s = .ok m s') :
    dmodelValidB io S A m = true := by
  simp only [rdDModel, bind_ok_iff] at h
  obtain ⟨d, s1, _, h⟩ := h
  split at h
  · simp at h
  · rename_i hd
    simp only [bind_ok_iff, need_ok_iff, pure_ok_iff] at h
    obtain ⟨t, s2, ht, _, s3, ⟨hp, _⟩, r, s4, hr, rfl, _⟩ := h
    simp at hd
    simp [dmodelValidB, hd, rdMat3_ok io A S S _ _ t ht, hp, rdMat_ok io S A _ _ r hr]

theorem rdSModel_ok (io : DblIO D) (S A : Nat) (s s' : Stream) (m : SModel D) (h : rdSModel io S A s = .ok m s') :
    smodelValidB io S A m = true := by
  simp only [rdSModel, bind_ok_iff] at h
  obtain ⟨d, s1, _, h⟩ := h
  split at h
  · simp at h
  · rename_i hd
    simp only [bind_ok_iff, need_ok_iff, pure_ok_iff] at h
    obtain ⟨t, s2, ht, _, s3, ⟨hp, _⟩, r, s4, hr, rfl, _⟩ := h
    simp at hd
    simp [smodelValidB, hd, rdSpMat3_ok io A S S _ _ t ht, hp, rdSpMat_ok io S A _ _ r hr]

theorem rdPD_ok {M} (io : DblIO D) (rdM : Rd M) (vM : M → Bool) (hM : ∀ s a s', rdM s = .ok a s' → vM a = true)
    (S A O : Nat) (s s' : Stream) (x : M × List (Mat D)) (h : rdPD io rdM S A O s = .ok x s') :
    pdValidB io vM S A O x = true := by
  simp only [rdPD, bind_ok_iff, need_ok_iff, pure_ok_iff] at h
  obtain ⟨m, s1, hm, o, s2, ho, _, s3, ⟨hp, _⟩, rfl, _⟩ := h
  simp [pdValidB, hM _ _ _ hm, rdMat3_ok io A S O _ _ o ho, hp]

theorem rdPS_ok {M} (io : DblIO D) (rdM : Rd M) (vM : M → Bool) (hM : ∀ s a s', rdM s = .ok a s' → vM a = true)
    (S A O : Nat) (s s' : Stream) (x : M × List (SpMat D)) (h : rdPS io rdM S A O s = .ok x s') :
    psValidB io vM S A O x = true := by
  simp only [rdPS, bind_ok_iff, need_ok_iff, pure_ok_iff] at h
  obtain ⟨m, s1, hm, o, s2, ho, _, s3, ⟨hp, _⟩, rfl, _⟩ := h
  simp [psValidB, hM _ _ _ hm, rdSpMat3_ok io A S O _ _ o ho, hp]

theorem rdMPol_ok (io : DblIO D) (S A : Nat) (s s' : Stream) (m : Mat D) (h : rdMPol io S A s = .ok m s') :
    mpolValidB io S A m = true := by
  simp only [rdMPol, bind_ok_iff, need_ok_iff, pure_ok_iff] at h
  obtain ⟨m', s1, hm, _, s2, ⟨hp, _⟩, rfl, _⟩ := h
  simp [mpolValidB, rdMat_ok io S A _ _ m' hm, hp]

/-! every stream, POMDP::Policy: the loop invariant -/

def lastLenFrom {α} : Nat → List (List α) → Nat
  | prev, [] => prev
  | _, h :: hs => lastLenFrom h.length hs

theorem horizonsValidB_snoc (S A O : Nat) : ∀ (hs : List (VList D)) (prev : Nat) (l : VList D),
    horizonsValidB S A O prev (hs ++ [l]) =
      (horizonsValidB S A O prev hs && (!l.isEmpty && l.all (entryValidB S A O (lastLenFrom prev hs))))
  | [], prev, l => by simp [horizonsValidB, lastLenFrom]
  | h :: hs, prev, l => by
    have ih := horizonsValidB_snoc S A O hs h.length l
    have hl : lastLenFrom prev (h :: hs) = lastLenFrom h.length hs := rfl
    simp only [List.cons_append, horizonsValidB, ih, hl, Bool.and_assoc]

theorem lastLenFrom_ne_zero (S A O : Nat) : ∀ (hs : List (VList D)) (prev : Nat), prev ≠ 0 →
    horizonsValidB S A O prev hs = true → lastLenFrom prev hs ≠ 0
  | [], prev, hp, _ => by simpa [lastLenFrom] using hp
  | h :: hs, prev, _, hv => by
    simp only [horizonsValidB, Bool.and_eq_true] at hv
    have hne : h.length ≠ 0 := by
      intro h0
      have : h = [] := List.length_eq_zero_iff.mp h0
      simp [this] at hv
    have hl : lastLenFrom prev (h :: hs) = lastLenFrom h.length hs := rfl
    rw [hl]
    exact lastLenFrom_ne_zero S A O hs h.length hne hv.2

theorem lastLen_cons {α} : ∀ (hs : List (List α)) (x : List α), lastLen (x :: hs) = lastLenFrom x.length hs
  | [], x => by simp [lastLen, lastLenFrom]
  | h :: hs, x => by
    have ih := lastLen_cons hs h
    simp only [lastLen, List.getLast?_cons_cons] at *
    rw [ih]; rfl

theorem lastLen_vf0_append (io : DblIO D) (S : Nat) (hs : List (VList D)) : lastLen (vf0 io S ++ hs) = lastLenFrom 1 hs := by
  simp only [vf0, List.cons_append, List.nil_append]
  rw [lastLen_cons]; rfl

theorem rdLink_ok (oldH : Nat) (h0 : oldH ≠ 0) (s s' : Stream) (o : Nat) (h : rdLink oldH s = .ok o s') : o < oldH := by
  simp only [rdLink, bind_ok_iff, need_ok_iff, pure_ok_iff] at h
  obtain ⟨o', s1, _, _, s2, ⟨hc, _⟩, rfl, _⟩ := h
  simp [h0] at hc
  exact hc

theorem rdEntry_ok (io : DblIO D) (S A O oldH : Nat) (h0 : oldH ≠ 0) (s s' : Stream) (e : VEntry D)
    (h : rdEntry io S A O oldH s = .ok e s') : entryValidB S A O oldH e = true := by
  simp only [rdEntry, bind_ok_iff, need_ok_iff, pure_ok_iff, decide_eq_true_eq] at h
  obtain ⟨vals, s1, hv, a, s2, _, _, s3, ⟨ha, _⟩, obs, s4, hobs, rfl, _⟩ := h
  have h1 := rep_ok (rdD io) (fun _ => True) (fun _ _ _ _ => trivial) S s vals s1 hv
  have h2 := rep_ok (rdLink oldH) (· < oldH) (fun s a s' h => rdLink_ok oldH h0 s s' a h) O _ obs _ hobs
  simp only [entryValidB, Bool.and_eq_true, beq_iff_eq, decide_eq_true_eq, List.all_eq_true]
  exact ⟨⟨⟨h1.1, ha⟩, h2.1⟩, h2.2⟩

/-- loop invariant: the value function built so far is the horizon-0 list followed by valid horizons; while a
    horizon is being filled its entries so far are valid against `oldH`, the size of the list below it -/
def PolInv [DecidableEq D] (io : DblIO D) (S A O : Nat) (vf : VF D) (newH : Bool) (oldH : Nat) : Prop :=
  if newH then ∃ hs, vf = vf0 io S ++ hs ∧ horizonsValidB S A O 1 hs = true
  else ∃ hs cur, vf = vf0 io S ++ hs ++ [cur] ∧ horizonsValidB S A O 1 hs = true ∧ oldH = lastLenFrom 1 hs ∧
    cur.all (entryValidB S A O oldH) = true

theorem polLoop_ok [DecidableEq D] (io : DblIO D) (S A O : Nat) :
    ∀ (f : Nat) (vf : VF D) (newH : Bool) (oldH : Nat) (s s' : Stream) (y : VF D),
      PolInv io S A O vf newH oldH → polLoop io S A O f vf newH oldH s = .ok y s' → ppolValidB io S A O y = true
  | 0, _, _, _, _, _, _, _, h => by simp [polLoop] at h
  | f + 1, vf, true, oldH, s, s', y, hinv, h => by
    simp only [PolInv, if_true] at hinv
    obtain ⟨hs, rfl, hv⟩ := hinv
    simp only [polLoop] at h
    split at h
    · simp only [R.ok.injEq] at h
      rw [← h.1]
      simp [vf0, ppolValidB, hv]
    · refine polLoop_ok io S A O f _ false _ s s' y ?_ h
      simp only [PolInv, Bool.false_eq_true, if_false]
      exact ⟨hs, [], rfl, hv, lastLen_vf0_append io S hs, by simp⟩
  | f + 1, vf, false, oldH, s, s', y, hinv, h => by
    simp only [PolInv, Bool.false_eq_true, if_false] at hinv
    obtain ⟨hs, cur, rfl, hv, hold, hcur⟩ := hinv
    simp only [polLoop] at h
    split at h
    · simp at h
    · rename_i e s1 he
      have h0 : oldH ≠ 0 := by rw [hold]; exact lastLenFrom_ne_zero S A O hs 1 (by decide) hv
      have hent := rdEntry_ok io S A O oldH h0 s s1 e he
      rw [appendToLast_snoc] at h
      cases hb : (atSign s1).1 with
      | false =>
        have : atSign s1 = (false, (atSign s1).2) := by rw [← hb]
        rw [this] at h
        refine polLoop_ok io S A O f _ false oldH _ s' y ?_ h
        simp only [PolInv, Bool.false_eq_true, if_false]
        exact ⟨hs, cur ++ [e], rfl, hv, hold, by simp [List.all_append, hcur, hent]⟩
      | true =>
        have : atSign s1 = (true, (atSign s1).2) := by rw [← hb]
        rw [this] at h
        refine polLoop_ok io S A O f _ true oldH _ s' y ?_ h
        simp only [PolInv, if_true]
        refine ⟨hs ++ [cur ++ [e]], by simp [List.append_assoc], ?_⟩
        rw [horizonsValidB_snoc, ← hold]
        simp [hv, List.all_append, hcur, hent]

/-- **every stream, POMDP::Policy**: whatever the input, a successful read yields a coherent policy — horizon 0 as
    `makeValueFunction` builds it, every other list non-empty, every entry with S values, an action below A and O
    links that all point into the list below. -/
theorem rdPPol_ok [DecidableEq D] (io : DblIO D) (S A O : Nat) (s s' : Stream) (y : VF D)
    (h : rdPPol io S A O s = .ok y s') : ppolValidB io S A O y = true := by
  refine polLoop_ok io S A O _ (vf0 io S) true 1 s s' y ?_ h
  simp only [PolInv, if_true]
  exact ⟨[], by simp, by simp [horizonsValidB]⟩

/-! ### failed loads are atomic; successful loads are valid — for EVERY token list -/

/-- `operator>>` as a whole: either the stream stays good and the destination now holds a valid object, or a failure
    is signalled (failbit or exception) and the destination is exactly what it was. -/
theorem failed_read_atomic {α} (rd : Rd α) (valid : α → Bool) (hok : ∀ s a s', rd s = .ok a s' → valid a = true)
    (dest : α) (s : Stream) :
    ((load rd dest s).sig = none ∧ valid (load rd dest s).dest = true) ∨
    ((load rd dest s).sig ≠ none ∧ (load rd dest s).dest = dest) := by
  unfold load
  cases h : rd s with
  | ok y rest => exact Or.inl ⟨rfl, hok s y rest h⟩
  | bad e => exact Or.inr ⟨by simp, rfl⟩

/-- a load of what was written replaces the destination by the written object and leaves what follows unread -/
theorem load_roundtrip {α} (rd : Rd α) (wr : α → Stream) (x : α) (h : RoundTrips rd wr x) (dest : α) (rest : Stream) :
    load rd dest (wr x ++ rest) = ⟨x, none, rest⟩ := by
  simp [load, h rest]

theorem failed_read_atomic_dexp (io : DblIO D) (S A : Nat) (dest : DExp D) (s : Stream) :
    ((load (rdDExp io S A) dest s).sig = none ∧ dexpValidB S A (load (rdDExp io S A) dest s).dest = true) ∨
    ((load (rdDExp io S A) dest s).sig ≠ none ∧ (load (rdDExp io S A) dest s).dest = dest) :=
  failed_read_atomic _ _ (fun s a s' h => rdDExp_ok io S A s s' a h) dest s

theorem failed_read_atomic_sexp (io : DblIO D) (hc : ∀ d, io.toCount d < two64) (vd : Bool) (S A : Nat) (dest : SExp D) (s : Stream) :
    ((load (rdSExp io vd S A) dest s).sig = none ∧ sexpValidB S A (load (rdSExp io vd S A) dest s).dest = true) ∨
    ((load (rdSExp io vd S A) dest s).sig ≠ none ∧ (load (rdSExp io vd S A) dest s).dest = dest) :=
  failed_read_atomic _ _ (fun s a s' h => rdSExp_ok io hc vd S A s s' a h) dest s

theorem failed_read_atomic_dmodel (io : DblIO D) (S A : Nat) (dest : DModel D) (s : Stream) :
    ((load (rdDModel io S A) dest s).sig = none ∧ dmodelValidB io S A (load (rdDModel io S A) dest s).dest = true) ∨
    ((load (rdDModel io S A) dest s).sig ≠ none ∧ (load (rdDModel io S A) dest s).dest = dest) :=
  failed_read_atomic _ _ (fun s a s' h => rdDModel_ok io S A s s' a h) dest s

theorem failed_read_atomic_smodel (io : DblIO D) (S A : Nat) (dest : SModel D) (s : Stream) :
    ((load (rdSModel io S A) dest s).sig = none ∧ smodelValidB io S A (load (rdSModel io S A) dest s).dest = true) ∨
    ((load (rdSModel io S A) dest s).sig ≠ none ∧ (load (rdSModel io S A) dest s).dest = dest) :=
  failed_read_atomic _ _ (fun s a s' h => rdSModel_ok io S A s s' a h) dest s

/-- POMDP::Model<M> for any underlying reader whose successes are valid (instantiate `rdM` with `rdDModel` / `rdSModel`) -/
theorem failed_read_atomic_pd {M} (io : DblIO D) (rdM : Rd M) (vM : M → Bool) (hM : ∀ s a s', rdM s = .ok a s' → vM a = true)
    (S A O : Nat) (dest : M × List (Mat D)) (s : Stream) :
    ((load (rdPD io rdM S A O) dest s).sig = none ∧ pdValidB io vM S A O (load (rdPD io rdM S A O) dest s).dest = true) ∨
    ((load (rdPD io rdM S A O) dest s).sig ≠ none ∧ (load (rdPD io rdM S A O) dest s).dest = dest) :=
  failed_read_atomic _ _ (fun s a s' h => rdPD_ok io rdM vM hM S A O s s' a h) dest s

theorem failed_read_atomic_ps {M} (io : DblIO D) (rdM : Rd M) (vM : M → Bool) (hM : ∀ s a s', rdM s = .ok a s' → vM a = true)
    (S A O : Nat) (dest : M × List (SpMat D)) (s : Stream) :
    ((load (rdPS io rdM S A O) dest s).sig = none ∧ psValidB io vM S A O (load (rdPS io rdM S A O) dest s).dest = true) ∨
    ((load (rdPS io rdM S A O) dest s).sig ≠ none ∧ (load (rdPS io rdM S A O) dest s).dest = dest) :=
  failed_read_atomic _ _ (fun s a s' h => rdPS_ok io rdM vM hM S A O s s' a h) dest s

theorem failed_read_atomic_mpol (io : DblIO D) (S A : Nat) (dest : Mat D) (s : Stream) :
    ((load (rdMPol io S A) dest s).sig = none ∧ mpolValidB io S A (load (rdMPol io S A) dest s).dest = true) ∨
    ((load (rdMPol io S A) dest s).sig ≠ none ∧ (load (rdMPol io S A) dest s).dest = dest) :=
  failed_read_atomic _ _ (fun s a s' h => rdMPol_ok io S A s s' a h) dest s

theorem failed_read_atomic_ppol [DecidableEq D] (io : DblIO D) (S A O : Nat) (dest : VF D) (s : Stream) :
    ((load (rdPPol io S A O) dest s).sig = none ∧ ppolValidB io S A O (load (rdPPol io S A O) dest s).dest = true) ∨
    ((load (rdPPol io S A O) dest s).sig ≠ none ∧ (load (rdPPol io S A O) dest s).dest = dest) :=
  failed_read_atomic _ _ (fun s a s' h => rdPPol_ok io S A O s s' a h) dest s

/-- prefix behaviour: every prefix (in particular every truncation) of a written object either fails, leaving the
    destination alone, or loads a valid object (a cut inside the last number can legitimately parse). -/
theorem prefix_behaviour {α} (rd : Rd α) (wr : α → Stream) (valid : α → Bool)
    (hok : ∀ s a s', rd s = .ok a s' → valid a = true) (x dest : α) (k : Nat) :
    ((load rd dest ((wr x).take k)).sig ≠ none ∧ (load rd dest ((wr x).take k)).dest = dest) ∨
    ((load rd dest ((wr x).take k)).sig = none ∧ valid (load rd dest ((wr x).take k)).dest = true) :=
  (failed_read_atomic rd valid hok dest ((wr x).take k)).symm

/-! ### the instance the driver runs, and the facts read off the source (`AITB.Gen.IOPrec`) -/

/-- the trusted classical fact, as a hypothesis: at `max_digits10` or more significant digits every double is read back exactly -/
def Dbl17 (io : DblIO D) : Prop := ∀ p, 17 ≤ p → ∀ d, RT io p d

/-- the writer precisions found in the source by tools/extract_c17.py -/
def genPrec : Prec := ⟨AITB.Gen.IOPrec.scalar, AITB.Gen.IOPrec.dense, AITB.Gen.IOPrec.sparse, AITB.Gen.IOPrec.pomdpPolicy, AITB.Gen.IOPrec.vector⟩

/-- obligation over the regenerated module: the shared writers of src/Utils/IO.cpp print at `max_digits10` -/
theorem IOPrec_utils_ge_17 : 17 ≤ AITB.Gen.IOPrec.scalar ∧ 17 ≤ AITB.Gen.IOPrec.vector ∧ 17 ≤ AITB.Gen.IOPrec.dense ∧
    17 ≤ AITB.Gen.IOPrec.sparse := by decide

/-- obligation: the POMDP policy writer is either the code as first read (stream default, 6 digits: finding C17-1)
    or prints at 17 digits or more — any other value is a new defect -/
theorem IOPrec_pomdpPolicy : AITB.Gen.IOPrec.pomdpPolicy = 6 ∨ 17 ≤ AITB.Gen.IOPrec.pomdpPolicy := by decide

/-- obligation: every `operator>>` assigns its destination only after the last failure exit -/
theorem IOPrec_commit_last : AITB.Gen.IOPrec.commitLast.all (·.2) = true := by decide

theorem ratIO_noAt (tol : Rat) : NoAt (ratIO tol) := fun _ => rfl
theorem ratIO_toCount_lt (tol : Rat) : ∀ d, (ratIO tol).toCount d < two64 := by
  intro d
  simp only [ratIO, toCountQ]
  split <;> exact Nat.mod_lt _ (by decide)

/-- with the trusted fact, the source's precisions give the full round trip of dense models … -/
theorem roundtrip_dmodel_src (io : DblIO D) (h17 : Dbl17 io) (S A : Nat) (m : DModel D) (hv : dmodelValidB io S A m = true) :
    RoundTrips (rdDModel io S A) (wrDModel io genPrec) m :=
  roundtrip_dmodel io genPrec S A m hv (h17 _ IOPrec_utils_ge_17.1 _)
    (fun _ _ _ _ _ _ => h17 _ IOPrec_utils_ge_17.2.2.1 _) (fun _ _ _ _ => h17 _ IOPrec_utils_ge_17.2.2.1 _)

theorem roundtrip_smodel_src (io : DblIO D) (h17 : Dbl17 io) (S A : Nat) (m : SModel D) (hv : smodelValidB io S A m = true)
    (hdimS : S * S < two64) (hdimA : S * A < two64) : RoundTrips (rdSModel io S A) (wrSModel io genPrec) m :=
  roundtrip_smodel io genPrec S A m hv hdimS hdimA (h17 _ IOPrec_utils_ge_17.1 _)
    (fun _ _ _ _ => h17 _ IOPrec_utils_ge_17.2.2.2 _) (fun _ _ => h17 _ IOPrec_utils_ge_17.2.2.2 _)

theorem roundtrip_dexp_src (io : DblIO D) (h17 : Dbl17 io) (S A : Nat) (e : DExp D) (hv : dexpValidB S A e = true) :
    RoundTrips (rdDExp io S A) (wrDExp io genPrec) e :=
  roundtrip_dexp io genPrec S A e hv (fun _ _ _ _ => h17 _ IOPrec_utils_ge_17.2.2.1 _) (fun _ _ _ _ => h17 _ IOPrec_utils_ge_17.2.2.1 _)

theorem roundtrip_mpol_src (io : DblIO D) (h17 : Dbl17 io) (S A : Nat) (m : Mat D) (hv : mpolValidB io S A m = true) :
    RoundTrips (rdMPol io S A) (wrMPol io genPrec) m :=
  roundtrip_mpol io genPrec S A m hv (fun _ _ _ _ => h17 _ IOPrec_utils_ge_17.2.2.1 _)

/-- FULL STATEMENT (holds once fix C17-2 is in: `sparseTableViaDouble = false`):
      ∀ e, sexpValidB S A e → RoundTrips (rdSExp io IOPrec.sparseTableViaDouble S A) (wrSExp io genPrec) e.
    Proved form: with the flag as a hypothesis, or (below) with every count surviving the detour through `double`. -/
theorem roundtrip_sexp_src (io : DblIO D) (h17 : Dbl17 io) (hfix : AITB.Gen.IOPrec.sparseTableViaDouble = false)
    (S A : Nat) (e : SExp D) (hv : sexpValidB S A e = true) (hdimS : S * S < two64) (hdimA : S * A < two64) :
    RoundTrips (rdSExp io AITB.Gen.IOPrec.sparseTableViaDouble S A) (wrSExp io genPrec) e := by
  have hv' := hv
  simp only [sexpValidB, Bool.and_eq_true, List.all_eq_true, decide_eq_true_eq] at hv'
  refine roundtrip_sexp io genPrec _ S A e hv hdimS hdimA ?_ (fun _ _ => h17 _ IOPrec_utils_ge_17.2.2.2 _) (fun _ _ => h17 _ IOPrec_utils_ge_17.2.2.2 _)
  intro t ht x hx
  exact ⟨hv'.1.1.1.2 t ht x hx, fun h => by rw [hfix] at h; cases h⟩

theorem roundtrip_sexp_src_partial (io : DblIO D) (h17 : Dbl17 io) (S A : Nat) (e : SExp D) (hv : sexpValidB S A e = true)
    (hdimS : S * S < two64) (hdimA : S * A < two64)
    (hc : ∀ t ∈ e.visits, ∀ x ∈ t, ∃ d, io.scanD (printN x.v) = some (d, []) ∧ io.toCount d = x.v) :
    RoundTrips (rdSExp io AITB.Gen.IOPrec.sparseTableViaDouble S A) (wrSExp io genPrec) e := by
  have hv' := hv
  simp only [sexpValidB, Bool.and_eq_true, List.all_eq_true, decide_eq_true_eq] at hv'
  refine roundtrip_sexp io genPrec _ S A e hv hdimS hdimA ?_ (fun _ _ => h17 _ IOPrec_utils_ge_17.2.2.2 _) (fun _ _ => h17 _ IOPrec_utils_ge_17.2.2.2 _)
  intro t ht x hx
  exact ⟨hv'.1.1.1.2 t ht x hx, fun _ => hc t ht x hx⟩

/-- FULL STATEMENT (holds once fix C17-1 is in: `pomdpPolicy ≥ 17`):
      ∀ vf, ppolValidB io S A O vf → RoundTrips (rdPPol io S A O) (wrPPol io genPrec) vf.
    Proved form: with the precision fact as a hypothesis. -/
theorem roundtrip_ppol_src [DecidableEq D] (io : DblIO D) (hat : NoAt io) (h17 : Dbl17 io) (hfix : 17 ≤ AITB.Gen.IOPrec.pomdpPolicy)
    (S A O : Nat) (vf : VF D) (hv : ppolValidB io S A O vf = true) (hA : A ≤ two64) (hlen : ∀ l ∈ vf, l.length ≤ two64) :
    RoundTrips (rdPPol io S A O) (wrPPol io genPrec) vf :=
  roundtrip_ppol io hat genPrec S A O vf hv hA hlen (fun _ _ _ _ _ _ => h17 _ hfix _)

/-! ### witnesses (kernel evaluation of the driver's own instance; `decide +kernel` adds no axiom) -/

/-- the double nearest 1/3 -/
def third : Rat := (6004799503160661 : Rat) / (18014398509481984 : Rat)

/-- test: the hypothesis `RT` is satisfiable at 17 digits by a non-trivial value … -/
theorem rt17_third : RT (ratIO 0) 17 third := by unfold RT; decide +kernel
/-- … and false at the 6 digits the POMDP policy writer uses: `0.333333` is not the double nearest 1/3 -/
theorem rt6_third_counterexample : ¬ RT (ratIO 0) 6 third := by unfold RT; decide +kernel

/-- the policy of the harness's witness case 0 -/
def vfWitness : VF Rat := [[nilEntry (ratIO 0) 2], [⟨[333333 / 1000000, 0], 0, [0, 0]⟩, ⟨[third, 0], 1, [0, 0]⟩]]
/-- does reading what was written at precisions `pr` give back `vf`? -/
def reloadsB (pr : Prec) (vf : VF Rat) : Bool :=
  match rdPPol (ratIO 0) 2 2 2 (wrPPol (ratIO 0) pr vf) with
  | .ok y _ => decide (y = vf)
  | .bad _ => false
/-- it is a valid policy that does not survive the writer at 6 digits (at 17 it does, by `roundtrip_ppol`) -/
theorem ppol_prec6_counterexample :
    ppolValidB (ratIO 0) 2 2 2 vfWitness = true ∧ reloadsB ⟨17, 17, 17, 6, 17⟩ vfWitness = false := by decide +kernel

/-- a visit count of 2^53 + 1 does not survive the detour through `double`, and does survive an integer read -/
theorem count_via_double_counterexample : ¬ CountRT (ratIO 0) true 9007199254740993 := by
  unfold CountRT
  intro h
  obtain ⟨d, h1, h2⟩ := h.2 rfl
  have : (ratIO 0).scanD (printN 9007199254740993) = some (9007199254740992, []) := by decide +kernel
  rw [this] at h1
  injection h1 with h1
  injection h1 with h1 _
  subst h1
  revert h2
  decide +kernel
theorem count_integer_example : CountRT (ratIO 0) false 9007199254740993 := ⟨by decide, fun h => by cases h⟩

/-- test: a non-trivial object satisfying every hypothesis of `roundtrip_dmodel` -/
example : dmodelValidB (ratIO (1/1000000)) 2 1 ⟨third, [[[1/4, 3/4], [1, 0]]], [[1/2], [-3]]⟩ = true := by decide +kernel
example : sexpValidB 2 1 (⟨3, [[⟨0, 1, 2⟩, ⟨1, 1, 1⟩]], [[2], [1]], [⟨0, 0, third⟩], []⟩ : SExp Rat) = true := by decide +kernel

/-! ### truncation on a token boundary is always rejected -/

/-- a reader is *extensible* when a successful read does not depend on what follows the part it consumed -/
def Ext {α} (rd : Rd α) : Prop := ∀ p q y r, rd p = .ok y r → rd (p ++ q) = .ok y (r ++ q)

theorem pushBack_append (r : Tok) (ts q : Stream) : pushBack r (ts ++ q) = pushBack r ts ++ q := by
  cases r <;> rfl

theorem ext_rdN : Ext rdN := by
  intro p q y r h
  cases p with
  | nil => simp [rdN] at h
  | cons t ts =>
    simp only [rdN, List.cons_append] at h ⊢
    cases hs : scanN t with
    | none => simp [hs] at h
    | some v =>
      obtain ⟨n, r'⟩ := v
      simp only [hs, R.ok.injEq] at h ⊢
      rw [pushBack_append, h.1, h.2]
      simp

theorem ext_rdD (io : DblIO D) : Ext (rdD io) := by
  intro p q y r h
  cases p with
  | nil => simp [rdD] at h
  | cons t ts =>
    simp only [rdD, List.cons_append] at h ⊢
    cases hs : io.scanD t with
    | none => simp [hs] at h
    | some v =>
      obtain ⟨n, r'⟩ := v
      simp only [hs, R.ok.injEq] at h ⊢
      rw [pushBack_append, h.1, h.2]
      simp

theorem ext_pure {α} (a : α) : Ext (Rd.pure a) := by
  intro p q y r h
  simp only [pure_apply, R.ok.injEq] at h ⊢
  simp [h.1, h.2]

theorem ext_need (c : Bool) : Ext (need c) := by
  intro p q y r h
  cases c with
  | false => simp at h
  | true => simp only [need_true, R.ok.injEq] at h ⊢; simp [h.2]

theorem ext_bind {α β} (m : Rd α) (f : α → Rd β) (hm : Ext m) (hf : ∀ a, Ext (f a)) : Ext (Rd.bind m f) := by
  intro p q y r h
  rw [bind_ok_iff] at h
  obtain ⟨a, s1, h1, h2⟩ := h
  rw [bind_ok_iff]
  exact ⟨a, s1 ++ q, hm p q a s1 h1, hf a s1 q y r h2⟩

theorem ext_rep {α} (rd : Rd α) (h : Ext rd) : ∀ n, Ext (rep rd n)
  | 0 => ext_pure []
  | n + 1 => ext_bind _ _ h (fun a => ext_bind _ _ (ext_rep rd h n) (fun r => ext_pure _))

theorem ext_rdMat (io : DblIO D) (rows cols : Nat) : Ext (rdMat io rows cols) := ext_rep _ (ext_rep _ (ext_rdD io) cols) rows
theorem ext_rdMat3 (io : DblIO D) (k rows cols : Nat) : Ext (rdMat3 io k rows cols) := ext_rep _ (ext_rdMat io rows cols) k
theorem ext_rdTab3 (k rows cols : Nat) : Ext (rdTab3 k rows cols) := ext_rep _ (ext_rep _ (ext_rep _ ext_rdN cols) rows) k

theorem ext_rdTriplets {V} (rdV : Rd V) (hV : Ext rdV) (rows cols : Nat) : ∀ n, Ext (rdTriplets rdV rows cols n)
  | 0 => ext_pure []
  | n + 1 =>
    ext_bind _ _ ext_rdN fun _ => ext_bind _ _ ext_rdN fun _ => ext_bind _ _ hV fun _ =>
    ext_bind _ _ (ext_need _) fun _ => ext_bind _ _ (ext_need _) fun _ =>
    ext_bind _ _ (ext_rdTriplets rdV hV rows cols n) fun _ => ext_pure _

theorem ext_rdSpGen {V} (rdV : Rd V) (hV : Ext rdV) (add : V → V → V) (rows cols : Nat) : Ext (rdSpGen rdV add rows cols) :=
  ext_bind _ _ ext_rdN fun _ => ext_bind _ _ (ext_need _) fun _ => ext_bind _ _ (ext_rdTriplets rdV hV rows cols _) fun _ => ext_pure _

theorem ext_rdSpMat (io : DblIO D) (rows cols : Nat) : Ext (rdSpMat io rows cols) := ext_rdSpGen _ (ext_rdD io) _ rows cols
theorem ext_rdSpMat3 (io : DblIO D) (k rows cols : Nat) : Ext (rdSpMat3 io k rows cols) := ext_rep _ (ext_rdSpMat io rows cols) k
theorem ext_rdCount (io : DblIO D) (vd : Bool) : Ext (rdCount io vd) := by
  cases vd with
  | false => exact ext_rdN
  | true => exact ext_bind _ _ (ext_rdD io) fun _ => ext_pure _
theorem ext_rdSpTab3 (io : DblIO D) (vd : Bool) (k rows cols : Nat) : Ext (rdSpTab3 io vd k rows cols) :=
  ext_rep _ (ext_rdSpGen _ (ext_rdCount io vd) _ rows cols) k

theorem ext_rdDExp (io : DblIO D) (S A : Nat) : Ext (rdDExp io S A) :=
  ext_bind _ _ ext_rdN fun _ => ext_bind _ _ (ext_rdTab3 A S S) fun _ => ext_bind _ _ (ext_rdMat io S A) fun _ =>
  ext_bind _ _ (ext_rdMat io S A) fun _ => ext_pure _

theorem ext_rdSExp (io : DblIO D) (vd : Bool) (S A : Nat) : Ext (rdSExp io vd S A) :=
  ext_bind _ _ ext_rdN fun _ => ext_bind _ _ (ext_rdSpTab3 io vd A S S) fun _ => ext_bind _ _ (ext_rdSpMat io S A) fun _ =>
  ext_bind _ _ (ext_rdSpMat io S A) fun _ => ext_pure _

theorem ext_guard {α} (c : Bool) (m : Rd α) (hm : Ext m) : Ext (fun s => if c then R.bad Sig.threw else m s) := by
  intro p q y r h
  cases c with
  | true => simp at h
  | false => simpa using hm p q y r (by simpa using h)

theorem ext_rdDModel (io : DblIO D) (S A : Nat) : Ext (rdDModel io S A) :=
  ext_bind _ _ (ext_rdD io) fun d => ext_guard (!io.discountOk d) _
    (ext_bind _ _ (ext_rdMat3 io A S S) fun _ => ext_bind _ _ (ext_need _) fun _ => ext_bind _ _ (ext_rdMat io S A) fun _ => ext_pure _)

theorem ext_rdSModel (io : DblIO D) (S A : Nat) : Ext (rdSModel io S A) :=
  ext_bind _ _ (ext_rdD io) fun d => ext_guard (!io.discountOk d) _
    (ext_bind _ _ (ext_rdSpMat3 io A S S) fun _ => ext_bind _ _ (ext_need _) fun _ => ext_bind _ _ (ext_rdSpMat io S A) fun _ => ext_pure _)

theorem ext_rdPD {M} (io : DblIO D) (rdM : Rd M) (hM : Ext rdM) (S A O : Nat) : Ext (rdPD io rdM S A O) :=
  ext_bind _ _ hM fun _ => ext_bind _ _ (ext_rdMat3 io A S O) fun _ => ext_bind _ _ (ext_need _) fun _ => ext_pure _
theorem ext_rdPS {M} (io : DblIO D) (rdM : Rd M) (hM : Ext rdM) (S A O : Nat) : Ext (rdPS io rdM S A O) :=
  ext_bind _ _ hM fun _ => ext_bind _ _ (ext_rdSpMat3 io A S O) fun _ => ext_bind _ _ (ext_need _) fun _ => ext_pure _
theorem ext_rdMPol (io : DblIO D) (S A : Nat) : Ext (rdMPol io S A) :=
  ext_bind _ _ (ext_rdMat io S A) fun _ => ext_bind _ _ (ext_need _) fun _ => ext_pure _

theorem ext_rdEntry (io : DblIO D) (S A O oldH : Nat) : Ext (rdEntry io S A O oldH) :=
  ext_bind _ _ (ext_rep _ (ext_rdD io) S) fun _ => ext_bind _ _ ext_rdN fun _ => ext_bind _ _ (ext_need _) fun _ =>
  ext_bind _ _ (ext_rep _ (ext_bind _ _ ext_rdN fun _ => ext_bind _ _ (ext_need _) fun _ => ext_pure _) O) fun _ => ext_pure _

/-- **a strict token prefix of a written object is never accepted** (generic form) -/
theorem strict_prefix_fails {α} (rd : Rd α) (wr : α → Stream) (hext : Ext rd) (x : α) (hrt : RoundTrips rd wr x)
    (p q : Stream) (hpq : wr x = p ++ q) (hq : q ≠ []) : ∃ e, rd p = .bad e := by
  cases h : rd p with
  | bad e => exact ⟨e, rfl⟩
  | ok y r =>
    have h1 := hext p q y r h
    have h2 := hrt []
    rw [List.append_nil, hpq, h1] at h2
    injection h2 with _ h3
    have : q = [] := (List.append_eq_nil_iff.mp h3).2
    exact absurd this hq

theorem rep_rdD_nil (io : DblIO D) : ∀ n, rep (rdD io) n [] = .bad .failbit ∨ rep (rdD io) n [] = .ok [] []
  | 0 => Or.inr rfl
  | n + 1 => Or.inl (by simp [rep, rdD])

theorem rdEntry_nil (io : DblIO D) (S A O oldH : Nat) (e : VEntry D) (r : Stream) : rdEntry io S A O oldH [] ≠ .ok e r := by
  intro h
  simp only [rdEntry, bind_ok_iff] at h
  obtain ⟨vals, s1, h1, a, s2, h2, _⟩ := h
  rcases rep_rdD_nil io S with h0 | h0
  · rw [h0] at h1; cases h1
  · rw [h0] at h1
    injection h1 with _ hs
    subst hs
    simp [rdN] at h2

theorem polLoop_nil (io : DblIO D) (S A O : Nat) : ∀ (f : Nat) (vf : VF D) (b : Bool) (o : Nat) (y : VF D) (r : Stream),
    polLoop io S A O f vf b o [] ≠ .ok y r
  | 0, _, _, _, _, _ => by simp [polLoop]
  | f + 1, vf, true, o, y, r => by
    simp only [polLoop, atSign]
    exact polLoop_nil io S A O f _ false _ y r
  | f + 1, vf, false, o, y, r => by
    simp only [polLoop]
    split
    · simp
    · rename_i e s' he
      exact absurd he (rdEntry_nil io S A O o e s')

theorem atSign_append (s q : Stream) (hs : s ≠ []) : atSign (s ++ q) = ((atSign s).1, (atSign s).2 ++ q) := by
  cases s with
  | nil => exact absurd rfl hs
  | cons t ts =>
    cases t with
    | nil => rfl
    | cons c r =>
      by_cases hc : c = '@'
      · subst hc
        simp only [List.cons_append, atSign, pushBack_append]
      · have h1 : atSign ((c :: r) :: ts) = (false, (c :: r) :: ts) := atSign_nonAt _ _ (by simpa using hc)
        have h2 : atSign ((c :: r) :: (ts ++ q)) = (false, (c :: r) :: (ts ++ q)) := atSign_nonAt _ _ (by simpa using hc)
        simp only [List.cons_append, h1, h2]

/-- more fuel never changes a successful run of the policy loop -/
theorem polLoop_mono (io : DblIO D) (S A O : Nat) : ∀ (f : Nat) (vf : VF D) (b : Bool) (o : Nat) (s : Stream) (y : VF D) (r : Stream),
    polLoop io S A O f vf b o s = .ok y r → polLoop io S A O (f + 1) vf b o s = .ok y r
  | 0, _, _, _, _, _, _, h => by simp [polLoop] at h
  | f + 1, vf, true, o, s, y, r, h => by
    cases hb : atSign s with
    | mk b s' =>
      cases b with
      | true => simp only [polLoop, hb] at h ⊢; exact h
      | false =>
        simp only [polLoop, hb] at h ⊢
        exact polLoop_mono io S A O f _ false _ s y r h
  | f + 1, vf, false, o, s, y, r, h => by
    cases he : rdEntry io S A O o s with
    | bad e => simp [polLoop, he] at h
    | ok e s' =>
      simp only [polLoop, he] at h ⊢
      exact polLoop_mono io S A O f _ _ o _ y r h

theorem polLoop_mono' (io : DblIO D) (S A O : Nat) (f g : Nat) (hfg : f ≤ g) (vf : VF D) (b : Bool) (o : Nat) (s : Stream) (y : VF D) (r : Stream)
    (h : polLoop io S A O f vf b o s = .ok y r) : polLoop io S A O g vf b o s = .ok y r := by
  induction g with
  | zero => have : f = 0 := by omega
            subst this; exact h
  | succ g ih =>
    by_cases hg : f ≤ g
    · exact polLoop_mono io S A O g vf b o s y r (ih hg)
    · have : f = g + 1 := by omega
      subst this; exact h

theorem ext_polLoop (io : DblIO D) (S A O : Nat) : ∀ (f : Nat) (vf : VF D) (b : Bool) (o : Nat), Ext (polLoop io S A O f vf b o)
  | 0, _, _, _ => by intro p q y r h; simp [polLoop] at h
  | f + 1, vf, true, o => by
    intro p q y r h
    by_cases hp : p = []
    · subst hp; exact absurd h (polLoop_nil io S A O _ _ _ _ y r)
    · have ha := atSign_append p q hp
      simp only [polLoop] at h ⊢
      cases hb : (atSign p).1 with
      | true =>
        have e1 : atSign p = (true, (atSign p).2) := by rw [← hb]
        have e2 : atSign (p ++ q) = (true, (atSign p).2 ++ q) := by rw [ha, hb]
        rw [e1] at h
        rw [e2]
        simp only [R.ok.injEq] at h ⊢
        exact ⟨h.1, by rw [h.2]⟩
      | false =>
        have e1 : atSign p = (false, (atSign p).2) := by rw [← hb]
        have e2 : atSign (p ++ q) = (false, (atSign p).2 ++ q) := by rw [ha, hb]
        rw [e1] at h
        rw [e2]
        exact ext_polLoop io S A O f _ false _ p q y r h
  | f + 1, vf, false, o => by
    intro p q y r h
    simp only [polLoop] at h ⊢
    split at h
    · simp at h
    · rename_i e s1 he
      have he' := ext_rdEntry io S A O o p q e s1 he
      simp only [he']
      by_cases hs : s1 = []
      · subst hs
        exact absurd h (by simpa [atSign] using polLoop_nil io S A O f _ false o y r)
      · rw [atSign_append s1 q hs]
        exact ext_polLoop io S A O f _ _ o _ q y r h

theorem streamSize_append (p q : Stream) : streamSize (p ++ q) = streamSize p + streamSize q := by
  simp [streamSize, List.map_append, List.sum_append]

theorem ext_rdPPol (io : DblIO D) (S A O : Nat) : Ext (rdPPol io S A O) := by
  intro p q y r h
  simp only [rdPPol] at h ⊢
  have h1 := polLoop_mono' io S A O _ (2 * streamSize (p ++ q) + 2) (by rw [streamSize_append]; omega) _ _ _ _ y r h
  exact ext_polLoop io S A O _ _ _ _ p q y r h1


/-- at the level of `operator>>`: a written object cut on a token boundary (at least one token missing) is rejected
    with a failure signal and the destination is left alone -/
theorem truncated_load_rejected {α} (rd : Rd α) (wr : α → Stream) (hext : Ext rd) (x : α) (hrt : RoundTrips rd wr x)
    (dest : α) (p q : Stream) (hpq : wr x = p ++ q) (hq : q ≠ []) :
    (load rd dest p).sig ≠ none ∧ (load rd dest p).dest = dest := by
  obtain ⟨e, he⟩ := strict_prefix_fails rd wr hext x hrt p q hpq hq
  simp [load, he]

theorem truncated_rejected_dexp (io : DblIO D) (pr : Prec) (S A : Nat) (e : DExp D) (hv : dexpValidB S A e = true)
    (hr : AllMat (RT io pr.dense) e.rewards) (hm : AllMat (RT io pr.dense) e.m2) (dest : DExp D) (p q : Stream)
    (hpq : wrDExp io pr e = p ++ q) (hq : q ≠ []) :
    (load (rdDExp io S A) dest p).sig ≠ none ∧ (load (rdDExp io S A) dest p).dest = dest :=
  truncated_load_rejected _ _ (ext_rdDExp io S A) e (roundtrip_dexp io pr S A e hv hr hm) dest p q hpq hq

theorem truncated_rejected_dmodel (io : DblIO D) (pr : Prec) (S A : Nat) (m : DModel D) (hv : dmodelValidB io S A m = true)
    (hd : RT io pr.scalar m.discount) (ht : AllMat3 (RT io pr.dense) m.T) (hr : AllMat (RT io pr.dense) m.R)
    (dest : DModel D) (p q : Stream) (hpq : wrDModel io pr m = p ++ q) (hq : q ≠ []) :
    (load (rdDModel io S A) dest p).sig ≠ none ∧ (load (rdDModel io S A) dest p).dest = dest :=
  truncated_load_rejected _ _ (ext_rdDModel io S A) m (roundtrip_dmodel io pr S A m hv hd ht hr) dest p q hpq hq

theorem truncated_rejected_smodel (io : DblIO D) (pr : Prec) (S A : Nat) (m : SModel D) (hv : smodelValidB io S A m = true)
    (hdimS : S * S < two64) (hdimA : S * A < two64)
    (hd : RT io pr.scalar m.discount) (ht : ∀ t ∈ m.T, ∀ x ∈ t, RT io pr.sparse x.v) (hr : ∀ x ∈ m.R, RT io pr.sparse x.v)
    (dest : SModel D) (p q : Stream) (hpq : wrSModel io pr m = p ++ q) (hq : q ≠ []) :
    (load (rdSModel io S A) dest p).sig ≠ none ∧ (load (rdSModel io S A) dest p).dest = dest :=
  truncated_load_rejected _ _ (ext_rdSModel io S A) m (roundtrip_smodel io pr S A m hv hdimS hdimA hd ht hr) dest p q hpq hq

theorem truncated_rejected_sexp (io : DblIO D) (pr : Prec) (vd : Bool) (S A : Nat) (e : SExp D) (hv : sexpValidB S A e = true)
    (hdimS : S * S < two64) (hdimA : S * A < two64) (hc : ∀ t ∈ e.visits, ∀ x ∈ t, CountRT io vd x.v)
    (hr : ∀ x ∈ e.rewards, RT io pr.sparse x.v) (hm : ∀ x ∈ e.m2, RT io pr.sparse x.v)
    (dest : SExp D) (p q : Stream) (hpq : wrSExp io pr e = p ++ q) (hq : q ≠ []) :
    (load (rdSExp io vd S A) dest p).sig ≠ none ∧ (load (rdSExp io vd S A) dest p).dest = dest :=
  truncated_load_rejected _ _ (ext_rdSExp io vd S A) e (roundtrip_sexp io pr vd S A e hv hdimS hdimA hc hr hm) dest p q hpq hq

theorem truncated_rejected_mpol (io : DblIO D) (pr : Prec) (S A : Nat) (m : Mat D) (hv : mpolValidB io S A m = true)
    (h : AllMat (RT io pr.dense) m) (dest : Mat D) (p q : Stream) (hpq : wrMPol io pr m = p ++ q) (hq : q ≠ []) :
    (load (rdMPol io S A) dest p).sig ≠ none ∧ (load (rdMPol io S A) dest p).dest = dest :=
  truncated_load_rejected _ _ (ext_rdMPol io S A) m (roundtrip_mpol io pr S A m hv h) dest p q hpq hq

theorem truncated_rejected_ppol [DecidableEq D] (io : DblIO D) (hat : NoAt io) (pr : Prec) (S A O : Nat) (vf : VF D)
    (hv : ppolValidB io S A O vf = true) (hA : A ≤ two64) (hlen : ∀ l ∈ vf, l.length ≤ two64)
    (hrt : ∀ l ∈ vf.drop 1, ∀ e ∈ l, ∀ d ∈ e.values, RT io pr.pomdpPolicy d)
    (dest : VF D) (p q : Stream) (hpq : wrPPol io pr vf = p ++ q) (hq : q ≠ []) :
    (load (rdPPol io S A O) dest p).sig ≠ none ∧ (load (rdPPol io S A O) dest p).dest = dest :=
  truncated_load_rejected _ _ (ext_rdPPol io S A O) vf (roundtrip_ppol io hat pr S A O vf hv hA hlen hrt) dest p q hpq hq

/-- POMDP models: for any underlying codec that is extensible and round-trips -/
theorem truncated_rejected_pd {M} (io : DblIO D) (pr : Prec) (rdM : Rd M) (wrM : M → Stream) (vM : M → Bool) (hext : Ext rdM)
    (S A O : Nat) (x : M × List (Mat D)) (hv : pdValidB io vM S A O x = true) (hM : RoundTrips rdM wrM x.1)
    (ho : AllMat3 (RT io pr.dense) x.2) (dest : M × List (Mat D)) (p q : Stream) (hpq : wrPD io pr wrM x = p ++ q) (hq : q ≠ []) :
    (load (rdPD io rdM S A O) dest p).sig ≠ none ∧ (load (rdPD io rdM S A O) dest p).dest = dest :=
  truncated_load_rejected _ _ (ext_rdPD io rdM hext S A O) x (roundtrip_pd io pr rdM wrM vM S A O x hv hM ho) dest p q hpq hq

theorem truncated_rejected_ps {M} (io : DblIO D) (pr : Prec) (rdM : Rd M) (wrM : M → Stream) (vM : M → Bool) (hext : Ext rdM)
    (S A O : Nat) (x : M × List (SpMat D)) (hv : psValidB io vM S A O x = true) (hdim : S * O < two64) (hM : RoundTrips rdM wrM x.1)
    (ho : ∀ t ∈ x.2, ∀ e ∈ t, RT io pr.sparse e.v) (dest : M × List (SpMat D)) (p q : Stream) (hpq : wrPS io pr wrM x = p ++ q) (hq : q ≠ []) :
    (load (rdPS io rdM S A O) dest p).sig ≠ none ∧ (load (rdPS io rdM S A O) dest p).dest = dest :=
  truncated_load_rejected _ _ (ext_rdPS io rdM hext S A O) x (roundtrip_ps io pr rdM wrM vM S A O x hv hdim hM ho) dest p q hpq hq

/-! ### `read(is, Vector &)` / `write(os, const Vector &)` -/

theorem roundtrip_vec (io : DblIO D) (pr : Prec) (n : Nat) (v : List D) (hl : v.length = n) (h : ∀ d ∈ v, RT io pr.vector d) :
    RoundTrips (rdVec io n) (wrVec io pr.vector) v := rt_vec io pr.vector n v hl h
theorem rdVec_ok (io : DblIO D) (n : Nat) (s s' : Stream) (v : List D) (h : rdVec io n s = .ok v s') : v.length = n :=
  (rep_ok (rdD io) (fun _ => True) (fun _ _ _ _ => trivial) n s v s' h).1
theorem ext_rdVec (io : DblIO D) (n : Nat) : Ext (rdVec io n) := ext_rep _ (ext_rdD io) n

/-! ### decisions -/

def reloaded (pr : Prec) (vf : VF Rat) : VF Rat :=
  match rdPPol (ratIO 0) 2 2 2 (wrPPol (ratIO 0) pr vf) with
  | .ok y _ => y
  | .bad _ => []

/-- identical tables give identical decisions at every belief and horizon (decisions are a function of the table) -/
theorem decisions_of_roundtrip (io : DblIO Rat) (pr : Prec) (S A O : Nat) (vf dest : VF Rat)
    (h : RoundTrips (rdPPol io S A O) (wrPPol io pr) vf) (rest : Stream) (hz : Nat) (b : List Rat) :
    decision (load (rdPPol io S A O) dest (wrPPol io pr vf ++ rest)).dest hz b = decision vf hz b := by
  rw [load_roundtrip _ _ vf h dest rest]

/-- the witness policy decides action 1 (entry 1) at the corner belief (1,0); written with 6 digits and read back it
    decides action 0 (entry 0) -/
theorem ppol_prec6_decision_counterexample :
    decision vfWitness 1 [1, 0] = some (1, 1) ∧ decision (reloaded ⟨17, 17, 17, 6, 17⟩ vfWitness) 1 [1, 0] = some (0, 0) := by
  decide +kernel

/-! ### the policy loop never runs out of fuel: the model of `while (true)` is exact -/

/-- the double scanner leaves a rest that is not longer than the token it was given -/
def ScanShrinks (io : DblIO D) : Prop := ∀ t d r, io.scanD t = some (d, r) → r.length ≤ t.length

def NonInc {α} (rd : Rd α) : Prop := ∀ s a s', rd s = .ok a s' → streamSize s' ≤ streamSize s
def Dec {α} (rd : Rd α) : Prop := ∀ s a s', rd s = .ok a s' → streamSize s' < streamSize s

theorem streamSize_cons (t : Tok) (ts : Stream) : streamSize (t :: ts) = t.length + 1 + streamSize ts := by
  simp [streamSize]

theorem streamSize_pushBack_le (r : Tok) (ts : Stream) : streamSize (pushBack r ts) ≤ r.length + 1 + streamSize ts := by
  cases r with
  | nil => simp [pushBack]
  | cons c r => simp [pushBack, streamSize_cons]

theorem streamSize_pushBack_lt (r t : Tok) (ts : Stream) (h : r.length < t.length) :
    streamSize (pushBack r ts) < streamSize (t :: ts) := by
  cases r with
  | nil => simp [pushBack, streamSize_cons]
  | cons c r => simp only [pushBack, streamSize_cons] at *; omega

theorem spanP_length (p : Char → Bool) : ∀ (l : List Char), (spanP p l).1.length + (spanP p l).2.length = l.length
  | [] => rfl
  | c :: cs => by
    have ih := spanP_length p cs
    unfold spanP
    split
    · simp only [List.length_cons]; omega
    · simp

theorem splitSign_length (t : Tok) : (splitSign t).2.length ≤ t.length := by
  unfold splitSign
  split <;> simp

theorem scanN_rest_lt (t r : Tok) (n : Nat) (h : scanN t = some (n, r)) : r.length < t.length := by
  unfold scanN at h
  simp only [] at h
  split at h
  · simp at h
  · rename_i hne
    split at h
    · simp at h
    · simp only [Option.some.injEq, Prod.mk.injEq] at h
      have h1 := spanP_length isDig (splitSign t).2
      have h2 := splitSign_length t
      have h3 : 0 < (spanP isDig (splitSign t).2).1.length := by
        cases hd : (spanP isDig (splitSign t).2).1 with
        | nil => simp [hd] at hne
        | cons a b => simp
      rw [← h.2]
      omega

theorem dec_rdN : Dec rdN := by
  intro s a s' h
  cases s with
  | nil => simp [rdN] at h
  | cons t ts =>
    simp only [rdN] at h
    cases hs : scanN t with
    | none => simp [hs] at h
    | some v =>
      obtain ⟨n, r⟩ := v
      simp only [hs, R.ok.injEq] at h
      rw [← h.2]
      exact streamSize_pushBack_lt r t ts (scanN_rest_lt t r n hs)

theorem nonInc_rdD (io : DblIO D) (hsh : ScanShrinks io) : NonInc (rdD io) := by
  intro s a s' h
  cases s with
  | nil => simp [rdD] at h
  | cons t ts =>
    simp only [rdD] at h
    cases hs : io.scanD t with
    | none => simp [hs] at h
    | some v =>
      obtain ⟨d, r⟩ := v
      simp only [hs, R.ok.injEq] at h
      rw [← h.2, streamSize_cons]
      have := streamSize_pushBack_le r ts
      have := hsh t d r hs
      omega

theorem nonInc_of_dec {α} (rd : Rd α) (h : Dec rd) : NonInc rd := fun s a s' hh => Nat.le_of_lt (h s a s' hh)
theorem nonInc_pure {α} (a : α) : NonInc (Rd.pure a) := by
  intro s b s' h; simp only [pure_apply, R.ok.injEq] at h; rw [h.2]; exact Nat.le_refl _
theorem nonInc_need (c : Bool) : NonInc (need c) := by
  intro s b s' h
  cases c with
  | false => simp at h
  | true => simp only [need_true, R.ok.injEq] at h; rw [h.2]; exact Nat.le_refl _
theorem nonInc_bind {α β} (m : Rd α) (f : α → Rd β) (hm : NonInc m) (hf : ∀ a, NonInc (f a)) : NonInc (Rd.bind m f) := by
  intro s b s' h
  rw [bind_ok_iff] at h
  obtain ⟨a, s1, h1, h2⟩ := h
  exact Nat.le_trans (hf a s1 b s' h2) (hm s a s1 h1)
theorem dec_bind_right {α β} (m : Rd α) (f : α → Rd β) (hm : NonInc m) (hf : ∀ a, Dec (f a)) : Dec (Rd.bind m f) := by
  intro s b s' h
  rw [bind_ok_iff] at h
  obtain ⟨a, s1, h1, h2⟩ := h
  exact Nat.lt_of_lt_of_le (hf a s1 b s' h2) (hm s a s1 h1)
theorem dec_bind_left {α β} (m : Rd α) (f : α → Rd β) (hm : Dec m) (hf : ∀ a, NonInc (f a)) : Dec (Rd.bind m f) := by
  intro s b s' h
  rw [bind_ok_iff] at h
  obtain ⟨a, s1, h1, h2⟩ := h
  exact Nat.lt_of_le_of_lt (hf a s1 b s' h2) (hm s a s1 h1)
theorem nonInc_rep {α} (rd : Rd α) (h : NonInc rd) : ∀ n, NonInc (rep rd n)
  | 0 => nonInc_pure []
  | n + 1 => nonInc_bind _ _ h (fun _ => nonInc_bind _ _ (nonInc_rep rd h n) (fun _ => nonInc_pure _))

/-- reading one entry consumes at least one character (the action) -/
theorem dec_rdEntry (io : DblIO D) (hsh : ScanShrinks io) (S A O oldH : Nat) : Dec (rdEntry io S A O oldH) :=
  dec_bind_right _ _ (nonInc_rep _ (nonInc_rdD io hsh) S) fun _ =>
  dec_bind_left _ _ dec_rdN fun _ => nonInc_bind _ _ (nonInc_need _) fun _ =>
  nonInc_bind _ _ (nonInc_rep _ (nonInc_bind _ _ (nonInc_of_dec _ dec_rdN) fun _ => nonInc_bind _ _ (nonInc_need _) fun _ => nonInc_pure _) O)
    fun _ => nonInc_pure _

theorem atSign_size (s : Stream) : streamSize (atSign s).2 ≤ streamSize s := by
  unfold atSign
  split
  · rename_i r ts
    have := streamSize_pushBack_le r ts
    simp only [streamSize_cons, List.length_cons]; omega
  · exact Nat.le_refl _

/-- with enough fuel for the stream at hand, one more unit of fuel changes nothing — success or failure -/
theorem polLoop_fuel_step (io : DblIO D) (hsh : ScanShrinks io) (S A O : Nat) :
    ∀ (f : Nat) (vf : VF D) (b : Bool) (o : Nat) (s : Stream),
      2 * streamSize s + (if b then 2 else 1) ≤ f →
      polLoop io S A O (f + 1) vf b o s = polLoop io S A O f vf b o s
  | 0, _, b, _, _, h => by cases b <;> simp at h
  | f + 1, vf, true, o, s, h => by
    simp only [if_true] at h
    cases hb : atSign s with
    | mk b' s' =>
      cases b' with
      | true => simp only [polLoop, hb]
      | false =>
        simp only [polLoop, hb]
        exact polLoop_fuel_step io hsh S A O f _ false _ s (by simp; omega)
  | f + 1, vf, false, o, s, h => by
    simp only [Bool.false_eq_true, if_false] at h
    cases he : rdEntry io S A O o s with
    | bad e => simp only [polLoop, he]
    | ok e s1 =>
      simp only [polLoop, he]
      have h1 := dec_rdEntry io hsh S A O o s e s1 he
      have h2 := atSign_size s1
      exact polLoop_fuel_step io hsh S A O f _ _ o _ (by split <;> omega)

/-- **the fuel of `rdPPol` is immaterial**: any larger amount gives the same result on every stream, so the model
    is the unbounded loop of the code. -/
theorem rdPPol_fuel_free (io : DblIO D) (hsh : ScanShrinks io) (S A O : Nat) (s : Stream) (F : Nat) (hF : 2 * streamSize s + 2 ≤ F) :
    polLoop io S A O F (vf0 io S) true 1 s = rdPPol io S A O s := by
  induction F with
  | zero => omega
  | succ F ih =>
    by_cases h : 2 * streamSize s + 2 ≤ F
    · rw [polLoop_fuel_step io hsh S A O F _ true 1 s (by simpa using h)]
      exact ih h
    · have : F + 1 = 2 * streamSize s + 2 := by omega
      rw [this]; rfl

theorem accMant_rest_le : ∀ (l : List Char) (fm fd : Bool), (accMant l fm fd).2.length ≤ l.length
  | [], _, _ => by simp [accMant]
  | c :: cs, fm, fd => by
    unfold accMant
    split
    · have := accMant_rest_le cs true fd
      simp only [List.length_cons]; omega
    · split
      · have := accMant_rest_le cs fm true
        simp only [List.length_cons]; omega
      · split
        · split
          · rename_i cs' 
            have := spanP_length isDig cs'
            simp only [List.length_cons]; omega
          · rename_i cs'
            have := spanP_length isDig cs'
            simp only [List.length_cons]; omega
          · have := spanP_length isDig cs
            simp only [List.length_cons]; omega
        · simp

theorem scanDQ_rest (t r : Tok) (d : Rat) (h : scanDQ t = some (d, r)) : r = (accMant (splitSign t).2 false false).2 := by
  unfold scanDQ at h
  simp only [] at h
  split at h
  · simp at h
  · simp only [Option.some.injEq, Prod.mk.injEq] at h
    exact h.2.symm

theorem ratIO_scanShrinks (tol : Rat) : ScanShrinks (ratIO tol) := by
  intro t d r h
  have h1 : r = (accMant (splitSign t).2 false false).2 := scanDQ_rest t r d h
  have h2 := accMant_rest_le (splitSign t).2 false false
  have h3 := splitSign_length t
  rw [h1]; omega

/-! ### bytes ↔ tokens: any white-space layout of a token list tokenizes back to it -/

/-- a token as it appears in a file: non-empty, no white space inside -/
def CleanTok (t : Tok) : Prop := t ≠ [] ∧ ∀ c ∈ t, isWs c = false
/-- a separator: at least one white-space character -/
def Sep (w : List Char) : Prop := w ≠ [] ∧ ∀ c ∈ w, isWs c = true

/-- the bytes of a file: optional leading white space is added by the caller; every token is followed by a separator -/
def render : List (Tok × List Char) → List Char
  | [] => []
  | (t, w) :: r => t ++ w ++ render r

theorem tokenizeAux_tok : ∀ (t : Tok) (rest : List Char) (cur : Tok), (∀ c ∈ t, isWs c = false) →
    tokenizeAux (t ++ rest) cur = tokenizeAux rest (t.reverse ++ cur)
  | [], _, _, _ => by simp
  | c :: t, rest, cur, h => by
    have hc : isWs c = false := h c (List.mem_cons_self)
    have ih := tokenizeAux_tok t rest (c :: cur) (fun x hx => h x (List.mem_cons_of_mem _ hx))
    simp only [List.cons_append, tokenizeAux, hc, Bool.false_eq_true, if_false, ih, List.reverse_cons, List.append_assoc]
    simp

theorem tokenizeAux_ws : ∀ (w rest : List Char), (∀ c ∈ w, isWs c = true) → tokenizeAux (w ++ rest) [] = tokenizeAux rest []
  | [], _, _ => by simp
  | c :: w, rest, h => by
    have hc : isWs c = true := h c (List.mem_cons_self)
    have ih := tokenizeAux_ws w rest (fun x hx => h x (List.mem_cons_of_mem _ hx))
    simp [tokenizeAux, hc, ih]

theorem tokenizeAux_sep (w rest : List Char) (cur : Tok) (hw : Sep w) (hcur : cur ≠ []) :
    tokenizeAux (w ++ rest) cur = cur.reverse :: tokenizeAux rest [] := by
  obtain ⟨hne, hall⟩ := hw
  cases w with
  | nil => exact absurd rfl hne
  | cons c w =>
    have hc : isWs c = true := hall c (List.mem_cons_self)
    have h2 := tokenizeAux_ws w rest (fun x hx => hall x (List.mem_cons_of_mem _ hx))
    cases cur with
    | nil => exact absurd rfl hcur
    | cons a b => simp [tokenizeAux, hc, h2]

/-- **any layout**: tokens separated (and followed) by arbitrary non-empty white space, after arbitrary leading white
    space, tokenize back to exactly the token list -/
theorem tokenize_render (lead : List Char) (hlead : ∀ c ∈ lead, isWs c = true) :
    ∀ (l : List (Tok × List Char)), (∀ p ∈ l, CleanTok p.1 ∧ Sep p.2) → tokenize (lead ++ render l) = l.map (·.1) := by
  intro l hl
  unfold tokenize
  rw [tokenizeAux_ws lead _ hlead]
  induction l with
  | nil => simp [render, tokenizeAux]
  | cons p l ih =>
    obtain ⟨t, w⟩ := p
    have hp := hl (t, w) (List.mem_cons_self)
    simp only [render, List.append_assoc]
    rw [tokenizeAux_tok t _ [] hp.1.2, List.append_nil,
      tokenizeAux_sep w (render l) t.reverse hp.2 (by simpa using hp.1.1)]
    simp only [List.reverse_reverse, List.map_cons]
    rw [ih (fun q hq => hl q (List.mem_cons_of_mem _ hq))]

/-- the round trip at the level of bytes: whatever white space the writer puts between and after the tokens of
    `wr x`, the reader applied to the tokenized bytes returns `x` and leaves nothing unread -/
theorem roundtrip_bytes {α} (rd : Rd α) (wr : α → Stream) (x : α) (h : RoundTrips rd wr x)
    (lead : List Char) (hlead : ∀ c ∈ lead, isWs c = true) (l : List (Tok × List Char))
    (hl : ∀ p ∈ l, CleanTok p.1 ∧ Sep p.2) (hx : l.map (·.1) = wr x) :
    rd (tokenize (lead ++ render l)) = .ok x [] := by
  rw [tokenize_render lead hlead l hl, hx]
  simpa using h []

theorem printN_clean (n : Nat) : CleanTok (printN n) := by
  refine ⟨?_, ?_⟩
  · have := digits_ne_nil n
    simpa [printN] using this
  · intro c hc
    simp only [printN, List.mem_map] at hc
    obtain ⟨d, hd, rfl⟩ := hc
    have h10 := digits_lt10 n d hd
    have : d = 0 ∨ d = 1 ∨ d = 2 ∨ d = 3 ∨ d = 4 ∨ d = 5 ∨ d = 6 ∨ d = 7 ∨ d = 8 ∨ d = 9 := by omega
    rcases this with rfl | rfl | rfl | rfl | rfl | rfl | rfl | rfl | rfl | rfl <;> decide

/-- objects written one after the other on the same stream are read back one after the other (the reason the policy
    writer closes with a second `@`) -/
theorem roundtrip_seq {α β} (rd1 : Rd α) (wr1 : α → Stream) (rd2 : Rd β) (wr2 : β → Stream) (x : α) (y : β)
    (h1 : RoundTrips rd1 wr1 x) (h2 : RoundTrips rd2 wr2 y) (rest : Stream) :
    Rd.bind rd1 (fun a => Rd.bind rd2 (fun b => Rd.pure (a, b))) (wr1 x ++ wr2 y ++ rest) = .ok (x, y) rest := by
  simp [List.append_assoc, h1 (wr2 y ++ rest), h2 rest]

/-! ### tests (evaluation on literals, labelled as such) and satisfiability of the hypotheses -/

-- test: the scanners on the harness's corruption tokens
example : scanN "abc".toList = none := by decide +kernel
example : scanN "-1".toList = some (18446744073709551615, []) := by decide +kernel
example : scanN "99999999999999999999".toList = none := by decide +kernel
example : scanN "0.5".toList = some (0, ".5".toList) := by decide +kernel
example : scanDQ "nan".toList = none := by decide +kernel
example : scanDQ "1e999".toList = none := by decide +kernel
example : scanDQ "1e".toList = none := by decide +kernel
example : scanDQ "-1".toList = some (-1, []) := by decide +kernel
example : scanDQ "0.5@".toList = some (1/2, ['@']) := by decide +kernel
example : printDQ 17 third = "0.33333333333333331".toList := by decide +kernel
example : printDQ 6 third = "0.333333".toList := by decide +kernel

/-- test: a concrete dense model with a non-dyadic discount -/
def mW : DModel Rat := ⟨third, [[[1/4, 3/4], [1, 0]]], [[1/2], [-3]]⟩

/-- test: every hypothesis of `roundtrip_dmodel` holds for `mW` on the driver's instance at 17 digits, so the theorem
    applies to it -/
example : RoundTrips (rdDModel (ratIO (1/1000000)) 2 1) (wrDModel (ratIO (1/1000000)) ⟨17, 17, 17, 17, 17⟩) mW := by
  refine roundtrip_dmodel _ _ 2 1 mW (by decide +kernel) (by unfold RT; decide +kernel) ?_ ?_
  · unfold AllMat3 AllMat RT; decide +kernel
  · unfold AllMat RT; decide +kernel

-- test: valid objects of the other kinds exist (hypotheses `…ValidB = true` are satisfiable by non-trivial values)
example : dexpValidB 2 1 (⟨3, [[[1, 2], [0, 0]]], [[3], [0]], [[third], [0]], [[1/2], [0]]⟩ : DExp Rat) = true := by decide +kernel
example : smodelValidB (ratIO (1/1000000)) 2 1 ⟨1/2, [[⟨0, 0, 1/4⟩, ⟨0, 1, 3/4⟩, ⟨1, 1, 1⟩]], [⟨1, 0, -3⟩]⟩ = true := by decide +kernel
example : mpolValidB (ratIO (1/1000000)) 2 2 [[1/4, 3/4], [third, 1 - third]] = true := by decide +kernel
example : pdValidB (ratIO (1/1000000)) (dmodelValidB (ratIO (1/1000000)) 2 1) 2 1 2 (mW, [[[1/2, 1/2], [0, 1]]]) = true := by decide +kernel
-- test: the sparse reader merges duplicate triplets and restores storage order
example : fromTriplets (· + ·) [⟨1, 0, (1 : Rat)⟩, ⟨0, 1, 2⟩, ⟨1, 0, 3⟩] = [⟨0, 1, 2⟩, ⟨1, 0, 4⟩] := by decide +kernel

/-! ### the writers emit clean tokens, so the byte-level theorems apply to what they write -/

/-- the text of a double has no white space in it and is not empty (true of `printf("%.*g")`) -/
def PrintClean (io : DblIO D) : Prop := ∀ p d, CleanTok (io.printD p d)

theorem atTok_clean : CleanTok atTok := ⟨by simp [atTok], by intro c hc; simp [atTok] at hc; subst hc; decide⟩

theorem wrMat_clean (io : DblIO D) (hp : PrintClean io) (p : Nat) (m : Mat D) : ∀ t ∈ wrMat io p m, CleanTok t := by
  intro t ht
  simp only [wrMat, wrVec, List.mem_flatMap, List.mem_map] at ht
  obtain ⟨r, _, d, _, rfl⟩ := ht
  exact hp p d

theorem wrMat3_clean (io : DblIO D) (hp : PrintClean io) (p : Nat) (m : List (Mat D)) : ∀ t ∈ wrMat3 io p m, CleanTok t := by
  intro t ht
  simp only [wrMat3, List.mem_flatMap] at ht
  obtain ⟨x, _, hx⟩ := ht
  exact wrMat_clean io hp p x t hx

theorem wrDModel_clean (io : DblIO D) (hp : PrintClean io) (pr : Prec) (m : DModel D) : ∀ t ∈ wrDModel io pr m, CleanTok t := by
  intro t ht
  simp only [wrDModel, List.mem_cons, List.mem_append] at ht
  rcases ht with rfl | ht | ht
  · exact hp _ _
  · exact wrMat3_clean io hp _ _ t ht
  · exact wrMat_clean io hp _ _ t ht

theorem wrPPol_clean (io : DblIO D) (hp : PrintClean io) (pr : Prec) (vf : VF D) : ∀ t ∈ wrPPol io pr vf, CleanTok t := by
  intro t ht
  simp only [wrPPol, wrVList, wrEntry, List.mem_append, List.mem_flatMap, List.mem_map, List.mem_cons,
    List.mem_nil_iff, or_false] at ht
  rcases ht with ⟨l, _, ⟨e, _, h⟩ | rfl⟩ | rfl
  · rcases h with ⟨d, _, rfl⟩ | rfl | ⟨o, _, rfl⟩
    · exact hp _ _
    · exact printN_clean _
    · exact printN_clean _
  · exact atTok_clean
  · exact atTok_clean

/-- **byte-level truncation**: cut the file of a written object anywhere between two tokens (inside or right after
    a separator, any white-space layout): the load is rejected and the destination is left alone -/
theorem truncated_bytes_rejected {α} (rd : Rd α) (wr : α → Stream) (hext : Ext rd) (x : α) (hrt : RoundTrips rd wr x)
    (dest : α) (lead : List Char) (hlead : ∀ c ∈ lead, isWs c = true)
    (l1 l2 : List (Tok × List Char)) (hl : ∀ p ∈ l1 ++ l2, CleanTok p.1 ∧ Sep p.2) (hx : (l1 ++ l2).map (·.1) = wr x)
    (hcut : l2 ≠ []) :
    (load rd dest (tokenize (lead ++ render l1))).sig ≠ none ∧ (load rd dest (tokenize (lead ++ render l1))).dest = dest := by
  rw [tokenize_render lead hlead l1 (fun p hp => hl p (List.mem_append_left _ hp))]
  refine truncated_load_rejected rd wr hext x hrt dest _ (l2.map (·.1)) (by rw [← hx, List.map_append]) ?_
  intro h
  exact hcut (List.map_eq_nil_iff.mp h)

/-- **POMDP::Policy, as the source stands**: either the writer still has the 6-digit defect (finding C17-1), or every
    valid policy of any horizon round-trips. Re-checked against the regenerated `Gen.IOPrec` on every run; with the fix
    applied the first alternative is false and this is the full-strength statement. -/
theorem roundtrip_ppol_or_defect [DecidableEq D] (io : DblIO D) (hat : NoAt io) (h17 : Dbl17 io) (S A O : Nat) (vf : VF D)
    (hv : ppolValidB io S A O vf = true) (hA : A ≤ two64) (hlen : ∀ l ∈ vf, l.length ≤ two64) :
    AITB.Gen.IOPrec.pomdpPolicy = 6 ∨ RoundTrips (rdPPol io S A O) (wrPPol io genPrec) vf := by
  rcases IOPrec_pomdpPolicy with h | h
  · exact Or.inl h
  · exact Or.inr (roundtrip_ppol_src io hat h17 h S A O vf hv hA hlen)

/-- **MDP::SparseExperience, as the source stands**: either counts are still read through `double` (finding C17-2), or
    every valid sparse experience round-trips. -/
theorem roundtrip_sexp_or_defect (io : DblIO D) (h17 : Dbl17 io) (S A : Nat) (e : SExp D) (hv : sexpValidB S A e = true)
    (hdimS : S * S < two64) (hdimA : S * A < two64) :
    AITB.Gen.IOPrec.sparseTableViaDouble = true ∨
      RoundTrips (rdSExp io AITB.Gen.IOPrec.sparseTableViaDouble S A) (wrSExp io genPrec) e := by
  cases h : AITB.Gen.IOPrec.sparseTableViaDouble with
  | true => exact Or.inl rfl
  | false => exact Or.inr (by rw [← h]; exact roundtrip_sexp_src io h17 h S A e hv hdimS hdimA)

/-! ### a non-numeric token anywhere in a written object makes the load fail -/

/-- a token no extraction accepts: not a number for either scanner, not the separator (`abc`, `nan`, `inf`, `1e999`, …) -/
def Junk (io : DblIO D) (j : Tok) : Prop := io.scanD j = none ∧ scanN j = none ∧ j.head? ≠ some '@'

/-- on every input `p` the reader either succeeds, or fails as soon as a junk token follows `p` (whatever comes after) -/
def Tri (io : DblIO D) {α} (rd : Rd α) : Prop :=
  ∀ p, (∃ y r, rd p = .ok y r) ∨ (∀ j q, Junk io j → ∃ e, rd (p ++ j :: q) = .bad e)

theorem tri_rdN (io : DblIO D) : Tri io rdN := by
  intro p
  cases p with
  | nil => exact Or.inr (fun j q hj => ⟨.failbit, by simp [rdN, hj.2.1]⟩)
  | cons t ts =>
    cases hs : scanN t with
    | none => exact Or.inr (fun j q _ => ⟨.failbit, by simp [rdN, hs]⟩)
    | some v => exact Or.inl ⟨v.1, pushBack v.2 ts, by simp [rdN, hs]⟩

theorem tri_rdD (io : DblIO D) : Tri io (rdD io) := by
  intro p
  cases p with
  | nil => exact Or.inr (fun j q hj => ⟨.failbit, by simp [rdD, hj.1]⟩)
  | cons t ts =>
    cases hs : io.scanD t with
    | none => exact Or.inr (fun j q _ => ⟨.failbit, by simp [rdD, hs]⟩)
    | some v => exact Or.inl ⟨v.1, pushBack v.2 ts, by simp [rdD, hs]⟩

theorem tri_pure (io : DblIO D) {α} (a : α) : Tri io (Rd.pure a) := fun p => Or.inl ⟨a, p, rfl⟩
theorem tri_need (io : DblIO D) (c : Bool) : Tri io (need c) := by
  intro p
  cases c with
  | true => exact Or.inl ⟨(), p, rfl⟩
  | false => exact Or.inr (fun j q _ => ⟨.failbit, rfl⟩)

theorem tri_bind (io : DblIO D) {α β} (m : Rd α) (f : α → Rd β) (hm : Tri io m) (hext : Ext m) (hf : ∀ a, Tri io (f a)) :
    Tri io (Rd.bind m f) := by
  intro p
  rcases hm p with ⟨a, s1, h1⟩ | h1
  · rcases hf a s1 with ⟨y, r, h2⟩ | h2
    · exact Or.inl ⟨y, r, by simp [h1, h2]⟩
    · refine Or.inr (fun j q hj => ?_)
      obtain ⟨e, he⟩ := h2 j q hj
      exact ⟨e, by simp [hext p (j :: q) a s1 h1, he]⟩
  · refine Or.inr (fun j q hj => ?_)
    obtain ⟨e, he⟩ := h1 j q hj
    exact ⟨e, by simp [he]⟩

theorem tri_rep (io : DblIO D) {α} (rd : Rd α) (h : Tri io rd) (hext : Ext rd) : ∀ n, Tri io (rep rd n)
  | 0 => tri_pure io []
  | n + 1 => tri_bind io _ _ h hext (fun _ => tri_bind io _ _ (tri_rep io rd h hext n) (ext_rep rd hext n) (fun _ => tri_pure io _))

theorem tri_guard (io : DblIO D) {α} (c : Bool) (m : Rd α) (hm : Tri io m) : Tri io (fun s => if c then R.bad Sig.threw else m s) := by
  intro p
  cases c with
  | true => exact Or.inr (fun j q _ => ⟨.threw, rfl⟩)
  | false => simpa using hm p

theorem tri_rdMat (io : DblIO D) (rows cols : Nat) : Tri io (rdMat io rows cols) :=
  tri_rep io _ (tri_rep io _ (tri_rdD io) (ext_rdD io) cols) (ext_rep _ (ext_rdD io) cols) rows
theorem tri_rdMat3 (io : DblIO D) (k rows cols : Nat) : Tri io (rdMat3 io k rows cols) :=
  tri_rep io _ (tri_rdMat io rows cols) (ext_rdMat io rows cols) k
theorem tri_rdTab3 (io : DblIO D) (k rows cols : Nat) : Tri io (rdTab3 k rows cols) :=
  tri_rep io _ (tri_rep io _ (tri_rep io _ (tri_rdN io) ext_rdN cols) (ext_rep _ ext_rdN cols) rows) (ext_rep _ (ext_rep _ ext_rdN cols) rows) k

theorem tri_rdTriplets (io : DblIO D) {V} (rdV : Rd V) (hV : Tri io rdV) (hVe : Ext rdV) (rows cols : Nat) :
    ∀ n, Tri io (rdTriplets rdV rows cols n)
  | 0 => tri_pure io []
  | n + 1 =>
    tri_bind io _ _ (tri_rdN io) ext_rdN fun _ => tri_bind io _ _ (tri_rdN io) ext_rdN fun _ => tri_bind io _ _ hV hVe fun _ =>
    tri_bind io _ _ (tri_need io _) (ext_need _) fun _ => tri_bind io _ _ (tri_need io _) (ext_need _) fun _ =>
    tri_bind io _ _ (tri_rdTriplets io rdV hV hVe rows cols n) (ext_rdTriplets rdV hVe rows cols n) fun _ => tri_pure io _

theorem tri_rdSpGen (io : DblIO D) {V} (rdV : Rd V) (hV : Tri io rdV) (hVe : Ext rdV) (add : V → V → V) (rows cols : Nat) :
    Tri io (rdSpGen rdV add rows cols) :=
  tri_bind io _ _ (tri_rdN io) ext_rdN fun _ => tri_bind io _ _ (tri_need io _) (ext_need _) fun _ =>
  tri_bind io _ _ (tri_rdTriplets io rdV hV hVe rows cols _) (ext_rdTriplets rdV hVe rows cols _) fun _ => tri_pure io _

theorem tri_rdSpMat (io : DblIO D) (rows cols : Nat) : Tri io (rdSpMat io rows cols) :=
  tri_rdSpGen io _ (tri_rdD io) (ext_rdD io) _ rows cols
theorem tri_rdSpMat3 (io : DblIO D) (k rows cols : Nat) : Tri io (rdSpMat3 io k rows cols) :=
  tri_rep io _ (tri_rdSpMat io rows cols) (ext_rdSpMat io rows cols) k
theorem tri_rdCount (io : DblIO D) (vd : Bool) : Tri io (rdCount io vd) := by
  cases vd with
  | false => exact tri_rdN io
  | true => exact tri_bind io _ _ (tri_rdD io) (ext_rdD io) fun _ => tri_pure io _
theorem tri_rdSpTab3 (io : DblIO D) (vd : Bool) (k rows cols : Nat) : Tri io (rdSpTab3 io vd k rows cols) :=
  tri_rep io _ (tri_rdSpGen io _ (tri_rdCount io vd) (ext_rdCount io vd) _ rows cols) (ext_rdSpGen _ (ext_rdCount io vd) _ rows cols) k

theorem tri_rdDExp (io : DblIO D) (S A : Nat) : Tri io (rdDExp io S A) :=
  tri_bind io _ _ (tri_rdN io) ext_rdN fun _ => tri_bind io _ _ (tri_rdTab3 io A S S) (ext_rdTab3 A S S) fun _ =>
  tri_bind io _ _ (tri_rdMat io S A) (ext_rdMat io S A) fun _ => tri_bind io _ _ (tri_rdMat io S A) (ext_rdMat io S A) fun _ => tri_pure io _
theorem tri_rdSExp (io : DblIO D) (vd : Bool) (S A : Nat) : Tri io (rdSExp io vd S A) :=
  tri_bind io _ _ (tri_rdN io) ext_rdN fun _ => tri_bind io _ _ (tri_rdSpTab3 io vd A S S) (ext_rdSpTab3 io vd A S S) fun _ =>
  tri_bind io _ _ (tri_rdSpMat io S A) (ext_rdSpMat io S A) fun _ => tri_bind io _ _ (tri_rdSpMat io S A) (ext_rdSpMat io S A) fun _ => tri_pure io _
theorem tri_rdDModel (io : DblIO D) (S A : Nat) : Tri io (rdDModel io S A) :=
  tri_bind io _ _ (tri_rdD io) (ext_rdD io) fun d => tri_guard io (!io.discountOk d) _
    (tri_bind io _ _ (tri_rdMat3 io A S S) (ext_rdMat3 io A S S) fun _ => tri_bind io _ _ (tri_need io _) (ext_need _) fun _ =>
     tri_bind io _ _ (tri_rdMat io S A) (ext_rdMat io S A) fun _ => tri_pure io _)
theorem tri_rdSModel (io : DblIO D) (S A : Nat) : Tri io (rdSModel io S A) :=
  tri_bind io _ _ (tri_rdD io) (ext_rdD io) fun d => tri_guard io (!io.discountOk d) _
    (tri_bind io _ _ (tri_rdSpMat3 io A S S) (ext_rdSpMat3 io A S S) fun _ => tri_bind io _ _ (tri_need io _) (ext_need _) fun _ =>
     tri_bind io _ _ (tri_rdSpMat io S A) (ext_rdSpMat io S A) fun _ => tri_pure io _)
theorem tri_rdPD (io : DblIO D) {M} (rdM : Rd M) (hM : Tri io rdM) (hMe : Ext rdM) (S A O : Nat) : Tri io (rdPD io rdM S A O) :=
  tri_bind io _ _ hM hMe fun _ => tri_bind io _ _ (tri_rdMat3 io A S O) (ext_rdMat3 io A S O) fun _ =>
  tri_bind io _ _ (tri_need io _) (ext_need _) fun _ => tri_pure io _
theorem tri_rdPS (io : DblIO D) {M} (rdM : Rd M) (hM : Tri io rdM) (hMe : Ext rdM) (S A O : Nat) : Tri io (rdPS io rdM S A O) :=
  tri_bind io _ _ hM hMe fun _ => tri_bind io _ _ (tri_rdSpMat3 io A S O) (ext_rdSpMat3 io A S O) fun _ =>
  tri_bind io _ _ (tri_need io _) (ext_need _) fun _ => tri_pure io _
theorem tri_rdMPol (io : DblIO D) (S A : Nat) : Tri io (rdMPol io S A) :=
  tri_bind io _ _ (tri_rdMat io S A) (ext_rdMat io S A) fun _ => tri_bind io _ _ (tri_need io _) (ext_need _) fun _ => tri_pure io _

/-- **generic**: replace any token of a written object by a junk token (and let anything follow): the read fails -/
theorem junk_token_fails (io : DblIO D) {α} (rd : Rd α) (wr : α → Stream) (htri : Tri io rd) (hext : Ext rd) (x : α)
    (hrt : RoundTrips rd wr x) (p : Stream) (t : Tok) (q q' : Stream) (hpq : wr x = p ++ t :: q) (j : Tok) (hj : Junk io j) :
    ∃ e, rd (p ++ j :: q') = .bad e := by
  rcases htri p with ⟨y, r, h⟩ | h
  · obtain ⟨e, he⟩ := strict_prefix_fails rd wr hext x hrt p (t :: q) hpq (by simp)
    rw [he] at h; cases h
  · exact h j q' hj

/-- at the level of `operator>>`: the corrupted file is rejected with a failure signal, destination untouched -/
theorem corrupted_load_rejected (io : DblIO D) {α} (rd : Rd α) (wr : α → Stream) (htri : Tri io rd) (hext : Ext rd) (x : α)
    (hrt : RoundTrips rd wr x) (dest : α) (p : Stream) (t : Tok) (q q' : Stream) (hpq : wr x = p ++ t :: q) (j : Tok) (hj : Junk io j) :
    (load rd dest (p ++ j :: q')).sig ≠ none ∧ (load rd dest (p ++ j :: q')).dest = dest := by
  obtain ⟨e, he⟩ := junk_token_fails io rd wr htri hext x hrt p t q q' hpq j hj
  simp [load, he]


theorem tri_rdEntry (io : DblIO D) (S A O oldH : Nat) : Tri io (rdEntry io S A O oldH) :=
  tri_bind io _ _ (tri_rep io _ (tri_rdD io) (ext_rdD io) S) (ext_rep _ (ext_rdD io) S) fun _ =>
  tri_bind io _ _ (tri_rdN io) ext_rdN fun _ => tri_bind io _ _ (tri_need io _) (ext_need _) fun _ =>
  tri_bind io _ _
    (tri_rep io _ (tri_bind io _ _ (tri_rdN io) ext_rdN fun _ => tri_bind io _ _ (tri_need io _) (ext_need _) fun _ => tri_pure io _)
      (ext_bind _ _ ext_rdN fun _ => ext_bind _ _ (ext_need _) fun _ => ext_pure _) O)
    (ext_rep _ (ext_bind _ _ ext_rdN fun _ => ext_bind _ _ (ext_need _) fun _ => ext_pure _) O) fun _ => tri_pure io _

theorem atSign_false_snd (s : Stream) (h : (atSign s).1 = false) : (atSign s).2 = s := by
  unfold atSign at *
  split
  · rename_i r ts; simp at h
  · rfl

theorem atSign_append_junk (io : DblIO D) (s q : Stream) (j : Tok) (hj : Junk io j) :
    atSign (s ++ j :: q) = ((atSign s).1, (atSign s).2 ++ j :: q) := by
  cases s with
  | nil => simpa [atSign] using atSign_nonAt j q hj.2.2
  | cons t ts => exact atSign_append (t :: ts) (j :: q) (by simp)

theorem tri_polLoop (io : DblIO D) (S A O : Nat) : ∀ (f : Nat) (vf : VF D) (b : Bool) (o : Nat), Tri io (polLoop io S A O f vf b o)
  | 0, _, _, _ => fun p => Or.inr (fun j q _ => ⟨.failbit, by simp [polLoop]⟩)
  | f + 1, vf, true, o => by
    intro p
    cases hb : (atSign p).1 with
    | true =>
      have e1 : atSign p = (true, (atSign p).2) := by rw [← hb]
      exact Or.inl ⟨vf, (atSign p).2, by simp only [polLoop]; rw [e1]⟩
    | false =>
      have e1 : atSign p = (false, p) := Prod.ext hb (atSign_false_snd p hb)
      rcases tri_polLoop io S A O f (vf ++ [[]]) false (lastLen vf) p with ⟨y, r, h⟩ | h
      · exact Or.inl ⟨y, r, by simp only [polLoop]; rw [e1]; exact h⟩
      · refine Or.inr (fun j q hj => ?_)
        obtain ⟨e, he⟩ := h j q hj
        have e2 : atSign (p ++ j :: q) = (false, p ++ j :: q) := by
          rw [atSign_append_junk io p q j hj, e1]
        exact ⟨e, by simp only [polLoop]; rw [e2]; exact he⟩
  | f + 1, vf, false, o => by
    intro p
    rcases tri_rdEntry io S A O o p with ⟨en, s1, h1⟩ | h1
    · cases hb : atSign s1 with
      | mk b s2 =>
        rcases tri_polLoop io S A O f (appendToLast vf en) b o s2 with ⟨y, r, h⟩ | h
        · exact Or.inl ⟨y, r, by simp only [polLoop, h1, hb]; exact h⟩
        · refine Or.inr (fun j q hj => ?_)
          obtain ⟨e, he⟩ := h j q hj
          have h2 := ext_rdEntry io S A O o p (j :: q) en s1 h1
          have h3 : atSign (s1 ++ j :: q) = (b, s2 ++ j :: q) := by rw [atSign_append_junk io s1 q j hj, hb]
          exact ⟨e, by simp only [polLoop, h2, h3]; exact he⟩
    · refine Or.inr (fun j q hj => ?_)
      obtain ⟨e, he⟩ := h1 j q hj
      exact ⟨e, by simp only [polLoop, he]⟩

theorem tri_rdPPol (io : DblIO D) (hsh : ScanShrinks io) (S A O : Nat) : Tri io (rdPPol io S A O) := by
  intro p
  cases hp : rdPPol io S A O p with
  | ok y r => exact Or.inl ⟨y, r, rfl⟩
  | bad e0 =>
    refine Or.inr (fun j q hj => ?_)
    rcases tri_polLoop io S A O (2 * streamSize (p ++ j :: q) + 2) (vf0 io S) true 1 p with ⟨y, r, h⟩ | h
    · have := rdPPol_fuel_free io hsh S A O p (2 * streamSize (p ++ j :: q) + 2) (by rw [streamSize_append]; omega)
      rw [this, hp] at h; cases h
    · exact h j q hj

/-- **POMDP::Policy**: any token of a written policy replaced by a junk token — the load is rejected, destination untouched -/
theorem corrupted_rejected_ppol [DecidableEq D] (io : DblIO D) (hat : NoAt io) (hsh : ScanShrinks io) (pr : Prec) (S A O : Nat) (vf : VF D)
    (hv : ppolValidB io S A O vf = true) (hA : A ≤ two64) (hlen : ∀ l ∈ vf, l.length ≤ two64)
    (hrt : ∀ l ∈ vf.drop 1, ∀ e ∈ l, ∀ d ∈ e.values, RT io pr.pomdpPolicy d)
    (dest : VF D) (p : Stream) (t : Tok) (q q' : Stream) (hpq : wrPPol io pr vf = p ++ t :: q) (j : Tok) (hj : Junk io j) :
    (load (rdPPol io S A O) dest (p ++ j :: q')).sig ≠ none ∧ (load (rdPPol io S A O) dest (p ++ j :: q')).dest = dest :=
  corrupted_load_rejected io _ _ (tri_rdPPol io hsh S A O) (ext_rdPPol io S A O) vf
    (roundtrip_ppol io hat pr S A O vf hv hA hlen hrt) dest p t q q' hpq j hj

/-- **MDP::Model** -/
theorem corrupted_rejected_dmodel (io : DblIO D) (pr : Prec) (S A : Nat) (m : DModel D) (hv : dmodelValidB io S A m = true)
    (hd : RT io pr.scalar m.discount) (ht : AllMat3 (RT io pr.dense) m.T) (hr : AllMat (RT io pr.dense) m.R)
    (dest : DModel D) (p : Stream) (t : Tok) (q q' : Stream) (hpq : wrDModel io pr m = p ++ t :: q) (j : Tok) (hj : Junk io j) :
    (load (rdDModel io S A) dest (p ++ j :: q')).sig ≠ none ∧ (load (rdDModel io S A) dest (p ++ j :: q')).dest = dest :=
  corrupted_load_rejected io _ _ (tri_rdDModel io S A) (ext_rdDModel io S A) m (roundtrip_dmodel io pr S A m hv hd ht hr) dest p t q q' hpq j hj

/-- **MDP::SparseExperience** -/
theorem corrupted_rejected_sexp (io : DblIO D) (pr : Prec) (vd : Bool) (S A : Nat) (e : SExp D) (hv : sexpValidB S A e = true)
    (hdimS : S * S < two64) (hdimA : S * A < two64) (hc : ∀ t ∈ e.visits, ∀ x ∈ t, CountRT io vd x.v)
    (hr : ∀ x ∈ e.rewards, RT io pr.sparse x.v) (hm : ∀ x ∈ e.m2, RT io pr.sparse x.v)
    (dest : SExp D) (p : Stream) (t : Tok) (q q' : Stream) (hpq : wrSExp io pr e = p ++ t :: q) (j : Tok) (hj : Junk io j) :
    (load (rdSExp io vd S A) dest (p ++ j :: q')).sig ≠ none ∧ (load (rdSExp io vd S A) dest (p ++ j :: q')).dest = dest :=
  corrupted_load_rejected io _ _ (tri_rdSExp io vd S A) (ext_rdSExp io vd S A) e
    (roundtrip_sexp io pr vd S A e hv hdimS hdimA hc hr hm) dest p t q q' hpq j hj

/-- test: the harness's corruption tokens `abc`, `nan` (and `inf`, `x`) are junk for the driver's instance;
    `1e999` is not (an integer extraction reads the `1` and leaves `e999`) -/
example : Junk (ratIO 0) "abc".toList ∧ Junk (ratIO 0) "nan".toList ∧ Junk (ratIO 0) "inf".toList ∧ ¬ Junk (ratIO 0) "1e999".toList := by
  unfold Junk; decide +kernel

/-! ### the driver's `printf("%.*g")` emits clean tokens -/

def okC (c : Char) : Bool := isDig c || c == '-' || c == '+' || c == '.' || c == 'e'

theorem okC_not_ws (c : Char) (h : okC c = true) : isWs c = false := by
  simp only [okC, Bool.or_eq_true, beq_iff_eq] at h
  rcases h with (((h | h) | h) | h) | h
  · simp only [isDig, Bool.and_eq_true, decide_eq_true_eq] at h
    simp only [isWs, Bool.or_eq_false_iff, beq_eq_false_iff_ne, ne_eq]
    refine ⟨⟨⟨⟨⟨?_, ?_⟩, ?_⟩, ?_⟩, ?_⟩, ?_⟩ <;> (intro hc; try (subst hc; revert h; decide)) <;> omega
  all_goals (subst h; decide)

theorem all_dig_printN (n : Nat) : ∀ c ∈ printN n, isDig c = true := by
  intro c hc
  simp only [printN, List.mem_map] at hc
  obtain ⟨d, hd, rfl⟩ := hc
  exact isDig_digitChar d (digits_lt10 n d hd)

theorem all_dig_padDigits (w n : Nat) : ∀ c ∈ padDigits w n, isDig c = true := by
  intro c hc
  simp only [padDigits, List.mem_append, List.mem_replicate] at hc
  rcases hc with ⟨_, rfl⟩ | hc
  · decide
  · exact all_dig_printN n c hc

theorem padDigits_ne_nil (w n : Nat) : padDigits w n ≠ [] := by
  have := (printN_clean n).1
  simp [padDigits, this]

theorem mem_stripZeros (l : List Char) (c : Char) (h : c ∈ stripZeros l) : c ∈ l := by
  simp only [stripZeros, List.mem_reverse] at h
  have := (List.dropWhile_sublist (fun x => x == '0') (l := l.reverse)).subset h
  simpa using this

theorem dig_okC (c : Char) (h : isDig c = true) : okC c = true := by simp [okC, h]

theorem fracStr_okC (l : List Char) (hl : ∀ c ∈ l, isDig c = true) : ∀ c ∈ fracStr l, okC c = true := by
  intro c hc
  unfold fracStr at hc
  simp only [] at hc
  split at hc
  · simp at hc
  · rcases List.mem_cons.mp hc with rfl | hc
    · decide
    · exact dig_okC c (hl c (mem_stripZeros l c hc))

theorem gText_clean (p : Nat) (neg : Bool) (ds : List Char) (x : Int) (hds : ∀ c ∈ ds, isDig c = true) (hne : ds ≠ []) :
    CleanTok (gText p neg ds x) := by
  have hsign : ∀ c ∈ (if neg then ['-'] else [] : List Char), okC c = true := by
    intro c hc; cases neg <;> simp at hc; subst hc; decide
  have hall : ∀ c ∈ gText p neg ds x, okC c = true := by
    intro c hc
    unfold gText at hc
    simp only [] at hc
    split at hc
    · simp only [List.mem_append, List.mem_cons, List.mem_nil_iff, or_false] at hc
      rcases hc with (((hc | hc) | hc) | hc) | hc
      · exact hsign c hc
      · exact dig_okC c (hds c (List.mem_of_mem_take hc))
      · exact fracStr_okC _ (fun d hd => hds d (List.mem_of_mem_drop hd)) c hc
      · rcases hc with rfl | rfl
        · decide
        · split <;> decide
      · exact dig_okC c (all_dig_padDigits _ _ c hc)
    · split at hc
      · simp only [List.mem_append] at hc
        rcases hc with (hc | hc) | hc
        · exact hsign c hc
        · exact dig_okC c (hds c (List.mem_of_mem_take hc))
        · exact fracStr_okC _ (fun d hd => hds d (List.mem_of_mem_drop hd)) c hc
      · simp only [List.mem_append, List.mem_cons, List.mem_nil_iff, or_false] at hc
        rcases hc with (hc | rfl) | hc
        · exact hsign c hc
        · decide
        · refine fracStr_okC _ ?_ c hc
          intro d hd
          rcases List.mem_append.mp hd with hd | hd
          · simp only [List.mem_replicate] at hd; rw [hd.2]; decide
          · exact hds d hd
  refine ⟨?_, fun c hc => okC_not_ws c (hall c hc)⟩
  unfold gText
  simp only []
  split
  · simp
  · split
    · cases ds with
      | nil => exact absurd rfl hne
      | cons a b => simp
    · simp

theorem printDQ_clean (p : Nat) (q : Rat) : CleanTok (printDQ p q) := by
  unfold printDQ
  simp only []
  split
  · exact ⟨by simp, by intro c hc; simp at hc; subst hc; decide⟩
  · exact gText_clean _ _ _ _ (all_dig_padDigits _ _) (padDigits_ne_nil _ _)

/-- the driver's instance writes clean tokens: the byte-level theorems apply to it unconditionally -/
theorem ratIO_printClean (tol : Rat) : PrintClean (ratIO tol) := fun p d => printDQ_clean p d

theorem corrupted_rejected_dexp (io : DblIO D) (pr : Prec) (S A : Nat) (e : DExp D) (hv : dexpValidB S A e = true)
    (hr : AllMat (RT io pr.dense) e.rewards) (hm : AllMat (RT io pr.dense) e.m2)
    (dest : DExp D) (p : Stream) (t : Tok) (q q' : Stream) (hpq : wrDExp io pr e = p ++ t :: q) (j : Tok) (hj : Junk io j) :
    (load (rdDExp io S A) dest (p ++ j :: q')).sig ≠ none ∧ (load (rdDExp io S A) dest (p ++ j :: q')).dest = dest :=
  corrupted_load_rejected io _ _ (tri_rdDExp io S A) (ext_rdDExp io S A) e (roundtrip_dexp io pr S A e hv hr hm) dest p t q q' hpq j hj

theorem corrupted_rejected_smodel (io : DblIO D) (pr : Prec) (S A : Nat) (m : SModel D) (hv : smodelValidB io S A m = true)
    (hdimS : S * S < two64) (hdimA : S * A < two64)
    (hd : RT io pr.scalar m.discount) (ht : ∀ t ∈ m.T, ∀ x ∈ t, RT io pr.sparse x.v) (hr : ∀ x ∈ m.R, RT io pr.sparse x.v)
    (dest : SModel D) (p : Stream) (t : Tok) (q q' : Stream) (hpq : wrSModel io pr m = p ++ t :: q) (j : Tok) (hj : Junk io j) :
    (load (rdSModel io S A) dest (p ++ j :: q')).sig ≠ none ∧ (load (rdSModel io S A) dest (p ++ j :: q')).dest = dest :=
  corrupted_load_rejected io _ _ (tri_rdSModel io S A) (ext_rdSModel io S A) m
    (roundtrip_smodel io pr S A m hv hdimS hdimA hd ht hr) dest p t q q' hpq j hj

theorem corrupted_rejected_mpol (io : DblIO D) (pr : Prec) (S A : Nat) (m : Mat D) (hv : mpolValidB io S A m = true)
    (h : AllMat (RT io pr.dense) m) (dest : Mat D) (p : Stream) (t : Tok) (q q' : Stream) (hpq : wrMPol io pr m = p ++ t :: q)
    (j : Tok) (hj : Junk io j) :
    (load (rdMPol io S A) dest (p ++ j :: q')).sig ≠ none ∧ (load (rdMPol io S A) dest (p ++ j :: q')).dest = dest :=
  corrupted_load_rejected io _ _ (tri_rdMPol io S A) (ext_rdMPol io S A) m (roundtrip_mpol io pr S A m hv h) dest p t q q' hpq j hj

theorem corrupted_rejected_pd {M} (io : DblIO D) (pr : Prec) (rdM : Rd M) (wrM : M → Stream) (vM : M → Bool)
    (htri : Tri io rdM) (hext : Ext rdM) (S A O : Nat) (x : M × List (Mat D)) (hv : pdValidB io vM S A O x = true)
    (hM : RoundTrips rdM wrM x.1) (ho : AllMat3 (RT io pr.dense) x.2) (dest : M × List (Mat D))
    (p : Stream) (t : Tok) (q q' : Stream) (hpq : wrPD io pr wrM x = p ++ t :: q) (j : Tok) (hj : Junk io j) :
    (load (rdPD io rdM S A O) dest (p ++ j :: q')).sig ≠ none ∧ (load (rdPD io rdM S A O) dest (p ++ j :: q')).dest = dest :=
  corrupted_load_rejected io _ _ (tri_rdPD io rdM htri hext S A O) (ext_rdPD io rdM hext S A O) x
    (roundtrip_pd io pr rdM wrM vM S A O x hv hM ho) dest p t q q' hpq j hj

theorem corrupted_rejected_ps {M} (io : DblIO D) (pr : Prec) (rdM : Rd M) (wrM : M → Stream) (vM : M → Bool)
    (htri : Tri io rdM) (hext : Ext rdM) (S A O : Nat) (x : M × List (SpMat D)) (hv : psValidB io vM S A O x = true)
    (hdim : S * O < two64) (hM : RoundTrips rdM wrM x.1) (ho : ∀ t ∈ x.2, ∀ e ∈ t, RT io pr.sparse e.v) (dest : M × List (SpMat D))
    (p : Stream) (t : Tok) (q q' : Stream) (hpq : wrPS io pr wrM x = p ++ t :: q) (j : Tok) (hj : Junk io j) :
    (load (rdPS io rdM S A O) dest (p ++ j :: q')).sig ≠ none ∧ (load (rdPS io rdM S A O) dest (p ++ j :: q')).dest = dest :=
  corrupted_load_rejected io _ _ (tri_rdPS io rdM htri hext S A O) (ext_rdPS io rdM hext S A O) x
    (roundtrip_ps io pr rdM wrM vM S A O x hv hdim hM ho) dest p t q q' hpq j hj

/-! ### a file whose trailing white space was trimmed still denotes the saved object -/

theorem tokenizeAux_render_append : ∀ (l : List (Tok × List Char)) (rest : List Char), (∀ p ∈ l, CleanTok p.1 ∧ Sep p.2) →
    tokenizeAux (render l ++ rest) [] = l.map (·.1) ++ tokenizeAux rest []
  | [], rest, _ => by simp [render]
  | (t, w) :: l, rest, hl => by
    have hp := hl (t, w) (List.mem_cons_self)
    have ih := tokenizeAux_render_append l rest (fun q hq => hl q (List.mem_cons_of_mem _ hq))
    simp only [render, List.append_assoc]
    rw [tokenizeAux_tok t _ [] hp.1.2, List.append_nil,
      tokenizeAux_sep w (render l ++ rest) t.reverse hp.2 (by simpa using hp.1.1), ih]
    simp

theorem tokenizeAux_last (t : Tok) (w : List Char) (ht : CleanTok t) (hw : ∀ c ∈ w, isWs c = true) :
    tokenizeAux (t ++ w) [] = [t] := by
  rw [tokenizeAux_tok t w [] ht.2, List.append_nil]
  cases w with
  | nil =>
    have : t.reverse ≠ [] := by simpa using ht.1
    cases h : t.reverse with
    | nil => exact absurd h this
    | cons a b => simp [tokenizeAux, ← h, ht.1]
  | cons c w =>
    have := tokenizeAux_sep (c :: w) [] t.reverse ⟨by simp, hw⟩ (by simpa using ht.1)
    simpa [tokenizeAux] using this

/-- **trimmed layout**: tokens separated by arbitrary non-empty white space, the LAST token followed by any amount of
    white space — including none, so that it ends exactly at end-of-input — tokenize to exactly the token list -/
theorem tokenize_render_trimmed (lead : List Char) (hlead : ∀ c ∈ lead, isWs c = true)
    (l : List (Tok × List Char)) (hl : ∀ p ∈ l, CleanTok p.1 ∧ Sep p.2) (t : Tok) (ht : CleanTok t)
    (w : List Char) (hw : ∀ c ∈ w, isWs c = true) :
    tokenize (lead ++ (render l ++ (t ++ w))) = l.map (·.1) ++ [t] := by
  unfold tokenize
  rw [tokenizeAux_ws lead _ hlead, tokenizeAux_render_append l _ hl, tokenizeAux_last t w ht hw]

/-- **the saved object is read back from the trimmed file**: whatever white space separates the tokens of `wr x`, and
    whether or not any white space follows the last token, the reader returns `x` and leaves nothing unread -/
theorem roundtrip_trimmed_bytes {α} (rd : Rd α) (wr : α → Stream) (x : α) (h : RoundTrips rd wr x)
    (lead : List Char) (hlead : ∀ c ∈ lead, isWs c = true)
    (l : List (Tok × List Char)) (hl : ∀ p ∈ l, CleanTok p.1 ∧ Sep p.2) (t : Tok) (ht : CleanTok t)
    (w : List Char) (hw : ∀ c ∈ w, isWs c = true) (hx : l.map (·.1) ++ [t] = wr x) :
    rd (tokenize (lead ++ (render l ++ (t ++ w)))) = .ok x [] := by
  rw [tokenize_render_trimmed lead hlead l hl t ht w hw, hx]
  simpa using h []

/-- at the level of `operator>>`: loading the trimmed file replaces the destination by the saved object -/
theorem load_trimmed_bytes {α} (rd : Rd α) (wr : α → Stream) (x dest : α) (h : RoundTrips rd wr x)
    (lead : List Char) (hlead : ∀ c ∈ lead, isWs c = true)
    (l : List (Tok × List Char)) (hl : ∀ p ∈ l, CleanTok p.1 ∧ Sep p.2) (t : Tok) (ht : CleanTok t)
    (w : List Char) (hw : ∀ c ∈ w, isWs c = true) (hx : l.map (·.1) ++ [t] = wr x) :
    (load rd dest (tokenize (lead ++ (render l ++ (t ++ w))))).dest = x ∧
    (load rd dest (tokenize (lead ++ (render l ++ (t ++ w))))).sig = none := by
  simp [load, roundtrip_trimmed_bytes rd wr x h lead hlead l hl t ht w hw hx]

end AITB.Codec
