/-
  AITB.Props.C17 — saved models, experiences and policies load back identically (C17).

  Statements are about the token-level codec model `AITB.Model.Codec`, for every `DblIO D` (any
  representation of doubles and of their stream formatting), every shape, every object and every
  input stream.  See docs/C17.md for the reading of each theorem.
-/
import AITB.Model.Codec
import AITB.Model.CodecNum
import AITB.Gen.IOPrec
namespace AITB.Codec

variable {D : Type}

/-! ### reader combinators -/

@[simp] theorem bind_apply {α β} (m : Rd α) (f : α → Rd β) (s : Stream) :
    Rd.bind m f s = match m s with | .ok a s' => f a s' | .bad e => .bad e := rfl
@[simp] theorem pure_apply {α} (a : α) (s : Stream) : Rd.pure a s = .ok a s := rfl
@[simp] theorem need_true (s : Stream) : need true s = .ok () s := rfl
@[simp] theorem need_false (s : Stream) : need false s = .bad .failbit := rfl

/-- a writer/reader pair for one value: reading what was written gives the value back and leaves the rest -/
def RoundTrips {α} (rd : Rd α) (wr : α → Stream) (x : α) : Prop := ∀ rest, rd (wr x ++ rest) = .ok x rest

theorem rep_roundtrip {α} (rd : Rd α) (wr : α → Stream) :
    ∀ (xs : List α), (∀ x ∈ xs, RoundTrips rd wr x) → RoundTrips (rep rd xs.length) (fun l => l.flatMap wr) xs
  | [], _, rest => by simp [rep]
  | x :: xs, h, rest => by
    have hx := h x (List.mem_cons_self)
    have ih := rep_roundtrip rd wr xs (fun y hy => h y (List.mem_cons_of_mem _ hy)) rest
    simp only [RoundTrips] at hx ih
    simp [rep, List.flatMap_cons, List.append_assoc, hx, ih]

theorem rep_roundtrip' {α} (rd : Rd α) (wr : α → Stream) (n : Nat) (xs : List α) (hn : xs.length = n)
    (h : ∀ x ∈ xs, RoundTrips rd wr x) : RoundTrips (rep rd n) (fun l => l.flatMap wr) xs := by
  subst hn; exact rep_roundtrip rd wr xs h

/-- what `rep` returns on ANY stream: the right number of items, each satisfying what one read guarantees -/
theorem rep_ok {α} (rd : Rd α) (P : α → Prop) (hP : ∀ s a s', rd s = .ok a s' → P a) :
    ∀ n s xs s', rep rd n s = .ok xs s' → xs.length = n ∧ ∀ x ∈ xs, P x
  | 0, s, xs, s', h => by simp [rep] at h; rcases h with ⟨rfl, rfl⟩; simp
  | n + 1, s, xs, s', h => by
    simp only [rep, bind_apply] at h
    cases h1 : rd s with
    | bad e => simp [h1] at h
    | ok a s1 =>
      simp only [h1] at h
      cases h2 : rep rd n s1 with
      | bad e => simp [h2] at h
      | ok r s2 =>
        simp only [h2, pure_apply] at h
        have ih := rep_ok rd P hP n s1 r s2 h2
        injection h with h3 h4
        subst h3
        refine ⟨by simp [ih.1], ?_⟩
        intro x hx
        rcases List.mem_cons.mp hx with rfl | hx
        · exact hP _ _ _ h1
        · exact ih.2 x hx

/-! ### unsigned integers: `is >> n` inverts `os << n` -/

theorem evalDigits_digitsAux : ∀ (f n : Nat) (acc : List Nat), n < f →
    (digitsAux f n acc).foldl (fun a d => a * 10 + d) 0 = acc.foldl (fun a d => a * 10 + d) n
  | 0, n, acc, h => by omega
  | f + 1, n, acc, h => by
    unfold digitsAux
    split
    · simp
    · rename_i h10
      rw [evalDigits_digitsAux f (n / 10) (n % 10 :: acc) (by omega)]
      simp only [List.foldl_cons]
      congr 1
      omega

theorem evalDigits_digits (n : Nat) : evalDigits (digits n) = n := by
  unfold evalDigits digits
  rw [evalDigits_digitsAux (n + 1) n [] (by omega)]
  rfl

theorem digitsAux_lt10 : ∀ (f n : Nat) (acc : List Nat), (∀ d ∈ acc, d < 10) → ∀ d ∈ digitsAux f n acc, d < 10
  | 0, n, acc, h => by simpa [digitsAux] using h
  | f + 1, n, acc, h => by
    unfold digitsAux
    split
    · rename_i h10
      intro d hd
      rcases List.mem_cons.mp hd with rfl | hd
      · exact h10
      · exact h d hd
    · apply digitsAux_lt10
      intro d hd
      rcases List.mem_cons.mp hd with rfl | hd
      · omega
      · exact h d hd

theorem digits_lt10 (n : Nat) : ∀ d ∈ digits n, d < 10 := digitsAux_lt10 _ _ [] (by simp)

theorem digitsAux_ne_nil : ∀ (f n : Nat) (acc : List Nat), acc ≠ [] ∨ 0 < f → digitsAux f n acc ≠ []
  | 0, n, acc, h => by
    rcases h with h | h
    · simpa [digitsAux] using h
    · omega
  | f + 1, n, acc, _ => by
    unfold digitsAux
    split
    · simp
    · exact digitsAux_ne_nil f _ _ (Or.inl (by simp))

theorem digits_ne_nil (n : Nat) : digits n ≠ [] := digitsAux_ne_nil _ _ _ (Or.inr (by omega))

theorem digitChar_toNat (d : Nat) (h : d < 10) : (digitChar d).toNat = 48 + d := by
  have : d = 0 ∨ d = 1 ∨ d = 2 ∨ d = 3 ∨ d = 4 ∨ d = 5 ∨ d = 6 ∨ d = 7 ∨ d = 8 ∨ d = 9 := by omega
  rcases this with rfl | rfl | rfl | rfl | rfl | rfl | rfl | rfl | rfl | rfl <;> rfl

theorem isDig_digitChar (d : Nat) (h : d < 10) : isDig (digitChar d) = true := by
  simp [isDig, digitChar_toNat d h]; omega

theorem digitVal_digitChar (d : Nat) (h : d < 10) : digitVal (digitChar d) = d := by
  simp [digitVal, digitChar_toNat d h]

theorem spanP_all (p : Char → Bool) : ∀ (l : List Char), (∀ c ∈ l, p c = true) → spanP p l = (l, [])
  | [], _ => rfl
  | c :: cs, h => by
    have hc := h c (List.mem_cons_self)
    have ih := spanP_all p cs (fun x hx => h x (List.mem_cons_of_mem _ hx))
    simp [spanP, hc, ih]

theorem digitChar_ne_sign (d : Nat) (h : d < 10) : digitChar d ≠ '-' ∧ digitChar d ≠ '+' ∧ digitChar d ≠ '@' := by
  have : d = 0 ∨ d = 1 ∨ d = 2 ∨ d = 3 ∨ d = 4 ∨ d = 5 ∨ d = 6 ∨ d = 7 ∨ d = 8 ∨ d = 9 := by omega
  rcases this with rfl | rfl | rfl | rfl | rfl | rfl | rfl | rfl | rfl | rfl <;> decide

/-- `is >> n` reads back exactly what `os << n` wrote, consuming the whole token -/
theorem scanN_printN (n : Nat) (hn : n < two64) : scanN (printN n) = some (n, []) := by
  have hne := digits_ne_nil n
  have hlt := digits_lt10 n
  unfold printN
  cases hd : digits n with
  | nil => exact absurd hd hne
  | cons d ds =>
    rw [hd] at hlt
    have hd10 : d < 10 := hlt d (List.mem_cons_self)
    have hs := digitChar_ne_sign d hd10
    have hall : ∀ c ∈ (d :: ds).map digitChar, isDig c = true := by
      intro c hc
      rcases List.mem_map.mp hc with ⟨x, hx, rfl⟩
      exact isDig_digitChar x (hlt x hx)
    have hval : ((d :: ds).map digitChar).map digitVal = d :: ds := by
      rw [List.map_map]
      conv => rhs; rw [← List.map_id (d :: ds)]
      apply List.map_congr_left
      intro x hx
      simp [digitVal_digitChar x (hlt x hx)]
    have hev : evalDigits (d :: ds) = n := by rw [← hd]; exact evalDigits_digits n
    have hsplit : splitSign ((d :: ds).map digitChar) = (false, (d :: ds).map digitChar) := by
      simp only [List.map_cons, splitSign]
      split
      · rename_i r heq; injection heq with h1 _; exact absurd h1 hs.1
      · rename_i r heq; injection heq with h1 _; exact absurd h1 hs.2.1
      · rfl
    unfold scanN
    simp only [hsplit, spanP_all isDig _ hall, hval, hev]
    simp [Nat.not_le.mpr hn]

theorem rdN_printN (n : Nat) (hn : n < two64) (rest : Stream) : rdN (printN n :: rest) = .ok n rest := by
  simp [rdN, scanN_printN n hn, pushBack]

/-! ### doubles: the round-trip hypothesis, value by value -/

/-- `is >> d` returns exactly `d` from the text `os << d` produced under precision `p`, consuming all of it.
    For an IEEE double and `p ≥ 17 = max_digits10` this is the classical shortest-round-trip result
    (trusted; the driver evaluates it on every value it sees). -/
def RT (io : DblIO D) (p : Nat) (d : D) : Prop := io.scanD (io.printD p d) = some (d, [])

theorem rdD_printD (io : DblIO D) (p : Nat) (d : D) (h : RT io p d) (rest : Stream) :
    rdD io (io.printD p d :: rest) = .ok d rest := by
  simp [rdD, RT] at *; simp [h, pushBack]

theorem rt_N (n : Nat) (hn : n < two64) : RoundTrips rdN (fun n => [printN n]) n := fun rest => by
  simpa using rdN_printN n hn rest

theorem rt_D (io : DblIO D) (p : Nat) (d : D) (h : RT io p d) : RoundTrips (rdD io) (fun d => [io.printD p d]) d :=
  fun rest => by simpa using rdD_printD io p d h rest

theorem flatMap_singleton {α β} (f : α → β) (l : List α) : l.flatMap (fun x => [f x]) = l.map f := by
  induction l with
  | nil => rfl
  | cons a l ih => simp [List.flatMap_cons, ih]

/-! ### dense matrices and tables -/

def AllMat {α} (P : α → Prop) (m : Mat α) : Prop := ∀ r ∈ m, ∀ x ∈ r, P x
def AllMat3 {α} (P : α → Prop) (m : List (Mat α)) : Prop := ∀ t ∈ m, AllMat P t

theorem shapeB_iff {α} (rows cols : Nat) (m : Mat α) :
    shapeB rows cols m = true ↔ m.length = rows ∧ ∀ r ∈ m, r.length = cols := by
  simp [shapeB, List.all_eq_true]
theorem shape3B_iff {α} (k rows cols : Nat) (m : List (Mat α)) :
    shape3B k rows cols m = true ↔ m.length = k ∧ ∀ t ∈ m, shapeB rows cols t = true := by
  simp [shape3B, List.all_eq_true]

theorem rt_vec (io : DblIO D) (p cols : Nat) (v : List D) (hl : v.length = cols) (h : ∀ d ∈ v, RT io p d) :
    RoundTrips (rep (rdD io) cols) (wrVec io p) v := by
  have := rep_roundtrip' (rdD io) (fun d => [io.printD p d]) cols v hl (fun d hd => rt_D io p d (h d hd))
  intro rest
  have h2 := this rest
  simp only [flatMap_singleton] at h2
  exact h2

theorem rt_mat (io : DblIO D) (p rows cols : Nat) (m : Mat D) (hs : shapeB rows cols m = true)
    (h : AllMat (RT io p) m) : RoundTrips (rdMat io rows cols) (wrMat io p) m := by
  rw [shapeB_iff] at hs
  exact rep_roundtrip' _ (wrVec io p) rows m hs.1 (fun r hr => rt_vec io p cols r (hs.2 r hr) (h r hr))

theorem rt_mat3 (io : DblIO D) (p k rows cols : Nat) (m : List (Mat D)) (hs : shape3B k rows cols m = true)
    (h : AllMat3 (RT io p) m) : RoundTrips (rdMat3 io k rows cols) (wrMat3 io p) m := by
  rw [shape3B_iff] at hs
  exact rep_roundtrip' _ (wrMat io p) k m hs.1 (fun t ht => rt_mat io p rows cols t (hs.2 t ht) (h t ht))

theorem rt_nats (cols : Nat) (v : List Nat) (hl : v.length = cols) (h : ∀ n ∈ v, n < two64) :
    RoundTrips (rep rdN cols) (fun r => r.map printN) v := by
  have := rep_roundtrip' rdN (fun n => [printN n]) cols v hl (fun n hn => rt_N n (h n hn))
  intro rest
  have h2 := this rest
  simp only [flatMap_singleton] at h2
  exact h2

theorem rt_tab (rows cols : Nat) (m : Mat Nat) (hs : shapeB rows cols m = true)
    (h : AllMat (· < two64) m) : RoundTrips (rdTab rows cols) wrTab m := by
  rw [shapeB_iff] at hs
  exact rep_roundtrip' _ (fun r => r.map printN) rows m hs.1 (fun r hr => rt_nats cols r (hs.2 r hr) (h r hr))

theorem rt_tab3 (k rows cols : Nat) (m : List (Mat Nat)) (hs : shape3B k rows cols m = true)
    (h : AllMat3 (· < two64) m) : RoundTrips (rdTab3 k rows cols) wrTab3 m := by
  rw [shape3B_iff] at hs
  exact rep_roundtrip' _ wrTab k m hs.1 (fun t ht => rt_tab rows cols t (hs.2 t ht) (h t ht))

/-! ### sparse matrices and tables -/

theorem keyLt_iff {V} (a b : SpE V) : keyLt a b = true ↔ a.r < b.r ∨ (a.r = b.r ∧ a.c < b.c) := by
  simp [keyLt]
theorem keyEq_iff {V} (a b : SpE V) : keyEq a b = true ↔ a.r = b.r ∧ a.c = b.c := by
  simp [keyEq]

theorem keyLt_trans {V} (a b c : SpE V) (h1 : keyLt a b = true) (h2 : keyLt b c = true) : keyLt a c = true := by
  rw [keyLt_iff] at *; omega

theorem keyLt_asymm {V} (a b : SpE V) (h : keyLt a b = true) : keyLt b a = false ∧ keyEq b a = false := by
  rw [keyLt_iff] at h
  constructor
  · cases hh : keyLt b a with
    | false => rfl
    | true => rw [keyLt_iff] at hh; omega
  · cases hh : keyEq b a with
    | false => rfl
    | true => rw [keyEq_iff] at hh; omega

theorem keyLt_total {V} (a b : SpE V) (h1 : keyLt a b = false) (h2 : keyEq a b = false) : keyLt b a = true := by
  rw [keyLt_iff]
  have n1 : ¬ (a.r < b.r ∨ (a.r = b.r ∧ a.c < b.c)) := by rw [← keyLt_iff]; simp [h1]
  have n2 : ¬ (a.r = b.r ∧ a.c = b.c) := by rw [← keyEq_iff]; simp [h2]
  omega

/-- storage order as a pairwise relation -/
def Sorted {V} (m : SpMat V) : Prop := List.Pairwise (fun a b => keyLt a b = true) m

theorem sortedB_iff {V} : ∀ (m : SpMat V), sortedB m = true ↔ Sorted m
  | [] => by simp [sortedB, Sorted]
  | [a] => by simp [sortedB, Sorted]
  | a :: b :: r => by
    have ih := sortedB_iff (b :: r)
    simp only [sortedB, Bool.and_eq_true, ih, Sorted, List.pairwise_cons]
    constructor
    · rintro ⟨hab, hb, hr⟩
      refine ⟨?_, hb, hr⟩
      intro y hy
      rcases List.mem_cons.mp hy with rfl | hy
      · exact hab
      · exact keyLt_trans a b y hab (hb y hy)
    · rintro ⟨ha, hb, hr⟩
      exact ⟨ha b (List.mem_cons_self), hb, hr⟩

theorem insertSum_append {V} (add : V → V → V) (e : SpE V) :
    ∀ (acc : SpMat V), (∀ x ∈ acc, keyLt x e = true) → insertSum add e acc = acc ++ [e]
  | [], _ => rfl
  | x :: xs, h => by
    have hx := keyLt_asymm x e (h x (List.mem_cons_self))
    have ih := insertSum_append add e xs (fun y hy => h y (List.mem_cons_of_mem _ hy))
    simp [insertSum, hx.1, hx.2, ih]

theorem foldl_insert_sorted {V} (add : V → V → V) :
    ∀ (rem acc : SpMat V), Sorted (acc ++ rem) → rem.foldl (fun m e => insertSum add e m) acc = acc ++ rem
  | [], acc, _ => by simp
  | e :: rem, acc, h => by
    have hp := List.pairwise_append.mp h
    have h1 : insertSum add e acc = acc ++ [e] :=
      insertSum_append add e acc (fun x hx => hp.2.2 x hx e (List.mem_cons_self))
    simp only [List.foldl_cons, h1]
    rw [foldl_insert_sorted add rem (acc ++ [e]) (by simpa [Sorted, List.append_assoc] using h)]
    simp [List.append_assoc]

/-- `setFromTriplets` of the entries of a matrix already in storage order gives the same matrix -/
theorem fromTriplets_sorted {V} (add : V → V → V) (m : SpMat V) (h : Sorted m) : fromTriplets add m = m := by
  simpa [fromTriplets] using foldl_insert_sorted add m [] (by simpa using h)

theorem incr_length_le : ∀ (l : List Nat) (lo n : Nat), List.Pairwise (· < ·) l → (∀ x ∈ l, lo ≤ x ∧ x < n) → l.length ≤ n - lo
  | [], _, _, _, _ => by simp
  | x :: xs, lo, n, hp, hb => by
    rw [List.pairwise_cons] at hp
    have hx := hb x (List.mem_cons_self)
    have ih := incr_length_le xs (x + 1) n hp.2 (fun y hy => ⟨hp.1 y hy, (hb y (List.mem_cons_of_mem _ hy)).2⟩)
    simp only [List.length_cons]
    omega

theorem idx_lt {rows cols r c : Nat} (hr : r < rows) (hc : c < cols) : r * cols + c < rows * cols := by
  have h1 : (r + 1) * cols ≤ rows * cols := Nat.mul_le_mul_right cols hr
  have h2 : (r + 1) * cols = r * cols + cols := Nat.succ_mul r cols
  omega

theorem inRangeB_iff {V} (rows cols : Nat) (m : SpMat V) :
    inRangeB rows cols m = true ↔ ∀ e ∈ m, e.r < rows ∧ e.c < cols := by
  simp [inRangeB, List.all_eq_true]

/-- a matrix in storage order with in-range indices stores at most rows·cols entries -/
theorem sorted_length_le {V} (rows cols : Nat) (m : SpMat V) (hs : Sorted m) (hr : ∀ e ∈ m, e.r < rows ∧ e.c < cols) :
    m.length ≤ rows * cols := by
  have hp : List.Pairwise (· < ·) (m.map (fun e => e.r * cols + e.c)) := by
    rw [List.pairwise_map]
    refine List.Pairwise.imp_of_mem ?_ hs
    intro a b ha hb hab
    rw [keyLt_iff] at hab
    have hca := (hr a ha).2
    rcases hab with h | ⟨h1, h2⟩
    · have h1 : (a.r + 1) * cols ≤ b.r * cols := Nat.mul_le_mul_right cols h
      have h2 : (a.r + 1) * cols = a.r * cols + cols := Nat.succ_mul a.r cols
      omega
    · rw [h1]; omega
  have := incr_length_le _ 0 (rows * cols) hp (by
    intro x hx
    rcases List.mem_map.mp hx with ⟨e, he, rfl⟩
    exact ⟨Nat.zero_le _, idx_lt (hr e he).1 (hr e he).2⟩)
  simpa using this

theorem rt_triplets {V} (rdV : Rd V) (wrV : V → Tok) (rows cols : Nat) :
    ∀ (m : List (SpE V)),
      (∀ e ∈ m, ∀ rest, rdV (wrV e.v :: rest) = .ok e.v rest) →
      (∀ e ∈ m, e.r < rows ∧ e.c < cols ∧ e.r < two64 ∧ e.c < two64) →
      RoundTrips (rdTriplets rdV rows cols m.length) (fun m => m.flatMap (fun e => [printN e.r, printN e.c, wrV e.v])) m
  | [], _, _, rest => by simp [rdTriplets]
  | e :: m, hv, hr, rest => by
    have he := hr e (List.mem_cons_self)
    have ih := rt_triplets rdV wrV rows cols m (fun x hx => hv x (List.mem_cons_of_mem _ hx))
      (fun x hx => hr x (List.mem_cons_of_mem _ hx)) rest
    simp [rdTriplets, List.flatMap_cons, rdN_printN e.r he.2.2.1, rdN_printN e.c he.2.2.2,
      hv e (List.mem_cons_self), he.1, he.2.1, ih]

/-- generic sparse round trip: a matrix in storage order, indices in range, values that round-trip -/
theorem rt_spgen {V} (rdV : Rd V) (wrV : V → Tok) (add : V → V → V) (rows cols : Nat) (m : SpMat V)
    (hvalid : spValidB rows cols m = true) (hdim : rows * cols < two64)
    (hv : ∀ e ∈ m, ∀ rest, rdV (wrV e.v :: rest) = .ok e.v rest) :
    RoundTrips (rdSpGen rdV add rows cols) (fun m => printN m.length :: m.flatMap (fun e => [printN e.r, printN e.c, wrV e.v])) m := by
  simp only [spValidB, Bool.and_eq_true, sortedB_iff, inRangeB_iff] at hvalid
  obtain ⟨hs, hr⟩ := hvalid
  have hlen := sorted_length_le rows cols m hs hr
  have hr' : ∀ e ∈ m, e.r < rows ∧ e.c < cols ∧ e.r < two64 ∧ e.c < two64 := by
    intro e he
    have h := hr e he
    have h3 := idx_lt h.1 h.2
    have : e.c < two64 := by omega
    have hrc : e.r ≤ e.r * cols := Nat.le_mul_of_pos_right _ (by omega)
    exact ⟨h.1, h.2, by omega, this⟩
  intro rest
  have ht := rt_triplets rdV wrV rows cols m hv hr' rest
  simp [rdSpGen, rdN_printN m.length (by omega), hlen, ht, fromTriplets_sorted add m hs]

theorem rt_spmat (io : DblIO D) (p rows cols : Nat) (m : SpMat D) (hvalid : spValidB rows cols m = true)
    (hdim : rows * cols < two64) (h : ∀ e ∈ m, RT io p e.v) : RoundTrips (rdSpMat io rows cols) (wrSpMat io p) m :=
  rt_spgen (rdD io) (io.printD p) io.add rows cols m hvalid hdim (fun e he rest => rdD_printD io p e.v (h e he) rest)

/-- a visit count survives the sparse-table reader: directly (`unsigned long v`), or through the `double` the
    code as first read extracts it into -/
def CountRT (io : DblIO D) (viaDouble : Bool) (n : Nat) : Prop :=
  n < two64 ∧ (viaDouble = true → ∃ d, io.scanD (printN n) = some (d, []) ∧ io.toCount d = n)

theorem rdCount_printN (io : DblIO D) (vd : Bool) (n : Nat) (h : CountRT io vd n) (rest : Stream) :
    rdCount io vd (printN n :: rest) = .ok n rest := by
  cases vd with
  | false => simpa [rdCount] using rdN_printN n h.1 rest
  | true =>
    obtain ⟨d, h1, h2⟩ := h.2 rfl
    simp [rdCount, rdD, h1, h2, pushBack]

theorem rt_sptab (io : DblIO D) (vd : Bool) (rows cols : Nat) (m : SpMat Nat) (hvalid : spValidB rows cols m = true)
    (hdim : rows * cols < two64) (h : ∀ e ∈ m, CountRT io vd e.v) : RoundTrips (rdSpTab io vd rows cols) wrSpTab m :=
  rt_spgen (rdCount io vd) printN addN rows cols m hvalid hdim (fun e he rest => rdCount_printN io vd e.v (h e he) rest)

theorem sp3ValidB_iff {V} (k rows cols : Nat) (m : List (SpMat V)) :
    sp3ValidB k rows cols m = true ↔ m.length = k ∧ ∀ t ∈ m, spValidB rows cols t = true := by
  simp [sp3ValidB, List.all_eq_true]

theorem rt_spmat3 (io : DblIO D) (p k rows cols : Nat) (m : List (SpMat D)) (hvalid : sp3ValidB k rows cols m = true)
    (hdim : rows * cols < two64) (h : ∀ t ∈ m, ∀ e ∈ t, RT io p e.v) :
    RoundTrips (rdSpMat3 io k rows cols) (wrSpMat3 io p) m := by
  rw [sp3ValidB_iff] at hvalid
  exact rep_roundtrip' _ (wrSpMat io p) k m hvalid.1 (fun t ht => rt_spmat io p rows cols t (hvalid.2 t ht) hdim (h t ht))

theorem rt_sptab3 (io : DblIO D) (vd : Bool) (k rows cols : Nat) (m : List (SpMat Nat)) (hvalid : sp3ValidB k rows cols m = true)
    (hdim : rows * cols < two64) (h : ∀ t ∈ m, ∀ e ∈ t, CountRT io vd e.v) :
    RoundTrips (rdSpTab3 io vd k rows cols) wrSpTab3 m := by
  rw [sp3ValidB_iff] at hvalid
  exact rep_roundtrip' _ wrSpTab k m hvalid.1 (fun t ht => rt_sptab io vd rows cols t (hvalid.2 t ht) hdim (h t ht))

/-! ### round trips of every kind of object -/

theorem allNat_of_validB (v : List (Mat Nat))
    (h : v.all (fun t => t.all (fun r => r.all (fun n => decide (n < two64)))) = true) : AllMat3 (· < two64) v := by
  intro t ht r hr n hn
  simp only [List.all_eq_true, decide_eq_true_eq] at h
  exact h t ht r hr n hn

/-- **MDP::Experience**: every experience (any S, A, any counts below 2^64, any reward/M2 values that round-trip
    at the dense writer's precision) is read back identically, whatever follows on the stream. -/
theorem roundtrip_dexp (io : DblIO D) (pr : Prec) (S A : Nat) (e : DExp D) (hv : dexpValidB S A e = true)
    (hr : AllMat (RT io pr.dense) e.rewards) (hm : AllMat (RT io pr.dense) e.m2) :
    RoundTrips (rdDExp io S A) (wrDExp io pr) e := by
  simp only [dexpValidB, Bool.and_eq_true, decide_eq_true_eq, beq_iff_eq] at hv
  obtain ⟨⟨⟨⟨⟨ht, hsv⟩, hnv⟩, hsum⟩, hsr⟩, hsm⟩ := hv
  intro rest
  have h1 := rt_tab3 A S S e.visits hsv (allNat_of_validB _ hnv)
  have h2 := rt_mat io pr.dense S A e.rewards hsr hr
  have h3 := rt_mat io pr.dense S A e.m2 hsm hm
  simp only [rdDExp, wrDExp, bind_apply, List.cons_append, List.append_assoc, rdN_printN e.timesteps ht,
    h1 _, h2 _, h3 _, pure_apply, ← hsum]

/-- **MDP::SparseExperience** -/
theorem roundtrip_sexp (io : DblIO D) (pr : Prec) (vd : Bool) (S A : Nat) (e : SExp D) (hv : sexpValidB S A e = true)
    (hdimS : S * S < two64) (hdimA : S * A < two64)
    (hc : ∀ t ∈ e.visits, ∀ x ∈ t, CountRT io vd x.v)
    (hr : ∀ x ∈ e.rewards, RT io pr.sparse x.v) (hm : ∀ x ∈ e.m2, RT io pr.sparse x.v) :
    RoundTrips (rdSExp io vd S A) (wrSExp io pr) e := by
  simp only [sexpValidB, Bool.and_eq_true, decide_eq_true_eq, beq_iff_eq] at hv
  obtain ⟨⟨⟨⟨⟨ht, hsv⟩, _⟩, hsum⟩, hsr⟩, hsm⟩ := hv
  intro rest
  have h1 := rt_sptab3 io vd A S S e.visits hsv hdimS hc
  have h2 := rt_spmat io pr.sparse S A e.rewards hsr hdimA hr
  have h3 := rt_spmat io pr.sparse S A e.m2 hsm hdimA hm
  simp only [rdSExp, wrSExp, bind_apply, List.cons_append, List.append_assoc, rdN_printN e.timesteps ht,
    h1 _, h2 _, h3 _, pure_apply, ← hsum]

/-- **MDP::Model** -/
theorem roundtrip_dmodel (io : DblIO D) (pr : Prec) (S A : Nat) (m : DModel D) (hv : dmodelValidB io S A m = true)
    (hd : RT io pr.scalar m.discount) (ht : AllMat3 (RT io pr.dense) m.T) (hr : AllMat (RT io pr.dense) m.R) :
    RoundTrips (rdDModel io S A) (wrDModel io pr) m := by
  simp only [dmodelValidB, Bool.and_eq_true] at hv
  obtain ⟨⟨⟨hdisc, hst⟩, hprob⟩, hsr⟩ := hv
  intro rest
  have h1 := rt_mat3 io pr.dense A S S m.T hst ht
  have h2 := rt_mat io pr.dense S A m.R hsr hr
  simp only [rdDModel, wrDModel, bind_apply, List.cons_append, List.append_assoc,
    rdD_printD io pr.scalar m.discount hd, hdisc, h1 _, h2 _, hprob, need_true, pure_apply, Bool.not_true]
  rfl

/-- **MDP::SparseModel** -/
theorem roundtrip_smodel (io : DblIO D) (pr : Prec) (S A : Nat) (m : SModel D) (hv : smodelValidB io S A m = true)
    (hdimS : S * S < two64) (hdimA : S * A < two64)
    (hd : RT io pr.scalar m.discount) (ht : ∀ t ∈ m.T, ∀ x ∈ t, RT io pr.sparse x.v) (hr : ∀ x ∈ m.R, RT io pr.sparse x.v) :
    RoundTrips (rdSModel io S A) (wrSModel io pr) m := by
  simp only [smodelValidB, Bool.and_eq_true] at hv
  obtain ⟨⟨⟨hdisc, hst⟩, hprob⟩, hsr⟩ := hv
  intro rest
  have h1 := rt_spmat3 io pr.sparse A S S m.T hst hdimS ht
  have h2 := rt_spmat io pr.sparse S A m.R hsr hdimA hr
  simp only [rdSModel, wrSModel, bind_apply, List.cons_append, List.append_assoc,
    rdD_printD io pr.scalar m.discount hd, hdisc, h1 _, h2 _, hprob, need_true, pure_apply, Bool.not_true]
  rfl

/-- **POMDP::Model<M>** over any underlying model kind whose codec round-trips -/
theorem roundtrip_pd {M} (io : DblIO D) (pr : Prec) (rdM : Rd M) (wrM : M → Stream) (vM : M → Bool) (S A O : Nat)
    (x : M × List (Mat D)) (hv : pdValidB io vM S A O x = true) (hM : RoundTrips rdM wrM x.1)
    (ho : AllMat3 (RT io pr.dense) x.2) : RoundTrips (rdPD io rdM S A O) (wrPD io pr wrM) x := by
  simp only [pdValidB, Bool.and_eq_true] at hv
  obtain ⟨⟨_, hso⟩, hprob⟩ := hv
  intro rest
  have h1 := rt_mat3 io pr.dense A S O x.2 hso ho
  simp only [rdPD, wrPD, bind_apply, List.append_assoc, hM _, h1 _, hprob, need_true, pure_apply]

/-- **POMDP::SparseModel<M>** -/
theorem roundtrip_ps {M} (io : DblIO D) (pr : Prec) (rdM : Rd M) (wrM : M → Stream) (vM : M → Bool) (S A O : Nat)
    (x : M × List (SpMat D)) (hv : psValidB io vM S A O x = true) (hdim : S * O < two64) (hM : RoundTrips rdM wrM x.1)
    (ho : ∀ t ∈ x.2, ∀ e ∈ t, RT io pr.sparse e.v) : RoundTrips (rdPS io rdM S A O) (wrPS io pr wrM) x := by
  simp only [psValidB, Bool.and_eq_true] at hv
  obtain ⟨⟨_, hso⟩, hprob⟩ := hv
  intro rest
  have h1 := rt_spmat3 io pr.sparse A S O x.2 hso hdim ho
  simp only [rdPS, wrPS, bind_apply, List.append_assoc, hM _, h1 _, hprob, need_true, pure_apply]

/-- **MDP::Policy** -/
theorem roundtrip_mpol (io : DblIO D) (pr : Prec) (S A : Nat) (m : Mat D) (hv : mpolValidB io S A m = true)
    (h : AllMat (RT io pr.dense) m) : RoundTrips (rdMPol io S A) (wrMPol io pr) m := by
  simp only [mpolValidB, Bool.and_eq_true] at hv
  intro rest
  have h1 := rt_mat io pr.dense S A m hv.1 h
  simp only [rdMPol, wrMPol, bind_apply, h1 _, hv.2, need_true, pure_apply]

end AITB.Codec
