/-
  AITB.Props.C08Chain — property C08, round 4.

  P. the matrix overloads of `isProbability` accept exactly the tables whose every row the 1-D template
     accepts (so "accepted by isProbability" means the same thing on every construction route of a model
     object), and an accepted sparse / dense table satisfies, row by row, the hypotheses of the sampler
     theorems (`…_rows_select_valid`);
  H. sequences of samples drawn through ONE engine handed by reference, the scanned row depending on the
     whole history: the draw vectors mapped to an outcome sequence are ONE box whose volume is the product
     of the table entries along the sequence (`chain_selects_jointly`, every length, every
     history-dependent row function); instances for `MDP::Model::sampleSR` rollouts under any
     history-dependent policy and for `POMDP::Model::sampleSOR` rollouts;
  K. a copied engine (all samples from the same draw) does NOT follow the product of the tables
     (`copied_engine_not_product`).
-/
import AITB.Props.C08Models
import AITB.Model.SamplingChain

namespace AITB.Sampling
open AITB.Factored

/-! ## P: `isProbability` overloads -/

theorem ch_foldl_min_lt (l : List Rat) : ∀ m : Rat,
    (l.foldl (fun m y => if y < m then y else m) m < 0 ↔ m < 0 ∨ ∃ x ∈ l, x < 0) := by
  induction l with
  | nil => intro m; simp
  | cons y ys ih =>
    intro m
    rw [List.foldl_cons, ih]
    constructor
    · rintro (h | ⟨x, hx, hx0⟩)
      · by_cases hym : y < m
        · rw [if_pos hym] at h; exact Or.inr ⟨y, by simp, h⟩
        · rw [if_neg hym] at h; exact Or.inl h
      · exact Or.inr ⟨x, by simp [hx], hx0⟩
    · rintro (h | ⟨x, hx, hx0⟩)
      · by_cases hym : y < m
        · rw [if_pos hym]; exact Or.inl (lt_trans hym h)
        · rw [if_neg hym]; exact Or.inl h
      · rcases List.mem_cons.mp hx with rfl | hx'
        · by_cases hym : x < m
          · rw [if_pos hym]; exact Or.inl hx0
          · rw [if_neg hym]; exact Or.inl (lt_of_le_of_lt (not_lt.mp hym) hx0)
        · exact Or.inr ⟨x, hx', hx0⟩

/-- `minCoeff() < 0` iff some entry is negative (non-empty rows; the empty row has no `minCoeff`) -/
theorem minCoeff_neg_iff (l : List Rat) : minCoeff l < 0 ↔ ∃ x ∈ l, x < 0 := by
  cases l with
  | nil => simp [minCoeff]
  | cons x xs =>
    unfold minCoeff
    rw [ch_foldl_min_lt]
    constructor
    · rintro (h | ⟨y, hy, hy0⟩)
      · exact ⟨x, by simp, h⟩
      · exact ⟨y, by simp [hy], hy0⟩
    · rintro ⟨y, hy, hy0⟩
      rcases List.mem_cons.mp hy with rfl | hy'
      · exact Or.inl hy0
      · exact Or.inr ⟨y, hy', hy0⟩

/-- **P1** one row of the `Matrix2D` overload decides exactly what the 1-D template decides -/
theorem isProbRowMin_eq_isProb (l : List Rat) : isProbRowMin l = isProb l := by
  rw [Bool.eq_iff_iff]
  unfold isProbRowMin isProb
  simp only [Bool.or_eq_false_iff, decide_eq_false_iff_not, Bool.and_eq_true, List.all_eq_true,
    Bool.not_eq_true', Bool.not_eq_eq_eq_not, Bool.not_true]
  rw [minCoeff_neg_iff]
  constructor
  · rintro ⟨h1, h2⟩
    exact ⟨fun x hx hx0 => h1 ⟨x, hx, hx0⟩, h2⟩
  · rintro ⟨h1, h2⟩
    exact ⟨fun ⟨x, hx, hx0⟩ => h1 x hx hx0, h2⟩

/-- **P2** the `Matrix2D` / `Matrix3D` overloads agree with the 2-D / 3-D template overloads -/
theorem isProbMatrix2D_eq_table (m : List (List Rat)) : isProbMatrix2D m = isProbTable2D m := by
  unfold isProbMatrix2D isProbTable2D
  congr 1
  funext l
  exact isProbRowMin_eq_isProb l

theorem isProbMatrix3D_eq_table (t : List (List (List Rat))) : isProbMatrix3D t = isProbTable3D t := by
  unfold isProbMatrix3D isProbTable3D
  congr 1
  funext m
  exact isProbMatrix2D_eq_table m

/-- **P3** an accepted dense table: every row is non-negative with a sum within `equalToleranceSmall` of one -/
theorem isProbMatrix2D_iff (m : List (List Rat)) :
    isProbMatrix2D m = true ↔
      ∀ l ∈ m, (∀ x ∈ l, 0 ≤ x) ∧ absQ (l.sum - 1) ≤ Gen.equalToleranceSmall := by
  rw [isProbMatrix2D_eq_table]
  unfold isProbTable2D
  rw [List.all_eq_true]
  exact ⟨fun h l hl => (dense_isProb_iff l).mp (h l hl), fun h l hl => (dense_isProb_iff l).mpr (h l hl)⟩

/-- **P4** the `SparseMatrix2D` overload as it is now (sign test on the stored values, then row sums):
    accepted iff every STORED row is accepted by the 1-D template -/
theorem isProbSparse2D_iff (m : List (List (Nat × Rat))) :
    isProbSparse2D m = true ↔ ∀ row ∈ m, isProb (row.map (·.2)) = true := by
  unfold isProbSparse2D isProb
  simp only [Bool.and_eq_true, List.all_eq_true, Bool.not_eq_true', decide_eq_false_iff_not, List.mem_map,
    forall_exists_index, and_imp, forall_apply_eq_imp_iff₂]
  constructor
  · rintro ⟨h1, h2⟩ row hrow
    exact ⟨fun e he => h1 row hrow e he, h2 row hrow⟩
  · intro h
    exact ⟨fun row hrow e he => (h row hrow).1 e he, fun row hrow => (h row hrow).2⟩

/-- **P5** no negative stored value is accepted any more (the pre-54353bc form `isProbSparse` accepted
    `[1 + 4e-7, -4e-7]`: `isProbSparse_accepts_negative`) -/
theorem isProbSparse2D_rejects_negative (m : List (List (Nat × Rat))) (row : List (Nat × Rat)) (e : Nat × Rat)
    (hrow : row ∈ m) (he : e ∈ row) (hneg : e.2 < 0) : isProbSparse2D m = false := by
  rw [Bool.eq_false_iff]
  intro h
  have := ((dense_isProb_iff _).mp ((isProbSparse2D_iff m).mp h row hrow)).1 e.2 (List.mem_map.mpr ⟨e, he, rfl⟩)
  linarith

example : isProbSparse2D [[(0, 1 + 4/10000000), (1, -(4/10000000))]] = false :=
  isProbSparse2D_rejects_negative _ [(0, 1 + 4/10000000), (1, -(4/10000000))] (1, -(4/10000000))
    (by simp) (by simp) (by norm_num)

/-- **P6** every stored row of an accepted sparse matrix satisfies the hypotheses of the sampler theorem:
    each stored column is selected with a probability within 1e-6 of its stored value (columns ascending:
    Eigen's compressed row-major order) -/
theorem isProbSparse2D_rows_select_valid (d : Nat) (m : List (List (Nat × Rat))) (h : isProbSparse2D m = true)
    (row : List (Nat × Rat)) (hrow : row ∈ m) (hs : row.Pairwise (fun a b => a.1 < b.1)) (hne : row ≠ [])
    (k : Nat) (hk : k < row.length) :
    ∃ q, SelectsWithProb (sampleSparseFixed d row) (row[k]).1 q ∧
      absQ (q - (row[k]).2) ≤ AITB.Gen.equalToleranceSmall := by
  have hp := (isProbSparse2D_iff m).mp h row hrow
  have hnn : ∀ e ∈ row, 0 ≤ e.2 := fun e he =>
    ((dense_isProb_iff _).mp hp).1 e.2 (List.mem_map.mpr ⟨e, he, rfl⟩)
  exact sparseFixed_selects_valid d row hs hnn hp hne k hk

/-- **P7** the same for an accepted dense table and the dense scan -/
theorem isProbMatrix2D_rows_select_valid (m : List (List Rat)) (h : isProbMatrix2D m = true)
    (l : List Rat) (hl : l ∈ m) (k : Nat) (hk : k < l.length) :
    ∃ q, SelectsWithProb (sampleDense l) k q ∧ absQ (q - l.getD k 0) ≤ AITB.Gen.equalToleranceSmall := by
  have hp : isProb l = true := (dense_isProb_iff l).mpr ((isProbMatrix2D_iff m).mp h l hl)
  exact dense_selects_valid l k hp hk

/-- test (P3/P7): a two-row table, second row with sum 1 - 2^-21 -/
example : isProbMatrix2D [[1/2, 1/2], [1/2, 1/2 - 1/2^21]] = true := by
  rw [isProbMatrix2D_iff]
  intro l hl
  simp only [List.mem_cons, List.not_mem_nil, or_false] at hl
  rcases hl with rfl | rfl <;> constructor <;>
    norm_num [absQ, Gen.equalToleranceSmall]

/-! ## H: sequences of samples through one engine -/

theorem chainGo_length (row : List Nat → List Rat) : ∀ (us : List Rat) (hist : List Nat),
    (chainGo row hist us).length = us.length
  | [], _ => rfl
  | _ :: us, hist => by simp [chainGo, chainGo_length row us]

/-- **H1** unfolding: the `i`-th outcome is the scan of the row selected by the first `i` outcomes, with draw `i` -/
theorem chainGo_eq_iff (row : List Nat → List Rat) : ∀ (us : List Rat) (hist tr : List Nat),
    chainGo row hist us = tr ↔
      us.length = tr.length ∧
        ∀ i, i < us.length → sampleDense (row (hist ++ tr.take i)) (us.getD i 0) = tr.getD i 0 := by
  intro us
  induction us with
  | nil =>
    intro hist tr
    cases tr with
    | nil => simp [chainGo]
    | cons t ts => simp [chainGo]
  | cons u us ih =>
    intro hist tr
    cases tr with
    | nil => simp [chainGo]
    | cons t ts =>
      simp only [chainGo, List.cons.injEq, List.length_cons, Nat.add_right_cancel_iff]
      constructor
      · rintro ⟨hk, hrest⟩
        subst hk
        obtain ⟨hl, hi⟩ := (ih _ ts).mp hrest
        refine ⟨hl, ?_⟩
        intro i hi'
        cases i with
        | zero => simp
        | succ j =>
          have := hi j (by omega)
          simpa [List.append_assoc] using this
      · rintro ⟨hl, hi⟩
        have h0 := hi 0 (by omega)
        simp only [List.take_zero, List.append_nil, List.getD_cons_zero] at h0
        refine ⟨h0, ?_⟩
        rw [h0]
        refine (ih _ ts).mpr ⟨hl, ?_⟩
        intro j hj
        have := hi (j + 1) (by omega)
        simpa [List.append_assoc] using this

/-- the rows along an outcome sequence are valid distributions and the outcomes are inside them -/
def ChainValid (row : List Nat → List Rat) (hist tr : List Nat) : Prop :=
  ∀ i, i < tr.length →
    (∀ x ∈ row (hist ++ tr.take i), 0 ≤ x) ∧ (row (hist ++ tr.take i)).sum = 1 ∧
      tr.getD i 0 < (row (hist ++ tr.take i)).length

/-- side `i` of the box of an outcome sequence: `[c, c + p)` of the row selected by the first `i` outcomes -/
def chainSide (row : List Nat → List Rat) (hist tr : List Nat) (i : Nat) : Rat × Rat :=
  (cum (row (hist ++ tr.take i)) (tr.getD i 0),
    cum (row (hist ++ tr.take i)) (tr.getD i 0) + (row (hist ++ tr.take i)).getD (tr.getD i 0) 0)

/-- **H2** the draw vectors in the unit cube mapped to the outcome sequence `tr` are exactly one box -/
theorem chainGo_box (row : List Nat → List Rat) (hist tr : List Nat) (us : List Rat)
    (hlen : us.length = tr.length) (hv : ChainValid row hist tr)
    (hu : ∀ i, i < us.length → 0 ≤ us.getD i 0 ∧ us.getD i 0 < 1) :
    chainGo row hist us = tr ↔ ∀ i, i < us.length → inIv (chainSide row hist tr i) (us.getD i 0) := by
  rw [chainGo_eq_iff]
  constructor
  · rintro ⟨_, h⟩ i hi
    obtain ⟨hnn, hsum, _⟩ := hv i (by omega)
    have := (dense_preimage_sum_one _ (us.getD i 0) (tr.getD i 0) hnn hsum (hu i hi).1 (hu i hi).2).mp (h i hi)
    exact ⟨this.2.1, this.2.2⟩
  · intro h
    refine ⟨hlen, fun i hi => ?_⟩
    obtain ⟨hnn, hsum, hk⟩ := hv i (by omega)
    exact (dense_preimage_sum_one _ (us.getD i 0) (tr.getD i 0) hnn hsum (hu i hi).1 (hu i hi).2).mpr
      ⟨hk, (h i hi).1, (h i hi).2⟩

theorem ch_prod_range_succ (f : Nat → Rat) (n : Nat) :
    ((List.range (n + 1)).map f).prod = f 0 * ((List.range n).map (fun i => f (i + 1))).prod := by
  rw [List.range_succ_eq_map]
  simp [List.map_map, Function.comp_def]

/-- **H3** the volume of that box is the product of the table entries along the sequence -/
theorem chainProb_eq_prod (row : List Nat → List Rat) : ∀ (tr hist : List Nat),
    chainProb row hist tr =
      ((List.range tr.length).map (fun i => (row (hist ++ tr.take i)).getD (tr.getD i 0) 0)).prod := by
  intro tr
  induction tr with
  | nil => intro hist; simp [chainProb]
  | cons k ks ih =>
    intro hist
    rw [List.length_cons, ch_prod_range_succ]
    simp only [chainProb, List.take_zero, List.append_nil, List.getD_cons_zero, List.take_succ_cons,
      List.getD_cons_succ]
    rw [ih (hist ++ [k])]
    simp [List.append_assoc]

/-- **H4** (every length, every history-dependent row function) the outcome sequence `tr` is selected with
    joint probability `chainProb row [] tr` = Π_i row(tr[:i])[tr_i]: one box of draw vectors -/
theorem chain_selects_jointly (row : List Nat → List Rat) (tr : List Nat) (hv : ChainValid row [] tr) :
    SelectsJointly tr.length (chainSample row) tr (chainProb row [] tr) := by
  refine ⟨[(List.range tr.length).map (chainSide row [] tr)], ⟨?_, ?_, List.pairwise_singleton _ _⟩, ?_⟩
  · intro us hlen hu
    simp only [List.mem_singleton, exists_eq_left]
    unfold chainSample
    rw [chainGo_box row [] tr us hlen hv (fun i hi => by
      rw [mo_getD_eq_getElem _ _ _ hi]; exact hu _ (List.getElem_mem _))]
    unfold inBox
    rw [List.length_map, List.length_range, hlen]
    constructor
    · intro h
      refine ⟨rfl, fun i hi => ?_⟩
      rw [mo_getD_map_range _ (0, 0) _ i hi]
      exact h i hi
    · rintro ⟨_, h⟩ i hi
      have := h i hi
      rwa [mo_getD_map_range _ (0, 0) _ i hi] at this
  · intro bx hb
    rw [List.mem_singleton] at hb; subst hb
    refine ⟨by simp, ?_⟩
    intro iv hiv
    simp only [List.mem_map, List.mem_range] at hiv
    obtain ⟨i, hi, rfl⟩ := hiv
    obtain ⟨hnn, hsum, hk⟩ := hv i hi
    exact mo_iv_wf _ hnn hsum _ hk
  · rw [chainProb_eq_prod]
    simp only [List.map_cons, List.map_nil, List.sum_cons, List.sum_nil, add_zero, boxVol, List.map_map]
    congr 1
    apply List.map_congr_left
    intro i _
    simp only [Function.comp, chainSide]
    ring

/-- **H5** `MDP::Model::sampleSR` called repeatedly on one object (its engine advances by one draw per call),
    the action chosen by ANY function of the states visited so far: the trajectory `tr` from `s0` has joint
    probability Π_t T(a_t, s_t)[s_{t+1}] -/
theorem mdpRollout_selects_jointly (T : Nat → Nat → List Rat) (pol : List Nat → Nat) (s0 : Nat) (tr : List Nat)
    (hv : ChainValid (mdpRow T pol s0) [] tr) :
    SelectsJointly tr.length (mdpRollout T pol s0) tr (chainProb (mdpRow T pol s0) [] tr) :=
  chain_selects_jointly _ tr hv

/-- **H6** `POMDP::Model::sampleSOR` called repeatedly: outcomes (s1, o1, s2, o2, …), draws alternating between the
    two engines of the object; joint probability Π_t T(a_t, s_t)[s_{t+1}] · O(a_t, s_{t+1})[o_{t+1}] -/
theorem pomdpRollout_selects_jointly (T O : Nat → Nat → List Rat) (pol : List Nat → Nat) (s0 : Nat) (tr : List Nat)
    (hv : ChainValid (pomdpRow T O pol s0) [] tr) :
    SelectsJointly tr.length (pomdpRollout T O pol s0) tr (chainProb (pomdpRow T O pol s0) [] tr) :=
  chain_selects_jointly _ tr hv

/-- the first step of an MDP rollout is `sampleSR` (ties the chain to the single-call model) -/
theorem mdpRollout_head (T : Nat → Nat → List Rat) (R : Nat → Nat → Rat) (pol : List Nat → Nat) (s0 : Nat) (u : Rat) :
    mdpRollout T pol s0 [u] = [(sampleSR T R s0 (pol []) u).1] := by
  simp [mdpRollout, chainSample, chainGo, mdpRow, sampleSR]

/-- one `sampleSOR` call is a POMDP rollout of length two -/
theorem pomdpRollout_head (T O : Nat → Nat → List Rat) (R : Nat → Nat → Rat) (pol : List Nat → Nat) (s0 : Nat)
    (u1 u2 : Rat) :
    pomdpRollout T O pol s0 [u1, u2] =
      [(sampleSOR T O R s0 (pol []) u1 u2).1, (sampleSOR T O R s0 (pol []) u1 u2).2.1] := by
  simp [pomdpRollout, chainSample, chainGo, pomdpRow, sampleSOR, sampleSR]

/-- test (H5): a two-state chain, policy = parity of the number of visits to state 1; the trajectory
    0 → 1 → 1 → 0 has probability 1/2 · 3/4 · 1/2 -/
example : SelectsJointly 3
    (mdpRollout (fun a _ => if a = 0 then [1/2, 1/2] else [1/4, 3/4]) (fun h => (h.filter (· == 1)).length % 2) 0)
    [1, 1, 0] (3/16) := by
  have h := mdpRollout_selects_jointly (fun a _ => if a = 0 then [1/2, 1/2] else [1/4, 3/4])
    (fun h => (h.filter (· == 1)).length % 2) 0 [1, 1, 0] (by
      intro i hi
      have hi' : i < 3 := hi
      obtain rfl | rfl | rfl : i = 0 ∨ i = 1 ∨ i = 2 := by omega
      all_goals norm_num [mdpRow])
  have hv : chainProb (mdpRow (fun a _ => if a = 0 then [1/2, 1/2] else [1/4, 3/4])
      (fun h => (h.filter (· == 1)).length % 2) 0) [] [1, 1, 0] = 3/16 := by
    norm_num [chainProb, mdpRow]
  rwa [hv] at h

/-! ## H': the same for every table ACCEPTED by `isProbability` (row sums within 1e-6 of one) -/

/-- the draws in `[0,1)` mapped to index `k` of a row whose sum may differ from one: `[min c_k 1, min c_{k+1} 1)`,
    the last index taking everything up to 1 -/
def unitSide (l : List Rat) (k : Nat) : Rat × Rat :=
  (min (cum l k) 1, if k + 1 < l.length then min (cum l (k + 1)) 1 else 1)

theorem unitSide_len (l : List Rat) (k : Nat) : (unitSide l k).2 - (unitSide l k).1 = preimageLen l k := by
  unfold unitSide preimageLen
  by_cases h : k + 1 < l.length <;> simp [h]

theorem unitSide_iff (l : List Rat) (u : Rat) (k : Nat) (hnn : ∀ x ∈ l, 0 ≤ x) (hne : l ≠ [])
    (hu : 0 ≤ u) (hu1 : u < 1) :
    sampleDense l u = k ↔ k < l.length ∧ inIv (unitSide l k) u := by
  rw [dense_preimage_unit l u k hnn hne hu hu1]
  unfold inIv unitSide
  by_cases h : k + 1 < l.length
  · simp only [h, if_true, forall_const]
  · simp only [h, if_false]
    constructor
    · rintro ⟨a, b, _⟩; exact ⟨a, b, hu1⟩
    · rintro ⟨a, b, _⟩; exact ⟨a, b, fun h' => False.elim h'⟩

theorem unitSide_wf (l : List Rat) (k : Nat) (hnn : ∀ x ∈ l, 0 ≤ x) :
    0 ≤ (unitSide l k).1 ∧ (unitSide l k).1 ≤ (unitSide l k).2 ∧ (unitSide l k).2 ≤ 1 := by
  have h0 : 0 ≤ cum l k := cum_nonneg l k hnn
  have h01 : cum l k ≤ cum l (k + 1) := cum_le_succ l k hnn
  unfold unitSide
  refine ⟨le_min h0 (by norm_num), ?_, ?_⟩
  · by_cases h : k + 1 < l.length
    · simp only [h, if_true]; exact min_le_min h01 (le_refl _)
    · simp only [h, if_false]; exact min_le_right _ _
  · by_cases h : k + 1 < l.length
    · simp only [h, if_true]; exact min_le_right _ _
    · simp only [h, if_false]; exact le_refl _

/-- the rows along an outcome sequence are ACCEPTED by `isProbability` (sum within 1e-6 of one) -/
def ChainAccepted (row : List Nat → List Rat) (hist tr : List Nat) : Prop :=
  ∀ i, i < tr.length →
    isProb (row (hist ++ tr.take i)) = true ∧ tr.getD i 0 < (row (hist ++ tr.take i)).length

/-- **H2'** for accepted rows the draw vectors mapped to `tr` are still exactly one box -/
theorem chainGo_box_valid (row : List Nat → List Rat) (hist tr : List Nat) (us : List Rat)
    (hlen : us.length = tr.length) (hv : ChainAccepted row hist tr)
    (hu : ∀ i, i < us.length → 0 ≤ us.getD i 0 ∧ us.getD i 0 < 1) :
    chainGo row hist us = tr ↔
      ∀ i, i < us.length → inIv (unitSide (row (hist ++ tr.take i)) (tr.getD i 0)) (us.getD i 0) := by
  rw [chainGo_eq_iff]
  have hrow : ∀ i, i < tr.length → (∀ x ∈ row (hist ++ tr.take i), 0 ≤ x) ∧ row (hist ++ tr.take i) ≠ [] := by
    intro i hi
    obtain ⟨hp, hk⟩ := hv i hi
    refine ⟨((dense_isProb_iff _).mp hp).1, ?_⟩
    intro he; rw [he] at hk; simp at hk
  constructor
  · rintro ⟨_, h⟩ i hi
    obtain ⟨hnn, hne⟩ := hrow i (by omega)
    exact ((unitSide_iff _ _ _ hnn hne (hu i hi).1 (hu i hi).2).mp (h i hi)).2
  · intro h
    refine ⟨hlen, fun i hi => ?_⟩
    obtain ⟨hnn, hne⟩ := hrow i (by omega)
    exact (unitSide_iff _ _ _ hnn hne (hu i hi).1 (hu i hi).2).mpr ⟨(hv i (by omega)).2, h i hi⟩

/-- **H4'** (every length, every history-dependent row function, every table ACCEPTED by `isProbability`) the outcome
    sequence `tr` is selected with joint probability Π_i q_i where each factor `q_i` is within 1e-6 of the table entry
    `row(tr[:i])[tr_i]` -/
theorem chain_selects_jointly_valid (row : List Nat → List Rat) (tr : List Nat) (hv : ChainAccepted row [] tr) :
    SelectsJointly tr.length (chainSample row) tr
        (((List.range tr.length).map (fun i => preimageLen (row (tr.take i)) (tr.getD i 0))).prod) ∧
      ∀ i, i < tr.length →
        absQ (preimageLen (row (tr.take i)) (tr.getD i 0) - (row (tr.take i)).getD (tr.getD i 0) 0)
          ≤ Gen.equalToleranceSmall := by
  constructor
  · refine ⟨[(List.range tr.length).map (fun i => unitSide (row ([] ++ tr.take i)) (tr.getD i 0))],
      ⟨?_, ?_, List.pairwise_singleton _ _⟩, ?_⟩
    · intro us hlen hu
      simp only [List.mem_singleton, exists_eq_left]
      unfold chainSample
      rw [chainGo_box_valid row [] tr us hlen hv (fun i hi => by
        rw [mo_getD_eq_getElem _ _ _ hi]; exact hu _ (List.getElem_mem _))]
      unfold inBox
      rw [List.length_map, List.length_range, hlen]
      constructor
      · intro h
        refine ⟨rfl, fun i hi => ?_⟩
        rw [mo_getD_map_range _ (0, 0) _ i hi]
        exact h i hi
      · rintro ⟨_, h⟩ i hi
        have := h i hi
        rwa [mo_getD_map_range _ (0, 0) _ i hi] at this
    · intro bx hb
      rw [List.mem_singleton] at hb; subst hb
      refine ⟨by simp, ?_⟩
      intro iv hiv
      simp only [List.mem_map, List.mem_range] at hiv
      obtain ⟨i, hi, rfl⟩ := hiv
      exact unitSide_wf _ _ ((dense_isProb_iff _).mp (hv i hi).1).1
    · simp only [List.map_cons, List.map_nil, List.sum_cons, List.sum_nil, add_zero, boxVol, List.map_map]
      congr 1
      apply List.map_congr_left
      intro i _
      simp only [Function.comp, List.nil_append]
      exact unitSide_len _ _
  · intro i hi
    obtain ⟨hp, hk⟩ := hv i hi
    simp only [List.nil_append] at hp hk
    have hne : row (tr.take i) ≠ [] := by intro he; rw [he] at hk; simp at hk
    exact dense_preimage_length_valid _ _ hp hne hk

/-- **H5'** rollouts of `sampleSR` on any model whose tables `isProbability` accepts -/
theorem mdpRollout_selects_jointly_valid (T : Nat → Nat → List Rat) (pol : List Nat → Nat) (s0 : Nat) (tr : List Nat)
    (hv : ChainAccepted (mdpRow T pol s0) [] tr) :
    SelectsJointly tr.length (mdpRollout T pol s0) tr
        (((List.range tr.length).map (fun i => preimageLen (mdpRow T pol s0 (tr.take i)) (tr.getD i 0))).prod) ∧
      ∀ i, i < tr.length →
        absQ (preimageLen (mdpRow T pol s0 (tr.take i)) (tr.getD i 0) - (mdpRow T pol s0 (tr.take i)).getD (tr.getD i 0) 0)
          ≤ Gen.equalToleranceSmall :=
  chain_selects_jointly_valid _ tr hv

/-- test (H4'): one step on the row (1/2, 1/2 − 2⁻²¹) (accepted, sum below one): index 1 takes the slack -/
example : SelectsJointly 1 (chainSample (fun _ => [1/2, 1/2 - 1/2^21])) [1] (1/2) := by
  have h := (chain_selects_jointly_valid (fun _ => [1/2, 1/2 - 1/2^21]) [1] (by
    intro i hi
    obtain rfl : i = 0 := by simpa using hi
    constructor
    · norm_num [isProb, eqSmall, absQ, Gen.equalToleranceSmall]
    · simp)).1
  have hv : (((List.range [1].length).map (fun i => preimageLen ((fun _ => [1/2, 1/2 - 1/2^21]) ([1].take i)) ([1].getD i 0))).prod) = (1/2 : Rat) := by
    norm_num [preimageLen, cum]
  rwa [hv] at h

/-! ## H'': factored trajectories -/

/-- **H7** factored trajectories: `CooperativeModel::sampleSR` repeated on one object, joint action chosen by any function of
    the completed steps: one box, volume = product of the selected rows' entries over all steps and factors -/
theorem coopRollout_selects_jointly (S A : List Nat) (parents : List ParentSet) (T : List (List (List Rat)))
    (pol : List Nat → List Nat) (s0 : List Nat) (tr : List Nat)
    (hv : ChainValid (coopRolloutRow S A parents T pol s0) [] tr) :
    SelectsJointly tr.length (coopRollout S A parents T pol s0) tr
      (chainProb (coopRolloutRow S A parents T pol s0) [] tr) :=
  chain_selects_jointly _ tr hv

/-- the first step of a factored rollout is `coopSampleS` (the transition part of `sampleSR`) -/
theorem coopRollout_head (S A : List Nat) (parents : List ParentSet) (T : List (List (List Rat)))
    (pol : List Nat → List Nat) (s0 : List Nat) (us : List Rat)
    (h1 : parents.length = T.length) (h2 : T.length = us.length) :
    coopRollout S A parents T pol s0 us = coopSampleS S A parents T s0 (pol []) us := by
  unfold coopRollout chainSample
  rw [chainGo_eq_iff]
  have hl := coopSampleS_length S A parents T s0 (pol []) us h1 h2
  refine ⟨hl.symm, fun i hi => ?_⟩
  rw [coopSampleS_getD S A parents T s0 (pol []) us h1 h2 i hi]
  have hn : i < parents.length := by omega
  have hlen : (([] : List Nat) ++ (coopSampleS S A parents T s0 (pol []) us).take i).length = i := by
    simp [hl]; omega
  unfold coopRolloutRow
  simp only [hlen, Nat.div_eq_of_lt hn, Nat.mod_eq_of_lt hn, if_true, Nat.zero_mul, List.take_zero]

/-! ## K: a copied engine -/

/-- **K1** with a COPIED engine (both samples computed from the same draw) the outcome (0, 1) of two scans of
    the row (1/2, 1/2) is never produced, although the tables give it probability 1/4: handing the engine by
    value breaks the property even though each single sample follows its row -/
theorem copied_engine_not_product :
    (∀ u : Rat, chainCopied (fun _ => [1/2, 1/2]) 2 u ≠ [0, 1]) ∧
      chainProb (fun _ => [1/2, 1/2]) [] [0, 1] = 1/4 := by
  constructor
  · intro u h
    have h' := (chainGo_eq_iff (fun _ => [1/2, 1/2]) [u, u] [] [0, 1]).mp h
    have h0 := h'.2 0 (by simp)
    have h1 := h'.2 1 (by simp)
    simp only [List.getD_cons_zero, List.getD_cons_succ] at h0 h1
    rw [h0] at h1
    exact absurd h1 (by decide)
  · norm_num [chainProb]

/-! ## G: gamma-based samplers with the underflow fallback (fixes/C08-8) -/

/-- **G8** with the fallback the result is a valid probability vector for EVERY outcome of the gamma draws
    (non-negative, possibly all zero): no hypothesis on their sum is left -/
theorem dirichletWithFallback_valid (gs hs : List Rat) (hnn : ∀ g ∈ gs, 0 ≤ g)
    (h01 : ∀ h ∈ hs, 0 ≤ h ∧ h ≤ 1) (h1 : (1 : Rat) ∈ hs) (hlen : hs.length = gs.length) :
    (dirichletWithFallback gs hs).length = gs.length ∧ (∀ y ∈ dirichletWithFallback gs hs, 0 ≤ y) ∧
      (dirichletWithFallback gs hs).sum = 1 := by
  unfold dirichletWithFallback
  by_cases h0 : gs.sum = 0
  · simp only [h0, beq_self_eq_true, if_true]
    obtain ⟨a, b, _, _⟩ := dirichlet_valid_of_max_one hs h01 h1
    exact ⟨by rw [mo_dirichlet_length, hlen], a, b⟩
  · have hb : (gs.sum == 0) = false := by simpa using h0
    simp only [hb, Bool.false_eq_true, if_false]
    have hs : 0 < gs.sum := lt_of_le_of_ne (List.sum_nonneg hnn) (Ne.symm h0)
    obtain ⟨a, b⟩ := dirichlet_valid_nonneg gs hnn hs
    exact ⟨mo_dirichlet_length gs, a, b⟩

theorem dirichletWithFallback_isProb (gs hs : List Rat) (hnn : ∀ g ∈ gs, 0 ≤ g)
    (h01 : ∀ h ∈ hs, 0 ≤ h ∧ h ≤ 1) (h1 : (1 : Rat) ∈ hs) (hlen : hs.length = gs.length) :
    isProb (dirichletWithFallback gs hs) = true := by
  obtain ⟨_, a, b⟩ := dirichletWithFallback_valid gs hs hnn h01 h1 hlen
  rw [dense_isProb_iff]
  refine ⟨a, ?_⟩
  rw [b]; norm_num [absQ, Gen.equalToleranceSmall]

/-- the stream of ordinary parameters is untouched: with a positive sum the fallback numbers are not used -/
theorem dirichletWithFallback_eq_plain (gs hs : List Rat) (h : gs.sum ≠ 0) :
    dirichletWithFallback gs hs = dirichletFromGammas gs := by
  unfold dirichletWithFallback
  have hb : (gs.sum == 0) = false := by simpa using h
  simp [hb]

/-- **G9** Beta with the fallback: always inside [0, 1] -/
theorem betaWithFallback_in_unit (x y hx hy : Rat) (h0x : 0 ≤ x) (h0y : 0 ≤ y)
    (hhx : 0 ≤ hx) (hhy : 0 ≤ hy) (hmax : hx = 1 ∨ hy = 1) :
    0 ≤ betaWithFallback x y hx hy ∧ betaWithFallback x y hx hy ≤ 1 := by
  unfold betaWithFallback betaFromGammas
  by_cases h0 : x + y = 0
  · simp only [h0, beq_self_eq_true, if_true]
    have hp : 0 < hx + hy := by rcases hmax with h | h <;> rw [h] <;> linarith
    exact ⟨div_nonneg hhx (le_of_lt hp), by rw [div_le_one hp]; linarith⟩
  · have hb : (x + y == 0) = false := by simpa using h0
    simp only [hb, Bool.false_eq_true, if_false]
    have hp : 0 < x + y := lt_of_le_of_ne (add_nonneg h0x h0y) (Ne.symm h0)
    exact ⟨div_nonneg h0x (le_of_lt hp), by rw [div_le_one hp]; linarith⟩

/-- test: every draw underflowed, fallback numbers (1, 1/4) -/
example : dirichletWithFallback [0, 0] [1, 1/4] = [4/5, 1/5] := by
  norm_num [dirichletWithFallback, dirichletFromGammas]

/-! ## B: bandit models -/

/-- **B1** `toFactors` of ANY id is a valid joint action (every factor below its size) -/
theorem toFactors_valid : ∀ (A : List Nat) (id : Nat), (∀ d ∈ A, 0 < d) → Valid A (toFactors A id)
  | [], _, _ => by simp [toFactors, Valid]
  | d :: ds, id, h => by
    simp only [toFactors, Valid]
    exact ⟨Nat.mod_lt _ (h d (List.mem_cons_self ..)), toFactors_valid ds _ (fun e he => h e (List.mem_cons_of_mem _ he))⟩

/-- **B2** the arm a group reads is inside its local bandit (`arms_[i].getA() = factorSpacePartial(groups_[i], A)`,
    asserted by the constructor) for every valid joint action -/
theorem fb_arm_in_range (A a group : List Nat) (ha : Valid A a) (hg : ∀ k ∈ group, k < A.length) :
    toIndexPartial group A a < spacePartial group A :=
  mo_toIndexPartial_lt A a group ha hg

/-- **B3** …and for every flattened action id handed to `FlattenedModel::sampleR` (no precondition on the id) -/
theorem flat_arm_in_range (A group : List Nat) (id : Nat) (hA : ∀ d ∈ A, 0 < d) (hg : ∀ k ∈ group, k < A.length) :
    toIndexPartial group A (toFactors A id) < spacePartial group A :=
  fb_arm_in_range A _ group (toFactors_valid A id hA) hg

theorem armSample_in_range (arm : Rat × Rat) (u : Rat) (h : arm.1 ≤ arm.2) (hu : 0 ≤ u) (hu1 : u < 1) :
    arm.1 ≤ armSample arm u ∧ armSample arm u ≤ arm.2 := by
  unfold armSample
  have hd : 0 ≤ arm.2 - arm.1 := by linarith
  constructor
  · nlinarith [mul_nonneg hu hd]
  · nlinarith [mul_le_mul_of_nonneg_right (le_of_lt hu1) hd]

theorem fbSampleR_length (A : List Nat) (groups : List (List Nat)) (arms : List (List (Rat × Rat))) (a : List Nat)
    (us : List Rat) (h1 : groups.length = arms.length) (h2 : arms.length = us.length) :
    (fbSampleR A groups arms a us).length = us.length := by
  simp [fbSampleR, h1, h2]

/-- **B4** reward `i` of a factored bandit sample is the draw of group `i`'s own engine through the arm the
    partial action index selects: inside that arm's support -/
theorem fbSampleR_getD (A : List Nat) (groups : List (List Nat)) (arms : List (List (Rat × Rat))) (a : List Nat)
    (us : List Rat) (h1 : groups.length = arms.length) (h2 : arms.length = us.length) (i : Nat) (hi : i < us.length) :
    (fbSampleR A groups arms a us).getD i 0 =
      banditSampleR (arms.getD i []) (toIndexPartial (groups.getD i []) A a) (us.getD i 0) := by
  have hg : i < groups.length := by omega
  have ha : i < arms.length := by omega
  simp [fbSampleR, List.getD_eq_getElem?_getD, List.getElem?_zipWith, hi, hg, ha]

/-- test (B3/B4): two agents with 2 and 3 actions, one group on agent 1: flattened id 5 = (1, 2) reads arm 2 -/
example : toIndexPartial [1] [2, 3] (toFactors [2, 3] 5) = 2 ∧ flatSampleR [2, 3] [[1]] [[(0, 1), (1, 2), (2, 4)]] 5 [1/2] = 3 := by
  constructor
  · decide
  · norm_num [flatSampleR, fbSampleR, banditSampleR, armSample, toFactors, toIndexPartial, toIndexLoop, sel]

end AITB.Sampling
