/-
  AITB.Props.C15Bp — the back-projection used by `LinearProgramming::operator()` IS the expectation, so the Bellman-form
  theorems hold without a per-case hypothesis.  The executable model of `backProject` is C14's (`AITB.Factored.backProject`,
  the enumerator loops of BayesianNetwork.cpp), read row-major (`bpModel`); `backProject_is_expectation` (Props/C14d) gives
  `g_k(s,a) = Σ_{s'} P(s'|s,a) h_k(s')` for every well-formed DDN whose looked-up rows are distributions.
-/
import AITB.Props.C15Flat
import AITB.Props.C14e

namespace AITB.FLP
open AITB.Factored AITB.VE

theorem sumTo_eq_sumN : ∀ (n : Nat) (f : Nat → Rat), sumTo n f = sumN n f
  | 0, _ => rfl
  | n+1, f => by simp only [sumTo, sumN, sumTo_eq_sumN n f]

theorem flatten_getD_uniform : ∀ (rows : List (List Rat)) (n i j : Nat), (∀ r ∈ rows, r.length = n) → j < n →
    rows.flatten.getD (i * n + j) 0 = (rows.getD i []).getD j 0
  | [], _, _, _, _, _ => by simp
  | r :: rs, n, 0, j, h, hj => by
    have hr : r.length = n := h r (List.mem_cons_self ..)
    simp only [List.flatten_cons, Nat.zero_mul, Nat.zero_add, List.getD_cons_zero]
    simp [List.getD_eq_getElem?_getD, List.getElem?_append_left (by omega : j < r.length)]
  | r :: rs, n, i+1, j, h, hj => by
    have hr : r.length = n := h r (List.mem_cons_self ..)
    have ih := flatten_getD_uniform rs n i j (fun r' hr' => h r' (List.mem_cons_of_mem _ hr')) hj
    simp only [List.flatten_cons, List.getD_cons_succ]
    rw [← ih]
    have e : (i + 1) * n + j = r.length + (i * n + j) := by rw [hr]; ring
    simp [List.getD_eq_getElem?_getD, e, List.getElem?_append_right]

theorem flatten_length_uniform : ∀ (rows : List (List Rat)) (n : Nat), (∀ r ∈ rows, r.length = n) → rows.flatten.length = rows.length * n
  | [], _, _ => by simp
  | r :: rs, n, h => by
    simp only [List.flatten_cons, List.length_append, List.length_cons,
               flatten_length_uniform rs n (fun r' hr' => h r' (List.mem_cons_of_mem _ hr')), h r (List.mem_cons_self ..)]
    ring

/-- what the theorems need of the DDN for one basis tag and one (s,a): C14's `BasisParentsOK` and distributions -/
structure DdnOK (S A : List Nat) (ddn : List DNode) (tag : List Nat) : Prop where
  parents : BasisParentsOK (toGraph S A ddn) tag
  rows : ∀ s a, Valid S s → Valid A a → ∀ i, i < S.length →
    sumN (S.getD i 0) (localP (toGraph S A ddn) (toT ddn) s a i) = 1

theorem basisWF_toBF (S : List Nat) (hk : Basis) (h : BasisWF S hk) : (⟨hk.tag, hk.vals⟩ : BF).WF S := ⟨⟨h.1, h.2.1⟩, h.2.2⟩

theorem bpModel_at (S A : List Nat) (ddn : List DNode) (hk : Basis) (s a : List Nat) (_hs : Valid S s) (ha : Valid A a)
    (hw : BasisWF S hk) (hok : BasisParentsOK (toGraph S A ddn) hk.tag) :
    (bpModel S A ddn hk).at S A s a = (AITB.Factored.backProject (toGraph S A ddn) (toT ddn) ⟨hk.tag, hk.vals⟩).get S A s a := by
  obtain ⟨htag, hatag⟩ := bpTags_ok (toGraph S A ddn) hk.tag hw.1 hok
  simp only [bpModel, BasisM.at, BM.get, AITB.Factored.backProject]
  have hrows : ∀ r ∈ (enumTag (toGraph S A ddn).S (bpTags (toGraph S A ddn) hk.tag ([], [])).1).map (fun sv =>
      (enumTag (toGraph S A ddn).A (bpTags (toGraph S A ddn) hk.tag ([], [])).2).map (fun av =>
        ((enumTag (toGraph S A ddn).S hk.tag).zip hk.vals).foldl (fun acc rv => acc + rv.2 *
          ddnProbP (toGraph S A ddn) (toT ddn) (bpTags (toGraph S A ddn) hk.tag ([], [])).1 sv
            (bpTags (toGraph S A ddn) hk.tag ([], [])).2 av hk.tag rv.1 1) 0)),
      r.length = spacePartial (bpTags (toGraph S A ddn) hk.tag ([], [])).2 A := by
    intro r hr
    obtain ⟨sv, _, rfl⟩ := List.mem_map.mp hr
    rw [List.length_map]
    exact enumTag_length A a _ ha hatag
  exact flatten_getD_uniform _ _ _ _ hrows (toIndexPartial_lt A a _ ha hatag.2)

/-- **the back-projection the solver uses is the expectation**: `g_k(s,a) = Σ_{s'} P(s'|s,a) h_k(s')` at every joint state
    and action, for the executable model of `backProject` that the harness shows equal to the library's output -/
theorem bpModel_is_expectation (S A : List Nat) (ddn : List DNode) (hk : Basis) (s a : List Nat) (hs : Valid S s) (ha : Valid A a)
    (hw : BasisWF S hk) (hsorted : hk.tag.Pairwise (· < ·)) (hd : DdnOK S A ddn hk.tag) :
    (bpModel S A ddn hk).at S A s a = expect S A ddn (hk.at S) s a := by
  rw [bpModel_at S A ddn hk s a hs ha hw hd.parents]
  have := backProject_is_expectation (toGraph S A ddn) (toT ddn) ⟨hk.tag, hk.vals⟩ s a hs ha (basisWF_toBF S hk hw) hsorted
    hd.parents (hd.rows s a hs ha)
  rw [expect, sumTo_eq_sumN]
  exact this

/-- the back-projected matrix is well formed -/
theorem bpModel_WF (S A : List Nat) (hS : ∀ d ∈ S, 0 < d) (hA : ∀ d ∈ A, 0 < d) (ddn : List DNode) (hk : Basis)
    (hw : BasisWF S hk) (hok : BasisParentsOK (toGraph S A ddn) hk.tag) : BasisMWF S A (bpModel S A ddn hk) := by
  obtain ⟨htag, hatag⟩ := bpTags_ok (toGraph S A ddn) hk.tag hw.1 hok
  refine ⟨htag.1, htag.2, hatag.2, ?_⟩
  simp only [bpModel, AITB.Factored.backProject]
  rw [flatten_length_uniform _ (spacePartial (bpTags (toGraph S A ddn) hk.tag ([], [])).2 A)]
  · rw [List.length_map]
    have e : (enumTag (toGraph S A ddn).S (bpTags (toGraph S A ddn) hk.tag ([], [])).1).length
        = spacePartial (bpTags (toGraph S A ddn) hk.tag ([], [])).1 S := enumTag_length S (S.map (fun _ => 0)) _ (valid_zeros S hS) htag
    rw [e]
  · intro r hr
    obtain ⟨sv, _, rfl⟩ := List.mem_map.mp hr
    rw [List.length_map]
    exact enumTag_length A (A.map (fun _ => 0)) _ (valid_zeros A hA) hatag

/-- hypotheses of the outright Bellman-form theorem -/
structure MdpWFB (S A : List Nat) (ddn : List DNode) (h : List Basis) (R : List BasisM) : Prop where
  hS : ∀ d ∈ S, 0 < d
  hA : ∀ d ∈ A, 0 < d
  hh : ∀ f ∈ h, BasisWF S f ∧ NoTiny f.vals ∧ f.tag.Pairwise (· < ·) ∧ DdnOK S A ddn f.tag
  hg : ∀ f ∈ h, NoTiny (bpModel S A ddn f).vals
  hR : ∀ f ∈ R, BasisMWF S A f ∧ NoTiny f.vals

theorem MdpWFB.toWF {S A : List Nat} {ddn : List DNode} {h : List Basis} {R : List BasisM} (wf : MdpWFB S A ddn h R) :
    MdpWF S A h (h.map (bpModel S A ddn)) R := by
  refine ⟨wf.hS, wf.hA, fun f hf => ⟨(wf.hh f hf).1, (wf.hh f hf).2.1⟩, ?_, wf.hR, by simp⟩
  intro gk hgk
  obtain ⟨f, hf, rfl⟩ := List.mem_map.mp hgk
  exact ⟨bpModel_WF S A wf.hS wf.hA ddn f (wf.hh f hf).1 (wf.hh f hf).2.2.2.parents, wf.hg f hf⟩

theorem bp_hbp {S A : List Nat} {ddn : List DNode} {h : List Basis} {R : List BasisM} (wf : MdpWFB S A ddn h R) :
    ∀ s a, Valid S s → Valid A a → ∀ k, k < h.length →
      ((h.map (bpModel S A ddn)).map (·.at S A s a)).getD k 0 = expect S A ddn (fun s1 => (h.map (·.at S s1)).getD k 0) s a := by
  intro s a hs ha k hk
  rw [List.map_map, getD_map_lt _ h k hk]
  have : (fun s1 => (h.map (·.at S s1)).getD k 0) = fun s1 => h[k].at S s1 := by
    funext s1; rw [getD_map_lt _ h k hk]
  rw [this]
  obtain ⟨h1, _, h3, h4⟩ := wf.hh h[k] (List.getElem_mem hk)
  exact bpModel_is_expectation S A ddn h[k] s a hs ha h1 h3 h4

/-- **`mdpLP_equiv_bellman`, outright**: with `g = backProject(T, h)` as the solver computes it, the LP `solveLP` builds (joined
    final row) has a solution with weights `w` IFF `V_w ≥ R + γ P V_w` at every joint state and action -/
theorem mdpLP_equiv_bellman_bp (S A : List Nat) (ddn : List DNode) (γ : Rat) (h : List Basis) (R : List BasisM)
    (wf : MdpWFB S A ddn h R) (w : List Rat) :
    (∃ u : Nat → Rat, (∀ k, k < h.length → u k = w.getD k 0) ∧
        ∀ r ∈ (mdpGen true S A γ h (h.map (bpModel S A ddn)) R).1, r.sat u) ↔
      ∀ s a, Valid S s → Valid A a → mdpBackup S A ddn R γ h w s a ≤ mdpV S h w s :=
  mdpLP_equiv_bellman S A ddn γ h (h.map (bpModel S A ddn)) R wf.toWF w (bp_hbp wf)

/-- **the code as written and as repaired is sound in Bellman form, outright** -/
theorem mdpLP_sound_bellman_bp (joined : Bool) (S A : List Nat) (ddn : List DNode) (γ : Rat) (h : List Basis) (R : List BasisM)
    (wf : MdpWFB S A ddn h R) (w : List Rat)
    (hsol : ∃ u : Nat → Rat, (∀ k, k < h.length → u k = w.getD k 0) ∧
        ∀ r ∈ (mdpGen joined S A γ h (h.map (bpModel S A ddn)) R).1, r.sat u) :
    ∀ s a, Valid S s → Valid A a → mdpBackup S A ddn R γ h w s a ≤ mdpV S h w s := by
  intro s a hs ha
  rw [← gform_eq_backup S A ddn γ h _ R w s a (by simp) (bp_hbp wf s a hs ha)]
  exact mdpLP_sound joined S A γ h _ R wf.toWF w hsol s a hs ha

/-- **`q_is_backup`, outright**: with the solver's own `g`, `R(s,a) + γ Σ_k w_k g_k(s,a)` — the value of the returned Q-function
    `g *= γ·w; g += R` — is `R + γ P V_w` -/
theorem q_is_backup (S A : List Nat) (ddn : List DNode) (γ : Rat) (h : List Basis) (R : List BasisM)
    (wf : MdpWFB S A ddn h R) (w : List Rat) (s a : List Nat) (hs : Valid S s) (ha : Valid A a) :
    fmAt S A R s a + γ * gwAt S A (h.map (bpModel S A ddn)) w s a = mdpBackup S A ddn R γ h w s a :=
  gform_eq_backup S A ddn γ h _ R w s a (by simp) (bp_hbp wf s a hs ha)

/-- same optimum, outright -/
theorem mdpLP_same_optimum_bp (S A : List Nat) (ddn : List DNode) (γ : Rat) (h : List Basis) (R : List BasisM)
    (wf : MdpWFB S A ddn h R) (c w y : List Rat)
    (hopt : optimalPairB h.length (mdpFlatRows S A ddn R γ h) c w y = true) :
    (∃ u : Nat → Rat, (∀ k, k < h.length → u k = w.getD k 0) ∧
        ∀ r ∈ (mdpGen true S A γ h (h.map (bpModel S A ddn)) R).1, r.sat u) ∧
    (∀ u : Nat → Rat, (∀ r ∈ (mdpGen true S A γ h (h.map (bpModel S A ddn)) R).1, r.sat u) →
      dotN h.length c w ≤ dotN h.length c ((List.range h.length).map u)) :=
  mdpLP_same_optimum S A ddn γ h _ R wf.toWF (bp_hbp wf) c w y hopt

end AITB.FLP
