/-
  C09 part h (round 3) — QGreedyPolicyWrapper on CLUSTERED rows, and the "maximum first" repair.

  `greedy_is_argmax` (part b) needs the separation hypothesis `Sep` (library-equal ⇒ equal).  Rows with large magnitudes
  contain ties that hold only through the relative tolerance (|q| = 1e8, gap 1e-5): they are outside `Sep`.  Here the
  hypothesis is weakened to `Cls`: `checkEqualGeneral` is TRANSITIVE on the values of the row (so, with reflexivity and
  symmetry, an equivalence: exact ties, ties inside either tolerance, everything else separated).  Under `Cls` the three scans
  of the wrapper still agree; the tie set is the class of the maximum.  `Sep → Cls` (`Sep.cls`).
  Without transitivity the three members disagree (`greedy_nonsep_counterexample`, `greedy_chain_counterexample_big`);
  the repaired form (maximum first, `GForm.repaired`) is coherent for EVERY row (`greedy_repaired_coherent`) and coincides with
  the code as written on clustered rows (`greedy_repaired_eq_on_classes`).
-/
import AITB.Props.C09b

namespace AITB.Pol

/-! ### `checkEqualGeneral` as a relation -/

theorem absQ_eq_abs (x : Rat) : absQ x = |x| := by
  unfold absQ
  split
  · rename_i h; rw [abs_of_neg h]
  · rename_i h; rw [abs_of_nonneg (not_lt.mp h)]

theorem minQ_eq_min (a b : Rat) : minQ a b = min a b := by
  unfold minQ
  split
  · rename_i h; rw [min_eq_left h]
  · rename_i h; rw [min_eq_right (le_of_lt (not_le.mp h))]

theorem ceG_iff (a b : Rat) : ceG a b = true ↔ (|a - b| ≤ tolS ∨ |a - b| ≤ min |a| |b| * tolG) := by
  unfold ceG ceS
  rw [Bool.or_eq_true, decide_eq_true_eq, decide_eq_true_eq, absQ_eq_abs, absQ_eq_abs, absQ_eq_abs, minQ_eq_min]

theorem ceG_symm (a b : Rat) : ceG a b = ceG b a := by
  rw [Bool.eq_iff_iff, ceG_iff, ceG_iff, abs_sub_comm a b, min_comm |a| |b|]

theorem tolG_le_one : tolG ≤ 1 := by unfold tolG AITB.Gen.equalToleranceGeneral; norm_num

/-- convexity: a value between two library-equal values is library-equal to both (the relative tolerance can only apply to
    values of the same sign, and then the smaller magnitude of the inner pair is at least that of the outer pair) -/
theorem ceG_between {a c b : Rat} (hac : a ≤ c) (hcb : c ≤ b) (h : ceG a b = true) : ceG a c = true ∧ ceG c b = true := by
  rw [ceG_iff] at h ⊢
  rw [ceG_iff]
  have e1 : |a - b| = b - a := by rw [abs_sub_comm, abs_of_nonneg (by linarith)]
  have e2 : |a - c| = c - a := by rw [abs_sub_comm, abs_of_nonneg (by linarith)]
  have e3 : |c - b| = b - c := by rw [abs_sub_comm, abs_of_nonneg (by linarith)]
  rw [e1] at h; rw [e2, e3]
  rcases h with h | h
  · exact ⟨Or.inl (by linarith), Or.inl (by linarith)⟩
  · have hm0 : 0 ≤ min |a| |b| := le_min (abs_nonneg a) (abs_nonneg b)
    -- the smaller outer magnitude is at most |c|
    have hmc : min |a| |b| ≤ |c| := by
      rcases le_or_gt 0 a with ha | ha
      · calc min |a| |b| ≤ |a| := min_le_left _ _
          _ = a := abs_of_nonneg ha
          _ ≤ c := hac
          _ = |c| := (abs_of_nonneg (by linarith)).symm
      · rcases le_or_gt b 0 with hb | hb
        · calc min |a| |b| ≤ |b| := min_le_right _ _
            _ = -b := abs_of_nonpos hb
            _ ≤ -c := by linarith
            _ = |c| := (abs_of_nonpos (by linarith)).symm
        · -- a < 0 < b : the relative test cannot hold
          exfalso
          have h1 : min |a| |b| * tolG ≤ min |a| |b| := by
            have := mul_le_mul_of_nonneg_left tolG_le_one hm0; simpa using this
          have h2 : min |a| |b| ≤ -a := by
            calc min |a| |b| ≤ |a| := min_le_left _ _
              _ = -a := abs_of_neg ha
          linarith
    have k1 : min |a| |b| ≤ min |a| |c| := le_min (min_le_left _ _) hmc
    have k2 : min |a| |b| ≤ min |c| |b| := le_min hmc (min_le_right _ _)
    have g1 := mul_le_mul_of_nonneg_right k1 (le_of_lt tolG_pos)
    have g2 := mul_le_mul_of_nonneg_right k2 (le_of_lt tolG_pos)
    exact ⟨Or.inr (by linarith), Or.inr (by linarith)⟩

/-- `checkEqualGeneral` is transitive on the values of the row (hypothesis of this part; decidable: `DrvC09.clsB`) -/
def Cls (q : Nat → Rat) (n : Nat) : Prop :=
  ∀ i j k, i < n → j < n → k < n → ceG (q i) (q j) = true → ceG (q j) (q k) = true → ceG (q i) (q k) = true

theorem Sep.cls {q : Nat → Rat} {n : Nat} (h : Sep q n) : Cls q n := by
  intro i j k hi hj hk h1 h2
  rw [h i j hi hj h1, h j k hj hk h2]; exact ceG_refl _

/-- two members of one class have the same class -/
theorem Cls.class_eq {q : Nat → Rat} {n : Nat} (h : Cls q n) {j k : Nat} (hj : j < n) (hk : k < n)
    (hjk : ceG (q j) (q k) = true) {i : Nat} (hi : i < n) : ceG (q i) (q j) = ceG (q i) (q k) := by
  rw [Bool.eq_iff_iff]
  constructor
  · intro h1; exact h i j k hi hj hk h1 hjk
  · intro h1; exact h i k j hi hk hj h1 (by rw [ceG_symm]; exact hjk)

/-! ### plain maximum -/

theorem maxTo_spec (q : Nat → Rat) : ∀ k, (∀ i, i ≤ k → q i ≤ maxTo q k) ∧ (∃ i, i ≤ k ∧ q i = maxTo q k) := by
  intro k
  induction k with
  | zero =>
    refine ⟨?_, ⟨0, le_refl _, rfl⟩⟩
    intro i hi
    obtain rfl : i = 0 := by omega
    exact le_refl _
  | succ k ih =>
    obtain ⟨h1, ⟨j, hj, hjm⟩⟩ := ih
    rw [maxTo]
    by_cases hlt : maxTo q k < q (k + 1)
    · rw [if_pos hlt]
      refine ⟨fun i hi => ?_, ⟨k + 1, le_refl _, rfl⟩⟩
      rcases Nat.lt_or_ge i (k + 1) with h | h
      · exact le_of_lt (lt_of_le_of_lt (h1 i (by omega)) hlt)
      · obtain rfl : i = k + 1 := by omega
        exact le_refl _
    · rw [if_neg hlt]
      refine ⟨fun i hi => ?_, ⟨j, by omega, hjm⟩⟩
      rcases Nat.lt_or_ge i (k + 1) with h | h
      · exact h1 i (by omega)
      · obtain rfl : i = k + 1 := by omega
        exact not_lt.mp hlt

theorem maxTo_shift (q : Nat → Rat) (c : Rat) : ∀ k, maxTo (fun i => q i + c) k = maxTo q k + c := by
  intro k
  induction k with
  | zero => rfl
  | succ k ih =>
    rw [maxTo, maxTo, ih]
    by_cases h : maxTo q k < q (k + 1)
    · rw [if_pos h, if_pos (by linarith)]
    · rw [if_neg h, if_neg (by linarith)]

/-! ### the loops, hypothesis-free facts -/

/-- `getPolicy`'s first loop keeps the same running maximum as `sampleAction`'s, and counts the length of its tie list -/
theorem gMax_eq_gScan (q : Nat → Rat) : ∀ k, (gMax q k).max = (gScan q k).best ∧ (gMax q k).count = (gScan q k).buf.length := by
  intro k
  induction k with
  | zero => exact ⟨rfl, rfl⟩
  | succ k ih =>
    obtain ⟨h1, h2⟩ := ih
    rw [gMax, gScan]
    unfold gmStep gStep
    by_cases hc : ceG (q (k + 1)) (gScan q k).best = true
    · have hc' : ceG (q (k + 1)) (gMax q k).max = true := by rw [h1]; exact hc
      rw [if_pos hc', if_pos hc]; exact ⟨h1, by simp [h2]⟩
    · have hc' : ¬ ceG (q (k + 1)) (gMax q k).max = true := by rw [h1]; exact hc
      rw [if_neg hc', if_neg hc]
      by_cases hlt : (gScan q k).best < q (k + 1)
      · have hlt' : (gMax q k).max < q (k + 1) := by rw [h1]; exact hlt
        rw [if_pos hlt', if_pos hlt]; exact ⟨rfl, rfl⟩
      · have hlt' : ¬ (gMax q k).max < q (k + 1) := by rw [h1]; exact hlt
        rw [if_neg hlt', if_neg hlt]; exact ⟨h1, h2⟩

/-- the loop of `getActionProbability(a)`, for any row: it returns 0 early iff some value is larger than and not library-equal
    to `q a`; otherwise it counts the values library-equal to `q a` -/
theorem gProbAux_gen (q : Nat → Rat) (a : Nat) : ∀ k,
    ((∃ i, i < k ∧ ceG (q i) (q a) = false ∧ q a < q i) → gProbAux q a k = none) ∧
    ((¬ ∃ i, i < k ∧ ceG (q i) (q a) = false ∧ q a < q i) → gProbAux q a k = some (countTo (fun i => ceG (q i) (q a)) k)) := by
  intro k
  induction k with
  | zero => exact ⟨fun ⟨i, hi, _⟩ => by omega, fun _ => rfl⟩
  | succ k ih =>
    obtain ⟨ih1, ih2⟩ := ih
    constructor
    · rintro ⟨i, hi, hc, hlt⟩
      rw [gProbAux]
      by_cases hex : ∃ i, i < k ∧ ceG (q i) (q a) = false ∧ q a < q i
      · rw [ih1 hex]
      · rw [ih2 hex]
        have hik : i = k := by
          by_contra hne; exact hex ⟨i, by omega, hc, hlt⟩
        subst hik
        simp [hc, hlt]
    · intro hno
      have hno' : ¬ ∃ i, i < k ∧ ceG (q i) (q a) = false ∧ q a < q i := by
        rintro ⟨i, hi, h⟩; exact hno ⟨i, by omega, h⟩
      rw [gProbAux, ih2 hno', countTo]
      by_cases hc : ceG (q k) (q a) = true
      · simp [hc]
      · have hc' : ceG (q k) (q a) = false := by simpa using hc
        have hnlt : ¬ q a < q k := fun hlt => hno ⟨k, by omega, hc', hlt⟩
        simp [hc', hnlt]

theorem lemire_lt : ∀ (ws : List Nat) (r k : Nat) (rest : List Nat), 0 < r → (∀ w ∈ ws, w < two32) →
    lemire r ws = some (k, rest) → k < r := by
  intro ws
  induction ws with
  | nil => intro r k rest _ _ h; simp [lemire] at h
  | cons w t ih =>
    intro r k rest hr hw h
    rw [lemire] at h
    split at h
    · exact ih r k rest hr (fun x hx => hw x (List.mem_cons_of_mem _ hx)) h
    · simp only [Option.some.injEq, Prod.mk.injEq] at h
      have hw' : w < two32 := hw w List.mem_cons_self
      rw [← h.1]
      apply Nat.div_lt_of_lt_mul
      rw [Nat.mul_comm two32 r]
      have := Nat.mul_lt_mul_of_pos_right hw' hr
      rw [Nat.mul_comm two32 r] at this; exact this

/-- a uniform pick over a non-empty list returns a member, whatever the engine words -/
theorem pick_mem {buf : List Nat} (hlen : 0 < buf.length) {ws : List Nat} (hws : ∀ w ∈ ws, w < two32) {a : Nat}
    (h : (match lemire buf.length ws with | some (k, _) => some (buf.getD k 0) | none => none) = some a) : a ∈ buf := by
  cases hl : lemire buf.length ws with
  | none => rw [hl] at h; simp at h
  | some r =>
    rw [hl] at h
    obtain ⟨k, rest⟩ := r
    simp only [Option.some.injEq] at h
    have hk := lemire_lt ws _ k rest hlen hws hl
    have e : buf.getD k 0 = buf[k] := by simp [List.getD, hk]
    rw [← h, e]; exact List.getElem_mem hk

/-! ### the running-maximum scan on a clustered row -/

/-- invariant of the `sampleAction` loop under `Cls`: the running best is a value of the row; every value seen so far is below
    it or library-equal to it; the tie list is the list of indices seen so far whose value is library-equal to it -/
theorem gScan_cls_inv {q : Nat → Rat} {n : Nat} (hcls : Cls q n) : ∀ k, k < n →
    (∃ j, j ≤ k ∧ q j = (gScan q k).best) ∧
    (∀ i, i ≤ k → q i ≤ (gScan q k).best ∨ ceG (q i) (gScan q k).best = true) ∧
    (gScan q k).buf = (List.range (k + 1)).filter (fun i => ceG (q i) (gScan q k).best) := by
  intro k
  induction k with
  | zero =>
    intro _
    refine ⟨⟨0, le_refl _, rfl⟩, ?_, ?_⟩
    · intro i hi
      obtain rfl : i = 0 := by omega
      exact Or.inl (le_refl _)
    · simp [gScan, List.range_succ, ceG_refl]
  | succ k ih =>
    intro hk
    obtain ⟨⟨j, hj, hjb⟩, h2, h3⟩ := ih (by omega)
    have hrange : List.range (k + 1 + 1) = List.range (k + 1) ++ [k + 1] := List.range_succ
    rw [gScan]
    by_cases hc : ceG (q (k + 1)) (gScan q k).best = true
    · have hstep : gStep q (gScan q k) (k + 1) = { gScan q k with buf := (gScan q k).buf ++ [k + 1] } := by
        unfold gStep; rw [if_pos hc]
      rw [hstep]
      refine ⟨⟨j, by omega, hjb⟩, fun i hi => ?_, ?_⟩
      · rcases Nat.lt_or_ge i (k + 1) with h | h
        · exact h2 i (by omega)
        · obtain rfl : i = k + 1 := by omega
          exact Or.inr hc
      · show (gScan q k).buf ++ [k + 1] = _
        rw [hrange, List.filter_append, h3]; simp [hc]
    · by_cases hgt : (gScan q k).best < q (k + 1)
      · have hstep : gStep q (gScan q k) (k + 1) = ⟨q (k + 1), [k + 1]⟩ := by
          unfold gStep; rw [if_neg hc, if_pos hgt]
        rw [hstep]
        have hcf : ceG (q (k + 1)) (q j) = false := by rw [hjb]; simpa using hc
        -- no earlier value is library-equal to the new best
        have hnone : ∀ i, i ≤ k → ceG (q i) (q (k + 1)) = false ∧ q i ≤ q (k + 1) := by
          intro i hi
          rcases h2 i hi with hle | hceq
          · refine ⟨?_, by linarith⟩
            by_contra hne
            have ht : ceG (q i) (q (k + 1)) = true := by simpa using hne
            have := (ceG_between hle (le_of_lt hgt) ht).2
            rw [← hjb, ceG_symm] at this; rw [this] at hcf; exact Bool.noConfusion hcf
          · rw [← hjb] at hceq
            have hcf' : ceG (q i) (q (k + 1)) = false := by
              by_contra hne
              have ht : ceG (q i) (q (k + 1)) = true := by simpa using hne
              have := hcls (k + 1) i j hk (by omega) (by omega) (by rw [ceG_symm]; exact ht) hceq
              rw [this] at hcf; exact Bool.noConfusion hcf
            refine ⟨hcf', ?_⟩
            by_contra hgt'
            have hlt' : q (k + 1) < q i := not_le.mp hgt'
            have := (ceG_between (a := q j) (c := q (k + 1)) (b := q i) (by rw [hjb]; exact le_of_lt hgt) (le_of_lt hlt')
              (by rw [ceG_symm]; exact hceq)).1
            rw [ceG_symm] at this; rw [this] at hcf; exact Bool.noConfusion hcf
        refine ⟨⟨k + 1, le_refl _, rfl⟩, fun i hi => ?_, ?_⟩
        · rcases Nat.lt_or_ge i (k + 1) with h | h
          · exact Or.inl (hnone i (by omega)).2
          · obtain rfl : i = k + 1 := by omega
            exact Or.inl (le_refl _)
        · rw [hrange, List.filter_append]
          have hnil : (List.range (k + 1)).filter (fun i => ceG (q i) (q (k + 1))) = [] := by
            rw [List.filter_eq_nil_iff]
            intro i hi
            have hi' : i ≤ k := by have := List.mem_range.mp hi; omega
            simp [(hnone i hi').1]
          rw [hnil]; simp [ceG_refl]
      · have hstep : gStep q (gScan q k) (k + 1) = gScan q k := by
          unfold gStep; rw [if_neg hc, if_neg hgt]
        rw [hstep]
        refine ⟨⟨j, by omega, hjb⟩, fun i hi => ?_, ?_⟩
        · rcases Nat.lt_or_ge i (k + 1) with h | h
          · exact h2 i (by omega)
          · obtain rfl : i = k + 1 := by omega
            exact Or.inl (not_lt.mp hgt)
        · rw [hrange, List.filter_append, h3]; simp [hc]

/-- **greedy_classes** — `greedy_is_argmax` for CLUSTERED rows (all sizes, values of any sign and magnitude, exact ties and ties inside
    either tolerance).  With `m` the plain maximum of the row and the tie class `T = {i | checkEqualGeneral (q i) m}`:
    `sampleAction`'s tie list is `T` (in increasing order), `getActionProbability` is `1/|T|` on `T` and 0 elsewhere, `getPolicy` is
    the same table, the probabilities are non-negative and sum to one, and whatever engine words drive the pick the sampled action is
    in `T` and has positive probability. -/
theorem greedy_classes (q : Nat → Rat) (n : Nat) (hn : 0 < n) (hcls : Cls q n) :
    (∀ i, i < n → q i ≤ maxTo q (n - 1)) ∧ (∃ i, i < n ∧ q i = maxTo q (n - 1)) ∧
    (gScan q (n - 1)).buf = (List.range n).filter (fun i => ceG (q i) (maxTo q (n - 1))) ∧
    (∀ a, a < n → gProb q n a =
      if ceG (q a) (maxTo q (n - 1)) then 1 / (countTo (fun i => ceG (q i) (maxTo q (n - 1))) n : Rat) else 0) ∧
    (∀ a, a < n → gPolicy q n a = gProb q n a) ∧
    (∀ a, a < n → 0 ≤ gProb q n a) ∧
    sumTo n (gProb q n) = 1 ∧
    (∀ ws a, (∀ w ∈ ws, w < two32) → gSample q n ws = some a →
      a < n ∧ ceG (q a) (maxTo q (n - 1)) = true ∧ 0 < gProb q n a) := by
  obtain ⟨hmax', ⟨jm, hjm, hjmm⟩⟩ := maxTo_spec q (n - 1)
  obtain ⟨⟨j, hj, hjb⟩, s2, s3⟩ := gScan_cls_inv hcls (n - 1) (by omega)
  have hn1 : n - 1 + 1 = n := by omega
  rw [hn1] at s3
  set m := maxTo q (n - 1) with hm
  have hmax : ∀ i, i < n → q i ≤ m := fun i hi => hmax' i (by omega)
  have hjmn : jm < n := by omega
  have hjn : j < n := by omega
  -- the running best is in the class of the maximum
  have hbm : ceG (q j) (q jm) = true := by
    rcases s2 jm hjm with hle | hceq
    · have : q jm = q j := le_antisymm (by rw [hjb]; exact hle) (by rw [hjmm]; exact hmax j hjn)
      rw [this]; exact ceG_refl _
    · rw [ceG_symm, hjb]; exact hceq
  have hclass : ∀ i, i < n → ceG (q i) (gScan q (n - 1)).best = ceG (q i) m := by
    intro i hi; rw [← hjb, ← hjmm]; exact hcls.class_eq hjn hjmn hbm hi
  have hbuf : (gScan q (n - 1)).buf = (List.range n).filter (fun i => ceG (q i) m) := by
    rw [s3]; apply List.filter_congr; intro i hi; exact hclass i (List.mem_range.mp hi)
  have hcpos : 0 < countTo (fun i => ceG (q i) m) n :=
    countTo_pos (k := jm) hjmn (by show ceG (q jm) m = true; rw [hjmm]; exact ceG_refl _)
  have hcq : (0 : Rat) < (countTo (fun i => ceG (q i) m) n : Rat) := by exact_mod_cast hcpos
  have hprob : ∀ a, a < n → gProb q n a = if ceG (q a) m then 1 / (countTo (fun i => ceG (q i) m) n : Rat) else 0 := by
    intro a ha
    obtain ⟨p1, p2⟩ := gProbAux_gen q a n
    unfold gProb
    by_cases hc : ceG (q a) m = true
    · have hno : ¬ ∃ i, i < n ∧ ceG (q i) (q a) = false ∧ q a < q i := by
        rintro ⟨i, hi, hcf, hlt⟩
        have := (ceG_between (le_of_lt hlt) (hmax i hi) hc).1
        rw [ceG_symm] at this; rw [this] at hcf; exact Bool.noConfusion hcf
      rw [p2 hno, if_pos hc]
      have : countTo (fun i => ceG (q i) (q a)) n = countTo (fun i => ceG (q i) m) n := by
        apply countTo_congr; intro i hi
        show ceG (q i) (q a) = ceG (q i) m
        rw [← hjmm]; exact hcls.class_eq ha hjmn (by rw [hjmm]; exact hc) hi
      rw [this]
    · have hcf : ceG (q a) m = false := by simpa using hc
      have hne : q a ≠ m := fun e => by rw [e, ceG_refl] at hcf; exact Bool.noConfusion hcf
      have hlt : q a < q jm := by rw [hjmm]; exact lt_of_le_of_ne (hmax a ha) hne
      rw [p1 ⟨jm, hjmn, by rw [ceG_symm, hjmm]; exact hcf, hlt⟩, if_neg hc]
  have hpol : ∀ a, a < n → gPolicy q n a = gProb q n a := by
    intro a ha
    rw [hprob a ha]; unfold gPolicy; simp only
    rw [(gMax_eq_gScan q (n - 1)).1, (gMax_eq_gScan q (n - 1)).2, hclass a ha, hbuf, ← countTo_eq_filter_length]
  have hnn : ∀ a, a < n → 0 ≤ gProb q n a := by
    intro a ha; rw [hprob a ha]; split
    · positivity
    · exact le_refl _
  have hsum : sumTo n (gProb q n) = 1 := by
    rw [sumTo_congr hprob, sumTo_indicator]; field_simp
  refine ⟨hmax, ⟨jm, hjmn, hjmm⟩, hbuf, hprob, hpol, hnn, hsum, ?_⟩
  intro ws a hws hs
  have hlen : 0 < (gScan q (n - 1)).buf.length := by rw [hbuf, ← countTo_eq_filter_length]; exact hcpos
  have hmem : a ∈ (gScan q (n - 1)).buf := pick_mem hlen hws hs
  rw [hbuf, List.mem_filter, List.mem_range] at hmem
  refine ⟨hmem.1, hmem.2, ?_⟩
  rw [hprob a hmem.1, if_pos hmem.2]; positivity

/-- the hypothesis is satisfiable by a row of magnitude 1.3e8 whose two best values are 1.5e-5 apart (a tie only through the
    relative tolerance — outside `Sep`), next to a mirrored negative value and a small one -/
example : Cls (fun i => if i = 0 then 134217728 else if i = 1 then 134217728 + 1 / 65536 else if i = 2 then -134217728 else 5) 4 := by
  intro i j k hi hj hk
  have : i = 0 ∨ i = 1 ∨ i = 2 ∨ i = 3 := by omega
  have : j = 0 ∨ j = 1 ∨ j = 2 ∨ j = 3 := by omega
  have : k = 0 ∨ k = 1 ∨ k = 2 ∨ k = 3 := by omega
  rcases ‹i = 0 ∨ _› with rfl | rfl | rfl | rfl <;> rcases ‹j = 0 ∨ _› with rfl | rfl | rfl | rfl <;>
    rcases ‹k = 0 ∨ _› with rfl | rfl | rfl | rfl <;>
    norm_num [ceG, ceS, absQ, minQ, tolS, tolG, AITB.Gen.equalToleranceSmall, AITB.Gen.equalToleranceGeneral]

example : ¬ Sep (fun i => if i = 0 then 134217728 else if i = 1 then 134217728 + 1 / 65536 else if i = 2 then -134217728 else 5) 4 := by
  intro h
  have := h 0 1 (by omega) (by omega)
    (by norm_num [ceG, ceS, absQ, minQ, tolS, tolG, AITB.Gen.equalToleranceSmall, AITB.Gen.equalToleranceGeneral])
  norm_num at this

/-- **greedy_classes_shift** — shift invariance on clustered rows: if the row and the shifted row are clustered and the shift
    preserves the tie relation ("shifts that … preserve that separation"), all three members answer the same. -/
theorem greedy_classes_shift (q : Nat → Rat) (n : Nat) (hn : 0 < n) (c : Rat)
    (hcls : Cls q n) (hcls' : Cls (fun i => q i + c) n)
    (hrel : ∀ i j, i < n → j < n → ceG (q i + c) (q j + c) = ceG (q i) (q j)) :
    (gScan (fun i => q i + c) (n - 1)).buf = (gScan q (n - 1)).buf ∧
    (∀ a, a < n → gProb (fun i => q i + c) n a = gProb q n a) ∧
    (∀ a, a < n → gPolicy (fun i => q i + c) n a = gPolicy q n a) ∧
    (∀ ws, gSample (fun i => q i + c) n ws = gSample q n ws) := by
  obtain ⟨_, ⟨jm, hjm, hjmm⟩, hbuf, hprob, hpol, _, _, _⟩ := greedy_classes q n hn hcls
  obtain ⟨_, _, hbuf', hprob', hpol', _, _, _⟩ := greedy_classes _ n hn hcls'
  have htop : ∀ i, i < n → ceG (q i + c) (maxTo (fun i => q i + c) (n - 1)) = ceG (q i) (maxTo q (n - 1)) := by
    intro i hi; rw [maxTo_shift, ← hjmm]; exact hrel i jm hi hjm
  have hbufeq : (gScan (fun i => q i + c) (n - 1)).buf = (gScan q (n - 1)).buf := by
    rw [hbuf, hbuf']; apply List.filter_congr; intro i hi; exact htop i (List.mem_range.mp hi)
  have hcnt : countTo (fun i => ceG (q i + c) (maxTo (fun i => q i + c) (n - 1))) n =
      countTo (fun i => ceG (q i) (maxTo q (n - 1))) n := countTo_congr htop
  have hp : ∀ a, a < n → gProb (fun i => q i + c) n a = gProb q n a := by
    intro a ha; rw [hprob a ha, hprob' a ha, hcnt, htop a ha]
  refine ⟨hbufeq, hp, fun a ha => by rw [hpol a ha, hpol' a ha, hp a ha], fun ws => ?_⟩
  unfold gSample; simp only [hbufeq]

/-- transitivity is necessary also at large magnitudes: |q| = 2^27, three values 2^-10 apart (7.3e-12 relative: adjacent pairs are
    library-equal, the outer pair is not) — `getPolicy` sums to 2, the per-action queries to 5/6, `sampleAction` can only return
    the last action.  Inside the property's value range; recorded finding C09-greedy-nontransitive-ties. -/
theorem greedy_chain_counterexample_big :
    let q : Nat → Rat := fun i => 134217728 + (i : Rat) / 1024
    ¬ Cls q 3 ∧ sumTo 3 (gPolicy q 3) = 2 ∧ sumTo 3 (gProb q 3) = 5 / 6 ∧ (gScan q 2).buf = [2] := by
  refine ⟨?_, ?_, ?_, ?_⟩
  · intro h
    have := h 0 1 2 (by omega) (by omega) (by omega)
      (by norm_num [ceG, ceS, absQ, minQ, tolS, tolG, AITB.Gen.equalToleranceSmall, AITB.Gen.equalToleranceGeneral])
      (by norm_num [ceG, ceS, absQ, minQ, tolS, tolG, AITB.Gen.equalToleranceSmall, AITB.Gen.equalToleranceGeneral])
    revert this
    norm_num [ceG, ceS, absQ, minQ, tolS, tolG, AITB.Gen.equalToleranceSmall, AITB.Gen.equalToleranceGeneral]
  all_goals
    norm_num [sumTo, gPolicy, gProb, gProbAux, gMax, gmStep, gScan, gStep, ceG, ceS, absQ, minQ, tolS, tolG,
      AITB.Gen.equalToleranceSmall, AITB.Gen.equalToleranceGeneral]

/-! ### the parametrised model the driver runs, and the repaired form -/

theorem gScanC_ceG (q : Nat → Rat) : ∀ k, gScanC ceG q k = gScan q k := by
  intro k; induction k with
  | zero => rfl
  | succ k ih => rw [gScanC, gScan, ih]; rfl

theorem gMaxC_ceG (q : Nat → Rat) : ∀ k, gMaxC ceG q k = gMax q k := by
  intro k; induction k with
  | zero => rfl
  | succ k ih => rw [gMaxC, gMax, ih]; rfl

theorem gProbAuxC_ceG (q : Nat → Rat) (a : Nat) : ∀ k, gProbAuxC ceG q a k = gProbAux q a k := by
  intro k; induction k with
  | zero => rfl
  | succ k ih => rw [gProbAuxC, gProbAux, ih]

/-- **greedy_as_written_eq** — the parametrised model instantiated with the form the translator extracts from the unmodified source
    (running maximum, `checkEqualGeneral` at all four sites) is the model the theorems of parts b and h are about -/
theorem greedy_as_written_eq (q : Nat → Rat) (n : Nat) :
    GForm.asWritten.buf q n = (gScan q (n - 1)).buf ∧
    (∀ a, GForm.asWritten.prob q n a = gProb q n a) ∧
    (∀ a, GForm.asWritten.policy q n a = gPolicy q n a) ∧
    (∀ ws, GForm.asWritten.sample q n ws = gSample q n ws) := by
  have hb : GForm.asWritten.buf q n = (gScan q (n - 1)).buf := by
    show (gScanC ceG q (n - 1)).buf = _; rw [gScanC_ceG]
  refine ⟨hb, fun a => ?_, fun a => ?_, fun ws => ?_⟩
  · show (match gProbAuxC ceG q a n with | none => 0 | some c => 1 / (c : Rat)) = gProb q n a
    rw [gProbAuxC_ceG]; rfl
  · show (if ceG (q a) (gMaxC ceG q (n - 1)).max then 1 / ((gMaxC ceG q (n - 1)).count : Rat) else 0) = gPolicy q n a
    rw [gMaxC_ceG]; rfl
  · unfold GForm.sample gSample; simp only [hb]

/-- **greedy_repaired_coherent** — the repaired wrapper (maximum first; proposed fix C09-4) is coherent for EVERY row, with no
    hypothesis on the values: the tie list is `T = {i | checkEqualGeneral (q i) max}`, the queries are `1/|T|` on `T` and 0 elsewhere,
    the table equals the queries, they are non-negative and sum to one, and every sampled action is in `T` with positive probability. -/
theorem greedy_repaired_coherent (q : Nat → Rat) (n : Nat) (hn : 0 < n) :
    GForm.repaired.buf q n = (List.range n).filter (fun i => ceG (q i) (maxTo q (n - 1))) ∧
    (∀ a, GForm.repaired.prob q n a =
      if ceG (q a) (maxTo q (n - 1)) then 1 / (countTo (fun i => ceG (q i) (maxTo q (n - 1))) n : Rat) else 0) ∧
    (∀ a, GForm.repaired.policy q n a = GForm.repaired.prob q n a) ∧
    (∀ a, a < n → 0 ≤ GForm.repaired.prob q n a) ∧
    sumTo n (GForm.repaired.prob q n) = 1 ∧
    (∀ ws a, (∀ w ∈ ws, w < two32) → GForm.repaired.sample q n ws = some a →
      a < n ∧ ceG (q a) (maxTo q (n - 1)) = true ∧ 0 < GForm.repaired.prob q n a) := by
  obtain ⟨_, ⟨jm, hjm, hjmm⟩⟩ := maxTo_spec q (n - 1)
  have hcpos : 0 < countTo (fun i => ceG (q i) (maxTo q (n - 1))) n :=
    countTo_pos (k := jm) (by omega) (by show ceG (q jm) _ = true; rw [hjmm]; exact ceG_refl _)
  have hcq : (0 : Rat) < (countTo (fun i => ceG (q i) (maxTo q (n - 1))) n : Rat) := by exact_mod_cast hcpos
  have hb : GForm.repaired.buf q n = (List.range n).filter (fun i => ceG (q i) (maxTo q (n - 1))) := rfl
  have hprob : ∀ a, GForm.repaired.prob q n a =
      if ceG (q a) (maxTo q (n - 1)) then 1 / (countTo (fun i => ceG (q i) (maxTo q (n - 1))) n : Rat) else 0 := by
    intro a
    show (if ceG (q a) (maxTo q (n - 1)) then 1 / ((tieList ceG q n).length : Rat) else 0) = _
    unfold tieList; rw [← countTo_eq_filter_length]
  have hpol : ∀ a, GForm.repaired.policy q n a = GForm.repaired.prob q n a := fun a => rfl
  refine ⟨hb, hprob, hpol, fun a _ => ?_, ?_, ?_⟩
  · rw [hprob a]; split
    · positivity
    · exact le_refl _
  · rw [sumTo_congr (fun i _ => hprob i), sumTo_indicator]; field_simp
  · intro ws a hws hs
    have hlen : 0 < (GForm.repaired.buf q n).length := by rw [hb, ← countTo_eq_filter_length]; exact hcpos
    have hmem : a ∈ GForm.repaired.buf q n := pick_mem hlen hws hs
    rw [hb, List.mem_filter, List.mem_range] at hmem
    refine ⟨hmem.1, hmem.2, ?_⟩
    rw [hprob a, if_pos hmem.2]; positivity

/-- **greedy_repaired_eq_on_classes** — on clustered rows (the property's quantifier) the repair changes nothing: same tie list,
    same queries, same table, same samples as the code as written -/
theorem greedy_repaired_eq_on_classes (q : Nat → Rat) (n : Nat) (hn : 0 < n) (hcls : Cls q n) :
    GForm.repaired.buf q n = GForm.asWritten.buf q n ∧
    (∀ a, a < n → GForm.repaired.prob q n a = GForm.asWritten.prob q n a) ∧
    (∀ a, a < n → GForm.repaired.policy q n a = GForm.asWritten.policy q n a) ∧
    (∀ ws, GForm.repaired.sample q n ws = GForm.asWritten.sample q n ws) := by
  obtain ⟨_, _, hbuf, hprob, hpol, _, _, _⟩ := greedy_classes q n hn hcls
  obtain ⟨rb, rprob, rpol, _, _, _⟩ := greedy_repaired_coherent q n hn
  obtain ⟨wb, wprob, wpol, _⟩ := greedy_as_written_eq q n
  have hb : GForm.repaired.buf q n = GForm.asWritten.buf q n := by rw [rb, wb, hbuf]
  refine ⟨hb, fun a ha => by rw [rprob a, wprob a, hprob a ha],
    fun a ha => by rw [rpol a, rprob a, wpol a, hpol a ha, hprob a ha], fun ws => ?_⟩
  unfold GForm.sample; simp only [hb]

/-- the repaired form on the chain that breaks the code as written: table = queries = [0, 1/2, 1/2] -/
example : (let q : Nat → Rat := fun i => 134217728 + (i : Rat) / 1024
           (List.range 3).map (GForm.repaired.policy q 3) = [0, 1/2, 1/2] ∧ (List.range 3).map (GForm.repaired.prob q 3) = [0, 1/2, 1/2]) := by
  norm_num [GForm.repaired, GForm.policy, GForm.prob, tieList, maxTo, List.range, List.range.loop, List.filter, ceG, ceS, absQ, minQ, tolS, tolG,
    AITB.Gen.equalToleranceSmall, AITB.Gen.equalToleranceGeneral]

end AITB.Pol
