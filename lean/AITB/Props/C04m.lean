/-
  AITB.Props.C04m — LinearSupport::operator() as modelled (corner supports, scan of the vertices handed out by the
  vertex enumeration, priority agenda, obsolete-vertex removal) builds point-based value functions, hence
  `Consistent` ones — for EVERY behaviour of `findVerticesNaive` (arbitrary oracles `verts1`, `verts2`) and every
  queue discipline that pops a member of the agenda.
-/
import AITB.Props.C04j

namespace AITB.Plan

/-- invariant of the timestep: every good support and every support waiting in the agenda is a point backup -/
def LSInv (m : Pomdp) (prev : VList) (st : LSState) : Prop :=
  (∀ e ∈ st.good, ∃ b, e = backupAt m prev b) ∧ (∀ x ∈ st.agenda, ∃ b, x.support = backupAt m prev b)

theorem lsCorners_spec (m : Pomdp) (prev : VList) : ∀ (ss : List Nat) (st : LSState), LSInv m prev st →
    LSInv m prev (lsCorners m prev ss st) ∧ (∃ suf, (lsCorners m prev ss st).good = st.good ++ suf) ∧
    (ss ≠ [] → st.all = [] → (lsCorners m prev ss st).good ≠ [])
  | [], st, h => ⟨h, ⟨[], by simp [lsCorners]⟩, fun h0 => absurd rfl h0⟩
  | s :: ss, st, h => by
    simp only [lsCorners]
    split
    · rename_i hc
      obtain ⟨i1, ⟨suf, i2⟩, _⟩ := lsCorners_spec m prev ss st h
      refine ⟨i1, ⟨suf, i2⟩, ?_⟩
      intro _ hall
      rw [hall] at hc
      simp at hc
    · have h' : LSInv m prev { st with all := st.all ++ [backupAt m prev (fun i => if i = s then 1 else 0)],
                                       good := st.good ++ [backupAt m prev (fun i => if i = s then 1 else 0)] } := by
        refine ⟨?_, h.2⟩
        intro e he
        rcases List.mem_append.mp he with he | he
        · exact h.1 e he
        · exact ⟨_, by simpa using he⟩
      obtain ⟨i1, ⟨suf, i2⟩, _⟩ := lsCorners_spec m prev ss _ h'
      refine ⟨i1, ⟨backupAt m prev (fun i => if i = s then 1 else 0) :: suf, by rw [i2]; simp⟩, ?_⟩
      intro _ _
      rw [i2]; simp

theorem lsScan_spec (m : Pomdp) (prev : VList) (tolerance : Rat) : ∀ (vs : List (List Rat)) (st : LSState),
    LSInv m prev st → LSInv m prev (lsScan m prev tolerance vs st) ∧ (lsScan m prev tolerance vs st).good = st.good
  | [], st, h => ⟨h, rfl⟩
  | v :: vs, st, h => by
    simp only [lsScan]
    split
    · exact lsScan_spec m prev tolerance vs st h
    · split
      · refine (fun hh => ⟨(lsScan_spec m prev tolerance vs _ hh).1, (lsScan_spec m prev tolerance vs _ hh).2⟩) ?_
        refine ⟨h.1, ?_⟩
        intro x hx
        have hx' : x ∈ st.agenda ++ [(⟨v, (bestAtPoint m.S (bfunL v) st.good).2, backupAt m prev (bfunL v),
              dot m.S (bfunL v) (val (backupAt m prev (bfunL v))) - (bestAtPoint m.S (bfunL v) st.good).2⟩ : LSVertex)] := hx
        rcases List.mem_append.mp hx' with hx' | hx'
        · exact h.2 x hx'
        · have : x = ⟨v, (bestAtPoint m.S (bfunL v) st.good).2, backupAt m prev (bfunL v),
              dot m.S (bfunL v) (val (backupAt m prev (bfunL v))) - (bestAtPoint m.S (bfunL v) st.good).2⟩ := by simpa using hx'
          exact ⟨bfunL v, by rw [this]⟩
      · exact (fun hh => ⟨(lsScan_spec m prev tolerance vs _ hh).1, (lsScan_spec m prev tolerance vs _ hh).2⟩) ⟨h.1, h.2⟩

/-- a queue discipline: what is popped was in the agenda, what remains was in the agenda -/
def PopOK (pop : List LSVertex → Option (LSVertex × List LSVertex)) : Prop :=
  ∀ l best rest, pop l = some (best, rest) → best ∈ l ∧ ∀ x ∈ rest, x ∈ l

theorem lsPopMax_ok : PopOK lsPopMax := by
  intro l
  induction l with
  | nil => intro best rest h; simp [lsPopMax] at h
  | cons x xs ih =>
    intro best rest h
    simp only [lsPopMax] at h
    split at h
    · simp only [Option.some.injEq, Prod.mk.injEq] at h
      obtain ⟨rfl, rfl⟩ := h
      exact ⟨List.mem_cons_self .., by simp⟩
    · rename_i y ys hy
      obtain ⟨i1, i2⟩ := ih y ys hy
      split at h
      · simp only [Option.some.injEq, Prod.mk.injEq] at h
        obtain ⟨rfl, rfl⟩ := h
        refine ⟨List.mem_cons_of_mem _ i1, ?_⟩
        intro z hz
        rcases List.mem_cons.mp hz with rfl | hz
        · exact List.mem_cons_self ..
        · exact List.mem_cons_of_mem _ (i2 z hz)
      · simp only [Option.some.injEq, Prod.mk.injEq] at h
        obtain ⟨rfl, rfl⟩ := h
        exact ⟨List.mem_cons_self .., fun z hz => List.mem_cons_of_mem _ hz⟩

theorem lsLoop_spec (m : Pomdp) (prev : VList) (tolerance : Rat) (verts2 : VEntry → VList → List (List Rat))
    (pop : List LSVertex → Option (LSVertex × List LSVertex)) (hpop : PopOK pop) :
    ∀ (f : Nat) (vs : List (List Rat)) (st : LSState), LSInv m prev st →
      LSInv m prev (lsLoop m prev tolerance verts2 pop f vs st) ∧
      ∃ suf, (lsLoop m prev tolerance verts2 pop f vs st).good = st.good ++ suf
  | 0, _, st, h => ⟨h, [], by simp [lsLoop]⟩
  | f+1, vs, st, h => by
    obtain ⟨s1, s2⟩ := lsScan_spec m prev tolerance vs st h
    simp only [lsLoop]
    split
    · exact ⟨s1, [], by rw [s2]; simp⟩
    · rename_i best rest hp
      obtain ⟨p1, p2⟩ := hpop _ best rest hp
      have h' : LSInv m prev { lsScan m prev tolerance vs st with
          agenda := rest.filter (fun it => !(decide (it.cur < dot m.S (bfunL it.belief) (val best.support)))),
          good := (lsScan m prev tolerance vs st).good ++ [best.support] } := by
        constructor
        · intro e he
          rcases List.mem_append.mp he with he | he
          · exact s1.1 e he
          · have : e = best.support := by simpa using he
            rw [this]; exact s1.2 best p1
        · intro x hx
          exact s1.2 x (p2 x (List.mem_filter.mp hx).1)
      obtain ⟨i1, suf, i2⟩ := lsLoop_spec m prev tolerance verts2 pop hpop f _ _ h'
      refine ⟨i1, best.support :: suf, ?_⟩
      rw [i2, s2]; simp

theorem lsStep_spec (m : Pomdp) (tolerance : Rat) (verts1 : VList → List (List Rat)) (verts2 : VEntry → VList → List (List Rat))
    (pop : List LSVertex → Option (LSVertex × List LSVertex)) (hpop : PopOK pop) (fuel : Nat) (prev : VList) (hS : 0 < m.S) :
    (∀ e ∈ lsStep m tolerance verts1 verts2 pop fuel prev, ∃ b, e = backupAt m prev b) ∧
    lsStep m tolerance verts1 verts2 pop fuel prev ≠ [] := by
  unfold lsStep
  simp only []
  have h0 : LSInv m prev ⟨[], [], [], []⟩ := ⟨by simp, by simp⟩
  obtain ⟨c1, _, c3⟩ := lsCorners_spec m prev (List.range m.S) ⟨[], [], [], []⟩ h0
  obtain ⟨l1, suf, l2⟩ := lsLoop_spec m prev tolerance verts2 pop hpop fuel
    (verts1 (lsCorners m prev (List.range m.S) ⟨[], [], [], []⟩).good) _ c1
  refine ⟨l1.1, ?_⟩
  rw [l2]
  have hne := c3 (by
    intro h
    have := congrArg List.length h
    simp at this; omega) rfl
  intro h
  exact hne (List.append_eq_nil_iff.mp h).1

theorem lsRun_pointBased {m : Pomdp} (tolerance : Rat) (verts1 : VList → List (List Rat))
    (verts2 : VEntry → VList → List (List Rat)) (pop : List LSVertex → Option (LSVertex × List LSVertex))
    (hpop : PopOK pop) (fuel : Nat) (hS : 0 < m.S) (hA : 0 < m.A) :
    ∀ h, PointBasedVF m (lsRun m tolerance verts1 verts2 pop fuel h)
  | 0 => PointBasedVF.base _ (by simp)
  | h+1 => by
    have ih := lsRun_pointBased tolerance verts1 verts2 pop hpop fuel hS hA h
    simp only [lsRun]
    obtain ⟨s1, s2⟩ := lsStep_spec m tolerance verts1 verts2 pop hpop fuel
      (vlist (lsRun m tolerance verts1 verts2 pop fuel h) ((lsRun m tolerance verts1 verts2 pop fuel h).length - 1)) hS
    apply PointBasedVF.step _ _ ih s2
    intro e he
    obtain ⟨b, hb⟩ := s1 e he
    obtain ⟨a, ha, hea⟩ := crossSumBestAtBeliefAll_mem m.S b
      (fun a => (List.range m.O).map (fun o => project m
        (vlist (lsRun m tolerance verts1 verts2 pop fuel h) ((lsRun m tolerance verts1 verts2 pop fuel h).length - 1)) a o)) m.A hA
    exact ⟨b, a, ha, by rw [hb]; exact hea⟩

/-- **linearSupport_consistent.**  For every vertex enumeration (`verts1`, `verts2` arbitrary: any belief lists the
    agenda is ever fed), every tolerance, every queue discipline popping a member of the agenda (in particular the
    max-error one, `lsPopMax_ok`), every fuel, every POMDP with S, A, O ≥ 1 and every horizon, the modelled
    LinearSupport returns a `Consistent` value function. -/
theorem linearSupport_consistent {m : Pomdp} (tolerance : Rat) (verts1 : VList → List (List Rat))
    (verts2 : VEntry → VList → List (List Rat)) (pop : List LSVertex → Option (LSVertex × List LSVertex))
    (hpop : PopOK pop) (fuel : Nat) (hS : 0 < m.S) (hA : 0 < m.A) (hO : 0 < m.O) (h : Nat) :
    Consistent m (lsRun m tolerance verts1 verts2 pop fuel h) :=
  pointBased_consistent hO (lsRun_pointBased tolerance verts1 verts2 pop hpop fuel hS hA h)

end AITB.Plan
