/-
  AITB.Props.C06Full — C06 at full strength on the library as it is now (all six C06 fixes merged).
  The hypotheses of the `_of` theorems of AITB.Props.C06 (closed terms over the regenerated source facts
  AITB.Gen.Guards) are discharged here by `decide`: they are OBLIGATIONS, re-opened by any change of a guard,
  of a statement order, of a constructor or of the AMDP normalisation in the source.
-/
import AITB.Props.C06

set_option linter.unusedTactic false
set_option linter.unreachableTactic false
set_option linter.unusedVariables false
set_option linter.unusedSimpArgs false

namespace AITB.MS
open AITB AITB.Guard

/-! ## obligations over the regenerated source facts -/

/-- every guarded `setDiscount` of the library lets through exactly (0,1] among ALL doubles, nan and ±inf included -/
theorem discount_guard_table_full : discountSites.all (fun s => s.g.discountOK && s.g.discountComplete) = true := by
  decide +kernel

/-- no `setDiscount` definition assigns without a guard -/
theorem no_unguarded_discount_setter : AITB.Gen.Guards.unguardedDiscountSetters.length = 0 := by decide

theorem disc_nan_safe : discNanSafe = true := by decide +kernel

theorem ctors_check_discount (r : Rep) : ctorChecks r = true := by cases r <;> decide

theorem sparse_setters_recheck : recheckT = true ∧ recheckO = true := by decide

theorem amdp_division_guarded : AITB.Gen.Guards.amdpDenseGuardedDivide = true := by decide

/-- the CooperativeModel constructor has a numeric guard on its discount and it passes the decision procedure -/
def coopGuardOK : Bool :=
  match findSite AITB.Gen.Guards.sites "src/Factored/MDP/CooperativeModel.cpp" "CooperativeModel" with
  | some s => s.g.discountOK
  | none => false
theorem coop_ctor_guard_ok : coopGuardOK = true := by decide +kernel

/-! ## `Guards.*` at full strength -/

/-- **for every `setDiscount` sibling and EVERY double d (nan, ±inf included): `¬ rejects d → 0 < d ∧ d ≤ 1`** -/
theorem discount_guards_sound (s : Site) (hs : s ∈ discountSites) (d : XRat) (hd : s.g.eval d = false) : DiscOK d := by
  have h := discount_guard_table_full
  rw [List.all_eq_true] at h
  have := h s hs
  simp only [Bool.and_eq_true] at this
  exact discountOK_sound s.g this.1 d hd

theorem discGuard_full (r : Rep) : (discGuard r).discountOK = true := by cases r <;> decide +kernel

/-- accepted by `MDP::Model::setDiscount` / `MDP::SparseModel::setDiscount` ⇔ a discount -/
theorem discGuard_iff (r : Rep) (d : XRat) : (discGuard r).eval d = false ↔ DiscOK d :=
  ⟨discountOK_sound _ (discGuard_full r) d, discountComplete_sound _ (discGuard_ok r).2 d⟩

/-! ## tight validity: with the stored rows re-validated, sparse objects keep rows within the plain tolerance -/

/-- row predicate per representation, at full strength: dense = finite, ≥ 0, |Σ−1| ≤ tol;
    sparse = finite, ≥ −tol, |Σ−1| ≤ tol (what isProbability(SparseMatrix2D) guarantees) -/
def rowT : Rep → List XRat → Prop
  | .dense => RowS
  | .sparse => RowDist (-tol) tol

structure ValidT (k : Kind) (s : St) : Prop where
  disc : DiscOK s.disc
  T : RowsOK (rowT k.base) s.T
  Om : RowsOK (rowT k.obs) s.Om

theorem rowT_of_RowS (r : Rep) {row : List XRat} (h : RowS row) : rowT r row := by
  cases r with
  | dense => exact h
  | sparse =>
      obtain ⟨qs, hq, hge, h1, h2⟩ := h
      exact ⟨qs, hq, fun q hq' => by have := hge q hq'; have := tol_pos; linarith, h1, h2⟩

theorem rowT_to_rowP (r : Rep) {row : List XRat} (h : rowT r row) : rowP r row := by
  cases r with
  | dense => exact h
  | sparse =>
      obtain ⟨qs, hq, hge, h1, h2⟩ := h
      have ht := tol_pos
      have hl : (0 : Rat) ≤ (row.length : Rat) := Nat.cast_nonneg _
      refine ⟨qs, hq, hge, ?_, ?_⟩ <;> nlinarith

theorem ValidT.toValid {k : Kind} {s : St} (h : ValidT k s) : Valid k s :=
  ⟨h.disc, fun m hm row hr => rowT_to_rowP _ (h.T m hm row hr), fun m hm row hr => rowT_to_rowP _ (h.Om m hm row hr)⟩

theorem eigen_rowsT (r : Rep) (t : Tab3) (h : checkEigen r t = true) : RowsOK (rowT r) t := by
  intro m hm row hrow
  simp only [checkEigen, List.all_eq_true] at h
  have := h m hm row hrow
  cases r with
  | dense => exact (isProbDense_iff row).1 this
  | sparse => exact isProbSparse_sound row this

/-- what a 3D-container setter commits, given everything it tested (template test on the supplied rows; for sparse
    storage also the stored rows) -/
theorem stored_tableT (r : Rep) (X Y n : Nat) (t : Tab3) (hc : check3D X Y n t = true)
    (hs : r = .sparse → checkEigen .sparse (mk3 Y X n (fun a x z => sparsify (get3 t x a z))) = true) :
    RowsOK (rowT r) (mk3 Y X n (fun a x z => storeP r (get3 t x a z))) := by
  cases r with
  | dense =>
      apply rowsOK_mk3
      intro a ha x hx
      have := (check3D_iff _ _ _ _).1 hc x hx a ha
      have hs' : RowS (rowOf t x a n) := (isProbLoop_iff _).1 this
      simpa [rowOf, storeP, rowT] using hs'
  | sparse => exact eigen_rowsT .sparse _ (hs rfl)

/-- **step_valid, full strength**: a valid object stays valid under EVERY call of EVERY setter of the four model
    classes with ANY argument (nan, ±inf, malformed tables), accepted or rejected. No hypothesis. -/
theorem step_valid (k : Kind) (s : St) (op : Op) (hv : ValidT k s) : ValidT k (step k s op).1 := by
  obtain ⟨hvd, ht3, hte, ho3, hoe⟩ := vf_unpack all_validate_first
  obtain ⟨hrT, hrO⟩ := sparse_setters_recheck
  obtain ⟨kb, ko⟩ := k
  cases op with
  | setDiscount d =>
      simp only [step, prog, hvd, exec_setter_true]
      by_cases hg : (discGuard kb).eval d = true
      · simpa [hg] using hv
      · have hg' : (discGuard kb).eval d = false := by simpa using hg
        simp only [hg', Bool.not_false, if_true]
        exact ⟨(discGuard_iff kb d).1 hg', hv.T, hv.Om⟩
  | setT3D t =>
      simp only [step, prog, ht3, exec_setter_true]
      by_cases hc' : okT3D kb s t = true
      · simp only [hc', if_true]
        refine ⟨hv.disc, ?_, hv.Om⟩
        simp only [okT3D, Bool.and_eq_true] at hc'
        apply stored_tableT kb s.S s.A s.S t hc'.1
        intro hsp; subst hsp
        simpa [hrT] using hc'.2
      · simpa [hc'] using hv
  | setTEigen t =>
      simp only [step, prog, hte, exec_setter_true]
      by_cases hc : checkEigen kb t = true
      · simp only [hc, if_true]; exact ⟨hv.disc, eigen_rowsT _ _ hc, hv.Om⟩
      · simpa [hc] using hv
  | setR3D r => simp only [step, prog, exec]; exact ⟨hv.disc, hv.T, hv.Om⟩
  | setREigen r => simp only [step, prog, exec]; exact ⟨hv.disc, hv.T, hv.Om⟩
  | setO3D o =>
      simp only [step, prog, ho3, exec_setter_true]
      by_cases hc' : okO3D ko s o = true
      · simp only [hc', if_true]
        refine ⟨hv.disc, hv.T, ?_⟩
        simp only [okO3D, Bool.and_eq_true] at hc'
        apply stored_tableT ko s.S s.A s.O o hc'.1
        intro hsp; subst hsp
        simpa [hrO] using hc'.2
      · simpa [hc'] using hv
  | setOEigen o =>
      simp only [step, prog, hoe, exec_setter_true]
      by_cases hc : checkEigen ko o = true
      · simp only [hc, if_true]; exact ⟨hv.disc, hv.T, eigen_rowsT _ _ hc⟩
      · simpa [hc] using hv

/-- **run_valid, full strength**: validity is an invariant of every history of calls, failing ones and
    `setDiscount(nan)` included -/
theorem run_valid (k : Kind) (ops : List Op) (s : St) (hv : ValidT k s) : ValidT k (run k s ops) := by
  induction ops generalizing s with
  | nil => exact hv
  | cons op r ih => exact ih _ (step_valid k s op hv)

/-- a history changes the object exactly at its accepted calls, and every intermediate object is valid -/
theorem run_valid_prefix (k : Kind) (ops : List Op) (s : St) (hv : ValidT k s) (n : Nat) :
    ValidT k (run k s (ops.take n)) := run_valid k _ s hv

example : ValidT ⟨.dense, .dense⟩ (run ⟨.dense, .dense⟩
    { S := 1, A := 1, O := 0, disc := .fin (1/2), T := [[[.fin 1]]], R := [[.fin 0]], Om := [] }
    [.setDiscount .nan, .setT3D [[[.fin 2]]], .setDiscount (.fin 1)]) := by
  apply run_valid
  exact ⟨⟨1/2, rfl, by norm_num, by norm_num⟩,
    by intro m hm row hr; simp at hm; subst hm; simp at hr; subst hr; exact identRow_ok 1 0 (by omega),
    by intro m hm; cases hm⟩

/-! ## constructors, full strength -/

/-- `Model(s,a,discount)` / `SparseModel(s,a,discount)`: every object they return is valid, all sizes and discounts -/
theorem ctorBasic_valid (k : Rep) (S A : Nat) (d : XRat) (s : St) (h : ctorBasic k S A d = some s) :
    ValidT ⟨k, k⟩ s := by
  have hv := ctorBasic_valid_of k (ctors_check_discount k) disc_nan_safe S A d s h
  simp only [ctorBasic, ctors_check_discount k, Bool.true_and] at h
  by_cases hg : (discGuard k).eval d = true
  · simp [hg] at h
  · simp only [hg, Bool.false_eq_true, if_false, Option.some.injEq] at h
    subst h
    refine ⟨hv.disc, ?_, by intro m hm; cases hm⟩
    intro m hm row hrow
    simp only [List.mem_map, List.mem_range] at hm
    obtain ⟨_, _, rfl⟩ := hm
    simp only [List.mem_map, List.mem_range] at hrow
    obtain ⟨x, hx, rfl⟩ := hrow
    exact rowT_of_RowS k (identRow_ok S x hx)

/-- … and they reject exactly the discounts outside (0,1] -/
theorem ctorBasic_rejects_iff (k : Rep) (S A : Nat) (d : XRat) : ctorBasic k S A d = none ↔ ¬ DiscOK d := by
  simp only [ctorBasic, ctors_check_discount k, Bool.true_and]
  rw [← discGuard_iff k d]
  by_cases hg : (discGuard k).eval d = true <;> simp [hg]

/-- AMDP, dense, the code as it is: every reward of the derived model is finite -/
theorem amdp_dense_reward_finite_now (evs : List Ev) (n s a : Nat) :
    isFin (amdpRDense AITB.Gen.Guards.amdpDenseGuardedDivide evs n s a) = true := by
  rw [amdp_division_guarded]; exact amdp_dense_reward_finite evs n s a

end AITB.MS
