/-
  AITB.Props.C06Full — C06 at full strength on the library as it is now (all six C06 fixes merged).
  The hypotheses of the `_of` theorems of AITB.Props.C06 (closed terms over the regenerated source facts
  AITB.Gen.Guards) are discharged here by `decide`: they are OBLIGATIONS, re-opened by any change of a guard,
  of a statement order, of a constructor or of the AMDP normalisation in the source.
-/
import AITB.Props.C06

set_option linter.unusedTactic false
set_option linter.unreachableTactic false
set_option linter.unusedVariables false
set_option linter.unusedSimpArgs false

namespace AITB.MS
open AITB AITB.Guard

/-! ## obligations over the regenerated source facts -/

/-- every guarded `setDiscount` of the library lets through exactly (0,1] among ALL doubles, nan and ±inf included -/
theorem discount_guard_table_full : discountSites.all (fun s => s.g.discountOK && s.g.discountComplete) = true := by
  decide +kernel

/-- no `setDiscount` definition assigns without a guard -/
theorem no_unguarded_discount_setter : AITB.Gen.Guards.unguardedDiscountSetters.length = 0 := by decide

theorem disc_nan_safe : discNanSafe = true := by decide +kernel

theorem ctors_check_discount (r : Rep) : ctorChecks r = true := by cases r <;> decide

theorem sparse_setters_recheck : recheckT = true ∧ recheckO = true := by decide

theorem amdp_division_guarded : AITB.Gen.Guards.amdpDenseGuardedDivide = true := by decide

/-- the CooperativeModel constructor has a numeric guard on its discount and it passes the decision procedure -/
def coopGuardOK : Bool :=
  match findSite AITB.Gen.Guards.sites "src/Factored/MDP/CooperativeModel.cpp" "CooperativeModel" with
  | some s => s.g.discountOK
  | none => false
theorem coop_ctor_guard_ok : coopGuardOK = true := by decide +kernel

/-! ## `Guards.*` at full strength -/

/-- **for every `setDiscount` sibling and EVERY double d (nan, ±inf included): `¬ rejects d → 0 < d ∧ d ≤ 1`** -/
theorem discount_guards_sound (s : Site) (hs : s ∈ discountSites) (d : XRat) (hd : s.g.eval d = false) : DiscOK d := by
  have h := discount_guard_table_full
  rw [List.all_eq_true] at h
  have := h s hs
  simp only [Bool.and_eq_true] at this
  exact discountOK_sound s.g this.1 d hd

theorem discGuard_full (r : Rep) : (discGuard r).discountOK = true := by cases r <;> decide +kernel

/-- accepted by `MDP::Model::setDiscount` / `MDP::SparseModel::setDiscount` ⇔ a discount -/
theorem discGuard_iff (r : Rep) (d : XRat) : (discGuard r).eval d = false ↔ DiscOK d :=
  ⟨discountOK_sound _ (discGuard_full r) d, discountComplete_sound _ (discGuard_ok r).2 d⟩

/-! ## tight validity: with the stored rows re-validated, sparse objects keep rows within the plain tolerance -/

/-- OBLIGATION over the regenerated source fact: `isProbability(const SparseMatrix2D &)` tests the sign of every stored value
    (fixes/C05-2, repo 54353bc).  False of the tree as first read, where entries in [-tol/2, 0) passed
    (`isProbSparseAbs_accepts_negative`). -/
theorem sparse_sign_test : AITB.Gen.C06Sites.sparseSignTest = true := by decide

/-- hence the sparse validator, as the source is now, is EXACT: it accepts precisely the finite, non-negative rows that sum to
    one within the tolerance — the same rows as the dense validator -/
theorem isProbSparse_iff (row : List XRat) : isProbSparse row = true ↔ RowS row := by
  unfold isProbSparse
  rw [sparse_sign_test]
  exact isProbSparseSign_iff row

theorem isProbSparse_eq_dense (row : List XRat) : isProbSparse row = isProbDense row := by
  unfold isProbSparse
  rw [sparse_sign_test]; rfl

/-- row predicate at full strength, the SAME for both representations since the sparse validator tests signs: finite, ≥ 0,
    |Σ−1| ≤ tol.  (Before fixes/C05-2 the sparse case was only `RowDist (-tol) tol`.) -/
def rowT : Rep → List XRat → Prop
  | .dense => RowS
  | .sparse => RowS

structure ValidT (k : Kind) (s : St) : Prop where
  disc : DiscOK s.disc
  T : RowsOK (rowT k.base) s.T
  Om : RowsOK (rowT k.obs) s.Om

theorem rowT_of_RowS (r : Rep) {row : List XRat} (h : RowS row) : rowT r row := by
  cases r <;> exact h

theorem rowT_iff (r : Rep) (row : List XRat) : rowT r row ↔ RowS row := by
  cases r <;> exact Iff.rfl

theorem rowT_to_rowP (r : Rep) {row : List XRat} (h : rowT r row) : rowP r row := by
  cases r with
  | dense => exact h
  | sparse =>
      obtain ⟨qs, hq, hge, h1, h2⟩ := h
      have ht := tol_pos
      have hl : (0 : Rat) ≤ (row.length : Rat) := Nat.cast_nonneg _
      refine ⟨qs, hq, fun q hq' => by have := hge q hq'; linarith, ?_, ?_⟩ <;> nlinarith

theorem ValidT.toValid {k : Kind} {s : St} (h : ValidT k s) : Valid k s :=
  ⟨h.disc, fun m hm row hr => rowT_to_rowP _ (h.T m hm row hr), fun m hm row hr => rowT_to_rowP _ (h.Om m hm row hr)⟩

theorem eigen_rowsT (r : Rep) (t : Tab3) (h : checkEigen r t = true) : RowsOK (rowT r) t := by
  intro m hm row hrow
  simp only [checkEigen, List.all_eq_true] at h
  have := h m hm row hrow
  cases r with
  | dense => exact (isProbDense_iff row).1 this
  | sparse => exact (isProbSparse_iff row).1 this

theorem RowS.entries_nonneg {row : List XRat} (h : RowS row) : ∀ v ∈ row, ∃ q : Rat, v = .fin q ∧ 0 ≤ q := by
  obtain ⟨qs, hq, hge, _, _⟩ := h
  subst hq
  intro v hv
  obtain ⟨q, hq, rfl⟩ := List.mem_map.1 hv
  exact ⟨q, rfl, hge q hq⟩

/-- **a sparse table the Eigen setters / NO-CHECK-free constructors accept has NO negative stored entry** (and no nan/inf):
    exact on the sign since fixes/C05-2; before, entries down to -tol/2 were let through -/
theorem sparse_accepted_no_negative (t : Tab3) (h : checkEigen .sparse t = true) :
    ∀ m ∈ t, ∀ row ∈ m, ∀ v ∈ row, ∃ q : Rat, v = .fin q ∧ 0 ≤ q :=
  fun m hm row hr => (eigen_rowsT .sparse t h m hm row hr).entries_nonneg

/-- … and so has every table of every valid object of every class, dense or sparse, after any history (`run_valid`) -/
theorem valid_no_negative (k : Kind) (s : St) (hv : ValidT k s) :
    (∀ m ∈ s.T, ∀ row ∈ m, ∀ v ∈ row, ∃ q : Rat, v = .fin q ∧ 0 ≤ q) ∧
    (∀ m ∈ s.Om, ∀ row ∈ m, ∀ v ∈ row, ∃ q : Rat, v = .fin q ∧ 0 ≤ q) :=
  ⟨fun m hm row hr => ((rowT_iff _ row).1 (hv.T m hm row hr)).entries_nonneg,
   fun m hm row hr => ((rowT_iff _ row).1 (hv.Om m hm row hr)).entries_nonneg⟩

/-- what a 3D-container setter commits, given everything it tested (template test on the supplied rows; for sparse
    storage also the stored rows) -/
theorem stored_tableT (r : Rep) (X Y n : Nat) (t : Tab3) (hc : check3D X Y n t = true)
    (hs : r = .sparse → checkEigen .sparse (mk3 Y X n (fun a x z => sparsify (get3 t x a z))) = true) :
    RowsOK (rowT r) (mk3 Y X n (fun a x z => storeP r (get3 t x a z))) := by
  cases r with
  | dense =>
      apply rowsOK_mk3
      intro a ha x hx
      have := (check3D_iff _ _ _ _).1 hc x hx a ha
      have hs' : RowS (rowOf t x a n) := (isProbLoop_iff _).1 this
      simpa [rowOf, storeP, rowT] using hs'
  | sparse => exact eigen_rowsT .sparse _ (hs rfl)

/-- **step_valid, full strength**: a valid object stays valid under EVERY call of EVERY setter of the four model
    classes with ANY argument (nan, ±inf, malformed tables), accepted or rejected. No hypothesis. -/
theorem step_valid (k : Kind) (s : St) (op : Op) (hv : ValidT k s) : ValidT k (step k s op).1 := by
  obtain ⟨hvd, ht3, hte, ho3, hoe⟩ := vf_unpack all_validate_first
  obtain ⟨hrT, hrO⟩ := sparse_setters_recheck
  obtain ⟨kb, ko⟩ := k
  cases op with
  | setDiscount d =>
      simp only [step, prog, hvd, exec_setter_true]
      by_cases hg : (discGuard kb).eval d = true
      · simpa [hg] using hv
      · have hg' : (discGuard kb).eval d = false := by simpa using hg
        simp only [hg', Bool.not_false, if_true]
        exact ⟨(discGuard_iff kb d).1 hg', hv.T, hv.Om⟩
  | setT3D t =>
      simp only [step, prog, ht3, exec_setter_true]
      by_cases hc' : okT3D kb s t = true
      · simp only [hc', if_true]
        refine ⟨hv.disc, ?_, hv.Om⟩
        simp only [okT3D, Bool.and_eq_true] at hc'
        apply stored_tableT kb s.S s.A s.S t hc'.1
        intro hsp; subst hsp
        simpa [hrT] using hc'.2
      · simpa [hc'] using hv
  | setTEigen t =>
      simp only [step, prog, hte, exec_setter_true]
      by_cases hc : checkEigen kb t = true
      · simp only [hc, if_true]; exact ⟨hv.disc, eigen_rowsT _ _ hc, hv.Om⟩
      · simpa [hc] using hv
  | setR3D r => simp only [step, prog, exec]; exact ⟨hv.disc, hv.T, hv.Om⟩
  | setREigen r => simp only [step, prog, exec]; exact ⟨hv.disc, hv.T, hv.Om⟩
  | setO3D o =>
      simp only [step, prog, ho3, exec_setter_true]
      by_cases hc' : okO3D ko s o = true
      · simp only [hc', if_true]
        refine ⟨hv.disc, hv.T, ?_⟩
        simp only [okO3D, Bool.and_eq_true] at hc'
        apply stored_tableT ko s.S s.A s.O o hc'.1
        intro hsp; subst hsp
        simpa [hrO] using hc'.2
      · simpa [hc'] using hv
  | setOEigen o =>
      simp only [step, prog, hoe, exec_setter_true]
      by_cases hc : checkEigen ko o = true
      · simp only [hc, if_true]; exact ⟨hv.disc, hv.T, eigen_rowsT _ _ hc⟩
      · simpa [hc] using hv

/-- **run_valid, full strength**: validity is an invariant of every history of calls, failing ones and
    `setDiscount(nan)` included -/
theorem run_valid (k : Kind) (ops : List Op) (s : St) (hv : ValidT k s) : ValidT k (run k s ops) := by
  induction ops generalizing s with
  | nil => exact hv
  | cons op r ih => exact ih _ (step_valid k s op hv)

/-- a history changes the object exactly at its accepted calls, and every intermediate object is valid -/
theorem run_valid_prefix (k : Kind) (ops : List Op) (s : St) (hv : ValidT k s) (n : Nat) :
    ValidT k (run k s (ops.take n)) := run_valid k _ s hv

example : ValidT ⟨.dense, .dense⟩ (run ⟨.dense, .dense⟩
    { S := 1, A := 1, O := 0, disc := .fin (1/2), T := [[[.fin 1]]], R := [[.fin 0]], Om := [] }
    [.setDiscount .nan, .setT3D [[[.fin 2]]], .setDiscount (.fin 1)]) := by
  apply run_valid
  exact ⟨⟨1/2, rfl, by norm_num, by norm_num⟩,
    by intro m hm row hr; simp at hm; subst hm; simp at hr; subst hr; exact identRow_ok 1 0 (by omega),
    by intro m hm; cases hm⟩

/-! ## constructors, full strength -/

/-- `Model(s,a,discount)` / `SparseModel(s,a,discount)`: every object they return is valid, all sizes and discounts -/
theorem ctorBasic_valid (k : Rep) (S A : Nat) (d : XRat) (s : St) (h : ctorBasic k S A d = some s) :
    ValidT ⟨k, k⟩ s := by
  have hv := ctorBasic_valid_of k (ctors_check_discount k) disc_nan_safe S A d s h
  simp only [ctorBasic, ctors_check_discount k, Bool.true_and] at h
  by_cases hg : (discGuard k).eval d = true
  · simp [hg] at h
  · simp only [hg, Bool.false_eq_true, if_false, Option.some.injEq] at h
    subst h
    refine ⟨hv.disc, ?_, by intro m hm; cases hm⟩
    intro m hm row hrow
    simp only [List.mem_map, List.mem_range] at hm
    obtain ⟨_, _, rfl⟩ := hm
    simp only [List.mem_map, List.mem_range] at hrow
    obtain ⟨x, hx, rfl⟩ := hrow
    exact rowT_of_RowS k (identRow_ok S x hx)

/-- … and they reject exactly the discounts outside (0,1] -/
theorem ctorBasic_rejects_iff (k : Rep) (S A : Nat) (d : XRat) : ctorBasic k S A d = none ↔ ¬ DiscOK d := by
  simp only [ctorBasic, ctors_check_discount k, Bool.true_and]
  rw [← discGuard_iff k d]
  by_cases hg : (discGuard k).eval d = true <;> simp [hg]

/-- AMDP, dense, the code as it is: every reward of the derived model is finite -/
theorem amdp_dense_reward_finite_now (evs : List Ev) (n s a : Nat) :
    isFin (amdpRDense AITB.Gen.Guards.amdpDenseGuardedDivide evs n s a) = true := by
  rw [amdp_division_guarded]; exact amdp_dense_reward_finite evs n s a

/-! ## conversions: generic → dense → sparse → dense -/

theorem copyDense_valid (m : Src) (s : St) (h : copyDense m = some s) : ValidT ⟨.dense, .dense⟩ s ∧ s.disc = m.disc := by
  obtain ⟨_, _, hd, hg, _, _, hrows⟩ := copyDense_preserves m s h
  refine ⟨⟨by rw [hd]; exact (discGuard_iff .dense _).1 hg, hrows, ?_⟩, hd⟩
  unfold copyDense at h
  split at h
  · cases h
  · split at h
    · cases h; intro mm hm; cases hm
    · cases h

theorem copySparse_valid (m : Src) (s : St) (h : copySparse m = some s) :
    ValidT ⟨.sparse, .sparse⟩ s ∧ s.disc = m.disc ∧ RowsOK RowS s.T := by
  obtain ⟨_, _, hd, hg, _, _, hrows⟩ := copySparse_preserves m s h
  refine ⟨⟨by rw [hd]; exact (discGuard_iff .sparse _).1 hg, fun mm hm row hr => rowT_of_RowS .sparse (hrows mm hm row hr), ?_⟩, hd, hrows⟩
  unfold copySparse at h
  split at h
  · cases h
  · split at h
    · cases h; intro mm hm; cases hm
    · cases h

/-- **convert_rejects_or_valid**: converting ANY source model (user-defined, probability-query-only included) to
    either library representation either throws (no object) or yields a valid model with the source's discount whose
    stored rows are strict distributions — there is no third outcome. -/
theorem convert_rejects_or_valid (k : Rep) (m : Src) :
    copyBase k m = none ∨ ∃ s, copyBase k m = some s ∧ ValidT ⟨k, k⟩ s ∧ s.disc = m.disc ∧ RowsOK RowS s.T := by
  cases hc : copyBase k m with
  | none => left; rfl
  | some s =>
      right
      refine ⟨s, rfl, ?_⟩
      cases k with
      | dense =>
          have := copyDense_valid m s hc
          exact ⟨this.1, this.2, this.1.T⟩
      | sparse =>
          have := copySparse_valid m s hc
          exact ⟨this.1, this.2.1, this.2.2⟩

/-- number of entries of a row the sparse storage drops -/
def nDropped (qs : List Rat) : Nat := (qs.filter (fun q => !decide (spQ q = q))).length

/-- **explicit sparsification slack**: the mass lost by storing a non-negative row sparsely is at most 1e-6 per
    dropped entry -/
theorem dropped_mass_le (qs : List Rat) (h : ∀ q ∈ qs, 0 ≤ q) :
    0 ≤ sumQ qs - sumQ (qs.map spQ) ∧ sumQ qs - sumQ (qs.map spQ) ≤ tol * nDropped qs := by
  induction qs with
  | nil => simp [sumQ, nDropped]
  | cons q r ih =>
      have hq := spQ_bounds (h q (by simp))
      have hr := ih (fun x hx => h x (by simp [hx]))
      simp only [nDropped] at hr
      by_cases he : spQ q = q
      · simp only [List.map, sumQ, nDropped, List.filter_cons, he, decide_true, Bool.not_true, Bool.false_eq_true, if_false]
        constructor <;> linarith [hr.1, hr.2]
      · simp only [List.map, sumQ, nDropped, List.filter_cons, he, decide_false, Bool.not_false, if_true,
          List.length_cons, Nat.cast_succ]
        constructor <;> nlinarith [hr.1, hr.2, hq.1, hq.2.1, hq.2.2]

theorem nDropped_le (qs : List Rat) : nDropped qs ≤ qs.length := List.length_filter_le _ _

/-- an entry above the tolerance is kept -/
theorem spQ_keep {q : Rat} (h : tol < q) : spQ q = q := by
  unfold spQ
  have ht := tol_pos
  split_ifs with h1 h2 h2 <;> linarith

theorem nDropped_lt_of_kept (qs : List Rat) (q : Rat) (hq : q ∈ qs) (hk : spQ q = q) : nDropped qs < qs.length := by
  induction qs with
  | nil => cases hq
  | cons x r ih =>
      have hle := nDropped_le r
      simp only [nDropped] at hle ih ⊢
      rcases List.mem_cons.1 hq with rfl | hm
      · simp only [List.filter_cons, hk, decide_true, Bool.not_true, Bool.false_eq_true, if_false, List.length_cons]
        omega
      · have := ih hm
        by_cases he : spQ x = x
        · simp only [List.filter_cons, he, decide_true, Bool.not_true, Bool.false_eq_true, if_false, List.length_cons]; omega
        · simp only [List.filter_cons, he, decide_false, Bool.not_false, if_true, List.length_cons]; omega

theorem sumQ_le_of_all_le (qs : List Rat) (c : Rat) (h : ∀ q ∈ qs, q ≤ c) : sumQ qs ≤ c * qs.length := by
  induction qs with
  | nil => simp [sumQ]
  | cons q r ih =>
      have := ih (fun x hx => h x (by simp [hx]))
      have := h q (by simp)
      simp only [sumQ, List.length_cons, Nat.cast_succ]; nlinarith

/-- **the (n−1)·1e-6 slack**: a strictly valid row of n entries (n·1e-6 < 1 − 1e-6, i.e. fewer than 999 999 states)
    stored sparsely keeps non-negative entries and a sum within 1e-6 + (n−1)·1e-6 of one: at least one entry survives -/
theorem sparsified_row_slack (qs : List Rat) (h : RowS (qs.map .fin)) (hn : tol * qs.length < 1 - tol) :
    -(tol + tol * (qs.length - 1)) ≤ sumQ (qs.map spQ) - 1 ∧ sumQ (qs.map spQ) - 1 ≤ tol := by
  obtain ⟨qs', hmap, hge, h1, h2⟩ := h
  have hinj : qs' = qs := by
    have := congrArg (List.map (fun x : XRat => match x with | .fin q => q | _ => 0)) hmap
    simpa [List.map_map, Function.comp_def] using this.symm
  subst hinj
  have hd := dropped_mass_le qs' hge
  -- some entry exceeds the tolerance, hence is kept
  have hex : ∃ q ∈ qs', tol < q := by
    by_contra hno
    simp only [not_exists, not_and, not_lt] at hno
    have := sumQ_le_of_all_le qs' tol hno
    linarith
  obtain ⟨q, hq, hqt⟩ := hex
  have hlt := nDropped_lt_of_kept qs' q hq (spQ_keep hqt)
  have hcast : (nDropped qs' : Rat) ≤ (qs'.length : Rat) - 1 := by
    have : nDropped qs' + 1 ≤ qs'.length := hlt
    have := (Nat.cast_le (α := Rat)).2 this
    push_cast at this; linarith
  have ht := tol_pos
  constructor
  · nlinarith [hd.1, hd.2]
  · linarith [hd.1]

theorem get3_srcOf_T (s : St) (x a x1 : Nat) (hx : x < s.S) (ha : a < s.A) (hx1 : x1 < s.S) :
    get3 (srcOf s).T x a x1 = get3 s.T a x x1 := get3_mk3 _ _ _ _ _ _ _ hx ha hx1

theorem srcRow_srcOf (s : St) (x a : Nat) (hx : x < s.S) (ha : a < s.A) :
    srcRow (srcOf s) x a = (List.range s.S).map (fun x1 => get3 s.T a x x1) := by
  simp only [srcRow, rowOf]
  apply List.map_congr_left
  intro x1 h1
  exact get3_srcOf_T s x a x1 hx ha (List.mem_range.1 h1)

/-- a sparse model built by the converting constructor converts back to dense without rejection:
    its stored rows are strict distributions and its discount is a discount -/
theorem sparse_copy_converts_back (m : Src) (sp : St) (h : copySparse m = some sp) :
    ∃ d2, copyDense (srcOf sp) = some d2 := by
  obtain ⟨hS, hA, hd, hg, hent, _, hrows⟩ := copySparse_preserves m sp h
  have hv := (copySparse_valid m sp h).1
  have hg2 : (discGuard .dense).eval (srcOf sp).disc = false := (discGuard_iff .dense _).2 hv.disc
  unfold copyDense
  simp only [hg2, Bool.false_eq_true, if_false]
  have hall : ((List.range (srcOf sp).A).all fun a => (List.range (srcOf sp).S).all fun s => isProbLoop (srcRow (srcOf sp) s a)) = true := by
    simp only [List.all_eq_true, List.mem_range]
    intro a ha x hx
    have ha' : a < sp.A := ha
    have hx' : x < sp.S := hx
    rw [srcRow_srcOf sp x a hx' ha']
    apply (isProbLoop_iff _).2
    -- this is the (a,x) row of sp.T
    have hT : sp.T = mk3 m.A m.S m.S (fun a s s1 => sparsify (get3 m.T s a s1)) := by
      unfold copySparse at h
      split at h
      · cases h
      · split at h
        · cases h; rfl
        · cases h
    have hmem : (List.range sp.S).map (fun x1 => get3 sp.T a x x1) ∈ (sp.T.getD a []) ∨ True := Or.inr trivial
    have hrow : (List.range sp.S).map (fun x1 => get3 sp.T a x x1)
        = (List.range m.S).map (fun x1 => sparsify (get3 m.T x a x1)) := by
      rw [hS]
      apply List.map_congr_left
      intro x1 h1
      exact hent a (by rw [← hA]; exact ha') x (by rw [← hS]; exact hx') x1 (List.mem_range.1 h1)
    rw [hrow]
    apply hrows
    · rw [hT]; simp only [mk3, List.mem_map, List.mem_range]
      exact ⟨a, by rw [← hA]; exact ha', rfl⟩
    · simp only [List.mem_map, List.mem_range]
      exact ⟨x, by rw [← hS]; exact hx', rfl⟩
  simp only [hall, if_true]
  exact ⟨_, rfl⟩

/-- **round trip generic → dense → sparse → dense**: when the three conversions succeed, the final dense model has
    the source's discount and each of its transition entries is the source's entry passed through the storage
    threshold (so it differs from the source by at most 1e-6 and is exact above the threshold); it is valid. -/
theorem roundtrip_dense_sparse_dense (m : Src) (d sp d2 : St)
    (h1 : copyDense m = some d) (h2 : copySparse (srcOf d) = some sp) (h3 : copyDense (srcOf sp) = some d2) :
    d2.disc = m.disc ∧ ValidT ⟨.dense, .dense⟩ d2 ∧
    ∀ a < m.A, ∀ x < m.S, ∀ x1 < m.S, get3 d2.T a x x1 = sparsify (get3 m.T x a x1) := by
  obtain ⟨hS1, hA1, hd1, _, hent1, _, _⟩ := copyDense_preserves m d h1
  obtain ⟨hS2, hA2, hd2, _, hent2, _, _⟩ := copySparse_preserves (srcOf d) sp h2
  obtain ⟨hS3, hA3, hd3, _, hent3, _, _⟩ := copyDense_preserves (srcOf sp) d2 h3
  have hv := copyDense_valid (srcOf sp) d2 h3
  refine ⟨by rw [hd3]; show sp.disc = m.disc; rw [hd2]; show d.disc = m.disc; exact hd1, hv.1, ?_⟩
  intro a ha x hx x1 hx1
  have hSd : (srcOf d).S = m.S := hS1
  have hAd : (srcOf d).A = m.A := hA1
  have hSsp : (srcOf sp).S = m.S := by show sp.S = m.S; rw [hS2]; exact hSd
  have hAsp : (srcOf sp).A = m.A := by show sp.A = m.A; rw [hA2]; exact hAd
  rw [hent3 a (by rw [hAsp]; exact ha) x (by rw [hSsp]; exact hx) x1 (by rw [hSsp]; exact hx1)]
  rw [get3_srcOf_T sp x a x1 (by rw [hS2, hSd]; exact hx) (by rw [hA2, hAd]; exact ha) (by rw [hS2, hSd]; exact hx1)]
  rw [hent2 a (by rw [hAd]; exact ha) x (by rw [hSd]; exact hx) x1 (by rw [hSd]; exact hx1)]
  rw [get3_srcOf_T d x a x1 (by rw [hS1]; exact hx) (by rw [hA1]; exact ha) (by rw [hS1]; exact hx1)]
  rw [hent1 a ha x hx x1 hx1]

/-! ## table constructors and POMDP constructors at full strength (tight rows, no hypothesis) -/

theorem accepted_tablesT (k : Kind) (s : St) (t : Tab3) (hacc : (step k s (.setT3D t)).2 = false) :
    RowsOK (rowT k.base) (step k s (.setT3D t)).1.T := by
  obtain ⟨_, ht3, _⟩ := vf_unpack all_validate_first
  obtain ⟨hrT, _⟩ := sparse_setters_recheck
  obtain ⟨kb, ko⟩ := k
  simp only [step, prog, ht3, exec_setter_true] at hacc ⊢
  by_cases hc' : okT3D kb s t = true
  · simp only [hc', if_true]
    simp only [okT3D, Bool.and_eq_true] at hc'
    apply stored_tableT kb s.S s.A s.S t hc'.1
    intro hsp; subst hsp
    simpa [hrT] using hc'.2
  · simp [hc'] at hacc

theorem accepted_obsT (k : Kind) (s : St) (o : Tab3) (hacc : (step k s (.setO3D o)).2 = false) :
    RowsOK (rowT k.obs) (step k s (.setO3D o)).1.Om ∧ (step k s (.setO3D o)).1.T = s.T ∧
    (step k s (.setO3D o)).1.disc = s.disc := by
  obtain ⟨_, _, _, ho3, _⟩ := vf_unpack all_validate_first
  obtain ⟨_, hrO⟩ := sparse_setters_recheck
  obtain ⟨kb, ko⟩ := k
  simp only [step, prog, ho3, exec_setter_true] at hacc ⊢
  by_cases hc' : okO3D ko s o = true
  · simp only [hc', if_true, and_true]
    simp only [okO3D, Bool.and_eq_true] at hc'
    apply stored_tableT ko s.S s.A s.O o hc'.1
    intro hsp; subst hsp
    simpa [hrO] using hc'.2
  · simp [hc'] at hacc

/-- `Model(s, a, t, r, d)` / `SparseModel(s, a, t, r, d)`: whatever object the constructor returns is valid (tight rows),
    for all sizes, tables and discounts, nan included -/
theorem ctor3D_valid (k : Rep) (S A : Nat) (t r : Tab3) (d : XRat) (s : St)
    (hc : ctor3D k S A t r d = some s) : ValidT ⟨k, k⟩ s := by
  obtain ⟨hvd, ht3, _⟩ := vf_unpack all_validate_first
  unfold ctor3D at hc
  simp only [exec_append] at hc
  have e1 : exec (prog ⟨k, k⟩ (.setDiscount d)) (blank S A 0) =
      if (discGuard k).eval d = true then (blank S A 0, true) else ({ blank S A 0 with disc := d }, false) := by
    simp only [prog, hvd, exec_setter_true]
    by_cases hg : (discGuard k).eval d = true <;> simp [hg]
  by_cases hg : (discGuard k).eval d = true
  · simp [e1, hg] at hc
  · have hg' : (discGuard k).eval d = false := by simpa using hg
    have hdisc : DiscOK d := (discGuard_iff k d).1 hg'
    simp only [e1, hg', Bool.false_eq_true, if_false] at hc
    set s1 : St := { blank S A 0 with disc := d } with hs1
    have e2 : exec (prog ⟨k, k⟩ (.setT3D t)) s1 = step ⟨k, k⟩ s1 (.setT3D t) := rfl
    rw [e2] at hc
    by_cases hacc : (step ⟨k, k⟩ s1 (.setT3D t)).2 = true
    · simp [hacc] at hc
    · have hacc' : (step ⟨k, k⟩ s1 (.setT3D t)).2 = false := by simpa using hacc
      simp only [hacc', Bool.false_eq_true, if_false] at hc
      have hrows := accepted_tablesT ⟨k, k⟩ s1 t hacc'
      have hkeep : (step ⟨k, k⟩ s1 (.setT3D t)).1.disc = d ∧ (step ⟨k, k⟩ s1 (.setT3D t)).1.Om = [] := by
        simp only [step, prog, ht3, exec_setter_true]
        split <;> simp [s1, blank]
      simp only [prog, exec] at hc
      simp only [Bool.false_eq_true, if_false, Option.some.injEq] at hc
      subst hc
      exact ⟨by simpa [hkeep.1] using hdisc, hrows, by intro m hm; simp [hkeep.2] at hm⟩

theorem pomdpBasic_validT (kb ko : Rep) (base : St) (O : Nat) (hO : 0 < O) (hv : ValidT ⟨kb, kb⟩ base) :
    ValidT ⟨kb, ko⟩ (pomdpBasic base O) := by
  refine ⟨hv.disc, hv.T, ?_⟩
  intro m hm row hrow
  simp only [pomdpBasic, List.mem_map, List.mem_range] at hm
  obtain ⟨_, _, rfl⟩ := hm
  simp only [List.mem_map, List.mem_range] at hrow
  obtain ⟨_, _, rfl⟩ := hrow
  exact rowT_of_RowS ko (firstRow_ok O hO)

/-- `POMDP::Model(o, of, params…)` / `POMDP::SparseModel(o, of, params…)` -/
theorem pomdp3D_valid (k : Kind) (base : St) (O : Nat) (o : Tab3) (s : St)
    (hv : ValidT ⟨k.base, k.base⟩ base) (hc : pomdp3D k base O o = some s) : ValidT k s := by
  unfold pomdp3D at hc
  set s0 : St := { base with O := O, Om := mk3 base.A base.S O (fun _ _ _ => .fin 0) } with hs0
  have e : exec (prog k (.setO3D o)) s0 = step k s0 (.setO3D o) := rfl
  rw [e] at hc
  by_cases hacc : (step k s0 (.setO3D o)).2 = true
  · simp [hacc] at hc
  · have hacc' : (step k s0 (.setO3D o)).2 = false := by simpa using hacc
    simp only [hacc', Bool.false_eq_true, if_false, Option.some.injEq] at hc
    subst hc
    obtain ⟨h1, h2, h3⟩ := accepted_obsT k s0 o hacc'
    exact ⟨by rw [h3]; exact hv.disc, by rw [h2]; exact hv.T, h1⟩

/-- conversion of a whole POMDP from ANY source model: rejected, or a valid POMDP in the target representation -/
theorem pomdp_copy_valid (kb ko : Rep) (m : Src) (O : Nat) (om : Tab3) (s : St)
    (h : (copyBase kb m).bind (fun b => copyObs ko b O om) = some s) : ValidT ⟨kb, ko⟩ s := by
  cases hb : copyBase kb m with
  | none => simp [hb] at h
  | some b =>
      simp only [hb, Option.bind] at h
      rcases convert_rejects_or_valid kb m with hnone | ⟨b', hb', hvb, _, hrowsS⟩
      · rw [hb] at hnone; cases hnone
      · rw [hb] at hb'
        have hbb : b = b' := Option.some.inj hb'
        subst hbb
        obtain ⟨hT, _, hdisc, _, hOm⟩ := copyObs_preserves ko b O om s h
        refine ⟨by rw [hdisc]; exact hvb.disc, by rw [hT]; exact hvb.T, ?_⟩
        intro mm hm row hrow
        have := hOm mm hm row hrow
        cases ko with
        | dense => exact this
        | sparse => exact rowT_of_RowS .sparse this

/-! ## conversions never reject spuriously: exact acceptance conditions -/

/-- **`MDP::Model(const M&)` accepts exactly the valid sources**: discount in (0,1] and every row read through
    getTransitionProbability finite, non-negative and within the tolerance of one — and nothing else -/
theorem copyDense_accepts_iff (m : Src) :
    (copyDense m).isSome = true ↔ DiscOK m.disc ∧ ∀ a < m.A, ∀ x < m.S, RowS (srcRow m x a) := by
  unfold copyDense
  by_cases hg : (discGuard .dense).eval m.disc = true
  · have hnd : ¬ DiscOK m.disc := fun hd => by
      have := (discGuard_iff .dense m.disc).2 hd; rw [this] at hg; cases hg
    simp [hg, hnd]
  · have hg' : (discGuard .dense).eval m.disc = false := by simpa using hg
    have hd : DiscOK m.disc := (discGuard_iff .dense _).1 hg'
    simp only [hg', Bool.false_eq_true, if_false]
    by_cases hall : ((List.range m.A).all fun a => (List.range m.S).all fun s => isProbLoop (srcRow m s a)) = true
    · simp only [hall, if_true, Option.isSome_some, true_iff]
      simp only [List.all_eq_true, List.mem_range] at hall
      exact ⟨hd, fun a ha x hx => (isProbLoop_iff _).1 (hall a ha x hx)⟩
    · simp only [hall, Bool.false_eq_true, if_false, Option.isSome_none, false_iff, not_and]
      intro _ hrows
      apply hall
      simp only [List.all_eq_true, List.mem_range]
      exact fun a ha x hx => (isProbLoop_iff _).2 (hrows a ha x hx)

/-- OBLIGATION over the generated table: the per-entry guard of the sparse converting constructor rejects no
    finite value in [0,1] -/
theorem sparseEntryGuard_complete :
    Cls.all.all (fun c => !(c == .zero || c == .mid || c == .one) || !(sparseEntryGuard.eval c.rep)) = true := by
  decide +kernel

theorem entryGuard_accepts_unit (q : Rat) (h0 : 0 ≤ q) (h1 : q ≤ 1) : sparseEntryGuard.eval (.fin q) = false := by
  have hall := sparseEntryGuard_complete
  rw [List.all_eq_true] at hall
  have := hall (cls (.fin q)) (mem_all _)
  rw [← eval_rep sparseEntryGuard sparseEntryGuard_ok.1] at this
  have hc : (cls (.fin q) == Cls.zero || cls (.fin q) == Cls.mid || cls (.fin q) == Cls.one) = true := by
    simp only [cls]
    split_ifs with a b c d
    · exact absurd a (not_lt.2 h0)
    · rfl
    · rfl
    · rfl
    · exfalso; rcases lt_or_eq_of_le h1 with h | h
      · exact c h
      · exact d h
  simpa [hc] using this

/-- **`MDP::SparseModel(const M&)` accepts exactly** the sources with a discount in (0,1], entries that are finite
    numbers in [0,1], and rows that — AS STORED, i.e. after the entries ≤ 1e-6 are dropped — are within the tolerance
    of one.  (So a valid dense row is rejected precisely when its dropped mass pushes the stored sum out of tolerance.) -/
theorem copySparse_accepts_iff (m : Src) :
    (copySparse m).isSome = true ↔
      DiscOK m.disc ∧ ∀ x < m.S, ∀ a < m.A,
        (∀ p ∈ srcRow m x a, ∃ q, p = .fin q ∧ 0 ≤ q ∧ q ≤ 1) ∧ RowS ((srcRow m x a).map sparsify) := by
  unfold copySparse
  by_cases hg : (discGuard .sparse).eval m.disc = true
  · have hnd : ¬ DiscOK m.disc := fun hd => by
      have := (discGuard_iff .sparse m.disc).2 hd; rw [this] at hg; cases hg
    simp [hg, hnd]
  · have hg' : (discGuard .sparse).eval m.disc = false := by simpa using hg
    have hd : DiscOK m.disc := (discGuard_iff .sparse _).1 hg'
    simp only [hg', Bool.false_eq_true, if_false]
    constructor
    · intro hsome
      split at hsome
      · rename_i hall
        simp only [List.all_eq_true, List.mem_range, Bool.and_eq_true] at hall
        refine ⟨hd, fun x hx a ha => ?_⟩
        obtain ⟨h1, h2⟩ := hall x hx a ha
        have hrow := sparse_copy_row sparseEntryGuard sparseEntryGuard_ok.1 sparseEntryGuard_ok.2.2.1 (srcRow m x a)
          (by rw [List.all_eq_true]; exact h1) (by simpa using h2)
        refine ⟨?_, hrow⟩
        intro p hp
        -- the stored row is finite, hence so is every entry read; the entry guard then bounds it
        obtain ⟨qs, hq, _⟩ := hrow
        have hmem : sparsify p ∈ (srcRow m x a).map sparsify := List.mem_map.2 ⟨p, hp, rfl⟩
        rw [hq] at hmem
        obtain ⟨q', _, hq'⟩ := List.mem_map.1 hmem
        obtain ⟨q, rfl, _⟩ := sparsify_eq_fin p q' hq'.symm
        have hb := entryGuard_fin sparseEntryGuard sparseEntryGuard_ok.1 sparseEntryGuard_ok.2.2.1 q
          (by simpa using h1 _ hp)
        exact ⟨q, rfl, hb.1, hb.2⟩
      · cases hsome
    · rintro ⟨_, hrows⟩
      have hall : ((List.range m.S).all fun s => (List.range m.A).all fun a =>
            (srcRow m s a).all (fun p => !(sparseEntryGuard.eval p)) &&
            !(diffSmall (.fin 1) (sumX ((srcRow m s a).map sparsify)))) = true := by
        simp only [List.all_eq_true, List.mem_range, Bool.and_eq_true]
        intro x hx a ha
        obtain ⟨hent, qs, hq, _, h1, h2⟩ := hrows x hx a ha
        refine ⟨?_, ?_⟩
        · intro p hp
          obtain ⟨q, rfl, h0, h1'⟩ := hent p hp
          simp [entryGuard_accepts_unit q h0 h1']
        · rw [hq, sumX_fin]
          have : eqSmall (.fin 1) (.fin (sumQ qs)) = true :=
            (eqSmall_one_left_iff _).2 ⟨sumQ qs, rfl, by linarith, by linarith⟩
          simp [diffSmall, this]
      simp only [hall, if_true, Option.isSome_some]

end AITB.MS
