/-
  AITB.Props.C13Sqrt — soundness AND completeness of the exact comparison the UCVE checker uses:
  `sqrtGt d s1 s2` decides  sqrt(s1) > d + sqrt(s2)  for non-negative rationals, where the square roots are the
  (real, generally irrational) non-negative roots.  No square root is ever computed.
-/
import Mathlib.Data.Real.Basic
import Mathlib.Tactic.Linarith
import Mathlib.Tactic.Positivity
import AITB.Model.VETable

namespace AITB.VE

theorem lt_of_sq_lt_sq' {a b : ℝ} (hb : 0 ≤ b) (h : a ^ 2 < b ^ 2) : a < b := by
  by_contra hc
  have hc' : b ≤ a := not_lt.mp hc
  nlinarith [mul_le_mul hc' hc' hb (le_trans hb hc')]

theorem sq_lt_sq_of_lt {a b : ℝ} (ha : 0 ≤ a) (h : a < b) : a ^ 2 < b ^ 2 := by
  nlinarith [mul_pos (lt_of_le_of_lt ha h) (lt_of_le_of_lt ha h)]

theorem sqrtGt_sound (d s1 s2 : ℚ) (r1 r2 : ℝ) (h1 : 0 ≤ r1) (h2 : 0 ≤ r2)
    (e1 : r1 ^ 2 = (s1 : ℝ)) (e2 : r2 ^ 2 = (s2 : ℝ)) :
    sqrtGt d s1 s2 = true ↔ r1 > (d : ℝ) + r2 := by
  unfold sqrtGt
  by_cases hd : d < 0
  · have hdR : (d : ℝ) < 0 := by exact_mod_cast hd
    simp only [hd, if_true]
    by_cases hs : s2 ≤ s1
    · simp only [hs, if_true, true_iff]
      have hsR : (s2 : ℝ) ≤ s1 := by exact_mod_cast hs
      have : r2 ≤ r1 := by
        by_contra hc
        have := sq_lt_sq_of_lt h1 (not_le.mp hc)
        linarith
      linarith
    · simp only [hs, if_false]
      have hsR : (s1 : ℝ) < s2 := by exact_mod_cast (not_le.mp hs)
      by_cases ht : s2 - s1 - -d * -d < 0
      · simp only [ht, if_true, true_iff]
        have htR : (s2 : ℝ) - s1 - (-(d:ℝ)) * (-(d:ℝ)) < 0 := by exact_mod_cast ht
        -- r2^2 < (r1 - d)^2
        have : r2 ^ 2 < (r1 - d) ^ 2 := by nlinarith
        have := lt_of_sq_lt_sq' (by linarith) this
        linarith
      · simp only [ht, if_false, decide_eq_true_eq]
        have htR : 0 ≤ (s2 : ℝ) - s1 - (-(d:ℝ)) * (-(d:ℝ)) := by
          have := not_lt.mp ht
          exact_mod_cast this
        constructor
        · intro h
          have hR : ((s2 : ℝ) - s1 - (-(d:ℝ)) * (-(d:ℝ))) * ((s2 : ℝ) - s1 - (-(d:ℝ)) * (-(d:ℝ))) < 4 * (-(d:ℝ)) * (-(d:ℝ)) * s1 := by
            exact_mod_cast h
          -- t^2 < (2 e r1)^2 with e = -d, so t < 2 e r1, i.e. r2^2 < (r1 + e)^2
          have hsq : ((s2 : ℝ) - s1 - (-(d:ℝ)) * (-(d:ℝ))) ^ 2 < (2 * (-(d:ℝ)) * r1) ^ 2 := by nlinarith
          have hlt := lt_of_sq_lt_sq' (by nlinarith) hsq
          have : r2 ^ 2 < (r1 - d) ^ 2 := by nlinarith
          have := lt_of_sq_lt_sq' (by linarith) this
          linarith
        · intro h
          have hlt : r2 < r1 - d := by linarith
          have hsq := sq_lt_sq_of_lt h2 hlt
          have ht2 : (s2 : ℝ) - s1 - (-(d:ℝ)) * (-(d:ℝ)) < 2 * (-(d:ℝ)) * r1 := by nlinarith
          have := sq_lt_sq_of_lt htR ht2
          have hR : ((s2 : ℝ) - s1 - (-(d:ℝ)) * (-(d:ℝ))) * ((s2 : ℝ) - s1 - (-(d:ℝ)) * (-(d:ℝ))) < 4 * (-(d:ℝ)) * (-(d:ℝ)) * s1 := by nlinarith
          exact_mod_cast hR
  · have hdR : 0 ≤ (d : ℝ) := by exact_mod_cast (not_lt.mp hd)
    simp only [hd, if_false, Bool.and_eq_true, decide_eq_true_eq]
    constructor
    · rintro ⟨ht, hq⟩
      have htR : 0 < (s1 : ℝ) - s2 - d * d := by exact_mod_cast ht
      have hqR : 4 * (d : ℝ) * d * s2 < ((s1 : ℝ) - s2 - d * d) * ((s1 : ℝ) - s2 - d * d) := by exact_mod_cast hq
      have hsq : (2 * (d : ℝ) * r2) ^ 2 < ((s1 : ℝ) - s2 - d * d) ^ 2 := by nlinarith
      have hlt := lt_of_sq_lt_sq' (le_of_lt htR) hsq
      have : (d + r2) ^ 2 < r1 ^ 2 := by nlinarith
      have := lt_of_sq_lt_sq' h1 this
      linarith
    · intro h
      have hsq := sq_lt_sq_of_lt (by linarith : 0 ≤ (d : ℝ) + r2) h
      have ht2 : 2 * (d : ℝ) * r2 < (s1 : ℝ) - s2 - d * d := by nlinarith
      have hpos : 0 ≤ 2 * (d : ℝ) * r2 := by positivity
      have hsq2 := sq_lt_sq_of_lt hpos ht2
      refine ⟨?_, ?_⟩
      · have : 0 < (s1 : ℝ) - s2 - d * d := lt_of_le_of_lt hpos ht2
        exact_mod_cast this
      · have : 4 * (d : ℝ) * d * s2 < ((s1 : ℝ) - s2 - d * d) * ((s1 : ℝ) - s2 - d * d) := by nlinarith
        exact_mod_cast this

end AITB.VE

namespace AITB.VE
/-- the comparison `Driver/C13.lean` uses between two UCVE value vectors is the real comparison of
    `m + sqrt(n·h)` (h = logtA/2 ≥ 0, counts ≥ 0), for the true (irrational) square roots -/
theorem sqrtGt_objective (m1 n1 m2 n2 h : ℚ) (r1 r2 : ℝ) (h1 : 0 ≤ r1) (h2 : 0 ≤ r2)
    (e1 : r1 ^ 2 = ((n1 * h : ℚ) : ℝ)) (e2 : r2 ^ 2 = ((n2 * h : ℚ) : ℝ)) :
    sqrtGt (m2 - m1) (n1 * h) (n2 * h) = true ↔ (m1 : ℝ) + r1 > (m2 : ℝ) + r2 := by
  rw [sqrtGt_sound (m2 - m1) (n1 * h) (n2 * h) r1 r2 h1 h2 e1 e2]
  push_cast
  constructor <;> intro hh <;> linarith
end AITB.VE
