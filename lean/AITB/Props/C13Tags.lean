/-
  AITB.Props.C13Tags — table-level VariableElimination: the TAGS accumulated per rule and written into the
  action by `makeResult` name a joint action whose true payoff is the reported value.
  With `tve_value_correct` this is the property's VE clause for the table-level model `tveRun`.
-/
import AITB.Props.C13Table

namespace AITB.VE
open AITB.Factored

def tagsOf : Option TRule → List (Nat × Nat)
  | some r => r.tags
  | none => []

def nodeTags (A a : List Nat) (nd : TNode) : List (Nat × Nat) := tagsOf (lookup (toIndexPartial nd.keys A a) nd.rules)

def graphTags (A a : List Nat) : List TNode → List (Nat × Nat)
  | [] => []
  | nd :: g => nodeTags A a nd ++ graphTags A a g

def finalsTags : List (Rat × List (Nat × Nat)) → List (Nat × Nat)
  | [] => []
  | f :: fs => f.2 ++ finalsTags fs

/-- all tags reachable from the joint action `a`: those of the rule `a` selects in every node, and the final ones -/
def selTags (A a : List Nat) (st : TState) : List (Nat × Nat) := graphTags A a st.graph ++ finalsTags st.finals

def applyTags (tags : List (Nat × Nat)) (a : List Nat) : List Nat := tags.foldl (fun a t => setAt a t.1 t.2) a

theorem mem_graphTags (A a : List Nat) (t : Nat × Nat) : ∀ (g : List TNode),
    t ∈ graphTags A a g ↔ ∃ nd ∈ g, t ∈ nodeTags A a nd
  | [] => by simp [graphTags]
  | nd :: g => by simp [graphTags, mem_graphTags A a t g]

theorem finalsTags_append (fs : List (Rat × List (Nat × Nat))) (f : Rat × List (Nat × Nat)) :
    finalsTags (fs ++ [f]) = finalsTags fs ++ f.2 := by
  induction fs with
  | nil => simp [finalsTags]
  | cons g gs ih => simp [finalsTags, ih]

theorem lookup_mergeRule_tags (nr : TRule) (j : Nat) : ∀ (rs : List TRule),
    tagsOf (lookup j (mergeRule nr rs)) = tagsOf (lookup j rs) ++ (if j = nr.idx then nr.tags else [])
  | [] => by
    simp only [mergeRule, lookup]
    by_cases h1 : nr.idx < j
    · have : j ≠ nr.idx := by omega
      simp [h1, this, tagsOf]
    · by_cases h2 : nr.idx = j
      · simp [h2, tagsOf]
      · have : j ≠ nr.idx := fun e => h2 e.symm
        simp [h1, h2, this, tagsOf]
  | r :: rs => by
    simp only [mergeRule]
    by_cases c1 : r.idx < nr.idx
    · simp only [c1, if_true, lookup]
      by_cases h1 : r.idx < j
      · simp only [h1, if_true]; exact lookup_mergeRule_tags nr j rs
      · by_cases h2 : r.idx = j
        · have : j ≠ nr.idx := by omega
          simp [h2, this]
        · have : j ≠ nr.idx := by omega
          simp [h1, h2, this]
    · by_cases c2 : r.idx = nr.idx
      · have c2' : (r.idx == nr.idx) = true := by simpa using c2
        simp only [c1, if_false, c2', if_true, lookup]
        by_cases h1 : r.idx < j
        · have : j ≠ nr.idx := by omega
          simp [h1, this]
        · by_cases h2 : r.idx = j
          · have : j = nr.idx := by omega
            simp [h2, this, tagsOf]
          · have : j ≠ nr.idx := by omega
            simp [h1, h2, this]
      · have c2' : (r.idx == nr.idx) = false := by simpa using c2
        simp only [c1, if_false, c2', Bool.false_eq_true, lookup]
        by_cases g1 : nr.idx < j
        · have : j ≠ nr.idx := by omega
          simp [g1, this]
        · by_cases g2 : nr.idx = j
          · have hj : ¬ r.idx < j := by omega
            have hj2 : ¬ r.idx = j := by omega
            simp [g2, hj, hj2, tagsOf]
          · have : j ≠ nr.idx := fun e => g2 e.symm
            have hj : ¬ r.idx < j := by omega
            have hj2 : ¬ r.idx = j := by omega
            simp [g1, g2, this, hj, hj2]

theorem mem_graphTags_addToNode (A a keys : List Nat) (nr : TRule) (t : Nat × Nat) : ∀ (g : List TNode),
    t ∈ graphTags A a (addToNode keys nr g)
      ↔ t ∈ graphTags A a g ∨ (toIndexPartial keys A a = nr.idx ∧ t ∈ nr.tags)
  | [] => by
    have h0 : graphTags A a (addToNode keys nr []) = tagsOf (lookup (toIndexPartial keys A a) (mergeRule nr [])) ++ [] := rfl
    rw [h0, lookup_mergeRule_tags]
    by_cases e : toIndexPartial keys A a = nr.idx <;> simp [lookup, tagsOf, graphTags, e]
  | nd :: g => by
    simp only [addToNode]
    by_cases h : nd.keys = keys
    · subst h
      simp only [beq_self_eq_true, if_true, graphTags, nodeTags, lookup_mergeRule_tags, List.mem_append]
      by_cases e : toIndexPartial nd.keys A a = nr.idx <;> simp [e]
      tauto
    · have h' : (nd.keys == keys) = false := by simpa using h
      simp only [h', Bool.false_eq_true, if_false, graphTags, List.mem_append, mem_graphTags_addToNode A a keys nr t g]
      tauto

theorem crossAll_tags (A : List Nat) (n : Nat) (x : Asg) : ∀ (fs : List TNode) (acc : Rat × List (Nat × Nat)),
    (crossAll A n x fs acc).2 = acc.2 ++ graphTags A (listOf n x) fs
  | [], acc => by simp [crossAll, graphTags]
  | nd :: fs, acc => by
    simp only [crossAll, graphTags, nodeTags]
    cases h : lookup (toIndexPartial nd.keys A (listOf n x)) nd.rules with
    | none => simp only [tagsOf]; rw [crossAll_tags A n x fs acc]; simp
    | some r => simp only [tagsOf]; rw [crossAll_tags A n x fs _]; simp

section step
variable (A : List Nat) (n : Nat) (nb jv : List Nat) (v : Nat) (factors : List TNode)

/-- invariant with tags: the running best is the first maximum, tagged with its own action and the tags it met -/
def BestInvT (k : Nat) (best : Option (Rat × List (Nat × Nat))) : Prop :=
  (k = 0 ∧ best = none) ∨
  (∃ b, best = some b ∧ (∀ i, i < k → cv A n nb jv v factors i ≤ b.1) ∧
     ∃ i, i < k ∧ b.1 = cv A n nb jv v factors i ∧ b.2 = (v, i) :: graphTags A (listOf n (jvAsg nb jv v i)) factors)

theorem bestOver_invT : ∀ (cnt k : Nat) (best : Option (Rat × List (Nat × Nat))),
    BestInvT A n nb jv v factors k best → BestInvT A n nb jv v factors (k + cnt) (bestOver A n nb jv v factors cnt k best)
  | 0, k, best, h => by simpa [bestOver] using h
  | cnt+1, k, best, h => by
    rw [bestOver_succ]
    have hc : (crossAll A n (jvAsg nb jv v k) factors (0, [(v, k)])).1 = cv A n nb jv v factors k := by
      rw [crossAll_val]; simp [cv]
    have ht : (crossAll A n (jvAsg nb jv v k) factors (0, [(v, k)])).2
        = (v, k) :: graphTags A (listOf n (jvAsg nb jv v k)) factors := by
      rw [crossAll_tags]; rfl
    have hnext : BestInvT A n nb jv v factors (k+1)
        (nextBest best (crossAll A n (jvAsg nb jv v k) factors (0, [(v, k)]))) := by
      rcases h with ⟨hk, hb⟩ | ⟨b, hb, hle, i, hi, hbi, hbt⟩
      · subst hk; subst hb
        refine Or.inr ⟨_, rfl, ?_, 0, by omega, hc, ht⟩
        intro i hi
        have : i = 0 := by omega
        subst this; rw [hc]
      · subst hb
        simp only [nextBest]
        by_cases hlt : b.1 < (crossAll A n (jvAsg nb jv v k) factors (0, [(v, k)])).1
        · simp only [hlt, if_true]
          refine Or.inr ⟨_, rfl, ?_, k, by omega, hc, ht⟩
          intro j hj
          rcases Nat.lt_or_ge j k with h1 | h1
          · exact le_of_lt (lt_of_le_of_lt (hle j h1) hlt)
          · have : j = k := by omega
            subst this; rw [hc]
        · simp only [hlt, if_false]
          refine Or.inr ⟨b, rfl, ?_, i, by omega, hbi, hbt⟩
          intro j hj
          rcases Nat.lt_or_ge j k with h1 | h1
          · exact hle j h1
          · have : j = k := by omega
            subst this; rw [← hc]; exact not_lt.mp hlt
    have := bestOver_invT cnt (k+1) _ hnext
    have e : k + (cnt + 1) = k + 1 + cnt := by omega
    rw [e]; exact this

theorem bestOver_specT (hpos : 0 < A.getD v 0) :
    ∃ b i, bestOver A n nb jv v factors (A.getD v 0) 0 none = some b ∧ i < A.getD v 0 ∧
      b.1 = cv A n nb jv v factors i ∧ b.2 = (v, i) :: graphTags A (listOf n (jvAsg nb jv v i)) factors := by
  have h := bestOver_invT A n nb jv v factors (A.getD v 0) 0 none (Or.inl ⟨rfl, rfl⟩)
  simp only [Nat.zero_add] at h
  rcases h with ⟨h0, _⟩ | ⟨b, hb, _, i, hi, hbi, hbt⟩
  · omega
  · exact ⟨b, i, hb, hi, hbi, hbt⟩

end step

/-! ### the loop over the neighbours' joint values, tags -/

theorem filterNot_addToNode (v : Nat) (keys : List Nat) (nr : TRule) (hv : keys.contains v = false) : ∀ (g : List TNode),
    (addToNode keys nr g).filter (fun nd => !nd.keys.contains v)
      = addToNode keys nr (g.filter (fun nd => !nd.keys.contains v))
  | [] => by simp only [addToNode, List.filter, hv, Bool.not_false]
  | nd :: g => by
    by_cases h : nd.keys = keys
    · have hc : nd.keys.contains v = false := by rw [h]; exact hv
      have h' : (nd.keys == keys) = true := by simpa using h
      simp only [addToNode, h', if_true, List.filter, hc, hv, Bool.not_false]
    · have h' : (nd.keys == keys) = false := by simpa using h
      by_cases hc : nd.keys.contains v = true
      · simp only [addToNode, h', Bool.false_eq_true, if_false, List.filter, hc, Bool.not_true,
                   filterNot_addToNode v keys nr hv g]
      · have hc' : nd.keys.contains v = false := by simpa using hc
        simp only [addToNode, h', Bool.false_eq_true, if_false, List.filter, hc', Bool.not_false,
                   filterNot_addToNode v keys nr hv g]

section loop
variable (A : List Nat) (n : Nat) (nb : List Nat) (v : Nat) (factors : List TNode)

/-- tags of the new rule created for the joint value with index `j` -/
def newTags (j : Nat) : List (Nat × Nat) :=
  match bestOver A n nb (toFactors (sel nb A) j) v factors (A.getD v 0) 0 none with
  | some b => b.2
  | none => []

theorem removeLoop_filterNot (hv : nb.contains v = false) : ∀ (cnt j : Nat) (st : TState),
    (removeLoop A n nb v factors cnt j st).graph.filter (fun nd => !nd.keys.contains v)
      = (removeLoop A n nb v factors cnt j { st with graph := st.graph.filter (fun nd => !nd.keys.contains v) }).graph
  | 0, _, _ => rfl
  | cnt+1, j, st => by
    rw [removeLoop_succ, removeLoop_succ]
    cases hb : bestOver A n nb (toFactors (sel nb A) j) v factors (A.getD v 0) 0 none with
    | none => exact removeLoop_filterNot hv cnt (j+1) st
    | some nf =>
      by_cases he : nb.isEmpty = true
      · simp only [he, if_true]
        exact removeLoop_filterNot hv cnt (j+1) _
      · have he' : nb.isEmpty = false := by simpa using he
        simp only [he', Bool.false_eq_true, if_false]
        rw [removeLoop_filterNot hv cnt (j+1) _]
        simp only [filterNot_addToNode v nb _ hv st.graph]

theorem mem_removeLoop_tags (a : List Nat) (t : Nat × Nat) (hne : nb.isEmpty = false) :
    ∀ (cnt j0 : Nat) (st : TState),
      t ∈ graphTags A a (removeLoop A n nb v factors cnt j0 st).graph
        ↔ t ∈ graphTags A a st.graph ∨
          (j0 ≤ toIndexPartial nb A a ∧ toIndexPartial nb A a < j0 + cnt ∧ t ∈ newTags A n nb v factors (toIndexPartial nb A a))
  | 0, j0, st => by
    simp only [removeLoop]
    constructor
    · exact Or.inl
    · rintro (h | ⟨h1, h2, _⟩)
      · exact h
      · omega
  | cnt+1, j0, st => by
    rw [removeLoop_succ, mem_removeLoop_tags a t hne cnt (j0+1)]
    cases hb : bestOver A n nb (toFactors (sel nb A) j0) v factors (A.getD v 0) 0 none with
    | none =>
      simp only
      constructor
      · rintro (h | ⟨h1, h2, h3⟩)
        · exact Or.inl h
        · exact Or.inr ⟨by omega, by omega, h3⟩
      · rintro (h | ⟨h1, h2, h3⟩)
        · exact Or.inl h
        · by_cases e : toIndexPartial nb A a = j0
          · rw [e] at h3; unfold newTags at h3; rw [hb] at h3; simp at h3
          · exact Or.inr ⟨by omega, by omega, h3⟩
    | some nf =>
      simp only [hne, Bool.false_eq_true, if_false, mem_graphTags_addToNode]
      constructor
      · rintro ((h | ⟨h1, h2⟩) | ⟨h1, h2, h3⟩)
        · exact Or.inl h
        · refine Or.inr ⟨by omega, by omega, ?_⟩
          rw [h1]; unfold newTags; rw [hb]; exact h2
        · exact Or.inr ⟨by omega, by omega, h3⟩
      · rintro (h | ⟨h1, h2, h3⟩)
        · exact Or.inl (Or.inl h)
        · by_cases e : toIndexPartial nb A a = j0
          · refine Or.inl (Or.inr ⟨e, ?_⟩)
            rw [e] at h3; unfold newTags at h3; rw [hb] at h3; exact h3
          · exact Or.inr ⟨by omega, by omega, h3⟩

end loop

/-! ### one `removeFactor`, tags -/

theorem nodeTags_congr (A l1 l2 : List Nat) (nd : TNode) (h : ∀ u ∈ nd.keys, l1.getD u 0 = l2.getD u 0) :
    nodeTags A l1 nd = nodeTags A l2 nd := by
  simp only [nodeTags, toIndexPartial, sel_congr nd.keys l1 l2 h]

theorem graphTags_congr (A l1 l2 : List Nat) : ∀ (g : List TNode),
    (∀ nd ∈ g, ∀ u ∈ nd.keys, l1.getD u 0 = l2.getD u 0) → graphTags A l1 g = graphTags A l2 g
  | [], _ => rfl
  | nd :: g, h => by
    simp only [graphTags]
    rw [nodeTags_congr A l1 l2 nd (h nd (List.mem_cons_self ..)),
        graphTags_congr A l1 l2 g (fun nd' hnd' => h nd' (List.mem_cons_of_mem _ hnd'))]

theorem mem_graphTags_split (A a : List Nat) (t : Nat × Nat) (p : TNode → Bool) (g : List TNode) :
    t ∈ graphTags A a g ↔ t ∈ graphTags A a (g.filter p) ∨ t ∈ graphTags A a (g.filter (fun nd => !p nd)) := by
  simp only [mem_graphTags, List.mem_filter]
  constructor
  · rintro ⟨nd, h1, h2⟩
    by_cases hp : p nd = true
    · exact Or.inl ⟨nd, ⟨h1, hp⟩, h2⟩
    · exact Or.inr ⟨nd, ⟨h1, by simpa using hp⟩, h2⟩
  · rintro (⟨nd, ⟨h1, _⟩, h2⟩ | ⟨nd, ⟨h1, _⟩, h2⟩) <;> exact ⟨nd, h1, h2⟩

/-- the joint value enumerated for `a`'s neighbour index, with `v ↦ k`, agrees with `a[v := k]` on every adjacent node -/
theorem jv_agree (A a : List Nat) (v k : Nat) (g : List TNode) (ha : Valid A a) (hv : v < A.length)
    (hk : GKeys A.length g) :
    ∀ nd ∈ g.filter (fun nd => nd.keys.contains v), ∀ u ∈ nd.keys,
      (listOf A.length (jvAsg (nbrs A.length v (g.map (·.keys)))
          (toFactors (sel (nbrs A.length v (g.map (·.keys))) A) (toIndexPartial (nbrs A.length v (g.map (·.keys))) A a)) v k)).getD u 0
        = (setAt a v k).getD u 0 := by
  obtain ⟨nb, hnb⟩ : ∃ nb, nb = nbrs A.length v (g.map (·.keys)) := ⟨_, rfl⟩
  rw [← hnb]
  have hnbn : ∀ u ∈ nb, u < A.length := by
    intro u hu; rw [hnb] at hu; exact ((mem_nbrs _ _ _ _).mp hu).1
  have hjv : toFactors (sel nb A) (toIndexPartial nb A a) = sel nb a :=
    (toFactors_toIndexLoop _ _ (valid_sel A a ha nb hnbn)).1
  rw [hjv]
  intro nd hnd u hu
  obtain ⟨hndg, hndv⟩ := List.mem_filter.mp hnd
  have hun : u < A.length := hk nd hndg u hu
  have hl := asgOf_listOf A.length (jvAsg nb (sel nb a) v k) u hun
  simp only [asgOf] at hl
  rw [hl, getD_setAt a v k u (by rw [valid_len A a ha]; exact hv)]
  by_cases e : u = v
  · simp [jvAsg, e]
  · have hunb : u ∈ nb := by
      rw [hnb, mem_nbrs]
      exact ⟨hun, e, nd.keys, List.mem_map.mpr ⟨nd, hndg, rfl⟩, List.contains_iff_mem.mp hndv, hu⟩
    simp only [jvAsg, e, if_false, find_zip_sel a u nb hunb]

theorem setAt_rest_agree (a : List Nat) (v k : Nat) (g : List TNode) (hv : v < a.length) :
    ∀ nd ∈ g.filter (fun nd => !nd.keys.contains v), ∀ u ∈ nd.keys, (setAt a v k).getD u 0 = a.getD u 0 := by
  intro nd hnd u hu
  have hnv := (List.mem_filter.mp hnd).2
  have : u ≠ v := by
    intro e; subst e
    simp at hnv
    exact hnv hu
  rw [getD_setAt a v k u hv]; simp [this]

/-- **table-level I2 with tags**: the action `k` recorded in the new rule's tag turns the new state value back into
    the old one, and the tags reachable from `a` afterwards are `(v,k)` plus those reachable from `a[v:=k]` before -/
theorem removeVar_tags (A a : List Nat) (v : Nat) (st : TState) (ha : Valid A a) (hv : v < A.length)
    (hpos : 0 < A.getD v 0) (hk : GKeys A.length st.graph) :
    ∃ k, k < A.getD v 0 ∧ stVal A (setAt a v k) st = stVal A a (removeVar A A.length v st) ∧
      ∀ t, t ∈ selTags A a (removeVar A A.length v st) ↔ t = (v, k) ∨ t ∈ selTags A (setAt a v k) st := by
  obtain ⟨nb, hnb⟩ : ∃ nb, nb = nbrs A.length v (st.graph.map (·.keys)) := ⟨_, rfl⟩
  obtain ⟨factors, hfac⟩ : ∃ f, f = st.graph.filter (fun nd => nd.keys.contains v) := ⟨_, rfl⟩
  have hnv : nb.contains v = false := by rw [hnb]; exact nbrs_not_self _ _ _
  have hnbn : ∀ u ∈ nb, u < A.length := by
    intro u hu; rw [hnb] at hu; exact ((mem_nbrs _ _ _ _).mp hu).1
  have hal : v < a.length := by rw [valid_len A a ha]; exact hv
  obtain ⟨b, k, hb, hklt, hb1, hb2⟩ := bestOver_specT A A.length nb
    (toFactors (sel nb A) (toIndexPartial nb A a)) v factors hpos
  have hagree := jv_agree A a v k st.graph ha hv hk
  rw [← hnb, ← hfac] at hagree
  have hcv : b.1 = graphVal A (setAt a v k) factors := by
    rw [hb1]; unfold cv; exact graphVal_congr A _ _ factors hagree
  have htg : b.2 = (v, k) :: graphTags A (setAt a v k) factors := by
    rw [hb2, graphTags_congr A _ _ factors hagree]
  have hbv : bvAt A A.length nb v factors (toIndexPartial nb A a) = b.1 := by
    unfold bvAt bestVal; rw [hb]
  have hnt : newTags A A.length nb v factors (toIndexPartial nb A a) = b.2 := by
    unfold newTags; rw [hb]
  refine ⟨k, hklt, ?_, ?_⟩
  · rw [removeVar_val A a v st ha hpos, ← hnb, ← hfac, hbv, hcv]
    have s2 := graphVal_filter_split A (setAt a v k) (fun nd => nd.keys.contains v) st.graph
    have s3 := graphVal_setAt_rest A a v k st.graph hal
    rw [← hfac] at s2
    simp only [stVal] at *
    linarith
  · intro t
    have hrest : graphTags A (setAt a v k) (st.graph.filter (fun nd => !nd.keys.contains v))
        = graphTags A a (st.graph.filter (fun nd => !nd.keys.contains v)) :=
      graphTags_congr A _ _ _ (setAt_rest_agree a v k st.graph hal)
    have hR : t ∈ selTags A (setAt a v k) st ↔
        (t ∈ graphTags A (setAt a v k) factors ∨ t ∈ graphTags A a (st.graph.filter (fun nd => !nd.keys.contains v)))
          ∨ t ∈ finalsTags st.finals := by
      simp only [selTags, List.mem_append]
      rw [mem_graphTags_split A (setAt a v k) t (fun nd => nd.keys.contains v) st.graph, ← hfac, hrest]
    rw [hR]
    simp only [removeVar, selTags, ← hnb, ← hfac, List.mem_append]
    by_cases hne : nb.isEmpty = true
    · have hnil : nb = [] := List.isEmpty_iff.mp hne
      have hcnt : spacePartial nb A = 1 := by rw [hnil]; simp [spacePartial, sel, space]
      have hj : toIndexPartial nb A a = 0 := by rw [hnil]; simp [toIndexPartial, sel, toIndexLoop]
      rw [hj] at hb
      simp only [hne, Bool.true_or, if_true, hcnt]
      rw [removeLoop_succ, hb]
      simp only [hne, if_true, removeLoop, finalsTags_append, List.mem_append, htg, List.mem_cons]
      tauto
    · have hne' : nb.isEmpty = false := by simpa using hne
      obtain ⟨g, hg⟩ : ∃ g, g = (if nb.isEmpty || st.graph.any (fun nd => nd.keys == nb) then st.graph else st.graph ++ [⟨nb, []⟩]) := ⟨_, rfl⟩
      rw [← hg]
      have hgf : ∀ t, t ∈ graphTags A a (g.filter (fun nd => !nd.keys.contains v))
          ↔ t ∈ graphTags A a (st.graph.filter (fun nd => !nd.keys.contains v)) := by
        intro t
        rw [hg]; split
        · rfl
        · rw [List.filter_append]
          simp only [mem_graphTags, List.mem_append, List.mem_filter, List.mem_singleton]
          constructor
          · rintro ⟨nd, (h | ⟨h, _⟩), h2⟩
            · exact ⟨nd, h, h2⟩
            · subst h; simp [nodeTags, lookup, tagsOf] at h2
          · rintro ⟨nd, h, h2⟩; exact ⟨nd, Or.inl h, h2⟩
      obtain ⟨_, h2, _⟩ := removeLoop_graph A A.length nb v factors a hpos hne' hnv (spacePartial nb A) 0 { st with graph := g }
      rw [removeLoop_filterNot A A.length nb v factors hnv, h2]
      rw [mem_removeLoop_tags A A.length nb v factors a t hne']
      have hlt := toIndexPartial_lt A a nb ha hnbn
      simp only [hgf, hnt, htg, List.mem_cons]
      constructor
      · rintro ((h | ⟨_, _, h⟩) | h)
        · exact Or.inr (Or.inl (Or.inr h))
        · rcases h with h | h
          · exact Or.inl h
          · exact Or.inr (Or.inl (Or.inl h))
        · exact Or.inr (Or.inr h)
      · rintro (h | ((h | h) | h))
        · exact Or.inl (Or.inr ⟨Nat.zero_le _, by omega, Or.inl h⟩)
        · exact Or.inl (Or.inr ⟨Nat.zero_le _, by omega, Or.inr h⟩)
        · exact Or.inl (Or.inl h)
        · exact Or.inr h

/-! ### writing tags into an action -/

/-- no agent is tagged with two different actions -/
def Functional (tags : List (Nat × Nat)) : Prop := ∀ u k k', (u, k) ∈ tags → (u, k') ∈ tags → k = k'

theorem length_applyTags : ∀ (tags : List (Nat × Nat)) (a : List Nat), (applyTags tags a).length = a.length
  | [], _ => rfl
  | t :: ts, a => by
    simp only [applyTags, List.foldl_cons]
    have := length_applyTags ts (setAt a t.1 t.2)
    simp only [applyTags] at this
    rw [this, length_setAt]

theorem applyTags_untagged : ∀ (tags : List (Nat × Nat)) (a : List Nat) (u : Nat),
    (∀ t ∈ tags, t.1 < a.length) → (∀ k, (u, k) ∉ tags) → (applyTags tags a).getD u 0 = a.getD u 0
  | [], _, _, _, _ => rfl
  | t :: ts, a, u, hl, hno => by
    simp only [applyTags, List.foldl_cons]
    have hne : u ≠ t.1 := by
      intro e; exact hno t.2 (by rw [e]; exact List.mem_cons_self ..)
    have := applyTags_untagged ts (setAt a t.1 t.2) u
      (fun t' ht' => by rw [length_setAt]; exact hl t' (List.mem_cons_of_mem _ ht'))
      (fun k hk => hno k (List.mem_cons_of_mem _ hk))
    simp only [applyTags] at this
    rw [this, getD_setAt a t.1 t.2 u (hl t (List.mem_cons_self ..))]
    simp [hne]

theorem applyTags_tagged : ∀ (tags : List (Nat × Nat)) (a : List Nat) (u k : Nat),
    (∀ t ∈ tags, t.1 < a.length) → Functional tags → (u, k) ∈ tags → (applyTags tags a).getD u 0 = k
  | [], _, _, _, _, _, h => by simp at h
  | t :: ts, a, u, k, hl, hf, hmem => by
    simp only [applyTags, List.foldl_cons]
    have hl' : ∀ t' ∈ ts, t'.1 < (setAt a t.1 t.2).length := fun t' ht' => by
      rw [length_setAt]; exact hl t' (List.mem_cons_of_mem _ ht')
    have hf' : Functional ts := fun u k k' h1 h2 => hf u k k' (List.mem_cons_of_mem _ h1) (List.mem_cons_of_mem _ h2)
    by_cases hex : ∃ k', (u, k') ∈ ts
    · obtain ⟨k', hk'⟩ := hex
      have e : k' = k := hf u k' k (List.mem_cons_of_mem _ hk') hmem
      have := applyTags_tagged ts (setAt a t.1 t.2) u k' hl' hf' hk'
      simp only [applyTags] at this
      rw [this, e]
    · have hno : ∀ k', (u, k') ∉ ts := fun k' hk' => hex ⟨k', hk'⟩
      have ht : t = (u, k) := by
        rcases List.mem_cons.mp hmem with h | h
        · exact h.symm
        · exact absurd h (hno k)
      have := applyTags_untagged ts (setAt a t.1 t.2) u hl' hno
      simp only [applyTags] at this
      rw [this, getD_setAt a t.1 t.2 u (hl t (List.mem_cons_self ..)), ht]
      simp

theorem payoffL_congr (rules : List Rule) (l1 l2 : List Nat) (h : ∀ u, l1.getD u 0 = l2.getD u 0) :
    payoffL rules l1 = payoffL rules l2 := by
  have : asgOf l1 = asgOf l2 := by funext u; exact h u
  simp only [payoffL, this]

/-! ### the invariant carried through the elimination loop -/

/-- for every in-range joint action `a`: writing the tags reachable from `a` into `a` gives a joint action whose TRUE
    payoff is the value read from the state at `a`; tags are functional, in range, and name eliminated agents only -/
def TagInv (A : List Nat) (rules : List Rule) (active : List Nat) (st : TState) : Prop :=
  ∀ a, Valid A a →
    payoffL rules (applyTags (selTags A a st) a) = stVal A a st ∧
    Functional (selTags A a st) ∧
    ∀ t ∈ selTags A a st, t.1 < A.length ∧ t.1 ∉ active ∧ t.2 < A.getD t.1 0

theorem removeVar_TagInv (A : List Nat) (rules : List Rule) (active : List Nat) (v : Nat) (st : TState)
    (hvact : v ∈ active) (hv : v < A.length) (hpos : 0 < A.getD v 0) (hk : GKeys A.length st.graph)
    (hP : TagInv A rules active st) : TagInv A rules (active.filter (· != v)) (removeVar A A.length v st) := by
  intro a ha
  obtain ⟨k, hklt, hval, hmem⟩ := removeVar_tags A a v st ha hv hpos hk
  have ha' : Valid A (setAt a v k) := valid_setAt A a v k ha hklt hv
  obtain ⟨p1, p2, p3⟩ := hP (setAt a v k) ha'
  have hal : a.length = A.length := valid_len A a ha
  have hnov : ∀ k', (v, k') ∉ selTags A (setAt a v k) st := fun k' h => (p3 _ h).2.1 hvact
  have q3 : ∀ t ∈ selTags A a (removeVar A A.length v st), t.1 < A.length ∧ t.1 ∉ active.filter (· != v) ∧ t.2 < A.getD t.1 0 := by
    intro t ht
    rcases (hmem t).mp ht with rfl | h
    · exact ⟨hv, by simp, hklt⟩
    · obtain ⟨a1, a2, a3⟩ := p3 t h
      exact ⟨a1, fun hc => a2 (List.mem_filter.mp hc).1, a3⟩
  have q2 : Functional (selTags A a (removeVar A A.length v st)) := by
    intro u k1 k2 h1 h2
    rcases (hmem _).mp h1 with e1 | h1 <;> rcases (hmem _).mp h2 with e2 | h2
    · injection e1 with _ e1; injection e2 with _ e2; rw [e1, e2]
    · injection e1 with e1 _; subst e1; exact absurd h2 (hnov k2)
    · injection e2 with e2 _; subst e2; exact absurd h1 (hnov k1)
    · exact p2 u k1 k2 h1 h2
  refine ⟨?_, q2, q3⟩
  rw [← hval, ← p1]
  apply payoffL_congr
  intro u
  have hl1 : ∀ t ∈ selTags A a (removeVar A A.length v st), t.1 < a.length := fun t ht => by rw [hal]; exact (q3 t ht).1
  have hl2 : ∀ t ∈ selTags A (setAt a v k) st, t.1 < (setAt a v k).length := fun t ht => by
    rw [length_setAt, hal]; exact (p3 t ht).1
  by_cases hex : ∃ k1, (u, k1) ∈ selTags A (setAt a v k) st
  · obtain ⟨k1, hk1⟩ := hex
    rw [applyTags_tagged _ _ u k1 hl1 q2 ((hmem _).mpr (Or.inr hk1)), applyTags_tagged _ _ u k1 hl2 p2 hk1]
  · have hno : ∀ k1, (u, k1) ∉ selTags A (setAt a v k) st := fun k1 h => hex ⟨k1, h⟩
    rw [applyTags_untagged _ _ u hl2 hno, getD_setAt a v k u (by rw [hal]; exact hv)]
    by_cases e : u = v
    · subst e
      rw [applyTags_tagged _ _ u k hl1 q2 ((hmem _).mpr (Or.inl rfl))]; simp
    · have hno' : ∀ k1, (u, k1) ∉ selTags A a (removeVar A A.length v st) := by
        intro k1 h
        rcases (hmem _).mp h with e1 | h
        · injection e1 with e1 _; exact e e1
        · exact hno k1 h
      rw [applyTags_untagged _ _ u hl1 hno']; simp [e]

theorem TagInv_mono (A : List Nat) (rules : List Rule) (act1 act2 : List Nat) (st : TState)
    (hsub : ∀ u ∈ act2, u ∈ act1) (hP : TagInv A rules act1 st) : TagInv A rules act2 st := by
  intro a ha
  obtain ⟨p1, p2, p3⟩ := hP a ha
  exact ⟨p1, p2, fun t ht => ⟨(p3 t ht).1, fun hc => (p3 t ht).2.1 (hsub _ hc), (p3 t ht).2.2⟩⟩

theorem tveLoop_TagInv (A : List Nat) (rules : List Rule) (hA : ∀ d ∈ A, 0 < d) : ∀ (fuel : Nat) (active : List Nat) (st : TState),
    (∀ u ∈ active, u < A.length) → LInv active st.graph → TagInv A rules active st →
      TagInv A rules [] (tveLoop A A.length fuel active st) := by
  intro fuel
  induction fuel with
  | zero =>
    intro active st _ _ hP
    have : tveLoop A A.length 0 active st = st := rfl
    rw [this]; exact TagInv_mono A rules active [] st (by simp) hP
  | succ fuel ih =>
    intro active st hact hinv hP
    cases active with
    | nil => exact hP
    | cons x xs =>
      obtain ⟨v, hvdef⟩ : ∃ v, v = bestVar A A.length (x :: xs) (st.graph.map (·.keys)) := ⟨_, rfl⟩
      have hvmem : v ∈ x :: xs := by rw [hvdef]; exact bestVar_mem _ _ _ _ (by simp)
      have hv : v < A.length := hact v hvmem
      have hpos : 0 < A.getD v 0 := by
        have : A.getD v 0 = A[v] := by simp [List.getD_eq_getElem?_getD, List.getElem?_eq_getElem hv]
        rw [this]; exact hA _ (List.getElem_mem hv)
      have hk : GKeys A.length st.graph := fun nd hnd u hu => hact u ((hinv nd hnd).2 u hu)
      have hstep : tveLoop A A.length (fuel+1) (x :: xs) st
          = tveLoop A A.length fuel ((x :: xs).filter (· != v)) (removeVar A A.length v st) := by
        rw [hvdef]; rfl
      rw [hstep]
      exact ih _ _ (fun u hu => hact u (List.mem_filter.mp hu).1) (removeVar_LInv A v (x :: xs) st hinv)
        (removeVar_TagInv A rules (x :: xs) v st hvmem hv hpos hk hP)

theorem mem_graphTags_tInit (A a : List Nat) (t : Nat × Nat) : ∀ (rules : List Rule) (g : List TNode),
    t ∈ graphTags A a (tInit A rules g) ↔ t ∈ graphTags A a g
  | [], _ => Iff.rfl
  | r :: rs, g => by
    simp only [tInit]
    rw [mem_graphTags_tInit A a t rs, mem_graphTags_addToNode]
    simp

theorem map_zero_replicate : ∀ (A : List Nat), A.map (fun _ => 0) = List.replicate A.length 0
  | [] => rfl
  | _ :: ds => by simp [List.replicate_succ, map_zero_replicate ds]

theorem tMakeResult_act : ∀ (finals : List (Rat × List (Nat × Nat))) (acc : List Nat × Rat),
    (finals.foldl (fun (acc : List Nat × Rat) f =>
      (f.2.foldl (fun a t => setAt a t.1 t.2) acc.1, acc.2 + f.1)) acc).1 = applyTags (finalsTags finals) acc.1
  | [], acc => rfl
  | f :: fs, acc => by
    simp only [List.foldl_cons, finalsTags, applyTags, List.foldl_append]
    have := tMakeResult_act fs (f.2.foldl (fun a t => setAt a t.1 t.2) acc.1, acc.2 + f.1)
    simp only [applyTags] at this
    rw [this]

/-- **`tve_action_correct`** — the joint action the table-level model assembles from the tags is in range and its TRUE
    total payoff is exactly the reported value, for EVERY well-formed rule set. -/
theorem tve_action_correct (A : List Nat) (rules : List Rule) (hA : ∀ d ∈ A, 0 < d)
    (hwf : ∀ r ∈ rules, r.WF A) (hne : ∀ r ∈ rules, r.keys ≠ []) :
    Valid A (tveRun A rules).1 ∧ payoffL rules (tveRun A rules).1 = (tveRun A rules).2 := by
  have hinv : LInv (List.range A.length) (tInit A rules []) := by
    intro nd hnd
    rcases tInit_keys A rules [] nd hnd with ⟨r, hr, hk⟩ | ⟨_, h, _⟩
    · rw [hk]; exact ⟨hne r hr, fun u hu => List.mem_range.mpr ((hwf r hr).1 u hu)⟩
    · simp at h
  have hsel0 : ∀ a, selTags A a ⟨tInit A rules [], []⟩ = [] := by
    intro a
    apply List.eq_nil_iff_forall_not_mem.mpr
    intro t ht
    simp only [selTags, finalsTags, List.append_nil] at ht
    rw [mem_graphTags_tInit] at ht
    simp [graphTags] at ht
  have hP0 : TagInv A rules (List.range A.length) ⟨tInit A rules [], []⟩ := by
    intro a ha
    rw [hsel0 a]
    refine ⟨?_, fun _ _ _ h => by simp at h, fun _ h => by simp at h⟩
    simp only [applyTags, List.foldl_nil, stVal, finalsVal]
    rw [tInit_represents A a ha rules [] hwf]; simp [graphVal]
  have hPend := tveLoop_TagInv A rules hA A.length (List.range A.length) ⟨tInit A rules [], []⟩
    (fun u hu => List.mem_range.mp hu) hinv hP0
  obtain ⟨h1, _, _⟩ := tveLoop_spec A hA A.length (List.range A.length) ⟨tInit A rules [], []⟩
    (by simp) (fun u hu => List.mem_range.mp hu) hinv
  have hz : Valid A (A.map (fun _ => 0)) := valid_zeros A hA
  have hzr : A.map (fun _ => 0) = List.replicate A.length 0 := map_zero_replicate A
  obtain ⟨p1, p2, p3⟩ := hPend _ hz
  have hsel : selTags A (A.map (fun _ => 0)) (tveLoop A A.length A.length (List.range A.length) ⟨tInit A rules [], []⟩)
      = finalsTags (tveLoop A A.length A.length (List.range A.length) ⟨tInit A rules [], []⟩).finals := by
    simp only [selTags, h1, graphTags, List.nil_append]
  have hact : (tveRun A rules).1 = applyTags (finalsTags (tveLoop A A.length A.length (List.range A.length) ⟨tInit A rules [], []⟩).finals)
      (A.map (fun _ => 0)) := by
    simp only [tveRun, tMakeResult]
    rw [tMakeResult_act, hzr]
  have hval : (tveRun A rules).2 = finalsVal (tveLoop A A.length A.length (List.range A.length) ⟨tInit A rules [], []⟩).finals := by
    simp only [tveRun, tMakeResult]
    rw [tMakeResult_val]; simp
  rw [hsel] at p1 p2 p3
  refine ⟨?_, ?_⟩
  · rw [hact, valid_iff_getD]
    refine ⟨by rw [length_applyTags]; simp, ?_⟩
    intro i hi
    have hl : ∀ t ∈ finalsTags (tveLoop A A.length A.length (List.range A.length) ⟨tInit A rules [], []⟩).finals,
        t.1 < (A.map (fun _ => 0)).length := fun t ht => by simp; exact (p3 t ht).1
    by_cases hex : ∃ k, (i, k) ∈ finalsTags (tveLoop A A.length A.length (List.range A.length) ⟨tInit A rules [], []⟩).finals
    · obtain ⟨k, hk⟩ := hex
      rw [applyTags_tagged _ _ i k hl p2 hk]
      exact (p3 _ hk).2.2
    · rw [applyTags_untagged _ _ i hl (fun k hk => hex ⟨k, hk⟩)]
      exact ((valid_iff_getD A _).mp hz).2 i hi
  · rw [hact, p1, hval]
    simp only [stVal, h1, graphVal]; ring

/-- **table-level `ve_correct`**: the model of the code as it is returns an in-range joint action whose payoff is the
    exhaustive maximum, and reports exactly that payoff. -/
theorem tve_correct (A : List Nat) (rules : List Rule) (hA : ∀ d ∈ A, 0 < d)
    (hwf : ∀ r ∈ rules, r.WF A) (hne : ∀ r ∈ rules, r.keys ≠ []) :
    Valid A (tveRun A rules).1 ∧ payoffL rules (tveRun A rules).1 = bruteMax A rules ∧
    (tveRun A rules).2 = bruteMax A rules := by
  obtain ⟨h1, h2⟩ := tve_action_correct A rules hA hwf hne
  have h3 := tve_value_correct A rules hA hwf hne
  exact ⟨h1, by rw [h2, h3], h3⟩

/-- the hypotheses of `tve_correct` hold for a concrete non-trivial instance (4 agents, one in no rule; overlapping,
    nested, duplicate, negative rules; absent entries), and its conclusion is then the evaluated fact below -/
example :
    let A := [2,3,2,2]
    let rules : List Rule := [⟨[0,1],[1,2],-3/2⟩, ⟨[1],[2],2⟩, ⟨[0,1],[1,2],1/4⟩, ⟨[3],[0],-1/2⟩, ⟨[0,1,3],[0,0,1],5/4⟩]
    (∀ d ∈ A, 0 < d) ∧ (∀ r ∈ rules, r.WF A) ∧ (∀ r ∈ rules, r.keys ≠ []) ∧ tveRun A rules = ([0,2,0,1], 2) := by
  refine ⟨by decide, ?_, ?_, by decide +kernel⟩
  · intro r hr
    simp only [List.mem_cons, List.mem_nil_iff, or_false] at hr
    rcases hr with rfl | rfl | rfl | rfl | rfl <;> exact ⟨by decide, (validB_iff _ _).mp (by decide)⟩
  · intro r hr
    simp only [List.mem_cons, List.mem_nil_iff, or_false] at hr
    rcases hr with rfl | rfl | rfl | rfl | rfl <;> simp

end AITB.VE
