/-
  AITB.Props.C03Tie — the reference values the compiled driver evaluates on materialised beliefs (`upperRefV`, `lowerRefV`,
  `iterHV`, AITB.Model.POMDP3) ARE the reference families of the theorems (`upperRef`, `lowerRef`, `iterH`).
-/
import AITB.Props.C03Refs

namespace AITB.POMDP3
open AITB.MDP

theorem bstepV_get (m : POMDP) (x : Vec) (a o s : Nat) (hs : s < m.S) : (bstepV m x a o).get s = bstep m x.get a o s := mkVec_get _ hs

theorem iterH_loc (m : POMDP) (V0 : (Nat → Rat) → Rat) (h0 : ∀ x y, (∀ s, s < m.S → x s = y s) → V0 x = V0 y) (k : Nat) :
    ∀ x y, (∀ s, s < m.S → x s = y s) → iterH m V0 k x = iterH m V0 k y := by
  induction k with
  | zero => exact h0
  | succ k ih =>
    intro x y h
    show Hop m _ x = Hop m _ y
    unfold Hop
    refine maxTo_congr (fun a _ => ?_)
    unfold qval
    have e1 : rew m x a = rew m y a := by unfold rew; exact sumTo_congr (fun s hs => by rw [h s hs])
    have e2 : (fun o => iterH m V0 k (bstep m x a o)) = (fun o => iterH m V0 k (bstep m y a o)) := by
      funext o; rw [bstep_congr m h a o]
    rw [e1, e2]

theorem iterHV_eq (m : POMDP) (V0v : Vec → Rat) (V0 : (Nat → Rat) → Rat)
    (hloc : ∀ x y, (∀ s, s < m.S → x s = y s) → V0 x = V0 y) (h0 : ∀ x : Vec, V0v x = V0 x.get) (k : Nat) :
    ∀ x : Vec, iterHV m V0v k x = iterH m V0 k x.get := by
  induction k with
  | zero => exact h0
  | succ k ih =>
    intro x
    show maxTo (m.A - 1) _ = Hop m (iterH m V0 k) x.get
    unfold Hop
    refine maxTo_congr (fun a _ => ?_)
    unfold qval
    congr 2
    refine sumTo_congr (fun o _ => ?_)
    rw [ih]
    exact iterH_loc m V0 hloc k _ _ (fun s hs => bstepV_get m x a o s hs)

theorem mdpStep_congr (m : POMDP) {v w : Nat → Rat} (h : ∀ s, s < m.S → v s = w s) (s : Nat) : mdpStep m v s = mdpStep m w s := by
  unfold mdpStep
  refine maxTo_congr (fun a _ => ?_)
  congr 2
  exact sumTo_congr (fun s1 hs1 => by rw [h s1 hs1])

theorem blindStep_congr (m : POMDP) (a : Nat) {v w : Nat → Rat} (h : ∀ s, s < m.S → v s = w s) (s : Nat) : blindStep m a v s = blindStep m a w s := by
  unfold blindStep
  congr 2
  exact sumTo_congr (fun s1 hs1 => by rw [h s1 hs1])

theorem iterV_get (m : POMDP) (fV : Vec → Vec) (f : (Nat → Rat) → Nat → Rat)
    (hf : ∀ (v : Vec) (w : Nat → Rat), (∀ s, s < m.S → v.get s = w s) → ∀ s, s < m.S → (fV v).get s = f w s) (j : Nat) :
    ∀ (v : Vec) (w : Nat → Rat), (∀ s, s < m.S → v.get s = w s) → ∀ s, s < m.S → (iterV fV j v).get s = Nat.iterate f j w s := by
  induction j with
  | zero => intro v w h; exact h
  | succ j ih => intro v w h; exact ih (fV v) (f w) (hf v w h)

theorem mdpIterV_get (m : POMDP) (j : Nat) (c : Rat) :
    ∀ s, s < m.S → (iterV (mdpStepV m) j (mkVec m.S (fun _ => c))).get s = Nat.iterate (mdpStep m) j (fun _ => c) s :=
  iterV_get m (mdpStepV m) (mdpStep m) (fun v w h s hs => by
    unfold mdpStepV
    rw [mkVec_get _ hs]
    exact mdpStep_congr m h s) j _ _ (fun s hs => mkVec_get _ hs)

theorem blindIterV_get (m : POMDP) (a j : Nat) (c : Rat) :
    ∀ s, s < m.S → (iterV (blindStepV m a) j (mkVec m.S (fun _ => c))).get s = Nat.iterate (blindStep m a) j (fun _ => c) s :=
  iterV_get m (blindStepV m a) (blindStep m a) (fun v w h s hs => by
    rw [blindStepV_get m a v s hs]
    exact blindStep_congr m a h s) j _ _ (fun s hs => mkVec_get _ hs)

/-- the driver's upper reference is `upperRef` -/
theorem upperRefV_eq (m : POMDP) (c : Rat) (j k : Nat) (x : Vec) : upperRefV m c j k x = upperRef m c j k x.get := by
  unfold upperRefV upperRef
  refine iterHV_eq m _ _ (Sublin_linV m.S _).loc (fun y => ?_) k x
  unfold linVV linV dotS
  exact sumTo_congr (fun s hs => by rw [mdpIterV_get m j c s hs])

/-- the driver's lower reference is `lowerRef` -/
theorem lowerRefV_eq (m : POMDP) (hA : 0 < m.A) (c : Nat → Rat) (j k : Nat) (x : Vec) : lowerRefV m c j k x = lowerRef m c j k x.get := by
  unfold lowerRefV lowerRef
  refine iterHV_eq m _ _ (Sublin_maxLinV m.S _ _).loc (fun y => ?_) k x
  unfold maxLinVV maxLinV
  have hsz : ((Array.range m.A).map (fun a => iterV (blindStepV m a) j (mkVec m.S (fun _ => c a)))).size = m.A := by simp
  rw [hsz]
  refine maxTo_congr (fun i hi => ?_)
  have hi' : i < m.A := by omega
  have hg : ((Array.range m.A).map (fun a => iterV (blindStepV m a) j (mkVec m.S (fun _ => c a)))).getD i #[]
      = iterV (blindStepV m i) j (mkVec m.S (fun _ => c i)) := by
    simp [Array.getD, hi']
  rw [hg]
  unfold dotS
  exact sumTo_congr (fun s hs => by rw [blindIterV_get m i j (c i) s hs])

/-! ### the driver's `Refs` wrapper -/

/-- `Refs.U` of `mkRefs m j budget` is the member `upperRef (Rmax/(1-γ)) j (depthFor m budget)` of the upper family -/
theorem Refs_U_eq (m : POMDP) (j budget : Nat) (x : Vec) :
    (mkRefs m j budget).U x = upperRef m (maxRall m / (1 - m.γ)) j (depthFor m budget) x.get := by
  rw [← upperRefV_eq]; rfl

/-- `Refs.L` of `mkRefs m j budget` is the member `lowerRef (min R_a/(1-γ))_a j (depthFor m budget)` of the lower family -/
theorem Refs_L_eq (m : POMDP) (hA : 0 < m.A) (j budget : Nat) (x : Vec) :
    (mkRefs m j budget).L x = lowerRef m (fun a => minRa m a / (1 - m.γ)) j (depthFor m budget) x.get := by
  rw [← lowerRefV_eq m hA]; rfl

/-- the two start constants `mkRefs` uses satisfy the side conditions of the families -/
theorem refs_cU_safe (m : POMDP) (hv : Valid m) : ∀ s, s < m.S → ∀ a, a < m.A → m.R s a ≤ (1 - m.γ) * (maxRall m / (1 - m.γ)) := by
  intro s hs a ha
  have h1 : 0 < 1 - m.γ := by have := hv.γ1; linarith
  rw [mul_div_cancel₀ _ (ne_of_gt h1)]
  unfold maxRall
  exact le_trans (maxTo_ge (m.A - 1) (m.R s) a (by omega)) (maxTo_ge (m.S - 1) (fun s => maxTo (m.A - 1) (m.R s)) s (by omega))

theorem refs_cL_safe (m : POMDP) (hv : Valid m) : ∀ a, a < m.A → ∀ s, s < m.S → (1 - m.γ) * (minRa m a / (1 - m.γ)) ≤ m.R s a := by
  intro a _ s hs
  have h1 : 0 < 1 - m.γ := by have := hv.γ1; linarith
  rw [mul_div_cancel₀ _ (ne_of_gt h1)]
  exact minTo_le (m.S - 1) (fun s => m.R s a) s (by omega)

/-- what the driver compares lower bounds with is a super-solution of the belief MDP; what it compares upper bounds with is a
    sublinear sub-solution — for every POMDP, every `j`, every budget -/
theorem Refs_U_superSol (m : POMDP) (hv : Valid m) (j budget : Nat) :
    SuperSol m (upperRef m (maxRall m / (1 - m.γ)) j (depthFor m budget)) :=
  upperRef_superSol m hv _ (refs_cU_safe m hv) j _

theorem Refs_L_subSol (m : POMDP) (hv : Valid m) (j budget : Nat) :
    Sublin m.S (lowerRef m (fun a => minRa m a / (1 - m.γ)) j (depthFor m budget)) ∧
    SubSol m (lowerRef m (fun a => minRa m a / (1 - m.γ)) j (depthFor m budget)) :=
  ⟨lowerRef_sublin m hv _ j _, lowerRef_subSol m hv _ (refs_cL_safe m hv) j _⟩

end AITB.POMDP3
