/-
  AITB.Props.C20b — representation invariant of the Trie model w.r.t. the specification
  (list of (id, key)), preserved by construction, insert, erase(id), erase(id, key).  Core Lean only.
-/
import AITB.Props.C20a
namespace AITB.Trie

def ValidPF (F : List Nat) (pf : PF) : Prop :=
  KeysAsc 0 pf ∧ ∀ kv ∈ pf, kv.1 < F.length ∧ kv.2 < F.getD kv.1 0

/-- list index a key occupies in row `i`: its value, or the unnamed list `F[i]` -/
def slot (F : List Nat) (pf : PF) (i : Nat) : Nat := slotOf F i (lookup pf i)

theorem lookup_mem {pf : PF} {i v : Nat} (h : lookup pf i = some v) : (i, v) ∈ pf := by
  induction pf with
  | nil => simp [lookup] at h
  | cons kv r ih =>
    obtain ⟨k, w⟩ := kv
    simp only [lookup] at h
    by_cases hk : k = i
    · rw [if_pos hk] at h; cases h; subst hk; exact List.mem_cons_self ..
    · rw [if_neg hk] at h; exact List.mem_cons_of_mem _ (ih h)

theorem slot_le {F : List Nat} {pf : PF} (h : ValidPF F pf) (i : Nat) : slot F pf i ≤ F.getD i 0 := by
  unfold slot slotOf
  cases hl : lookup pf i with
  | none => exact Nat.le_refl _
  | some v => have h2 : v < F.getD i 0 := (h.2 _ (lookup_mem hl)).2; simp only [Option.getD_some]; omega

theorem slot_eq_unnamed {F : List Nat} {pf : PF} (h : ValidPF F pf) (i : Nat) :
    slot F pf i = F.getD i 0 ↔ lookup pf i = none := by
  unfold slot slotOf
  cases hl : lookup pf i with
  | none => simp only [Option.getD_none]
  | some v =>
    have h2 : v < F.getD i 0 := (h.2 _ (lookup_mem hl)).2
    simp only [Option.getD_some]
    constructor
    · intro h'; omega
    · intro h'; cases h'

theorem slot_eq_named {F : List Nat} {pf : PF} (_h : ValidPF F pf) (i v : Nat) (hv : v < F.getD i 0) :
    slot F pf i = v ↔ lookup pf i = some v := by
  unfold slot slotOf
  cases hl : lookup pf i with
  | none =>
    simp only [Option.getD_none]
    constructor
    · intro h'; omega
    · intro h'; cases h'
  | some w => simp only [Option.getD_some, Option.some.injEq]

/-- cell-level effect of `Trie::insert` -/
theorem insert_cells (t : T) (pf : PF) (hS : Shape t.F t.ids) (hv : ValidPF t.F pf) :
    Shape t.F (t.insert pf).1.ids ∧ (t.insert pf).1.F = t.F ∧ (t.insert pf).1.counter = t.counter + 1 ∧
    (t.insert pf).2 = t.counter ∧
    ∀ i s, cell (t.insert pf).1.ids i s =
      if i < t.F.length ∧ s = slot t.F pf i then cell t.ids i s ++ [t.counter] else cell t.ids i s := by
  have hw := walk_spec t.F.length pf 0 hv.1 (fun kv hkv => (hv.2 kv hkv).1) (Nat.zero_le _)
  have hf := fold_applyAt t.F (fun l => l ++ [t.counter]) (fun i => lookup pf i)
    (fun i _ => slot_le hv i) t.F.length 0 t.ids hS (by omega)
  have hids : (t.insert pf).1.ids = ((List.range' 0 t.F.length).map (fun i => (i, lookup pf i))).foldl (applyAt (fun l => l ++ [t.counter])) t.ids := by
    simp only [T.insert, ← List.foldl_append, hw, pushAt_eq, Nat.sub_zero]
  rw [hids]
  refine ⟨hf.1, rfl, rfl, rfl, fun i s => ?_⟩
  rw [hf.2 i s]
  unfold slot
  by_cases hc : i < t.F.length ∧ s = slotOf t.F i (lookup pf i)
  · rw [if_pos hc, if_pos ⟨Nat.zero_le _, by omega, hc.2⟩]
  · rw [if_neg hc, if_neg (fun hh => hc ⟨by omega, hh.2.2⟩)]

structure RI (t : T) (es : Spec) : Prop where
  shape : Shape t.F t.ids
  mem : ∀ i s id, i < t.F.length → s ≤ t.F.getD i 0 → (id ∈ cell t.ids i s ↔ ∃ e, (id, e) ∈ es ∧ slot t.F e i = s)
  sorted : ∀ i s, (cell t.ids i s).Pairwise (· < ·)
  lt : ∀ id e, (id, e) ∈ es → id < t.counter
  asc : (es.map (·.1)).Pairwise (· < ·)
  valid : ∀ id e, (id, e) ∈ es → ValidPF t.F e

theorem RI.unique {t : T} {es : Spec} (h : RI t es) {id : Nat} {e e' : PF} (h1 : (id, e) ∈ es) (h2 : (id, e') ∈ es) : e = e' := by
  have hasc := h.asc
  clear h
  induction es with
  | nil => cases h1
  | cons x xs ih =>
    simp only [List.map_cons, List.pairwise_cons] at hasc
    rcases List.mem_cons.mp h1 with rfl | h1' <;> rcases List.mem_cons.mp h2 with h2' | h2'
    · cases h2'; rfl
    · have := hasc.1 id (List.mem_map.mpr ⟨(id, e'), h2', rfl⟩); simp at this
    · subst h2'; have := hasc.1 id (List.mem_map.mpr ⟨(id, e), h1', rfl⟩); simp at this
    · exact ih h1' h2' hasc.2

theorem cell_mk (F : List Nat) (i s : Nat) : cell (F.map (fun d => List.replicate (d + 1) ([] : List Nat))) i s = [] := by
  simp only [cell, row, List.getD_eq_getElem?_getD, List.getElem?_map]
  cases F[i]? with
  | none => simp
  | some d => simp [List.getElem?_replicate]; split <;> rfl

theorem RI_mk {F : List Nat} {t : T} (h : T.mk? F = some t) : RI t [] := by
  unfold T.mk? at h
  split at h
  · cases h
  · cases h
    refine ⟨⟨by simp, fun i hi => ?_⟩, ?_, ?_, ?_, ?_, ?_⟩
    · simp [row, List.getD_eq_getElem?_getD, List.getElem?_map, List.getElem?_eq_getElem hi]
    · intro i s id _ _; simp [cell_mk]
    · intro i s; simp [cell_mk]
    · intro id e he; cases he
    · simp
    · intro id e he; cases he

theorem RI_insert {t : T} {es : Spec} (h : RI t es) {pf : PF} (hv : ValidPF t.F pf) :
    RI (t.insert pf).1 (specInsert es (t.insert pf).2 pf) := by
  obtain ⟨hS, hF, hC, hR, hcell⟩ := insert_cells t pf h.shape hv
  rw [hR]
  refine ⟨by rw [hF]; exact hS, ?_, ?_, ?_, ?_, ?_⟩
  · intro i s id hi hs
    rw [hF] at hi hs
    rw [hcell, hF]
    simp only [specInsert, List.mem_append, List.mem_singleton]
    by_cases hc : i < t.F.length ∧ s = slot t.F pf i
    · rw [if_pos hc, List.mem_append, List.mem_singleton, h.mem i s id hi hs]
      constructor
      · rintro (⟨e, he, hse⟩ | rfl)
        · exact ⟨e, Or.inl he, hse⟩
        · exact ⟨pf, Or.inr rfl, hc.2.symm⟩
      · rintro ⟨e, he | he, hse⟩
        · exact Or.inl ⟨e, he, hse⟩
        · cases he; exact Or.inr rfl
    · rw [if_neg hc, h.mem i s id hi hs]
      constructor
      · rintro ⟨e, he, hse⟩; exact ⟨e, Or.inl he, hse⟩
      · rintro ⟨e, he | he, hse⟩
        · exact ⟨e, he, hse⟩
        · cases he; exact absurd ⟨hi, hse.symm⟩ hc
  · intro i s
    rw [hcell]
    split
    · rename_i hc
      rw [List.pairwise_append]
      refine ⟨h.sorted i s, by simp, ?_⟩
      intro a ha b hb
      simp only [List.mem_singleton] at hb
      subst hb
      obtain ⟨e, he, _⟩ := (h.mem i s a hc.1 (by rw [hc.2]; exact slot_le hv i)).mp ha
      exact h.lt a e he
    · exact h.sorted i s
  · intro id e he
    rw [hC]
    simp only [specInsert, List.mem_append, List.mem_singleton] at he
    rcases he with he | he
    · have := h.lt id e he; omega
    · cases he; omega
  · simp only [specInsert, List.map_append, List.map_cons, List.map_nil, List.pairwise_append]
    refine ⟨h.asc, by simp, ?_⟩
    intro a ha b hb
    simp only [List.mem_singleton] at hb
    subst hb
    obtain ⟨⟨id, e⟩, hx, rfl⟩ := List.mem_map.mp ha
    exact h.lt id e hx
  · intro id e he
    rw [hF]
    simp only [specInsert, List.mem_append, List.mem_singleton] at he
    rcases he with he | he
    · exact h.valid id e he
    · cases he; exact hv


theorem eraseLB_nil (id : Nat) : eraseLB id [] = ([], false) := rfl

theorem eraseLB_cons_lt {id x : Nat} (xs : List Nat) (h : x < id) :
    eraseLB id (x :: xs) = (x :: (eraseLB id xs).1, (eraseLB id xs).2) := by
  simp only [eraseLB, lowerBound, if_pos h]
  cases hlb : lowerBound id xs with
  | mk pre post =>
    cases post with
    | nil => rfl
    | cons y post =>
      simp only
      by_cases hy : y = id
      · simp [hy]
      · simp [hy]

theorem eraseLB_cons_eq (id : Nat) (xs : List Nat) : eraseLB id (id :: xs) = (xs, true) := by
  simp [eraseLB, lowerBound]

theorem eraseLB_cons_gt {id x : Nat} (xs : List Nat) (h : id < x) : eraseLB id (x :: xs) = (x :: xs, false) := by
  have h1 : ¬ x < id := by omega
  have h2 : ¬ x = id := by omega
  simp [eraseLB, lowerBound, h1, h2]

/-- on an ascending list `lower_bound`-erase removes exactly the id -/
theorem eraseLB_sorted (id : Nat) (l : List Nat) (hs : l.Pairwise (· < ·)) :
    (eraseLB id l).1 = l.filter (fun x => x != id) ∧ ((eraseLB id l).2 = true ↔ id ∈ l) := by
  induction l with
  | nil => simp [eraseLB_nil]
  | cons x xs ih =>
    rw [List.pairwise_cons] at hs
    rcases Nat.lt_trichotomy x id with hlt | heq | hgt
    · rw [eraseLB_cons_lt xs hlt]
      obtain ⟨ih1, ih2⟩ := ih hs.2
      have hne : (x != id) = true := by simp; omega
      refine ⟨by simp only [List.filter_cons, hne, if_true, ih1], ?_⟩
      rw [ih2, List.mem_cons]
      constructor
      · exact Or.inr
      · rintro (h | h)
        · omega
        · exact h
    · subst heq
      rw [eraseLB_cons_eq]
      refine ⟨?_, by simp⟩
      have : (x != x) = false := by simp
      simp only [List.filter_cons, this, Bool.false_eq_true, if_false]
      symm
      rw [List.filter_eq_self]
      intro a ha
      have := hs.1 a ha
      simp; omega
    · rw [eraseLB_cons_gt xs hgt]
      have hnot : id ∉ x :: xs := by
        intro hm
        rcases List.mem_cons.mp hm with h | h
        · omega
        · have := hs.1 id h; omega
      refine ⟨?_, by simp [hnot]⟩
      symm
      rw [List.filter_eq_self]
      intro a ha
      have : a ≠ id := fun h => hnot (h ▸ ha)
      simp [this]

theorem filter_ne_of_not_mem {id : Nat} {l : List Nat} (h : id ∉ l) : l.filter (fun x => x != id) = l := by
  rw [List.filter_eq_self]
  intro a ha
  have : a ≠ id := fun h' => h (h' ▸ ha)
  simp [this]

/-- if the id is in at most one list of the row, `Trie::erase(id)`'s scan-and-stop equals erasing it everywhere -/
theorem eraseRowRev_eq (id : Nat) (r : Row) (hs : ∀ c ∈ r, c.Pairwise (· < ·))
    (h1 : r.Pairwise (fun c c' => ¬ (id ∈ c ∧ id ∈ c'))) :
    eraseRowRev id r = r.map (fun c => c.filter (fun x => x != id)) := by
  induction r with
  | nil => rfl
  | cons c cs ih =>
    rw [List.pairwise_cons] at h1
    obtain ⟨e1, e2⟩ := eraseLB_sorted id c (hs c (List.mem_cons_self ..))
    simp only [eraseRowRev, List.map_cons]
    by_cases hm : id ∈ c
    · rw [if_pos (e2.mpr hm), e1]
      congr 1
      symm
      have : List.map (fun c => List.filter (fun x => x != id) c) cs = List.map (fun c => c) cs := by
        apply List.map_congr_left
        intro c' hc'
        exact filter_ne_of_not_mem (fun h' => h1.1 c' hc' ⟨hm, h'⟩)
      rw [this, List.map_id']
    · have : ¬ (eraseLB id c).2 = true := fun h' => hm (e2.mp h')
      rw [if_neg this, filter_ne_of_not_mem hm, ih (fun c' hc' => hs c' (List.mem_cons_of_mem _ hc')) h1.2]


theorem getD_map_nil {α β} (l : List (List α)) (g : List α → List β) (hg : g [] = []) (i : Nat) :
    (l.map g).getD i [] = g (l.getD i []) := by
  simp only [List.getD_eq_getElem?_getD, List.getElem?_map]
  cases l[i]? with
  | none => simp [hg]
  | some a => simp

theorem mem_row_cell {ids : Ids} {i : Nat} {c : List Nat} (h : c ∈ row ids i) : ∃ s, s < (row ids i).length ∧ c = cell ids i s := by
  obtain ⟨s, hs, rfl⟩ := List.getElem_of_mem h
  exact ⟨s, hs, by simp [cell, List.getD_eq_getElem?_getD, List.getElem?_eq_getElem hs]⟩

/-- under the invariant an id sits in at most one list of a row -/
theorem RI.row_atMostOne {t : T} {es : Spec} (h : RI t es) (id i : Nat) :
    (row t.ids i).Pairwise (fun c c' => ¬ (id ∈ c ∧ id ∈ c')) := by
  rw [List.pairwise_iff_getElem]
  intro a b ha hb hab ⟨h1, h2⟩
  by_cases hi : i < t.F.length
  · have hlen := h.shape.2 i hi
    have ca : (row t.ids i)[a] = cell t.ids i a := by simp [cell, List.getD_eq_getElem?_getD, List.getElem?_eq_getElem ha]
    have cb : (row t.ids i)[b] = cell t.ids i b := by simp [cell, List.getD_eq_getElem?_getD, List.getElem?_eq_getElem hb]
    rw [ca] at h1; rw [cb] at h2
    obtain ⟨e, he, hse⟩ := (h.mem i a id hi (by omega)).mp h1
    obtain ⟨e', he', hse'⟩ := (h.mem i b id hi (by omega)).mp h2
    have := h.unique he he'
    subst this
    omega
  · have : row t.ids i = [] := by
      simp only [row, List.getD_eq_getElem?_getD]
      rw [List.getElem?_eq_none (by rw [h.shape.1]; omega)]; rfl
    rw [this] at ha
    simp at ha

theorem erase_cells {t : T} {es : Spec} (h : RI t es) (id i s : Nat) :
    row (t.erase id).ids i = (row t.ids i).map (fun c => c.filter (fun x => x != id)) ∧
    cell (t.erase id).ids i s = (cell t.ids i s).filter (fun x => x != id) := by
  have hrow : row (t.erase id).ids i = (row t.ids i).map (fun c => c.filter (fun x => x != id)) := by
    simp only [T.erase, row]
    rw [getD_map_nil _ _ (by simp [eraseRowRev])]
    rw [eraseRowRev_eq id _ (fun c hc => by
        obtain ⟨s, _, rfl⟩ := mem_row_cell (List.mem_reverse.mp hc)
        exact h.sorted i s)
      (by
        rw [List.pairwise_reverse]
        exact (h.row_atMostOne id i).imp (fun hh => fun ⟨x, y⟩ => hh ⟨y, x⟩))]
    rw [← List.map_reverse, List.reverse_reverse]
  refine ⟨hrow, ?_⟩
  simp only [cell, hrow]
  exact getD_map_nil _ _ (by simp) s

theorem RI_erase {t : T} {es : Spec} (h : RI t es) (id : Nat) : RI (t.erase id) (specErase es id) := by
  have hF : (t.erase id).F = t.F := rfl
  have hC : (t.erase id).counter = t.counter := rfl
  refine ⟨⟨?_, ?_⟩, ?_, ?_, ?_, ?_, ?_⟩
  · simp [T.erase, h.shape.1]
  · intro i hi
    rw [(erase_cells h id i 0).1, List.length_map]
    exact h.shape.2 i hi
  · intro i s id' hi hs
    rw [(erase_cells h id i s).2, List.mem_filter, h.mem i s id' hi hs]
    simp only [specErase, List.mem_filter, hF]
    constructor
    · rintro ⟨⟨e, he, hse⟩, hne⟩; exact ⟨e, ⟨he, hne⟩, hse⟩
    · rintro ⟨e, ⟨he, hne⟩, hse⟩; exact ⟨⟨e, he, hse⟩, hne⟩
  · intro i s
    rw [(erase_cells h id i s).2]
    exact (h.sorted i s).filter _
  · intro id' e he
    exact h.lt id' e (List.mem_filter.mp he).1
  · exact h.asc.sublist ((List.filter_sublist).map _)
  · intro id' e he
    exact h.valid id' e (List.mem_filter.mp he).1


theorem modify_congr' {α} (l : List α) (i : Nat) (f g : α → α) (h : ∀ a, l[i]? = some a → f a = g a) :
    l.modify i f = l.modify i g := by
  induction l generalizing i with
  | nil => simp
  | cons x xs ih =>
    cases i with
    | zero => simp only [List.modify_zero_cons]; rw [h x (by simp)]
    | succ i => simp only [List.modify_succ_cons]; rw [ih i (fun a ha => h a (by simpa using ha))]

theorem modCell_const (ids : Ids) (i s : Nat) (g : List Nat → List Nat) :
    modCell ids i s (fun _ => g (cell ids i s)) = modCell ids i s g := by
  unfold modCell
  apply modify_congr'
  intro r hr
  apply modify_congr'
  intro a ha
  simp only [cell, row, List.getD_eq_getElem?_getD, hr, ha, Option.getD_some]

theorem eraseLBTail_true (id : Nat) (l : List Nat) : eraseLBTail true id l = some (eraseLB id l).1 := by
  unfold eraseLBTail eraseLB
  cases lowerBound id l with
  | mk pre post =>
    cases post with
    | nil => rfl
    | cons x post => simp only; split <;> rfl

theorem eraseTailAt_true (id : Nat) (ids : Ids) (vis : Nat × Option Nat) :
    eraseTailAt true id (some ids) vis = some (eraseAt id ids vis) := by
  simp only [eraseTailAt, eraseLBTail_true, eraseAt]
  rw [modCell_const ids vis.1 _ (fun l => (eraseLB id l).1)]

theorem fold_eraseTailAt_true (id : Nat) (vs : List (Nat × Option Nat)) (ids : Ids) :
    vs.foldl (eraseTailAt true id) (some ids) = some (vs.foldl (eraseAt id) ids) := by
  induction vs generalizing ids with
  | nil => rfl
  | cons v vs ih => simp only [List.foldl_cons, eraseTailAt_true, ih]

/-- cell-level effect of the guarded `Trie::erase(id, pf)` -/
theorem erasePF_cells (t : T) (id : Nat) (pf : PF) (hS : Shape t.F t.ids) (hv : ValidPF t.F pf) :
    ∃ t', t.erasePF true id pf = some t' ∧ t'.F = t.F ∧ t'.counter = t.counter ∧ Shape t.F t'.ids ∧
    ∀ i s, cell t'.ids i s =
      if i < t.F.length ∧ s = slot t.F pf i then (eraseLB id (cell t.ids i s)).1 else cell t.ids i s := by
  have hw := walk_spec t.F.length pf 0 hv.1 (fun kv hkv => (hv.2 kv hkv).1) (Nat.zero_le _)
  have hf := fold_applyAt t.F (fun l => (eraseLB id l).1) (fun i => lookup pf i)
    (fun i _ => slot_le hv i) t.F.length 0 t.ids hS (by omega)
  have he : t.erasePF true id pf = some { t with ids := ((List.range' 0 t.F.length).map (fun i => (i, lookup pf i))).foldl (applyAt (fun l => (eraseLB id l).1)) t.ids } := by
    simp only [T.erasePF, fold_eraseTailAt_true, ← List.foldl_append, hw, eraseAt_eq, Nat.sub_zero]
  refine ⟨_, he, rfl, rfl, hf.1, fun i s => ?_⟩
  simp only
  rw [hf.2 i s]
  unfold slot
  by_cases hc : i < t.F.length ∧ s = slotOf t.F i (lookup pf i)
  · rw [if_pos hc, if_pos ⟨Nat.zero_le _, by omega, hc.2⟩]
  · rw [if_neg hc, if_neg (fun hh => hc ⟨by omega, hh.2.2⟩)]

/-- `erase(id, key)` preserves the invariant when `key` is the key the id was stored with, or
    the id is not stored at all (never issued / already erased) -/
theorem RI_erasePF {t : T} {es : Spec} (h : RI t es) (id : Nat) {pf : PF} (hv : ValidPF t.F pf)
    (hkey : ∀ e, (id, e) ∈ es → e = pf) :
    ∃ t', t.erasePF true id pf = some t' ∧ RI t' (specErase es id) := by
  obtain ⟨t', he, hF, hC, hS, hcell⟩ := erasePF_cells t id pf h.shape hv
  refine ⟨t', he, ?_⟩
  have hcell' : ∀ i s, i < t.F.length → s ≤ t.F.getD i 0 → cell t'.ids i s = (cell t.ids i s).filter (fun x => x != id) := by
    intro i s hi hs
    rw [hcell]
    split
    · exact (eraseLB_sorted id _ (h.sorted i s)).1
    · rename_i hc
      symm
      apply filter_ne_of_not_mem
      intro hm
      obtain ⟨e, hee, hse⟩ := (h.mem i s id hi hs).mp hm
      have := hkey e hee
      subst this
      exact hc ⟨hi, hse.symm⟩
  refine ⟨by rw [hF]; exact hS, ?_, ?_, ?_, ?_, ?_⟩
  · intro i s id' hi hs
    rw [hF] at hi hs
    rw [hcell' i s hi hs, List.mem_filter, h.mem i s id' hi hs]
    simp only [specErase, List.mem_filter, hF]
    constructor
    · rintro ⟨⟨e, he, hse⟩, hne⟩; exact ⟨e, ⟨he, hne⟩, hse⟩
    · rintro ⟨e, ⟨he, hne⟩, hse⟩; exact ⟨⟨e, he, hse⟩, hne⟩
  · intro i s
    rw [hcell]
    split
    · rw [(eraseLB_sorted id _ (h.sorted i s)).1]; exact (h.sorted i s).filter _
    · exact h.sorted i s
  · intro id' e he
    rw [hC]; exact h.lt id' e (List.mem_filter.mp he).1
  · exact h.asc.sublist ((List.filter_sublist).map _)
  · intro id' e he
    rw [hF]; exact h.valid id' e (List.mem_filter.mp he).1

end AITB.Trie
