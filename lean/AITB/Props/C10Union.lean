/-
  AITB.Props.C10Union — `set_union_inplace` (Utils/Core.hpp) as written computes the strictly sorted union of two strictly sorted
  vectors, for ALL operands (functional counterpart of `setUnion_no_realloc`).  The difference pass of libstdc++'s `set_difference`
  is the same suffix scan as FactorGraph's neighbour loop without the skipped variable.
-/
import AITB.Props.C10Util
import AITB.Props.C10FG

namespace AITB.CursorUtil
open AITB.FGCursor

theorem le_sum_of_mem : ∀ (l : List Nat) (x : Nat), x ∈ l → x ≤ l.sum := by
  intro l
  induction l with
  | nil => intro x h; simp at h
  | cons a t ih =>
    intro x h
    rcases List.mem_cons.mp h with e | e
    · subst e; simp
    · have := ih x e; simp; omega

/-- the cursor loop of `set_difference(rhs, lhs[0,mid)) → back_inserter(lhs)` computes the suffix scan (for any `a` that is not an
    element of `rhs`), provided the capacity covers both operands -/
theorem setDiffLoop_eq_rec (rhs lhs : List Nat) (a cap : Nat) (ha : a ∉ rhs) (hcap : lhs.length + rhs.length ≤ cap) :
    ∀ (fuel i j : Nat) (p : List Nat), i ≤ rhs.length → j ≤ lhs.length → p.length ≤ i → (rhs.length - i) + (lhs.length - j) < fuel →
      setDiffLoop rhs lhs.length cap fuel i j (lhs ++ p) = some (lhs ++ p ++ recPush a (rhs.drop i) (lhs.drop j)) := by
  intro fuel
  induction fuel with
  | zero => intro i j p _ _ _ h; omega
  | succ fuel ih =>
    intro i j p hi hj hp hf
    unfold setDiffLoop
    by_cases h1 : i < rhs.length
    · have ev : rhs[i]? = some rhs[i] := List.getElem?_eq_getElem h1
      have dv : rhs.drop i = rhs[i] :: rhs.drop (i+1) := List.drop_eq_getElem_cons h1
      have hxa : rhs[i] ≠ a := fun e => ha (e ▸ List.getElem_mem h1)
      have hpush : pushLive (lhs ++ p) cap rhs[i] = some (lhs ++ (p ++ [rhs[i]])) := by
        unfold pushLive; rw [if_pos (by simp; omega), List.append_assoc]
      simp only [h1, if_true]
      by_cases hjm : j < lhs.length
      · have eo : (lhs ++ p)[j]? = some lhs[j] := by rw [List.getElem?_append_left hjm]; exact List.getElem?_eq_getElem hjm
        have dl : lhs.drop j = lhs[j] :: lhs.drop (j+1) := List.drop_eq_getElem_cons hjm
        simp only [hjm, if_true, ev, eo]
        by_cases hlt : rhs[i] < lhs[j]
        · simp only [hlt, if_true, hpush, Option.bind_some]
          rw [ih (i+1) j (p ++ [rhs[i]]) (by omega) hj (by simp; omega) (by omega), dv, dl, recPush, if_neg hxa, if_pos hlt]
          simp
        · simp only [hlt, if_false]
          by_cases hgt : lhs[j] < rhs[i]
          · simp only [hgt, if_true]
            have hne : rhs[i] ≠ lhs[j] := by omega
            rw [ih i (j+1) p hi (by omega) hp (by omega), dv, dl, recPush, if_neg hxa, if_neg hlt, if_neg hne]
          · simp only [hgt, if_false]
            have heq : rhs[i] = lhs[j] := by omega
            rw [ih (i+1) (j+1) p (by omega) (by omega) (by omega) (by omega), dv, dl, recPush, if_neg hxa, if_neg hlt, if_pos heq]
      · have hj' : j = lhs.length := by omega
        simp only [hjm, if_false, ev, hpush, Option.bind_some]
        rw [ih (i+1) j (p ++ [rhs[i]]) (by omega) hj (by simp; omega) (by omega), dv, hj', List.drop_length, recPush, if_neg hxa]
        simp
    · simp only [h1, if_false]
      have : rhs.drop i = [] := List.drop_eq_nil_of_le (by omega)
      rw [this]; simp [recPush]

/-- **setUnion_is_sorted_union** — for ALL strictly sorted operands and any reserved capacity of at least `lhs.size() + rhs.size()`,
    `set_union_inplace` succeeds (no reallocation under the cursors, no read outside) and leaves in `lhs` the strictly sorted,
    duplicate-free union of the two sets. -/
theorem setUnion_is_sorted_union (lhs rhs : List Nat) (cap : Nat) (hl : SS lhs) (hr : SS rhs) (hcap : lhs.length + rhs.length ≤ cap) :
    ∃ out, setUnionInplace lhs rhs cap = some out ∧ SS out ∧ ∀ z, z ∈ out ↔ (z ∈ lhs ∨ z ∈ rhs) := by
  have ha : rhs.sum + 1 ∉ rhs := fun h => by have := le_sum_of_mem rhs _ h; omega
  have hloop := setDiffLoop_eq_rec rhs lhs (rhs.sum + 1) (max cap lhs.length) ha (by omega) (lhs.length + rhs.length + 1) 0 0 []
    (by omega) (by omega) (by simp) (by omega)
  simp only [List.append_nil, List.drop_zero] at hloop
  obtain ⟨hs, hm⟩ := recPush_spec (rhs.sum + 1) _ rhs lhs (Nat.le_refl _) hr hl
  refine ⟨_, by unfold setUnionInplace; simp only []; rw [hloop]; rfl, ?_, ?_⟩
  · show SS (List.merge (List.take lhs.length (lhs ++ recPush (rhs.sum + 1) rhs lhs)) (List.drop lhs.length (lhs ++ recPush (rhs.sum + 1) rhs lhs)) (fun a b => decide (a ≤ b)))
    rw [List.take_left, List.drop_left]
    have hle : (List.merge lhs (recPush (rhs.sum + 1) rhs lhs) (fun x y => decide (x ≤ y))).Pairwise (fun x y => decide (x ≤ y) = true) :=
      List.pairwise_merge (fun a b c h1 h2 => by simp at *; omega) (fun a b => by simp; omega) lhs _
        (List.Pairwise.imp (fun h => by simp; omega) hl) (List.Pairwise.imp (fun h => by simp; omega) hs)
    have hnd : (List.merge lhs (recPush (rhs.sum + 1) rhs lhs) (fun x y => decide (x ≤ y))).Nodup := by
      rw [List.Perm.nodup_iff (List.merge_perm_append _), List.nodup_append]
      refine ⟨ss_nodup hl, ss_nodup hs, ?_⟩
      intro x hx y hy e
      subst e
      exact ((hm x).mp hy).2.2 hx
    exact List.Pairwise.imp (fun {x y} h => by have h1 := h.1; have h2 := h.2; simp at h1; omega) (List.Pairwise.and hle hnd)
  · intro z
    show z ∈ List.merge (List.take lhs.length (lhs ++ recPush (rhs.sum + 1) rhs lhs)) (List.drop lhs.length (lhs ++ recPush (rhs.sum + 1) rhs lhs)) (fun a b => decide (a ≤ b)) ↔ _
    rw [List.take_left, List.drop_left, List.mem_merge, hm]
    constructor
    · rintro (h | ⟨h1, _, _⟩)
      · exact Or.inl h
      · exact Or.inr h1
    · rintro (h | h1)
      · exact Or.inl h
      · by_cases hz : z ∈ lhs
        · exact Or.inl hz
        · exact Or.inr ⟨h1, fun e => ha (e ▸ h1), hz⟩

example : SS [1, 4] ∧ SS [2, 4, 7] := by constructor <;> decide

end AITB.CursorUtil
