/-
  AITB.Props.C12Pruner — property theorems about the model of `Pruner::operator()`
  (`findBest`, `takeOut`, `cornersLoop`, `prunerLoop` of AITB.Model.Prune), the witness LP being an
  oracle parameter constrained only by its contract.  Unbounded: any number of vectors, any dimension.

  Core Lean only (core `Rat` is a linear order; `grind` does the order reasoning).
  The literal tests use `decide +kernel` (plain kernel evaluation, no extra axioms) because core `Rat.add`/`Rat.div`
  do not unfold under the elaborator's `decide`.
-/
import AITB.Props.C12Defs

namespace AITB.Prune

/-! ## A. `findBest` is an argmax that lies in range -/

/-- invariant of the scan: `pre` = already visited entries, `bi` indexes a maximum of `score` over `pre`
    whose score is `bv` (the tie-break vector `bvec` is irrelevant for the argmax property) -/
theorem findBestFrom_spec (score : Vec → Rat) : ∀ (vs pre : List Vec) (bi : Nat) (bv : Rat) (bvec : Vec),
    bi < pre.length → bv = score (pre.getD bi []) → (∀ v ∈ pre, score v ≤ bv) →
    findBestFrom score vs pre.length bi bv bvec < (pre ++ vs).length ∧
      ∀ v ∈ pre ++ vs, score v ≤ score ((pre ++ vs).getD (findBestFrom score vs pre.length bi bv bvec) [])
  | [], pre, bi, bv, bvec, hbi, hbv, hmax => by
    simp only [findBestFrom, List.append_nil]
    exact ⟨hbi, fun v hv => hbv ▸ hmax v hv⟩
  | v :: vs, pre, bi, bv, bvec, hbi, hbv, hmax => by
    have hlen : (pre ++ [v]).length = pre.length + 1 := by simp
    have happ : pre ++ v :: vs = (pre ++ [v]) ++ vs := by simp
    simp only [findBestFrom]
    split
    · rename_i hc
      have hge : bv ≤ score v := by
        rcases Bool.or_eq_true _ _ ▸ hc with h | h
        · have := of_decide_eq_true h; grind
        · have h1 := (Bool.and_eq_true _ _ ▸ h).1
          have : score v = bv := by simpa using h1
          grind
      have ih := findBestFrom_spec score vs (pre ++ [v]) pre.length (score v) v
        (by rw [hlen]; omega) (by simp)
        (by
          intro x hx
          rcases List.mem_append.mp hx with hx | hx
          · exact Rat.le_trans (hmax x hx) hge
          · simp at hx; subst hx; exact Rat.le_refl)
      rw [hlen] at ih; rw [happ]; exact ih
    · rename_i hc
      have hle : score v ≤ bv := by
        have h1 : ¬ (bv < score v) := by
          intro h; apply hc; simp [h]
        exact Rat.not_lt.mp h1
      have ih := findBestFrom_spec score vs (pre ++ [v]) bi bv bvec
        (by rw [hlen]; omega)
        (by rw [hbv]; congr 1; simp [List.getD, List.getElem?_append_left hbi])
        (by
          intro x hx
          rcases List.mem_append.mp hx with hx | hx
          · exact hmax x hx
          · simp at hx; subst hx; exact hle)
      rw [hlen] at ih; rw [happ]; exact ih

theorem findBest_lt (score : Vec → Rat) (l : List Vec) (h : l ≠ []) : findBest score l < l.length := by
  cases l with
  | nil => exact absurd rfl h
  | cons v vs =>
    have := (findBestFrom_spec score vs [v] 0 (score v) v (by simp) (by simp)
      (by intro x hx; simp at hx; subst hx; exact Rat.le_refl)).1
    simpa [findBest] using this

theorem findBest_max (score : Vec → Rat) (l : List Vec) (h : l ≠ []) :
    ∀ v ∈ l, score v ≤ score (l.getD (findBest score l) []) := by
  cases l with
  | nil => exact absurd rfl h
  | cons v vs =>
    have := (findBestFrom_spec score vs [v] 0 (score v) v (by simp) (by simp)
      (by intro x hx; simp at hx; subst hx; exact Rat.le_refl)).2
    simpa [findBest] using this

/-- test: literal list with ties (entries 1 and 3 both score 5; the lexicographically larger one wins) -/
example : findBest (fun v => v.getD 0 0) [[1, 0], [5, 1], [2, 9], [5, 2], [5, 0]] = 3 := by decide

/-! ## B. `takeOut` is "remove element j" -/

theorem set_perm {α} (d h : α) : ∀ (tl : List α) (j : Nat), j < tl.length →
    List.Perm (tl.getD j d :: tl.set j h) (h :: tl)
  | [], _, hj => by simp at hj
  | a :: t, 0, _ => by simpa using List.Perm.swap h a t
  | a :: t, j+1, hj => by
    have ih := set_perm d h t j (by simpa using hj)
    have h1 : List.Perm (t.getD j d :: a :: t.set j h) (a :: t.getD j d :: t.set j h) := List.Perm.swap ..
    have h2 : List.Perm (a :: t.getD j d :: t.set j h) (a :: h :: t) := List.Perm.cons a ih
    have h3 : List.Perm (a :: h :: t) (h :: a :: t) := List.Perm.swap ..
    simpa using h1.trans (h2.trans h3)

theorem takeOut_perm {α} (rest : List α) (j : Nat) (d : α) (h : j < rest.length) :
    List.Perm (rest.getD j d :: takeOut rest j) rest := by
  cases rest with
  | nil => simp at h
  | cons a tl =>
    cases j with
    | zero => simp [takeOut]
    | succ j =>
      have := set_perm d a tl j (by simpa using h)
      simpa [takeOut] using this

theorem takeOut_length {α} (rest : List α) (j : Nat) (h : j < rest.length) :
    (takeOut rest j).length + 1 = rest.length := by
  cases rest with
  | nil => simp at h
  | cons a tl => simpa using (takeOut_perm (a :: tl) j a h).length_eq

/-- moving element `j` of `r` to the end of `b` only permutes the array `b ++ r` -/
theorem move_perm {α} (b r : List α) (j : Nat) (d : α) (h : j < r.length) :
    List.Perm ((b ++ [r.getD j d]) ++ takeOut r j) (b ++ r) := by
  have : (b ++ [r.getD j d]) ++ takeOut r j = b ++ (r.getD j d :: takeOut r j) := by simp
  rw [this]
  exact List.Perm.append_left b (takeOut_perm r j d h)

/-! ## C. `cornersLoop` only moves elements -/

/-- the index picked in `b ++ r`, when it falls into `r`, is a valid index of `r` and names the same vector -/
theorem pick_in_rest (b r : List Vec) (idx : Nat) (hlt : idx < (b ++ r).length) (hge : b.length ≤ idx) :
    idx - b.length < r.length ∧ r.getD (idx - b.length) [] = (b ++ r).getD idx [] := by
  refine ⟨by simp at hlt; omega, ?_⟩
  simp [List.getD, List.getElem?_append_right hge]

/-- deviation from the requested statement: the hypothesis `b ++ r ≠ []` is necessary, because on the
    empty array (which the C++ code never passes) `findBest` answers index 0 and the model fabricates
    the default vector `[]`:  `cornersLoop [0] [] [] = ([[]], [])`. -/
theorem cornersLoop_perm : ∀ (cs : List Nat) (b r : List Vec), b ++ r ≠ [] →
    List.Perm ((cornersLoop cs b r).1 ++ (cornersLoop cs b r).2) (b ++ r)
  | [], b, r, _ => by simp [cornersLoop]
  | s :: ss, b, r, hne => by
    simp only [cornersLoop]
    split
    · rename_i hge
      have hlt := findBest_lt (fun v => v.getD s 0) (b ++ r) hne
      obtain ⟨hj, _⟩ := pick_in_rest b r _ hlt hge
      have hp := move_perm b r _ ([] : Vec) hj
      have hne' : (b ++ [r.getD (findBest (fun v => v.getD s 0) (b ++ r) - b.length) []]) ++
          takeOut r (findBest (fun v => v.getD s 0) (b ++ r) - b.length) ≠ [] := by simp
      exact (cornersLoop_perm ss _ _ hne').trans hp
    · exact cornersLoop_perm ss b r hne

/-- the example that makes the hypothesis of `cornersLoop_perm` necessary -/
example : cornersLoop [0] [] [] = ([[]], []) := by decide

theorem cornersLoop_best_mono : ∀ (cs : List Nat) (b r : List Vec), ∀ g ∈ b, g ∈ (cornersLoop cs b r).1
  | [], b, r, g, hg => by simpa [cornersLoop] using hg
  | s :: ss, b, r, g, hg => by
    simp only [cornersLoop]
    split
    · exact cornersLoop_best_mono ss _ _ g (List.mem_append_left _ hg)
    · exact cornersLoop_best_mono ss b r g hg

set_option linter.unusedVariables false in
/-- every vector newly put into the useful range is best at the corner that selected it, among ALL
    vectors of the array -/
theorem cornersLoop_witness (n : Nat) : ∀ (cs : List Nat) (b r : List Vec) (hne : b ++ r ≠ []),
    ∀ g ∈ (cornersLoop cs b r).1, g ∈ b ∨ ∃ s ∈ cs, ∀ x ∈ b ++ r, x.getD s 0 ≤ g.getD s 0
  | [], b, r, _, g, hg => by left; simpa [cornersLoop] using hg
  | s :: ss, b, r, hne, g, hg => by
    simp only [cornersLoop] at hg
    split at hg
    · rename_i hge
      have hlt := findBest_lt (fun v => v.getD s 0) (b ++ r) hne
      have hmax := findBest_max (fun v => v.getD s 0) (b ++ r) hne
      obtain ⟨hj, hsel⟩ := pick_in_rest b r _ hlt hge
      have hp := move_perm b r _ ([] : Vec) hj
      rcases cornersLoop_witness n ss _ _ (by simp) g hg with h | ⟨s', hs', h⟩
      · rcases List.mem_append.mp h with h | h
        · exact Or.inl h
        · right
          refine ⟨s, List.mem_cons_self .., ?_⟩
          simp only [List.mem_singleton] at h
          rw [h, hsel]
          exact hmax
      · right
        exact ⟨s', List.mem_cons_of_mem _ hs', fun x hx => h x (hp.mem_iff.mpr hx)⟩
    · rcases cornersLoop_witness n ss b r hne g hg with h | ⟨s', hs', h⟩
      · exact Or.inl h
      · exact Or.inr ⟨s', List.mem_cons_of_mem _ hs', h⟩

/-! ### the corner `s` is the belief `unitVec n s`: `dot (unitVec n s) x = x.getD s 0` -/

def uvFrom (s off len : Nat) : Vec := (List.range' off len).map (fun i => if i = s then (1 : Rat) else 0)

theorem unitVec_eq (n s : Nat) : unitVec n s = uvFrom s 0 n := by
  simp [unitVec, uvFrom, List.range_eq_range']

theorem dot_uvFrom (s : Nat) : ∀ (len off : Nat) (x : Vec),
    dot (uvFrom s off len) x = if off ≤ s ∧ s < off + len then x.getD (s - off) 0 else 0
  | 0, off, x => by
    have : ¬ (off ≤ s ∧ s < off + 0) := by omega
    rw [if_neg this]; simp [uvFrom, dot]
  | len+1, off, [] => by simp [uvFrom, dot, List.range'_succ]
  | len+1, off, a :: as => by
    have ih := dot_uvFrom s len (off+1) as
    simp only [uvFrom] at ih ⊢
    simp only [List.range'_succ, List.map_cons, dot, ih]
    by_cases h : off = s
    · subst h
      have : ¬ (off + 1 ≤ off ∧ off < off + 1 + len) := by omega
      simp [this]; grind
    · by_cases h2 : off + 1 ≤ s ∧ s < off + 1 + len
      · have h3 : off ≤ s ∧ s < off + (len + 1) := by omega
        have h4 : s - off = (s - (off + 1)) + 1 := by omega
        simp only [h, h2, h3, if_true, if_false, and_self]
        rw [h4, List.getD_cons_succ]; grind
      · have h3 : ¬ (off ≤ s ∧ s < off + (len + 1)) := by omega
        simp only [h, h2, h3, if_false]; grind

theorem sumL_uvFrom (s : Nat) : ∀ (len off : Nat),
    Interp.sumL (uvFrom s off len) = if off ≤ s ∧ s < off + len then 1 else 0
  | 0, off => by
    have : ¬ (off ≤ s ∧ s < off + 0) := by omega
    rw [if_neg this]; simp [uvFrom, Interp.sumL]
  | len+1, off => by
    have ih := sumL_uvFrom s len (off+1)
    simp only [uvFrom] at ih ⊢
    simp only [List.range'_succ, List.map_cons, Interp.sumL, ih]
    by_cases h : off = s
    · subst h
      have : ¬ (off + 1 ≤ off ∧ off < off + 1 + len) := by omega
      have h3 : off ≤ off ∧ off < off + (len + 1) := by omega
      simp only [this, h3, if_true, if_false]; grind
    · by_cases h2 : off + 1 ≤ s ∧ s < off + 1 + len
      · have h3 : off ≤ s ∧ s < off + (len + 1) := by omega
        simp only [h, h2, h3, if_true, if_false, and_self]; grind
      · have h3 : ¬ (off ≤ s ∧ s < off + (len + 1)) := by omega
        simp only [h, h2, h3, if_false]; grind

theorem unitVec_isBelief (n s : Nat) (h : s < n) : IsBelief n (unitVec n s) := by
  refine ⟨by simp [unitVec], ?_, ?_⟩
  · intro x hx
    simp only [unitVec, List.mem_map] at hx
    obtain ⟨i, _, rfl⟩ := hx
    split <;> grind
  · rw [unitVec_eq, sumL_uvFrom]
    simp [h]

theorem dot_unitVec (n s : Nat) (h : s < n) (x : Vec) : dot (unitVec n s) x = x.getD s 0 := by
  rw [unitVec_eq, dot_uvFrom]
  simp [h]

/-- `cornersLoop_witness` read on the simplex: with corners `cs ⊆ [0, n)`, every vector newly put into the
    useful range is best, at some belief (a simplex corner), among ALL vectors of the array -/
theorem cornersLoop_witness_belief (n : Nat) (cs : List Nat) (b r : List Vec) (hne : b ++ r ≠ [])
    (hcs : ∀ s ∈ cs, s < n) :
    ∀ g ∈ (cornersLoop cs b r).1, g ∈ b ∨ ∃ w, IsBelief n w ∧ ∀ x ∈ b ++ r, dot w x ≤ dot w g := by
  intro g hg
  rcases cornersLoop_witness n cs b r hne g hg with h | ⟨s, hs, h⟩
  · exact Or.inl h
  · refine Or.inr ⟨unitVec n s, unitVec_isBelief n s (hcs s hs), fun x hx => ?_⟩
    rw [dot_unitVec n s (hcs s hs), dot_unitVec n s (hcs s hs)]
    exact h x hx

/-! ## D. `prunerLoop`: the main loop of `Pruner::operator()` against an oracle with a contract -/

theorem getLast?_some_split {α} {r : List α} {v : α} (h : r.getLast? = some v) :
    r = r.dropLast ++ [v] ∧ r ≠ [] := by
  have hne : r ≠ [] := by intro h0; subst h0; simp at h
  refine ⟨?_, hne⟩
  have h1 := List.getLast?_eq_some_getLast hne
  have h2 : r.getLast hne = v := by rw [h1] at h; exact Option.some.inj h
  rw [← h2]; exact (List.dropLast_concat_getLast hne).symm

section loop
variable (oracle : List Vec → Vec → Option Vec)

/-- the loop only moves elements (the fuel hypothesis is not needed for this clause) -/
theorem prunerLoop_perm : ∀ (k : Nat) (b r rem : List Vec), r.length ≤ k →
    List.Perm ((prunerLoop oracle k b r rem).1 ++ (prunerLoop oracle k b r rem).2) (b ++ r ++ rem)
  | 0, b, r, rem, _ => by simp [prunerLoop]
  | k+1, b, r, rem, _ => by
    simp only [prunerLoop]
    split
    · rename_i hnone
      have : r = [] := by simpa using hnone
      subst this; simp
    · rename_i v hv
      obtain ⟨hsplit, hne⟩ := getLast?_some_split hv
      split
      · rename_i w _
        have hj := findBest_lt (dot w) r hne
        have hlen := takeOut_length r _ hj
        have ih := prunerLoop_perm k (b ++ [r.getD (findBest (dot w) r) []]) (takeOut r (findBest (dot w) r)) rem
          (by omega)
        exact ih.trans (List.Perm.append_right rem (move_perm b r _ ([] : Vec) hj))
      · have ih := prunerLoop_perm k b r.dropLast (v :: rem) (by simp; omega)
        refine ih.trans ?_
        have : b ++ r ++ rem = b ++ r.dropLast ++ ([v] ++ rem) := by
          conv => lhs; rw [hsplit]
          simp
        rw [this]; simp

theorem prunerLoop_best_mono : ∀ (k : Nat) (b r rem : List Vec),
    ∀ g ∈ b, g ∈ (prunerLoop oracle k b r rem).1
  | 0, b, r, rem, g, hg => by simpa [prunerLoop] using hg
  | k+1, b, r, rem, g, hg => by
    simp only [prunerLoop]
    split
    · exact hg
    · split
      · exact prunerLoop_best_mono k _ _ rem g (List.mem_append_left _ hg)
      · exact prunerLoop_best_mono k b _ _ g hg

/-- everything kept at the end was in the useful range or in the still-unchecked range (never in `rem`) -/
theorem prunerLoop_best_sub : ∀ (k : Nat) (b r rem : List Vec),
    ∀ g ∈ (prunerLoop oracle k b r rem).1, g ∈ b ++ r
  | 0, b, r, rem, g, hg => by
    simp only [prunerLoop] at hg; exact List.mem_append_left _ hg
  | k+1, b, r, rem, g, hg => by
    simp only [prunerLoop] at hg
    split at hg
    · exact List.mem_append_left _ hg
    · rename_i v hv
      obtain ⟨hsplit, hne⟩ := getLast?_some_split hv
      split at hg
      · rename_i w _
        have hj := findBest_lt (dot w) r hne
        have := prunerLoop_best_sub k _ _ rem g hg
        exact (move_perm b r _ ([] : Vec) hj).mem_iff.mp this
      · have := prunerLoop_best_sub k b r.dropLast (v :: rem) g hg
        rcases List.mem_append.mp this with h | h
        · exact List.mem_append_left _ h
        · exact List.mem_append_right _ ((List.dropLast_sublist r).subset h)

/-- every vector discarded by the loop is, at every belief, within `ε` of some kept vector -/
theorem prunerLoop_envelope (n : Nat) (ε : Rat)
    (hnone : ∀ best v, oracle best v = none → ∀ b, IsBelief n b → ∃ g ∈ best, dot b v ≤ dot b g + ε) :
    ∀ (k : Nat) (b r rem : List Vec), r.length ≤ k →
    ∀ x ∈ r, x ∈ (prunerLoop oracle k b r rem).1 ∨
      ∀ bel, IsBelief n bel → ∃ g ∈ (prunerLoop oracle k b r rem).1, dot bel x ≤ dot bel g + ε
  | 0, b, r, rem, hk, x, hx => by
    have : r = [] := List.eq_nil_of_length_eq_zero (by omega)
    subst this; simp at hx
  | k+1, b, r, rem, hk, x, hx => by
    simp only [prunerLoop]
    split
    · rename_i hn
      have : r = [] := by simpa using hn
      subst this; simp at hx
    · rename_i v hv
      obtain ⟨hsplit, hne⟩ := getLast?_some_split hv
      split
      · rename_i w _
        have hj := findBest_lt (dot w) r hne
        have hlen := takeOut_length r _ hj
        have hx' := (takeOut_perm r _ ([] : Vec) hj).mem_iff.mpr hx
        rcases List.mem_cons.mp hx' with h | h
        · left
          apply prunerLoop_best_mono
          rw [h]; simp
        · exact prunerLoop_envelope n ε hnone k _ _ rem (by omega) x h
      · rename_i horc
        rw [hsplit] at hx
        rcases List.mem_append.mp hx with h | h
        · exact prunerLoop_envelope n ε hnone k b r.dropLast (v :: rem) (by simp; omega) x h
        · right
          simp only [List.mem_singleton] at h
          subst h
          intro bel hbel
          obtain ⟨g, hg, hle⟩ := hnone b x horc bel hbel
          exact ⟨g, prunerLoop_best_mono oracle k b _ _ g hg, hle⟩

/-- every vector the loop adds is, at the oracle's witness point, at least as high as every finally
    kept vector (indeed as every vector of useful ∪ rest at that moment) -/
theorem prunerLoop_witness (n : Nat)
    (hsome : ∀ best v w, oracle best v = some w → IsBelief n w ∧ ∀ g ∈ best, dot w g < dot w v) :
    ∀ (k : Nat) (b r rem : List Vec), r.length ≤ k →
    ∀ g ∈ (prunerLoop oracle k b r rem).1, g ∈ b ∨
      ∃ w, IsBelief n w ∧ ∀ g' ∈ (prunerLoop oracle k b r rem).1, dot w g' ≤ dot w g
  | 0, b, r, rem, _, g, hg => by
    simp only [prunerLoop] at hg; exact Or.inl hg
  | k+1, b, r, rem, _, g, hg => by
    simp only [prunerLoop] at hg ⊢
    split at hg
    · exact Or.inl hg
    · rename_i v hv
      obtain ⟨hsplit, hne⟩ := getLast?_some_split hv
      split at hg
      · rename_i w horc
        have hj := findBest_lt (dot w) r hne
        have hmax := findBest_max (dot w) r hne
        have hlen := takeOut_length r _ hj
        obtain ⟨hbel, hlt⟩ := hsome b v w horc
        have hvr : v ∈ r := by rw [hsplit]; simp
        rcases prunerLoop_witness n hsome k _ _ rem (by omega) g hg with h | h
        · rcases List.mem_append.mp h with h | h
          · exact Or.inl h
          · right
            simp only [List.mem_singleton] at h
            refine ⟨w, hbel, ?_⟩
            intro g' hg'
            have hsub := prunerLoop_best_sub oracle k _ _ rem g' hg'
            have hsub' := (move_perm b r _ ([] : Vec) hj).mem_iff.mp hsub
            rw [h]
            rcases List.mem_append.mp hsub' with hb | hr
            · have h1 := hlt g' hb
              have h2 := hmax v hvr
              grind
            · exact hmax g' hr
        · exact Or.inr h
      · exact prunerLoop_witness n hsome k b r.dropLast (v :: rem) (by simp; omega) g hg

end loop

/-! ## non-vacuity: each half of the oracle contract is met by a concrete oracle, run on literals -/

section tests

/-- test oracle 1 (sound, incomplete): tries three points of the 2-simplex and answers the first one at
    which `v` strictly beats every row of `best` -/
def exOracleSome (best : List Vec) (v : Vec) : Option Vec :=
  ([[1, 0], [0, 1], [1/2, 1/2]] : List Vec).find? (fun w => best.all (fun g => decide (dot w g < dot w v)))

theorem exOracleSome_contract : ∀ best v w, exOracleSome best v = some w →
    IsBelief 2 w ∧ ∀ g ∈ best, dot w g < dot w v := by
  intro best v w h
  have hp := List.find?_some h
  have hm := List.mem_of_find?_eq_some h
  refine ⟨?_, ?_⟩
  · simp only [List.mem_cons, List.not_mem_nil, or_false] at hm
    rcases hm with rfl | rfl | rfl <;> exact ⟨rfl, by decide +kernel, by decide +kernel⟩
  · intro g hg
    have := List.all_eq_true.mp hp g hg
    exact of_decide_eq_true this

/-- test: the run adds `[0,1]` (witness `[0,1]`) and `[3/5,3/5]` (witness `[1/2,1/2]`) and drops `[2/5,2/5]` -/
example : prunerLoop exOracleSome 3 [[1, 0]] [[0, 1], [2/5, 2/5], [3/5, 3/5]] []
    = ([[1, 0], [0, 1], [3/5, 3/5]], [[2/5, 2/5]]) := by decide +kernel

/-- test: `prunerLoop_witness` instantiated with the concrete oracle above -/
example : ∀ g ∈ (prunerLoop exOracleSome 3 [[1, 0]] [[0, 1], [2/5, 2/5], [3/5, 3/5]] []).1,
    g ∈ [[1, 0]] ∨ ∃ w, IsBelief 2 w ∧
      ∀ g' ∈ (prunerLoop exOracleSome 3 [[1, 0]] [[0, 1], [2/5, 2/5], [3/5, 3/5]] []).1, dot w g' ≤ dot w g :=
  prunerLoop_witness exOracleSome 2 exOracleSome_contract 3 _ _ _ (by decide)

/-- componentwise `v ≤ g` on vectors of equal length -/
def leAll : Vec → Vec → Bool
  | a :: as, b :: bs => decide (a ≤ b) && leAll as bs
  | [], [] => true
  | _, _ => false

theorem dot_le_of_leAll : ∀ (bel v g : Vec), (∀ x ∈ bel, 0 ≤ x) → leAll v g = true → dot bel v ≤ dot bel g
  | [], _, _, _, _ => by simp [dot]
  | _ :: _, [], [], _, _ => by simp [dot]
  | _ :: _, [], _ :: _, _, h => by simp [leAll] at h
  | _ :: _, _ :: _, [], _, h => by simp [leAll] at h
  | c :: cs, a :: as, b :: bs, hpos, h => by
    simp only [leAll, Bool.and_eq_true, decide_eq_true_eq] at h
    have ih := dot_le_of_leAll cs as bs (fun x hx => hpos x (List.mem_cons_of_mem _ hx)) h.2
    have h1 : c * a ≤ c * b := Rat.mul_le_mul_of_nonneg_left h.1 (hpos c (List.mem_cons_self ..))
    simp only [dot]
    exact Rat.le_trans (Rat.add_le_add_right.mpr h1) (Rat.add_le_add_left.mpr ih)

/-- test oracle 2 (complete for `none`, not sound for `some`): answers `none` exactly when a row of `best`
    is componentwise at least `v` -/
def exOracleNone (best : List Vec) (v : Vec) : Option Vec :=
  if best.any (fun g => leAll v g) then none else some [1/2, 1/2]

theorem exOracleNone_contract (n : Nat) : ∀ best v, exOracleNone best v = none →
    ∀ b, IsBelief n b → ∃ g ∈ best, dot b v ≤ dot b g + 0 := by
  intro best v h b hb
  unfold exOracleNone at h
  split at h
  · rename_i hany
    obtain ⟨g, hg, hle⟩ := List.any_eq_true.mp hany
    refine ⟨g, hg, ?_⟩
    rw [Rat.add_zero]
    exact dot_le_of_leAll b v g hb.2.1 hle
  · cases h

/-- test: `prunerLoop_envelope` instantiated with the concrete oracle above (ε = 0); the run drops
    `[2/5,2/5]` (below `[3/5,3/5]`) and keeps the rest -/
example : prunerLoop exOracleNone 3 [[3/5, 3/5]] [[0, 1], [2/5, 2/5], [1, 0]] []
    = ([[3/5, 3/5], [1, 0], [0, 1]], [[2/5, 2/5]]) := by decide +kernel

example : ∀ x ∈ [[0, 1], [2/5, 2/5], [1, 0]],
    x ∈ (prunerLoop exOracleNone 3 [[3/5, 3/5]] [[0, 1], [2/5, 2/5], [1, 0]] []).1 ∨
    ∀ bel, IsBelief 2 bel →
      ∃ g ∈ (prunerLoop exOracleNone 3 [[3/5, 3/5]] [[0, 1], [2/5, 2/5], [1, 0]] []).1, dot bel x ≤ dot bel g + 0 :=
  prunerLoop_envelope exOracleNone 2 0 (exOracleNone_contract 2) 3 _ _ _ (by decide)

end tests

end AITB.Prune
