/-
  AITB.Props.C20h — the id → item indirection of C20 (`IndexMap` / `IndexMapIterator`, through which every
  `FilterMap::filter` result is read): every access path the iterator API offers reaches the same entries.
  For every id list and container, no bound on sizes.  Core Lean only.
-/
import AITB.Model.IndexMap
namespace AITB.IndexMap

theorem deref_nat (r : Rng) (k : Nat) : deref r (k : Int) = (r.ids[k]?).bind (fun id => r.cont[id]?) := by
  unfold deref
  have : ¬ ((k : Int) < 0) := by omega
  simp [this]

theorem map_range_getElem? {α β} (l : List α) (f : Option α → β) :
    (List.range l.length).map (fun k => f l[k]?) = l.map (fun a => f (some a)) := by
  apply List.ext_getElem
  · simp
  · intro i h1 h2
    simp at h1
    simp [h1]

/-- the `++` walk reads exactly the listed entries, in order -/
theorem walk_eq_vals (r : Rng) : walk r = vals r := by
  unfold walk vals bgn
  have h : ∀ k : Nat, deref r ((0 : Int) + k) = (r.ids[k]?).bind (fun id => r.cont[id]?) := by
    intro k; rw [Int.zero_add]; exact deref_nat r k
  simp only [h]
  exact map_range_getElem? r.ids (fun o => o.bind (fun id => r.cont[id]?))

/-- `*(begin() + k)` reads the k-th entry -/
theorem walkPlus_eq_vals (r : Rng) : walkPlus r = vals r := by
  unfold walkPlus plus; exact walk_eq_vals r

/-- `begin()[k]` reads the k-th entry -/
theorem walkSub_eq_vals (r : Rng) : walkSub r = vals r := by
  unfold walkSub sub; exact walk_eq_vals r

theorem walkRev_eq (r : Rng) : walkRev r = (vals r).reverse := by
  rw [← walk_eq_vals]
  unfold walkRev walk fin bgn
  apply List.ext_getElem
  · simp
  · intro i h1 h2
    simp at h1
    simp only [List.getElem_map, List.getElem_range, List.getElem_reverse, List.length_map, List.length_range]
    congr 1
    omega

/-- `*(end() - k)`, k = 1 … n, reads the entries backwards -/
theorem walkMinus_eq (r : Rng) : walkMinus r = (vals r).reverse := by
  rw [← walkRev_eq]
  unfold walkMinus walkRev minus
  apply List.map_congr_left
  intro k _
  congr 1
  omega

/-- `end() - (end() - k) = k` -/
theorem dists_eq (r : Rng) : dists r = (List.range r.ids.length).map (fun k => ((k + 1 : Nat) : Int)) := by
  unfold dists dist minus
  apply List.map_congr_left
  intro k _
  omega

/-- under the documented precondition every read is defined -/
theorem vals_defined (r : Rng) (h : Valid r) : ∀ v ∈ vals r, v.isSome = true := by
  intro v hv
  unfold vals at hv
  obtain ⟨id, hid, rfl⟩ := List.mem_map.1 hv
  have := h id hid
  simp [this]

/-- `operator-(difference_type)` as found in the library before the repair: it built the moved iterator and returned
    `*this`.  Then `end() - k` is `end()` and dereferencing it leaves the id list. -/
def minusAsFound (pos _k : Int) : Int := pos

theorem minusAsFound_reads_end (r : Rng) (k : Int) : deref r (minusAsFound (fin r) k) = none := by
  unfold minusAsFound fin
  rw [deref_nat]
  simp

example : Valid ⟨[4, 1, 1, 3], [10, 11, 12, 13, 14]⟩ ∧ walkMinus ⟨[4, 1, 1, 3], [10, 11, 12, 13, 14]⟩ = [some 13, some 11, some 11, some 14] := by
  constructor
  · intro id h; simp at h; rcases h with h | h | h <;> subst h <;> decide
  · decide

end AITB.IndexMap
