/-
  AITB.Props.C05 — "Belief updates are exact Bayes filtering".
  Theorems about AITB.Model.Belief (model of include/AIToolbox/POMDP/Utils.hpp).
  Unbounded: any number of states, actions, observations; any rational tables; any history length.
-/
import AITB.Model.Belief
import Mathlib.Algebra.Order.Field.Rat
import Mathlib.Tactic.Ring
import Mathlib.Tactic.Linarith
import Mathlib.Tactic.FieldSimp
import Mathlib.Tactic.Positivity
import Mathlib.Tactic.NormNum
import Mathlib.Tactic.IntervalCases

namespace AITB.Belief

/-! ## loop sums -/

theorem sumTo_congr {n : Nat} {f g : Nat → Rat} (h : ∀ i, i < n → f i = g i) : sumTo n f = sumTo n g := by
  induction n with
  | zero => rfl
  | succ n ih =>
    simp only [sumTo]
    rw [ih (fun i hi => h i (Nat.lt_succ_of_lt hi)), h n (Nat.lt_succ_self n)]

theorem sumTo_zero (n : Nat) : sumTo n (fun _ => 0) = 0 := by
  induction n with
  | zero => rfl
  | succ n ih => simp only [sumTo, ih, add_zero]

theorem sumTo_add (n : Nat) (f g : Nat → Rat) : sumTo n (fun i => f i + g i) = sumTo n f + sumTo n g := by
  induction n with
  | zero => simp [sumTo]
  | succ n ih => simp only [sumTo, ih]; ring

theorem sumTo_mul_left (n : Nat) (c : Rat) (f : Nat → Rat) : sumTo n (fun i => c * f i) = c * sumTo n f := by
  induction n with
  | zero => simp [sumTo]
  | succ n ih => simp only [sumTo, ih]; ring

theorem sumTo_mul_right (n : Nat) (c : Rat) (f : Nat → Rat) : sumTo n (fun i => f i * c) = sumTo n f * c := by
  induction n with
  | zero => simp [sumTo]
  | succ n ih => simp only [sumTo, ih]; ring

theorem sumTo_div (n : Nat) (c : Rat) (f : Nat → Rat) : sumTo n (fun i => f i / c) = sumTo n f / c := by
  induction n with
  | zero => simp [sumTo]
  | succ n ih => simp only [sumTo, ih]; ring

theorem sumTo_nonneg {n : Nat} {f : Nat → Rat} (h : ∀ i, i < n → 0 ≤ f i) : 0 ≤ sumTo n f := by
  induction n with
  | zero => simp [sumTo]
  | succ n ih =>
    simp only [sumTo]
    have h1 := ih (fun i hi => h i (Nat.lt_succ_of_lt hi))
    have h2 := h n (Nat.lt_succ_self n)
    linarith

/-- a sum of non-negative terms that is zero has only zero terms -/
theorem sumTo_eq_zero {n : Nat} {f : Nat → Rat} (h : ∀ i, i < n → 0 ≤ f i) (hz : sumTo n f = 0) :
    ∀ i, i < n → f i = 0 := by
  induction n with
  | zero => intro i hi; omega
  | succ n ih =>
    simp only [sumTo] at hz
    have h1 := sumTo_nonneg (fun i hi => h i (Nat.lt_succ_of_lt hi))
    have h2 := h n (Nat.lt_succ_self n)
    intro i hi
    rcases Nat.lt_or_ge i n with hlt | hge
    · exact ih (fun i hi => h i (Nat.lt_succ_of_lt hi)) (by linarith) i hlt
    · have : i = n := by omega
      subst this; linarith

/-- exchanging two loops -/
theorem sumTo_comm (n k : Nat) (f : Nat → Nat → Rat) :
    sumTo n (fun i => sumTo k (fun j => f i j)) = sumTo k (fun j => sumTo n (fun i => f i j)) := by
  induction n with
  | zero => simp [sumTo, sumTo_zero]
  | succ n ih =>
    simp only [sumTo]
    rw [ih, ← sumTo_add k (fun j => sumTo n (fun i => f i j)) (fun j => f n j)]

/-- a sum against a Kronecker delta picks one term -/
theorem sumTo_delta (n j : Nat) (c : Nat → Rat) :
    sumTo n (fun k => if k = j then c k else 0) = if j < n then c j else 0 := by
  induction n with
  | zero => simp [sumTo]
  | succ n ih =>
    simp only [sumTo, ih]
    by_cases h1 : j < n
    · have : n ≠ j := by omega
      simp [h1, this, Nat.lt_succ_of_lt h1]
    · by_cases h2 : n = j
      · subst h2; simp
      · have : ¬ j < n + 1 := by omega
        simp [h1, h2, this]

theorem addTo_eq (acc : Rat) (n : Nat) (f : Nat → Rat) : addTo acc n f = acc + sumTo n f := by
  induction n with
  | zero => simp [addTo, sumTo]
  | succ n ih => simp only [addTo, sumTo, ih]; ring

/-- skipping the structurally missing (zero) entries, as sparse kernels do, does not change a sum -/
theorem sumToNZ_eq (n : Nat) (f : Nat → Rat) : sumToNZ n f = sumTo n f := by
  induction n with
  | zero => rfl
  | succ n ih =>
    simp only [sumToNZ, sumTo, ih]
    split
    · rename_i h; rw [h, add_zero]
    · rfl

/-! ## hypotheses: a valid POMDP and a belief on the simplex -/

/-- tables with non-negative entries (all that the posterior clauses need; also true of what a
    sparse model stores after dropping sub-threshold entries, whose rows no longer sum to one) -/
structure NonnegModel (m : POMDP) : Prop where
  T_nonneg : ∀ s a s1, s < m.S → a < m.A → s1 < m.S → 0 ≤ m.T s a s1
  O_nonneg : ∀ s1 a o, s1 < m.S → a < m.A → o < m.O → 0 ≤ m.Ob s1 a o

/-- a POMDP: non-negative tables whose rows sum to one -/
structure ValidModel (m : POMDP) : Prop extends NonnegModel m where
  T_sum : ∀ s a, s < m.S → a < m.A → sumTo m.S (fun s1 => m.T s a s1) = 1
  O_sum : ∀ s1 a, s1 < m.S → a < m.A → sumTo m.O (fun o => m.Ob s1 a o) = 1

structure IsBelief (S : Nat) (b : Vec) : Prop where
  nonneg : ∀ s, s < S → 0 ≤ b s
  sum_one : sumTo S b = 1

/-! ## the unnormalised update -/

/-- the loop branch computes exactly the Bayes weight `O(s1,a,o) Σ_s T(s,a,s1) b(s)` (by definition) -/
theorem unnormG_eq_weight (m : POMDP) (b : Vec) (a o : Nat) : unnormG m b a o = weight m b a o := rfl

theorem predict_nonneg {m : POMDP} (hm : NonnegModel m) {b : Vec} (hb : ∀ s, s < m.S → 0 ≤ b s)
    {a : Nat} (ha : a < m.A) : ∀ s1, s1 < m.S → 0 ≤ predictG m b a s1 := by
  intro s1 hs1
  exact sumTo_nonneg (fun s hs => mul_nonneg (hm.T_nonneg s a s1 hs ha hs1) (hb s hs))

/-- C05 clause "non-negative" (unnormalised form) -/
theorem unnorm_nonneg {m : POMDP} (hm : NonnegModel m) {b : Vec} (hb : ∀ s, s < m.S → 0 ≤ b s)
    {a o : Nat} (ha : a < m.A) (ho : o < m.O) : ∀ s1, s1 < m.S → 0 ≤ unnormG m b a o s1 := by
  intro s1 hs1
  exact mul_nonneg (hm.O_nonneg s1 a o hs1 ha ho) (predict_nonneg hm hb ha s1 hs1)

/-- C05 clause "the unnormalised update sums to P(o | b,a)" — pure algebra (exchange of the two loops),
    no hypothesis on the tables at all -/
theorem unnorm_sum_eq_prob_o (m : POMDP) (b : Vec) (a o : Nat) :
    sumTo m.S (unnormG m b a o) = probO m b a o := by
  unfold unnormG probO
  have h1 : (fun s1 => m.Ob s1 a o * sumTo m.S (fun s => m.T s a s1 * b s))
      = (fun s1 => sumTo m.S (fun s => m.Ob s1 a o * (m.T s a s1 * b s))) := by
    funext s1; rw [sumTo_mul_left]
  rw [h1, sumTo_comm]
  apply sumTo_congr
  intro s _
  rw [← sumTo_mul_left]
  apply sumTo_congr
  intro s1 _
  ring

/-- C05 clause "over all observations it adds up to the predicted next-state distribution" -/
theorem sum_over_o_eq_predict {m : POMDP} (hm : ValidModel m) (b : Vec) {a : Nat} (ha : a < m.A)
    {s1 : Nat} (hs1 : s1 < m.S) :
    sumTo m.O (fun o => unnormG m b a o s1) = predictG m b a s1 := by
  unfold unnormG predictG
  rw [sumTo_mul_right, hm.O_sum s1 a hs1 ha, one_mul]

/-- the predicted next-state vector (`updateBeliefPartial`) is a probability distribution -/
theorem predict_is_distribution {m : POMDP} (hm : ValidModel m) {b : Vec} (hb : IsBelief m.S b)
    {a : Nat} (ha : a < m.A) : IsBelief m.S (predictG m b a) := by
  refine ⟨predict_nonneg hm.toNonnegModel hb.nonneg ha, ?_⟩
  unfold predictG
  rw [sumTo_comm]
  have : ∀ s, s < m.S → sumTo m.S (fun s1 => m.T s a s1 * b s) = b s := by
    intro s hs
    rw [sumTo_mul_right, hm.T_sum s a hs ha, one_mul]
  rw [sumTo_congr this, hb.sum_one]

/-- `P(· | b,a)` is a probability distribution over observations -/
theorem probO_nonneg {m : POMDP} (hm : NonnegModel m) {b : Vec} (hb : ∀ s, s < m.S → 0 ≤ b s)
    {a o : Nat} (ha : a < m.A) (ho : o < m.O) : 0 ≤ probO m b a o := by
  rw [← unnorm_sum_eq_prob_o]
  exact sumTo_nonneg (unnorm_nonneg hm hb ha ho)

theorem probO_sum_one {m : POMDP} (hm : ValidModel m) {b : Vec} (hb : IsBelief m.S b)
    {a : Nat} (ha : a < m.A) : sumTo m.O (fun o => probO m b a o) = 1 := by
  have h : (fun o => probO m b a o) = (fun o => sumTo m.S (fun s1 => unnormG m b a o s1)) := by
    funext o; rw [← unnorm_sum_eq_prob_o]
  rw [h, sumTo_comm, sumTo_congr (fun s1 hs1 => sum_over_o_eq_predict hm b ha hs1)]
  exact (predict_is_distribution hm hb ha).sum_one

/-- an observation of probability zero has an all-zero unnormalised update (why the normalised
    form is excluded there: the library divides 0 by 0) -/
theorem unnorm_zero_of_prob_zero {m : POMDP} (hm : NonnegModel m) {b : Vec} (hb : ∀ s, s < m.S → 0 ≤ b s)
    {a o : Nat} (ha : a < m.A) (ho : o < m.O) (hz : probO m b a o = 0) :
    ∀ s1, s1 < m.S → unnormG m b a o s1 = 0 := by
  rw [← unnorm_sum_eq_prob_o] at hz
  exact sumTo_eq_zero (unnorm_nonneg hm hb ha ho) hz

/-! ## the normalised update is the Bayes posterior -/

theorem normalize_sum {S : Nat} {v : Vec} (h : sumTo S v ≠ 0) : sumTo S (normalize S v) = 1 := by
  unfold normalize
  rw [sumTo_div, div_self h]

/-- C05 main clause.  For an observation of positive probability the result of `updateBelief` is
    non-negative, sums to one, and is the Bayes weight divided by `P(o | b,a)` — i.e. proportional to
    `O(s1,a,o) Σ_s T(s,a,s1) b(s)` with the one constant that makes it a distribution. -/
theorem posterior_is_bayes {m : POMDP} (hm : NonnegModel m) {b : Vec} (hb : ∀ s, s < m.S → 0 ≤ b s)
    {a o : Nat} (ha : a < m.A) (ho : o < m.O) (hpos : 0 < probO m b a o) :
    (∀ s1, s1 < m.S → 0 ≤ updateG m b a o s1) ∧
    sumTo m.S (updateG m b a o) = 1 ∧
    (∀ s1, updateG m b a o s1 = weight m b a o s1 / probO m b a o) ∧
    (∀ s1, updateG m b a o s1 * probO m b a o = m.Ob s1 a o * sumTo m.S (fun s => m.T s a s1 * b s)) := by
  have hsum : sumTo m.S (unnormG m b a o) = probO m b a o := unnorm_sum_eq_prob_o m b a o
  have hne : sumTo m.S (unnormG m b a o) ≠ 0 := by rw [hsum]; exact ne_of_gt hpos
  refine ⟨?_, normalize_sum hne, ?_, ?_⟩
  · intro s1 hs1
    unfold updateG normalize
    rw [hsum]
    exact div_nonneg (unnorm_nonneg hm hb ha ho s1 hs1) (le_of_lt hpos)
  · intro s1
    unfold updateG normalize
    rw [hsum]; rfl
  · intro s1
    unfold updateG normalize
    rw [hsum]
    have : probO m b a o ≠ 0 := ne_of_gt hpos
    unfold unnormG
    field_simp

/-- proportionality without naming the constant: cross-multiplied ratios agree -/
theorem posterior_proportional (m : POMDP) (b : Vec) (a o : Nat) (s1 s2 : Nat) :
    updateG m b a o s1 * weight m b a o s2 = updateG m b a o s2 * weight m b a o s1 := by
  unfold updateG normalize
  rw [unnormG_eq_weight]
  ring

/-- law of total probability: averaging the posteriors with the observation probabilities gives back
    the prediction (zero-probability observations contribute nothing) -/
theorem total_probability {m : POMDP} (hm : ValidModel m) {b : Vec} (hb : ∀ s, s < m.S → 0 ≤ b s)
    {a : Nat} (ha : a < m.A) {s1 : Nat} (hs1 : s1 < m.S) :
    sumTo m.O (fun o => probO m b a o * updateG m b a o s1) = predictG m b a s1 := by
  rw [← sum_over_o_eq_predict hm b ha hs1]
  apply sumTo_congr
  intro o ho
  unfold updateG normalize
  rw [unnorm_sum_eq_prob_o]
  by_cases hz : probO m b a o = 0
  · rw [hz, zero_mul, unnorm_zero_of_prob_zero hm.toNonnegModel hb ha ho hz s1 hs1]
  · field_simp

/-! ## two-stage (predict, then correct) helpers -/

/-- `updateBeliefPartialUnnormalized(updateBeliefPartial(b,a), a, o) = updateBeliefUnnormalized(b,a,o)` -/
theorem two_stage_eq_one_stage (m : POMDP) (b : Vec) (a o : Nat) :
    partialUnnormG m (predictG m b a) a o = unnormG m b a o := rfl

/-- `updateBeliefPartialNormalized(updateBeliefPartial(b,a), a, o) = updateBelief(b,a,o)` -/
theorem two_stage_normalized_eq (m : POMDP) (b : Vec) (a o : Nat) :
    partialNormG m (predictG m b a) a o = updateG m b a o := rfl

/-! ## SOSA -/

/-- `b^T · SOSA[a][o]` is the unnormalised update, for every vector `b` -/
theorem sosa_row (m : POMDP) (b : Vec) (a o s1 : Nat) :
    vecMat m.S b (sosaG m a o) s1 = unnormG m b a o s1 := by
  unfold vecMat sosaG unnormG
  rw [← sumTo_mul_left]
  apply sumTo_congr
  intro s _; ring

/-- … and SOSA is the only matrix with that property: a matrix whose rows reproduce the unnormalised
    update of every corner belief has the entries `T(s,a,s1) O(s1,a,o)` -/
theorem sosa_unique (m : POMDP) (a o : Nat) (M : Mat)
    (h : ∀ s, s < m.S → ∀ s1, vecMat m.S (fun k => if k = s then 1 else 0) M s1
        = unnormG m (fun k => if k = s then 1 else 0) a o s1) :
    ∀ s, s < m.S → ∀ s1, M s s1 = sosaG m a o s s1 := by
  intro s hs s1
  have h1 := h s hs s1
  rw [← sosa_row] at h1
  unfold vecMat at h1
  have e1 : ∀ (N : Mat), sumTo m.S (fun i => (if i = s then (1 : Rat) else 0) * N i s1) = N s s1 := by
    intro N
    have : (fun i => (if i = s then (1 : Rat) else 0) * N i s1) = (fun i => if i = s then N i s1 else 0) := by
      funext i; split <;> simp
    rw [this, sumTo_delta]; simp [hs]
  rw [e1 M, e1 (sosaG m a o)] at h1
  exact h1

/-! ## the Eigen branch, the sparse branch and the loop branch agree -/

theorem predictE_eq_predictG (m : POMDP) (b : Vec) (a : Nat) : predictE m b a = predictG m b a := by
  funext s1
  unfold predictE predictG vecMat Ta
  apply sumTo_congr
  intro s _; ring

theorem unnormE_eq_unnormG (m : POMDP) (b : Vec) (a o : Nat) : unnormE m b a o = unnormG m b a o := by
  funext s1
  unfold unnormE Ocol
  rw [predictE_eq_predictG]; rfl

theorem partialUnnormE_eq (m : POMDP) (b : Vec) (a o : Nat) : partialUnnormE m b a o = partialUnnormG m b a o := rfl

theorem updateE_eq_updateG (m : POMDP) (b : Vec) (a o : Nat) : updateE m b a o = updateG m b a o := by
  unfold updateE updateG; rw [unnormE_eq_unnormG]

/-- `T_a * diag(O_a.col(o))` scales column `s1` by `O(s1,a,o)` (not row `s`) -/
theorem sosaE_eq_sosaG (m : POMDP) (a o : Nat) {s1 : Nat} (hs1 : s1 < m.S) (s : Nat) :
    sosaE m a o s s1 = sosaG m a o s s1 := by
  unfold sosaE sosaG matMul diag Ta Ocol
  have : (fun k => m.T s a k * (if k = s1 then m.Ob k a o else 0))
      = (fun k => if k = s1 then m.T s a k * m.Ob k a o else 0) := by
    funext k; split <;> simp
  rw [this, sumTo_delta]; simp [hs1]

theorem predictSp_eq_predictG (m : POMDP) (b : Vec) (a : Nat) : predictSp m b a = predictG m b a := by
  funext s1
  unfold predictSp predictG
  rw [sumToNZ_eq]
  apply sumTo_congr
  intro s _; ring

theorem unnormSp_eq_unnormG (m : POMDP) (b : Vec) (a o : Nat) : unnormSp m b a o = unnormG m b a o := by
  funext s1
  unfold unnormSp
  rw [predictSp_eq_predictG]; rfl

/-- C05 clause "the dense, sparse and generic code paths give the same result" (all at once) -/
theorem dense_eq_generic (m : POMDP) (b : Vec) (a o : Nat) :
    predictE m b a = predictG m b a ∧ predictSp m b a = predictG m b a ∧
    unnormE m b a o = unnormG m b a o ∧ unnormSp m b a o = unnormG m b a o ∧
    updateE m b a o = updateG m b a o ∧
    partialUnnormE m b a o = partialUnnormG m b a o ∧ partialNormE m b a o = partialNormG m b a o ∧
    (∀ s s1, s1 < m.S → sosaE m a o s s1 = sosaG m a o s s1) :=
  ⟨predictE_eq_predictG m b a, predictSp_eq_predictG m b a, unnormE_eq_unnormG m b a o,
   unnormSp_eq_unnormG m b a o, updateE_eq_updateG m b a o, rfl, rfl,
   fun s _ hs1 => sosaE_eq_sosaG m a o hs1 s⟩

/-- the sparse containers drop nothing when every entry is zero or above the storage threshold;
    then the sparse model stores the same tables as the dense one -/
theorem keep_id {tol p : Rat} (h : p = 0 ∨ tol < absQ (0 - p)) : keep tol p = p := by
  unfold keep stored
  rcases h with h | h
  · subst h; split <;> rfl
  · have : ¬ absQ (0 - p) ≤ tol := not_le.mpr h
    rw [decide_eq_false this]; rfl

theorem sparsify_id (tol : Rat) (m : POMDP)
    (hT : ∀ s a s1, m.T s a s1 = 0 ∨ tol < absQ (0 - m.T s a s1))
    (hO : ∀ s1 a o, m.Ob s1 a o = 0 ∨ tol < absQ (0 - m.Ob s1 a o)) :
    (sparsify tol m).T = m.T ∧ (sparsify tol m).Ob = m.Ob := by
  constructor
  · funext s a s1; exact keep_id (hT s a s1)
  · funext s1 a o; exact keep_id (hO s1 a o)

/-! ## sparse storage drops sub-threshold entries: how far the sparse update can be from the dense one -/

theorem sumTo_le_sumTo {n : Nat} {f g : Nat → Rat} (h : ∀ i, i < n → f i ≤ g i) : sumTo n f ≤ sumTo n g := by
  induction n with
  | zero => simp [sumTo]
  | succ n ih =>
    simp only [sumTo]
    have h1 := ih (fun i hi => h i (Nat.lt_succ_of_lt hi))
    have h2 := h n (Nat.lt_succ_self n)
    linarith

theorem le_sumTo_of_nonneg {n : Nat} {f : Nat → Rat} (h : ∀ i, i < n → 0 ≤ f i) {i : Nat} (hi : i < n) :
    f i ≤ sumTo n f := by
  induction n with
  | zero => omega
  | succ n ih =>
    simp only [sumTo]
    have h1 := sumTo_nonneg (fun j hj => h j (Nat.lt_succ_of_lt hj))
    have h2 := h n (Nat.lt_succ_self n)
    rcases Nat.lt_or_ge i n with hlt | hge
    · have := ih (fun j hj => h j (Nat.lt_succ_of_lt hj)) hlt
      linarith
    · have : i = n := by omega
      subst this; linarith

/-- what the sparse containers do to a non-negative entry: keep it, or replace it by 0 when it is at most `tol` -/
theorem keep_bounds {tol p : Rat} (htol : 0 ≤ tol) (hp : 0 ≤ p) : 0 ≤ keep tol p ∧ keep tol p ≤ p ∧ p - keep tol p ≤ tol := by
  unfold keep stored
  have habs : absQ (0 - p) = p := by
    unfold absQ
    split
    · ring
    · rename_i h
      have : p = 0 := by linarith [not_lt.mp h]
      subst this; ring
  rw [habs]
  by_cases h : p ≤ tol
  · rw [decide_eq_true h]
    simp only [Bool.not_true, Bool.false_eq_true, if_false]
    exact ⟨le_refl _, hp, by linarith⟩
  · rw [decide_eq_false h]
    simp only [Bool.not_false, if_true]
    exact ⟨hp, le_refl _, by linarith⟩

/-- C05 "dense and sparse give the same result", quantified for the documented storage threshold:
    on the SAME input tables the sparse model's unnormalised update is below the dense one by at most
    `2·tol` per entry (`tol = equalToleranceSmall = 1e-6`), and equal when nothing is sub-threshold
    (`sparsify_id`). -/
theorem sparse_within_two_tol {m : POMDP} (hm : ValidModel m) {b : Vec} (hb : IsBelief m.S b) {tol : Rat} (htol0 : 0 ≤ tol)
    {a o : Nat} (ha : a < m.A) (ho : o < m.O) {s1 : Nat} (hs1 : s1 < m.S) :
    0 ≤ unnormG m b a o s1 - unnormG (sparsify tol m) b a o s1 ∧
    unnormG m b a o s1 - unnormG (sparsify tol m) b a o s1 ≤ 2 * tol := by
  unfold unnormG sparsify
  simp only
  set P := sumTo m.S (fun s => m.T s a s1 * b s)
  set P' := sumTo m.S (fun s => keep tol (m.T s a s1) * b s)
  have hT := fun s (hs : s < m.S) => keep_bounds htol0 (hm.T_nonneg s a s1 hs ha hs1)
  have hO := keep_bounds htol0 (hm.O_nonneg s1 a o hs1 ha ho)
  have hP'0 : 0 ≤ P' := sumTo_nonneg (fun s hs => mul_nonneg (hT s hs).1 (hb.nonneg s hs))
  have hP'P : P' ≤ P := sumTo_le_sumTo (fun s hs => mul_le_mul_of_nonneg_right (hT s hs).2.1 (hb.nonneg s hs))
  have hT1 : ∀ s, s < m.S → m.T s a s1 ≤ 1 := by
    intro s hs
    have := le_sumTo_of_nonneg (f := fun k => m.T s a k) (fun k hk => hm.T_nonneg s a k hs ha hk) hs1
    rw [hm.T_sum s a hs ha] at this; exact this
  have hP1 : P ≤ 1 := by
    have : P ≤ sumTo m.S b := sumTo_le_sumTo (fun s hs => by
      have := mul_le_mul_of_nonneg_right (hT1 s hs) (hb.nonneg s hs)
      simpa using this)
    rw [hb.sum_one] at this; exact this
  have hdP : P - P' ≤ tol := by
    have e : P - P' = sumTo m.S (fun s => (m.T s a s1 - keep tol (m.T s a s1)) * b s) := by
      have : (fun s => (m.T s a s1 - keep tol (m.T s a s1)) * b s)
          = (fun s => m.T s a s1 * b s + (-1) * (keep tol (m.T s a s1) * b s)) := by funext s; ring
      rw [this, sumTo_add, sumTo_mul_left]; ring
    rw [e]
    have : sumTo m.S (fun s => (m.T s a s1 - keep tol (m.T s a s1)) * b s) ≤ sumTo m.S (fun s => tol * b s) :=
      sumTo_le_sumTo (fun s hs => mul_le_mul_of_nonneg_right (hT s hs).2.2 (hb.nonneg s hs))
    rw [sumTo_mul_left, hb.sum_one, mul_one] at this; exact this
  have hO1 : m.Ob s1 a o ≤ 1 := by
    have := le_sumTo_of_nonneg (f := fun k => m.Ob s1 a k) (fun k hk => hm.O_nonneg s1 a k hs1 ha hk) ho
    rw [hm.O_sum s1 a hs1 ha] at this; exact this
  have hP0 : 0 ≤ P := le_trans hP'0 hP'P
  obtain ⟨hk0, hkO, hdO⟩ := hO
  have hOn := hm.O_nonneg s1 a o hs1 ha ho
  have e : m.Ob s1 a o * P - keep tol (m.Ob s1 a o) * P'
      = (m.Ob s1 a o - keep tol (m.Ob s1 a o)) * P + keep tol (m.Ob s1 a o) * (P - P') := by ring
  rw [e]
  have hdP0 : 0 ≤ P - P' := by linarith
  have hdO0 : 0 ≤ m.Ob s1 a o - keep tol (m.Ob s1 a o) := by linarith
  constructor
  · exact add_nonneg (mul_nonneg hdO0 hP0) (mul_nonneg hk0 hdP0)
  · have h1 : (m.Ob s1 a o - keep tol (m.Ob s1 a o)) * P ≤ tol * 1 := mul_le_mul hdO hP1 hP0 htol0
    have h2 : keep tol (m.Ob s1 a o) * (P - P') ≤ 1 * tol := mul_le_mul (le_trans hkO hO1) hdP hdP0 (by norm_num)
    linarith

/-- what a sparse model stores is still a table of non-negative numbers … -/
theorem sparsify_nonneg {m : POMDP} (hm : NonnegModel m) {tol : Rat} (htol : 0 ≤ tol) : NonnegModel (sparsify tol m) :=
  ⟨fun s a s1 hs ha hs1 => (keep_bounds htol (hm.T_nonneg s a s1 hs ha hs1)).1,
   fun s1 a o hs1 ha ho => (keep_bounds htol (hm.O_nonneg s1 a o hs1 ha ho)).1⟩

/-- … so `updateBelief` on a `SparseModel` is the exact Bayes posterior of the tables it stores, even when
    sub-threshold entries were dropped and its rows no longer sum to one -/
theorem posterior_is_bayes_sparse {m : POMDP} (hm : NonnegModel m) {tol : Rat} (htol : 0 ≤ tol)
    {b : Vec} (hb : ∀ s, s < m.S → 0 ≤ b s) {a o : Nat} (ha : a < m.A) (ho : o < m.O)
    (hpos : 0 < probO (sparsify tol m) b a o) :
    (∀ s1, s1 < m.S → 0 ≤ updateG (sparsify tol m) b a o s1) ∧
    sumTo m.S (updateG (sparsify tol m) b a o) = 1 ∧
    (∀ s1, updateG (sparsify tol m) b a o s1 = weight (sparsify tol m) b a o s1 / probO (sparsify tol m) b a o) :=
  let h := posterior_is_bayes (sparsify_nonneg hm htol) (b := b) hb (a := a) (o := o) ha ho hpos
  ⟨h.1, h.2.1, h.2.2.1⟩

/-! ## beliefExpectedReward -/

theorem rewardLoop_eq (m : POMDP) (b : Vec) (a : Nat) (n : Nat) :
    rewardLoop m b a n = sumTo n (fun s => sumTo m.S (fun s1 => m.T s a s1 * m.R s a s1 * b s)) := by
  induction n with
  | zero => rfl
  | succ n ih => simp only [rewardLoop, sumTo, addTo_eq, ih]

/-- loop branch = `Σ_s b(s) Σ_s1 T(s,a,s1) R(s,a,s1)` -/
theorem rewardG_eq_expReward (m : POMDP) (b : Vec) (a : Nat) : rewardG m b a = expReward m b a := by
  unfold rewardG expReward
  rw [rewardLoop_eq]
  apply sumTo_congr
  intro s _
  rw [← sumTo_mul_left]
  apply sumTo_congr
  intro s1 _; ring

/-- Eigen branch (`R.col(a).dot(b)` with the stored S×A matrix) = the same expectation -/
theorem rewardE_eq_expReward (m : POMDP) (b : Vec) (a : Nat) : rewardE m b a = expReward m b a := by
  unfold rewardE expReward dot rewardMatrix
  apply sumTo_congr
  intro s _
  rw [mul_comm]
  congr 1
  apply sumTo_congr
  intro s1 _; ring

theorem reward_dense_eq_generic (m : POMDP) (b : Vec) (a : Nat) : rewardE m b a = rewardG m b a := by
  rw [rewardE_eq_expReward, rewardG_eq_expReward]

/-- a dense model answers `getExpectedReward(s,a,s1)` with its stored `rewards_(s,a)`; the loop branch run
    on those answers still gives the same expectation because transition rows sum to one -/
theorem reward_collapse {m : POMDP} (hT : ∀ s, s < m.S → sumTo m.S (fun s1 => m.T s a s1) = 1)
    (b : Vec) : rewardG (collapseR m) b a = rewardE m b a := by
  rw [rewardG_eq_expReward]
  unfold expReward rewardE dot collapseR
  apply sumTo_congr
  intro s hs
  simp only
  rw [sumTo_mul_right, hT s hs, one_mul, mul_comm]

/-! ## histories: repeated filtering is the posterior given the whole history -/

theorem unnorm_smul (m : POMDP) (c : Rat) (b : Vec) (a o : Nat) :
    unnormG m (fun s => c * b s) a o = fun s1 => c * unnormG m b a o s1 := by
  funext s1
  unfold unnormG
  have : (fun s => m.T s a s1 * (c * b s)) = (fun s => c * (m.T s a s1 * b s)) := by
    funext s; ring
  rw [this, sumTo_mul_left]; ring

theorem unnorm_add (m : POMDP) (b b' : Vec) (a o : Nat) :
    unnormG m (fun s => b s + b' s) a o = fun s1 => unnormG m b a o s1 + unnormG m b' a o s1 := by
  funext s1
  unfold unnormG
  have : (fun s => m.T s a s1 * (b s + b' s)) = (fun s => m.T s a s1 * b s + m.T s a s1 * b' s) := by
    funext s; ring
  rw [this, sumTo_add]; ring

theorem normalize_smul {S : Nat} {c : Rat} (hc : c ≠ 0) (v : Vec) :
    normalize S (fun s => c * v s) = normalize S v := by
  funext s
  unfold normalize
  rw [sumTo_mul_left]
  by_cases h : sumTo S v = 0
  · rw [h]; simp
  · field_simp

/-- updating a normalised vector = normalising the update of the raw vector -/
theorem update_normalize (m : POMDP) {v : Vec} (hv : sumTo m.S v ≠ 0) (a o : Nat) :
    updateG m (normalize m.S v) a o = normalize m.S (unnormG m v a o) := by
  unfold updateG
  have e : normalize m.S v = fun s => (1 / sumTo m.S v) * v s := by
    funext s; unfold normalize; ring
  rw [e, unnorm_smul]
  exact normalize_smul (one_div_ne_zero hv) _

/-- every step of the history has positive probability given what came before -/
def PosHist (m : POMDP) : Vec → List (Nat × Nat) → Prop
  | _, [] => True
  | b, (a, o) :: h => sumTo m.S (unnormG m b a o) ≠ 0 ∧ PosHist m (unnormG m b a o) h

theorem filter_normalize_eq_forward (m : POMDP) :
    ∀ (h : List (Nat × Nat)) (v : Vec), sumTo m.S v ≠ 0 → PosHist m v h →
      filter m (normalize m.S v) h = normalize m.S (forward m v h)
  | [], _, _, _ => rfl
  | (a, o) :: h, v, hv, hp => by
    simp only [filter, forward]
    rw [update_normalize m hv a o]
    exact filter_normalize_eq_forward m h _ hp.1 hp.2

/-- C05 over histories: calling `updateBelief` once per step yields the normalised forward vector, i.e.
    `P(s_t | b, a_1 o_1 … a_t o_t)`, for histories of any length -/
theorem filter_eq_forward (m : POMDP) {b : Vec} (hb : sumTo m.S b = 1) (h : List (Nat × Nat))
    (hp : PosHist m b h) : filter m b h = normalize m.S (forward m b h) := by
  have e : normalize m.S b = b := by
    funext s; unfold normalize; rw [hb, div_one]
  have := filter_normalize_eq_forward m h b (by rw [hb]; exact one_ne_zero) hp
  rw [e] at this
  exact this

/-- chain rule: the mass of the forward vector is the likelihood of the observation sequence,
    `Σ_s α_t(s) = Π_k P(o_k | b_{k-1}, a_k)` -/
theorem forward_sum_eq_seqProb (m : POMDP) :
    ∀ (h : List (Nat × Nat)) (v : Vec), sumTo m.S v ≠ 0 → PosHist m v h →
      sumTo m.S (forward m v h) = sumTo m.S v * seqProb m (normalize m.S v) h
  | [], _, _, _ => by simp [forward, seqProb]
  | (a, o) :: h, v, hv, hp => by
    simp only [forward, seqProb]
    rw [forward_sum_eq_seqProb m h _ hp.1 hp.2, update_normalize m hv a o, ← unnorm_sum_eq_prob_o]
    have e : normalize m.S v = fun s => (1 / sumTo m.S v) * v s := by
      funext s; unfold normalize; ring
    rw [e, unnorm_smul, sumTo_mul_left]
    field_simp

/-- the forward vector stays non-negative along any history -/
theorem forward_nonneg {m : POMDP} (hm : NonnegModel m) :
    ∀ (h : List (Nat × Nat)) (v : Vec), (∀ s, s < m.S → 0 ≤ v s) →
      (∀ p ∈ h, p.1 < m.A ∧ p.2 < m.O) → ∀ s, s < m.S → 0 ≤ forward m v h s
  | [], _, hv, _ => hv
  | (a, o) :: h, v, hv, hh => by
    simp only [forward]
    have hao := hh (a, o) (List.mem_cons_self ..)
    exact forward_nonneg hm h _ (unnorm_nonneg hm hv hao.1 hao.2)
      (fun p hp => hh p (List.mem_cons_of_mem _ hp))

theorem forward_append (m : POMDP) : ∀ (h : List (Nat × Nat)) (b : Vec) (a o : Nat),
    forward m b (h ++ [(a, o)]) = unnormG m (forward m b h) a o
  | [], _, _, _ => rfl
  | (a', o') :: h, b, a, o => by
    simp only [List.cons_append, forward]
    exact forward_append m h _ a o

/-- the belief is a sufficient statistic: the probability of the next observation computed from the
    filtered belief alone equals the one computed from the whole history (ratio of forward masses) -/
theorem belief_sufficient (m : POMDP) {b : Vec} (hb : sumTo m.S b = 1) (h : List (Nat × Nat))
    (hp : PosHist m b h) (a o : Nat) :
    probO m (filter m b h) a o = sumTo m.S (forward m b (h ++ [(a, o)])) / sumTo m.S (forward m b h) := by
  rw [filter_eq_forward m hb h hp, forward_append, ← unnorm_sum_eq_prob_o]
  have e : normalize m.S (forward m b h) = fun s => (1 / sumTo m.S (forward m b h)) * forward m b h s := by
    funext s; unfold normalize; ring
  rw [e, unnorm_smul, sumTo_mul_left]
  ring

/-! ## Bayes semantics made explicit: the update is a conditional probability of the joint distribution -/

/-- the joint over (s, s1, o) is a probability distribution -/
theorem joint_sum_one {m : POMDP} (hm : ValidModel m) {b : Vec} (hb : IsBelief m.S b) {a : Nat} (ha : a < m.A) :
    sumTo m.S (fun s => sumTo m.S (fun s1 => sumTo m.O (fun o => joint m b a s s1 o))) = 1 := by
  have h1 : ∀ s, s < m.S → sumTo m.S (fun s1 => sumTo m.O (fun o => joint m b a s s1 o)) = b s := by
    intro s hs
    have h2 : ∀ s1, s1 < m.S → sumTo m.O (fun o => joint m b a s s1 o) = b s * m.T s a s1 := by
      intro s1 hs1
      unfold joint
      rw [sumTo_mul_left, hm.O_sum s1 a hs1 ha, mul_one]
    rw [sumTo_congr h2, sumTo_mul_left, hm.T_sum s a hs ha, mul_one]
  rw [sumTo_congr h1, hb.sum_one]

theorem joint_nonneg {m : POMDP} (hm : NonnegModel m) {b : Vec} (hb : ∀ s, s < m.S → 0 ≤ b s) {a : Nat} (ha : a < m.A)
    {s s1 o : Nat} (hs : s < m.S) (hs1 : s1 < m.S) (ho : o < m.O) : 0 ≤ joint m b a s s1 o :=
  mul_nonneg (mul_nonneg (hb s hs) (hm.T_nonneg s a s1 hs ha hs1)) (hm.O_nonneg s1 a o hs1 ha ho)

/-- the Bayes weight is the marginal `P(s1, o)` of the joint -/
theorem weight_eq_marginal (m : POMDP) (b : Vec) (a o s1 : Nat) :
    weight m b a o s1 = sumTo m.S (fun s => joint m b a s s1 o) := by
  unfold weight joint
  rw [← sumTo_mul_left]
  apply sumTo_congr
  intro s _; ring

/-- `P(o | b,a)` is the marginal `P(o)` of the joint -/
theorem probO_eq_marginal (m : POMDP) (b : Vec) (a o : Nat) :
    probO m b a o = sumTo m.S (fun s => sumTo m.S (fun s1 => joint m b a s s1 o)) := by
  unfold probO joint
  apply sumTo_congr
  intro s _
  rw [← sumTo_mul_left]
  apply sumTo_congr
  intro s1 _; ring

/-- `updateBelief` returns the conditional probability `P(s1 | o) = P(s1, o) / P(o)` of the joint -/
theorem update_eq_conditional (m : POMDP) (b : Vec) (a o s1 : Nat) :
    updateG m b a o s1 = sumTo m.S (fun s => joint m b a s s1 o)
        / sumTo m.S (fun s => sumTo m.S (fun s1 => joint m b a s s1 o)) := by
  rw [← weight_eq_marginal, ← probO_eq_marginal, ← unnorm_sum_eq_prob_o]
  rfl

/-! ## forward–backward: the mass of the forward vector is the true likelihood of the observation sequence -/

theorem forward_backward (m : POMDP) :
    ∀ (h : List (Nat × Nat)) (b : Vec),
      sumTo m.S (forward m b h) = sumTo m.S (fun s => b s * backward m h s)
  | [], b => by simp [forward, backward]
  | (a, o) :: h, b => by
    simp only [forward, backward]
    rw [forward_backward m h]
    unfold unnormG
    have h1 : (fun s1 => m.Ob s1 a o * sumTo m.S (fun s => m.T s a s1 * b s) * backward m h s1)
        = (fun s1 => sumTo m.S (fun s => b s * (m.T s a s1 * m.Ob s1 a o * backward m h s1))) := by
      funext s1
      rw [mul_comm (m.Ob s1 a o), mul_assoc, ← sumTo_mul_right]
      apply sumTo_congr
      intro s _; ring
    rw [h1, sumTo_comm]
    apply sumTo_congr
    intro s _
    rw [sumTo_mul_left]

/-- the product of the library's own per-step normalisers is the likelihood of the whole observation
    sequence computed from the tables alone -/
theorem seqProb_eq_likelihood (m : POMDP) {b : Vec} (hb : sumTo m.S b = 1) (h : List (Nat × Nat))
    (hp : PosHist m b h) : seqProb m b h = sumTo m.S (fun s => b s * backward m h s) := by
  have e : normalize m.S b = b := by
    funext s; unfold normalize; rw [hb, div_one]
  have h1 := forward_sum_eq_seqProb m h b (by rw [hb]; exact one_ne_zero) hp
  rw [e, hb, one_mul] at h1
  rw [← h1, forward_backward]

/-! ## soundness of the decidable checkers the driver evaluates on the library's exact outputs -/

theorem allLt_iff {n : Nat} {p : Nat → Bool} : allLt n p = true ↔ ∀ i, i < n → p i = true := by
  simp [allLt, List.all_eq_true, List.mem_range]

/-- a reported vector that passes `checkUnnorm` satisfies every clause of C05, whatever code produced it -/
theorem checkUnnorm_sound {m : POMDP} (hm : NonnegModel m) {b : Vec} (hb : ∀ s, s < m.S → 0 ≤ b s)
    {a o : Nat} (ha : a < m.A) (ho : o < m.O) (impl : Vec) (h : checkUnnorm m b a o impl = true) :
    (∀ s1, s1 < m.S → 0 ≤ impl s1) ∧
    sumTo m.S impl = probO m b a o ∧
    (0 < probO m b a o →
      (∀ s1, s1 < m.S → 0 ≤ normalize m.S impl s1) ∧ sumTo m.S (normalize m.S impl) = 1 ∧
      (∀ s1, s1 < m.S → normalize m.S impl s1 = weight m b a o s1 / probO m b a o)) := by
  have he : ∀ s1, s1 < m.S → impl s1 = unnormG m b a o s1 := by
    intro s1 hs1
    have := (allLt_iff.mp h) s1 hs1
    rw [unnormG_eq_weight]; simpa using this
  have hs : sumTo m.S impl = probO m b a o := by
    rw [sumTo_congr he, unnorm_sum_eq_prob_o]
  refine ⟨fun s1 hs1 => by rw [he s1 hs1]; exact unnorm_nonneg hm hb ha ho s1 hs1, hs, ?_⟩
  intro hpos
  have hne : sumTo m.S impl ≠ 0 := by rw [hs]; exact ne_of_gt hpos
  refine ⟨?_, normalize_sum hne, ?_⟩
  · intro s1 hs1
    unfold normalize
    rw [hs, he s1 hs1]
    exact div_nonneg (unnorm_nonneg hm hb ha ho s1 hs1) (le_of_lt hpos)
  · intro s1 hs1
    unfold normalize
    rw [hs, he s1 hs1]; rfl

/-- reported prediction + reported per-observation updates that pass their checkers add up, entry by entry -/
theorem checkPredict_sound {m : POMDP} (hm : ValidModel m) {b : Vec} {a : Nat} (ha : a < m.A)
    (implP : Vec) (implU : Nat → Vec) (hP : checkPredict m b a implP = true)
    (hU : ∀ o, o < m.O → checkUnnorm m b a o (implU o) = true) :
    ∀ s1, s1 < m.S → sumTo m.O (fun o => implU o s1) = implP s1 := by
  intro s1 hs1
  have e1 : implP s1 = predictG m b a s1 := by
    have := (allLt_iff.mp hP) s1 hs1
    simpa using this
  have e2 : ∀ o, o < m.O → implU o s1 = unnormG m b a o s1 := by
    intro o ho
    have := (allLt_iff.mp (hU o ho)) s1 hs1
    rw [unnormG_eq_weight]; simpa using this
  rw [sumTo_congr e2, e1, sum_over_o_eq_predict hm b ha hs1]

/-- a reported matrix that passes `checkSosa` reproduces the unnormalised update of EVERY belief -/
theorem checkSosa_sound (m : POMDP) (a o : Nat) (impl : Mat) (h : checkSosa m a o impl = true) (b : Vec) :
    ∀ s1, s1 < m.S → vecMat m.S b impl s1 = unnormG m b a o s1 := by
  intro s1 hs1
  rw [← sosa_row]
  unfold vecMat
  apply sumTo_congr
  intro s hs
  have := (allLt_iff.mp ((allLt_iff.mp h) s hs)) s1 hs1
  have e : impl s s1 = sosaG m a o s s1 := by unfold sosaG; simpa using this
  rw [e]

/-! ## the hypotheses are satisfiable: a concrete asymmetric model (the harness's fixed case 1) -/

/-- asymmetric 3-state, 1-action, 2-observation POMDP -/
def exM : POMDP :=
  { S := 3, A := 1, O := 2,
    T := fun s _ s1 => ofList2 3 [1/2, 1/2, 0,   0, 1/4, 3/4,   1/8, 0, 7/8] s s1,
    Ob := fun s1 _ o => ofList2 2 [3/4, 1/4,   0, 1,   1/2, 1/2] s1 o,
    R := fun s _ s1 => ofList2 3 [1, -2, 0,   0, 1/2, 4,   -1, 0, 1/4] s s1 }

def exB : Vec := ofList [1/8, 5/8, 1/4]

theorem exM_valid : ValidModel exM := by
  refine ⟨⟨?_, ?_⟩, ?_, ?_⟩
  · intro s a s1 hs ha hs1
    simp only [exM] at hs hs1
    interval_cases s <;> interval_cases s1 <;> norm_num [exM, ofList2]
  · intro s1 a o hs1 ha ho
    simp only [exM] at hs1 ho
    interval_cases s1 <;> interval_cases o <;> norm_num [exM, ofList2]
  · intro s a hs ha
    simp only [exM] at hs
    interval_cases s <;> norm_num [exM, ofList2, sumTo]
  · intro s1 a hs1 ha
    simp only [exM] at hs1
    interval_cases s1 <;> norm_num [exM, ofList2, sumTo]

theorem exB_belief : IsBelief 3 exB := by
  constructor
  · intro s hs; interval_cases s <;> norm_num [exB, ofList]
  · norm_num [exB, ofList, sumTo]

/-- (test on literals) `P(o=0 | b, a=0) = 53/128 > 0` -/
theorem ex_probO : probO exM exB 0 0 = 53/128 := by
  norm_num [probO, exM, exB, ofList, ofList2, sumTo]

/-- the hypotheses of `posterior_is_bayes` hold for `exM`, `exB`, a = 0, o = 0 -/
example : (∀ s1, s1 < 3 → 0 ≤ updateG exM exB 0 0 s1) ∧ sumTo 3 (updateG exM exB 0 0) = 1 :=
  let h := posterior_is_bayes exM_valid.toNonnegModel exB_belief.nonneg (a := 0) (o := 0) (by decide) (by decide)
    (by rw [ex_probO]; norm_num)
  ⟨h.1, h.2.1⟩

/-- (test on literals) the posterior of state 0 is 9/53 — not what a transposed T gives (21/53) -/
example : updateG exM exB 0 0 0 = 9/53 := by
  norm_num [updateG, normalize, unnormG, exM, exB, ofList, ofList2, sumTo]

/-- the hypotheses of `filter_eq_forward` hold for a two-step history on `exM` -/
example : PosHist exM exB [(0, 0), (0, 1)] := by
  refine ⟨?_, ?_, trivial⟩ <;>
  norm_num [unnormG, exM, exB, ofList, ofList2, sumTo]


/-! ## in-place calls (`bRet == &b`) of the pointer overloads

  FULL-STRENGTH statement (what C05 needs, and what holds for every branch once the alias guard of
  fixes/C05-1-inplace-alias-guard.diff is in place, because the guarded call runs the ordinary code on a copy):

      ∀ m b a o,  (result of the call with bRet == &b) = (result of the call with a separate output)

  For the code as it is this is FALSE on the loop branch (`inplace_generic_counterexample`,
  `inplace_predict_counterexample`) and on the sparse Eigen branch (`inplace_sparse_counterexample`); it is true
  on the dense Eigen branch only because Eigen evaluates `bᵀ·T_a` into a temporary.  What the loop branch does
  satisfy is the `_partial` form below: in-place is right when no cell reads a cell written before it. -/

theorem inplace_inv (m : POMDP) (b : Vec) (a o : Nat) (hT : ∀ s s1, s < s1 → m.T s a s1 = 0) :
    ∀ n, (∀ k, k < n → unnormInPlaceG m b a o n k = unnormG m b a o k) ∧
         (∀ k, n ≤ k → unnormInPlaceG m b a o n k = b k)
  | 0 => ⟨fun k hk => by omega, fun k _ => rfl⟩
  | n+1 => by
    obtain ⟨ih1, ih2⟩ := inplace_inv m b a o hT n
    constructor
    · intro k hk
      simp only [unnormInPlaceG]
      by_cases hkn : k = n
      · subst hkn
        simp only [if_true]
        unfold unnormG
        congr 1
        apply sumTo_congr
        intro s _
        rcases Nat.lt_or_ge s k with h | h
        · rw [hT s k h]; ring
        · rw [ih2 s h]
      · simp only [hkn, if_false]
        exact ih1 k (by omega)
    · intro k hk
      simp only [unnormInPlaceG]
      have : k ≠ n := by omega
      simp only [this, if_false]
      exact ih2 k (by omega)

/-- `_partial`: the unguarded in-place loop is right when every transition goes to a state of lower or equal
    index (then cell `s1` never reads a cell overwritten before it) -/
theorem inplace_generic_partial (m : POMDP) (b : Vec) (a o : Nat) (hT : ∀ s s1, s < s1 → m.T s a s1 = 0) :
    ∀ s1, s1 < m.S → unnormInPlaceG m b a o m.S s1 = unnormG m b a o s1 :=
  fun s1 hs1 => (inplace_inv m b a o hT m.S).1 s1 hs1

/-- the witness of the harness's fixed case 3: cell 2 is 7/64 in place, 11/32 out of place -/
theorem inplace_generic_counterexample :
    ¬ (∀ s1, s1 < exM.S → unnormInPlaceG exM exB 0 0 exM.S s1 = unnormG exM exB 0 0 s1) := by
  intro h
  have h2 := h 2 (by decide)
  norm_num [unnormInPlaceG, unnormG, exM, exB, ofList, ofList2, sumTo] at h2

theorem inplace_predict_counterexample :
    ¬ (∀ s1, s1 < exM.S → predictInPlaceG exM exB 0 exM.S s1 = predictG exM exB 0 s1) := by
  intro h
  have h0 := h 0 (by decide)
  norm_num [predictInPlaceG, predictCellInPlace, predictG, exM, exB, ofList, ofList2, sumTo] at h0

theorem inplace_sparse_counterexample :
    ¬ (∀ s1, s1 < exM.S → unnormInPlaceSp exM exB 0 0 s1 = unnormG exM exB 0 0 s1) := by
  intro h
  have h0 := h 0 (by decide)
  norm_num [unnormInPlaceSp, unnormG, exM, exB, ofList, ofList2, sumTo] at h0

/-- FULL-STRENGTH, repaired code (alias guard present): an in-place call returns what the out-of-place call returns,
    for every model, belief, action and observation -/
theorem inplace_guarded (m : POMDP) (b : Vec) (a o : Nat) :
    unnormPtrG true true m b a o = unnormPtrG true false m b a o ∧
    predictPtrG true true m b a = predictPtrG true false m b a := ⟨rfl, rfl⟩

/-- the same statement for the code as it is (no guard) is false -/
theorem inplace_unguarded_counterexample :
    ¬ (∀ (m : POMDP) (b : Vec) (a o : Nat) (s1 : Nat), s1 < m.S →
        unnormPtrG false true m b a o s1 = unnormPtrG false false m b a o s1) := by
  intro h
  exact inplace_generic_counterexample (fun s1 hs1 => h exM exB 0 0 s1 hs1)

/-! ### the list-state versions run by the driver are the in-place models above -/

theorem unnormInPlaceL_length (m : POMDP) (a o : Nat) : ∀ n st, (unnormInPlaceL m a o n st).length = st.length
  | 0, _ => rfl
  | n+1, st => by simp [unnormInPlaceL, unnormInPlaceL_length m a o n st]

theorem unnormInPlaceL_eq (m : POMDP) (a o : Nat) (st : List Rat) :
    ∀ n, n ≤ st.length → ∀ k, (unnormInPlaceL m a o n st).getD k 0 = unnormInPlaceG m (ofList st) a o n k
  | 0, _, k => rfl
  | n+1, hn, k => by
    have ih := unnormInPlaceL_eq m a o st n (by omega)
    have hlen := unnormInPlaceL_length m a o n st
    simp only [unnormInPlaceL, unnormInPlaceG]
    have hsum : sumTo m.S (fun s => m.T s a n * (unnormInPlaceL m a o n st).getD s 0)
        = sumTo m.S (fun s => m.T s a n * unnormInPlaceG m (ofList st) a o n s) := by
      apply sumTo_congr; intro s _; rw [ih s]
    rw [hsum]
    by_cases hk : k = n
    · subst hk
      simp only [if_true]
      rw [List.getD_eq_getElem?_getD, List.getElem?_set]
      have : k < (unnormInPlaceL m a o k st).length := by omega
      simp [this]
    · simp only [hk, if_false]
      rw [List.getD_eq_getElem?_getD, List.getElem?_set]
      have : ¬ n = k := fun h => hk h.symm
      simp only [this, if_false]
      rw [← List.getD_eq_getElem?_getD]
      exact ih k

theorem predictInPlaceL_length (m : POMDP) (a : Nat) : ∀ n st, (predictInPlaceL m a n st).length = st.length
  | 0, _ => rfl
  | n+1, st => by simp [predictInPlaceL, predictInPlaceL_length m a n st]

theorem predictInPlaceL_eq (m : POMDP) (a : Nat) (st : List Rat) :
    ∀ n, n ≤ st.length → ∀ k, (predictInPlaceL m a n st).getD k 0 = predictInPlaceG m (ofList st) a n k
  | 0, _, k => rfl
  | n+1, hn, k => by
    have ih := predictInPlaceL_eq m a st n (by omega)
    have hlen := predictInPlaceL_length m a n st
    simp only [predictInPlaceL, predictInPlaceG]
    have hv : (fun i => (predictInPlaceL m a n st).getD i 0) = predictInPlaceG m (ofList st) a n := funext ih
    rw [hv]
    by_cases hk : k = n
    · subst hk
      simp only [if_true]
      rw [List.getD_eq_getElem?_getD, List.getElem?_set]
      have : k < (predictInPlaceL m a k st).length := by omega
      simp [this]
    · simp only [hk, if_false]
      rw [List.getD_eq_getElem?_getD, List.getElem?_set]
      have : ¬ n = k := fun h => hk h.symm
      simp only [this, if_false]
      rw [← List.getD_eq_getElem?_getD]
      exact ih k

end AITB.Belief
