/-
  AITB.Props.C14h — C14 continued: a CooperativeQLearning learner whose single basis spans all state factors and all
  agents performs, entry for entry, flat QLearning's update on the summed reward.
-/
import AITB.Props.C14g

namespace AITB.Factored

theorem addAt_length (val : Rat) : ∀ (tag : List Nat) (per : List Rat), (addAt per tag val).length = per.length
  | [], per => rfl
  | t :: ts, per => by
    unfold addAt
    simp only [List.foldl_cons]
    have := addAt_length val ts (per.set t (per.getD t 0 + val))
    unfold addAt at this
    rw [this, List.length_set]

/-- `for (auto a : tag) per[a] += val` adds `val` exactly to the named (distinct, in-range) entries -/
theorem addAt_getD (val : Rat) : ∀ (tag : List Nat) (per : List Rat) (i : Nat), tag.Nodup → (∀ t ∈ tag, t < per.length) →
    (addAt per tag val).getD i 0 = per.getD i 0 + (if i ∈ tag then val else 0)
  | [], per, i, _, _ => by simp [addAt]
  | t :: ts, per, i, hnd, hin => by
    have hnd' := (List.nodup_cons.mp hnd).2
    have hnt := (List.nodup_cons.mp hnd).1
    have ht : t < per.length := hin t (List.mem_cons_self ..)
    have ih := addAt_getD val ts (per.set t (per.getD t 0 + val)) i hnd'
      (fun u hu => by rw [List.length_set]; exact hin u (List.mem_cons_of_mem _ hu))
    unfold addAt at ih ⊢
    simp only [List.foldl_cons]
    rw [ih]
    by_cases hit : i = t
    · subst hit
      simp [hnt, List.getD_eq_getElem?_getD, List.getElem?_set_self ht]
    · have : (per.set t (per.getD t 0 + val)).getD i 0 = per.getD i 0 := by
        simp [List.getD_eq_getElem?_getD, List.getElem?_set_ne (Ne.symm hit)]
      rw [this]
      simp [hit]

theorem foldl_range_sumN (g : Nat → Rat) : ∀ (k : Nat) , (List.range k).foldl (fun u ag => u + g ag) 0 = sumN k g
  | 0 => rfl
  | k + 1 => by rw [List.range_succ, List.foldl_append, foldl_range_sumN g k]; simp [sumN]

theorem foldl_sum_sumN : ∀ (l : List Rat), l.foldl (· + ·) 0 = sumN l.length (fun i => l.getD i 0)
  | [] => rfl
  | x :: l => by
    rw [foldl_sum_init, List.foldl_cons, foldl_sum_init l (0 + x), foldl_sum_sumN l, List.length_cons, sumN_succ_left]
    simp

theorem range_nodup' (k : Nat) : (List.range k).Nodup := List.nodup_range

/-- per-agent accumulator of a single all-agents basis, read entry-wise -/
theorem coopPer_single_getD (S A : List Nat) (alpha gamma : Rat) (b : BM) (s a s1 a1 : List Nat) (rew : List Rat)
    (hat : b.atag = List.range A.length) (hrew : rew.length = A.length) (ag : Nat) (hag : ag < A.length) :
    (coopPer S A alpha gamma [b] (List.replicate A.length 1) s a s1 a1 rew).getD ag 0
      = (rew.getD ag 0 + (gamma * b.get S A s1 a1 / (A.length : Rat) + -(b.get S A s a) / (A.length : Rat))) * alpha := by
  unfold coopPer
  simp only [List.foldl_cons, List.foldl_nil, hat, List.length_range]
  have hl0 : ((rew.zip (List.replicate A.length (1 : Rat))).map (fun rn => rn.1 / rn.2)).length = A.length := by
    simp [hrew]
  have hmem : ag ∈ List.range A.length := List.mem_range.mpr hag
  rw [List.getD_eq_getElem?_getD, List.getElem?_map]
  have hlen2 : ag < (addAt (addAt ((rew.zip (List.replicate A.length (1 : Rat))).map (fun rn => rn.1 / rn.2)) (List.range A.length)
      (gamma * b.get S A s1 a1 / (A.length : Rat))) (List.range A.length) (-(b.get S A s a) / (A.length : Rat))).length := by
    rw [addAt_length, addAt_length, hl0]; exact hag
  rw [List.getElem?_eq_getElem hlen2]
  simp only [Option.map_some, Option.getD_some]
  have e := addAt_getD (-(b.get S A s a) / (A.length : Rat)) (List.range A.length)
      (addAt ((rew.zip (List.replicate A.length (1 : Rat))).map (fun rn => rn.1 / rn.2)) (List.range A.length)
        (gamma * b.get S A s1 a1 / (A.length : Rat))) ag (range_nodup' _)
      (fun t ht => by rw [addAt_length, hl0]; exact List.mem_range.mp ht)
  rw [List.getD_eq_getElem?_getD, List.getElem?_eq_getElem hlen2] at e
  simp only [Option.getD_some] at e
  rw [e, addAt_getD _ _ _ ag (range_nodup' _) (fun t ht => by rw [hl0]; exact List.mem_range.mp ht)]
  simp only [hmem, if_true]
  have h0 : ((rew.zip (List.replicate A.length (1 : Rat))).map (fun rn => rn.1 / rn.2)).getD ag 0 = rew.getD ag 0 := by
    have h1 : ag < rew.length := by omega
    simp [List.getD_eq_getElem?_getD, h1, hag]
  rw [h0]; ring

/-- **single basis = flat QLearning, at table level**: if the only basis names every state factor and every one of the
    `k ≥ 1` agents (so every normaliser is 1), `stepUpdateQ(s, a, s1, rew)` rewrites exactly the entry
    `(toIndex S s, toIndex A a)` of the basis matrix, with flat QLearning's update for the summed reward and the value at
    the greedy next action -/
theorem coopStep_single (S A : List Nat) (alpha gamma : Rat) (b : BM) (s a s1 a1 : List Nat) (rew : List Rat)
    (hs : Valid S s) (ha : Valid A a) (ht : b.tag = List.range S.length) (hat : b.atag = List.range A.length)
    (hk : A ≠ []) (hrew : rew.length = A.length) :
    coopStep S A alpha gamma (List.replicate A.length 1) [b] (s, a, s1, a1, rew)
      = [b.put (toIndex S s) (toIndex A a)
          (qlUpdate alpha gamma (b.get S A s a) (b.get S A s1 a1) (rew.foldl (· + ·) 0))] := by
  have e1 : toIndexPartial b.tag S s = toIndex S s := by
    unfold toIndexPartial
    rw [ht, sel_range S, ← valid_length S s hs, sel_range s, toIndexLoop_eq]; simp
  have e2 : toIndexPartial b.atag A a = toIndex A a := by
    unfold toIndexPartial
    rw [hat, sel_range A, ← valid_length A a ha, sel_range a, toIndexLoop_eq]; simp
  have hn : (A.length : Rat) ≠ 0 := by
    have : A.length ≠ 0 := by cases A with | nil => exact absurd rfl hk | cons _ _ => simp
    exact_mod_cast this
  unfold coopStep
  simp only [List.map_cons, List.map_nil, e1, e2]
  congr 2
  -- the update: Σ over all agents of the per-agent accumulator
  rw [hat, foldl_range_sumN]
  have hper : ∀ ag, ag < A.length → (coopPer S A alpha gamma [b] (List.replicate A.length 1) s a s1 a1 rew).getD ag 0
      = (rew.getD ag 0 + (gamma * b.get S A s1 a1 / (A.length : Rat) + -(b.get S A s a) / (A.length : Rat))) * alpha :=
    fun ag hag => coopPer_single_getD S A alpha gamma b s a s1 a1 rew hat hrew ag hag
  rw [sumN_congr hper, sumN_mul_right, sumN_plus, foldl_sum_sumN rew, hrew]
  have hconst : sumN A.length (fun _ => gamma * b.get S A s1 a1 / (A.length : Rat) + -(b.get S A s a) / (A.length : Rat))
      = (A.length : Rat) * (gamma * b.get S A s1 a1 / (A.length : Rat) + -(b.get S A s a) / (A.length : Rat)) := by
    generalize (gamma * b.get S A s1 a1 / (A.length : Rat) + -(b.get S A s a) / (A.length : Rat)) = c
    induction A.length with
    | zero => simp [sumN]
    | succ n ih => simp only [sumN]; rw [ih]; push_cast; ring
  rw [hconst]
  unfold qlUpdate
  field_simp
  ring

/-! ## … and along every history -/

/-- flat Q-learning step that bootstraps from a GIVEN next action (it is `qlStep` when that action is greedy) -/
def qlStepAt (alpha gamma : Rat) (q : QTab) (e : Nat × Nat × Nat × Nat × Rat) : QTab :=
  q.put e.1 e.2.1 (qlUpdate alpha gamma (q.get e.1 e.2.1) (q.get e.2.2.1 e.2.2.2.1) e.2.2.2.2)

theorem qlStepAt_greedy (alpha gamma : Rat) (q : QTab) (s a s1 a1 : Nat) (r : Rat)
    (hg : q.get s1 a1 = rowMax (q.getD s1 [])) :
    qlStepAt alpha gamma q (s, a, s1, a1, r) = qlStep alpha gamma q (s, a, s1, r) := by
  unfold qlStepAt qlStep
  simp only [hg]

/-- the flat image of a factored experience tuple (with the sampled next action) -/
def flatEventC (S A : List Nat) (e : List Nat × List Nat × List Nat × List Nat × List Rat) : Nat × Nat × Nat × Nat × Rat :=
  (toIndex S e.1, toIndex A e.2.1, toIndex S e.2.2.1, toIndex A e.2.2.2.1, e.2.2.2.2.foldl (· + ·) 0)

def EventOK (S A : List Nat) (e : List Nat × List Nat × List Nat × List Nat × List Rat) : Prop :=
  Valid S e.1 ∧ Valid A e.2.1 ∧ Valid S e.2.2.1 ∧ Valid A e.2.2.2.1 ∧ e.2.2.2.2.length = A.length

theorem bm_get_full (S A : List Nat) (b : BM) (s a : List Nat) (hs : Valid S s) (ha : Valid A a)
    (ht : b.tag = List.range S.length) (hat : b.atag = List.range A.length) :
    b.get S A s a = QTab.get b.vals (toIndex S s) (toIndex A a) := by
  have e1 : toIndexPartial b.tag S s = toIndex S s := by
    unfold toIndexPartial
    rw [ht, sel_range S, ← valid_length S s hs, sel_range s, toIndexLoop_eq]; simp
  have e2 : toIndexPartial b.atag A a = toIndex A a := by
    unfold toIndexPartial
    rw [hat, sel_range A, ← valid_length A a ha, sel_range a, toIndexLoop_eq]; simp
  unfold BM.get QTab.get
  rw [e1, e2]

/-- **single-basis CooperativeQLearning = flat Q-learning for every history**: the basis matrix after any sequence of
    updates is the flat table obtained by running the flat update on the re-indexed experiences (summed rewards,
    bootstrap from the sampled next action; by `qlStepAt_greedy` that is `MDP::QLearning` whenever the sampled action
    is greedy — the maximiser's correctness is property C13) -/
theorem coopRun_single (S A : List Nat) (alpha gamma : Rat) (hk : A ≠ []) :
    ∀ (hist : List (List Nat × List Nat × List Nat × List Nat × List Rat)) (b : BM),
    b.tag = List.range S.length → b.atag = List.range A.length → (∀ e ∈ hist, EventOK S A e) →
    coopRun S A alpha gamma (List.replicate A.length 1) [b] hist
      = [{ b with vals := (hist.map (flatEventC S A)).foldl (qlStepAt alpha gamma) b.vals }]
  | [], b, _, _, _ => rfl
  | e :: hist, b, ht, hat, hok => by
    obtain ⟨h1, h2, h3, h4, h5⟩ := hok e (List.mem_cons_self ..)
    obtain ⟨s, a, s1, a1, rew⟩ := e
    unfold coopRun
    simp only [List.foldl_cons, List.map_cons]
    rw [coopStep_single S A alpha gamma b s a s1 a1 rew h1 h2 ht hat hk h5]
    have ih := coopRun_single S A alpha gamma hk hist
      (b.put (toIndex S s) (toIndex A a) (qlUpdate alpha gamma (b.get S A s a) (b.get S A s1 a1) (rew.foldl (· + ·) 0)))
      ht hat (fun e' he' => hok e' (List.mem_cons_of_mem _ he'))
    unfold coopRun at ih
    rw [ih]
    congr 2
    unfold qlStepAt flatEventC
    simp only
    rw [bm_get_full S A b s a h1 h2 ht hat, bm_get_full S A b s1 a1 h3 h4 ht hat]
    rfl

/-- the normaliser of a single all-agents basis (as the constructor intends it) is 1 for every agent -/
theorem coopNorm_single (k : Nat) (b : BM) (hat : b.atag = List.range k) : coopNorm k [b] = List.replicate k 1 := by
  unfold coopNorm
  apply List.ext_getElem
  · simp
  · intro i h1 h2
    simp only [List.length_map, List.length_range] at h1
    simp [hat, h1]

/-! ## SparseCooperativeQLearning: one applicable all-agents rule before and after = flat Q-learning's update -/

theorem sumN_const (k : Nat) (c : Rat) : sumN k (fun _ => c) = (k : Rat) * c := by
  induction k with
  | zero => simp [sumN]
  | succ n ih => simp only [sumN]; rw [ih]; push_cast; ring

theorem addAt_map_getD (val : Rat) (k : Nat) (per : List Rat) (hl : per.length = k) (ag : Nat) (hag : ag < k) :
    (addAt per (List.range k) val).getD ag 0 = per.getD ag 0 + val := by
  rw [addAt_getD val _ _ ag (range_nodup' _) (fun t ht => by rw [hl]; exact List.mem_range.mp ht)]
  simp [List.mem_range.mpr hag]

theorem sparsePer_single_getD (k : Nat) (alpha gamma : Rat) (rules : List QRule) (s a s1 a1 : List Nat) (rew : List Rat)
    (r r' : QRule) (hb : rules.filter (·.applies s a) = [r]) (haft : rules.filter (·.applies s1 a1) = [r'])
    (hr : r.ak = List.range k) (hr' : r'.ak = List.range k) (hrew : rew.length = k) (ag : Nat) (hag : ag < k) :
    (sparsePer k alpha gamma rules s a s1 a1 rew).getD ag 0
      = (rew.getD ag 0 + (gamma * r'.value / (k : Rat) + -r.value / (k : Rat))) * alpha := by
  unfold sparsePer
  simp only [hb, haft, List.foldl_cons, List.foldl_nil, hr, hr', List.length_range]
  have hcnt : ∀ i, i < k → (addAt (List.replicate k (0 : Rat)) (List.range k) 1).getD i 0 = 1 := by
    intro i hi
    rw [addAt_map_getD 1 k _ (by simp) i hi]
    simp [List.getD_eq_getElem?_getD, hi]
  have hl0 : ((rew.zip (addAt (List.replicate k (0 : Rat)) (List.range k) 1)).map (fun rc => rc.1 / rc.2)).length = k := by
    simp [hrew, addAt_length]
  have h0 : ((rew.zip (addAt (List.replicate k (0 : Rat)) (List.range k) 1)).map (fun rc => rc.1 / rc.2)).getD ag 0 = rew.getD ag 0 := by
    have h1 : ag < rew.length := by omega
    have h2 : ag < (addAt (List.replicate k (0 : Rat)) (List.range k) 1).length := by rw [addAt_length]; simpa using hag
    have hc := hcnt ag hag
    rw [List.getD_eq_getElem?_getD, List.getElem?_eq_getElem h2] at hc
    simp only [Option.getD_some] at hc
    have hz : ag < (rew.zip (addAt (List.replicate k (0 : Rat)) (List.range k) 1)).length := by
      rw [List.length_zip]; omega
    rw [List.getD_eq_getElem?_getD, List.getElem?_map, List.getElem?_eq_getElem hz]
    simp only [Option.map_some, Option.getD_some, List.getElem_zip, hc, div_one]
    simp [List.getD_eq_getElem?_getD, List.getElem?_eq_getElem h1]
  have hl1 : (addAt ((rew.zip (addAt (List.replicate k (0 : Rat)) (List.range k) 1)).map (fun rc => rc.1 / rc.2)) (List.range k)
      (gamma * r'.value / (k : Rat))).length = k := by rw [addAt_length, hl0]
  have hl2 : ag < (addAt (addAt ((rew.zip (addAt (List.replicate k (0 : Rat)) (List.range k) 1)).map (fun rc => rc.1 / rc.2)) (List.range k)
      (gamma * r'.value / (k : Rat))) (List.range k) (-r.value / (k : Rat))).length := by rw [addAt_length, hl1]; exact hag
  rw [List.getD_eq_getElem?_getD, List.getElem?_map, List.getElem?_eq_getElem hl2]
  simp only [Option.map_some, Option.getD_some]
  have e := addAt_map_getD (-r.value / (k : Rat)) k _ hl1 ag hag
  rw [List.getD_eq_getElem?_getD, List.getElem?_eq_getElem hl2] at e
  simp only [Option.getD_some] at e
  rw [e, addAt_map_getD _ k _ hl0 ag hag, h0]
  ring

/-- **SparseCooperativeQLearning, single applicable rule = flat Q-learning**: when exactly one rule `r` applies to (s, a)
    and exactly one rule `r'` to (s1, a1) — as with one rule per joint (state, action) — and both name all `k ≥ 1`
    agents, the step changes only `r`, to flat Q-learning's update of `r.value` towards `Σ rew + γ·r'.value` -/
theorem sparseStep_single (k : Nat) (alpha gamma : Rat) (rules : List QRule) (s a s1 a1 : List Nat) (rew : List Rat)
    (r r' : QRule) (hb : rules.filter (·.applies s a) = [r]) (haft : rules.filter (·.applies s1 a1) = [r'])
    (hr : r.ak = List.range k) (hr' : r'.ak = List.range k) (hrew : rew.length = k) (hk : k ≠ 0) :
    sparseStep k alpha gamma rules (s, a, s1, a1, rew)
      = rules.map (fun x => if x.applies s a then { x with value := qlUpdate alpha gamma r.value r'.value (rew.foldl (· + ·) 0) } else x) := by
  unfold sparseStep
  apply List.map_congr_left
  intro x hx
  by_cases hap : x.applies s a = true
  · have hxr : x = r := by
      have : x ∈ rules.filter (·.applies s a) := List.mem_filter.mpr ⟨hx, hap⟩
      rw [hb] at this
      simpa using this
    subst hxr
    simp only [hap, if_true]
    congr 1
    rw [hr, foldl_range_sumN]
    have hper := fun ag hag => sparsePer_single_getD k alpha gamma rules s a s1 a1 rew x r' hb haft hr hr' hrew ag hag
    rw [sumN_congr hper, sumN_mul_right, sumN_plus, foldl_sum_sumN rew, hrew]
    have hn : (k : Rat) ≠ 0 := by exact_mod_cast hk
    rw [sumN_const]
    unfold qlUpdate
    field_simp
    ring
  · simp [hap]

end AITB.Factored
