/-
  AITB.Props.C14b — C14 continued: PartialIndexEnumerator, factored algebra
  (dot/plus/minus, *Subset, plusEqual/minusEqual, scalar ops) and DDN / backProject.
  Theorems about AITB.Model.Factored / AITB.Model.FactoredAlg; unbounded in the number of
  factors, their sizes, the number of bases and the tags.
-/
import AITB.Props.C14
import AITB.Model.FactoredAlg
import Mathlib.Algebra.Order.Field.Rat
import Mathlib.Tactic.Ring
import Mathlib.Tactic.Linarith
import Mathlib.Tactic.FieldSimp

namespace AITB.Factored

/-! ## helper lemmas: the enumerator without a skipped factor is `map toFactors (range Π)` -/

theorem er_of_ge : ∀ (l : List Nat) (pos skip : Nat), pos + l.length ≤ skip → er pos skip l = l
  | [], _, _, _ => rfl
  | x :: xs, pos, skip, h => by
    simp only [er]
    have : pos ≠ skip := by simp at h; omega
    simp [this, er_of_ge xs (pos+1) skip (by simp at h ⊢; omega)]

theorem valid_length : ∀ (ds xs : List Nat), Valid ds xs → xs.length = ds.length
  | [], [], _ => rfl
  | [], _ :: _, h => by simp [Valid] at h
  | _ :: _, [], h => by simp [Valid] at h
  | d :: ds, x :: xs, h => by simp [valid_length ds xs h.2]

theorem valid_pos : ∀ (ds xs : List Nat), Valid ds xs → ∀ d ∈ ds, 0 < d
  | [], [], _ => by simp
  | [], _ :: _, h => by simp [Valid] at h
  | _ :: _, [], h => by simp [Valid] at h
  | d :: ds, x :: xs, h => by
    intro e he
    rcases List.mem_cons.mp he with rfl | he
    · have := h.1; omega
    · exact valid_pos ds xs h.2 e he

theorem valid_getD : ∀ (ds xs : List Nat) (k : Nat), Valid ds xs → k < ds.length → xs.getD k 0 < ds.getD k 0
  | [], [], _, _, hk => by simp at hk
  | [], _ :: _, _, h, _ => by simp [Valid] at h
  | _ :: _, [], _, h, _ => by simp [Valid] at h
  | d :: ds, x :: xs, 0, h, _ => by simpa using h.1
  | d :: ds, x :: xs, k+1, h, hk => by
    simpa using valid_getD ds xs k h.2 (by simpa using hk)

theorem valid_sel (sp x : List Nat) (hx : Valid sp x) : ∀ (T : List Nat), (∀ k ∈ T, k < sp.length) →
    Valid (sel T sp) (sel T x)
  | [], _ => by simp [sel, Valid]
  | k :: T, h => by
    simp only [sel, List.map_cons, Valid]
    exact ⟨valid_getD sp x k hx (h k (List.mem_cons_self ..)),
           valid_sel sp x hx T (fun j hj => h j (List.mem_cons_of_mem _ hj))⟩

/-- with nothing skipped, the enumerator's `go` loop from the k-th state yields `toFactors k, toFactors (k+1), …` -/
theorem enumGo_noskip (dims : List Nat) (hpos : ∀ d ∈ dims, 0 < d) (hne : dims ≠ []) :
    ∀ (f k : Nat), k ≤ space dims →
      enumAll.go dims.length dims (advanceN dims.length dims k) f
        = (List.range' k (min f (space dims - k))).map (toFactors dims) := by
  have her : er 0 dims.length dims = dims := er_of_ge dims 0 dims.length (by omega)
  intro f
  induction f with
  | zero => intro k _; simp [enumAll.go]
  | succ f ih =>
    intro k hk
    rcases Nat.lt_or_ge k (space dims) with hlt | hge
    · obtain ⟨v, hv, hval, hidx, _⟩ := enumerator_kth dims dims.length hpos hne k (by rw [her]; exact hlt)
      have hev : er 0 dims.length v = v := er_of_ge v 0 dims.length (by rw [valid_length dims v hval]; omega)
      rw [her, hev] at hidx
      have hvk : v = toFactors dims k := by rw [← hidx, toFactors_toIndex dims v hval]
      have hnext : advanceN dims.length dims (k+1) = advance dims.length dims (some v) := by
        simp [advanceN, hv]
      have hmin : min (f+1) (space dims - k) = min f (space dims - (k+1)) + 1 := by omega
      rw [hv, hmin, List.range'_succ, List.map_cons]
      simp only [enumAll.go]
      rw [← hnext, ih (k+1) (by omega), hvk]
    · have hk' : k = space dims := by omega
      have hend := enumerator_ends dims dims.length hpos hne
      rw [her] at hend
      subst hk'
      rw [hend]
      simp [enumAll.go]

theorem enumAll_noskip (dims : List Nat) (hpos : ∀ d ∈ dims, 0 < d) (hne : dims ≠ []) (fuel : Nat)
    (hf : space dims ≤ fuel) :
    enumAll dims.length dims fuel = (List.range (space dims)).map (toFactors dims) := by
  unfold enumAll
  have := enumGo_noskip dims hpos hne fuel 0 (Nat.zero_le _)
  rw [this, List.range_eq_range']
  congr 2
  omega

/-! ## `toIndexPartial(ids, space, PartialFactors)` on an enumerated tuple = `toIndexPartial(ids, space, Factors)` -/

/-- the forward scan finds every id of a sub-tag `U` of `T`; on the tuple `sel T x` it computes the
    same index as the full-assignment overload on `x` -/
theorem kpf_sel (sp x : List Nat) : ∀ (T U : List Nat) (r m : Nat), U.Sublist T →
    toIndexPartialKPF U sp T (sel T x) r m = toIndexLoop (sel U sp) (sel U x) r m := by
  intro T
  induction T with
  | nil =>
    intro U r m h
    have : U = [] := List.eq_nil_of_sublist_nil h
    subst this
    simp [toIndexPartialKPF, sel, toIndexLoop]
  | cons k ks ihT =>
    intro U
    induction U with
    | nil => intro r m _; simp [toIndexPartialKPF, sel, toIndexLoop]
    | cons id ids ihU =>
      intro r m h
      have hsel : sel (k :: ks) x = x.getD k 0 :: sel ks x := by simp [sel]
      rw [hsel, toIndexPartialKPF]
      by_cases hk : k = id
      · subst hk
        have hids : ids.Sublist (k :: ks) := by
          cases h with
          | cons _ h' => exact List.Sublist.cons _ ((List.sublist_cons_self _ _).trans h')
          | cons_cons _ h' => exact List.Sublist.cons _ h'
        simp only [if_true]
        rw [← hsel, ihU _ _ hids]
        simp [sel, toIndexLoop]
      · have hsub : (id :: ids).Sublist ks := by
          cases h with
          | cons _ h' => exact h'
          | cons_cons _ h' => exact absurd rfl hk
        simp only [hk, if_false]
        exact ihT (id :: ids) r m hsub

theorem kpf_eq_toIndexPartial (sp x T U : List Nat) (h : U.Sublist T) :
    toIndexPartialKPF U sp T (sel T x) 0 1 = toIndexPartial U sp x := by
  rw [kpf_sel sp x T U 0 1 h]; rfl

/-! ## merge of tags -/

theorem sub_merge_left (l r : List Nat) : l.Sublist (mergeKeys l r) := by
  induction l, r using mergeKeys.induct with
  | case1 r => simp [mergeKeys]
  | case2 l hl => simp [mergeKeys]
  | case3 a l r ih => rw [mergeKeys]; simp only [if_true]; exact List.Sublist.cons_cons _ ih
  | case4 a l b r h1 h2 ih => rw [mergeKeys]; simp only [h1, h2, if_true, if_false]; exact List.Sublist.cons_cons _ ih
  | case5 a l b r h1 h2 ih => rw [mergeKeys]; simp only [h1, h2, if_false]; exact List.Sublist.cons _ ih

theorem sub_merge_right (l r : List Nat) : r.Sublist (mergeKeys l r) := by
  induction l, r using mergeKeys.induct with
  | case1 r => simp [mergeKeys]
  | case2 l hl => simp [mergeKeys]
  | case3 a l r ih => rw [mergeKeys]; simp only [if_true]; exact List.Sublist.cons_cons _ ih
  | case4 a l b r h1 h2 ih => rw [mergeKeys]; simp only [h1, h2, if_true, if_false]; exact List.Sublist.cons _ ih
  | case5 a l b r h1 h2 ih => rw [mergeKeys]; simp only [h1, h2, if_false]; exact List.Sublist.cons_cons _ ih

theorem mem_merge (l r : List Nat) : ∀ k ∈ mergeKeys l r, k ∈ l ∨ k ∈ r := by
  induction l, r using mergeKeys.induct with
  | case1 r => intro k hk; simp [mergeKeys] at hk; exact Or.inr hk
  | case2 l hl => intro k hk; simp [mergeKeys] at hk; exact Or.inl hk
  | case3 a l r ih =>
    intro k hk; rw [mergeKeys] at hk; simp only [if_true] at hk
    rcases List.mem_cons.mp hk with rfl | hk
    · exact Or.inl (List.mem_cons_self ..)
    · rcases ih k hk with h' | h'
      · exact Or.inl (List.mem_cons_of_mem _ h')
      · exact Or.inr (List.mem_cons_of_mem _ h')
  | case4 a l b r h1 h2 ih =>
    intro k hk; rw [mergeKeys] at hk; simp only [h1, h2, if_true, if_false] at hk
    rcases List.mem_cons.mp hk with rfl | hk
    · exact Or.inl (List.mem_cons_self ..)
    · rcases ih k hk with h' | h'
      · exact Or.inl (List.mem_cons_of_mem _ h')
      · exact Or.inr h'
  | case5 a l b r h1 h2 ih =>
    intro k hk; rw [mergeKeys] at hk; simp only [h1, h2, if_false] at hk
    rcases List.mem_cons.mp hk with rfl | hk
    · exact Or.inr (List.mem_cons_self ..)
    · rcases ih k hk with h' | h'
      · exact Or.inl h'
      · exact Or.inr (List.mem_cons_of_mem _ h')

/-! ## BasisFunction algebra: value at every joint assignment = the operation on the values -/

/-- tag refers to existing factors and is non-empty (what `checkTag` enforces, minus sortedness, which the
    pointwise theorems do not need) -/
def TagOK (sp tag : List Nat) : Prop := tag ≠ [] ∧ ∀ k ∈ tag, k < sp.length

/-- a well-formed basis: one stored value per joint value of its tag -/
def BF.WF (sp : List Nat) (b : BF) : Prop := TagOK sp b.tag ∧ b.vals.length = spacePartial b.tag sp

theorem sel_length (T l : List Nat) : (sel T l).length = T.length := by simp [sel]

theorem sel_ne_nil {T l : List Nat} (h : T ≠ []) : sel T l ≠ [] := by
  cases T with
  | nil => exact absurd rfl h
  | cons a t => simp [sel]

/-- the index computed by `toIndexPartial(tag, space, x)` is below `factorSpacePartial(tag, space)` and
    decodes (by `toFactors`) to the restriction of `x` to the tag -/
theorem toIndexPartial_spec (sp x T : List Nat) (hx : Valid sp x) (hT : ∀ k ∈ T, k < sp.length) :
    toIndexPartial T sp x < spacePartial T sp ∧ toFactors (sel T sp) (toIndexPartial T sp x) = sel T x := by
  have hv := valid_sel sp x hx T hT
  have := toFactors_toIndexLoop (sel T sp) (sel T x) hv
  exact ⟨this.2, this.1⟩

theorem enumTag_eq (sp x T : List Nat) (hx : Valid sp x) (hT : TagOK sp T) :
    enumTag sp T = (List.range (spacePartial T sp)).map (toFactors (sel T sp)) := by
  have hv := valid_sel sp x hx T hT.2
  have hpos := valid_pos _ _ hv
  have := enumAll_noskip (sel T sp) hpos (sel_ne_nil hT.1) (spacePartial T sp + 1) (by unfold spacePartial; omega)
  rw [sel_length] at this
  exact this

theorem getD_map_range {α} (f : Nat → α) (d : α) (n i : Nat) (h : i < n) :
    ((List.range n).map f).getD i d = f i := by
  simp [List.getD, h]

/-- the entry of the enumeration at the index of `x` is the restriction of `x` to the tag -/
theorem enumTag_getD (sp x T : List Nat) (hx : Valid sp x) (hT : TagOK sp T) :
    (enumTag sp T)[toIndexPartial T sp x]? = some (sel T x) := by
  obtain ⟨h1, h2⟩ := toIndexPartial_spec sp x T hx hT.2
  rw [enumTag_eq sp x T hx hT]
  simp [h1, h2]

theorem TagOK_merge {sp l r : List Nat} (hl : TagOK sp l) (hr : ∀ k ∈ r, k < sp.length) : TagOK sp (mergeKeys l r) := by
  refine ⟨?_, ?_⟩
  · intro h
    have := sub_merge_left l r
    rw [h] at this
    exact hl.1 (List.eq_nil_of_sublist_nil this)
  · intro k hk
    rcases mem_merge l r k hk with h | h
    · exact hl.2 k h
    · exact hr k h

/-- **basis_ops_pointwise** (dot / plus / minus of two basis functions, any overlapping tags):
    the value of the result at every joint assignment is the operation on the two values. -/
theorem binop_pointwise (op : Rat → Rat → Rat) (sp x : List Nat) (l r : BF) (hx : Valid sp x)
    (hl : TagOK sp l.tag) (hr : TagOK sp r.tag) :
    (binop op sp l r).get sp x = op (l.get sp x) (r.get sp x) := by
  have hT := TagOK_merge hl hr.2
  unfold binop BF.get
  simp only
  rw [List.getD_eq_getElem?_getD, List.getElem?_map, enumTag_getD sp x _ hx hT]
  simp only [Option.map_some, Option.getD_some]
  rw [kpf_eq_toIndexPartial sp x _ _ (sub_merge_left l.tag r.tag), kpf_eq_toIndexPartial sp x _ _ (sub_merge_right l.tag r.tag)]

theorem dot_pointwise (sp x : List Nat) (l r : BF) (hx : Valid sp x) (hl : TagOK sp l.tag) (hr : TagOK sp r.tag) :
    (bfDot sp l r).get sp x = l.get sp x * r.get sp x := binop_pointwise _ sp x l r hx hl hr
theorem plus_pointwise (sp x : List Nat) (l r : BF) (hx : Valid sp x) (hl : TagOK sp l.tag) (hr : TagOK sp r.tag) :
    (bfPlus sp l r).get sp x = l.get sp x + r.get sp x := binop_pointwise _ sp x l r hx hl hr
theorem minus_pointwise (sp x : List Nat) (l r : BF) (hx : Valid sp x) (hl : TagOK sp l.tag) (hr : TagOK sp r.tag) :
    (bfMinus sp l r).get sp x = l.get sp x - r.get sp x := binop_pointwise _ sp x l r hx hl hr

/-- the result of dot/plus/minus stores exactly one value per joint value of its tag (so the correct
    `resize` argument is `factorSpacePartial(tag)`), and is well-formed -/
theorem binop_wf (op : Rat → Rat → Rat) (sp x : List Nat) (l r : BF) (hx : Valid sp x)
    (hl : TagOK sp l.tag) (hr : TagOK sp r.tag) : (binop op sp l r).WF sp := by
  have hT := TagOK_merge hl hr.2
  refine ⟨hT, ?_⟩
  unfold binop
  simp only [List.length_map]
  rw [enumTag_eq sp x _ hx hT]
  simp

/-- what the snapshot allocates instead: `toIndexPartial(tag, space, space)`; already on the space {2,3}
    with the full tag it is 8, not 6 (labelled test on literals) -/
theorem allocSize_counterexample : allocSize [2, 3] [0, 1] = 8 ∧ spacePartial [0, 1] [2, 3] = 6 := by decide

/-! ## plusEqualSubset / minusEqualSubset -/

theorem addVec_length (s : Rat) : ∀ (a b : List Rat), (addVec s a b).length = a.length
  | [], _ => by simp [addVec]
  | _ :: _, [] => by simp [addVec]
  | a :: as, b :: bs => by simp [addVec, addVec_length s as bs]

theorem addVec_getD (s : Rat) : ∀ (a b : List Rat) (i : Nat), i < a.length → a.length = b.length →
    (addVec s a b).getD i 0 = a.getD i 0 + s * b.getD i 0
  | [], _, _, h, _ => by simp at h
  | _ :: _, [], _, _, h => by simp at h
  | a :: as, b :: bs, 0, _, _ => by simp [addVec]
  | a :: as, b :: bs, i+1, h, hl => by
    simpa [addVec] using addVec_getD s as bs i (by simpa using h) (by simpa using hl)

theorem addEnum_length (f : List Nat → Rat) : ∀ (vs : List Rat) (es : List (List Nat)), (addEnum f vs es).length ≤ vs.length
  | [], [] => by simp [addEnum]
  | [], _ :: _ => by simp [addEnum]
  | _ :: _, [] => by simp [addEnum]
  | v :: vs, e :: es => by simpa [addEnum] using addEnum_length f vs es

theorem addEnum_length_eq (f : List Nat → Rat) : ∀ (vs : List Rat) (es : List (List Nat)), vs.length ≤ es.length →
    (addEnum f vs es).length = vs.length
  | [], [], _ => by simp [addEnum]
  | [], _ :: _, _ => by simp [addEnum]
  | _ :: _, [], h => by simp at h
  | v :: vs, e :: es, h => by simpa [addEnum] using addEnum_length_eq f vs es (by simpa using h)

theorem addEnum_getD (f : List Nat → Rat) : ∀ (vs : List Rat) (es : List (List Nat)) (i : Nat) (e : List Nat),
    i < vs.length → es[i]? = some e → (addEnum f vs es).getD i 0 = vs.getD i 0 + f e
  | [], _, _, _, h, _ => by simp at h
  | _ :: _, [], _, _, _, h => by simp at h
  | v :: vs, e' :: es, 0, e, _, h => by simp at h; simp [addEnum, h]
  | v :: vs, e' :: es, i+1, e, h, he => by
    simpa [addEnum] using addEnum_getD f vs es i e (by simpa using h) (by simpa using he)

/-- `plusEqualSubset` (s = 1) / `minusEqualSubset` (s = -1): when `rhs.tag ⊆ retval.tag`, the result's value
    at every joint assignment is `retval ± rhs` there -/
theorem subsetOp_pointwise (s : Rat) (sp x : List Nat) (ret rhs : BF) (hx : Valid sp x)
    (hret : ret.WF sp) (hrhs : rhs.WF sp) (hsub : rhs.tag.Sublist ret.tag) :
    (subsetOp s sp ret rhs).get sp x = ret.get sp x + s * rhs.get sp x := by
  obtain ⟨hi, _⟩ := toIndexPartial_spec sp x ret.tag hx hret.1.2
  unfold subsetOp
  by_cases hlen : ret.tag.length = rhs.tag.length
  · have htag : rhs.tag = ret.tag := hsub.eq_of_length hlen.symm
    simp only [hlen, if_true]
    unfold BF.get
    simp only
    rw [addVec_getD s _ _ _ (by rw [hret.2]; exact hi) (by rw [hret.2, hrhs.2, htag]), htag]
  · simp only [hlen, if_false]
    unfold BF.get
    simp only
    rw [addEnum_getD _ _ _ _ (sel ret.tag x) (by rw [hret.2]; exact hi) (enumTag_getD sp x _ hx hret.1)]
    rw [kpf_eq_toIndexPartial sp x _ _ hsub]

theorem subsetOp_wf (s : Rat) (sp x : List Nat) (ret rhs : BF) (hx : Valid sp x) (hret : ret.WF sp) :
    (subsetOp s sp ret rhs).WF sp := by
  unfold subsetOp
  by_cases hlen : ret.tag.length = rhs.tag.length
  · simp only [hlen, if_true]
    exact ⟨hret.1, by simp only; rw [addVec_length]; exact hret.2⟩
  · simp only [hlen, if_false]
    refine ⟨hret.1, ?_⟩
    simp only
    rw [addEnum_length_eq, hret.2]
    rw [hret.2, enumTag_eq sp x _ hx hret.1]; simp

/-! ## FactoredVector: getValue, plusEqual / minusEqual with one basis and with a whole vector -/

theorem foldl_add_init {α} (g : α → Rat) : ∀ (l : List α) (a : Rat),
    l.foldl (fun acc b => acc + g b) a = a + l.foldl (fun acc b => acc + g b) 0
  | [], a => by simp
  | b :: l, a => by
    simp only [List.foldl_cons]
    rw [foldl_add_init g l (a + g b), foldl_add_init g l (0 + g b)]
    ring

theorem fvGet_nil (sp x : List Nat) : fvGet sp [] x = 0 := rfl

theorem fvGet_cons (sp x : List Nat) (b : BF) (fv : FV) : fvGet sp (b :: fv) x = b.get sp x + fvGet sp fv x := by
  unfold fvGet
  simp only [List.foldl_cons]
  rw [foldl_add_init]; ring

theorem fvGet_append (sp x : List Nat) (fv gv : FV) : fvGet sp (fv ++ gv) x = fvGet sp fv x + fvGet sp gv x := by
  induction fv with
  | nil => simp [fvGet_nil]
  | cons b fv ih => simp only [List.cons_append, fvGet_cons, ih]; ring

theorem getD_map_zero (g : Rat → Rat) (hg : g 0 = 0) (l : List Rat) (i : Nat) :
    (l.map g).getD i 0 = g (l.getD i 0) := by
  simp only [List.getD_eq_getElem?_getD, List.getElem?_map]
  cases l[i]? <;> simp [hg]

theorem get_scaled (s : Rat) (sp x : List Nat) (b : BF) :
    ({ b with vals := b.vals.map (s * ·) } : BF).get sp x = s * b.get sp x := by
  unfold BF.get
  simp only
  exact getD_map_zero (s * ·) (by simp) _ _

theorem containsScan_sublist : ∀ (v e : List Nat), containsScan v e = true → e.Sublist v := by
  intro v e
  induction v, e using containsScan.induct with
  | case1 v => intro _; exact List.nil_sublist _
  | case2 e es => intro h; simp [containsScan] at h
  | case3 a v e es hlt ih =>
    intro h; rw [containsScan] at h; simp only [hlt, if_true] at h
    exact List.Sublist.cons _ (ih h)
  | case4 a v e es h1 h2 => intro h; rw [containsScan] at h; simp [h1, h2] at h
  | case5 a v e es h1 h2 ih =>
    intro h; rw [containsScan] at h; simp only [h1, h2, if_false] at h
    have : a = e := by omega
    subst this
    exact List.Sublist.cons_cons _ (ih h)

theorem sortedContains_sublist (v e : List Nat) (h : sortedContains v e = true) : e.Sublist v := by
  unfold sortedContains at h
  by_cases hl : v.length = e.length
  · simp only [hl, if_true, beq_iff_eq] at h
    subst h; exact List.Sublist.refl _
  · simp only [hl, if_false] at h
    exact containsScan_sublist v e h

def FV.WF (sp : List Nat) (fv : FV) : Prop := ∀ b ∈ fv, b.WF sp

theorem scaled_wf (s : Rat) (sp : List Nat) (b : BF) (h : b.WF sp) : ({ b with vals := b.vals.map (s * ·) } : BF).WF sp :=
  ⟨h.1, by simp only [List.length_map]; exact h.2⟩

/-- the merge-or-append loop: if some stored basis absorbs the incoming one, the value of the vector at
    every joint assignment changes by exactly `s·basis(x)`; well-formedness is preserved -/
theorem mergeLoop_pointwise (s : Rat) (sp x : List Nat) (basis : BF) (hx : Valid sp x) (hb : basis.WF sp) :
    ∀ (fv fv' : FV), FV.WF sp fv → mergeLoop s sp basis fv = some fv' →
      fvGet sp fv' x = fvGet sp fv x + s * basis.get sp x ∧ FV.WF sp fv' ∧ fv'.length = fv.length
  | [], _, _, h => by simp [mergeLoop] at h
  | cur :: rest, fv', hwf, h => by
    have hcur : cur.WF sp := hwf cur (List.mem_cons_self ..)
    have hrest : FV.WF sp rest := fun b hb' => hwf b (List.mem_cons_of_mem _ hb')
    simp only [mergeLoop] at h
    by_cases hbig : basis.tag.length ≤ cur.tag.length
    · simp only [hbig, decide_true, if_true] at h
      by_cases hc : sortedContains cur.tag basis.tag = true
      · simp only [hc, if_true, Option.some.injEq] at h
        subst h
        refine ⟨?_, ?_, by simp⟩
        · rw [fvGet_cons, fvGet_cons, subsetOp_pointwise s sp x cur basis hx hcur hb (sortedContains_sublist _ _ hc)]
          ring
        · intro b hb'
          rcases List.mem_cons.mp hb' with rfl | hb'
          · exact subsetOp_wf s sp x cur basis hx hcur
          · exact hrest b hb'
      · simp only [hc] at h
        simp only [Bool.false_eq_true, if_false, Option.map_eq_some_iff] at h
        obtain ⟨r', hr', rfl⟩ := h
        obtain ⟨i1, i2, i3⟩ := mergeLoop_pointwise s sp x basis hx hb rest r' hrest hr'
        refine ⟨?_, ?_, by simp [i3]⟩
        · rw [fvGet_cons, fvGet_cons, i1]; ring
        · intro b hb'
          rcases List.mem_cons.mp hb' with rfl | hb'
          · exact hcur
          · exact i2 b hb'
    · simp only [hbig, decide_false, Bool.false_eq_true, if_false] at h
      by_cases hc : sortedContains basis.tag cur.tag = true
      · simp only [hc, if_true, Option.some.injEq] at h
        subst h
        have hsb := scaled_wf s sp basis hb
        refine ⟨?_, ?_, by simp⟩
        · rw [fvGet_cons, fvGet_cons,
              subsetOp_pointwise 1 sp x _ cur hx hsb hcur (sortedContains_sublist _ _ hc), get_scaled]
          ring
        · intro b hb'
          rcases List.mem_cons.mp hb' with rfl | hb'
          · exact subsetOp_wf 1 sp x _ cur hx hsb
          · exact hrest b hb'
      · simp only [hc] at h
        simp only [Bool.false_eq_true, if_false, Option.map_eq_some_iff] at h
        obtain ⟨r', hr', rfl⟩ := h
        obtain ⟨i1, i2, i3⟩ := mergeLoop_pointwise s sp x basis hx hb rest r' hrest hr'
        refine ⟨?_, ?_, by simp [i3]⟩
        · rw [fvGet_cons, fvGet_cons, i1]; ring
        · intro b hb'
          rcases List.mem_cons.mp hb' with rfl | hb'
          · exact hcur
          · exact i2 b hb'

theorem fvAddBasis_pointwise (s : Rat) (sp x : List Nat) (fv : FV) (basis : BF) (hx : Valid sp x)
    (hfv : FV.WF sp fv) (hb : basis.WF sp) :
    fvGet sp (fvAddBasis s s sp fv basis) x = fvGet sp fv x + s * basis.get sp x ∧ FV.WF sp (fvAddBasis s s sp fv basis) := by
  unfold fvAddBasis
  cases h : mergeLoop s sp basis fv with
  | some fv' =>
    obtain ⟨i1, i2, _⟩ := mergeLoop_pointwise s sp x basis hx hb fv fv' hfv h
    exact ⟨i1, i2⟩
  | none =>
    simp only
    refine ⟨?_, ?_⟩
    · rw [fvGet_append, fvGet_cons, fvGet_nil, get_scaled]; ring
    · intro b hb'
      rcases List.mem_append.mp hb' with hb' | hb'
      · exact hfv b hb'
      · simp at hb'; subst hb'; exact scaled_wf s sp basis hb

/-- **plusEqual(FactoredVector, BasisFunction)** — arbitrary overlapping tags, merged or appended -/
theorem fvPlusEqual_pointwise (sp x : List Nat) (fv : FV) (b : BF) (hx : Valid sp x) (hfv : FV.WF sp fv) (hb : b.WF sp) :
    fvGet sp (fvPlusEqual sp fv b) x = fvGet sp fv x + b.get sp x := by
  have := (fvAddBasis_pointwise 1 sp x fv b hx hfv hb).1
  unfold fvPlusEqual; rw [this]; ring

/-- **minusEqual(FactoredVector, BasisFunction)**, repaired form (`minusEqualSubtracts = true`): full strength -/
theorem fvMinusEqual_pointwise (sp x : List Nat) (fv : FV) (b : BF) (hx : Valid sp x) (hfv : FV.WF sp fv) (hb : b.WF sp) :
    fvGet sp (fvMinusEqual true sp fv b) x = fvGet sp fv x - b.get sp x := by
  have := (fvAddBasis_pointwise (-1) sp x fv b hx hfv hb).1
  unfold fvMinusEqual; simp only [if_true]; rw [this]; ring

/-- the snapshot's `minusEqual` (`minusEqualSubtracts = false`) computes the SUM … -/
theorem fvMinusEqual_snapshot_adds (sp x : List Nat) (fv : FV) (b : BF) (hx : Valid sp x) (hfv : FV.WF sp fv) (hb : b.WF sp) :
    fvGet sp (fvMinusEqual false sp fv b) x = fvGet sp fv x + b.get sp x := by
  have := (fvAddBasis_pointwise 1 sp x fv b hx hfv hb).1
  unfold fvMinusEqual; simp only [Bool.false_eq_true, if_false]; rw [this]; ring

/-- … hence it is not the difference as soon as the subtrahend is non-zero at `x`:
    the full-strength statement is refuted for the snapshot -/
theorem fvMinusEqual_snapshot_counterexample (sp x : List Nat) (fv : FV) (b : BF) (hx : Valid sp x)
    (hfv : FV.WF sp fv) (hb : b.WF sp) (hne : b.get sp x ≠ 0) :
    fvGet sp (fvMinusEqual false sp fv b) x ≠ fvGet sp fv x - b.get sp x := by
  rw [fvMinusEqual_snapshot_adds sp x fv b hx hfv hb]
  intro h
  apply hne
  linarith

theorem fvAddBasis_fold (s : Rat) (sp x : List Nat) (hx : Valid sp x) : ∀ (rhs fv : FV), FV.WF sp fv → FV.WF sp rhs →
    fvGet sp (rhs.foldl (fvAddBasis s s sp) fv) x = fvGet sp fv x + s * fvGet sp rhs x
      ∧ FV.WF sp (rhs.foldl (fvAddBasis s s sp) fv)
  | [], fv, hfv, _ => by simp [fvGet_nil, hfv]
  | b :: rhs, fv, hfv, hr => by
    have hb : b.WF sp := hr b (List.mem_cons_self ..)
    obtain ⟨i1, i2⟩ := fvAddBasis_pointwise s sp x fv b hx hfv hb
    obtain ⟨j1, j2⟩ := fvAddBasis_fold s sp x hx rhs _ i2 (fun c hc => hr c (List.mem_cons_of_mem _ hc))
    simp only [List.foldl_cons]
    refine ⟨?_, j2⟩
    rw [j1, i1, fvGet_cons]; ring

/-- **plusEqual(FactoredVector, FactoredVector)** -/
theorem fvPlusEqualFV_pointwise (sp x : List Nat) (fv rhs : FV) (hx : Valid sp x) (hfv : FV.WF sp fv) (hr : FV.WF sp rhs) :
    fvGet sp (fvPlusEqualFV sp fv rhs) x = fvGet sp fv x + fvGet sp rhs x := by
  have := (fvAddBasis_fold 1 sp x hx rhs fv hfv hr).1
  unfold fvPlusEqualFV fvPlusEqual; rw [this]; ring

/-- **minusEqual(FactoredVector, FactoredVector)**, repaired form -/
theorem fvMinusEqualFV_pointwise (sp x : List Nat) (fv rhs : FV) (hx : Valid sp x) (hfv : FV.WF sp fv) (hr : FV.WF sp rhs) :
    fvGet sp (fvMinusEqualFV true sp fv rhs) x = fvGet sp fv x - fvGet sp rhs x := by
  have := (fvAddBasis_fold (-1) sp x hx rhs fv hfv hr).1
  unfold fvMinusEqualFV
  have e : fvMinusEqual true sp = fvAddBasis (-1) (-1) sp := by funext f b; simp [fvMinusEqual]
  rw [e, this]; ring

/-! ## scalar operations and weighted combinations -/

theorem get_mul (c : Rat) (sp x : List Nat) (b : BF) :
    ({ b with vals := b.vals.map (· * c) } : BF).get sp x = b.get sp x * c := by
  unfold BF.get
  simp only
  exact getD_map_zero (· * c) (by simp) _ _

/-- **operator*=(double)** — no hypotheses at all -/
theorem fvScale_pointwise (c : Rat) (sp x : List Nat) : ∀ (fv : FV), fvGet sp (fvScale c fv) x = fvGet sp fv x * c
  | [] => by simp [fvScale, fvGet_nil]
  | b :: fv => by
    have ih := fvScale_pointwise c sp x fv
    unfold fvScale at ih ⊢
    simp only [List.map_cons]
    rw [fvGet_cons, fvGet_cons, ih, get_mul]; ring

theorem getD_map_lt (g : Rat → Rat) (l : List Rat) (i : Nat) (h : i < l.length) :
    (l.map g).getD i 0 = g (l.getD i 0) := by
  simp [List.getD_eq_getElem?_getD, List.getElem?_map, List.getElem?_eq_getElem h]

theorem get_affine (w t : Rat) (add : Bool) (sp x : List Nat) (b : BF) (hx : Valid sp x) (hb : b.WF sp) :
    ({ b with vals := b.vals.map (fun v => if add then v * w + t else v * w) } : BF).get sp x
      = b.get sp x * w + (if add then t else 0) := by
  obtain ⟨hi, _⟩ := toIndexPartial_spec sp x b.tag hx hb.1.2
  unfold BF.get
  simp only
  rw [getD_map_lt _ _ _ (by rw [hb.2]; exact hi)]
  cases add <;> simp

theorem fvScaleW_aux (t : Rat) (add : Bool) (sp x : List Nat) (hx : Valid sp x) : ∀ (fv : FV) (w : List Rat),
    FV.WF sp fv → fv.length ≤ w.length →
    fvGet sp ((fv.zip w).map (fun bw => ({ bw.1 with vals := bw.1.vals.map (fun v => if add then v * bw.2 + t else v * bw.2) } : BF))) x
      = (fv.zip w).foldl (fun acc bw => acc + bw.1.get sp x * bw.2) 0 + (if add then (fv.length : Rat) * t else 0)
  | [], _, _, _ => by simp [fvGet_nil]
  | b :: fv, [], _, h => by simp at h
  | b :: fv, wi :: w, hwf, h => by
    have ih := fvScaleW_aux t add sp x hx fv w (fun c hc => hwf c (List.mem_cons_of_mem _ hc)) (by simpa using h)
    simp only [List.zip_cons_cons, List.map_cons, List.foldl_cons]
    rw [fvGet_cons, ih, get_affine wi t add sp x b hx (hwf b (List.mem_cons_self ..)), foldl_add_init _ _ (0 + _)]
    cases add <;> simp
    ring

theorem foldl_zip_init (sp x : List Nat) (fv : FV) (w : List Rat) (a : Rat) :
    (fv.zip w).foldl (fun acc bw => acc + bw.1.get sp x * bw.2) a
      = a + (fv.zip w).foldl (fun acc bw => acc + bw.1.get sp x * bw.2) 0 :=
  foldl_add_init (fun bw : BF × Rat => bw.1.get sp x * bw.2) _ a

/-- **operator*=(const Vector &)** equals the weighted combination `getValue(space, x, w)` at every joint
    assignment.  With the extra constant weight the vector must have at least one basis (the code divides
    the constant by `bases.size()`); for an empty FactoredVector `*=` drops the constant (observed: docs/C14.md). -/
theorem fvScaleW_pointwise (sp x : List Nat) (fv : FV) (w : List Rat) (hx : Valid sp x) (hfv : FV.WF sp fv)
    (hw : w.length = fv.length ∨ (w.length = fv.length + 1 ∧ fv ≠ [])) :
    fvGet sp (fvScaleW w fv) x = fvGetW sp fv x w := by
  unfold fvScaleW fvGetW
  simp only
  rw [fvScaleW_aux _ _ sp x hx fv w hfv (by omega)]
  conv_rhs => rw [foldl_zip_init]
  rcases hw with hw | ⟨hw, hne⟩
  · have : ¬ (w.length = fv.length + 1) := by omega
    simp [this]
  · have hn : (fv.length : Rat) ≠ 0 := by
      have : fv.length ≠ 0 := by cases fv with | nil => exact absurd rfl hne | cons _ _ => simp
      exact_mod_cast this
    simp only [hw, decide_true, if_true]
    field_simp
    ring

/-! ## non-vacuity: the hypotheses of the pointwise theorems are met by concrete overlapping bases (tests on literals) -/

def exSp : List Nat := [2, 3, 2]
def exL : BF := ⟨[0, 1], [1, 2, 3, 4, 5, 6]⟩
def exR : BF := ⟨[1, 2], [10, 20, 30, 40, 50, 60]⟩
def exBig : BF := ⟨[0, 1, 2], [0, 1, 2, 3, 4, 5, 6, 7, 8, 9, 10, 11]⟩

example : Valid exSp [1, 2, 0] := (validB_iff _ _).mp (by decide)
example : exL.WF exSp ∧ exR.WF exSp ∧ exBig.WF exSp :=
  ⟨⟨⟨by decide, by decide⟩, by decide⟩, ⟨⟨by decide, by decide⟩, by decide⟩, ⟨⟨by decide, by decide⟩, by decide⟩⟩
example : FV.WF exSp [exL, exR] := by
  intro b hb
  simp at hb
  rcases hb with rfl | rfl
  · exact ⟨⟨by decide, by decide⟩, by decide⟩
  · exact ⟨⟨by decide, by decide⟩, by decide⟩
/-- a merge really happens: `exL.tag ⊆ exBig.tag` is detected by the scan -/
example : sortedContains exBig.tag exL.tag = true ∧ sortedContains exL.tag exR.tag = false := by
  constructor <;> simp [sortedContains, containsScan, exBig, exL, exR]
example : exL.get exSp [1, 2, 0] = 6 ∧ exR.get exSp [1, 2, 0] = 30 := by decide

end AITB.Factored
