/-
  AITB.Props.C16Solvers — C16: what a solver object can carry from one call to the next.

  `AITB.Gen.Solvers` (regenerated on every run from the clang AST of every header under include/AIToolbox) lists every
  class offering `operator()`, whether all overloads are `const`, its `mutable` / indirect members, all data members of
  the classes whose call is not (const ∧ no mutable ∧ no indirect member), and for each member the first statement after
  the `operator()` definition that uses it other than to size it, when that statement (re)initialises it.

  This file classifies every such data member by hand and proves, over the regenerated tables,
  * `solver_fields_accounted`  every data member of every solver class has a role (a new member re-opens the obligation),
  * `reset_claims_checked`     every member claimed `resetAtCall` is (re)initialised by its first use in the call, as extracted,
  * `roles_are_fields`         no stale classification entry,
  * `no_const_cast`            the library never casts constness away (the const classes need no classification),
  and, for the model, `resetting_reusable`: an object whose call derives its scratch from the configuration and the
  arguments before using it is `Reusable`, hence `call_output_independent_of_history` applies to it.
  Core Lean only.
-/
import AITB.Gen.Solvers
import AITB.Props.C16
namespace AITB.Hidden

/-- what a data member of a solver object is, with respect to consecutive calls -/
inductive Role where
  /-- set by the constructor / a setter, only read by the call -/
  | config
  /-- computed by the constructor from the configuration, only read by the call -/
  | ctorDerived
  /-- the call (re)initialises it from its arguments / the configuration before any other use -/
  | resetAtCall
  /-- scratch the call fully overwrites (out-parameter of a helper, cleared by the helper that fills it) before reading it -/
  | overwrittenBeforeRead
  /-- a container the call drains: empty whenever the call returns normally -/
  | emptyAtExit
  /-- a random engine seeded from `Seeder` at construction: advances by design (see `seed_stream_deterministic`) -/
  | rng
  /-- another solver object, classified on its own -/
  | nested
  /-- state the class documents as persisting between calls -/
  | documentedState
  deriving DecidableEq, Repr

def roles : List ((String × String) × Role) := [
  (("AIToolbox::Factored::Bandit::LocalSearch", "agents_"), .resetAtCall),
  (("AIToolbox::Factored::Bandit::LocalSearch", "rnd_"), .rng),
  (("AIToolbox::Factored::Bandit::MaxPlus", "iterations_"), .config),
  (("AIToolbox::Factored::Bandit::ReusingIterativeLocalSearch", "action_"), .documentedState),
  (("AIToolbox::Factored::Bandit::ReusingIterativeLocalSearch", "forceResetAction_"), .config),
  (("AIToolbox::Factored::Bandit::ReusingIterativeLocalSearch", "ls_"), .nested),
  (("AIToolbox::Factored::Bandit::ReusingIterativeLocalSearch", "newAction_"), .documentedState),
  (("AIToolbox::Factored::Bandit::ReusingIterativeLocalSearch", "randomizeFactorProbability_"), .config),
  (("AIToolbox::Factored::Bandit::ReusingIterativeLocalSearch", "resetActionProbability_"), .config),
  (("AIToolbox::Factored::Bandit::ReusingIterativeLocalSearch", "rnd_"), .rng),
  (("AIToolbox::Factored::Bandit::ReusingIterativeLocalSearch", "trialNum_"), .documentedState),
  (("AIToolbox::Factored::MDP::FactoredLP", "S"), .config),
  (("AIToolbox::MDP::PolicyEvaluation", "A"), .ctorDerived),
  (("AIToolbox::MDP::PolicyEvaluation", "S"), .ctorDerived),
  (("AIToolbox::MDP::PolicyEvaluation", "horizon_"), .config),
  (("AIToolbox::MDP::PolicyEvaluation", "immediateRewards_"), .ctorDerived),
  (("AIToolbox::MDP::PolicyEvaluation", "model_"), .config),
  (("AIToolbox::MDP::PolicyEvaluation", "tolerance_"), .config),
  (("AIToolbox::MDP::PolicyEvaluation", "v1_"), .resetAtCall),
  (("AIToolbox::MDP::PolicyEvaluation", "vParameter_"), .config),
  (("AIToolbox::MDP::PolicyIteration", "horizon_"), .config),
  (("AIToolbox::MDP::PolicyIteration", "tolerance_"), .config),
  (("AIToolbox::MDP::ValueIteration", "horizon_"), .config),
  (("AIToolbox::MDP::ValueIteration", "tolerance_"), .config),
  (("AIToolbox::MDP::ValueIteration", "v1_"), .resetAtCall),
  (("AIToolbox::MDP::ValueIteration", "vParameter_"), .config),
  (("AIToolbox::POMDP::BeliefGenerator", "A"), .ctorDerived),
  (("AIToolbox::POMDP::BeliefGenerator", "S"), .ctorDerived),
  (("AIToolbox::POMDP::BeliefGenerator", "allBeliefsSize_"), .resetAtCall),
  (("AIToolbox::POMDP::BeliefGenerator", "blp_"), .resetAtCall),
  (("AIToolbox::POMDP::BeliefGenerator", "dp_"), .resetAtCall),
  (("AIToolbox::POMDP::BeliefGenerator", "goodBeliefsSize_"), .resetAtCall),
  (("AIToolbox::POMDP::BeliefGenerator", "helper_"), .overwrittenBeforeRead),
  (("AIToolbox::POMDP::BeliefGenerator", "model_"), .config),
  (("AIToolbox::POMDP::BeliefGenerator", "productiveBeliefs_"), .resetAtCall),
  (("AIToolbox::POMDP::BeliefGenerator", "rand_"), .rng),
  (("AIToolbox::POMDP::BeliefGenerator", "sop_"), .resetAtCall),
  (("AIToolbox::POMDP::BeliefGenerator", "up_"), .resetAtCall),
  (("AIToolbox::POMDP::BlindStrategies", "horizon_"), .config),
  (("AIToolbox::POMDP::BlindStrategies", "tolerance_"), .config),
  (("AIToolbox::POMDP::FastInformedBound", "horizon_"), .config),
  (("AIToolbox::POMDP::FastInformedBound", "tolerance_"), .config),
  (("AIToolbox::POMDP::GapMin", "immediateRewards_"), .resetAtCall),
  (("AIToolbox::POMDP::GapMin", "initialTolerance_"), .config),
  (("AIToolbox::POMDP::GapMin", "precisionDigits_"), .config),
  (("AIToolbox::POMDP::GapMin", "tolerance_"), .resetAtCall),
  (("AIToolbox::POMDP::IncrementalPruning", "A"), .resetAtCall),
  (("AIToolbox::POMDP::IncrementalPruning", "O"), .resetAtCall),
  (("AIToolbox::POMDP::IncrementalPruning", "S"), .resetAtCall),
  (("AIToolbox::POMDP::IncrementalPruning", "horizon_"), .config),
  (("AIToolbox::POMDP::IncrementalPruning", "tolerance_"), .config),
  (("AIToolbox::POMDP::LinearSupport", "agenda_"), .emptyAtExit),
  (("AIToolbox::POMDP::LinearSupport", "horizon_"), .config),
  (("AIToolbox::POMDP::LinearSupport", "tolerance_"), .config),
  (("AIToolbox::POMDP::PBVI", "A"), .resetAtCall),
  (("AIToolbox::POMDP::PBVI", "O"), .resetAtCall),
  (("AIToolbox::POMDP::PBVI", "S"), .resetAtCall),
  (("AIToolbox::POMDP::PBVI", "beliefSize_"), .config),
  (("AIToolbox::POMDP::PBVI", "horizon_"), .config),
  (("AIToolbox::POMDP::PBVI", "rand_"), .rng),
  (("AIToolbox::POMDP::PBVI", "tolerance_"), .config),
  (("AIToolbox::POMDP::PERSEUS", "A"), .resetAtCall),
  (("AIToolbox::POMDP::PERSEUS", "O"), .resetAtCall),
  (("AIToolbox::POMDP::PERSEUS", "S"), .resetAtCall),
  (("AIToolbox::POMDP::PERSEUS", "beliefSize_"), .config),
  (("AIToolbox::POMDP::PERSEUS", "horizon_"), .config),
  (("AIToolbox::POMDP::PERSEUS", "rand_"), .rng),
  (("AIToolbox::POMDP::PERSEUS", "tolerance_"), .config),
  (("AIToolbox::POMDP::Projecter", "A"), .ctorDerived),
  (("AIToolbox::POMDP::Projecter", "O"), .ctorDerived),
  (("AIToolbox::POMDP::Projecter", "S"), .ctorDerived),
  (("AIToolbox::POMDP::Projecter", "discount_"), .ctorDerived),
  (("AIToolbox::POMDP::Projecter", "immediateRewards_"), .ctorDerived),
  (("AIToolbox::POMDP::Projecter", "model_"), .ctorDerived),
  (("AIToolbox::POMDP::Projecter", "possibleObservations_"), .ctorDerived),
  (("AIToolbox::POMDP::QMDP", "solver_"), .nested),
  (("AIToolbox::POMDP::SARSOP", "backuppedActions_"), .resetAtCall),
  (("AIToolbox::POMDP::SARSOP", "beliefToNode_"), .resetAtCall),
  (("AIToolbox::POMDP::SARSOP", "delta_"), .resetAtCall),
  (("AIToolbox::POMDP::SARSOP", "immediateRewards_"), .resetAtCall),
  (("AIToolbox::POMDP::SARSOP", "initialDelta_"), .config),
  (("AIToolbox::POMDP::SARSOP", "intermediateBeliefTmp_"), .overwrittenBeforeRead),
  (("AIToolbox::POMDP::SARSOP", "nextBeliefTmp_"), .overwrittenBeforeRead),
  (("AIToolbox::POMDP::SARSOP", "predictors_"), .resetAtCall),
  (("AIToolbox::POMDP::SARSOP", "sampledNodes_"), .overwrittenBeforeRead),
  (("AIToolbox::POMDP::SARSOP", "tolerance_"), .config),
  (("AIToolbox::POMDP::SARSOP", "treeStorage_"), .resetAtCall),
  (("AIToolbox::POMDP::Witness", "A"), .resetAtCall),
  (("AIToolbox::POMDP::Witness", "O"), .resetAtCall),
  (("AIToolbox::POMDP::Witness", "S"), .resetAtCall),
  (("AIToolbox::POMDP::Witness", "agenda_"), .resetAtCall),
  (("AIToolbox::POMDP::Witness", "horizon_"), .config),
  (("AIToolbox::POMDP::Witness", "tolerance_"), .config),
  (("AIToolbox::POMDP::Witness", "triedVectors_"), .resetAtCall),
  (("AIToolbox::Pruner", "S"), .config),
  (("AIToolbox::Pruner", "lp_"), .nested) ]

/-- **solver_fields_accounted** — every data member of every class whose `operator()` is not (const, without mutable or
    indirect members) has a role.  A new data member in any solver re-opens this obligation. -/
theorem solver_fields_accounted : ∀ f ∈ AITB.Gen.Solvers.fields, (roles.map (·.1)).contains f = true := by
  decide +kernel

/-- **reset_claims_checked** — each `resetAtCall` claim is backed by the statement the translator found: the member's
    first use after the `operator()` definition (other than sizing) assigns, clears or fills it. -/
theorem reset_claims_checked :
    ∀ r ∈ roles, r.2 = Role.resetAtCall → ((AITB.Gen.Solvers.resetAtCall.map (fun x => (x.1, x.2.1))).contains r.1) = true := by
  decide +kernel

/-- no classification entry for a member that no longer exists -/
theorem roles_are_fields : ∀ r ∈ roles, AITB.Gen.Solvers.fields.contains r.1 = true := by
  decide +kernel

/-- the only classes with a `const` call that still own mutable or indirect members are classified too -/
theorem const_with_hidden_state_accounted :
    ∀ s ∈ AITB.Gen.Solvers.solvers, s.2.1 = true → (s.2.2.1 ≠ [] ∨ s.2.2.2 ≠ []) →
      (s.2.2.1 ++ s.2.2.2).all (fun f => (roles.map (·.1)).contains (s.1, f)) = true := by
  decide +kernel

theorem no_const_cast : AITB.Gen.Solvers.constCasts = 0 := by decide +kernel

/-- an object whose call first derives its scratch from configuration and arguments -/
def mkResetting {Cfg Scr In Out} (reset : Cfg → In → Scr) (body : Cfg → Scr → In → Scr × Out) : SolverSem Cfg Scr In Out where
  call := fun c _ x => let r := body c (reset c x) x; (c, r.1, r.2)

/-- **resetting_reusable** — the `resetAtCall` / `overwrittenBeforeRead` pattern is sufficient for history independence -/
theorem resetting_reusable {Cfg Scr In Out} (reset : Cfg → In → Scr) (body : Cfg → Scr → In → Scr × Out) :
    Reusable (mkResetting reset body) :=
  ⟨fun _ _ _ => rfl, fun _ _ _ _ => rfl⟩

theorem resetting_history_free {Cfg Scr In Out} (reset : Cfg → In → Scr) (body : Cfg → Scr → In → Scr × Out)
    (xs : List In) (c : Cfg) (sc : Scr) :
    (mkResetting reset body).runSeq c sc xs = xs.map (fun x => (body c (reset c x) x).2) :=
  call_output_independent_of_history _ (resetting_reusable reset body) sc xs c sc

/-- a drained container (`emptyAtExit`) as scratch: if every call leaves the scratch in the state a fresh object has,
    a sequence of calls equals fresh calls even when the body READS the incoming scratch -/
theorem drained_history_free {Cfg Scr In Out} (S : SolverSem Cfg Scr In Out) (fresh : Scr)
    (hcfg : ∀ c sc x, (S.call c sc x).1 = c) (hdrain : ∀ c x, (S.call c fresh x).2.1 = fresh) :
    ∀ (xs : List In) (c : Cfg), S.runSeq c fresh xs = xs.map (fun x => (S.call c fresh x).2.2) := by
  intro xs
  induction xs with
  | nil => intro c; rfl
  | cons x xs ih =>
    intro c
    simp only [SolverSem.runSeq, List.map]
    show (S.call c fresh x).2.2 :: S.runSeq (S.call c fresh x).1 (S.call c fresh x).2.1 xs = _
    rw [hcfg, hdrain, ih c]

example : (roles.filter (fun r => r.2 = Role.resetAtCall)).length = 32 := by decide +kernel

end AITB.Hidden
