/-
  AITB.Props.C03Refs — the two concrete reference families that enclose the optimal value, and the soundness of the modelled
  BlindStrategies / FastInformedBound loops (every iterate, every horizon / tolerance) against them.

      upperRef c j k = H^k (x ↦ x · B_MDP^j (c,…,c))        with  R(s,a) ≤ (1-γ)·c      : super-solutions, decreasing in k
      lowerRef c j k = H^k (x ↦ max_a x · Blind_a^j (c_a,…))  with  (1-γ)·c_a ≤ R(s,a)    : sublinear sub-solutions, increasing in k
-/
import AITB.Props.C03Lower
import AITB.Props.C03Upper

namespace AITB.POMDP3
open AITB.MDP

/-! ### generic: loops return an iterate -/

theorem tolLoop_inv {σ : Type} (step : σ → σ) (dist : σ → σ → Rat) (useTol : Bool) (tol : Rat) (P : σ → Prop)
    (hstep : ∀ x, P x → P (step x)) : ∀ (fuel : Nat) (st : LoopSt σ), P st.x → P (tolLoop step dist useTol tol fuel st).x := by
  intro fuel
  induction fuel with
  | zero => intro st h; exact h
  | succ fuel ih =>
    intro st h
    unfold tolLoop
    split
    · exact h
    · exact ih _ (hstep _ h)

theorem minTo_le (n : Nat) (f : Nat → Rat) : ∀ i, i ≤ n → minTo n f ≤ f i := by
  induction n with
  | zero => intro i hi; have : i = 0 := by omega
            subst this; exact le_refl _
  | succ n ih =>
    intro i hi
    unfold minTo
    rcases Nat.lt_or_ge i (n+1) with h | h
    · have := ih i (by omega)
      split
      · linarith
      · exact this
    · have : i = n + 1 := by omega
      subst this
      split
      · exact le_refl _
      · linarith

theorem iterH_add (m : POMDP) (V0 : (Nat → Rat) → Rat) (j k : Nat) : iterH m V0 (j + k) = iterH m (iterH m V0 j) k := by
  induction k with
  | zero => rfl
  | succ k ih => show Hop m (iterH m V0 (j + k)) = Hop m (iterH m (iterH m V0 j) k); rw [ih]

/-! ### upper references -/

/-- `v ≥ B_MDP v` -/
def MdpSuper (m : POMDP) (v : Nat → Rat) : Prop := ∀ s, s < m.S → ∀ a, a < m.A → blindStep m a v s ≤ v s

/-- look-ahead on a linear continuation is the value of the blind step of its vector -/
theorem qval_linV (m : POMDP) (hv : Valid m) (v x : Nat → Rat) (a : Nat) : qval m (linV m.S v) x a = dotS m.S x (blindStep m a v) := by
  rw [blindStep_eq_backup m hv, dotS_backupVec]
  rfl

theorem linV_superSol (m : POMDP) (hv : Valid m) (v : Nat → Rat) (h : MdpSuper m v) : SuperSol m (linV m.S v) := by
  intro x hx
  refine Hop_le_of_qval_le m hv.A0 _ x _ (fun a ha => ?_)
  rw [qval_linV m hv]
  exact dotS_le_of_le m.S x _ _ hx (fun s hs => h s hs a ha)

theorem mdpStep_le (m : POMDP) (hv : Valid m) (v : Nat → Rat) (h : MdpSuper m v) : ∀ s, s < m.S → mdpStep m v s ≤ v s := by
  intro s hs
  unfold mdpStep
  exact maxTo_le_of_le _ _ _ (fun a ha => h s hs a (by have := hv.A0; omega))

theorem blindStep_mono (m : POMDP) (hv : Valid m) (a : Nat) (v w : Nat → Rat) (h : ∀ s, s < m.S → v s ≤ w s) :
    ∀ s, blindStep m a v s ≤ blindStep m a w s := by
  intro s
  unfold blindStep
  have := mul_le_mul_of_nonneg_left (sumTo_le (f := fun s1 => m.T s a s1 * v s1) (g := fun s1 => m.T s a s1 * w s1)
    (fun s1 hs1 => mul_le_mul_of_nonneg_left (h s1 hs1) (hv.T0 s a s1))) hv.γ0
  linarith

theorem mdpStep_super (m : POMDP) (hv : Valid m) (v : Nat → Rat) (h : MdpSuper m v) : MdpSuper m (mdpStep m v) := by
  intro s _ a ha
  refine le_trans (blindStep_mono m hv a _ _ (mdpStep_le m hv v h) s) ?_
  exact maxTo_ge (m.A - 1) (fun a => m.R s a + m.γ * sumTo m.S (fun s1 => m.T s a s1 * v s1)) a (by omega)

theorem blindStep_const (m : POMDP) (hv : Valid m) (a : Nat) (c : Rat) (s : Nat) (hs : s < m.S) :
    blindStep m a (fun _ => c) s = m.R s a + m.γ * c := by
  unfold blindStep
  rw [sumTo_mul_right, hv.T1 s a hs, one_mul]

theorem const_mdpSuper (m : POMDP) (hv : Valid m) (c : Rat) (hc : ∀ s, s < m.S → ∀ a, a < m.A → m.R s a ≤ (1 - m.γ) * c) :
    MdpSuper m (fun _ => c) := by
  intro s hs a ha
  rw [blindStep_const m hv a c s hs]
  have := hc s hs a ha
  linarith

theorem mdpIter_super (m : POMDP) (hv : Valid m) (v : Nat → Rat) (h : MdpSuper m v) (j : Nat) : MdpSuper m (Nat.iterate (mdpStep m) j v) := by
  induction j generalizing v with
  | zero => exact h
  | succ j ih => exact ih _ (mdpStep_super m hv v h)

/-- `upperRef c j k`: the family the driver evaluates (`upperRefV`) -/
def upperRef (m : POMDP) (c : Rat) (j k : Nat) : (Nat → Rat) → Rat := iterH m (linV m.S (Nat.iterate (mdpStep m) j (fun _ => c))) k

theorem upperRef_superSol (m : POMDP) (hv : Valid m) (c : Rat) (hc : ∀ s, s < m.S → ∀ a, a < m.A → m.R s a ≤ (1 - m.γ) * c) (j k : Nat) :
    SuperSol m (upperRef m c j k) :=
  iterH_superSol m hv _ (linV_superSol m hv _ (mdpIter_super m hv _ (const_mdpSuper m hv c hc) j)) k

/-- the family decreases in `k` -/
theorem upperRef_antitone (m : POMDP) (hv : Valid m) (c : Rat) (hc : ∀ s, s < m.S → ∀ a, a < m.A → m.R s a ≤ (1 - m.γ) * c) (j k : Nat)
    (x : Nat → Rat) (hx : NN x) : upperRef m c j (k+1) x ≤ upperRef m c j k x := upperRef_superSol m hv c hc j k x hx

theorem mdpStep_ge_const (m : POMDP) (hv : Valid m) (c' : Rat) (a : Nat) (ha : a < m.A) (hc' : ∀ s, s < m.S → (1 - m.γ) * c' ≤ m.R s a)
    (v : Nat → Rat) (h : ∀ s, s < m.S → c' ≤ v s) : ∀ s, s < m.S → c' ≤ mdpStep m v s := by
  intro s hs
  have h1 := blindStep_mono m hv a (fun _ => c') v h s
  rw [blindStep_const m hv a c' s hs] at h1
  have h2 : blindStep m a v s ≤ mdpStep m v s :=
    maxTo_ge (m.A - 1) (fun a => m.R s a + m.γ * sumTo m.S (fun s1 => m.T s a s1 * v s1)) a (by omega)
  have := hc' s hs
  linarith

/-- a constant `c'` with `(1-γ) c' ≤ R(·,a)` for some action and `c' ≤ c` is below every member of the upper family -/
theorem const_le_upperRef (m : POMDP) (hv : Valid m) (c c' : Rat) (a : Nat) (ha : a < m.A)
    (hc' : ∀ s, s < m.S → (1 - m.γ) * c' ≤ m.R s a) (hle : c' ≤ c) (j k : Nat) :
    ∀ x, NN x → c' * mass m.S x ≤ upperRef m c j k x := by
  have hj : ∀ j, ∀ s, s < m.S → c' ≤ Nat.iterate (mdpStep m) j (fun _ => c) s := by
    intro j
    suffices h : ∀ v : Nat → Rat, (∀ s, s < m.S → c' ≤ v s) → ∀ s, s < m.S → c' ≤ Nat.iterate (mdpStep m) j v s from h _ (fun _ _ => hle)
    induction j with
    | zero => intro v h; exact h
    | succ j ih => intro v h; exact ih _ (mdpStep_ge_const m hv c' a ha hc' v h)
  refine const_le_iterH m hv _ c' a ha hc' (fun x hx => ?_) k
  have := dotS_le_of_le m.S x (fun _ => c') _ hx (hj j)
  have e : dotS m.S x (fun _ => c') = c' * mass m.S x := by
    unfold dotS mass; rw [← sumTo_mul_left]; exact sumTo_congr (fun s _ => by ring)
  rw [e] at this; exact this

/-- finite horizon: `H^j 0 ≤ x · B_MDP^j 0`, hence the `(j+k)`-step optimum is below `upperRef 0 j k` -/
theorem Hop_linV_le (m : POMDP) (hv : Valid m) (v : Nat → Rat) (x : Nat → Rat) (hx : NN x) :
    Hop m (linV m.S v) x ≤ linV m.S (mdpStep m v) x := by
  refine Hop_le_of_qval_le m hv.A0 _ x _ (fun a ha => ?_)
  rw [qval_linV m hv]
  exact dotS_le_of_le m.S x _ _ hx (fun s _ =>
    maxTo_ge (m.A - 1) (fun a => m.R s a + m.γ * sumTo m.S (fun s1 => m.T s a s1 * v s1)) a (by omega))

theorem iterH_le_linV_mdp (m : POMDP) (hv : Valid m) (v : Nat → Rat) (j : Nat) :
    ∀ x, NN x → iterH m (linV m.S v) j x ≤ linV m.S (Nat.iterate (mdpStep m) j v) x := by
  induction j generalizing v with
  | zero => intro x _; exact le_refl _
  | succ j ih =>
    intro x hx
    -- H^(j+1) (lin v) = H^j (H (lin v)) ≤ H^j (lin (B v)) ≤ lin (B^j (B v))
    have e : iterH m (linV m.S v) (j+1) = iterH m (iterH m (linV m.S v) 1) j := by rw [← iterH_add, Nat.add_comm]
    rw [e]
    refine le_trans (iterH_mono m hv _ _ (fun y hy => Hop_linV_le m hv v y hy) j x hx) ?_
    exact ih (mdpStep m v) x hx

theorem finite_horizon_le_upperRef (m : POMDP) (hv : Valid m) (c : Rat) (j k : Nat) (x : Nat → Rat) (hx : NN x) :
    iterH m (linV m.S (fun _ => c)) (j + k) x ≤ upperRef m c j k x := by
  rw [iterH_add]
  exact iterH_mono m hv _ _ (iterH_le_linV_mdp m hv _ j) k x hx

/-! ### BlindStrategies, as modelled, against the upper family -/

theorem blindStepV_get (m : POMDP) (a : Nat) (α : Vec) (s : Nat) (hs : s < m.S) : (blindStepV m a α).get s = blindStep m a α.get s :=
  mkVec_get _ hs

theorem clampDen_pos (γ : Rat) (h : γ < 1) : 0 < clampDen γ := by
  unfold clampDen
  split
  · unfold Gen.C03Src.clamp; norm_num
  · linarith

theorem clampDen_ge (γ : Rat) : 1 - γ ≤ clampDen γ := by
  unfold clampDen
  split <;> linarith

/-- the source divides the *minimum* reward of the action (regenerated fact) -/
theorem src_blind_start_is_min : Gen.C03Src.blindStartIsMin = true := rfl
theorem src_fib_start_is_max : Gen.C03Src.fibStartIsMax = true := rfl
theorem src_fib_inner_is_max : Gen.C03Src.fibInnerIsMax = true := rfl

/-- the fast start is a safe constant: `(1-γ)·start ≤ R(s,a)` — PROVIDED the clamp is inactive or the action's rewards are
    non-negative (hypothesis forced by the proof; see `blind_fast_start_unsafe_witness`) -/
theorem blind_fast_start_safe (m : POMDP) (hv : Valid m) (hS : 0 < m.S) (a : Nat)
    (hsafe : Gen.C03Src.clamp ≤ 1 - m.γ ∨ 0 ≤ minRa m a) :
    ∀ s, s < m.S → (1 - m.γ) * (blindStartNum m a / clampDen m.γ) ≤ m.R s a := by
  intro s hs
  have hmin : minRa m a ≤ m.R s a := minTo_le (m.S - 1) (fun s => m.R s a) s (by omega)
  have hnum : blindStartNum m a = minRa m a := by unfold blindStartNum; rw [src_blind_start_is_min]; rfl
  rw [hnum]
  have hpos := clampDen_pos m.γ hv.γ1
  have hge := clampDen_ge m.γ
  have h1 : 0 < 1 - m.γ := by have := hv.γ1; linarith
  rcases hsafe with h | h
  · have e : clampDen m.γ = 1 - m.γ := by unfold clampDen; rw [if_neg (by linarith)]
    rw [e, mul_div_cancel₀ _ (ne_of_gt h1)]
    exact hmin
  · have : (1 - m.γ) * (minRa m a / clampDen m.γ) ≤ minRa m a := by
      rw [mul_div_assoc', div_le_iff₀ hpos]
      nlinarith
    linarith

/-- **blind_fast_lower**: with the `min R_a / max(clamp, 1-γ)` start every iterate of the modelled BlindStrategies loop — whatever
    the horizon and tolerance — is below every member of the upper family at every belief. -/
theorem blind_fast_lower (m : POMDP) (hv : Valid m) (hS : 0 < m.S) (a : Nat) (ha : a < m.A) (horizon : Nat) (tol : Rat)
    (hsafe : Gen.C03Src.clamp ≤ 1 - m.γ ∨ 0 ≤ minRa m a)
    (c : Rat) (hc : ∀ s, s < m.S → ∀ a, a < m.A → m.R s a ≤ (1 - m.γ) * c) (j k : Nat) :
    ∀ x, NN x → dotS m.S x (blindAction m true horizon tol a).x.get ≤ upperRef m c j k x := by
  have hsup := upperRef_superSol m hv c hc j k
  have hstart := blind_fast_start_safe m hv hS a hsafe
  set c0 := blindStartNum m a / clampDen m.γ with hc0
  have h1 : 0 < 1 - m.γ := by have := hv.γ1; linarith
  have hle : c0 ≤ c := by
    have := hstart 0 hS
    have := hc 0 hS a ha
    nlinarith
  have hP : ∀ (st : LoopSt Vec), LBSound m (upperRef m c j k) st.x.get →
      LBSound m (upperRef m c j k) (tolLoop (blindStepV m a) (maxAbsDiffV m.S) (checkDifferentSmall tol 0) tol horizon st).x.get := by
    intro st h
    exact tolLoop_inv (blindStepV m a) _ _ tol (fun v : Vec => LBSound m (upperRef m c j k) v.get)
      (fun v hvv => LBSound_congr m _ (fun s hs => (blindStepV_get m a v s hs).symm) (blindStep_sound m hv _ hsup a ha _ hvv)) horizon st h
  unfold blindAction
  simp only [if_true]
  refine hP _ ?_
  refine LBSound_congr m _ (β := (mkVec m.S (fun _ => c0)).get) (fun s hs => (mkVec_get _ hs).symm) ?_
  exact const_LBSound m _ c0 (const_le_upperRef m hv c c0 a ha hstart hle j k)

/-- **blind_plain_lower**: started from `R(:,a)` the `n`-th iterate is below the `(n+1)`-step optimum `H^(n+1) 0` (it is the
    `(n+1)`-step value of the blind policy), at every belief -/
theorem blind_plain_lower (m : POMDP) (hv : Valid m) (a : Nat) (ha : a < m.A) (n : Nat) :
    ∀ x, NN x → dotS m.S x (Nat.iterate (blindStep m a) n (fun s => m.R s a)) ≤ iterH m (fun _ => 0) (n + 1) x := by
  suffices h : ∀ (t : Nat) (α : Nat → Rat), (∀ x, NN x → dotS m.S x α ≤ iterH m (fun _ => 0) t x) →
      ∀ x, NN x → dotS m.S x (Nat.iterate (blindStep m a) n α) ≤ iterH m (fun _ => 0) (t + n) x by
    have := h 1 (fun s => m.R s a) (fun x hx => by
      show dotS m.S x (fun s => m.R s a) ≤ Hop m (fun _ => 0) x
      refine le_trans (le_of_eq ?_) (qval_le_Hop m hv.A0 _ x a ha)
      unfold qval rew dotS
      rw [sumTo_zero, mul_zero, add_zero])
    intro x hx
    rw [Nat.add_comm]; exact this x hx
  induction n with
  | zero => intro t α h; exact h
  | succ n ih =>
    intro t α h x hx
    have hstep : ∀ y, NN y → dotS m.S y (blindStep m a α) ≤ iterH m (fun _ => 0) (t + 1) y := by
      intro y hy
      rw [blindStep_eq_backup m hv]
      refine le_trans (pointBackup_le_qval m hv _ y a _ (fun o _ => h _ (bstep_nonneg m hv y hy a o))) ?_
      exact qval_le_Hop m hv.A0 _ y a ha
    have := ih (t + 1) (blindStep m a α) hstep x hx
    have e : t + (n + 1) = t + 1 + n := by omega
    rw [e]; exact this

/-! ### lower references -/

/-- `β ≤ Blind_a β` -/
def BlindSub (m : POMDP) (a : Nat) (β : Nat → Rat) : Prop := ∀ s, s < m.S → β s ≤ blindStep m a β s

theorem blindIter_sub (m : POMDP) (hv : Valid m) (a : Nat) (β : Nat → Rat) (h : BlindSub m a β) (j : Nat) :
    BlindSub m a (Nat.iterate (blindStep m a) j β) := by
  induction j generalizing β with
  | zero => exact h
  | succ j ih => exact ih _ (fun s _ => blindStep_mono m hv a _ _ h s)

theorem const_blindSub (m : POMDP) (hv : Valid m) (a : Nat) (c : Rat) (hc : ∀ s, s < m.S → (1 - m.γ) * c ≤ m.R s a) :
    BlindSub m a (fun _ => c) := by
  intro s hs
  rw [blindStep_const m hv a c s hs]
  have := hc s hs
  linarith

/-- the envelope of per-action blind sub-solutions is a sub-solution of the belief MDP -/
theorem maxLinV_subSol (m : POMDP) (hv : Valid m) (β : Nat → Nat → Rat) (h : ∀ a, a < m.A → BlindSub m a (β a)) :
    SubSol m (maxLinV m.S (m.A - 1) β) := by
  intro x hx
  unfold maxLinV
  refine maxTo_le_of_le _ _ _ (fun a ha' => ?_)
  have ha : a < m.A := by have := hv.A0; omega
  refine le_trans ?_ (qval_le_Hop m hv.A0 _ x a ha)
  -- x·β_a ≤ x·Blind_a β_a = r(x,a) + γ Σ_o (x_o · β_a) ≤ qval
  refine le_trans (dotS_le_of_le m.S x _ _ hx (h a ha)) ?_
  rw [blindStep_eq_backup m hv, dotS_backupVec]
  unfold qval
  have : sumTo m.O (fun o => dotS m.S (bstep m x a o) (β a)) ≤ sumTo m.O (fun o => maxTo (m.A - 1) (fun i => dotS m.S (bstep m x a o) (β i))) :=
    sumTo_le (fun o _ => maxTo_ge (m.A - 1) (fun i => dotS m.S (bstep m x a o) (β i)) a ha')
  have := mul_le_mul_of_nonneg_left this hv.γ0
  linarith

theorem iterH_subSol (m : POMDP) (hv : Valid m) (V0 : (Nat → Rat) → Rat) (h0 : SubSol m V0) (k : Nat) : SubSol m (iterH m V0 k) := by
  induction k with
  | zero => exact h0
  | succ k ih => intro x hx; exact Hop_mono m hv _ _ ih x hx

/-- `lowerRef c j k`: the family the driver evaluates (`lowerRefV`) -/
def lowerRef (m : POMDP) (c : Nat → Rat) (j k : Nat) : (Nat → Rat) → Rat :=
  iterH m (maxLinV m.S (m.A - 1) (fun a => Nat.iterate (blindStep m a) j (fun _ => c a))) k

theorem lowerRef_subSol (m : POMDP) (hv : Valid m) (c : Nat → Rat) (hc : ∀ a, a < m.A → ∀ s, s < m.S → (1 - m.γ) * c a ≤ m.R s a) (j k : Nat) :
    SubSol m (lowerRef m c j k) :=
  iterH_subSol m hv _ (maxLinV_subSol m hv _ (fun a ha => blindIter_sub m hv a _ (const_blindSub m hv a (c a) (hc a ha)) j)) k

theorem lowerRef_sublin (m : POMDP) (hv : Valid m) (c : Nat → Rat) (j k : Nat) : Sublin m.S (lowerRef m c j k) :=
  Sublin_iterH m hv _ (Sublin_maxLinV _ _ _) k

/-- the family increases in `k` -/
theorem lowerRef_monotone (m : POMDP) (hv : Valid m) (c : Nat → Rat) (hc : ∀ a, a < m.A → ∀ s, s < m.S → (1 - m.γ) * c a ≤ m.R s a) (j k : Nat)
    (x : Nat → Rat) (hx : NN x) : lowerRef m c j k x ≤ lowerRef m c j (k+1) x := lowerRef_subSol m hv c hc j k x hx

theorem Hop_le_const (m : POMDP) (hv : Valid m) (V : (Nat → Rat) → Rat) (C : Rat) (hC : ∀ s, s < m.S → ∀ a, a < m.A → m.R s a ≤ (1 - m.γ) * C)
    (h : ∀ x, NN x → V x ≤ C * mass m.S x) : ∀ x, NN x → Hop m V x ≤ C * mass m.S x := by
  intro x hx
  refine Hop_le_of_qval_le m hv.A0 V x _ (fun a ha => ?_)
  unfold qval
  have h1 : rew m x a ≤ (1 - m.γ) * C * mass m.S x := by
    unfold mass rew
    rw [← sumTo_mul_left]
    exact sumTo_le (fun s hs => by
      have := mul_le_mul_of_nonneg_left (hC s hs a ha) (hx s)
      linarith)
  have h2 : sumTo m.O (fun o => V (bstep m x a o)) ≤ C * mass m.S x := by
    rw [← mass_bstep m hv x a, ← sumTo_mul_left]
    exact sumTo_le (fun o _ => h _ (bstep_nonneg m hv x hx a o))
  have h3 := mul_le_mul_of_nonneg_left h2 hv.γ0
  nlinarith

theorem blindIter_le_const (m : POMDP) (hv : Valid m) (a : Nat) (ha : a < m.A) (C : Rat)
    (hC : ∀ s, s < m.S → ∀ a, a < m.A → m.R s a ≤ (1 - m.γ) * C) (j : Nat) (β : Nat → Rat) (h : ∀ s, s < m.S → β s ≤ C) :
    ∀ s, s < m.S → Nat.iterate (blindStep m a) j β s ≤ C := by
  induction j generalizing β with
  | zero => exact h
  | succ j ih =>
    refine ih _ (fun s hs => ?_)
    have h1 := blindStep_mono m hv a β (fun _ => C) h s
    rw [blindStep_const m hv a C s hs] at h1
    have := hC s hs a ha
    linarith

theorem lowerRef_le_const (m : POMDP) (hv : Valid m) (c : Nat → Rat) (C : Rat)
    (hC : ∀ s, s < m.S → ∀ a, a < m.A → m.R s a ≤ (1 - m.γ) * C) (hcC : ∀ a, a < m.A → c a ≤ C) (j k : Nat) :
    ∀ x, NN x → lowerRef m c j k x ≤ C * mass m.S x := by
  unfold lowerRef
  induction k with
  | zero =>
    intro x hx
    show maxLinV m.S (m.A - 1) _ x ≤ _
    unfold maxLinV
    refine maxTo_le_of_le _ _ _ (fun a ha' => ?_)
    have ha : a < m.A := by have := hv.A0; omega
    have := dotS_le_of_le m.S x _ (fun _ => C) hx (blindIter_le_const m hv a ha C hC j (fun _ => c a) (fun _ _ => hcC a ha))
    have e : dotS m.S x (fun _ => C) = C * mass m.S x := by
      unfold dotS mass; rw [← sumTo_mul_left]; exact sumTo_congr (fun s _ => by ring)
    rw [e] at this; exact this
  | succ k ih => exact Hop_le_const m hv _ C hC ih

theorem mass_unit (S s : Nat) (hs : s < S) : mass S (unit s) = 1 := by
  unfold mass
  have := sumTo_indicator S (fun _ => (1 : Rat)) s hs
  rw [← this]
  exact sumTo_congr (fun i _ => by unfold unit; by_cases h : i = s <;> simp [h])

/-- a constant Q-function `C` with `R ≤ (1-γ) C` is sound w.r.t. every `V ≤ C·mass` -/
theorem const_QSound (m : POMDP) (hv : Valid m) (V : (Nat → Rat) → Rat) (C : Rat)
    (hC : ∀ s, s < m.S → ∀ a, a < m.A → m.R s a ≤ (1 - m.γ) * C) (h : ∀ x, NN x → V x ≤ C * mass m.S x) :
    QSound m V (fun _ _ => C) := by
  intro s hs a ha
  unfold qval
  rw [rew_unit m s a hs]
  have h2 : sumTo m.O (fun o => V (bstep m (unit s) a o)) ≤ C * mass m.S (unit s) := by
    rw [← mass_bstep m hv (unit s) a, ← sumTo_mul_left]
    exact sumTo_le (fun o _ => h _ (bstep_nonneg m hv _ (NN_unit s) a o))
  rw [mass_unit m.S s hs, mul_one] at h2
  have h3 := mul_le_mul_of_nonneg_left h2 hv.γ0
  have := hC s hs a ha
  linarith

theorem QSound_congr (m : POMDP) (V : (Nat → Rat) → Rat) {Q Q' : Nat → Nat → Rat} (h : ∀ s, s < m.S → ∀ a, a < m.A → Q s a = Q' s a)
    (hQ : QSound m V Q) : QSound m V Q' := fun s hs a ha => by rw [← h s hs a ha]; exact hQ s hs a ha

theorem maxTo_le_max (n : Nat) (f : Nat → Rat) (i : Nat) (hi : i ≤ n) : f i ≤ maxTo n f := maxTo_ge n f i hi

/-- the FIB start is a safe constant — PROVIDED the clamp is inactive or all rewards are non-positive -/
theorem fib_start_safe (m : POMDP) (hv : Valid m) (hsafe : Gen.C03Src.clamp ≤ 1 - m.γ ∨ maxRall m ≤ 0) :
    ∀ s, s < m.S → ∀ a, a < m.A → m.R s a ≤ (1 - m.γ) * (fibStartNum m / clampDen m.γ) := by
  intro s hs a ha
  have hmax : m.R s a ≤ maxRall m := by
    unfold maxRall
    exact le_trans (maxTo_ge (m.A - 1) (m.R s) a (by omega)) (maxTo_ge (m.S - 1) (fun s => maxTo (m.A - 1) (m.R s)) s (by omega))
  have hnum : fibStartNum m = maxRall m := by unfold fibStartNum; rw [src_fib_start_is_max]; rfl
  rw [hnum]
  have hpos := clampDen_pos m.γ hv.γ1
  have hge := clampDen_ge m.γ
  have h1 : 0 < 1 - m.γ := by have := hv.γ1; linarith
  rcases hsafe with h | h
  · have e : clampDen m.γ = 1 - m.γ := by unfold clampDen; rw [if_neg (by linarith)]
    rw [e, mul_div_cancel₀ _ (ne_of_gt h1)]
    exact hmax
  · have : maxRall m ≤ (1 - m.γ) * (maxRall m / clampDen m.γ) := by
      rw [mul_div_assoc', le_div_iff₀ hpos]
      nlinarith
    linarith

theorem fibStepM_get (m : POMDP) (Q : Mat) (s a : Nat) (hs : s < m.S) (ha : a < m.A) : (fibStepM m Q).get s a = fibStep m Q.get s a := by
  unfold fibStepM fibStepWsrc
  rw [mkMat_get _ hs ha, src_fib_inner_is_max]
  rfl

/-- **fib_upper**: from the `max R / max(clamp, 1-γ)` start every iterate of the modelled FastInformedBound loop — whatever the horizon
    and tolerance — dominates every member of the lower family at every belief. -/
theorem fib_upper (m : POMDP) (hv : Valid m) (horizon : Nat) (tol : Rat)
    (hsafe : Gen.C03Src.clamp ≤ 1 - m.γ ∨ maxRall m ≤ 0)
    (c : Nat → Rat) (hc : ∀ a, a < m.A → ∀ s, s < m.S → (1 - m.γ) * c a ≤ m.R s a)
    (hcC : ∀ a, a < m.A → c a ≤ fibStartNum m / clampDen m.γ) (j k : Nat) :
    ∀ x, NN x → lowerRef m c j k x ≤ basicVal m.S m.A (fib m horizon tol).x.get x := by
  set C := fibStartNum m / clampDen m.γ with hCdef
  have hC := fib_start_safe m hv hsafe
  have hV := lowerRef_sublin m hv c j k
  have hsub := lowerRef_subSol m hv c hc j k
  have hle := lowerRef_le_const m hv c C hC hcC j k
  have hstart : QSound m (lowerRef m c j k) (mkMat m.S m.A (fun _ _ => C)).get :=
    QSound_congr m _ (fun s hs a ha => (mkMat_get _ hs ha).symm) (const_QSound m hv _ C hC hle)
  have hinv := tolLoop_inv (fibStepM m) (maxAbsDiffM m.S m.A) (checkDifferentSmall tol 0) tol
    (fun Q : Mat => QSound m (lowerRef m c j k) Q.get)
    (fun Q hQ => QSound_congr m _ (fun s hs a ha => (fibStepM_get m Q s a hs ha).symm) (fibStep_sound m hv _ hV hsub _ hQ))
    horizon ⟨mkMat m.S m.A (fun _ _ => C), tol * 2, 0⟩ hstart
  intro x hx
  have hQ : QSound m (lowerRef m c j k) (fib m horizon tol).x.get := by
    unfold fib
    exact hinv
  exact fib_ge_v m hv _ hV hsub _ hQ x hx

end AITB.POMDP3
