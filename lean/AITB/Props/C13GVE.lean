/-
  AITB.Props.C13GVE — the bookkeeping of `GenericVariableElimination::removeFactor` AS WRITTEN
  (enumerator-driven `while (jointValues.isValid())` loop, running counter `jvID`, walking cursor `oldRulesCurrId`)
  computes exactly what the table-level model `removeLoop` (lower-bound insertion from the front, `toFactors jvID`)
  computes — for all sizes, all graphs.  Hence `tve_correct` holds for the as-written run `tveRunW`.
-/
import AITB.Props.C13Tags
import AITB.Model.VEWritten

namespace AITB.VE
open AITB.Factored

/-- cursor invariant: every rule in front of the cursor has an index below the next `jvID` -/
def CurInv (id cur : Nat) (rules : List TRule) : Prop := ∀ i r, i < cur → rules[i]? = some r → r.idx < id

theorem CurInv_mono {id id' cur : Nat} {rules : List TRule} (h : CurInv id cur rules) (hle : id ≤ id') :
    CurInv id' cur rules := fun i r hi hr => Nat.lt_of_lt_of_le (h i r hi hr) hle

theorem CurInv_tail {id cur : Nat} {r : TRule} {rs : List TRule} (h : CurInv id (cur+1) (r :: rs)) : CurInv id cur rs :=
  fun i r' hi hr' => h (i+1) r' (by omega) (by simpa using hr')

/-- the walking cursor inserts exactly where a `lower_bound` from the front would -/
theorem cursorIns_fst (nr : TRule) : ∀ (rules : List TRule) (cur : Nat), CurInv nr.idx cur rules →
    (cursorIns nr cur rules).1 = mergeRule nr rules
  | [], cur, _ => by cases cur <;> simp [cursorIns, mergeRule]
  | r :: rs, 0, _ => by
    simp only [cursorIns, mergeRule]
    split
    · simp [cursorIns_fst nr rs 0 (fun i r hi _ => absurd hi (Nat.not_lt_zero i))]
    · split <;> rfl
  | r :: rs, cur+1, h => by
    have h0 : r.idx < nr.idx := h 0 r (by omega) (by simp)
    simp only [cursorIns, mergeRule, h0, if_true]
    rw [cursorIns_fst nr rs cur (CurInv_tail h)]

/-- … and leaves the cursor behind the rule with index `jvID`: the invariant holds for every later `jvID` -/
theorem cursorIns_inv (nr : TRule) : ∀ (rules : List TRule) (cur : Nat), CurInv nr.idx cur rules →
    CurInv (nr.idx + 1) (cursorIns nr cur rules).2 (cursorIns nr cur rules).1
  | [], cur, _ => by
    intro i r hi hr
    have hc : cursorIns nr cur [] = ([nr], cur + 1) := by cases cur <;> simp [cursorIns]
    rw [hc] at hr
    cases i with
    | zero => simp at hr; rw [← hr]; omega
    | succ i => simp at hr
  | r :: rs, 0, _ => by
    intro i r' hi hr'
    simp only [cursorIns] at hi hr'
    split at hi
    · rename_i hlt
      simp only [hlt, if_true] at hr'
      cases i with
      | zero => simp at hr'; rw [← hr']; omega
      | succ i =>
        have ih := cursorIns_inv nr rs 0 (fun i r hi _ => absurd hi (Nat.not_lt_zero i))
        exact ih i r' (by simpa using hi) (by simpa using hr')
    · rename_i hlt
      simp only [hlt, if_false] at hr'
      split at hi
      · rename_i heq
        simp only [heq, if_true] at hr'
        have : i = 0 := by simp at hi; omega
        subst this
        simp at hr'; rw [← hr']
        have : r.idx = nr.idx := by simpa using heq
        simp [this]
      · rename_i heq
        simp only [heq] at hr'
        have : i = 0 := by simp at hi; omega
        subst this
        simp at hr'; rw [← hr']; omega
  | r :: rs, cur+1, h => by
    intro i r' hi hr'
    simp only [cursorIns] at hi hr'
    cases i with
    | zero => simp at hr'; rw [← hr']; have := h 0 r (by omega) (by simp); omega
    | succ i =>
      have ih := cursorIns_inv nr rs cur (CurInv_tail h)
      exact ih i r' (by simpa using hi) (by simpa using hr')

/-- the rules of the node `getFactor(keys)` returns (first node with these keys) -/
def rulesOf (keys : List Nat) : List TNode → List TRule
  | [] => []
  | nd :: g => if nd.keys == keys then nd.rules else rulesOf keys g

theorem cursorAdd_spec (keys : List Nat) (nr : TRule) (cur : Nat) : ∀ (g : List TNode),
    CurInv nr.idx cur (rulesOf keys g) →
      (cursorAdd keys nr cur g).1 = addToNode keys nr g ∧
      CurInv (nr.idx + 1) (cursorAdd keys nr cur g).2 (rulesOf keys (cursorAdd keys nr cur g).1)
  | [], _ => by
    refine ⟨by simp [cursorAdd, addToNode], ?_⟩
    intro i r hi hr
    simp only [cursorAdd, rulesOf, beq_self_eq_true, if_true] at hr
    cases i with
    | zero => simp at hr; rw [← hr]; omega
    | succ i => simp at hr
  | nd :: g, h => by
    by_cases hk : (nd.keys == keys) = true
    · simp only [rulesOf, hk, if_true] at h
      simp only [cursorAdd, addToNode, hk, if_true, rulesOf]
      exact ⟨by rw [cursorIns_fst nr nd.rules cur h], cursorIns_inv nr nd.rules cur h⟩
    · have hk' : (nd.keys == keys) = false := by simpa using hk
      simp only [rulesOf, hk', Bool.false_eq_true, if_false] at h
      obtain ⟨h1, h2⟩ := cursorAdd_spec keys nr cur g h
      simp only [cursorAdd, addToNode, hk', Bool.false_eq_true, if_false, rulesOf]
      exact ⟨by rw [h1], h2⟩

/-! ### the enumerator's key list (`missing = true` constructor) -/

theorem er_insKey (f : Nat → Nat) (v : Nat) : ∀ (nb : List Nat) (pos : Nat),
    er pos (pos + (insKey v nb).2) ((insKey v nb).1.map f) = nb.map f
  | [], pos => by simp [insKey, er]
  | k :: ks, pos => by
    simp only [insKey]
    split
    · simp [er]
    · have ih := er_insKey f v ks (pos + 1)
      have hne : ¬ pos = pos + ((insKey v ks).2 + 1) := by omega
      simp only [List.map_cons, er, hne, if_false]
      rw [show pos + ((insKey v ks).2 + 1) = pos + 1 + (insKey v ks).2 by omega, ih]

theorem mem_insKey (v : Nat) : ∀ (nb : List Nat) (u : Nat), u ∈ (insKey v nb).1 → u = v ∨ u ∈ nb
  | [], u, h => by simp [insKey] at h; exact Or.inl h
  | k :: ks, u, h => by
    simp only [insKey] at h
    split at h
    · simp at h; rcases h with h | h | h
      · exact Or.inl h
      · exact Or.inr (by simp [h])
      · exact Or.inr (by simp [h])
    · simp at h; rcases h with h | h
      · exact Or.inr (by simp [h])
      · rcases mem_insKey v ks u h with h' | h'
        · exact Or.inl h'
        · exact Or.inr (by simp [h'])

theorem insKey_ne_nil (v : Nat) (nb : List Nat) : (insKey v nb).1 ≠ [] := by
  cases nb with
  | nil => simp [insKey]
  | cons k ks => simp only [insKey]; split <;> simp

/-! ### the loop as written = the table-level loop -/

section loop
variable (A : List Nat) (n : Nat) (nb : List Nat) (v : Nat) (factors : List TNode) (skip : Nat) (dims : List Nat)

/-- **`removeFactor`'s loop as written (enumerator + `jvID` + cursor) equals `removeLoop`**, from any point `j` of the
    enumeration on, whenever the cursor invariant holds there. -/
theorem removeLoopW_eq (hdims : er 0 skip dims = sel nb A) (hpos : ∀ d ∈ dims, 0 < d) (hne : dims ≠ []) :
    ∀ (cnt j cur fuel : Nat) (st : TState), j + cnt = space (sel nb A) → cnt < fuel →
      CurInv j cur (rulesOf nb st.graph) →
      removeLoopW A n nb v factors skip dims fuel (advanceN skip dims j) j cur st = removeLoop A n nb v factors cnt j st := by
  intro cnt
  induction cnt with
  | zero =>
    intro j cur fuel st hj hf _
    have hend := enumerator_ends dims skip hpos hne
    rw [hdims] at hend
    have : j = space (sel nb A) := by omega
    rw [this, hend]
    cases fuel with
    | zero => omega
    | succ f => simp [removeLoopW, removeLoop]
  | succ cnt ih =>
    intro j cur fuel st hj hf hinv
    obtain ⟨vals, hv, her⟩ := enumerator_kth_eq_toFactors dims skip hpos hne j (by rw [hdims]; omega)
    rw [hdims] at her
    cases fuel with
    | zero => omega
    | succ f =>
      have hnext : advance skip dims (some vals) = advanceN skip dims (j+1) := by simp [advanceN, hv]
      rw [hv, removeLoop_succ]
      simp only [removeLoopW, her, hnext]
      cases hb : bestOver A n nb (toFactors (sel nb A) j) v factors (A.getD v 0) 0 none with
      | none => exact ih (j+1) cur f st (by omega) (by omega) (CurInv_mono hinv (by omega))
      | some nf =>
        by_cases hemp : nb.isEmpty = true
        · simp only [hemp, if_true]
          exact ih (j+1) cur f _ (by omega) (by omega) (CurInv_mono hinv (by omega))
        · simp only [hemp, Bool.false_eq_true, if_false]
          obtain ⟨h1, h2⟩ := cursorAdd_spec nb ⟨j, nf.1, nf.2⟩ cur st.graph hinv
          have := ih (j+1) (cursorAdd nb ⟨j, nf.1, nf.2⟩ cur st.graph).2 f
            { st with graph := (cursorAdd nb ⟨j, nf.1, nf.2⟩ cur st.graph).1 } (by omega) (by omega) h2
          rw [this, h1]

end loop

theorem getD_pos (A : List Nat) (hA : ∀ d ∈ A, 0 < d) (u : Nat) (hu : u < A.length) : 0 < A.getD u 0 := by
  have : A.getD u 0 = A[u] := by simp [List.getD_eq_getElem?_getD, List.getElem?_eq_getElem hu]
  rw [this]; exact hA _ (List.getElem_mem hu)

/-- **one `removeFactor` as written = one `removeVar` of the table-level model** -/
theorem removeVarW_eq (A : List Nat) (hA : ∀ d ∈ A, 0 < d) (v : Nat) (hv : v < A.length) (st : TState) :
    removeVarW A A.length v st = removeVar A A.length v st := by
  unfold removeVarW removeVar
  simp only
  have hd : er 0 (insKey v (nbrs A.length v (st.graph.map (·.keys)))).2 (sel (insKey v (nbrs A.length v (st.graph.map (·.keys)))).1 A)
      = sel (nbrs A.length v (st.graph.map (·.keys))) A := by
    have := er_insKey (fun k => A.getD k 0) v (nbrs A.length v (st.graph.map (·.keys))) 0
    simpa [sel] using this
  have hpos' : ∀ d ∈ sel (insKey v (nbrs A.length v (st.graph.map (·.keys)))).1 A, 0 < d := by
    intro d hd'
    simp only [sel, List.mem_map] at hd'
    obtain ⟨u, hu, rfl⟩ := hd'
    rcases mem_insKey v _ u hu with rfl | h
    · exact getD_pos A hA _ hv
    · exact getD_pos A hA u ((mem_nbrs _ _ _ _).mp h).1
  have hne' : sel (insKey v (nbrs A.length v (st.graph.map (·.keys)))).1 A ≠ [] := by simp [sel, insKey_ne_nil]
  rw [removeLoopW_eq A A.length _ v _ _ _ hd hpos' hne' (spacePartial (nbrs A.length v (st.graph.map (·.keys))) A) 0 0
    (spacePartial (nbrs A.length v (st.graph.map (·.keys))) A + 1) _
    (by simp [spacePartial]) (by omega) (fun i r hi _ => absurd hi (Nat.not_lt_zero i))]

theorem tveLoopW_eq (A : List Nat) (hA : ∀ d ∈ A, 0 < d) : ∀ (fuel : Nat) (active : List Nat) (st : TState),
    (∀ u ∈ active, u < A.length) → tveLoopW A A.length fuel active st = tveLoop A A.length fuel active st
  | 0, _, _, _ => by simp [tveLoopW, tveLoop]
  | fuel+1, [], _, _ => by simp [tveLoopW, tveLoop]
  | fuel+1, a :: as, st, h => by
    simp only [tveLoopW, tveLoop]
    have hm := bestVar_mem A A.length (st.graph.map (·.keys)) (a :: as) (by simp)
    rw [removeVarW_eq A hA _ (h _ hm)]
    exact tveLoopW_eq A hA fuel _ _ (fun u hu => h u (List.mem_filter.mp hu).1)

/-- **the whole run as written = the table-level run**, on any initial graph -/
theorem tveRunWOn_eq (A : List Nat) (hA : ∀ d ∈ A, 0 < d) (g0 : List TNode) :
    tveRunWOn A g0 = tMakeResult A.length (tveLoop A A.length A.length (List.range A.length) ⟨g0, []⟩).finals := by
  unfold tveRunWOn
  simp only
  rw [tveLoopW_eq A hA _ _ _ (fun u hu => List.mem_range.mp hu)]

theorem tveRunW_eq (A : List Nat) (hA : ∀ d ∈ A, 0 < d) (rules : List Rule) : tveRunW A rules = tveRun A rules := by
  unfold tveRunW tveRun
  exact tveRunWOn_eq A hA _

/-- **VariableElimination as written returns what it claims** (enumerator, counter and cursor included): in-range joint
    action whose payoff is the exhaustive maximum, reported exactly -/
theorem tveW_correct (A : List Nat) (rules : List Rule) (hA : ∀ d ∈ A, 0 < d)
    (hwf : ∀ r ∈ rules, r.WF A) (hne : ∀ r ∈ rules, r.keys ≠ []) :
    Valid A (tveRunW A rules).1 ∧ payoffL rules (tveRunW A rules).1 = bruteMax A rules ∧
    (tveRunW A rules).2 = bruteMax A rules := by
  rw [tveRunW_eq A hA]; exact tve_correct A rules hA hwf hne

/-- test on a literal: the hypotheses are satisfiable and the as-written run gives the same pair as `tveRun` -/
example : tveRunW [2,3,2,2] [⟨[0,1],[1,2],-3/2⟩, ⟨[1],[2],2⟩, ⟨[0,1],[1,2],1/4⟩, ⟨[3],[0],-1/2⟩, ⟨[0,1,3],[0,0,1],5/4⟩]
    = ([0,2,0,1], 2) := by decide +kernel

/-- the cursor matters: started behind a rule with a LARGER index it would insert out of order — the invariant is needed -/
example : (cursorIns ⟨1, 0, []⟩ 1 [⟨2, 0, []⟩]).1.map (·.idx) = [2, 1] := by decide

end AITB.VE
