/-
  AITB.Props.C18i — reuse of a parser object, and repeated preamble lines.
  The name tables are the only state that survives `parseModelInfo`'s reset.  `parse_reuse`: whatever the previous
  use left behind, the next parse returns exactly what a fresh parser returns (same sizes, discount, tables, same
  exception class) — because a size can only become non-zero through its declaration line, and that line replaces
  the whole table.  `states_last_wins`: among repeated `states:` lines the last one decides size AND table.
-/
import AITB.Props.C18f
namespace AITB.Cassandra
variable {fl : Flags}

/-- two preamble states that no observable continuation can tell apart -/
def Agree (p q : Pre) : Prop :=
  p.S = q.S ∧ p.A = q.A ∧ p.O = q.O ∧ p.disc = q.disc ∧
  (p.S ≠ 0 → p.smap = q.smap) ∧ (p.A ≠ 0 → p.amap = q.amap) ∧ (p.O ≠ 0 → p.omap = q.omap)

def RelPre : R (Pre × List Str) → R (Pre × List Str) → Prop
  | .error e, .error e' => e = e'
  | .ok (p, l), .ok (q, l') => l = l' ∧ Agree p q
  | _, _ => False

theorem preLine_agree (p q : Pre) (h : Agree p q) (line : Str) :
    (preLine fl p line = none ∧ preLine fl q line = none) ∨
    (∃ e, preLine fl p line = some (.error e) ∧ preLine fl q line = some (.error e)) ∨
    (∃ p' q', preLine fl p line = some (.ok p') ∧ preLine fl q line = some (.ok q') ∧ Agree p' q') := by
  obtain ⟨h1, h2, h3, h4, h5, h6, h7⟩ := h
  unfold preLine
  split
  · right; right; exact ⟨p, q, rfl, rfl, h1, h2, h3, h4, h5, h6, h7⟩
  · split
    · cases he : extractIDs fl line with
      | error e => right; left; exact ⟨e, rfl, rfl⟩
      | ok nm =>
        obtain ⟨n, m⟩ := nm
        right; right
        exact ⟨{ p with S := n, smap := m }, { q with S := n, smap := m }, rfl, rfl, rfl, h2, h3, h4, fun _ => rfl, h6, h7⟩
    · split
      · cases he : extractIDs fl line with
        | error e => right; left; exact ⟨e, rfl, rfl⟩
        | ok nm =>
          obtain ⟨n, m⟩ := nm
          right; right
          exact ⟨{ p with A := n, amap := m }, { q with A := n, amap := m }, rfl, rfl, h1, rfl, h3, h4, h5, fun _ => rfl, h7⟩
      · split
        · cases he : extractIDs fl line with
          | error e => right; left; exact ⟨e, rfl, rfl⟩
          | ok nm =>
            obtain ⟨n, m⟩ := nm
            right; right
            exact ⟨{ p with O := n, omap := m }, { q with O := n, omap := m }, rfl, rfl, h1, h2, rfl, h4, h5, h6, fun _ => rfl⟩
        · split
          · cases ht : at? (tokenize colon line) 1 with
            | error e => right; left; exact ⟨e, rfl, rfl⟩
            | ok t =>
              cases hd : stodS fl t with
              | error e => right; left; exact ⟨e, by simp [bind, Except.bind, hd], by simp [bind, Except.bind, hd]⟩
              | ok d =>
                right; right
                exact ⟨{ p with disc := d }, { q with disc := d }, by simp [bind, Except.bind, hd, pure, Except.pure],
                  by simp [bind, Except.bind, hd, pure, Except.pure], h1, h2, h3, rfl, h5, h6, h7⟩
          · left; exact ⟨rfl, rfl⟩

theorem parseModelInfo_agree (raws : List Str) (p q : Pre) (acc : List Str) (h : Agree p q) :
    RelPre (parseModelInfo fl raws p acc) (parseModelInfo fl raws q acc) := by
  induction raws generalizing p q acc with
  | nil => exact ⟨rfl, h⟩
  | cons raw rest ih =>
    simp only [parseModelInfo]
    split
    · exact ih p q acc h
    · rcases preLine_agree p q h (trim raw) with ⟨hp, hq⟩ | ⟨e, hp, hq⟩ | ⟨p', q', hp, hq, ha⟩
      · rw [hp, hq]; exact ih p q _ h
      · rw [hp, hq]; rfl
      · rw [hp, hq]; simp only [bind, Except.bind]; exact ih p' q' acc ha

theorem step_congr (fl : Flags) (k : Kind) (p q : Pre) (hS : p.S = q.S) (hA : p.A = q.A) (hO : p.O = q.O)
    (hs : p.smap = q.smap) (ha : p.amap = q.amap) (ho : k = .pomdp → p.omap = q.omap)
    (line : Str) (rest : List Str) (st : St) : step fl k p line rest st = step fl k q line rest st := by
  unfold step
  rw [hS, hA, hO, hs, ha]
  cases k with
  | mdp => simp
  | pomdp => rw [ho rfl]

theorem run_congr (fl : Flags) (k : Kind) (p q : Pre) (hS : p.S = q.S) (hA : p.A = q.A) (hO : p.O = q.O)
    (hs : p.smap = q.smap) (ha : p.amap = q.amap) (ho : k = .pomdp → p.omap = q.omap)
    (lines : List Str) (skip : Nat) (st : St) : run fl k p lines skip st = run fl k q lines skip st := by
  induction lines generalizing skip st with
  | nil => rfl
  | cons l rest ih =>
    cases skip with
    | succ n => simp only [run]; exact ih n st
    | zero =>
      simp only [run, step_congr fl k p q hS hA hO hs ha ho]
      cases step fl k q l rest st with
      | error e => rfl
      | ok r => simp only [bind, Except.bind]; exact ih r.2 r.1

/-- what a caller can observe of a parse: sizes, discount, the three tables -/
def view (r : Parsed) : Nat × Nat × Nat × XRat × List Write × List Write × List Write :=
  (r.pre.S, r.pre.A, r.pre.O, r.pre.disc, r.st.wT, r.st.wR, r.st.wW)

/-- **Reuse of a parser object is harmless**: whatever name tables the previous use left (`prev`), parsing a text
    returns exactly what a fresh parser returns — the same sizes, discount and tables, or the same exception class. -/
theorem parse_reuse (fl : Flags) (k : Kind) (prev : Pre) (text : Str) :
    (parseWith fl k prev text).map view = (parse fl k text).map view := by
  have hag : Agree (resetPre prev) {} := ⟨rfl, rfl, rfl, rfl, fun h => absurd rfl h, fun h => absurd rfl h, fun h => absurd rfl h⟩
  have hrel := parseModelInfo_agree (fl := fl) (splitLines text) (resetPre prev) {} [] hag
  unfold parseWith parse
  cases h1 : parseModelInfo fl (splitLines text) (resetPre prev) [] with
  | error e =>
    cases h2 : parseModelInfo fl (splitLines text) {} [] with
    | error e' => rw [h1, h2] at hrel; simp only [RelPre] at hrel; subst hrel; rfl
    | ok x => rw [h1, h2] at hrel; obtain ⟨_, _⟩ := x; exact absurd hrel (by simp [RelPre])
  | ok x =>
    obtain ⟨p, l⟩ := x
    cases h2 : parseModelInfo fl (splitLines text) {} [] with
    | error e' => rw [h1, h2] at hrel; exact absurd hrel (by simp [RelPre])
    | ok y =>
      obtain ⟨q, l'⟩ := y
      rw [h1, h2] at hrel
      obtain ⟨hl, hS, hA, hO, hd, hs, ha, ho⟩ := hrel
      subst hl
      simp only [bind, Except.bind, hS, hA, hO]
      by_cases hsz : (q.S == 0 || q.A == 0 || (k == .pomdp && q.O == 0)) = true
      · simp only [hsz, if_true]
      · have hsz' : (q.S == 0 || q.A == 0 || (k == .pomdp && q.O == 0)) = false := by simpa using hsz
        simp only [hsz', Bool.false_eq_true, if_false]
        by_cases hfit : (fl.sizeGuard && !(extentFits q.S q.A q.S && (k == .mdp || extentFits q.S q.A q.O))) = true
        · simp only [hfit, if_true]
        · have hfit' : (fl.sizeGuard && !(extentFits q.S q.A q.S && (k == .mdp || extentFits q.S q.A q.O))) = false := by simpa using hfit
          simp only [hfit', Bool.false_eq_true, if_false]
          simp only [Bool.or_eq_false_iff, beq_eq_false_iff_ne, Bool.and_eq_false_imp, beq_iff_eq] at hsz'
          have hs' := hs (by rw [hS]; exact hsz'.1.1)
          have ha' := ha (by rw [hA]; exact hsz'.1.2)
          have ho' : k = .pomdp → p.omap = q.omap := fun hk => ho (by rw [hO]; exact hsz'.2 hk)
          rw [run_congr fl k p q hS hA hO hs' ha' ho' l 0 {}]
          cases run fl k q l 0 {} with
          | error e => rfl
          | ok st => simp [Except.map, view, pure, Except.pure, hS, hA, hO, hd]

/-! ### repeated declarations: the last line replaces size and table -/

/-- lines that do not start with `states` leave the state size and the state-name table alone -/
theorem parseModelInfo_no_states_map (raws : List Str) (p p' : Pre) (acc lines : List Str)
    (h : parseModelInfo fl raws p acc = .ok (p', lines))
    (hno : ∀ raw ∈ raws, startsWith (trim raw) kwStates = false) : p'.S = p.S ∧ p'.smap = p.smap := by
  induction raws generalizing p acc with
  | nil => simp only [parseModelInfo, pure_ok] at h; injection h with h1 _; rw [h1]; exact ⟨rfl, rfl⟩
  | cons raw rest ih =>
    have hno' : ∀ raw ∈ rest, startsWith (trim raw) kwStates = false := fun x hx => hno x (List.mem_cons_of_mem _ hx)
    have hs := hno raw List.mem_cons_self
    simp only [parseModelInfo] at h
    split at h
    · exact ih p acc h hno'
    · split at h
      · rename_i r hr
        obtain ⟨p1, hp1, h⟩ := bind_ok.1 h
        obtain ⟨e1, e2⟩ := ih p1 acc h hno'
        rw [e1, e2]
        unfold preLine at hr
        simp only [hs, Bool.false_eq_true, if_false] at hr
        split at hr
        · injection hr with hr; subst hr; rw [pure_ok.1 hp1]; exact ⟨rfl, rfl⟩
        · split at hr
          · injection hr with hr; subst hr
            obtain ⟨⟨n, m⟩, _, hq⟩ := bind_ok.1 hp1
            rw [← pure_ok.1 hq]; exact ⟨rfl, rfl⟩
          · split at hr
            · injection hr with hr; subst hr
              obtain ⟨⟨n, m⟩, _, hq⟩ := bind_ok.1 hp1
              rw [← pure_ok.1 hq]; exact ⟨rfl, rfl⟩
            · split at hr
              · injection hr with hr; subst hr
                obtain ⟨t, _, hq⟩ := bind_ok.1 hp1
                obtain ⟨d, _, hq⟩ := bind_ok.1 hq
                rw [← pure_ok.1 hq]; exact ⟨rfl, rfl⟩
              · cases hr
      · exact ih p (trim raw :: acc) h hno'

/-- a line that starts with `states` (and not with `values`) is handled by the states action -/
theorem preLine_states_line (p : Pre) (l : Str) (h : startsWith l kwStates = true) :
    preLine fl p l = some (do let (n, m) ← extractIDs fl l; pure { p with S := n, smap := m }) := by
  have hv : kwValues = 'v' :: "alues".toList := by decide
  have hs : kwStates = 's' :: "tates".toList := by decide
  cases l with
  | nil => rw [hs] at h; simp [startsWith] at h
  | cons c r =>
    have hc : c = 's' := by
      rw [hs] at h; simp only [startsWith, Bool.and_eq_true, beq_iff_eq] at h; exact h.1
    subst hc
    have e1 : startsWith ('s' :: r) kwValues = false := by rw [hv]; simp [startsWith]
    unfold preLine
    simp only [e1, h, Bool.false_eq_true, if_false, if_true]

/-- **later preamble lines override earlier ones (states)**: if `raw` is the last line starting with `states`, the
    accepted preamble carries exactly its size and its name table — the names of any earlier declaration are gone -/
theorem states_last_wins (r1 r2 : List Str) (raw : Str) (p0 p' : Pre) (lines : List Str)
    (h : parseModelInfo fl (r1 ++ raw :: r2) p0 [] = .ok (p', lines))
    (hne : (trim raw).isEmpty = false) (hd : startsWith (trim raw) kwStates = true)
    (hno : ∀ x ∈ r2, startsWith (trim x) kwStates = false) :
    extractIDs fl (trim raw) = .ok (p'.S, p'.smap) := by
  rw [parseModelInfo_append] at h
  obtain ⟨⟨q, l1⟩, _, h2⟩ := bind_ok.1 h
  simp only [parseModelInfo, hne, Bool.false_eq_true, if_false, preLine_states_line q (trim raw) hd] at h2
  obtain ⟨q1, hq1, h3⟩ := bind_ok.1 h2
  obtain ⟨⟨n, m⟩, he, h4⟩ := bind_ok.1 hq1
  have hq : q1 = { q with S := n, smap := m } := (pure_ok.1 h4).symm
  obtain ⟨e1, e2⟩ := parseModelInfo_no_states_map r2 q1 p' _ lines h3 hno
  rw [e1, e2, hq]; exact he

/-! ### the same for `actions:` and `observations:` — one lemma about what a preamble action can touch -/

/-- what one successful preamble action leaves alone: a field changes only on a line starting with its keyword -/
theorem preLine_keeps (p p' : Pre) (l : Str) (h : preLine fl p l = some (.ok p')) :
    (startsWith l kwStates = false → p'.S = p.S ∧ p'.smap = p.smap) ∧
    (startsWith l kwActions = false → p'.A = p.A ∧ p'.amap = p.amap) ∧
    (startsWith l kwObservations = false → p'.O = p.O ∧ p'.omap = p.omap) ∧
    (startsWith l kwDiscount = false → p'.disc = p.disc) := by
  unfold preLine at h
  split at h
  · injection h with h; have := pure_ok.1 h; subst this
    exact ⟨fun _ => ⟨rfl, rfl⟩, fun _ => ⟨rfl, rfl⟩, fun _ => ⟨rfl, rfl⟩, fun _ => rfl⟩
  · split at h
    · rename_i hs
      injection h with h
      obtain ⟨⟨n, m⟩, _, hq⟩ := bind_ok.1 h
      have := pure_ok.1 hq; subst this
      exact ⟨(fun hc => (by rw [hs] at hc; cases hc)), fun _ => ⟨rfl, rfl⟩, fun _ => ⟨rfl, rfl⟩, fun _ => rfl⟩
    · split at h
      · rename_i ha
        injection h with h
        obtain ⟨⟨n, m⟩, _, hq⟩ := bind_ok.1 h
        have := pure_ok.1 hq; subst this
        exact ⟨fun _ => ⟨rfl, rfl⟩, (fun hc => (by rw [ha] at hc; cases hc)), fun _ => ⟨rfl, rfl⟩, fun _ => rfl⟩
      · split at h
        · rename_i ho
          injection h with h
          obtain ⟨⟨n, m⟩, _, hq⟩ := bind_ok.1 h
          have := pure_ok.1 hq; subst this
          exact ⟨fun _ => ⟨rfl, rfl⟩, fun _ => ⟨rfl, rfl⟩, (fun hc => (by rw [ho] at hc; cases hc)), fun _ => rfl⟩
        · split at h
          · rename_i hd
            injection h with h
            obtain ⟨t, _, hq⟩ := bind_ok.1 h
            obtain ⟨d, _, hq⟩ := bind_ok.1 hq
            have := pure_ok.1 hq; subst this
            exact ⟨fun _ => ⟨rfl, rfl⟩, fun _ => ⟨rfl, rfl⟩, fun _ => ⟨rfl, rfl⟩, (fun hc => (by rw [hd] at hc; cases hc))⟩
          · cases h

/-- over a run of lines none of which starts with the keyword `kw`, whatever `sel` reads from the preamble state is
    unchanged, provided single actions on non-`kw` lines leave it alone -/
theorem parseModelInfo_keeps {α} (sel : Pre → α) (kw : Str)
    (hk : ∀ p p' l, preLine fl p l = some (.ok p') → startsWith l kw = false → sel p' = sel p)
    (raws : List Str) (p p' : Pre) (acc lines : List Str)
    (h : parseModelInfo fl raws p acc = .ok (p', lines))
    (hno : ∀ raw ∈ raws, startsWith (trim raw) kw = false) : sel p' = sel p := by
  induction raws generalizing p acc with
  | nil => simp only [parseModelInfo, pure_ok] at h; injection h with h1 _; rw [h1]
  | cons raw rest ih =>
    have hno' : ∀ raw ∈ rest, startsWith (trim raw) kw = false := fun x hx => hno x (List.mem_cons_of_mem _ hx)
    simp only [parseModelInfo] at h
    split at h
    · exact ih p acc h hno'
    · split at h
      · rename_i r hr
        obtain ⟨p1, hp1, h⟩ := bind_ok.1 h
        subst hp1
        rw [ih p1 acc h hno', hk p p1 (trim raw) hr (hno raw List.mem_cons_self)]
      · exact ih p _ h hno'

theorem preLine_actions_line (p : Pre) (l : Str) (h : startsWith l kwActions = true) :
    preLine fl p l = some (do let (n, m) ← extractIDs fl l; pure { p with A := n, amap := m }) := by
  have hv : kwValues = 'v' :: "alues".toList := by decide
  have hs : kwStates = 's' :: "tates".toList := by decide
  have ha : kwActions = 'a' :: "ctions".toList := by decide
  cases l with
  | nil => rw [ha] at h; simp [startsWith] at h
  | cons c r =>
    have hc : c = 'a' := by
      rw [ha] at h; simp only [startsWith, Bool.and_eq_true, beq_iff_eq] at h; exact h.1
    subst hc
    have e1 : startsWith ('a' :: r) kwValues = false := by rw [hv]; simp [startsWith]
    have e2 : startsWith ('a' :: r) kwStates = false := by rw [hs]; simp [startsWith]
    unfold preLine
    simp only [e1, e2, h, Bool.false_eq_true, if_false, if_true]

theorem preLine_observations_line (p : Pre) (l : Str) (h : startsWith l kwObservations = true) :
    preLine fl p l = some (do let (n, m) ← extractIDs fl l; pure { p with O := n, omap := m }) := by
  have hv : kwValues = 'v' :: "alues".toList := by decide
  have hs : kwStates = 's' :: "tates".toList := by decide
  have ha : kwActions = 'a' :: "ctions".toList := by decide
  have ho : kwObservations = 'o' :: "bservations".toList := by decide
  cases l with
  | nil => rw [ho] at h; simp [startsWith] at h
  | cons c r =>
    have hc : c = 'o' := by
      rw [ho] at h; simp only [startsWith, Bool.and_eq_true, beq_iff_eq] at h; exact h.1
    subst hc
    have e1 : startsWith ('o' :: r) kwValues = false := by rw [hv]; simp [startsWith]
    have e2 : startsWith ('o' :: r) kwStates = false := by rw [hs]; simp [startsWith]
    have e3 : startsWith ('o' :: r) kwActions = false := by rw [ha]; simp [startsWith]
    unfold preLine
    simp only [e1, e2, e3, h, Bool.false_eq_true, if_false, if_true]

/-- **later preamble lines override earlier ones (actions)** -/
theorem actions_last_wins (r1 r2 : List Str) (raw : Str) (p0 p' : Pre) (lines : List Str)
    (h : parseModelInfo fl (r1 ++ raw :: r2) p0 [] = .ok (p', lines))
    (hne : (trim raw).isEmpty = false) (hd : startsWith (trim raw) kwActions = true)
    (hno : ∀ x ∈ r2, startsWith (trim x) kwActions = false) :
    extractIDs fl (trim raw) = .ok (p'.A, p'.amap) := by
  rw [parseModelInfo_append] at h
  obtain ⟨⟨q, l1⟩, _, h2⟩ := bind_ok.1 h
  simp only [parseModelInfo, hne, Bool.false_eq_true, if_false, preLine_actions_line q (trim raw) hd] at h2
  obtain ⟨q1, hq1, h3⟩ := bind_ok.1 h2
  obtain ⟨⟨n, m⟩, he, h4⟩ := bind_ok.1 hq1
  have hq : q1 = { q with A := n, amap := m } := (pure_ok.1 h4).symm
  have := parseModelInfo_keeps (fl := fl) (fun p => (p.A, p.amap)) kwActions
    (fun p p' l hp hl => by have := ((preLine_keeps p p' l hp).2.1 hl); simp [this.1, this.2]) r2 q1 p' _ lines h3 hno
  simp only [Prod.mk.injEq] at this
  rw [this.1, this.2, hq]; exact he

/-- **later preamble lines override earlier ones (observations)** -/
theorem observations_last_wins (r1 r2 : List Str) (raw : Str) (p0 p' : Pre) (lines : List Str)
    (h : parseModelInfo fl (r1 ++ raw :: r2) p0 [] = .ok (p', lines))
    (hne : (trim raw).isEmpty = false) (hd : startsWith (trim raw) kwObservations = true)
    (hno : ∀ x ∈ r2, startsWith (trim x) kwObservations = false) :
    extractIDs fl (trim raw) = .ok (p'.O, p'.omap) := by
  rw [parseModelInfo_append] at h
  obtain ⟨⟨q, l1⟩, _, h2⟩ := bind_ok.1 h
  simp only [parseModelInfo, hne, Bool.false_eq_true, if_false, preLine_observations_line q (trim raw) hd] at h2
  obtain ⟨q1, hq1, h3⟩ := bind_ok.1 h2
  obtain ⟨⟨n, m⟩, he, h4⟩ := bind_ok.1 hq1
  have hq : q1 = { q with O := n, omap := m } := (pure_ok.1 h4).symm
  have := parseModelInfo_keeps (fl := fl) (fun p => (p.O, p.omap)) kwObservations
    (fun p p' l hp hl => by have := ((preLine_keeps p p' l hp).2.2.1 hl); simp [this.1, this.2]) r2 q1 p' _ lines h3 hno
  simp only [Prod.mk.injEq] at this
  rw [this.1, this.2, hq]; exact he

end AITB.Cassandra
