/-
  AITB.Props.C04h — point-based construction (Witness, LinearSupport, PBVI, PERSEUS): whatever beliefs / witness
  points / corners the solver's control flow visits, whatever action it picks there and whatever subset of the
  produced entries it keeps, a value function whose every entry was produced by `crossSumBestAtBelief` on the
  Projecter's output for the previous level is `Consistent` — for every terminal list (PERSEUS starts from a
  non-zero one), every POMDP with O ≥ 1, every horizon.
-/
import AITB.Props.C04c

namespace AITB.Plan

theorem consistent_snoc {m : Pomdp} {vf : VF} {w : VList} (hc : Consistent m vf) (hne : vf ≠ [])
    (hw : ∀ e ∈ w, EntryOK oneStep m (vlist vf (vf.length - 1)) e) : Consistent m (vf ++ [w]) := by
  have hpos : 0 < vf.length := List.length_pos_iff.mpr hne
  intro k hk id hid
  rw [List.length_append, List.length_singleton] at hk
  have hvl : ∀ j, j < vf.length → vlist (vf ++ [w]) j = vlist vf j := by
    intro j hj
    simp only [vlist, List.getD_eq_getElem?_getD]
    rw [List.getElem?_append_left hj]
  rcases Nat.lt_or_ge (k + 1) vf.length with hlt | hge
  · unfold entry
    rw [hvl (k+1) hlt] at hid ⊢
    rw [hvl k (by omega)]
    exact hc k hlt id hid
  · have hk' : k + 1 = vf.length := by omega
    have hlast : vlist (vf ++ [w]) (k + 1) = w := by
      simp only [vlist, List.getD_eq_getElem?_getD]
      rw [List.getElem?_append_right (by omega)]
      simp [hk']
    unfold entry
    rw [hlast] at hid ⊢
    rw [hvl k (by omega)]
    have hmem : entryAt w id ∈ w := by
      unfold entryAt; rw [getD_eq_getElem' _ _ hid]; exact List.getElem_mem hid
    have := hw _ hmem
    have e : vf.length - 1 = k := by omega
    rw [e] at this
    exact this

/-- value functions grown level by level from point-based backups -/
inductive PointBasedVF (m : Pomdp) : VF → Prop
  | base (v0 : VList) : v0 ≠ [] → PointBasedVF m [v0]
  | step (vf : VF) (w : VList) : PointBasedVF m vf → w ≠ [] →
      (∀ e ∈ w, ∃ (b : Nat → Rat) (a : Nat), a < m.A ∧
        e = crossSumBestAtBeliefRow m.S b ((List.range m.O).map (fun o => project m (vlist vf (vf.length - 1)) a o)) a) →
      PointBasedVF m (vf ++ [w])

theorem pointBased_ne_nil {m : Pomdp} {vf : VF} (h : PointBasedVF m vf) :
    vf ≠ [] ∧ vlist vf (vf.length - 1) ≠ [] := by
  induction h with
  | base v0 h0 => exact ⟨by simp, by simpa [vlist] using h0⟩
  | step vf w _ hw _ _ =>
    refine ⟨by simp, ?_⟩
    simp only [vlist, List.length_append, List.length_singleton, Nat.add_sub_cancel, List.getD_eq_getElem?_getD]
    rw [List.getElem?_append_right (by omega)]
    simpa using hw

/-- **pointBased_consistent.**  Witness / LinearSupport / PBVI / PERSEUS all build every entry with
    `crossSumBestAtBelief` over the (unpruned) projections of the previous level; any such value function is
    `Consistent`, independent of the belief set, the witness LP, the agenda or the pruning that follows. -/
theorem pointBased_consistent {m : Pomdp} (hO : 0 < m.O) {vf : VF} (h : PointBasedVF m vf) : Consistent m vf := by
  induction h with
  | base v0 _ => intro k hk; simp at hk
  | step vf w hvf _ hw ih =>
    obtain ⟨hne, hprev⟩ := pointBased_ne_nil hvf
    apply consistent_snoc ih hne
    intro e he
    obtain ⟨b, a, ha, rfl⟩ := hw e he
    exact crossSumBestAtBelief_ok b hprev ha hO (fun o => project m (vlist vf (vf.length - 1)) a o)
      (fun o _ => ⟨project_ne_nil' m a o hprev, fun p hp => hp⟩)

end AITB.Plan
