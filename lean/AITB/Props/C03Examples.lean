/-
  AITB.Props.C03Examples — the hypotheses of the main C03 theorems are satisfiable by a concrete non-trivial POMDP (`mW`: two states,
  two observations, reward −1, discount 1/2), and small kernel-evaluated tests of the executable model.  (`decide +kernel` on literals = test.)
-/
import AITB.Props.C03Anytime
import AITB.Props.C03Cons
import AITB.Props.C03Horizon

namespace AITB.POMDP3
open AITB.MDP

/-- `Valid` is inhabited -/
example : Valid mW := mW_valid

theorem mW_cU : ∀ s, s < mW.S → ∀ a, a < mW.A → mW.R s a ≤ (1 - mW.γ) * (-2) := by
  intro s _ a _; simp [mW]; norm_num

theorem mW_cL : ∀ a, a < mW.A → ∀ s, s < mW.S → (1 - mW.γ) * ((fun _ => (-2 : Rat)) a) ≤ mW.R s a := by
  intro a _ s _; simp [mW]; norm_num

/-- the reference classes are inhabited: `SuperSol` by `upperRef`, `Sublin ∧ SubSol` by `lowerRef` -/
example : SuperSol mW (upperRef mW (-2) 3 2) := upperRef_superSol mW mW_valid (-2) mW_cU 3 2
example : Sublin mW.S (lowerRef mW (fun _ => -2) 3 2) ∧ SubSol mW (lowerRef mW (fun _ => -2) 3 2) :=
  ⟨lowerRef_sublin mW mW_valid _ 3 2, lowerRef_subSol mW mW_valid _ mW_cL 3 2⟩

/-- hypotheses of `blind_fast_lower` / `fib_upper` / `initial_sound` hold for `mW` (discount 1/2: the clamp is inactive) -/
theorem mW_clamp : Gen.C03Src.clamp ≤ 1 - mW.γ := by unfold Gen.C03Src.clamp mW; norm_num

example : ∀ x, NN x → dotS mW.S x (blindAction mW true 7 (1/1000) 0).x.get ≤ upperRef mW (-2) 3 2 x :=
  blind_fast_lower mW mW_valid (by decide) 0 (by decide) 7 (1/1000) (Or.inl mW_clamp) (-2) mW_cU 3 2

example : ∀ x, NN x → lowerRef mW (fun _ => -2) 3 2 x ≤ basicVal mW.S mW.A (fib mW 7 (1/1000)).x.get x :=
  fib_upper mW mW_valid 7 (1/1000) (Or.inl mW_clamp) (fun _ => -2) mW_cL (by
    intro a _
    have : fibStartNum mW / clampDen mW.γ = -2 := by decide +kernel
    rw [this]) 3 2

/-- the initial state of SARSOP / GapMin on `mW` is `Sound`, so `anytime_sound` applies to every event history from it -/
example (b0 : Nat → Rat) (hb0 : NN b0) :=
  initial_sound mW mW_valid (by decide) 50 50 (1/100000) (1/100000) (fun _ _ => Or.inl mW_clamp) (Or.inl mW_clamp) (-2) mW_cU (fun _ => -2) mW_cL
    (by intro a _; have : fibStartNum mW / clampDen mW.γ = -2 := by decide +kernel
        rw [this]) 3 2 3 2 b0 hb0

/-- test: on `mW` (where `V* = −2` exactly) both references evaluate to −2 at the corners and the centre; blind and FIB return −2 -/
example : upperRefV mW (-2) 3 2 #[1, 0] = -2 ∧ lowerRefV mW (fun _ => -2) 3 2 #[0, 1] = -2 ∧ upperRefV mW (-2) 0 4 #[1/2, 1/2] = -2 ∧
    (blindAction mW true 5 0 0).x = #[-2, -2] ∧ (fib mW 5 0).x = #[#[-2], #[-2]] := by decide +kernel

/-- test: from a worse start the references bracket −2 and tighten with `k` -/
example : upperRefV mW 0 0 1 #[1/2, 1/2] = -1 ∧ upperRefV mW 0 0 3 #[1/2, 1/2] = -7/4 ∧
    lowerRefV mW (fun _ => -4) 0 1 #[1/2, 1/2] = -3 ∧ lowerRefV mW (fun _ => -4) 0 3 #[1/2, 1/2] = -9/4 := by decide +kernel

end AITB.POMDP3
