/-
  C09 part k (round 3) — the driver's per-line deciders are sound and complete for the hypotheses of the greedy theorems
  (so "this line is inside `greedy_classes`" is decided by Lean, not assumed), plus two small row facts used by the table policies.
-/
import AITB.Props.C09h

namespace AITB.Pol

/-- **clsB_iff** — the Boolean test the driver evaluates on every greedy / softmax(T≈0) / shift line decides `Cls` -/
theorem clsB_iff (q : Nat → Rat) (n : Nat) : clsB q n = true ↔ Cls q n := by
  unfold clsB Cls
  simp only [List.all_eq_true, List.mem_range, Bool.or_eq_true, Bool.not_eq_true', Bool.and_eq_false_imp]
  constructor
  · intro h i j k hi hj hk h1 h2
    rcases h i hi j hj k hk with h' | h'
    · exact absurd h2 (by rw [h' h1]; exact Bool.noConfusion)
    · exact h'
  · intro h i hi j hj k hk
    by_cases h1 : ceG (q i) (q j) = true
    · by_cases h2 : ceG (q j) (q k) = true
      · exact Or.inr (h i j k hi hj hk h1 h2)
      · exact Or.inl (fun _ => by simpa using h2)
    · exact Or.inl (fun h' => absurd h' h1)

/-- **sameRelB_iff** — the decider of "the shift preserves the tie relation" (hypothesis of `greedy_classes_shift`) -/
theorem sameRelB_iff (q : Nat → Rat) (c : Rat) (n : Nat) :
    sameRelB q c n = true ↔ ∀ i j, i < n → j < n → ceG (q i + c) (q j + c) = ceG (q i) (q j) := by
  unfold sameRelB
  simp only [List.all_eq_true, List.mem_range, beq_iff_eq]
  constructor
  · intro h i j hi hj; exact (h i hi j hj).symm
  · intro h i hi j hj; exact (h i j hi hj).symm

/-- a line accepted by both deciders is inside `greedy_classes_shift`: same tie list, same queries, same table, same samples -/
theorem shift_line_sound (q : Nat → Rat) (n : Nat) (hn : 0 < n) (c : Rat)
    (h1 : clsB q n = true) (h2 : clsB (fun i => q i + c) n = true) (h3 : sameRelB q c n = true) :
    (∀ a, a < n → gPolicy (fun i => q i + c) n a = gPolicy q n a) ∧ (∀ ws, gSample (fun i => q i + c) n ws = gSample q n ws) := by
  obtain ⟨_, _, hp, hs⟩ := greedy_classes_shift q n hn c ((clsB_iff q n).mp h1) ((clsB_iff _ n).mp h2) ((sameRelB_iff q c n).mp h3)
  exact ⟨hp, hs⟩

/-- `Policy(S, A)` / RandomPolicy rows -/
theorem uniform_valid (n : Nat) (hn : 0 < n) : RowValid n (fun _ => 1 / (n : Rat)) := by
  have hq : (0 : Rat) < (n : Rat) := by exact_mod_cast hn
  refine ⟨fun _ _ => by positivity, ?_⟩
  rw [sumTo_const]; field_simp

/-- `Policy(S, A, ValueFunction)` rows: all mass on the value function's action -/
theorem onehot_valid (n act : Nat) (hact : act < n) : RowValid n (fun i => if i = act then 1 else 0) := by
  refine ⟨fun i _ => by dsimp only; split <;> norm_num, ?_⟩
  exact sumTo_ite_eq act hact 1

end AITB.Pol
