/-
  C09 part c — softmax (given the exponentials), epsilon mixture, linear reward-penalty automaton.
-/
import AITB.Props.C09a

namespace AITB.Pol

/-! ### QSoftmaxPolicyWrapper -/

/-- **softmax_distribution**: for every vector of positive exponentials (any number of which may have overflowed to +inf,
    flagged by `inf`), `getActionProbability` is a probability distribution over the `n ≥ 1` actions. -/
theorem softmax_distribution (e : Nat → Rat) (inf : Nat → Bool) (n : Nat) (hn : 0 < n) (hpos : ∀ i, i < n → 0 < e i) :
    RowValid n (smProb e inf n) := by
  by_cases hc : countTo inf n = 0
  · have hs : 0 < sumTo n e := sumTo_pos (fun i hi => le_of_lt (hpos i hi)) hn (hpos 0 hn)
    have he : ∀ a, smProb e inf n a = e a / sumTo n e := fun a => by simp [smProb, hc]
    constructor
    · intro i hi; rw [he]; exact div_nonneg (le_of_lt (hpos i hi)) (le_of_lt hs)
    · rw [sumTo_congr (fun i _ => he i), sumTo_div]; exact div_self (ne_of_gt hs)
  · have hcq : (0 : Rat) < (countTo inf n : Rat) := by exact_mod_cast Nat.pos_of_ne_zero hc
    have he : ∀ a, smProb e inf n a = if inf a then 1 / (countTo inf n : Rat) else 0 := fun a => by simp [smProb, hc]
    constructor
    · intro i _; rw [he]; split
      · positivity
      · exact le_refl _
    · rw [sumTo_congr (fun i _ => he i), sumTo_indicator]; field_simp

/-- Full statement (does NOT hold for the code as written — `Gen.C09.smPolicySmallSumUniform = true`):
      `∀ e inf n a, smPolicy flag e inf n a = smProb e inf n a`   ("the full policy table agrees with per-action queries").
    **softmax_table_eq_query_partial**: it holds when `getPolicy` has no small-sum branch (repaired code), when some
    exponential overflowed, or when the exp-sum is not within `equalToleranceSmall` of zero. -/
theorem softmax_table_eq_query_partial (flag : Bool) (e : Nat → Rat) (inf : Nat → Bool) (n a : Nat)
    (h : flag = false ∨ countTo inf n ≠ 0 ∨ ceS (sumTo n e) 0 = false) :
    smPolicy flag e inf n a = smProb e inf n a := by
  unfold smPolicy smProb
  rcases h with h | h | h
  · simp [h]
  · simp [h]
  · simp [h]

/-- **softmax_small_sum_counterexample** (finding C09-softmax-small-sum, harness case 0): two actions whose exponentials
    are 2^-21 and 2^-22 (sum 7.2e-7 ≤ 1e-6): the table says 1/2, the per-action query 2/3. -/
theorem softmax_small_sum_counterexample :
    let e : Nat → Rat := fun i => if i = 0 then 1 / 2097152 else 1 / 4194304
    smPolicy true e (fun _ => false) 2 0 = 1 / 2 ∧ smProb e (fun _ => false) 2 0 = 2 / 3 := by
  norm_num [smPolicy, smProb, countTo, sumTo, ceS, absQ, tolS, AITB.Gen.equalToleranceSmall]

/-- **softmax_shift_invariant**: for ANY function `expf` with the two algebraic facts of `exp` that the code relies on
    (multiplicative over sums, never zero), adding `c` to every action value leaves every softmax probability unchanged
    (no overflow: `inf = false`; temperature `T` arbitrary). -/
theorem softmax_shift_invariant (expf : Rat → Rat) (hmul : ∀ x y, expf (x + y) = expf x * expf y) (hne : ∀ x, expf x ≠ 0)
    (q : Nat → Rat) (T c : Rat) (n a : Nat) :
    smProb (fun i => expf ((q i + c) / T)) (fun _ => false) n a = smProb (fun i => expf (q i / T)) (fun _ => false) n a := by
  have hc : countTo (fun _ => false) n = 0 := by
    induction n with
    | zero => rfl
    | succ n ih => simp [countTo, ih]
  have he : ∀ i, expf ((q i + c) / T) = expf (q i / T) * expf (c / T) := by
    intro i; rw [add_div, hmul]
  simp only [smProb, hc, ne_eq, not_true_eq_false, if_false]
  rw [sumTo_congr (fun i _ => he i), sumTo_mul_right, he a]
  exact mul_div_mul_right _ _ (hne _)

example : ∃ expf : Rat → Rat, (∀ x y, expf (x + y) = expf x * expf y) ∧ (∀ x, expf x ≠ 0) :=
  ⟨fun _ => 1, fun _ _ => by norm_num, fun _ => by norm_num⟩

/-! ### EpsilonPolicyInterface -/

/-- **epsilon_mixture**: for `ε ∈ [0,1]` (the range `setEpsilon` accepts) and a wrapped policy whose row is a distribution,
    the mixture is a distribution and `getPolicy` (computed as `p·(1-ε) + ε/A`) equals the per-action query
    `(1-ε)·p + ε·(1/A)`. -/
theorem epsilon_mixture (eps : Rat) (p : Nat → Rat) (n : Nat) (hn : 0 < n) (h0 : 0 ≤ eps) (h1 : eps ≤ 1)
    (hp : RowValid n p) :
    RowValid n (epsProb eps p n) ∧ ∀ a, epsPolicy eps p n a = epsProb eps p n a := by
  have hnq : (0 : Rat) < (n : Rat) := by exact_mod_cast hn
  refine ⟨⟨fun i hi => ?_, ?_⟩, fun a => ?_⟩
  · unfold epsProb
    have := hp.1 i hi
    have h2 : 0 ≤ 1 - eps := by linarith
    have h3 : 0 ≤ eps * (1 / (n : Rat)) := by positivity
    nlinarith [mul_nonneg h2 this]
  · unfold epsProb
    rw [sumTo_add, sumTo_mul_left, sumTo_const, hp.2]; field_simp; ring
  · unfold epsPolicy epsProb; field_simp

/-- sampling from the mixture: with `u ∈ [0,1)` the uniform draw, `rnd < n` the uniform random action and `w` an action
    of positive probability under the wrapped policy, the returned action has positive probability under the mixture —
    provided `0 < u ∨ 0 < ε`.  (The excluded corner `u = 0 = ε` is real: the code tests `u <= ε`, so with ε = 0 a draw of
    exactly 0 — probability 2^-53 — plays a uniformly random action.) -/
theorem epsilon_sample_positive (eps u : Rat) (p : Nat → Rat) (n rnd w : Nat) (hn : 0 < n) (h0 : 0 ≤ eps) (h1 : eps ≤ 1)
    (hu1 : u < 1) (hcorner : 0 < u ∨ 0 < eps) (hp : ∀ i, 0 ≤ p i) (hw : 0 < p w) :
    0 < epsProb eps p n (epsSample eps u rnd w) := by
  have hnq : (0 : Rat) < (n : Rat) := by exact_mod_cast hn
  unfold epsSample epsProb
  split
  · rename_i hle
    have hpos : 0 < eps := by rcases hcorner with h | h <;> linarith
    have : 0 < eps * (1 / (n : Rat)) := by positivity
    have h2 : 0 ≤ (1 - eps) * p rnd := mul_nonneg (by linarith) (hp rnd)
    linarith
  · rename_i hgt
    have h2 : 0 < (1 - eps) * p w := mul_pos (by linarith [not_le.mp hgt]) hw
    have : 0 ≤ eps * (1 / (n : Rat)) := by positivity
    linarith

/-! ### LRPPolicy -/

theorem lrpInit_valid (n : Nat) (hn : 0 < n) : RowValid n (lrpInit n) := by
  have hnq : (0 : Rat) < (n : Rat) := by exact_mod_cast hn
  constructor
  · intro i _; unfold lrpInit; positivity
  · unfold lrpInit; rw [sumTo_const]; field_simp

theorem RowValid.le_one {n : Nat} {p : Nat → Rat} (hp : RowValid n p) {i : Nat} (hi : i < n) : p i ≤ 1 := by
  rw [← hp.2]; exact single_le_sumTo hp.1 hi

/-- one `stepUpdateP(act, result)` keeps the row a distribution, for `a, b ∈ [0,1]` (the documented range; the setters
    have no guard) and at least two actions (with one action the penalty step divides by `A-1 = 0`; it is harmless only
    when `b = 0`). -/
theorem lrp_step_valid (n : Nat) (a b : Rat) (act : Nat) (result : Bool) (p : Nat → Rat)
    (hn : 2 ≤ n ∨ result = true ∨ b = 0) (ha0 : 0 ≤ a) (ha1 : a ≤ 1) (hb0 : 0 ≤ b) (hb1 : b ≤ 1)
    (hact : act < n) (hp : RowValid n p) : RowValid n (lrpStep n a b act result p) := by
  have hle := fun i (hi : i < n) => hp.le_one hi
  cases result with
  | true =>
    have hf : lrpStep n a b act true p = fun i => if i = act then p i + a * (1 - p i) else p i - a * p i := by
      funext i; simp [lrpStep]
    rw [hf]
    constructor
    · intro i hi
      have h0 := hp.1 i hi; have h1 := hle i hi
      dsimp only; split
      · nlinarith [mul_nonneg ha0 (by linarith : (0 : Rat) ≤ 1 - p i)]
      · nlinarith [mul_nonneg (by linarith : (0 : Rat) ≤ 1 - a) h0]
    · rw [sumTo_update act hact (fun i => p i + a * (1 - p i)) (fun i => p i - a * p i), sumTo_sub, sumTo_mul_left, hp.2]
      ring
  | false =>
    have hf : lrpStep n a b act false p = fun i => if i = act then p i * (1 - b) else b / ((n : Rat) - 1) + (1 - b) * p i := by
      funext i; simp [lrpStep]
    rw [hf]
    have hn1 : (0 : Rat) ≤ (n : Rat) - 1 := by
      have : (1 : Rat) ≤ (n : Rat) := by exact_mod_cast (show 1 ≤ n by omega)
      linarith
    constructor
    · intro i hi
      have h0 := hp.1 i hi
      dsimp only; split
      · exact mul_nonneg h0 (by linarith)
      · have : 0 ≤ b / ((n : Rat) - 1) := div_nonneg hb0 hn1
        nlinarith [mul_nonneg (by linarith : (0 : Rat) ≤ 1 - b) h0]
    · rw [sumTo_update act hact (fun i => p i * (1 - b)) (fun i => b / ((n : Rat) - 1) + (1 - b) * p i), sumTo_add, sumTo_const,
        sumTo_mul_left, hp.2]
      rcases hn with h | h | h
      · have hne : (n : Rat) - 1 ≠ 0 := by
          have : (2 : Rat) ≤ (n : Rat) := by exact_mod_cast h
          intro e; linarith
        field_simp; ring
      · exact absurd h (by simp)
      · subst h; simp

/-- a history of `stepUpdateP` calls, each with the parameters in force at that moment (`setAParam` / `setBParam` may
    be called between updates) -/
structure LrpOp where
  a : Rat
  b : Rat
  act : Nat
  result : Bool

def LrpOp.ok (n : Nat) (o : LrpOp) : Prop := 0 ≤ o.a ∧ o.a ≤ 1 ∧ 0 ≤ o.b ∧ o.b ≤ 1 ∧ o.act < n

def lrpRun (n : Nat) : List LrpOp → (Nat → Rat) → (Nat → Rat)
  | [], p => p
  | o :: t, p => lrpRun n t (lrpStep n o.a o.b o.act o.result p)

/-- **lrp_row_invariant**: after ANY history of updates (any length, any interleaving of rewards and penalties, parameters
    changed along the way within [0,1]) the LRP policy vector is a probability distribution. -/
theorem lrp_row_invariant (n : Nat) (hn : 2 ≤ n) (h : List LrpOp) (hok : ∀ o ∈ h, o.ok n) :
    RowValid n (lrpRun n h (lrpInit n)) := by
  have key : ∀ (h : List LrpOp) (p : Nat → Rat), (∀ o ∈ h, o.ok n) → RowValid n p → RowValid n (lrpRun n h p) := by
    intro h
    induction h with
    | nil => intro p _ hp; exact hp
    | cons o t ih =>
      intro p hok hp
      obtain ⟨h1, h2, h3, h4, h5⟩ := hok o List.mem_cons_self
      exact ih _ (fun o' ho' => hok o' (List.mem_cons_of_mem _ ho'))
        (lrp_step_valid n o.a o.b o.act o.result p (Or.inl hn) h1 h2 h3 h4 h5 hp)
  exact key h _ hok (lrpInit_valid n (by omega))

example : (⟨1/2, 1/4, 1, false⟩ : LrpOp).ok 3 := by unfold LrpOp.ok; norm_num

/-- with a single action and `b > 0` a penalty leaves `1 - b`: not a distribution (documented use needs two actions;
    recorded as an observation, harness case 5) -/
theorem lrp_single_action_counterexample : lrpStep 1 (1/2) (1/2) 0 false (lrpInit 1) 0 = 1 / 2 := by
  norm_num [lrpStep, lrpInit]

end AITB.Pol
