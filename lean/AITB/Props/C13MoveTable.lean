/-
  AITB.Props.C13MoveTable — table-level MultiObjectiveVariableElimination (generic GVE loop + MOVE callbacks AS
  WRITTEN, `moveCBWith false 0`, tags included in the data) refines the semantic elimination of `C13Move.lean`:
  on rule sets whose factor tables are fully specified (so that no agent action adjacent to a rule is ever unmatched —
  the complement of the open finding) the value vectors it ends with are exactly those of the in-range joint actions.
-/
import AITB.Props.C13Move
import AITB.Props.C13Table

namespace AITB.VE
open AITB.Factored

/-! ## value vectors of entry lists -/

def toV (l : List Rat) : Vec := fun i => l.getD i 0

/-- the value vectors of a table-level factor -/
def den (F : MFactor) : List Vec := F.map (fun e => toV e.vals)

def Uniform (n : Nat) (F : MFactor) : Prop := ∀ e ∈ F, e.vals.length = n
def GoodF (n : Nat) (F : MFactor) : Prop := F ≠ [] ∧ Uniform n F

theorem length_vecAdd : ∀ (a b : List Rat), a.length = b.length → (vecAdd a b).length = a.length
  | [], [], _ => rfl
  | [], _ :: _, h => by simp at h
  | _ :: _, [], h => by simp at h
  | x :: xs, y :: ys, h => by simp [vecAdd, length_vecAdd xs ys (by simpa using h)]

theorem toV_vecAdd : ∀ (a b : List Rat), a.length = b.length → toV (vecAdd a b) = vadd (toV a) (toV b)
  | [], [], _ => by funext i; simp [toV, vecAdd, vadd]
  | [], _ :: _, h => by simp at h
  | _ :: _, [], h => by simp at h
  | x :: xs, y :: ys, h => by
    have ih := toV_vecAdd xs ys (by simpa using h)
    funext i
    cases i with
    | zero => simp [toV, vecAdd, vadd]
    | succ i =>
      have := congrFun ih i
      simpa [toV, vecAdd, vadd] using this

theorem mem_den_cross (n : Nat) (F G : MFactor) (hF : GoodF n F) (hG : GoodF n G) (w : Vec) :
    w ∈ den (mCrossSumF F G) ↔ ∃ a ∈ den F, ∃ b ∈ den G, w = vadd a b := by
  have hF' : F.isEmpty = false := by cases F <;> simp_all [GoodF]
  have hG' : G.isEmpty = false := by cases G <;> simp_all [GoodF]
  simp only [den, mCrossSumF, hF', hG', Bool.false_eq_true, if_false, List.mem_map, List.mem_flatMap]
  constructor
  · rintro ⟨e, ⟨l, hl, r, hr, rfl⟩, rfl⟩
    exact ⟨_, ⟨l, hl, rfl⟩, _, ⟨r, hr, rfl⟩, toV_vecAdd _ _ (by rw [hF.2 l hl, hG.2 r hr])⟩
  · rintro ⟨_, ⟨l, hl, rfl⟩, _, ⟨r, hr, rfl⟩, rfl⟩
    exact ⟨_, ⟨l, hl, r, hr, rfl⟩, toV_vecAdd _ _ (by rw [hF.2 l hl, hG.2 r hr])⟩

theorem good_cross (n : Nat) (F G : MFactor) (hF : GoodF n F) (hG : GoodF n G) : GoodF n (mCrossSumF F G) := by
  refine ⟨mCrossSumF_ne_nil F G hF.1 hG.1, ?_⟩
  have hF' : F.isEmpty = false := by cases F <;> simp_all [GoodF]
  have hG' : G.isEmpty = false := by cases G <;> simp_all [GoodF]
  intro e he
  simp only [mCrossSumF, hF', hG', Bool.false_eq_true, if_false, List.mem_flatMap, List.mem_map] at he
  obtain ⟨l, hl, r, hr, rfl⟩ := he
  simp only
  rw [length_vecAdd _ _ (by rw [hF.2 l hl, hG.2 r hr]), hF.2 l hl]

theorem cross_nil_left (G : MFactor) : mCrossSumF [] G = G := by simp [mCrossSumF]
theorem cross_nil_right (F : MFactor) : mCrossSumF F [] = F := by
  cases F <;> simp [mCrossSumF]

/-! ## algebra of `sums` (membership level) -/

theorem mem_sums_append (w : Vec) : ∀ (L1 L2 : List (List Vec)),
    w ∈ sums (L1 ++ L2) ↔ ∃ u ∈ sums L1, ∃ t ∈ sums L2, w = vadd u t
  | [], L2 => by
    simp only [List.nil_append, sums, List.mem_singleton]
    constructor
    · intro h; exact ⟨vzero, rfl, w, h, (zero_vadd _).symm⟩
    · rintro ⟨u, rfl, t, ht, rfl⟩; rw [zero_vadd]; exact ht
  | X :: L1, L2 => by
    simp only [List.cons_append]
    rw [mem_sums_cons]
    constructor
    · rintro ⟨a, ha, t, ht, rfl⟩
      obtain ⟨u, hu, t', ht', rfl⟩ := (mem_sums_append t L1 L2).mp ht
      exact ⟨vadd a u, (mem_sums_cons _ _ _).mpr ⟨a, ha, u, hu, rfl⟩, t', ht', (vadd_assoc _ _ _).symm⟩
    · rintro ⟨u, hu, t', ht', rfl⟩
      obtain ⟨a, ha, u', hu', rfl⟩ := (mem_sums_cons _ _ _).mp hu
      exact ⟨a, ha, vadd u' t', (mem_sums_append _ L1 L2).mpr ⟨u', hu', t', ht', rfl⟩, vadd_assoc _ _ _⟩

/-- only the SET of sums of a prefix matters -/
theorem mem_sums_congr_left (w : Vec) (L1 L1' L2 : List (List Vec)) (h : ∀ u, u ∈ sums L1 ↔ u ∈ sums L1') :
    w ∈ sums (L1 ++ L2) ↔ w ∈ sums (L1' ++ L2) := by
  rw [mem_sums_append, mem_sums_append]
  constructor
  · rintro ⟨u, hu, t, ht, rfl⟩; exact ⟨u, (h u).mp hu, t, ht, rfl⟩
  · rintro ⟨u, hu, t, ht, rfl⟩; exact ⟨u, (h u).mpr hu, t, ht, rfl⟩

theorem mem_sums_comm (w : Vec) (L1 L2 : List (List Vec)) : w ∈ sums (L1 ++ L2) ↔ w ∈ sums (L2 ++ L1) := by
  rw [mem_sums_append, mem_sums_append]
  constructor
  · rintro ⟨u, hu, t, ht, rfl⟩; exact ⟨t, ht, u, hu, vadd_comm _ _⟩
  · rintro ⟨u, hu, t, ht, rfl⟩; exact ⟨t, ht, u, hu, vadd_comm _ _⟩

theorem mem_sums_single (w : Vec) (X : List Vec) : w ∈ sums [X] ↔ w ∈ X := by
  rw [mem_sums_cons]
  simp only [sums, List.mem_singleton]
  constructor
  · rintro ⟨a, ha, t, rfl, rfl⟩; rw [vadd_zero]; exact ha
  · intro h; exact ⟨w, h, vzero, rfl, (vadd_zero w).symm⟩

/-- a factor that is the cross-sum of two may be replaced by the two -/
theorem mem_sums_merge (n : Nat) (F G : MFactor) (hF : GoodF n F) (hG : GoodF n G) (R : List (List Vec)) (w : Vec) :
    w ∈ sums (den (mCrossSumF F G) :: R) ↔ w ∈ sums (den F :: den G :: R) := by
  have e1 : den (mCrossSumF F G) :: R = [den (mCrossSumF F G)] ++ R := rfl
  have e2 : den F :: den G :: R = [den F, den G] ++ R := rfl
  rw [e1, e2]
  apply mem_sums_congr_left
  intro u
  rw [mem_sums_single, mem_den_cross n F G hF hG]
  have : [den F, den G] = [den F] ++ [den G] := rfl
  rw [this, mem_sums_append]
  simp only [mem_sums_single]

/-- the first factor may be a union: the sums are the union of the sums -/
theorem mem_sums_flatMap {ι : Type} (Ks : List ι) (X : ι → List Vec) (R : List (List Vec)) (w : Vec) :
    w ∈ sums ((Ks.flatMap X) :: R) ↔ ∃ k ∈ Ks, w ∈ sums (X k :: R) := by
  simp only [mem_sums_cons, List.mem_flatMap]
  constructor
  · rintro ⟨a, ⟨k, hk, ha⟩, t, ht, rfl⟩; exact ⟨k, hk, a, ha, t, ht, rfl⟩
  · rintro ⟨k, hk, a, ha, t, ht, rfl⟩; exact ⟨a, ⟨k, hk, ha⟩, t, ht, rfl⟩

/-- cross-summing a list of good factors (from a good accumulator) = taking one entry of each -/
theorem mem_den_foldl_cross (n : Nat) : ∀ (fs : List MFactor) (acc : MFactor), GoodF n acc → (∀ f ∈ fs, GoodF n f) →
    GoodF n (fs.foldl mCrossSumF acc) ∧
    ∀ (R : List (List Vec)) (w : Vec),
      w ∈ sums (den (fs.foldl mCrossSumF acc) :: R) ↔ w ∈ sums (den acc :: (fs.map den ++ R))
  | [], acc, hacc, _ => ⟨hacc, fun _ _ => Iff.rfl⟩
  | f :: fs, acc, hacc, hfs => by
    have hf := hfs f (List.mem_cons_self ..)
    obtain ⟨h1, h2⟩ := mem_den_foldl_cross n fs (mCrossSumF acc f) (good_cross n acc f hacc hf)
      (fun g hg => hfs g (List.mem_cons_of_mem _ hg))
    refine ⟨h1, ?_⟩
    intro R w
    simp only [List.foldl_cons, List.map_cons, List.cons_append]
    rw [h2 R w, mem_sums_merge n acc f hacc hf]

/-- `crossSel`: what `crossSum`/`endFactorCrossSum` leave in `newCrossSum` after all adjacent factors -/
def crossSel (fs : List MFactor) : MFactor := fs.foldl mCrossSumF []

theorem crossSel_spec (n : Nat) (f : MFactor) (fs : List MFactor) (hf : GoodF n f) (hfs : ∀ g ∈ fs, GoodF n g) :
    GoodF n (crossSel (f :: fs)) ∧
    ∀ (R : List (List Vec)) (w : Vec), w ∈ sums (den (crossSel (f :: fs)) :: R) ↔ w ∈ sums ((f :: fs).map den ++ R) := by
  have : crossSel (f :: fs) = fs.foldl mCrossSumF f := by simp [crossSel, cross_nil_left]
  rw [this]
  obtain ⟨h1, h2⟩ := mem_den_foldl_cross n fs f hf hfs
  exact ⟨h1, fun R w => by rw [h2 R w]; rfl⟩

/-! ## the MOVE callbacks as written, unfolded -/

abbrev mcb : Callbacks MFactor MGlob := moveCBWith false 0

/-- factors selected by the joint action `a` (absent rule = the node contributes nothing) -/
def SelG (A a : List Nat) (G : List (GNode MFactor)) : List MFactor :=
  G.filterMap (fun nd => gLookup (toIndexPartial nd.keys A a) nd.rules)

theorem cross_eq_nil (C f : MFactor) (h : mCrossSumF C f = []) : C = [] := by
  cases C with
  | nil => rfl
  | cons c cs =>
    cases f with
    | nil => simp [mCrossSumF] at h
    | cons g gs => simp [mCrossSumF] at h

/-- one adjacent factor: `beginFactorCrossSum`, the lookup, `crossSum`, `endFactorCrossSum` -/
def factorStep (o : Option MFactor) (s : MGlob) : MGlob :=
  mcb.endFactorCrossSum (match o with
    | some f => mcb.crossSum f (mcb.beginFactorCrossSum s)
    | none => mcb.beginFactorCrossSum s)

theorem factorStep_fields (o : Option MFactor) (s : MGlob) :
    (factorStep o s).newCrossSum = (match o with | some f => mCrossSumF s.newCrossSum f | none => s.newCrossSum) ∧
    (factorStep o s).newFactor = s.newFactor ∧ (factorStep o s).agent = s.agent ∧
    (factorStep o s).agentAction = s.agentAction := by
  cases o with
  | none => exact ⟨rfl, rfl, rfl, rfl⟩
  | some f =>
    by_cases he : (mCrossSumF s.newCrossSum f).isEmpty = true
    · have hnil : mCrossSumF s.newCrossSum f = [] := List.isEmpty_iff.mp he
      have hC : s.newCrossSum = [] := cross_eq_nil _ _ hnil
      have : factorStep (some f) s = { s with newFactorCrossSum := [] ++ mCrossSumF s.newCrossSum f } := by
        simp only [factorStep, mcb, moveCBWith, List.nil_append, he, if_true]
      rw [this]
      exact ⟨by show s.newCrossSum = mCrossSumF s.newCrossSum f; rw [hnil, hC], rfl, rfl, rfl⟩
    · have he' : (mCrossSumF s.newCrossSum f).isEmpty = false := by simpa using he
      have : factorStep (some f) s = { s with newFactorCrossSum := [] ++ mCrossSumF s.newCrossSum f,
                                              newCrossSum := [] ++ mCrossSumF s.newCrossSum f } := by
        simp only [factorStep, mcb, moveCBWith, List.nil_append, he', Bool.false_eq_true, if_false]
      rw [this]
      exact ⟨by simp, rfl, rfl, rfl⟩

theorem gCrossFactors_cons (A : List Nat) (n : Nat) (x : Asg) (nd : GNode MFactor) (fs : List (GNode MFactor)) (s : MGlob) :
    gCrossFactors mcb A n x (nd :: fs) s
      = gCrossFactors mcb A n x fs (factorStep (gLookup (toIndexPartial nd.keys A (listOf n x)) nd.rules) s) := by
  simp only [gCrossFactors, factorStep]
  cases gLookup (toIndexPartial nd.keys A (listOf n x)) nd.rules <;> rfl

/-- over all adjacent factors: `newCrossSum` becomes its cross-sum with every selected factor; nothing else that
    matters changes -/
theorem gCross_move (A : List Nat) (n : Nat) (x : Asg) : ∀ (fs : List (GNode MFactor)) (s : MGlob),
    (gCrossFactors mcb A n x fs s).newCrossSum = (SelG A (listOf n x) fs).foldl mCrossSumF s.newCrossSum ∧
    (gCrossFactors mcb A n x fs s).newFactor = s.newFactor ∧
    (gCrossFactors mcb A n x fs s).agent = s.agent ∧
    (gCrossFactors mcb A n x fs s).agentAction = s.agentAction
  | [], s => ⟨rfl, rfl, rfl, rfl⟩
  | nd :: fs, s => by
    rw [gCrossFactors_cons]
    obtain ⟨f1, f2, f3, f4⟩ := factorStep_fields (gLookup (toIndexPartial nd.keys A (listOf n x)) nd.rules) s
    obtain ⟨h1, h2, h3, h4⟩ := gCross_move A n x fs (factorStep (gLookup (toIndexPartial nd.keys A (listOf n x)) nd.rules) s)
    refine ⟨?_, by rw [h2, f2], by rw [h3, f3], by rw [h4, f4]⟩
    rw [h1, f1]
    simp only [SelG, List.filterMap_cons]
    cases gLookup (toIndexPartial nd.keys A (listOf n x)) nd.rules <;> rfl

theorem den_map_tag (F : MFactor) (g : MEntry → List (Nat × Nat)) : den (F.map (fun e => { e with tag := g e })) = den F := by
  simp [den, List.map_map, Function.comp_def]

theorem uniform_map_tag (n : Nat) (F : MFactor) (g : MEntry → List (Nat × Nat)) (h : Uniform n F) :
    Uniform n (F.map (fun e => { e with tag := g e })) := by
  intro e he
  obtain ⟨e', he', rfl⟩ := List.mem_map.mp he
  exact h e' he'

/-- what the loop over the agent's actions appends to `newFactor` (exact, tags included) -/
def newEntries (A : List Nat) (n : Nat) (nb jv : List Nat) (v : Nat) (factors : List (GNode MFactor)) (k0 cnt : Nat) : MFactor :=
  (List.range' k0 cnt).flatMap (fun k =>
    (crossSel (SelG A (listOf n (jvAsg nb jv v k)) factors)).map (fun e => { e with tag := insTag v k e.tag }))

theorem endCrossSum_newFactor (s : MGlob) :
    (mcb.endCrossSum s).newFactor = s.newFactor ++ s.newCrossSum.map (fun e => { e with tag := insTag s.agent s.agentAction e.tag }) ∧
    (mcb.endCrossSum s).agent = s.agent := by
  simp only [mcb, moveCBWith, Bool.false_and, Bool.false_eq_true, if_false]
  split
  · rename_i h
    rw [List.isEmpty_iff.mp h]; simp
  · exact ⟨rfl, rfl⟩

theorem gOver_move (A : List Nat) (n : Nat) (nb jv : List Nat) (v : Nat) (factors : List (GNode MFactor)) :
    ∀ (cnt k0 : Nat) (s : MGlob), s.agent = v →
      (gOverActions mcb A n nb jv v factors cnt k0 s).newFactor = s.newFactor ++ newEntries A n nb jv v factors k0 cnt ∧
      (gOverActions mcb A n nb jv v factors cnt k0 s).agent = v
  | 0, _, s, hs => by simp [gOverActions, newEntries, hs]
  | cnt+1, k0, s, hs => by
    simp only [gOverActions]
    obtain ⟨c1, c2, c3, c4⟩ := gCross_move A n (jvAsg nb jv v k0) factors (mcb.beginCrossSum k0 s)
    obtain ⟨e1, e2⟩ := endCrossSum_newFactor (gCrossFactors mcb A n (jvAsg nb jv v k0) factors (mcb.beginCrossSum k0 s))
    have hb1 : (mcb.beginCrossSum k0 s).newCrossSum = [] := rfl
    have hb2 : (mcb.beginCrossSum k0 s).newFactor = s.newFactor := rfl
    have hb3 : (mcb.beginCrossSum k0 s).agent = s.agent := rfl
    have hb4 : (mcb.beginCrossSum k0 s).agentAction = k0 := rfl
    rw [c3, hb3, hs] at e2
    rw [c1, c2, c3, c4, hb1, hb2, hb3, hb4, hs] at e1
    obtain ⟨h1, h2⟩ := gOver_move A n nb jv v factors cnt (k0+1) _ e2
    refine ⟨?_, h2⟩
    rw [h1, e1]
    simp only [newEntries, List.range'_succ, List.flatMap_cons, List.append_assoc, crossSel]

theorem den_newEntries (A : List Nat) (n : Nat) (nb jv : List Nat) (v : Nat) (factors : List (GNode MFactor)) (k0 cnt : Nat) :
    den (newEntries A n nb jv v factors k0 cnt)
      = (List.range' k0 cnt).flatMap (fun k => den (crossSel (SelG A (listOf n (jvAsg nb jv v k)) factors))) := by
  simp only [newEntries, den, List.map_flatMap, List.map_map, Function.comp_def]

end AITB.VE
