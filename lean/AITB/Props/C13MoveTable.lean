/-
  AITB.Props.C13MoveTable — table-level MultiObjectiveVariableElimination (generic GVE loop + MOVE callbacks AS
  WRITTEN, `moveCBWith false 0`, tags included in the data) refines the semantic elimination of `C13Move.lean`:
  on rule sets whose factor tables are fully specified (so that no agent action adjacent to a rule is ever unmatched —
  the complement of the open finding) the value vectors it ends with are exactly those of the in-range joint actions.
-/
import AITB.Props.C13Move
import AITB.Props.C13Table

namespace AITB.VE
open AITB.Factored

/-! ## value vectors of entry lists -/

def toV (l : List Rat) : Vec := fun i => l.getD i 0

/-- the value vectors of a table-level factor -/
def den (F : MFactor) : List Vec := F.map (fun e => toV e.vals)

def Uniform (n : Nat) (F : MFactor) : Prop := ∀ e ∈ F, e.vals.length = n
def GoodF (n : Nat) (F : MFactor) : Prop := F ≠ [] ∧ Uniform n F

theorem length_vecAdd : ∀ (a b : List Rat), a.length = b.length → (vecAdd a b).length = a.length
  | [], [], _ => rfl
  | [], _ :: _, h => by simp at h
  | _ :: _, [], h => by simp at h
  | x :: xs, y :: ys, h => by simp [vecAdd, length_vecAdd xs ys (by simpa using h)]

theorem toV_vecAdd : ∀ (a b : List Rat), a.length = b.length → toV (vecAdd a b) = vadd (toV a) (toV b)
  | [], [], _ => by funext i; simp [toV, vecAdd, vadd]
  | [], _ :: _, h => by simp at h
  | _ :: _, [], h => by simp at h
  | x :: xs, y :: ys, h => by
    have ih := toV_vecAdd xs ys (by simpa using h)
    funext i
    cases i with
    | zero => simp [toV, vecAdd, vadd]
    | succ i =>
      have := congrFun ih i
      simpa [toV, vecAdd, vadd] using this

theorem mem_den_cross (n : Nat) (F G : MFactor) (hF : GoodF n F) (hG : GoodF n G) (w : Vec) :
    w ∈ den (mCrossSumF F G) ↔ ∃ a ∈ den F, ∃ b ∈ den G, w = vadd a b := by
  have hF' : F.isEmpty = false := by cases F <;> simp_all [GoodF]
  have hG' : G.isEmpty = false := by cases G <;> simp_all [GoodF]
  simp only [den, mCrossSumF, hF', hG', Bool.false_eq_true, if_false, List.mem_map, List.mem_flatMap]
  constructor
  · rintro ⟨e, ⟨l, hl, r, hr, rfl⟩, rfl⟩
    exact ⟨_, ⟨l, hl, rfl⟩, _, ⟨r, hr, rfl⟩, toV_vecAdd _ _ (by rw [hF.2 l hl, hG.2 r hr])⟩
  · rintro ⟨_, ⟨l, hl, rfl⟩, _, ⟨r, hr, rfl⟩, rfl⟩
    exact ⟨_, ⟨l, hl, r, hr, rfl⟩, toV_vecAdd _ _ (by rw [hF.2 l hl, hG.2 r hr])⟩

theorem good_cross (n : Nat) (F G : MFactor) (hF : GoodF n F) (hG : GoodF n G) : GoodF n (mCrossSumF F G) := by
  refine ⟨mCrossSumF_ne_nil F G hF.1 hG.1, ?_⟩
  have hF' : F.isEmpty = false := by cases F <;> simp_all [GoodF]
  have hG' : G.isEmpty = false := by cases G <;> simp_all [GoodF]
  intro e he
  simp only [mCrossSumF, hF', hG', Bool.false_eq_true, if_false, List.mem_flatMap, List.mem_map] at he
  obtain ⟨l, hl, r, hr, rfl⟩ := he
  simp only
  rw [length_vecAdd _ _ (by rw [hF.2 l hl, hG.2 r hr]), hF.2 l hl]

theorem cross_nil_left (G : MFactor) : mCrossSumF [] G = G := by simp [mCrossSumF]
theorem cross_nil_right (F : MFactor) : mCrossSumF F [] = F := by
  cases F <;> simp [mCrossSumF]

/-! ## algebra of `sums` (membership level) -/

theorem mem_sums_append (w : Vec) : ∀ (L1 L2 : List (List Vec)),
    w ∈ sums (L1 ++ L2) ↔ ∃ u ∈ sums L1, ∃ t ∈ sums L2, w = vadd u t
  | [], L2 => by
    simp only [List.nil_append, sums, List.mem_singleton]
    constructor
    · intro h; exact ⟨vzero, rfl, w, h, (zero_vadd _).symm⟩
    · rintro ⟨u, rfl, t, ht, rfl⟩; rw [zero_vadd]; exact ht
  | X :: L1, L2 => by
    simp only [List.cons_append]
    rw [mem_sums_cons]
    constructor
    · rintro ⟨a, ha, t, ht, rfl⟩
      obtain ⟨u, hu, t', ht', rfl⟩ := (mem_sums_append t L1 L2).mp ht
      exact ⟨vadd a u, (mem_sums_cons _ _ _).mpr ⟨a, ha, u, hu, rfl⟩, t', ht', (vadd_assoc _ _ _).symm⟩
    · rintro ⟨u, hu, t', ht', rfl⟩
      obtain ⟨a, ha, u', hu', rfl⟩ := (mem_sums_cons _ _ _).mp hu
      exact ⟨a, ha, vadd u' t', (mem_sums_append _ L1 L2).mpr ⟨u', hu', t', ht', rfl⟩, vadd_assoc _ _ _⟩

/-- only the SET of sums of a prefix matters -/
theorem mem_sums_congr_left (w : Vec) (L1 L1' L2 : List (List Vec)) (h : ∀ u, u ∈ sums L1 ↔ u ∈ sums L1') :
    w ∈ sums (L1 ++ L2) ↔ w ∈ sums (L1' ++ L2) := by
  rw [mem_sums_append, mem_sums_append]
  constructor
  · rintro ⟨u, hu, t, ht, rfl⟩; exact ⟨u, (h u).mp hu, t, ht, rfl⟩
  · rintro ⟨u, hu, t, ht, rfl⟩; exact ⟨u, (h u).mpr hu, t, ht, rfl⟩

theorem mem_sums_comm (w : Vec) (L1 L2 : List (List Vec)) : w ∈ sums (L1 ++ L2) ↔ w ∈ sums (L2 ++ L1) := by
  rw [mem_sums_append, mem_sums_append]
  constructor
  · rintro ⟨u, hu, t, ht, rfl⟩; exact ⟨t, ht, u, hu, vadd_comm _ _⟩
  · rintro ⟨u, hu, t, ht, rfl⟩; exact ⟨t, ht, u, hu, vadd_comm _ _⟩

theorem mem_sums_single (w : Vec) (X : List Vec) : w ∈ sums [X] ↔ w ∈ X := by
  rw [mem_sums_cons]
  simp only [sums, List.mem_singleton]
  constructor
  · rintro ⟨a, ha, t, rfl, rfl⟩; rw [vadd_zero]; exact ha
  · intro h; exact ⟨w, h, vzero, rfl, (vadd_zero w).symm⟩

/-- a factor that is the cross-sum of two may be replaced by the two -/
theorem mem_sums_merge (n : Nat) (F G : MFactor) (hF : GoodF n F) (hG : GoodF n G) (R : List (List Vec)) (w : Vec) :
    w ∈ sums (den (mCrossSumF F G) :: R) ↔ w ∈ sums (den F :: den G :: R) := by
  have e1 : den (mCrossSumF F G) :: R = [den (mCrossSumF F G)] ++ R := rfl
  have e2 : den F :: den G :: R = [den F, den G] ++ R := rfl
  rw [e1, e2]
  apply mem_sums_congr_left
  intro u
  rw [mem_sums_single, mem_den_cross n F G hF hG]
  have : [den F, den G] = [den F] ++ [den G] := rfl
  rw [this, mem_sums_append]
  simp only [mem_sums_single]

/-- the first factor may be a union: the sums are the union of the sums -/
theorem mem_sums_flatMap {ι : Type} (Ks : List ι) (X : ι → List Vec) (R : List (List Vec)) (w : Vec) :
    w ∈ sums ((Ks.flatMap X) :: R) ↔ ∃ k ∈ Ks, w ∈ sums (X k :: R) := by
  simp only [mem_sums_cons, List.mem_flatMap]
  constructor
  · rintro ⟨a, ⟨k, hk, ha⟩, t, ht, rfl⟩; exact ⟨k, hk, a, ha, t, ht, rfl⟩
  · rintro ⟨k, hk, a, ha, t, ht, rfl⟩; exact ⟨a, ⟨k, hk, ha⟩, t, ht, rfl⟩

/-- cross-summing a list of good factors (from a good accumulator) = taking one entry of each -/
theorem mem_den_foldl_cross (n : Nat) : ∀ (fs : List MFactor) (acc : MFactor), GoodF n acc → (∀ f ∈ fs, GoodF n f) →
    GoodF n (fs.foldl mCrossSumF acc) ∧
    ∀ (R : List (List Vec)) (w : Vec),
      w ∈ sums (den (fs.foldl mCrossSumF acc) :: R) ↔ w ∈ sums (den acc :: (fs.map den ++ R))
  | [], acc, hacc, _ => ⟨hacc, fun _ _ => Iff.rfl⟩
  | f :: fs, acc, hacc, hfs => by
    have hf := hfs f (List.mem_cons_self ..)
    obtain ⟨h1, h2⟩ := mem_den_foldl_cross n fs (mCrossSumF acc f) (good_cross n acc f hacc hf)
      (fun g hg => hfs g (List.mem_cons_of_mem _ hg))
    refine ⟨h1, ?_⟩
    intro R w
    simp only [List.foldl_cons, List.map_cons, List.cons_append]
    rw [h2 R w, mem_sums_merge n acc f hacc hf]

/-- `crossSel`: what `crossSum`/`endFactorCrossSum` leave in `newCrossSum` after all adjacent factors -/
def crossSel (fs : List MFactor) : MFactor := fs.foldl mCrossSumF []

theorem crossSel_spec (n : Nat) (f : MFactor) (fs : List MFactor) (hf : GoodF n f) (hfs : ∀ g ∈ fs, GoodF n g) :
    GoodF n (crossSel (f :: fs)) ∧
    ∀ (R : List (List Vec)) (w : Vec), w ∈ sums (den (crossSel (f :: fs)) :: R) ↔ w ∈ sums ((f :: fs).map den ++ R) := by
  have : crossSel (f :: fs) = fs.foldl mCrossSumF f := by simp [crossSel, cross_nil_left]
  rw [this]
  obtain ⟨h1, h2⟩ := mem_den_foldl_cross n fs f hf hfs
  exact ⟨h1, fun R w => by rw [h2 R w]; rfl⟩

/-! ## the MOVE callbacks as written, unfolded -/

abbrev mcb : Callbacks MFactor MGlob := moveCBWith false 0

/-- factors selected by the joint action `a` (absent rule = the node contributes nothing) -/
def SelG (A a : List Nat) (G : List (GNode MFactor)) : List MFactor :=
  G.filterMap (fun nd => gLookup (toIndexPartial nd.keys A a) nd.rules)

theorem cross_eq_nil (C f : MFactor) (h : mCrossSumF C f = []) : C = [] := by
  cases C with
  | nil => rfl
  | cons c cs =>
    cases f with
    | nil => simp [mCrossSumF] at h
    | cons g gs => simp [mCrossSumF] at h

/-- one adjacent factor: `beginFactorCrossSum`, the lookup, `crossSum`, `endFactorCrossSum` -/
def factorStep (o : Option MFactor) (s : MGlob) : MGlob :=
  mcb.endFactorCrossSum (match o with
    | some f => mcb.crossSum f (mcb.beginFactorCrossSum s)
    | none => mcb.beginFactorCrossSum s)

theorem factorStep_fields (o : Option MFactor) (s : MGlob) :
    (factorStep o s).newCrossSum = (match o with | some f => mCrossSumF s.newCrossSum f | none => s.newCrossSum) ∧
    (factorStep o s).newFactor = s.newFactor ∧ (factorStep o s).agent = s.agent ∧
    (factorStep o s).agentAction = s.agentAction := by
  cases o with
  | none => exact ⟨rfl, rfl, rfl, rfl⟩
  | some f =>
    by_cases he : (mCrossSumF s.newCrossSum f).isEmpty = true
    · have hnil : mCrossSumF s.newCrossSum f = [] := List.isEmpty_iff.mp he
      have hC : s.newCrossSum = [] := cross_eq_nil _ _ hnil
      have : factorStep (some f) s = { s with newFactorCrossSum := [] ++ mCrossSumF s.newCrossSum f } := by
        simp only [factorStep, mcb, moveCBWith, List.nil_append, he, if_true]
      rw [this]
      exact ⟨by show s.newCrossSum = mCrossSumF s.newCrossSum f; rw [hnil, hC], rfl, rfl, rfl⟩
    · have he' : (mCrossSumF s.newCrossSum f).isEmpty = false := by simpa using he
      have : factorStep (some f) s = { s with newFactorCrossSum := [] ++ mCrossSumF s.newCrossSum f,
                                              newCrossSum := [] ++ mCrossSumF s.newCrossSum f } := by
        simp only [factorStep, mcb, moveCBWith, List.nil_append, he', Bool.false_eq_true, if_false]
      rw [this]
      exact ⟨by simp, rfl, rfl, rfl⟩

theorem gCrossFactors_cons (A : List Nat) (n : Nat) (x : Asg) (nd : GNode MFactor) (fs : List (GNode MFactor)) (s : MGlob) :
    gCrossFactors mcb A n x (nd :: fs) s
      = gCrossFactors mcb A n x fs (factorStep (gLookup (toIndexPartial nd.keys A (listOf n x)) nd.rules) s) := by
  simp only [gCrossFactors, factorStep]
  cases gLookup (toIndexPartial nd.keys A (listOf n x)) nd.rules <;> rfl

/-- over all adjacent factors: `newCrossSum` becomes its cross-sum with every selected factor; nothing else that
    matters changes -/
theorem gCross_move (A : List Nat) (n : Nat) (x : Asg) : ∀ (fs : List (GNode MFactor)) (s : MGlob),
    (gCrossFactors mcb A n x fs s).newCrossSum = (SelG A (listOf n x) fs).foldl mCrossSumF s.newCrossSum ∧
    (gCrossFactors mcb A n x fs s).newFactor = s.newFactor ∧
    (gCrossFactors mcb A n x fs s).agent = s.agent ∧
    (gCrossFactors mcb A n x fs s).agentAction = s.agentAction
  | [], s => ⟨rfl, rfl, rfl, rfl⟩
  | nd :: fs, s => by
    rw [gCrossFactors_cons]
    obtain ⟨f1, f2, f3, f4⟩ := factorStep_fields (gLookup (toIndexPartial nd.keys A (listOf n x)) nd.rules) s
    obtain ⟨h1, h2, h3, h4⟩ := gCross_move A n x fs (factorStep (gLookup (toIndexPartial nd.keys A (listOf n x)) nd.rules) s)
    refine ⟨?_, by rw [h2, f2], by rw [h3, f3], by rw [h4, f4]⟩
    rw [h1, f1]
    simp only [SelG, List.filterMap_cons]
    cases gLookup (toIndexPartial nd.keys A (listOf n x)) nd.rules <;> rfl

theorem den_map_tag (F : MFactor) (g : MEntry → List (Nat × Nat)) : den (F.map (fun e => { e with tag := g e })) = den F := by
  simp [den, List.map_map, Function.comp_def]

theorem uniform_map_tag (n : Nat) (F : MFactor) (g : MEntry → List (Nat × Nat)) (h : Uniform n F) :
    Uniform n (F.map (fun e => { e with tag := g e })) := by
  intro e he
  obtain ⟨e', he', rfl⟩ := List.mem_map.mp he
  exact h e' he'

/-- what the loop over the agent's actions appends to `newFactor` (exact, tags included) -/
def newEntries (A : List Nat) (n : Nat) (nb jv : List Nat) (v : Nat) (factors : List (GNode MFactor)) (k0 cnt : Nat) : MFactor :=
  (List.range' k0 cnt).flatMap (fun k =>
    (crossSel (SelG A (listOf n (jvAsg nb jv v k)) factors)).map (fun e => { e with tag := insTag v k e.tag }))

theorem endCrossSum_newFactor (s : MGlob) :
    (mcb.endCrossSum s).newFactor = s.newFactor ++ s.newCrossSum.map (fun e => { e with tag := insTag s.agent s.agentAction e.tag }) ∧
    (mcb.endCrossSum s).agent = s.agent := by
  simp only [mcb, moveCBWith, Bool.false_and, Bool.false_eq_true, if_false]
  split
  · rename_i h
    rw [List.isEmpty_iff.mp h]; simp
  · exact ⟨rfl, rfl⟩

theorem gOver_move (A : List Nat) (n : Nat) (nb jv : List Nat) (v : Nat) (factors : List (GNode MFactor)) :
    ∀ (cnt k0 : Nat) (s : MGlob), s.agent = v →
      (gOverActions mcb A n nb jv v factors cnt k0 s).newFactor = s.newFactor ++ newEntries A n nb jv v factors k0 cnt ∧
      (gOverActions mcb A n nb jv v factors cnt k0 s).agent = v
  | 0, _, s, hs => by simp [gOverActions, newEntries, hs]
  | cnt+1, k0, s, hs => by
    simp only [gOverActions]
    obtain ⟨c1, c2, c3, c4⟩ := gCross_move A n (jvAsg nb jv v k0) factors (mcb.beginCrossSum k0 s)
    obtain ⟨e1, e2⟩ := endCrossSum_newFactor (gCrossFactors mcb A n (jvAsg nb jv v k0) factors (mcb.beginCrossSum k0 s))
    have hb1 : (mcb.beginCrossSum k0 s).newCrossSum = [] := rfl
    have hb2 : (mcb.beginCrossSum k0 s).newFactor = s.newFactor := rfl
    have hb3 : (mcb.beginCrossSum k0 s).agent = s.agent := rfl
    have hb4 : (mcb.beginCrossSum k0 s).agentAction = k0 := rfl
    rw [c3, hb3, hs] at e2
    rw [c1, c2, c3, c4, hb1, hb2, hb3, hb4, hs] at e1
    obtain ⟨h1, h2⟩ := gOver_move A n nb jv v factors cnt (k0+1) _ e2
    refine ⟨?_, h2⟩
    rw [h1, e1]
    simp only [newEntries, List.range'_succ, List.flatMap_cons, List.append_assoc, crossSel]

theorem den_newEntries (A : List Nat) (n : Nat) (nb jv : List Nat) (v : Nat) (factors : List (GNode MFactor)) (k0 cnt : Nat) :
    den (newEntries A n nb jv v factors k0 cnt)
      = (List.range' k0 cnt).flatMap (fun k => den (crossSel (SelG A (listOf n (jvAsg nb jv v k)) factors))) := by
  simp only [newEntries, den, List.map_flatMap, List.map_map, Function.comp_def]

/-! ## the rule vectors: `lower_bound` lookup after `lower_bound` merge -/

theorem gLookup_gMergeRule (id : Nat) (f : MFactor) (j : Nat) : ∀ (rs : List (Nat × MFactor)),
    gLookup j (gMergeRule mcb id f rs)
      = if j = id then some (match gLookup j rs with | some o => mCrossSumF o f | none => f) else gLookup j rs
  | [] => by
    simp only [gMergeRule, gLookup]
    by_cases h1 : id < j
    · have : j ≠ id := by omega
      simp [h1, this]
    · by_cases h2 : id = j
      · simp [h2]
      · have : j ≠ id := fun e => h2 e.symm
        simp [h1, h2, this]
  | r :: rs => by
    simp only [gMergeRule]
    by_cases c1 : r.1 < id
    · simp only [c1, if_true, gLookup]
      by_cases h1 : r.1 < j
      · simp only [h1, if_true]; exact gLookup_gMergeRule id f j rs
      · by_cases h2 : r.1 = j
        · have : j ≠ id := by omega
          simp [h2, this]
        · have : j ≠ id := by omega
          simp [h1, h2, this]
    · by_cases c2 : r.1 = id
      · have c2' : (r.1 == id) = true := by simpa using c2
        simp only [c1, if_false, c2', if_true, gLookup]
        by_cases h1 : r.1 < j
        · have : j ≠ id := by omega
          simp [h1, this]
        · by_cases h2 : r.1 = j
          · have : j = id := by omega
            simp [h2, this, mcb, moveCBWith]
          · have : j ≠ id := by omega
            simp [h1, h2, this]
      · have c2' : (r.1 == id) = false := by simpa using c2
        simp only [c1, if_false, c2', Bool.false_eq_true, gLookup]
        by_cases g1 : id < j
        · have : j ≠ id := by omega
          simp [g1, this]
        · by_cases g2 : id = j
          · have hj : ¬ r.1 < j := by omega
            have hj2 : ¬ r.1 = j := by omega
            simp [g2, hj, hj2]
          · have : j ≠ id := fun e => g2 e.symm
            have hj : ¬ r.1 < j := by omega
            have hj2 : ¬ r.1 = j := by omega
            simp [g1, g2, this, hj, hj2]

theorem gLookup_mem (j : Nat) : ∀ (rs : List (Nat × MFactor)) (f : MFactor), gLookup j rs = some f → ∃ i, (i, f) ∈ rs
  | [], f, h => by simp [gLookup] at h
  | r :: rs, f, h => by
    simp only [gLookup] at h
    split at h
    · obtain ⟨i, hi⟩ := gLookup_mem j rs f h
      exact ⟨i, List.mem_cons_of_mem _ hi⟩
    · split at h
      · injection h with h; exact ⟨r.1, by rw [← h]; exact List.mem_cons_self ..⟩
      · simp at h

/-- every stored factor is non-empty with vectors of `n` objectives -/
def GoodG (n : Nat) (G : List (GNode MFactor)) : Prop := ∀ nd ∈ G, ∀ r ∈ nd.rules, GoodF n r.2

theorem good_SelG (n : Nat) (A a : List Nat) (G : List (GNode MFactor)) (hG : GoodG n G) : ∀ f ∈ SelG A a G, GoodF n f := by
  intro f hf
  simp only [SelG, List.mem_filterMap] at hf
  obtain ⟨nd, hnd, hl⟩ := hf
  obtain ⟨i, hi⟩ := gLookup_mem _ _ _ hl
  exact hG nd hnd (i, f) hi

theorem mem_gMergeRule (id : Nat) (f : MFactor) : ∀ (rs : List (Nat × MFactor)) (r : Nat × MFactor),
    r ∈ gMergeRule mcb id f rs → r ∈ rs ∨ r.2 = f ∨ ∃ o, (∃ i, (i, o) ∈ rs) ∧ r.2 = mCrossSumF o f
  | [], r, h => by simp [gMergeRule] at h; exact Or.inr (Or.inl (by rw [h]))
  | x :: rs, r, h => by
    simp only [gMergeRule] at h
    split at h
    · rcases List.mem_cons.mp h with h | h
      · exact Or.inl (by rw [h]; exact List.mem_cons_self ..)
      · rcases mem_gMergeRule id f rs r h with h | h | ⟨o, ⟨i, hi⟩, ho⟩
        · exact Or.inl (List.mem_cons_of_mem _ h)
        · exact Or.inr (Or.inl h)
        · exact Or.inr (Or.inr ⟨o, ⟨i, List.mem_cons_of_mem _ hi⟩, ho⟩)
    · split at h
      · rcases List.mem_cons.mp h with h | h
        · exact Or.inr (Or.inr ⟨x.2, ⟨x.1, List.mem_cons_self ..⟩, by rw [h]; rfl⟩)
        · exact Or.inl (List.mem_cons_of_mem _ h)
      · rcases List.mem_cons.mp h with h | h
        · exact Or.inr (Or.inl (by rw [h]))
        · exact Or.inl h

theorem good_gAddToNode (n : Nat) (nb : List Nat) (id : Nat) (f : MFactor) (hf : GoodF n f) : ∀ (G : List (GNode MFactor)),
    GoodG n G → GoodG n (gAddToNode mcb nb id f G)
  | [], _ => by
    intro nd hnd r hr
    simp only [gAddToNode, List.mem_singleton] at hnd
    subst hnd
    simp only [List.mem_singleton] at hr
    subst hr; exact hf
  | x :: G, hG => by
    intro nd hnd r hr
    simp only [gAddToNode] at hnd
    split at hnd
    · rcases List.mem_cons.mp hnd with h | h
      · subst h
        rcases mem_gMergeRule id f x.rules r hr with h | h | ⟨o, ⟨i, hi⟩, ho⟩
        · exact hG x (List.mem_cons_self ..) r h
        · rw [h]; exact hf
        · rw [ho]; exact good_cross n o f (hG x (List.mem_cons_self ..) (i, o) hi) hf
      · exact hG nd (List.mem_cons_of_mem _ h) r hr
    · rcases List.mem_cons.mp hnd with h | h
      · subst h; exact hG nd (List.mem_cons_self ..) r hr
      · exact good_gAddToNode n nb id f hf G (fun nd' h' => hG nd' (List.mem_cons_of_mem _ h')) nd h r hr

/-! ## sums are insensitive to the order of the factors -/

theorem mem_sums_congr_right (w : Vec) (H T T' : List (List Vec)) (h : ∀ u, u ∈ sums T ↔ u ∈ sums T') :
    w ∈ sums (H ++ T) ↔ w ∈ sums (H ++ T') := by
  rw [mem_sums_comm w H T, mem_sums_comm w H T']
  exact mem_sums_congr_left w T T' H h

theorem mem_sums_swap (w : Vec) (H K T : List (List Vec)) : w ∈ sums (H ++ (K ++ T)) ↔ w ∈ sums (K ++ (H ++ T)) := by
  rw [← List.append_assoc, ← List.append_assoc]
  exact mem_sums_congr_left w (H ++ K) (K ++ H) T (fun u => mem_sums_comm u H K)

/-- **adding a rule to the neighbours' node** (`mergeFactors` on collision): at the joint actions whose neighbour index is
    `id` one more factor takes part in the sums; elsewhere nothing changes -/
theorem sums_gAddToNode (n : Nat) (A a nb : List Nat) (id : Nat) (f : MFactor) (hf : GoodF n f) :
    ∀ (G : List (GNode MFactor)), GoodG n G → ∀ (R : List (List Vec)) (w : Vec),
      w ∈ sums ((SelG A a (gAddToNode mcb nb id f G)).map den ++ R)
        ↔ w ∈ sums ((if toIndexPartial nb A a = id then [den f] else []) ++ ((SelG A a G).map den ++ R))
  | [], _, R, w => by
    simp only [gAddToNode, SelG, List.filterMap_cons, List.filterMap_nil, gLookup]
    by_cases e : toIndexPartial nb A a = id
    · have h1 : ¬ id < toIndexPartial nb A a := by omega
      simp [e]
    · by_cases h1 : id < toIndexPartial nb A a
      · simp [e, h1]
      · have h2 : ¬ id = toIndexPartial nb A a := fun h => e h.symm
        simp [e, h1, h2]
  | x :: G, hG, R, w => by
    have hGt : GoodG n G := fun nd' h' => hG nd' (List.mem_cons_of_mem _ h')
    simp only [gAddToNode]
    by_cases hk : x.keys = nb
    · subst hk
      simp only [beq_self_eq_true, if_true, SelG, List.filterMap_cons, gLookup_gMergeRule]
      by_cases e : toIndexPartial x.keys A a = id
      · simp only [e, if_true]
        cases ho : gLookup id x.rules with
        | none => simp
        | some o =>
          obtain ⟨i, hi⟩ := gLookup_mem _ _ _ ho
          have hgo : GoodF n o := hG x (List.mem_cons_self ..) (i, o) hi
          simp only [List.map_cons, List.cons_append, List.nil_append]
          rw [mem_sums_merge n o f hgo hf]
          have := mem_sums_swap w [den o] [den f] (List.map den (List.filterMap (fun nd => gLookup (toIndexPartial nd.keys A a) nd.rules) G) ++ R)
          simpa using this
      · simp only [e, if_false, List.nil_append]
    · have hk' : (x.keys == nb) = false := by simpa using hk
      simp only [hk', Bool.false_eq_true, if_false, SelG, List.filterMap_cons]
      have ih := sums_gAddToNode n A a nb id f hf G hGt R
      cases hx : gLookup (toIndexPartial x.keys A a) x.rules with
      | none => simpa [SelG] using ih w
      | some o =>
        simp only [List.map_cons, List.cons_append]
        have e1 := mem_sums_congr_right w [den o]
          ((SelG A a (gAddToNode mcb nb id f G)).map den ++ R)
          ((if toIndexPartial nb A a = id then [den f] else []) ++ ((SelG A a G).map den ++ R)) ih
        have e2 := mem_sums_swap w [den o] (if toIndexPartial nb A a = id then [den f] else []) ((SelG A a G).map den ++ R)
        simp only [SelG, List.singleton_append] at e1 e2
        rw [e1, e2]

/-! ## the loop over the neighbours' joint values, without the callback state -/

/-- the factor `removeFactor` creates for the joint value with index `j` (tags included) -/
def NE (A : List Nat) (n : Nat) (nb : List Nat) (v : Nat) (factors : List (GNode MFactor)) (j : Nat) : MFactor :=
  newEntries A n nb (toFactors (sel nb A) j) v factors 0 (A.getD v 0)

def pLoop (A : List Nat) (n : Nat) (nb : List Nat) (v : Nat) (factors : List (GNode MFactor)) :
    Nat → Nat → List (GNode MFactor) × List MFactor → List (GNode MFactor) × List MFactor
  | 0, _, p => p
  | cnt+1, j, p =>
    pLoop A n nb v factors cnt (j+1)
      (if (NE A n nb v factors j).isEmpty then p
       else if nb.isEmpty then (p.1, p.2 ++ [NE A n nb v factors j])
       else (gAddToNode mcb nb j (NE A n nb v factors j) p.1, p.2))

theorem gRemoveLoop_pure (A : List Nat) (n : Nat) (nb : List Nat) (v : Nat) (factors : List (GNode MFactor)) :
    ∀ (cnt j : Nat) (st : GState MFactor MGlob), st.glob.agent = v →
      ((gRemoveLoop mcb A n nb v factors cnt j st).graph, (gRemoveLoop mcb A n nb v factors cnt j st).finals)
        = pLoop A n nb v factors cnt j (st.graph, st.finals) ∧
      (gRemoveLoop mcb A n nb v factors cnt j st).glob.agent = v
  | 0, _, st, h => ⟨rfl, h⟩
  | cnt+1, j, st, h => by
    have hinit : (mcb.initNewFactor st.glob).agent = v := h
    have hnf0 : (mcb.initNewFactor st.glob).newFactor = [] := rfl
    obtain ⟨g1, g2⟩ := gOver_move A n nb (toFactors (sel nb A) j) v factors (A.getD v 0) 0 _ hinit
    rw [hnf0, List.nil_append] at g1
    simp only [gRemoveLoop, pLoop]
    have hvalid : mcb.isValidNewFactor (gOverActions mcb A n nb (toFactors (sel nb A) j) v factors (A.getD v 0) 0 (mcb.initNewFactor st.glob))
        = !(NE A n nb v factors j).isEmpty := by
      show (!(gOverActions mcb A n nb (toFactors (sel nb A) j) v factors (A.getD v 0) 0 (mcb.initNewFactor st.glob)).newFactor.isEmpty) = _
      rw [g1]; rfl
    have hnew : mcb.newFactor (gOverActions mcb A n nb (toFactors (sel nb A) j) v factors (A.getD v 0) 0 (mcb.initNewFactor st.glob))
        = NE A n nb v factors j := g1
    rw [hvalid, hnew]
    by_cases he : (NE A n nb v factors j).isEmpty = true
    · simp only [he, Bool.not_true, Bool.false_eq_true, if_false, if_true]
      exact gRemoveLoop_pure A n nb v factors cnt (j+1) _ g2
    · have he' : (NE A n nb v factors j).isEmpty = false := by simpa using he
      simp only [he', Bool.not_false, if_true, Bool.false_eq_true, if_false]
      by_cases hn : nb.isEmpty = true
      · simp only [hn, if_true]
        exact gRemoveLoop_pure A n nb v factors cnt (j+1) _ g2
      · have hn' : nb.isEmpty = false := by simpa using hn
        simp only [hn', Bool.false_eq_true, if_false]
        exact gRemoveLoop_pure A n nb v factors cnt (j+1) _ g2

/-- `removeFactor` on (graph, final factors) -/
def pRemoveVar (A : List Nat) (n v : Nat) (p : List (GNode MFactor) × List MFactor) : List (GNode MFactor) × List MFactor :=
  let factors := p.1.filter (fun nd => nd.keys.contains v)
  let nb := nbrs n v (p.1.map (·.keys))
  let g := if nb.isEmpty || p.1.any (fun nd => nd.keys == nb) then p.1 else p.1 ++ [⟨nb, []⟩]
  let r := pLoop A n nb v factors (spacePartial nb A) 0 (g, p.2)
  (r.1.filter (fun nd => !nd.keys.contains v), r.2)

theorem gRemoveVar_pure (A : List Nat) (n v : Nat) (st : GState MFactor MGlob) :
    ((gRemoveVar mcb A n v st).graph, (gRemoveVar mcb A n v st).finals) = pRemoveVar A n v (st.graph, st.finals) := by
  simp only [gRemoveVar, pRemoveVar]
  have := (gRemoveLoop_pure A n (nbrs n v (st.graph.map (·.keys))) v (st.graph.filter (fun nd => nd.keys.contains v))
    (spacePartial (nbrs n v (st.graph.map (·.keys))) A) 0
    { st with graph := (if (nbrs n v (st.graph.map (·.keys))).isEmpty || st.graph.any (fun nd => nd.keys == nbrs n v (st.graph.map (·.keys))) then st.graph else st.graph ++ [⟨nbrs n v (st.graph.map (·.keys)), []⟩]),
              glob := mcb.beginRemoval st.graph (st.graph.filter (fun nd => nd.keys.contains v)) v st.glob } rfl).1
  have h1 := congrArg Prod.fst this
  have h2 := congrArg Prod.snd this
  simp only at h1 h2
  rw [← h1, ← h2]

def pGLoop (A : List Nat) (n : Nat) : Nat → List Nat → List (GNode MFactor) × List MFactor → List (GNode MFactor) × List MFactor
  | 0, _, p => p
  | _, [], p => p
  | fuel+1, active, p =>
    let v := bestVar A n active (p.1.map (·.keys))
    pGLoop A n fuel (active.filter (· != v)) (pRemoveVar A n v p)

theorem gLoop_pure (A : List Nat) (n : Nat) : ∀ (fuel : Nat) (active : List Nat) (st : GState MFactor MGlob),
    ((gLoop mcb A n fuel active st).graph, (gLoop mcb A n fuel active st).finals) = pGLoop A n fuel active (st.graph, st.finals)
  | 0, _, _ => rfl
  | fuel+1, [], _ => rfl
  | fuel+1, x :: xs, st => by
    simp only [gLoop, pGLoop]
    rw [gLoop_pure A n fuel _ (gRemoveVar mcb A n _ st), gRemoveVar_pure]

theorem moveRun_pure (A : List Nat) (rules : List MRuleT) :
    moveRun A rules = mFinalCross (pGLoop A A.length A.length (List.range A.length) (mInit A rules [], [])).2 := by
  simp only [moveRun, moveRunWith, gRun]
  have := congrArg Prod.snd (gLoop_pure A A.length A.length (List.range A.length) ⟨mInit A rules [], [], {}⟩)
  simp only at this
  rw [← this]

/-! ## what the joint-value loop does to the sums -/

theorem uniform_crossSel (n : Nat) (fs : List MFactor) (h : ∀ f ∈ fs, GoodF n f) : Uniform n (crossSel fs) := by
  cases fs with
  | nil => intro e he; simp [crossSel] at he
  | cons f fs =>
    exact (crossSel_spec n f fs (h f (List.mem_cons_self ..)) (fun g hg => h g (List.mem_cons_of_mem _ hg))).1.2

theorem uniform_NE (n : Nat) (A : List Nat) (m : Nat) (nb : List Nat) (v : Nat) (factors : List (GNode MFactor))
    (hG : GoodG n factors) (j : Nat) : Uniform n (NE A m nb v factors j) := by
  intro e he
  simp only [NE, newEntries, List.mem_flatMap, List.mem_map] at he
  obtain ⟨k, _, e', he', rfl⟩ := he
  exact uniform_crossSel n _ (good_SelG n A _ factors hG) e' he'

theorem filterNot_gAddToNode (v : Nat) (nb : List Nat) (id : Nat) (f : MFactor) (hv : nb.contains v = false) :
    ∀ (G : List (GNode MFactor)),
      (gAddToNode mcb nb id f G).filter (fun nd => !nd.keys.contains v)
        = gAddToNode mcb nb id f (G.filter (fun nd => !nd.keys.contains v))
  | [] => by simp only [gAddToNode, List.filter, hv, Bool.not_false]
  | nd :: G => by
    by_cases h : nd.keys = nb
    · have hc : nd.keys.contains v = false := by rw [h]; exact hv
      have h' : (nd.keys == nb) = true := by simpa using h
      simp only [gAddToNode, h', if_true, List.filter, hc, hv, Bool.not_false]
    · have h' : (nd.keys == nb) = false := by simpa using h
      by_cases hc : nd.keys.contains v = true
      · simp only [gAddToNode, h', Bool.false_eq_true, if_false, List.filter, hc, Bool.not_true,
                   filterNot_gAddToNode v nb id f hv G]
      · have hc' : nd.keys.contains v = false := by simpa using hc
        simp only [gAddToNode, h', Bool.false_eq_true, if_false, List.filter, hc', Bool.not_false,
                   filterNot_gAddToNode v nb id f hv G]

theorem pLoop_succ (A : List Nat) (n : Nat) (nb : List Nat) (v : Nat) (factors : List (GNode MFactor)) (cnt j : Nat)
    (p : List (GNode MFactor) × List MFactor) :
    pLoop A n nb v factors (cnt+1) j p = pLoop A n nb v factors cnt (j+1)
      (if (NE A n nb v factors j).isEmpty then p
       else if nb.isEmpty then (p.1, p.2 ++ [NE A n nb v factors j])
       else (gAddToNode mcb nb j (NE A n nb v factors j) p.1, p.2)) := rfl

theorem pLoop_filterNot (A : List Nat) (n : Nat) (nb : List Nat) (v : Nat) (factors : List (GNode MFactor))
    (hv : nb.contains v = false) : ∀ (cnt j : Nat) (G : List (GNode MFactor)) (Fs : List MFactor),
      (pLoop A n nb v factors cnt j (G, Fs)).1.filter (fun nd => !nd.keys.contains v)
        = (pLoop A n nb v factors cnt j (G.filter (fun nd => !nd.keys.contains v), Fs)).1 ∧
      (pLoop A n nb v factors cnt j (G, Fs)).2 = (pLoop A n nb v factors cnt j (G.filter (fun nd => !nd.keys.contains v), Fs)).2
  | 0, _, _, _ => ⟨rfl, rfl⟩
  | cnt+1, j, G, Fs => by
    rw [pLoop_succ, pLoop_succ]
    by_cases he : (NE A n nb v factors j).isEmpty = true
    · simp only [he, if_true]; exact pLoop_filterNot A n nb v factors hv cnt (j+1) G Fs
    · have he' : (NE A n nb v factors j).isEmpty = false := by simpa using he
      simp only [he', Bool.false_eq_true, if_false]
      by_cases hn : nb.isEmpty = true
      · simp only [hn, if_true]; exact pLoop_filterNot A n nb v factors hv cnt (j+1) G _
      · have hn' : nb.isEmpty = false := by simpa using hn
        simp only [hn', Bool.false_eq_true, if_false]
        have := pLoop_filterNot A n nb v factors hv cnt (j+1) (gAddToNode mcb nb j (NE A n nb v factors j) G) Fs
        rw [filterNot_gAddToNode v nb j _ hv G] at this
        exact this

/-- neighbours non-empty: the new rules go into the neighbours' node; for the joint action `a` only the rule created
    for `a`'s own neighbour index takes part -/
theorem pLoop_sums (n : Nat) (A a : List Nat) (m : Nat) (nb : List Nat) (v : Nat) (factors : List (GNode MFactor))
    (hfac : GoodG n factors) (hne : nb.isEmpty = false) :
    ∀ (cnt j0 : Nat) (G : List (GNode MFactor)) (Fs : List MFactor), GoodG n G →
      (pLoop A m nb v factors cnt j0 (G, Fs)).2 = Fs ∧ GoodG n (pLoop A m nb v factors cnt j0 (G, Fs)).1 ∧
      ∀ (R : List (List Vec)) (w : Vec),
        w ∈ sums ((SelG A a (pLoop A m nb v factors cnt j0 (G, Fs)).1).map den ++ R)
          ↔ w ∈ sums ((if j0 ≤ toIndexPartial nb A a ∧ toIndexPartial nb A a < j0 + cnt ∧
                          (NE A m nb v factors (toIndexPartial nb A a)).isEmpty = false
                       then [den (NE A m nb v factors (toIndexPartial nb A a))] else [])
                      ++ ((SelG A a G).map den ++ R))
  | 0, j0, G, Fs, hG => by
    refine ⟨rfl, hG, ?_⟩
    intro R w
    have : ¬ (j0 ≤ toIndexPartial nb A a ∧ toIndexPartial nb A a < j0 + 0 ∧
        (NE A m nb v factors (toIndexPartial nb A a)).isEmpty = false) := by omega
    simp only [pLoop, this, if_false, List.nil_append]
  | cnt+1, j0, G, Fs, hG => by
    rw [pLoop_succ]
    by_cases he : (NE A m nb v factors j0).isEmpty = true
    · simp only [he, if_true]
      obtain ⟨h1, h2, h3⟩ := pLoop_sums n A a m nb v factors hfac hne cnt (j0+1) G Fs hG
      refine ⟨h1, h2, ?_⟩
      intro R w
      rw [h3 R w]
      by_cases c : j0 + 1 ≤ toIndexPartial nb A a ∧ toIndexPartial nb A a < j0 + 1 + cnt ∧
          (NE A m nb v factors (toIndexPartial nb A a)).isEmpty = false
      · have c' : j0 ≤ toIndexPartial nb A a ∧ toIndexPartial nb A a < j0 + (cnt + 1) ∧
            (NE A m nb v factors (toIndexPartial nb A a)).isEmpty = false := ⟨by omega, by omega, c.2.2⟩
        simp only [c, c', and_self, if_true]
      · have c' : ¬ (j0 ≤ toIndexPartial nb A a ∧ toIndexPartial nb A a < j0 + (cnt + 1) ∧
            (NE A m nb v factors (toIndexPartial nb A a)).isEmpty = false) := by
          rintro ⟨c1, c2, c3⟩
          by_cases e : toIndexPartial nb A a = j0
          · rw [e, he] at c3; exact absurd c3 (by simp)
          · exact c ⟨by omega, by omega, c3⟩
        simp only [c, c', if_false]
    · have he' : (NE A m nb v factors j0).isEmpty = false := by simpa using he
      simp only [he', Bool.false_eq_true, if_false, hne]
      have hgood : GoodF n (NE A m nb v factors j0) :=
        ⟨fun h => by rw [h] at he'; simp at he', uniform_NE n A m nb v factors hfac j0⟩
      have hG' := good_gAddToNode n nb j0 _ hgood G hG
      obtain ⟨h1, h2, h3⟩ := pLoop_sums n A a m nb v factors hfac hne cnt (j0+1) _ Fs hG'
      refine ⟨h1, h2, ?_⟩
      intro R w
      rw [h3 R w]
      have hadd := sums_gAddToNode n A a nb j0 _ hgood G hG
      by_cases e : toIndexPartial nb A a = j0
      · have hw := hadd R w
        rw [e] at hw ⊢
        have c : ¬ (j0 + 1 ≤ j0 ∧ j0 < j0 + 1 + cnt ∧ (NE A m nb v factors j0).isEmpty = false) := by omega
        have c' : j0 ≤ j0 ∧ j0 < j0 + (cnt + 1) ∧ (NE A m nb v factors j0).isEmpty = false := ⟨le_refl _, by omega, he'⟩
        rw [if_neg c, if_pos c', List.nil_append, hw, if_pos rfl]
      · have hnot : ¬ (toIndexPartial nb A a = j0) := e
        by_cases c : j0 + 1 ≤ toIndexPartial nb A a ∧ toIndexPartial nb A a < j0 + 1 + cnt ∧
            (NE A m nb v factors (toIndexPartial nb A a)).isEmpty = false
        · have c' : j0 ≤ toIndexPartial nb A a ∧ toIndexPartial nb A a < j0 + (cnt + 1) ∧
              (NE A m nb v factors (toIndexPartial nb A a)).isEmpty = false := ⟨by omega, by omega, c.2.2⟩
          simp only [c, c', and_self, if_true]
          apply mem_sums_congr_right
          intro u
          rw [hadd R u]; simp only [hnot, if_false, List.nil_append]
        · have c' : ¬ (j0 ≤ toIndexPartial nb A a ∧ toIndexPartial nb A a < j0 + (cnt + 1) ∧
              (NE A m nb v factors (toIndexPartial nb A a)).isEmpty = false) := by
            rintro ⟨c1, c2, c3⟩; exact c ⟨by omega, by omega, c3⟩
          simp only [c, c', if_false, List.nil_append]
          rw [hadd R w]; simp only [hnot, if_false, List.nil_append]

/-! ## one `removeFactor` of MOVE at table level = one semantic elimination step -/

/-- the factors the joint action `a` selects, as lists of value vectors: nodes first, then the final factors -/
def Mean (A a : List Nat) (p : List (GNode MFactor) × List MFactor) : List (List Vec) :=
  (SelG A a p.1).map den ++ p.2.map den

/-- fully specified: every joint value of a node's agents has a rule -/
def FullG (A : List Nat) (G : List (GNode MFactor)) : Prop :=
  ∀ nd ∈ G, ∀ a, Valid A a → (gLookup (toIndexPartial nd.keys A a) nd.rules).isSome = true

def GKeysG (n : Nat) (G : List (GNode MFactor)) : Prop := ∀ nd ∈ G, ∀ u ∈ nd.keys, u < n

theorem SelG_congr (A l1 l2 : List Nat) : ∀ (G : List (GNode MFactor)),
    (∀ nd ∈ G, ∀ u ∈ nd.keys, l1.getD u 0 = l2.getD u 0) → SelG A l1 G = SelG A l2 G
  | [], _ => rfl
  | nd :: G, h => by
    simp only [SelG, List.filterMap_cons, toIndexPartial]
    rw [sel_congr nd.keys l1 l2 (h nd (List.mem_cons_self ..))]
    have := SelG_congr A l1 l2 G (fun nd' h' => h nd' (List.mem_cons_of_mem _ h'))
    simp only [SelG, toIndexPartial] at this
    rw [this]

theorem SelG_length_full (A a : List Nat) (ha : Valid A a) : ∀ (G : List (GNode MFactor)), FullG A G →
    (SelG A a G).length = G.length
  | [], _ => rfl
  | nd :: G, h => by
    have h1 := h nd (List.mem_cons_self ..) a ha
    have ih := SelG_length_full A a ha G (fun nd' h' => h nd' (List.mem_cons_of_mem _ h'))
    simp only [SelG, List.filterMap_cons] at ih ⊢
    cases hl : gLookup (toIndexPartial nd.keys A a) nd.rules with
    | none => rw [hl] at h1; simp at h1
    | some f => simp [ih]

theorem sums_SelG_split (A a : List Nat) (p : GNode MFactor → Bool) : ∀ (G : List (GNode MFactor)) (R : List (List Vec)) (w : Vec),
    w ∈ sums ((SelG A a G).map den ++ R)
      ↔ w ∈ sums ((SelG A a (G.filter p)).map den ++ ((SelG A a (G.filter (fun nd => !p nd))).map den ++ R))
  | [], _, _ => by simp [SelG]
  | nd :: G, R, w => by
    have ih := sums_SelG_split A a p G R
    by_cases hp : p nd = true
    · simp only [SelG, List.filter, hp, Bool.not_true, List.filterMap_cons] at ih ⊢
      cases gLookup (toIndexPartial nd.keys A a) nd.rules with
      | none => exact ih w
      | some f =>
        simp only [List.map_cons, List.cons_append]
        exact mem_sums_congr_right w [den f] _ _ ih
    · have hp' : p nd = false := by simpa using hp
      simp only [SelG, List.filter, hp', Bool.not_false, List.filterMap_cons] at ih ⊢
      cases gLookup (toIndexPartial nd.keys A a) nd.rules with
      | none => exact ih w
      | some f =>
        simp only [List.map_cons, List.cons_append]
        have e1 := mem_sums_congr_right w [den f] _ _ ih
        simp only [List.singleton_append] at e1
        rw [e1]
        have e2 := mem_sums_swap w [den f]
          (List.map den (List.filterMap (fun nd => gLookup (toIndexPartial nd.keys A a) nd.rules) (List.filter p G)))
          (List.map den (List.filterMap (fun nd => gLookup (toIndexPartial nd.keys A a) nd.rules) (List.filter (fun nd => !p nd) G)) ++ R)
        simpa using e2

/-- the joint value enumerated for `a`'s neighbour index, with `v ↦ k`, agrees with `a[v := k]` on every adjacent node -/
theorem jv_agreeG (A a : List Nat) (v k : Nat) (G : List (GNode MFactor)) (ha : Valid A a) (hv : v < A.length)
    (hk : GKeysG A.length G) :
    ∀ nd ∈ G.filter (fun nd => nd.keys.contains v), ∀ u ∈ nd.keys,
      (listOf A.length (jvAsg (nbrs A.length v (G.map (·.keys)))
          (toFactors (sel (nbrs A.length v (G.map (·.keys))) A) (toIndexPartial (nbrs A.length v (G.map (·.keys))) A a)) v k)).getD u 0
        = (setAt a v k).getD u 0 := by
  obtain ⟨nb, hnb⟩ : ∃ nb, nb = nbrs A.length v (G.map (·.keys)) := ⟨_, rfl⟩
  rw [← hnb]
  have hnbn : ∀ u ∈ nb, u < A.length := by
    intro u hu; rw [hnb] at hu; exact ((mem_nbrs _ _ _ _).mp hu).1
  have hjv : toFactors (sel nb A) (toIndexPartial nb A a) = sel nb a :=
    (toFactors_toIndexLoop _ _ (valid_sel A a ha nb hnbn)).1
  rw [hjv]
  intro nd hnd u hu
  obtain ⟨hndg, hndv⟩ := List.mem_filter.mp hnd
  have hun : u < A.length := hk nd hndg u hu
  have hl := asgOf_listOf A.length (jvAsg nb (sel nb a) v k) u hun
  simp only [asgOf] at hl
  rw [hl, getD_setAt a v k u (by rw [valid_len A a ha]; exact hv)]
  by_cases e : u = v
  · simp [jvAsg, e]
  · have hunb : u ∈ nb := by
      rw [hnb, mem_nbrs]
      exact ⟨hun, e, nd.keys, List.mem_map.mpr ⟨nd, hndg, rfl⟩, List.contains_iff_mem.mp hndv, hu⟩
    simp only [jvAsg, e, if_false, find_zip_sel a u nb hunb]

theorem setAt_rest_agreeG (a : List Nat) (v k : Nat) (G : List (GNode MFactor)) (hv : v < a.length) :
    ∀ nd ∈ G.filter (fun nd => !nd.keys.contains v), ∀ u ∈ nd.keys, (setAt a v k).getD u 0 = a.getD u 0 := by
  intro nd hnd u hu
  have hnv := (List.mem_filter.mp hnd).2
  have : u ≠ v := by
    intro e; subst e
    simp at hnv
    exact hnv hu
  rw [getD_setAt a v k u hv]; simp [this]

theorem good_filter (n : Nat) (G : List (GNode MFactor)) (p : GNode MFactor → Bool) (h : GoodG n G) : GoodG n (G.filter p) :=
  fun nd hnd => h nd (List.mem_filter.mp hnd).1

theorem full_filter (A : List Nat) (G : List (GNode MFactor)) (p : GNode MFactor → Bool) (h : FullG A G) : FullG A (G.filter p) :=
  fun nd hnd => h nd (List.mem_filter.mp hnd).1

/-- **`move_table_step`** — one `removeFactor(v)` of MultiObjectiveVariableElimination on the table-level state (sorted rule
    vectors, `lower_bound` lookups, `crossSumF`, `mergeFactors`, tags) acts on the value vectors exactly like the semantic
    elimination step (`mem_eliminateS`): the sums reachable from `a` afterwards are those reachable from `a[v:=k]` before,
    over all actions `k` of `v` — PROVIDED the tables are fully specified (`FullG`), which is what rules out an agent action
    matched by no rule (the open finding). -/
theorem move_table_step (n : Nat) (A a : List Nat) (v : Nat) (G : List (GNode MFactor)) (Fs : List MFactor)
    (ha : Valid A a) (hv : v < A.length) (hpos : 0 < A.getD v 0)
    (hG : GoodG n G) (hk : GKeysG A.length G) (hfull : FullG A G) (w : Vec) :
    w ∈ sums (Mean A a (pRemoveVar A A.length v (G, Fs)))
      ↔ ∃ k, k < A.getD v 0 ∧ w ∈ sums (Mean A (setAt a v k) (G, Fs)) := by
  obtain ⟨nb, hnb⟩ : ∃ nb, nb = nbrs A.length v (G.map (·.keys)) := ⟨_, rfl⟩
  obtain ⟨factors, hfac⟩ : ∃ f, f = G.filter (fun nd => nd.keys.contains v) := ⟨_, rfl⟩
  have hnv : nb.contains v = false := by rw [hnb]; exact nbrs_not_self _ _ _
  have hnbn : ∀ u ∈ nb, u < A.length := by
    intro u hu; rw [hnb] at hu; exact ((mem_nbrs _ _ _ _).mp hu).1
  have hal : v < a.length := by rw [valid_len A a ha]; exact hv
  have hfacG : GoodG n factors := by rw [hfac]; exact good_filter n G _ hG
  have hfacF : FullG A factors := by rw [hfac]; exact full_filter A G _ hfull
  -- the right-hand side, regrouped
  have hR : ∀ k, w ∈ sums (Mean A (setAt a v k) (G, Fs)) ↔
      w ∈ sums ((SelG A (setAt a v k) factors).map den ++
                ((SelG A a (G.filter (fun nd => !nd.keys.contains v))).map den ++ Fs.map den)) := by
    intro k
    simp only [Mean]
    rw [sums_SelG_split A (setAt a v k) (fun nd => nd.keys.contains v) G, ← hfac,
        SelG_congr A (setAt a v k) a _ (setAt_rest_agreeG a v k G hal)]
  -- selected adjacent factors for action k
  have hsel : ∀ k, SelG A (listOf A.length (jvAsg nb (toFactors (sel nb A) (toIndexPartial nb A a)) v k)) factors
      = SelG A (setAt a v k) factors := by
    intro k
    apply SelG_congr
    have := jv_agreeG A a v k G ha hv hk
    rw [← hnb, ← hfac] at this
    exact this
  by_cases hempty : factors = []
  · -- no rule mentions `v`: nothing happens, and `a[v:=k]` selects the same factors as `a`
    have hnil : nb = [] := by
      rw [hnb]
      apply List.eq_nil_iff_forall_not_mem.mpr
      intro u hu
      obtain ⟨_, _, s, hs, hvs, _⟩ := (mem_nbrs _ _ _ _).mp hu
      obtain ⟨nd, hnd, rfl⟩ := List.mem_map.mp hs
      have : nd ∈ factors := by rw [hfac]; exact List.mem_filter.mpr ⟨hnd, List.contains_iff_mem.mpr hvs⟩
      rw [hempty] at this; simp at this
    have hNE : ∀ j, NE A A.length nb v factors j = [] := by
      intro j
      simp [NE, newEntries, hempty, SelG, crossSel]
    have hres : pRemoveVar A A.length v (G, Fs) = (G.filter (fun nd => !nd.keys.contains v), Fs) := by
      simp only [pRemoveVar, ← hnb, ← hfac, hnil, List.isEmpty_nil, Bool.true_or, if_true]
      have hcnt : spacePartial ([] : List Nat) A = 1 := by simp [spacePartial, sel, space]
      rw [hcnt, pLoop_succ]
      have h0 : (NE A A.length [] v factors 0).isEmpty = true := by
        have := hNE 0; rw [hnil] at this; rw [this]; rfl
      simp only [h0, if_true, pLoop]
    rw [hres]
    have hL : w ∈ sums (Mean A a (G.filter (fun nd => !nd.keys.contains v), Fs)) ↔
        w ∈ sums ((SelG A a (G.filter (fun nd => !nd.keys.contains v))).map den ++ Fs.map den) := Iff.rfl
    rw [hL]
    constructor
    · intro h
      refine ⟨0, hpos, ?_⟩
      rw [hR 0, hempty]; simpa [SelG] using h
    · rintro ⟨k, _, h⟩
      rw [hR k, hempty] at h; simpa [SelG] using h
  · -- at least one adjacent node: every action of `v` selects one (non-empty, uniform) factor per adjacent node
    have hSk : ∀ k, k < A.getD v 0 → ∃ f fs, SelG A (setAt a v k) factors = f :: fs ∧ GoodF n f ∧ ∀ g ∈ fs, GoodF n g := by
      intro k hk'
      have hvalid := valid_setAt A a v k ha hk' hv
      have hlen := SelG_length_full A _ hvalid factors hfacF
      have hgood := good_SelG n A (setAt a v k) factors hfacG
      cases hs : SelG A (setAt a v k) factors with
      | nil => rw [hs] at hlen; simp at hlen; exact absurd hlen.symm (by simpa using hempty)
      | cons f fs => rw [hs] at hgood; exact ⟨f, fs, rfl, hgood f (List.mem_cons_self ..), fun g hg => hgood g (List.mem_cons_of_mem _ hg)⟩
    have hkey : ∀ k, k < A.getD v 0 → ∀ (R : List (List Vec)) (u : Vec),
        u ∈ sums (den (crossSel (SelG A (setAt a v k) factors)) :: R) ↔ u ∈ sums ((SelG A (setAt a v k) factors).map den ++ R) := by
      intro k hk' R u
      obtain ⟨f, fs, hs, hf, hfs⟩ := hSk k hk'
      rw [hs]; exact (crossSel_spec n f fs hf hfs).2 R u
    have hNEden : den (NE A A.length nb v factors (toIndexPartial nb A a))
        = (List.range' 0 (A.getD v 0)).flatMap (fun k => den (crossSel (SelG A (setAt a v k) factors))) := by
      simp only [NE, den_newEntries, hsel]
    have hNEne : (NE A A.length nb v factors (toIndexPartial nb A a)).isEmpty = false := by
      have hd : den (NE A A.length nb v factors (toIndexPartial nb A a)) ≠ [] := by
        rw [hNEden]
        obtain ⟨f, fs, hs, hf, hfs⟩ := hSk 0 hpos
        have hc := (crossSel_spec n f fs hf hfs).1.1
        intro hnil
        have hmem : ∀ x ∈ den (crossSel (SelG A (setAt a v 0) factors)), False := by
          intro x hx
          have : x ∈ (List.range' 0 (A.getD v 0)).flatMap (fun k => den (crossSel (SelG A (setAt a v k) factors))) :=
            List.mem_flatMap.mpr ⟨0, by simp [List.mem_range'_1]; exact hpos, hx⟩
          rw [hnil] at this; simp at this
        rw [hs] at hmem
        cases hcs : crossSel (f :: fs) with
        | nil => exact hc hcs
        | cons e es => exact hmem (toV e.vals) (by simp [den, hcs])
      cases hN : NE A A.length nb v factors (toIndexPartial nb A a) with
      | nil => rw [hN] at hd; simp [den] at hd
      | cons _ _ => rfl
    -- the left-hand side: in both cases the new factor joins the factors not adjacent to `v`
    have hL : w ∈ sums (Mean A a (pRemoveVar A A.length v (G, Fs))) ↔
        w ∈ sums ([den (NE A A.length nb v factors (toIndexPartial nb A a))] ++
                  ((SelG A a (G.filter (fun nd => !nd.keys.contains v))).map den ++ Fs.map den)) := by
      simp only [pRemoveVar, Mean, ← hnb, ← hfac]
      by_cases hne : nb.isEmpty = true
      · have hnil : nb = [] := List.isEmpty_iff.mp hne
        have hcnt : spacePartial nb A = 1 := by rw [hnil]; simp [spacePartial, sel, space]
        have hj : toIndexPartial nb A a = 0 := by rw [hnil]; simp [toIndexPartial, sel, toIndexLoop]
        rw [hj] at hNEne ⊢
        simp only [hne, Bool.true_or, if_true, hcnt]
        rw [pLoop_succ]
        simp only [hNEne, Bool.false_eq_true, if_false, hne, if_true, pLoop, List.map_append, List.map_cons, List.map_nil]
        rw [mem_sums_swap w [den (NE A A.length nb v factors 0)]]
        apply mem_sums_congr_right
        intro u
        exact mem_sums_comm u _ _
      · have hne' : nb.isEmpty = false := by simpa using hne
        obtain ⟨g, hg⟩ : ∃ g, g = (if nb.isEmpty || G.any (fun nd => nd.keys == nb) then G else G ++ [⟨nb, []⟩]) := ⟨_, rfl⟩
        rw [← hg]
        have hgsel : SelG A a (g.filter (fun nd => !nd.keys.contains v)) = SelG A a (G.filter (fun nd => !nd.keys.contains v)) := by
          rw [hg]; split
          · rfl
          · rw [List.filter_append]
            have hvn : v ∉ nb := by simpa using hnv
            simp [SelG, List.filterMap_append, List.filter, hvn, gLookup]
        have hgood : GoodG n (g.filter (fun nd => !nd.keys.contains v)) := by
          apply good_filter
          rw [hg]; split
          · exact hG
          · intro nd hnd r hr
            rcases List.mem_append.mp hnd with h | h
            · exact hG nd h r hr
            · simp at h; subst h; simp at hr
        obtain ⟨f1, f2⟩ := pLoop_filterNot A A.length nb v factors hnv (spacePartial nb A) 0 g Fs
        obtain ⟨s1, _, s3⟩ := pLoop_sums n A a A.length nb v factors hfacG hne' (spacePartial nb A) 0
          (g.filter (fun nd => !nd.keys.contains v)) Fs hgood
        rw [f1, f2, s1, s3 (Fs.map den) w, hgsel]
        have hlt := toIndexPartial_lt A a nb ha hnbn
        have hc : 0 ≤ toIndexPartial nb A a ∧ toIndexPartial nb A a < 0 + spacePartial nb A ∧
            (NE A A.length nb v factors (toIndexPartial nb A a)).isEmpty = false := ⟨Nat.zero_le _, by omega, hNEne⟩
        rw [if_pos hc]
    rw [hL]
    simp only [List.singleton_append]
    rw [hNEden, mem_sums_flatMap]
    constructor
    · rintro ⟨k, hk', h⟩
      have hklt : k < A.getD v 0 := by
        have := List.mem_range'_1.mp hk'; omega
      exact ⟨k, hklt, (hR k).mpr ((hkey k hklt _ w).mp h)⟩
    · rintro ⟨k, hklt, h⟩
      exact ⟨k, List.mem_range'_1.mpr ⟨Nat.zero_le _, by omega⟩, (hkey k hklt _ w).mpr ((hR k).mp h)⟩

/-- **`move_table_correct_partial`** — the same statement for the model the driver runs (generic GVE loop driven by the MOVE
    callbacks, `gRemoveVar mcb`): ONE `removeFactor(v)` of the table-level MultiObjectiveVariableElimination as written
    refines one step of the semantic elimination `eliminateS` (compare `mem_eliminateS`), on fully specified tables.

    FULL STATEMENT (not yet closed): for fully specified well-formed rule sets,
      `w ∈ den (moveRun A rules) ↔ ∃ a, Valid A a ∧ w = value vector of a`.
    It follows from this step by the induction of `mem_elimAllS`/`tveLoop_spec` once three bookkeeping facts are proved:
    `FullG`, `GoodG`, `GKeysG` are preserved by `pRemoveVar` (the new node receives a rule for every joint value), the
    graph built by `mInit` denotes the rule set (analogue of `tInit_represents`), and `den (mFinalCross finals)` is
    `sums (finals.map den)` for a non-empty list of final factors (`mem_den_foldl_cross`).  `moveRun_pure` already
    removes the callback state from the statement. -/
theorem move_table_correct_partial (n : Nat) (A a : List Nat) (v : Nat) (st : GState MFactor MGlob)
    (ha : Valid A a) (hv : v < A.length) (hpos : 0 < A.getD v 0)
    (hG : GoodG n st.graph) (hk : GKeysG A.length st.graph) (hfull : FullG A st.graph) (w : Vec) :
    w ∈ sums (Mean A a ((gRemoveVar mcb A A.length v st).graph, (gRemoveVar mcb A A.length v st).finals))
      ↔ ∃ k, k < A.getD v 0 ∧ w ∈ sums (Mean A (setAt a v k) (st.graph, st.finals)) := by
  rw [gRemoveVar_pure]
  exact move_table_step n A a v st.graph st.finals ha hv hpos hG hk hfull w

end AITB.VE
