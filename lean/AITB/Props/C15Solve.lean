/-
  AITB.Props.C15Solve — `LP::solve` (src/Utils/LP/LpSolveWrapper.cpp): which `::solve` calls it makes and when it hands a
  point back (`lpSolveCalls`, `lpSolveSome`, result codes from the translator), what the driver's trace test means, and
  what an accepted point that satisfies the generated rows EXACTLY certifies (composition with `mdpLP_sound`).
-/
import AITB.Props.C15Obj
import AITB.Gen.C15Facts

namespace AITB.FLP
open AITB.Factored AITB.VE

/-- LP::solve hands a point back only if the LAST `::solve` call it made ended with an accept code, and it makes at most
    two calls — for every pair of code lists (all retry policies) -/
theorem lpSolve_point_only_if_accepted (retry accept : List Int) (r0 r1 : Int)
    (h : lpSolveSome retry accept r0 r1 = true) :
    lpSolveFinal retry r0 r1 ∈ accept ∧ lpSolveCalls retry r0 ≤ 2 ∧
      (lpSolveCalls retry r0 = 1 → lpSolveFinal retry r0 r1 = r0) ∧ (lpSolveCalls retry r0 = 2 → lpSolveFinal retry r0 r1 = r1) := by
  unfold lpSolveSome at h
  refine ⟨by simpa using h, ?_, ?_, ?_⟩
  · unfold lpSolveCalls; split <;> omega
  · unfold lpSolveCalls lpSolveFinal; by_cases hc : r0 ∈ retry <;> simp [hc]
  · unfold lpSolveCalls lpSolveFinal; by_cases hc : r0 ∈ retry <;> simp [hc]

/-- what the driver's `lpSolveTraceOk` decides: the recorded calls are exactly the ones the model makes, and the
    implementation returned a point iff the model does -/
theorem lpSolveTraceOk_sound (retry accept : List Int) (results : List Int) (got : Bool)
    (h : lpSolveTraceOk retry accept results got = true) :
    ∃ r0 r1, results = (if retry.contains r0 then [r0, r1] else [r0]) ∧
      results.length = lpSolveCalls retry r0 ∧ got = lpSolveSome retry accept r0 r1 := by
  unfold lpSolveTraceOk at h
  match results, h with
  | [r0], h =>
    simp only [Bool.and_eq_true, Bool.not_eq_true', beq_iff_eq] at h
    have h1 : retry.contains r0 = false := h.1
    refine ⟨r0, 0, ?_, ?_, ?_⟩
    · rw [h1]; simp
    · unfold lpSolveCalls; rw [h1]; simp
    · unfold lpSolveSome lpSolveFinal; rw [h1]; simpa using h.2
  | [r0, r1], h =>
    simp only [Bool.and_eq_true, beq_iff_eq] at h
    have h1 : retry.contains r0 = true := h.1
    refine ⟨r0, r1, ?_, ?_, ?_⟩
    · rw [h1]; simp
    · unfold lpSolveCalls; rw [h1]; simp
    · unfold lpSolveSome lpSolveFinal; rw [h1]; simpa using h.2

example : lpSolveTraceOk [6, 25] [0, 1] [25, 0] true = true := by decide
example : lpSolveTraceOk [6] [0, 1] [25] false = true := by decide
example : lpSolveTraceOk [6] [0, 1] [25] true = false := by decide

/-- the accept test of the source is `OPTIMAL (0) or SUBOPTIMAL (1)`: a retry policy may change (`lpRetryCodes` is left
    open — both [6] and [6, 25, 5] are modelled), the accept set may not — in particular ACCURACYERROR (25) and
    NUMFAILURE (5) are never accepted (the reverted repair) -/
theorem lp_accept_codes_extracted : AITB.Gen.lpAcceptCodes = [0, 1] := by decide

/-- with the extracted codes: a returned point means the last call reported OPTIMAL or SUBOPTIMAL -/
theorem lpSolve_extracted_point_is_optimal (r0 r1 : Int)
    (h : lpSolveSome AITB.Gen.lpRetryCodes AITB.Gen.lpAcceptCodes r0 r1 = true) :
    lpSolveFinal AITB.Gen.lpRetryCodes r0 r1 = 0 ∨ lpSolveFinal AITB.Gen.lpRetryCodes r0 r1 = 1 := by
  have := (lpSolve_point_only_if_accepted _ _ r0 r1 h).1
  rw [lp_accept_codes_extracted] at this
  simpa using this

theorem absQ_le_zero {x : Rat} (h : absQ x ≤ 0) : x = 0 := by
  unfold absQ at h
  split at h <;> linarith

/-- the row test with tolerance 0 is the row -/
theorem CRow.sat_of_satB_zero (u : Nat → Rat) (r : CRow) (h : r.satB 0 u = true) : r.sat u := by
  unfold CRow.satB at h; unfold CRow.sat
  cases hr : r.rel <;> simp only [hr] at h ⊢
  · simpa using h
  · have := absQ_le_zero (by simpa using h); linarith

theorem pointSat_zero_sound (rows : List CRow) (pt : List Rat) (h : pointSatB 0 rows pt = true) :
    ∀ r ∈ rows, r.sat (fun c => pt.getD c 0) := by
  intro r hr
  exact CRow.sat_of_satB_zero _ r (List.all_eq_true.mp h r hr)

/-- **what an accepted point certifies**: if the point lp_solve handed back satisfies every row of the LP `solveLP` built
    exactly, its leading columns are weights whose value function satisfies the Bellman inequality at EVERY joint state and
    action — whatever lp_solve did to find it (any pricing rule, either attempt) -/
theorem accepted_point_certifies_bellman (joined : Bool) (S A : List Nat) (γ : Rat) (h : List Basis) (g R : List BasisM)
    (wf : MdpWF S A h g R) (pt : List Rat) (hpt : pointSatB 0 (mdpGen joined S A γ h g R).1 pt = true) :
    ∀ s a, Valid S s → Valid A a →
      fmAt S A R s a + γ * gwAt S A g (pt.take h.length) s a ≤ wAt S h (pt.take h.length) s := by
  apply mdpLP_sound joined S A γ h g R wf (pt.take h.length)
  refine ⟨fun c => pt.getD c 0, ?_, pointSat_zero_sound _ pt hpt⟩
  intro k hk
  simp only [List.getD_eq_getElem?_getD, List.getElem?_take, hk, if_true]

/-- the hypotheses are satisfiable: the LP of a one-state, one-action MDP (R = 1, γ = 1/2, h = 1, g = 1) and the point
    (w, −h·w, γ g w, R, final) = (2, −2, 1, 1, 2, 0)  (test on literals) -/
example : pointSatB 0 (mdpGen true [1] [1] (1/2) [⟨[0], [1]⟩] [⟨[0], [0], [1]⟩] [⟨[0], [0], [1]⟩]).1 [2, -2, 1, 1, 2, 0] = true := by
  decide +kernel

/-- **what `ok` means for a factored-MDP case (optimality half)**: if the driver's certificate `y` passes `dualOk` for the flat
    LP and the stated objective of the returned weights is within `ε` of the certified bound, then NO weight vector whose value
    function satisfies `V ≥ R + γ P V` at every joint state and action has a stated objective smaller by more than `ε` -/
theorem mdp_verdict_sound (S A : List Nat) (ddn : List DNode) (R : List BasisM) (γ : Rat) (h : List Basis) (c w y : List Rat) (ε : Rat)
    (hd : dualOk h.length (mdpFlatRows S A ddn R γ h) c y = true)
    (hw : dotN h.length c w ≤ dualVal (mdpFlatRows S A ddn R γ h) y + ε) :
    ∀ w' : List Rat, (∀ s a, Valid S s → Valid A a → mdpBackup S A ddn R γ h w' s a ≤ mdpV S h w' s) →
      dotN h.length c w ≤ dotN h.length c w' + ε := by
  intro w' hfeas
  have := weak_duality_sound h.length (mdpFlatRows S A ddn R γ h) c y w' hd ((mdpFlatRows_sat_iff S A ddn R γ h w').mpr hfeas)
  linarith

end AITB.FLP
