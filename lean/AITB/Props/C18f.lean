/-
  AITB.Props.C18f — the preamble pass: it is a left fold over the lines (`parseModelInfo_append`), and
  "later lines override earlier ones" holds for preamble lines too: the last `discount:` line decides the discount.
-/
import AITB.Props.C18c
namespace AITB.Cassandra
variable {fl : Flags}

theorem parseModelInfo_append (r1 r2 : List Str) (p : Pre) (acc : List Str) :
    parseModelInfo fl (r1 ++ r2) p acc =
      (parseModelInfo fl r1 p acc >>= fun (q : Pre × List Str) => parseModelInfo fl r2 q.1 q.2.reverse) := by
  induction r1 generalizing p acc with
  | nil => simp [parseModelInfo, pure, Except.pure, bind, Except.bind]
  | cons raw rest ih =>
    simp only [List.cons_append, parseModelInfo]
    split
    · exact ih p acc
    · split
      · rename_i r hr
        cases r with
        | error e => rfl
        | ok p1 => simp only [bind, Except.bind]; exact ih p1 acc
      · exact ih p (trim raw :: acc)

/-- lines that do not start with `discount` leave the discount alone -/
theorem parseModelInfo_no_discount (raws : List Str) (p p' : Pre) (acc lines : List Str)
    (h : parseModelInfo fl raws p acc = .ok (p', lines))
    (hno : ∀ raw ∈ raws, startsWith (trim raw) kwDiscount = false) : p'.disc = p.disc := by
  induction raws generalizing p acc with
  | nil => simp only [parseModelInfo, pure_ok] at h; injection h with h1 _; rw [h1]
  | cons raw rest ih =>
    have hno' : ∀ raw ∈ rest, startsWith (trim raw) kwDiscount = false := fun x hx => hno x (List.mem_cons_of_mem _ hx)
    have hs := hno raw List.mem_cons_self
    simp only [parseModelInfo] at h
    split at h
    · exact ih p acc h hno'
    · split at h
      · rename_i r hr
        obtain ⟨p1, hp1, h⟩ := bind_ok.1 h
        rw [ih p1 acc h hno']
        unfold preLine at hr
        simp only [hs, Bool.false_eq_true, if_false] at hr
        split at hr
        · injection hr with hr; subst hr; rw [pure_ok.1 hp1]
        · split at hr
          · injection hr with hr; subst hr
            obtain ⟨⟨n, m⟩, _, hq⟩ := bind_ok.1 hp1
            rw [← pure_ok.1 hq]
          · split at hr
            · injection hr with hr; subst hr
              obtain ⟨⟨n, m⟩, _, hq⟩ := bind_ok.1 hp1
              rw [← pure_ok.1 hq]
            · split at hr
              · injection hr with hr; subst hr
                obtain ⟨⟨n, m⟩, _, hq⟩ := bind_ok.1 hp1
                rw [← pure_ok.1 hq]
              · cases hr
      · exact ih p (trim raw :: acc) h hno'

/-- a line that starts with `discount` is handled by the discount action (it cannot start with another keyword) -/
theorem preLine_discount (p : Pre) (l : Str) (h : startsWith l kwDiscount = true) :
    preLine fl p l = some (do
      let t ← at? (tokenize colon l) 1
      let d ← stodS fl t
      pure { p with disc := d }) := by
  have hd : kwDiscount = 'd' :: "iscount".toList := by decide
  have hv : kwValues = 'v' :: "alues".toList := by decide
  have hs : kwStates = 's' :: "tates".toList := by decide
  have ha : kwActions = 'a' :: "ctions".toList := by decide
  have ho : kwObservations = 'o' :: "bservations".toList := by decide
  cases l with
  | nil => rw [hd] at h; simp [startsWith] at h
  | cons c r =>
    have hc : c = 'd' := by
      rw [hd] at h; simp only [startsWith, Bool.and_eq_true, beq_iff_eq] at h; exact h.1
    subst hc
    have e1 : startsWith ('d' :: r) kwValues = false := by rw [hv]; simp [startsWith]
    have e2 : startsWith ('d' :: r) kwStates = false := by rw [hs]; simp [startsWith]
    have e3 : startsWith ('d' :: r) kwActions = false := by rw [ha]; simp [startsWith]
    have e4 : startsWith ('d' :: r) kwObservations = false := by rw [ho]; simp [startsWith]
    unfold preLine
    simp only [e1, e2, e3, e4, h, Bool.false_eq_true, if_false, if_true]

/-- **later preamble lines override earlier ones (discount)**: whatever comes before, if `raw` is the last line
    starting with `discount`, the accepted preamble carries the number written on it -/
theorem discount_last_wins (r1 r2 : List Str) (raw : Str) (p' : Pre) (lines : List Str)
    (h : parseModelInfo fl (r1 ++ raw :: r2) {} [] = .ok (p', lines))
    (hne : (trim raw).isEmpty = false) (hd : startsWith (trim raw) kwDiscount = true)
    (hno : ∀ x ∈ r2, startsWith (trim x) kwDiscount = false) :
    ∃ t, at? (tokenize colon (trim raw)) 1 = .ok t ∧ stodS fl t = .ok p'.disc := by
  rw [parseModelInfo_append] at h
  obtain ⟨⟨q, l1⟩, _, h2⟩ := bind_ok.1 h
  simp only [parseModelInfo, hne, Bool.false_eq_true, if_false, preLine_discount q (trim raw) hd] at h2
  obtain ⟨q1, hq1, h3⟩ := bind_ok.1 h2
  obtain ⟨t, ht, h4⟩ := bind_ok.1 hq1
  obtain ⟨d, hdv, h5⟩ := bind_ok.1 h4
  have hq : q1 = { q with disc := d } := (pure_ok.1 h5).symm
  have := parseModelInfo_no_discount r2 q1 p' _ lines h3 hno
  refine ⟨t, ht, ?_⟩
  rw [this, hq]; exact hdv

/-! ### declared names map to their positions -/

/-- the map `extractIDs` builds from a name list -/
def buildMap (ids : List Str) : IDMap :=
  (enumFrom 0 ids).foldl (fun m (p : Nat × Str) => m.set (trim p.2) p.1) []

theorem find_set_self (m : IDMap) (k : Str) (v : Nat) : (m.set k v).find k = some v := by
  simp [IDMap.set, IDMap.find]

theorem find_set_ne (m : IDMap) (k x : Str) (v : Nat) (h : k ≠ x) : (m.set k v).find x = m.find x := by
  have : (k == x) = false := by simpa using h
  simp [IDMap.set, IDMap.find, this]

theorem fold_find_notin (l : List Str) (m0 : IDMap) (k : Nat) (x : Str) (h : x ∉ l.map trim) :
    ((enumFrom k l).foldl (fun m (p : Nat × Str) => m.set (trim p.2) p.1) m0).find x = m0.find x := by
  induction l generalizing m0 k with
  | nil => rfl
  | cons y t ih =>
    simp only [List.map_cons, List.mem_cons, not_or] at h
    simp only [enumFrom, List.foldl_cons]
    rw [ih _ _ h.2, find_set_ne _ _ _ _ (fun e => h.1 e.symm)]

theorem fold_find_at (l : List Str) (m0 : IDMap) (k : Nat) (hnd : (l.map trim).Nodup) (j : Nat) (hj : j < l.length) :
    ((enumFrom k l).foldl (fun m (p : Nat × Str) => m.set (trim p.2) p.1) m0).find (trim l[j]) = some (k + j) := by
  induction l generalizing m0 k j with
  | nil => simp at hj
  | cons y t ih =>
    simp only [List.map_cons, List.nodup_cons] at hnd
    simp only [enumFrom, List.foldl_cons]
    cases j with
    | zero =>
      simp only [List.getElem_cons_zero, Nat.add_zero]
      rw [fold_find_notin _ _ _ _ hnd.1, find_set_self]
    | succ j =>
      simp only [List.getElem_cons_succ]
      rw [ih _ _ hnd.2 j (by simpa using hj)]
      congr 1; omega

/-- **names resolve to their positions**: in a declaration with pairwise distinct names, the i-th name is bound to i
    (so writing the name or the number i selects the same index — `name_number_interchangeable`) -/
theorem buildMap_find (ids : List Str) (hnd : (ids.map trim).Nodup) (i : Nat) (hi : i < ids.length) :
    (buildMap ids).find (trim ids[i]) = some i := by
  have := fold_find_at ids [] 0 hnd i hi
  simpa [buildMap] using this

/-- what `extractIDs` returns for a declaration that is not a single number: the name count and `buildMap` -/
theorem extractIDs_named (line t1 : Str) (h1 : at? (tokenize colon line) 1 = .ok t1)
    (hmany : (tokenize space t1).length ≠ 1) :
    extractIDs fl line = .ok ((tokenize space t1).length, buildMap (tokenize space t1)) := by
  unfold extractIDs
  simp only [h1, bind, Except.bind]
  split
  · rename_i one heq; rw [heq] at hmany; simp at hmany
  · rfl

end AITB.Cassandra
