/-
  C09 part g — TopTwoThompsonSamplingPolicy and T3CPolicy: the selection kernels given the inner Thompson policy's answers,
  the `pickBest` coin and the tie coins.
-/
import AITB.Props.C09a

namespace AITB.Pol

/-! ### TopTwoThompsonSamplingPolicy::sampleAction -/

/-- **toptwo_selection**: given the successive answers `b :: rest` of the inner Thompson policy: the leader `b` is returned
    when it has fewer than two pulls or the β-coin says so; otherwise the first later answer different from `b`.  In every
    case the returned arm is one of the inner policy's answers (hence in range whenever those are) — and a challenger is
    never the leader. -/
theorem toptwo_selection (cnt : Nat → Nat) (coin : Bool) (b : Nat) (rest : List Nat) (a : Nat)
    (h : topTwo cnt coin (b :: rest) = some a) :
    a ∈ b :: rest ∧ ((cnt b < 2 ∨ coin = true) → a = b) ∧ (¬ cnt b < 2 → coin = false → a ≠ b ∧ a ∈ rest) := by
  unfold topTwo at h
  by_cases hc : cnt b < 2
  · simp only [hc, if_true, Option.some.injEq] at h
    subst h; exact ⟨by simp, fun _ => rfl, fun h' => absurd hc h'⟩
  · simp only [hc, if_false] at h
    cases coin with
    | true =>
      simp only [if_true, Option.some.injEq] at h
      subst h; exact ⟨by simp, fun _ => rfl, fun _ h' => by cases h'⟩
    | false =>
      simp only [Bool.false_eq_true, if_false] at h
      have hm := List.mem_of_find?_eq_some h
      have hp := List.find?_some h
      have hne : a ≠ b := by simpa using hp
      exact ⟨List.mem_cons_of_mem _ hm, fun h' => by rcases h' with h' | h' <;> [exact absurd h' hc; cases h'],
        fun _ _ => ⟨hne, hm⟩⟩

/-- the rejection loop stops as soon as the inner policy answers anything but the leader -/
theorem toptwo_terminates (cnt : Nat → Nat) (coin : Bool) (b : Nat) (rest : List Nat) (x : Nat) (hx : x ∈ rest) (hne : x ≠ b) :
    ∃ a, topTwo cnt coin (b :: rest) = some a := by
  unfold topTwo
  by_cases hc : cnt b < 2
  · exact ⟨b, by simp [hc]⟩
  · cases coin with
    | true => exact ⟨b, by simp [hc]⟩
    | false =>
      simp only [hc, if_false, Bool.false_eq_true]
      cases hf : rest.find? (fun y => y != b) with
      | some a => exact ⟨a, rfl⟩
      | none =>
        have := List.find?_eq_none.mp hf x hx
        simp at this; exact absurd this hne

/-! ### T3CPolicy::sampleAction -/

/-- invariant of the challenger loop after arms `< a` have been looked at -/
def T3CInv (cost : Nat → Rat) (best a : Nat) (st : T3CSt) : Prop :=
  (st.lowest = none ∧ ∀ j, j < a → j = best) ∨
  (∃ lo, st.lowest = some lo ∧ st.second < a ∧ st.second ≠ best ∧ cost st.second = lo ∧
    ∀ j, j < a → j ≠ best → lo ≤ cost j)

theorem t3cStep_inv (cost : Nat → Rat) (best a : Nat) (st : T3CSt) (hab : a ≠ best) (h : T3CInv cost best a st) :
    T3CInv cost best (a + 1) (t3cStep (cost a) a st) := by
  unfold t3cStep
  rcases h with ⟨hn, hall⟩ | ⟨lo, hl, h1, h2, h3, h4⟩
  · rw [hn]; simp only
    right
    refine ⟨cost a, rfl, by simp, hab, rfl, fun j hj hjb => ?_⟩
    rcases Nat.lt_or_ge j a with h' | h'
    · exact absurd (hall j h') hjb
    · have : j = a := by omega
      subst this; exact le_refl _
  · rw [hl]; simp only
    have hold : ∀ j, j < a + 1 → j ≠ best → lo ≤ cost a → lo ≤ cost j := by
      intro j hj hjb hle
      rcases Nat.lt_or_ge j a with h' | h'
      · exact h4 j h' hjb
      · have : j = a := by omega
        subst this; exact hle
    by_cases hlt : cost a < lo
    · simp only [hlt, if_true]
      right
      refine ⟨cost a, rfl, by simp, hab, rfl, fun j hj hjb => ?_⟩
      rcases Nat.lt_or_ge j a with h' | h'
      · exact le_trans (le_of_lt hlt) (h4 j h' hjb)
      · have : j = a := by omega
        subst this; exact le_refl _
    · simp only [hlt, if_false]
      by_cases heq : cost a = lo
      · simp only [heq, if_true]
        cases hus : st.us with
        | nil =>
          simp only
          right; exact ⟨lo, rfl, by show st.second < a + 1; omega, h2, h3, fun j hj hjb => hold j hj hjb (le_of_eq heq.symm)⟩
        | cons u us =>
          simp only
          split
          · right
            exact ⟨lo, rfl, by show a < a + 1; omega, hab, heq, fun j hj hjb => hold j hj hjb (le_of_eq heq.symm)⟩
          · right
            exact ⟨lo, rfl, by show st.second < a + 1; omega, h2, h3, fun j hj hjb => hold j hj hjb (le_of_eq heq.symm)⟩
      · simp only [heq, if_false]
        right
        refine ⟨lo, hl, by omega, h2, h3, fun j hj hjb => hold j hj hjb ?_⟩
        exact le_of_lt (lt_of_le_of_ne (not_lt.mp hlt) (fun e => heq e.symm))

theorem t3cLoop_inv (cost : Nat → Rat) (best : Nat) : ∀ (rem a : Nat) (st : T3CSt),
    T3CInv cost best a st → T3CInv cost best (a + rem) (t3cLoop cost best rem a st) := by
  intro rem
  induction rem with
  | zero => intro a st h; exact h
  | succ r ih =>
    intro a st h
    rw [t3cLoop]
    have e : a + (r + 1) = a + 1 + r := by omega
    rw [e]
    apply ih
    by_cases hab : a = best
    · simp only [hab, if_true]
      rcases h with ⟨hn, hall⟩ | ⟨lo, hl, h1, h2, h3, h4⟩
      · left; refine ⟨hn, fun j hj => ?_⟩
        rcases Nat.lt_or_ge j a with h' | h'
        · exact hall j h'
        · omega
      · right; refine ⟨lo, hl, by omega, h2, h3, fun j hj hjb => h4 j (by omega) hjb⟩
    · simp only [hab, if_false]; exact t3cStep_inv cost best a st hab h

/-- **t3c_selection**: for `n ≥ 2` arms, whatever the tie coins: when the leader `best` (the inner Thompson answer) has at
    least two pulls and the β-coin does not keep it, the returned challenger is a legal arm different from the leader whose
    transportation cost is minimal among all non-leader arms; otherwise the leader is returned. -/
theorem t3c_selection (mean : Nat → Rat) (cnt : Nat → Nat) (var beta : Rat) (n best : Nat) (u0 : Rat) (us : List Rat)
    (hn : 2 ≤ n) (hb : best < n) :
    ((cnt best < 2 ∨ u0 < beta) → t3c mean cnt var beta n best u0 us = best) ∧
    (¬ cnt best < 2 → ¬ u0 < beta →
      t3c mean cnt var beta n best u0 us < n ∧ t3c mean cnt var beta n best u0 us ≠ best ∧
      ∀ a, a < n → a ≠ best →
        t3cCost mean cnt var best (t3c mean cnt var beta n best u0 us) ≤ t3cCost mean cnt var best a) := by
  constructor
  · intro h; unfold t3c
    rcases h with h | h
    · simp [h]
    · by_cases hc : cnt best < 2 <;> simp [hc, h]
  · intro hc hu
    unfold t3c
    simp only [hc, hu, if_false]
    have hinv := t3cLoop_inv (t3cCost mean cnt var best) best n 0 ⟨0, none, 0, us⟩
      (Or.inl ⟨rfl, fun j hj => by omega⟩)
    rw [Nat.zero_add] at hinv
    rcases hinv with ⟨_, hall⟩ | ⟨lo, _, h1, h2, h3, h4⟩
    · have h0 := hall 0 (by omega); have h1 := hall 1 (by omega); omega
    · exact ⟨h1, h2, fun a ha hab => by rw [h3]; exact h4 a ha hab⟩

example : t3c (fun i => (i : Rat)) (fun _ => 3) 1 (1/2) 3 2 (3/4) [] = 1 := by
  norm_num [t3c, t3cLoop, t3cStep, t3cCost]

end AITB.Pol
