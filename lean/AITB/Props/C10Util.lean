/-
  AITB.Props.C10Util — the shared index helpers one level below the anchored code are free of out-of-bounds
  access and do what their callers rely on (C10 round 4):

    SubsetEnumerator::advance   total on every non-empty id vector; closed form; `lowest` is the leftmost changed slot;
                                 keeps the subset valid; is the lexicographic SUCCESSOR among the valid subsets
                                 (so `reset(); while (isValid()) advance();` visits every k-subset exactly once, in order)
    set_union_inplace           with the capacity the source reserves no push_back reallocates under the live read cursors
    sequential_sorted_contains  / veccmp: no read outside either vector
-/
import AITB.Model.CursorUtil

namespace AITB.CursorUtil

/-! ## SubsetEnumerator::advance -/

theorem scanDown_spec (ids : List Nat) : ∀ c ub, c < ids.length →
    ∃ c' ub', scanDown ids c ub = some (c', ub') ∧ c' ≤ c ∧
      (∀ j, c' < j → j ≤ c → ids[j]? = some (ub - (c - j))) ∧
      (c' = 0 ∨ ids[c']? ≠ some (ub - (c - c'))) := by
  intro c
  induction c with
  | zero => intro ub _; exact ⟨0, ub, rfl, Nat.le_refl _, fun j h1 h2 => by omega, Or.inl rfl⟩
  | succ c ih =>
    intro ub h
    have e : ids[c+1]? = some ids[c+1] := List.getElem?_eq_getElem h
    unfold scanDown
    simp only [e]
    by_cases hv : ids[c+1] = ub
    · simp only [hv, beq_self_eq_true, if_true]
      obtain ⟨c', ub', h1, h2, h3, h4⟩ := ih (ub - 1) (by omega)
      refine ⟨c', ub', h1, by omega, ?_, ?_⟩
      · intro j hj1 hj2
        by_cases hj : j = c + 1
        · subst hj; rw [e, hv]; simp
        · have := h3 j hj1 (by omega)
          rw [this]; congr 1; omega
      · rcases h4 with h4 | h4
        · exact Or.inl h4
        · refine Or.inr ?_
          have : ub - 1 - (c - c') = ub - (c + 1 - c') := by omega
          rw [← this]; exact h4
    · have : (ids[c+1] == ub) = false := by simp [hv]
      simp only [this]
      refine ⟨c+1, ub, by simp, Nat.le_refl _, fun j h1 h2 => by omega, Or.inr ?_⟩
      rw [e]; simp [hv]

theorem set_take_succ (l : List Nat) (x : Nat) : ∀ cur, cur < l.length → (l.set cur x).take (cur+1) = l.take cur ++ [x] := by
  induction l with
  | nil => intro cur h; simp at h
  | cons a t ih =>
    intro cur h
    cases cur with
    | zero => simp
    | succ c => simp only [List.set_cons_succ, List.take_succ_cons, List.cons_append]; rw [ih c (by simpa using h)]

theorem fillUp_spec : ∀ (n : Nat) (ids : List Nat) (cur ub : Nat), cur + n = ids.length →
    fillUp ids cur ub n = some (ids.take cur ++ List.range' (ub+1) n) := by
  intro n
  induction n with
  | zero => intro ids cur ub h; simp [fillUp, List.take_of_length_le (by omega : ids.length ≤ cur)]
  | succ n ih =>
    intro ids cur ub h
    unfold fillUp
    have hc : cur < ids.length := by omega
    simp only [hc, if_true]
    rw [ih (ids.set cur (ub+1)) (cur+1) (ub+1) (by simp; omega), set_take_succ ids (ub+1) cur hc]
    simp [List.range'_succ]

/-- **advance_total / advance_spec** — on EVERY non-empty id vector (whatever it holds) `advance` performs no access
    outside `ids_`, and its result is the closed form: slots below `lowest` untouched, then `ids[lowest]+1, +2, …`;
    every slot above `lowest` held its maximum `U-1-(k-1-j)` and `lowest` is `0` or the first slot from the right that
    does not. -/
theorem advance_spec (ids : List Nat) (U : Nat) (hne : ids ≠ []) :
    ∃ c, advance ids U = some (advanceSpec ids c, c) ∧ c < ids.length ∧
      (∀ j, c < j → j < ids.length → ids[j]? = some (U - 1 - (ids.length - 1 - j))) ∧
      (c = 0 ∨ ids[c]? ≠ some (U - 1 - (ids.length - 1 - c))) := by
  have hl : 0 < ids.length := List.length_pos_iff.mpr hne
  obtain ⟨c, ub', h1, h2, h3, h4⟩ := scanDown_spec ids (ids.length - 1) (U - 1) (by omega)
  refine ⟨c, ?_, by omega, fun j a b => h3 j a (by omega), h4⟩
  have hc : c < ids.length := by omega
  unfold advance
  have : ¬ ids.length = 0 := by omega
  simp only [this, if_false, h1, List.getElem?_eq_getElem hc]
  rw [fillUp_spec _ _ _ _ (by simp; omega), set_take_succ ids _ c hc]
  unfold advanceSpec
  have : ids.length - c = (ids.length - (c+1)) + 1 := by omega
  rw [this, List.range'_succ]
  simp [List.getD_eq_getElem?_getD, List.getElem?_eq_getElem hc]

theorem advance_total (ids : List Nat) (U : Nat) (hne : ids ≠ []) : ∃ r, advance ids U = some r := by
  obtain ⟨c, h, _⟩ := advance_spec ids U hne; exact ⟨_, h⟩

/-- the empty id vector (`SubsetEnumerator(0, lo, hi)`, which the constructor's assertions accept) is NOT safe:
    `ids_.size() - 1` wraps and `ids_[current]` / `ids_.back()` read outside -/
theorem advance_empty_oob (U : Nat) : advance [] U = none ∧ isValid [] U = none := ⟨rfl, rfl⟩

/-- **advance_lowest** — the returned index is the leftmost slot the advance changed: everything before it is kept,
    the slot itself is incremented (callers such as `findVerticesNaive` re-copy rows from `lowest` on only). -/
theorem advance_lowest (ids : List Nat) (U : Nat) (out : List Nat) (c : Nat) (h : advance ids U = some (out, c)) :
    out.take c = ids.take c ∧ out[c]? = (ids[c]?).map (· + 1) ∧ out.length = ids.length ∧ c < ids.length := by
  have hne : ids ≠ [] := by
    intro e; subst e; simp [advance] at h
  obtain ⟨c', h', hc, _⟩ := advance_spec ids U hne
  rw [h] at h'
  have e1 : out = advanceSpec ids c' := by injection h' with h'; exact (Prod.mk.inj h').1
  have e2 : c = c' := by injection h' with h'; exact (Prod.mk.inj h').2
  subst e2; subst e1
  have hlen : (ids.take c).length = c := by simp; omega
  refine ⟨?_, ?_, ?_, hc⟩
  · unfold advanceSpec
    rw [List.take_append_of_le_length (by omega)]
    simp [List.take_take]
  · unfold advanceSpec
    rw [List.getElem?_append_right (by omega)]
    have : ids.length - c = (ids.length - c - 1) + 1 := by omega
    rw [hlen, this, List.range'_succ]
    simp [List.getD_eq_getElem?_getD, List.getElem?_eq_getElem hc]
  · unfold advanceSpec; simp; omega

end AITB.CursorUtil

/-! ## SubsetEnumerator: validity is kept and `advance` is the lexicographic successor -/
namespace AITB.CursorUtil

/-- a valid subset of `[0, U)`: strictly increasing ids below the upper bound -/
def Valid (U : Nat) (x : List Nat) : Prop := x.Pairwise (· < ·) ∧ ∀ v ∈ x, v < U

/-- pointwise `≤` on vectors of equal length -/
def PwLe : List Nat → List Nat → Prop
  | [], [] => True
  | a :: x, b :: y => a ≤ b ∧ PwLe x y
  | _, _ => False

theorem pwLe_eq_or_lt : ∀ x y, PwLe x y → x = y ∨ lexLt x y = true := by
  intro x
  induction x with
  | nil => intro y h; cases y <;> simp_all [PwLe]
  | cons a x ih =>
    intro y h
    cases y with
    | nil => simp [PwLe] at h
    | cons b y =>
      obtain ⟨h1, h2⟩ := h
      by_cases hab : a < b
      · right; simp [lexLt, hab]
      · have : a = b := by omega
        subst this
        rcases ih y h2 with e | e
        · left; rw [e]
        · right; simp [lexLt, e]

theorem pwLe_not_gt : ∀ x y, PwLe x y → lexLt y x = false := by
  intro x
  induction x with
  | nil => intro y h; cases y <;> simp_all [PwLe, lexLt]
  | cons a x ih =>
    intro y h
    cases y with
    | nil => simp [PwLe] at h
    | cons b y =>
      obtain ⟨h1, h2⟩ := h
      have := ih y h2
      simp only [lexLt, this, Bool.and_false, Bool.or_false]
      simp; omega

theorem sorted_ge_range : ∀ (l : List Nat) (lo : Nat), l.Pairwise (· < ·) → (∀ x ∈ l, lo ≤ x) → PwLe (List.range' lo l.length) l := by
  intro l
  induction l with
  | nil => intro lo _ _; simp [PwLe]
  | cons a t ih =>
    intro lo hp hlo
    rw [List.pairwise_cons] at hp
    simp only [List.length_cons, List.range'_succ, PwLe]
    refine ⟨hlo a (by simp), ih (lo+1) hp.2 ?_⟩
    intro x hx
    have := hp.1 x hx
    have := hlo a (by simp)
    omega

theorem sorted_le_range : ∀ (l : List Nat) (U : Nat), l.Pairwise (· < ·) → (∀ x ∈ l, x < U) →
    l.length ≤ U ∧ PwLe l (List.range' (U - l.length) l.length) := by
  intro l
  induction l with
  | nil => intro U _ _; simp [PwLe]
  | cons a t ih =>
    intro U hp hU
    rw [List.pairwise_cons] at hp
    obtain ⟨h1, h2⟩ := ih U hp.2 (fun x hx => hU x (by simp [hx]))
    have ha : a + 1 + t.length ≤ U := by
      cases t with
      | nil => have := hU a (by simp); simp; omega
      | cons b t' =>
        have hab := hp.1 b (by simp)
        simp only [List.length_cons, List.range'_succ, PwLe] at h2
        simp only [List.length_cons] at h1 ⊢
        omega
    refine ⟨by simp; omega, ?_⟩
    simp only [List.length_cons, List.range'_succ, PwLe]
    refine ⟨by omega, ?_⟩
    have : U - (t.length + 1) + 1 = U - t.length := by omega
    rw [this]; exact h2

theorem lexLt_append_same (p a b : List Nat) : lexLt (p ++ a) (p ++ b) = lexLt a b := by
  induction p with
  | nil => rfl
  | cons x p ih => simp [lexLt, ih]

theorem lexLt_append_lt : ∀ (p q a b : List Nat), p.length = q.length → lexLt p q = true → lexLt (p ++ a) (q ++ b) = true := by
  intro p
  induction p with
  | nil => intro q a b _ h; cases q <;> simp [lexLt] at h
  | cons x p ih =>
    intro q a b hl h
    cases q with
    | nil => simp at hl
    | cons y q =>
      simp only [lexLt, Bool.or_eq_true, Bool.and_eq_true, List.cons_append] at h ⊢
      rcases h with h | ⟨h1, h2⟩
      · exact Or.inl h
      · exact Or.inr ⟨h1, ih q a b (by simpa using hl) h2⟩

theorem lexLt_append_split : ∀ (p q a b : List Nat), p.length = q.length → lexLt (p ++ a) (q ++ b) = true →
    lexLt p q = true ∨ (p = q ∧ lexLt a b = true) := by
  intro p
  induction p with
  | nil => intro q a b hl h; cases q with
    | nil => exact Or.inr ⟨rfl, h⟩
    | cons _ _ => simp at hl
  | cons x p ih =>
    intro q a b hl h
    cases q with
    | nil => simp at hl
    | cons y q =>
      simp only [lexLt, Bool.or_eq_true, Bool.and_eq_true, List.cons_append] at h ⊢
      rcases h with h | ⟨h1, h2⟩
      · exact Or.inl (Or.inl h)
      · rcases ih q a b (by simpa using hl) h2 with h3 | ⟨h3, h4⟩
        · exact Or.inl (Or.inr ⟨h1, h3⟩)
        · have : x = y := by simpa using h1
          exact Or.inr ⟨by rw [this, h3], h4⟩

/-- shape of a valid id vector at the slot `advance` picks -/
theorem advance_shape (ids : List Nat) (U : Nat) (out : List Nat) (c : Nat) (hv : Valid U ids) (h : advance ids U = some (out, c)) :
    ∃ v, c < ids.length ∧ ids = ids.take c ++ v :: List.range' (U - (ids.length - (c+1))) (ids.length - (c+1)) ∧
      out = ids.take c ++ List.range' (v+1) (ids.length - c) ∧ ids.length ≤ U ∧
      (c = 0 ∨ v + (ids.length - c) < U) := by
  have hne : ids ≠ [] := by intro e; subst e; simp [advance] at h
  obtain ⟨c', h', hc, htail, hstop⟩ := advance_spec ids U hne
  rw [h] at h'
  have e1 : out = advanceSpec ids c' := by injection h' with h'; exact (Prod.mk.inj h').1
  have e2 : c = c' := by injection h' with h'; exact (Prod.mk.inj h').2
  subst e2
  obtain ⟨hlenU, hpw⟩ := sorted_le_range ids U hv.1 hv.2
  have hdrop : ids.drop (c+1) = List.range' (U - (ids.length - (c+1))) (ids.length - (c+1)) := by
    apply List.ext_getElem?
    intro i
    rw [List.getElem?_drop]
    by_cases hi : i < ids.length - (c+1)
    · rw [htail (c+1+i) (by omega) (by omega), List.getElem?_range' hi]; congr 1; omega
    · rw [List.getElem?_eq_none (by omega), List.getElem?_eq_none (by simp; omega)]
  refine ⟨ids[c], hc, ?_, ?_, hlenU, ?_⟩
  · rw [← hdrop, ← List.drop_eq_getElem_cons hc, List.take_append_drop]
  · rw [e1]; unfold advanceSpec; simp [List.getD_eq_getElem?_getD, List.getElem?_eq_getElem hc]
  · rcases hstop with h0 | h0
    · exact Or.inl h0
    · right
      -- ids[c] ≤ its maximum (validity) and ≠ its maximum (loop exit)
      have hsplit : ids = ids.take c ++ ids[c] :: ids.drop (c+1) := by
        rw [← List.drop_eq_getElem_cons hc, List.take_append_drop]
      have hp2 : (ids[c] :: ids.drop (c+1)).Pairwise (· < ·) := by
        have := hv.1; rw [hsplit, List.pairwise_append] at this; exact this.2.1
      have hU2 : ∀ x ∈ ids[c] :: ids.drop (c+1), x < U := by
        intro x hx; apply hv.2; rw [hsplit]; exact List.mem_append_right _ hx
      obtain ⟨hl2, hp3⟩ := sorted_le_range _ U hp2 hU2
      simp only [List.length_cons, List.length_drop, List.range'_succ, PwLe] at hl2 hp3
      rw [List.getElem?_eq_getElem hc] at h0
      have : ids[c] ≠ U - 1 - (ids.length - 1 - c) := fun e => h0 (by rw [e])
      omega

/-- **advance_keeps_sorted** — from a valid subset the next id vector is again strictly increasing -/
theorem advance_keeps_sorted (ids : List Nat) (U : Nat) (out : List Nat) (c : Nat) (hv : Valid U ids) (h : advance ids U = some (out, c)) :
    out.Pairwise (· < ·) ∧ (isValid out U = some true → Valid U out) := by
  obtain ⟨v, hc, hids, hout, hlen, _⟩ := advance_shape ids U out c hv h
  have hp := hv.1
  rw [hids, List.pairwise_append] at hp
  have hsorted : out.Pairwise (· < ·) := by
    rw [hout, List.pairwise_append]
    refine ⟨hp.1, List.pairwise_lt_range', ?_⟩
    intro a ha b hb
    have := hp.2.2 a ha v (by simp)
    rw [List.mem_range'_1] at hb
    omega
  refine ⟨hsorted, fun hval => ⟨hsorted, ?_⟩⟩
  -- every element is ≤ the last one, which is < U
  have hn : ids.length - c = (ids.length - c - 1) + 1 := by omega
  rw [hout, hn, List.range'_concat, ← List.append_assoc] at hval hsorted ⊢
  simp only [isValid, List.getLast?_append, List.getLast?_singleton, Option.some_or, Option.map_some, Option.some.injEq, decide_eq_true_eq] at hval
  rw [List.pairwise_append] at hsorted
  intro x hx
  rcases List.mem_append.mp hx with hx | hx
  · have := hsorted.2.2 x hx _ (List.mem_singleton.mpr rfl); omega
  · rw [List.mem_singleton] at hx; omega

/-- **advance_is_successor** — among the valid subsets (same size, same bound) the advanced vector is the immediate
    lexicographic successor: it is greater, and every valid subset greater than `ids` is it or is greater than it.
    Hence `reset(); while (isValid()) advance();` visits the valid subsets in increasing order without skipping any. -/
theorem advance_is_successor (ids : List Nat) (U : Nat) (out : List Nat) (c : Nat) (hv : Valid U ids) (h : advance ids U = some (out, c)) :
    lexLt ids out = true ∧
    ∀ z, Valid U z → z.length = ids.length → lexLt ids z = true → out = z ∨ lexLt out z = true := by
  obtain ⟨v, hc, hids, hout, hlen, _⟩ := advance_shape ids U out c hv h
  have hn : ids.length - c = (ids.length - (c+1)) + 1 := by omega
  constructor
  · rw [hout, hn, List.range'_succ]
    conv => lhs; arg 1; rw [hids]
    rw [lexLt_append_same]; simp [lexLt]
  · intro z hz hzl hlt
    have hcz : c < z.length := by omega
    have hzs : z = z.take c ++ z[c] :: z.drop (c+1) := by
      rw [← List.drop_eq_getElem_cons hcz, List.take_append_drop]
    have hzp : (z[c] :: z.drop (c+1)).Pairwise (· < ·) := by
      have := hz.1; rw [hzs, List.pairwise_append] at this; exact this.2.1
    have hzt : (z.drop (c+1)).Pairwise (· < ·) := (List.pairwise_cons.mp hzp).2
    have hlt' := hlt
    rw [hids, hzs] at hlt'
    rcases lexLt_append_split _ _ _ _ (by simp; omega) hlt' with h1 | ⟨h1, h2⟩
    · right; rw [hout, hzs]; exact lexLt_append_lt _ _ _ _ (by simp; omega) h1
    · -- same prefix: the tail of ids is maximal, so z[c] > ids[c]
      have hmax : lexLt (List.range' (U - (ids.length - (c+1))) (ids.length - (c+1))) (z.drop (c+1)) = false := by
        have := (sorted_le_range (z.drop (c+1)) U hzt (fun x hx => hz.2 x (List.mem_of_mem_drop hx))).2
        rw [List.length_drop, hzl] at this
        exact pwLe_not_gt _ _ this
      simp only [lexLt, hmax, Bool.and_false, Bool.or_false, decide_eq_true_eq] at h2
      have hge : PwLe (List.range' (v+1) (z[c] :: z.drop (c+1)).length) (z[c] :: z.drop (c+1)) := by
        apply sorted_ge_range _ _ hzp
        intro x hx
        rcases List.mem_cons.mp hx with e | e
        · omega
        · have := (List.pairwise_cons.mp hzp).1 x e; omega
      have hl2 : (z[c] :: z.drop (c+1)).length = ids.length - c := by simp; omega
      rw [hl2] at hge
      rcases pwLe_eq_or_lt _ _ hge with e | e
      · left; rw [hout, hzs, h1, e]
      · right; rw [hout, hzs, h1, lexLt_append_same]; exact e

/-- **advance_stops_only_at_last** — when the advanced vector fails `isValid()` the subset just left was the greatest
    one: the loop never stops early. -/
theorem advance_stops_only_at_last (ids : List Nat) (U : Nat) (out : List Nat) (c : Nat) (hv : Valid U ids)
    (h : advance ids U = some (out, c)) (hstop : isValid out U = some false) :
    ∀ z, Valid U z → z.length = ids.length → lexLt ids z = false := by
  obtain ⟨v, hc, hids, hout, hlen, hc0⟩ := advance_shape ids U out c hv h
  have hn : ids.length - c = (ids.length - c - 1) + 1 := by omega
  rw [hout, hn, List.range'_concat, ← List.append_assoc] at hstop
  simp only [isValid, List.getLast?_append, List.getLast?_singleton, Option.some_or, Option.map_some, Option.some.injEq, decide_eq_false_iff_not] at hstop
  have h0 : c = 0 := by
    rcases hc0 with h0 | h0
    · exact h0
    · omega
  subst h0
  -- ids = v :: maximal tail with v + len ≥ U, i.e. ids is the maximal vector
  have hvU : v + ids.length = U := by
    have hp := hv.1
    have hU := hv.2
    obtain ⟨_, hp3⟩ := sorted_le_range ids U hp hU
    rw [hids] at hp3
    simp only [List.take_zero, List.nil_append, List.length_cons, List.length_range', List.range'_succ, PwLe] at hp3
    omega
  intro z hz hzl
  have := (sorted_le_range z U hz.1 hz.2).2
  rw [hzl] at this
  have hmaxeq : ids = List.range' (U - ids.length) ids.length := by
    conv => lhs; rw [hids]
    have : ids.length = (ids.length - (0+1)) + 1 := by omega
    conv => rhs; rw [this, List.range'_succ]
    simp only [List.take_zero, List.nil_append]
    congr 1
    · omega
    · congr 1; omega
  rw [hmaxeq] at *
  exact pwLe_not_gt _ _ (by simpa using this)

/-- `reset()` is the least valid subset -/
theorem reset_least (k lo : Nat) (z : List Nat) (hz : z.Pairwise (· < ·)) (hlo : ∀ x ∈ z, lo ≤ x) (hk : z.length = k) :
    lexLt z (reset k lo) = false := by
  unfold reset; rw [← hk]; exact pwLe_not_gt _ _ (sorted_ge_range z lo hz hlo)

theorem reset_valid (k lo U : Nat) (h : lo + k ≤ U) : Valid U (reset k lo) := by
  refine ⟨List.pairwise_lt_range', ?_⟩
  intro v hv; unfold reset at hv; rw [List.mem_range'_1] at hv; omega

example : advance [0, 1, 5] 6 = some ([0, 2, 3], 1) := by decide
example : advance [3, 4, 5] 6 = some ([4, 5, 6], 0) ∧ isValid [4, 5, 6] 6 = some false := by decide
example : Valid 6 [0, 1, 5] := by unfold Valid; decide

end AITB.CursorUtil

/-! ## set_union_inplace: with the reserved capacity no `push_back` reallocates under the live read cursors -/
namespace AITB.CursorUtil

theorem setDiffLoop_total (rhs : List Nat) (mid cap : Nat) (hcap : mid + rhs.length ≤ cap) :
    ∀ (fuel i j : Nat) (buf : List Nat), mid ≤ buf.length → buf.length ≤ mid + i → i ≤ rhs.length →
      (rhs.length - i) + (mid - j) < fuel →
      ∃ r, setDiffLoop rhs mid cap fuel i j buf = some r ∧ r.take mid = buf.take mid ∧ mid ≤ r.length ∧ r.length ≤ mid + rhs.length := by
  intro fuel
  induction fuel with
  | zero => intro i j buf _ _ _ h; omega
  | succ fuel ih =>
    intro i j buf hb1 hb2 hi hf
    unfold setDiffLoop
    by_cases h1 : i < rhs.length
    · simp only [h1, if_true]
      have e1 : rhs[i]? = some rhs[i] := List.getElem?_eq_getElem h1
      have hpush : ∀ a, pushLive buf cap a = some (buf ++ [a]) := by
        intro a; unfold pushLive; rw [if_pos (by omega)]
      have htk : ∀ a, (buf ++ [a]).take mid = buf.take mid := by
        intro a; rw [List.take_append_of_le_length hb1]
      by_cases h2 : j < mid
      · simp only [h2, if_true]
        have e2 : buf[j]? = some (buf[j]'(by omega)) := List.getElem?_eq_getElem (by omega)
        simp only [e1, e2]
        split
        · rw [hpush]; simp only [Option.bind_some]
          obtain ⟨r, hr, h3, h4⟩ := ih (i+1) j (buf ++ [rhs[i]]) (by simp; omega) (by simp; omega) (by omega) (by omega)
          exact ⟨r, hr, by rw [h3, htk], h4⟩
        · split
          · exact ih i (j+1) buf hb1 hb2 hi (by omega)
          · exact ih (i+1) (j+1) buf hb1 (by omega) (by omega) (by omega)
      · simp only [h2, if_false, e1]
        rw [hpush]; simp only [Option.bind_some]
        obtain ⟨r, hr, h3, h4⟩ := ih (i+1) j (buf ++ [rhs[i]]) (by simp; omega) (by simp; omega) (by omega) (by omega)
        exact ⟨r, hr, by rw [h3, htk], h4⟩
    · simp only [h1, if_false]
      exact ⟨buf, rfl, rfl, hb1, by omega⟩

/-- **setUnion_no_realloc** — for ALL vectors, with a reserved capacity of at least `lhs.size() + rhs.size()` (what the source
    asks for, pinned by `Gen.C10Sites`) the difference pass never pushes beyond the capacity, never reads outside `lhs`/`rhs`,
    and leaves the old elements of `lhs` in place for `inplace_merge`. -/
theorem setUnion_no_realloc (lhs rhs : List Nat) (cap : Nat) (hcap : lhs.length + rhs.length ≤ cap) :
    ∃ r, setUnionInplace lhs rhs cap = some r ∧ r.length ≤ lhs.length + rhs.length := by
  unfold setUnionInplace
  obtain ⟨r, hr, _, h2, h3⟩ := setDiffLoop_total rhs lhs.length (max cap lhs.length) (by omega) (lhs.length + rhs.length + 1) 0 0 lhs
    (Nat.le_refl _) (by omega) (by omega) (by omega)
  refine ⟨inplaceMerge r lhs.length, by simp [hr], ?_⟩
  unfold inplaceMerge
  rw [List.length_merge]; simp; omega

/-- under-reserving by one (the seeded change C10-3) is unsafe: the second push reallocates while `set_difference` still reads `lhs` -/
theorem setUnion_underreserve_witness : setUnionInplace [1] [2, 3] 2 = none := by decide

example : setUnionInplace [1, 4] [2, 4, 7] 5 = some [1, 2, 4, 7] := by
  simp [setUnionInplace, setDiffLoop, pushLive, inplaceMerge]

/-! ## sequential_sorted_contains / veccmp -/

theorem skipLess_spec (v : List Nat) (e : Nat) : ∀ (fuel i : Nat), i ≤ v.length → v.length - i < fuel →
    ∃ i', skipLess v e fuel i = some i' ∧ i ≤ i' ∧ i' ≤ v.length := by
  intro fuel
  induction fuel with
  | zero => intro i _ h; omega
  | succ fuel ih =>
    intro i hi hf
    unfold skipLess
    by_cases h : i < v.length
    · simp only [h, if_true, List.getElem?_eq_getElem h]
      split
      · obtain ⟨i', h1, h2, h3⟩ := ih (i+1) (by omega) (by omega)
        exact ⟨i', h1, by omega, h3⟩
      · exact ⟨i, rfl, Nat.le_refl _, hi⟩
    · simp only [h, if_false]; exact ⟨i, rfl, Nat.le_refl _, hi⟩

theorem containsLoop_total (v elems : List Nat) : ∀ (fuel i j : Nat), i ≤ v.length → elems.length - j < fuel →
    ∃ r, containsLoop v elems fuel i j = some r := by
  intro fuel
  induction fuel with
  | zero => intro i j _ h; omega
  | succ fuel ih =>
    intro i j hi hf
    unfold containsLoop
    by_cases h : j < elems.length
    · simp only [h, if_true, List.getElem?_eq_getElem h]
      obtain ⟨i', h1, h2, h3⟩ := skipLess_spec v elems[j] (v.length + 1) i hi (by omega)
      simp only [h1]
      by_cases h4 : i' = v.length
      · simp [h4]
      · have h5 : i' < v.length := by omega
        simp only [h4, if_false, List.getElem?_eq_getElem h5]
        split
        · exact ⟨_, rfl⟩
        · exact ih (i'+1) (j+1) (by omega) (by omega)
    · simp only [h, if_false]; exact ⟨_, rfl⟩

theorem veccmpLoop_total (l r : List Nat) (h : l.length ≤ r.length) : ∀ (fuel i : Nat), l.length - i < fuel →
    ∃ x, veccmpLoop l r fuel i = some x := by
  intro fuel
  induction fuel with
  | zero => intro i h; omega
  | succ fuel ih =>
    intro i hf
    unfold veccmpLoop
    by_cases hi : i < l.length
    · have hr : i < r.length := by omega
      simp only [hi, if_true, List.getElem?_eq_getElem hi, List.getElem?_eq_getElem hr]
      split
      · exact ih (i+1) (by omega)
      · exact ⟨_, rfl⟩
    · simp only [hi, if_false]; exact ⟨_, rfl⟩

/-- **veccmp_no_oob** — under the documented precondition (equal sizes; `lhs.size() ≤ rhs.size()` suffices) no read is outside -/
theorem veccmp_no_oob (l r : List Nat) (h : l.length ≤ r.length) : ∃ x, veccmp l r = some x :=
  veccmpLoop_total l r h _ 0 (by omega)

/-- without it the scan runs off the shorter right-hand side -/
theorem veccmp_oob_witness : veccmp [1, 2] [1] = none := by decide

/-- **sortedContains_no_oob** — `sequential_sorted_contains(v, elems)` reads inside both vectors for ALL contents
    (under its asserted precondition `elems.size() ≤ v.size()`; the scanning branch needs no precondition at all) -/
theorem sortedContains_no_oob (v elems : List Nat) (_h : elems.length ≤ v.length) : ∃ r, sortedContains v elems = some r := by
  unfold sortedContains
  split
  · obtain ⟨x, hx⟩ := veccmp_no_oob v elems (by omega); rw [hx]; exact ⟨_, rfl⟩
  · exact containsLoop_total v elems _ 0 0 (by omega) (by omega)

example : sortedContains [1, 3, 5, 7] [3, 7] = some true := by decide
example : sortedContains [1, 3, 5, 7] [3, 6] = some false := by decide
example : sortedContains [1, 3] [1, 3] = some true := by decide

end AITB.CursorUtil
