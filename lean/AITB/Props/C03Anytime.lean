/-
  AITB.Props.C03Anytime — `anytime_sound`: soundness of the bounds of SARSOP / GapMin after EVERY prefix of the anytime history.

  The solvers are abstracted to an event system over the state
      Γ     lower-bound vectors (lbVList)                       Q     corner rows of the upper surface (ubQ)
      P     belief points with values (ubV)                     pool  per-action upper values computed so far (SARSOP: actionData row 1
      aug   per-action rows of belief points (GapMin: fibQ)            of every node; GapMin: `vals` of bestPromisingAction)
  Events (`Step`): add a point backup of vectors of Γ · keep any subset of Γ · compute a per-action value from the current surface ·
  overwrite a corner entry / push a point with the maximum of per-action values · push a point with its interpolated value ·
  keep any sub-family of the points · give a point a constant row · one run (any number of iterations) of FastInformedBound on the
  belief-augmented model whose SOSA rows are interpolation weights.  Sampling order, stopping rules, pruning heuristics and the
  bookkeeping of witness points only decide WHICH events happen; they cannot break `Sound`.

  Per-action values are kept in a pool because SARSOP's `backupNode` recomputes only some actions of a node and keeps older values
  for the others: a value that was an upper bound when computed stays one (soundness is time-invariant).
-/
import AITB.Props.C03Refs

namespace AITB.POMDP3
open AITB.MDP

structure AState where
  Γ : (Nat → Rat) → Prop
  Q : Nat → Nat → Rat
  P : (Nat → Rat) → Rat → Prop
  pool : (Nat → Rat) → Nat → Rat → Prop
  aug : (Nat → Rat) → (Nat → Rat) → Prop

/-- `u` is a value LPInterpolation / sawtoothInterpolation can return for `x` on the surface `(Q, P)`: the plane value, or a
    non-negative combination of corner values and stored point values whose weights reconstruct `x` -/
def IsInterp (m : POMDP) (st : AState) (x : Nat → Rat) (u : Rat) : Prop :=
  u = basicVal m.S m.A st.Q x ∨
  ∃ (N : Nat) (pts : Nat → Nat → Rat) (vals wc wp : Nat → Rat),
    (∀ i, i < N → st.P (pts i) (vals i)) ∧ (∀ s, s < m.S → 0 ≤ wc s) ∧ (∀ i, i < N → 0 ≤ wp i) ∧
    (∀ s, s < m.S → x s = wc s + sumTo N (fun i => wp i * pts i s)) ∧
    u = interpVal m.S m.A N st.Q vals wc wp

inductive Step (m : POMDP) : AState → AState → Prop
  /-- SARSOP::backupNode / PBVI inside GapMin: a point backup of stored vectors; an observation may be left out (zero vector) only
      if it has exactly zero probability at the belief `b` AND the backup is only ever read at `b`-like beliefs — here: if the
      reference function is non-negative at that successor for every belief (see `pointBackup_skip_sound_partial`); the event
      therefore only allows vectors of Γ -/
  | addVec (st : AState) (a : Nat) (ch : Nat → Nat → Rat) (ha : a < m.A) (hch : ∀ o, o < m.O → st.Γ (ch o)) :
      Step m st { st with Γ := fun α => st.Γ α ∨ α = backupVec m a ch }
  /-- any pruning of the lower bound (extractDominated, deltaPrune, extractBestAtPoint, PBVI's filtering) -/
  | keepVecs (st : AState) (Γ' : (Nat → Rat) → Prop) (h : ∀ α, Γ' α → st.Γ α) : Step m st { st with Γ := Γ' }
  /-- one per-action value of bestPromisingAction / backupNode at belief `b` -/
  | poolAdd (st : AState) (b : Nat → Rat) (a : Nat) (skip : Nat → Bool) (iv : Nat → Rat) (hb : NN b) (ha : a < m.A)
      (h : ∀ o, o < m.O → if skip o then (∀ s, s < m.S → bstep m b a o s = 0) else IsInterp m st (bstep m b a o) (iv o)) :
      Step m st { st with pool := fun b' a' u => st.pool b' a' u ∨ (b' = b ∧ a' = a ∧ u = promisingVal m b a skip iv) }
  /-- SARSOP::backupNode at a corner: `ubQ(s, a) = node.UB` -/
  | setCorner (st : AState) (s a : Nat) (u : Rat) (hs : s < m.S) (ha : a < m.A)
      (h : ∀ a', a' < m.A → ∃ u', st.pool (unit s) a' u' ∧ u' ≤ u) :
      Step m st { st with Q := fun s' a' => if s' = s ∧ a' = a then u else st.Q s' a' }
  /-- push a point with the maximum of its per-action values (SARSOP::backupNode, GapMin newUbBeliefs) -/
  | pushPoint (st : AState) (b : Nat → Rat) (u : Rat) (h : ∀ a', a' < m.A → ∃ u', st.pool b a' u' ∧ u' ≤ u) :
      Step m st { st with P := fun b' u' => st.P b' u' ∨ (b' = b ∧ u' = u) }
  /-- push a point with its interpolated value (GapMin: the beliefs on the path) -/
  | pushInterp (st : AState) (b : Nat → Rat) (u : Rat) (hb : NN b) (h : IsInterp m st b u) :
      Step m st { st with P := fun b' u' => st.P b' u' ∨ (b' = b ∧ u' = u) }
  /-- any pruning / reordering of the points (SARSOP's upper-bound pruning, GapMin::cleanUp on ubV) -/
  | keepPoints (st : AState) (P' : (Nat → Rat) → Rat → Prop) (h : ∀ b u, P' b u → st.P b u) : Step m st { st with P := P' }
  /-- GapMin: a new belief point gets the constant row `u` in fibQ -/
  | augPush (st : AState) (b : Nat → Rat) (u : Rat) (h : st.P b u) :
      Step m st { st with aug := fun b' r => st.aug b' r ∨ (b' = b ∧ r = fun _ => u) }
  | keepAug (st : AState) (aug' : (Nat → Rat) → (Nat → Rat) → Prop) (h : ∀ b r, aug' b r → st.aug b r) : Step m st { st with aug := aug' }
  /-- GapMin: `k` FastInformedBound iterations on the belief-augmented POMDP with `n` pseudo-states (the corners first) whose SOSA
      rows `W` reconstruct every successor from the pseudo-states; then ubQ, fibQ and the point values are read back -/
  | fibPass (st : AState) (n : Nat) (bel : Nat → Nat → Rat) (Q0 : Nat → Nat → Rat) (R' : Nat → Nat → Rat)
      (W : Nat → Nat → Nat → Nat → Rat) (k : Nat)
      (hn : m.S ≤ n) (hcorner : ∀ s, s < m.S → bel s = unit s)
      (hrows : ∀ i, i < n → (i < m.S ∧ ∀ a, a < m.A → Q0 i a = st.Q i a) ∨ (∃ r, st.aug (bel i) r ∧ ∀ a, a < m.A → Q0 i a = r a))
      (hR : ∀ i, i < n → ∀ a, a < m.A → R' i a = rew m (bel i) a)
      (hW0 : ∀ a o i j, 0 ≤ W a o i j)
      (hrec : ∀ a, a < m.A → ∀ o, o < m.O → ∀ i, i < n → ∀ s1, s1 < m.S → bstep m (bel i) a o s1 = sumTo n (fun j => W a o i j * bel j s1)) :
      Step m st { st with
        Q := Nat.iterate (fibStepW n m.A m.O m.γ R' W) k Q0,
        aug := fun b r => ∃ i, i < n ∧ b = bel i ∧ r = Nat.iterate (fibStepW n m.A m.O m.γ R' W) k Q0 i,
        P := fun b u => ∃ i, i < n ∧ b = bel i ∧ u = maxTo (m.A - 1) (Nat.iterate (fibStepW n m.A m.O m.γ R' W) k Q0 i) }

/-- the invariant: every component is sound w.r.t. the upper reference `U` (lower bounds) resp. the lower reference `L` (upper bounds) -/
structure Sound (m : POMDP) (U L : (Nat → Rat) → Rat) (st : AState) : Prop where
  vecs : ∀ α, st.Γ α → LBSound m U α
  q : QSound m L st.Q
  pts : ∀ b u, st.P b u → NN b ∧ Hop m L b ≤ u
  pool : ∀ b a u, st.pool b a u → NN b ∧ a < m.A ∧ qval m L b a ≤ u
  aug : ∀ b r, st.aug b r → NN b ∧ ∀ a, a < m.A → qval m L b a ≤ r a

/-- an interpolated value of a sound surface dominates `H L`, hence `L` -/
theorem isInterp_ge (m : POMDP) (hv : Valid m) (U L : (Nat → Rat) → Rat) (hL : Sublin m.S L) (st : AState) (hs : Sound m U L st)
    (x : Nat → Rat) (hx : NN x) (u : Rat) (h : IsInterp m st x u) : Hop m L x ≤ u := by
  rcases h with h | ⟨N, pts, vals, wc, wp, hP, hwc, hwp, hrec, hu⟩
  · rw [h]; exact Hop_le_basicVal m hv L hL st.Q hs.q x hx
  · rw [hu]
    exact interp_sound m.S N (Hop m L) (Sublin_Hop m hv L hL) (cornerVal m.A st.Q) vals pts
      (fun s hs' => Hop_unit_le_cornerVal m hv L st.Q hs.q s hs') (fun i hi => hs.pts _ _ (hP i hi)) x wc wp hwc hwp hrec

theorem max_pool_ge_Hop (m : POMDP) (hv : Valid m) (L : (Nat → Rat) → Rat) (pool : (Nat → Rat) → Nat → Rat → Prop)
    (hp : ∀ b a u, pool b a u → NN b ∧ a < m.A ∧ qval m L b a ≤ u) (b : Nat → Rat) (u : Rat)
    (h : ∀ a', a' < m.A → ∃ u', pool b a' u' ∧ u' ≤ u) : Hop m L b ≤ u := by
  obtain ⟨a, ha, he⟩ := Hop_attained m hv.A0 L b
  obtain ⟨u', hu', hle⟩ := h a ha
  rw [he]; exact le_trans (hp b a u' hu').2.2 hle

theorem iterate_inv {α : Type} (f : α → α) (P : α → Prop) (h : ∀ x, P x → P (f x)) (k : Nat) (x : α) (hx : P x) : P (Nat.iterate f k x) := by
  induction k generalizing x with
  | zero => exact hx
  | succ k ih => exact ih _ (h x hx)

/-- every event preserves the invariant -/
theorem Sound_step (m : POMDP) (hv : Valid m) (U L : (Nat → Rat) → Rat) (hU : SuperSol m U) (hL : Sublin m.S L) (hsub : SubSol m L)
    (st st' : AState) (hs : Sound m U L st) (h : Step m st st') : Sound m U L st' := by
  cases h with
  | addVec a ch ha hch =>
    refine { hs with vecs := ?_ }
    intro α hα
    rcases hα with h | h
    · exact hs.vecs α h
    · rw [h]; exact pointBackup_sound m hv U hU a ha ch (fun o ho => hs.vecs _ (hch o ho))
  | keepVecs Γ' h => exact { hs with vecs := fun α hα => hs.vecs α (h α hα) }
  | poolAdd b a skip iv hb ha h =>
    refine { hs with pool := ?_ }
    intro b' a' u hu
    rcases hu with hu | ⟨rfl, rfl, rfl⟩
    · exact hs.pool b' a' u hu
    · refine ⟨hb, ha, promisingVal_ge_qval m hv L b' a' skip iv (fun o ho => ?_)⟩
      have ho' := h o ho
      split
      · rename_i hsk
        rw [if_pos hsk] at ho'
        have : L (bstep m b' a' o) = L (fun _ => 0) := hL.loc _ _ ho'
        rw [this, hL.zero]
      · rename_i hsk
        rw [if_neg hsk] at ho'
        have hy := bstep_nonneg m hv b' hb a' o
        exact le_trans (hsub _ hy) (isInterp_ge m hv U L hL st hs _ hy _ ho')
  | setCorner s a u hs' ha h =>
    refine { hs with q := ?_ }
    intro s1 hs1 a1 ha1
    by_cases hc : s1 = s ∧ a1 = a
    · simp only [hc, and_self, if_true]
      obtain ⟨rfl, rfl⟩ := hc
      exact le_trans (qval_le_Hop m hv.A0 L _ a1 ha1) (max_pool_ge_Hop m hv L st.pool hs.pool (unit s1) u h)
    · simp only [hc, if_false]; exact hs.q s1 hs1 a1 ha1
  | pushPoint b u h =>
    refine { hs with pts := ?_ }
    intro b' u' hu
    rcases hu with hu | ⟨rfl, rfl⟩
    · exact hs.pts b' u' hu
    · obtain ⟨u0, hu0, _⟩ := h 0 hv.A0
      exact ⟨(hs.pool b' 0 u0 hu0).1, max_pool_ge_Hop m hv L st.pool hs.pool b' u' h⟩
  | pushInterp b u hb h =>
    refine { hs with pts := ?_ }
    intro b' u' hu
    rcases hu with hu | ⟨rfl, rfl⟩
    · exact hs.pts b' u' hu
    · exact ⟨hb, isInterp_ge m hv U L hL st hs b' hb u' h⟩
  | keepPoints P' h => exact { hs with pts := fun b u hb => hs.pts b u (h b u hb) }
  | augPush b u h =>
    refine { hs with aug := ?_ }
    intro b' r hr
    rcases hr with hr | ⟨rfl, rfl⟩
    · exact hs.aug b' r hr
    · have := hs.pts b' u h
      exact ⟨this.1, fun a ha => le_trans (qval_le_Hop m hv.A0 L b' a ha) this.2⟩
  | keepAug aug' h => exact { hs with aug := fun b r hb => hs.aug b r (h b r hb) }
  | fibPass n bel Q0 R' W k hn hcorner hrows hR hW0 hrec =>
    have hbel : ∀ i, i < n → NN (bel i) := by
      intro i hi
      rcases hrows i hi with ⟨hiS, _⟩ | ⟨r, hr, _⟩
      · rw [hcorner i hiS]; exact NN_unit i
      · exact (hs.aug _ r hr).1
    have h0 : ∀ i, i < n → ∀ a, a < m.A → qval m L (bel i) a ≤ Q0 i a := by
      intro i hi a ha
      rcases hrows i hi with ⟨hiS, hq⟩ | ⟨r, hr, hq⟩
      · rw [hq a ha, hcorner i hiS]; exact hs.q i hiS a ha
      · rw [hq a ha]; exact (hs.aug _ r hr).2 a ha
    have hk := iterate_inv (fibStepW n m.A m.O m.γ R' W) (fun Q => ∀ i, i < n → ∀ a, a < m.A → qval m L (bel i) a ≤ Q i a)
      (fun Q hQ => fibStepW_sound m hv L hL hsub n bel hbel R' hR W hW0 hrec Q hQ) k Q0 h0
    refine { vecs := hs.vecs, pool := hs.pool, q := ?_, pts := ?_, aug := ?_ }
    · intro s hs' a ha
      have := hk s (by omega) a ha
      rw [hcorner s hs'] at this; exact this
    · intro b u ⟨i, hi, hb, hu⟩
      subst hb; subst hu
      refine ⟨hbel i hi, ?_⟩
      obtain ⟨a, ha, he⟩ := Hop_attained m hv.A0 L (bel i)
      rw [he]
      exact le_trans (hk i hi a ha) (maxTo_ge (m.A - 1) _ a (by omega))
    · intro b r ⟨i, hi, hb, hr⟩
      subst hb; subst hr
      exact ⟨hbel i hi, fun a ha => hk i hi a ha⟩

/-- states reachable from `s0` by the events -/
inductive Reach (m : POMDP) (s0 : AState) : AState → Prop
  | init : Reach m s0 s0
  | step {s s' : AState} : Reach m s0 s → Step m s s' → Reach m s0 s'

/-- **anytime_sound**: after every prefix of the event history the state is sound, and hence
    * every stored lower-bound vector (in particular the one attaining `lb`) is below `U` at every belief,
    * every value the interpolation can return at a belief — in particular GapMin's `ub = LPInterpolation(b0)` — and every maximum of
      per-action values at a belief — SARSOP's `ub = root.UB` — dominates `L` there,
    * the corner rows stay a sound Q-function. -/
theorem anytime_sound (m : POMDP) (hv : Valid m) (U L : (Nat → Rat) → Rat) (hU : SuperSol m U) (hL : Sublin m.S L) (hsub : SubSol m L)
    (s0 st : AState) (h0 : Sound m U L s0) (hr : Reach m s0 st) :
    Sound m U L st ∧
    (∀ b0, NN b0 → ∀ α, st.Γ α → dotS m.S b0 α ≤ U b0) ∧
    (∀ b0, NN b0 → ∀ u, IsInterp m st b0 u → L b0 ≤ u) ∧
    (∀ b0, NN b0 → ∀ u, (∀ a, a < m.A → ∃ u', st.pool b0 a u' ∧ u' ≤ u) → L b0 ≤ u) ∧
    (∀ x, NN x → L x ≤ basicVal m.S m.A st.Q x) := by
  have hs : Sound m U L st := by
    induction hr with
    | init => exact h0
    | step _ hstep ih => exact Sound_step m hv U L hU hL hsub _ _ ih hstep
  refine ⟨hs, fun b0 hb α hα => hs.vecs α hα b0 hb, fun b0 hb u hu => ?_, fun b0 hb u hu => ?_, fun x hx => ?_⟩
  · exact le_trans (hsub b0 hb) (isInterp_ge m hv U L hL st hs b0 hb u hu)
  · exact le_trans (hsub b0 hb) (max_pool_ge_Hop m hv L st.pool hs.pool b0 u hu)
  · exact fib_ge_v m hv L hL hsub st.Q hs.q x hx

/-- the initial state of SARSOP and GapMin (blind vectors, FIB rows, the initial belief with its plane value) is sound w.r.t. the
    two reference families whenever the two start constants are safe -/
theorem initial_sound (m : POMDP) (hv : Valid m) (hS : 0 < m.S) (horizonB horizonF : Nat) (tolB tolF : Rat)
    (hsafeB : ∀ a, a < m.A → (Gen.C03Src.clamp ≤ 1 - m.γ ∨ 0 ≤ minRa m a))
    (hsafeF : Gen.C03Src.clamp ≤ 1 - m.γ ∨ maxRall m ≤ 0)
    (cU : Rat) (hcU : ∀ s, s < m.S → ∀ a, a < m.A → m.R s a ≤ (1 - m.γ) * cU)
    (cL : Nat → Rat) (hcL : ∀ a, a < m.A → ∀ s, s < m.S → (1 - m.γ) * cL a ≤ m.R s a)
    (hcC : ∀ a, a < m.A → cL a ≤ fibStartNum m / clampDen m.γ) (j k j' k' : Nat) (b0 : Nat → Rat) (hb0 : NN b0) :
    Sound m (upperRef m cU j k) (lowerRef m cL j' k')
      { Γ := fun α => ∃ a, a < m.A ∧ α = (blindAction m true horizonB tolB a).x.get,
        Q := (fib m horizonF tolF).x.get,
        P := fun b u => b = b0 ∧ u = basicVal m.S m.A (fib m horizonF tolF).x.get b0,
        pool := fun _ _ _ => False, aug := fun _ _ => False } := by
  have hV := lowerRef_sublin m hv cL j' k'
  have hsub := lowerRef_subSol m hv cL hcL j' k'
  have hle := lowerRef_le_const m hv cL _ (fib_start_safe m hv hsafeF) hcC j' k'
  have hQ : QSound m (lowerRef m cL j' k') (fib m horizonF tolF).x.get := by
    have hstart : QSound m (lowerRef m cL j' k') (mkMat m.S m.A (fun _ _ => fibStartNum m / clampDen m.γ)).get :=
      QSound_congr m _ (fun s hs a ha => (mkMat_get _ hs ha).symm) (const_QSound m hv _ _ (fib_start_safe m hv hsafeF) hle)
    have := tolLoop_inv (fibStepM m) (maxAbsDiffM m.S m.A) (checkDifferentSmall tolF 0) tolF
      (fun Q : Mat => QSound m (lowerRef m cL j' k') Q.get)
      (fun Q hQ => QSound_congr m _ (fun s hs a ha => (fibStepM_get m Q s a hs ha).symm) (fibStep_sound m hv _ hV hsub _ hQ))
      horizonF ⟨mkMat m.S m.A (fun _ _ => fibStartNum m / clampDen m.γ), tolF * 2, 0⟩ hstart
    unfold fib; exact this
  refine { vecs := ?_, q := hQ, pts := ?_, pool := fun _ _ _ h => h.elim, aug := fun _ _ h => h.elim }
  · rintro α ⟨a, ha, rfl⟩
    exact blind_fast_lower m hv hS a ha horizonB tolB (hsafeB a ha) cU hcU j k
  · rintro b u ⟨rfl, rfl⟩
    exact ⟨hb0, Hop_le_basicVal m hv _ hV _ hQ b hb0⟩

end AITB.POMDP3
