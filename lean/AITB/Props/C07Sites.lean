/-
  AITB.Props.C07Sites — the textual tie of property C07 (round 3), kept in its own module so that a changed site re-opens THIS
  obligation only (the theorems about the model stay audited).
-/
import AITB.Gen.C07Sites

namespace AITB.Exp

/-! ## §5 the tie: every statement the model was written from is, today, in that form -/

/-- **sites_current** — all sites the C07 model was written from (record / reset of the five experience classes, the cooperative
    model's sync forms and queries, `DDNGraph::getIds/getId/getSize/push`, `toIndexPartial`, `factorSpacePartial`, the tolerance
    helpers) have, in the source this check was run on, exactly the text they were modelled from (`tools/extract_c07.py` drops a
    site whose text changed, so this stops being provable). -/
theorem sites_current : AITB.Gen.C07Sites.asModelled.map (·.1) = AITB.Gen.C07Sites.expected := by decide

end AITB.Exp
