/-
  AITB.Props.C13UCVE — what UCVE's elimination-time pruning preserves.
  FULL STATEMENT one would like: pruning never changes the final maximiser.  NOT true of the code as it is: the bounds
  `x_l, x_u` of `beginRemoval` range over the factors still in the graph only (not the final factors of finished
  components, not joint values without a rule — the open findings — and not the eliminated agent's own factors that are
  still to be cross-summed).  PROVED (`ucve_pruning_sound_partial`): for every completion count `x` that does lie in
  `[x_l, x_u]`, every entry is matched or beaten AT `x` by an entry that survives the pruning — for any objective that is
  monotone in the count and in the domination order (in particular `m + sqrt((n+x)·h)`).
-/
import Mathlib.Data.Real.Basic
import Mathlib.Tactic.Linarith
import AITB.Model.UCVEPrune
import AITB.Props.C13Sqrt

namespace AITB.VE

theorem uDom_refl (a : UEntry) : uDom a a = true := by simp [uDom]

theorem uDom_trans (a b c : UEntry) (h1 : uDom a b = true) (h2 : uDom b c = true) : uDom a c = true := by
  simp only [uDom, Bool.and_eq_true, decide_eq_true_eq] at *
  exact ⟨le_trans h2.1 h1.1, le_trans h2.2 h1.2⟩

theorem insertND_covers (kept : List UEntry) (x e : UEntry) (h : e = x ∨ ∃ d ∈ kept, uDom d e = true) :
    ∃ d ∈ insertND kept x, uDom d e = true := by
  simp only [insertND]
  by_cases hany : kept.any (fun d => uDom d x) = true
  · simp only [hany, if_true]
    rcases h with rfl | h
    · obtain ⟨d, hd, hdx⟩ := List.any_eq_true.mp hany; exact ⟨d, hd, hdx⟩
    · exact h
  · have hany' : kept.any (fun d => uDom d x) = false := by simpa using hany
    simp only [hany', Bool.false_eq_true, if_false]
    rcases h with rfl | ⟨d, hd, hde⟩
    · exact ⟨e, List.mem_cons_self .., uDom_refl e⟩
    · by_cases hx : uDom x d = true
      · exact ⟨x, List.mem_cons_self .., uDom_trans x d e hx hde⟩
      · exact ⟨d, List.mem_cons_of_mem _ (List.mem_filter.mpr ⟨hd, by simpa using hx⟩), hde⟩

theorem insertND_subset (kept : List UEntry) (x d : UEntry) (h : d ∈ insertND kept x) : d = x ∨ d ∈ kept := by
  simp only [insertND] at h
  split at h
  · exact Or.inr h
  · rcases List.mem_cons.mp h with h | h
    · exact Or.inl h
    · exact Or.inr (List.mem_filter.mp h).1

theorem foldl_insertND_covers : ∀ (l kept : List UEntry) (e : UEntry), (e ∈ l ∨ ∃ d ∈ kept, uDom d e = true) →
    ∃ d ∈ l.foldl insertND kept, uDom d e = true
  | [], _, _, h => by
    rcases h with h | h
    · simp at h
    · exact h
  | x :: xs, kept, e, h => by
    simp only [List.foldl_cons]
    apply foldl_insertND_covers xs (insertND kept x) e
    rcases h with h | h
    · rcases List.mem_cons.mp h with h | h
      · exact Or.inr (insertND_covers kept x e (Or.inl h))
      · exact Or.inl h
    · exact Or.inr (insertND_covers kept x e (Or.inr h))

theorem foldl_insertND_subset : ∀ (l kept : List UEntry) (d : UEntry), d ∈ l.foldl insertND kept → d ∈ l ∨ d ∈ kept
  | [], _, _, h => Or.inr h
  | x :: xs, kept, d, h => by
    simp only [List.foldl_cons] at h
    rcases foldl_insertND_subset xs _ d h with h | h
    · exact Or.inl (List.mem_cons_of_mem _ h)
    · rcases insertND_subset kept x d h with h | h
      · exact Or.inl (by rw [h]; exact List.mem_cons_self ..)
      · exact Or.inr h

/-- `extractDominated` (as modelled): every entry is dominated by a surviving one; survivors are input entries -/
theorem pruneDom_covers (l : List UEntry) (e : UEntry) (h : e ∈ l) : ∃ d ∈ pruneDom l, uDom d e = true :=
  foldl_insertND_covers l [] e (Or.inl h)

theorem pruneDom_subset (l : List UEntry) (d : UEntry) (h : d ∈ pruneDom l) : d ∈ l := by
  rcases foldl_insertND_subset l [] d h with h | h
  · exact h
  · simp at h

theorem firstMaxIdx_spec (val : UEntry → ℝ) (gt : UEntry → UEntry → Bool) (hgt : ∀ a b, gt a b = true ↔ val b < val a) :
    ∀ (es : List UEntry) (best : UEntry) (bi i : Nat) (pre : List UEntry),
      (pre ++ es)[bi]? = some best → i = pre.length → (∀ e ∈ pre, val e ≤ val best) →
        (pre ++ es)[(firstMaxIdx gt best bi i es).1]? = some (firstMaxIdx gt best bi i es).2 ∧
        ∀ e ∈ pre ++ es, val e ≤ val (firstMaxIdx gt best bi i es).2
  | [], best, bi, i, pre, hb, _, hle => by
    simp only [firstMaxIdx, List.append_nil] at hb ⊢
    exact ⟨hb, hle⟩
  | e :: es, best, bi, i, pre, hb, hi, hle => by
    simp only [firstMaxIdx]
    have happ : pre ++ e :: es = (pre ++ [e]) ++ es := by simp
    by_cases h : gt e best = true
    · simp only [h, if_true]
      rw [happ]
      apply firstMaxIdx_spec val gt hgt es e i (i+1) (pre ++ [e])
      · rw [← happ, hi]; simp
      · simp [hi]
      · intro x hx
        rcases List.mem_append.mp hx with hx | hx
        · exact le_trans (hle x hx) (le_of_lt ((hgt e best).mp h))
        · simp at hx; rw [hx]
    · simp only [h, Bool.false_eq_true, if_false]
      rw [happ]
      apply firstMaxIdx_spec val gt hgt es best bi (i+1) (pre ++ [e])
      · rw [← happ]; exact hb
      · simp [hi]
      · intro x hx
        rcases List.mem_append.mp hx with hx | hx
        · exact hle x hx
        · simp at hx; rw [hx]
          by_contra hc
          exact h ((hgt e best).mpr (not_le.mp hc))

theorem mem_or_eraseIdx : ∀ (l : List UEntry) (i : Nat) (e : UEntry), e ∈ l → l[i]? = some e ∨ e ∈ l.eraseIdx i
  | [], _, _, h => by simp at h
  | x :: xs, 0, e, h => by
    rcases List.mem_cons.mp h with h | h
    · exact Or.inl (by simp [h])
    · exact Or.inr (by simpa using h)
  | x :: xs, i+1, e, h => by
    rcases List.mem_cons.mp h with h | h
    · exact Or.inr (by simp [h])
    · rcases mem_or_eraseIdx xs i e h with h' | h'
      · exact Or.inl (by simpa using h')
      · exact Or.inr (by simp [h'])

/-- **`ucve_pruning_sound_partial`** — for ANY objective `val e x` (entry `e`, completion count `x`) that is monotone in `x`
    and in the domination order, with the two comparisons of the code deciding what their names say: whenever the true
    completion count `x` lies within the bounds `[x_l, x_u]` used for the pruning, every input entry is matched or beaten at
    `x` by an entry that survives; and survivors are input entries. -/
theorem ucve_pruning_sound_partial (val : UEntry → ℚ → ℝ) (xl xu : ℚ)
    (hmono : ∀ e x y, x ≤ y → val e x ≤ val e y)
    (hdom : ∀ a b x, uDom a b = true → val b x ≤ val a x)
    (gtL leU : UEntry → UEntry → Bool)
    (hgt : ∀ a b, gtL a b = true ↔ val b xl < val a xl)
    (hle : ∀ e b, leU e b = true ↔ val e xu ≤ val b xl)
    (entries : List UEntry) :
    (∀ k ∈ ucvePrune gtL leU entries, k ∈ entries) ∧
    ∀ x, xl ≤ x → x ≤ xu → ∀ e ∈ entries, ∃ k ∈ ucvePrune gtL leU entries, val e x ≤ val k x := by
  unfold ucvePrune
  cases hp : pruneDom entries with
  | nil =>
    refine ⟨by simp, ?_⟩
    intro x _ _ e he
    obtain ⟨d, hd, _⟩ := pruneDom_covers entries e he
    rw [hp] at hd; simp at hd
  | cons e0 es =>
    obtain ⟨hidx, hmax⟩ := firstMaxIdx_spec (fun e => val e xl) gtL hgt es e0 0 1 [e0] (by simp) (by simp)
      (by intro e he; simp at he; rw [he])
    simp only [List.singleton_append] at hidx hmax
    have hbest_mem : (firstMaxIdx gtL e0 0 1 es).2 ∈ e0 :: es := List.mem_of_getElem? hidx
    constructor
    · intro k hk
      simp only [List.mem_cons, List.mem_filter] at hk
      rcases hk with rfl | ⟨hk, _⟩
      · exact pruneDom_subset entries _ (by rw [hp]; exact hbest_mem)
      · exact pruneDom_subset entries _ (by rw [hp]; exact List.mem_of_mem_eraseIdx hk)
    · intro x hxl hxu e he
      obtain ⟨d, hd, hde⟩ := pruneDom_covers entries e he
      rw [hp] at hd
      have h1 : val e x ≤ val d x := hdom d e x hde
      rcases mem_or_eraseIdx (e0 :: es) (firstMaxIdx gtL e0 0 1 es).1 d hd with h | h
      · rw [hidx] at h; injection h with h
        exact ⟨_, List.mem_cons_self .., by rw [h]; exact h1⟩
      · by_cases hrm : leU d (firstMaxIdx gtL e0 0 1 es).2 = true
        · refine ⟨_, List.mem_cons_self .., ?_⟩
          calc val e x ≤ val d x := h1
            _ ≤ val d xu := hmono d x xu hxu
            _ ≤ val (firstMaxIdx gtL e0 0 1 es).2 xl := (hle _ _).mp hrm
            _ ≤ val (firstMaxIdx gtL e0 0 1 es).2 x := hmono _ xl x hxl
        · exact ⟨d, List.mem_cons_of_mem _ (List.mem_filter.mpr ⟨h, by simpa using hrm⟩), h1⟩

end AITB.VE
