/-
  AITB.Props.C03GapMinLb — GapMin's lower bound: `pbvi(pomdp, lbBeliefs, ValueFunction{lbVList})` is PBVI warm-started from the current
  vector list and run for as many timesteps as its tolerance allows; `lbVList` becomes the last timestep.  Every timestep consists of point
  backups of the previous one (any belief set, any pruning), so soundness w.r.t. a super-solution is inherited by every timestep — in
  particular by the list GapMin keeps, whenever the inner loop stops.
-/
import AITB.Props.C03GapMin

namespace AITB.POMDP3
open AITB.MDP

/-- warm-started PBVI: all timesteps are sound w.r.t. any super-solution the start list is sound for -/
theorem pbvi_warm_sound (m : POMDP) (hv : Valid m) (U : (Nat → Rat) → Rat) (hU : SuperSol m U) (Γ : Nat → (Nat → Rat) → Prop)
    (h0 : ∀ α, Γ 0 α → LBSound m U α)
    (hstep : ∀ t α, Γ (t+1) α → ∃ a, a < m.A ∧ ∃ ch : Nat → Nat → Rat, (∀ o, o < m.O → Γ t (ch o)) ∧ ∀ s, s < m.S → α s = backupVec m a ch s) :
    ∀ t α, Γ t α → LBSound m U α := by
  intro t
  induction t with
  | zero => exact h0
  | succ t ih =>
    intro α hα
    obtain ⟨a, ha, ch, hch, he⟩ := hstep t α hα
    exact LBSound_congr m U (fun s hs => (he s hs).symm) (pointBackup_sound m hv U hU a ha ch (fun o ho => ih _ (hch o ho)))

/-- the same as reachability in the event system: from a state whose vector set contains timestep 0, the state whose vector set is
    timestep `t` (everything else untouched) is reachable — `addVec` for each new vector, then `keepVecs` -/
theorem pbvi_warm_value (m : POMDP) (hv : Valid m) (U : (Nat → Rat) → Rat) (hU : SuperSol m U) (Γ : Nat → (Nat → Rat) → Prop)
    (h0 : ∀ α, Γ 0 α → LBSound m U α)
    (hstep : ∀ t α, Γ (t+1) α → ∃ a, a < m.A ∧ ∃ ch : Nat → Nat → Rat, (∀ o, o < m.O → Γ t (ch o)) ∧ ∀ s, s < m.S → α s = backupVec m a ch s)
    (t : Nat) (b0 : Nat → Rat) (hb0 : NN b0) (lb : Rat) (hlb : ∃ α, Γ t α ∧ lb = dotS m.S b0 α) : lb ≤ U b0 := by
  obtain ⟨α, hα, rfl⟩ := hlb
  exact pbvi_warm_sound m hv U hU Γ h0 hstep t α hα b0 hb0

end AITB.POMDP3
