/-
  AITB.Props.C19b — round 3: rPOMCP's particle bookkeeping and the head node's sampling belief
  (include/AIToolbox/POMDP/Algorithms/Utils/rPOMCPGraph.hpp: `HeadBeliefNode::sampleBelief`,
  `getMostCommonParticle`, the promotion constructor; `BeliefNode::updateBeliefAndKnowledge` as a history invariant).

  * `sampleWalk_spec` / `_complete` / `_oob`: the subtract-until-`< 1` walk of `sampleBelief()` returns, for every draw
    in `[1, Σ counts]`, the entry whose cumulative interval contains the draw — always inside the vector, never an entry
    with count 0 (the phantom `trackBelief_[maxS_]` entry) — every positive entry is reachable, and any draw above the
    total leaves the vector (why `beliefSize_` must be exactly the total).
  * `mostCommon_spec`: `getMostCommonParticle` returns a state of maximal positive count (or nothing was assigned).
  * `headOk_sound`, `headFreshOk_sound`: the checkers the driver evaluates on the implementation's private
    `sampleBelief_` / `beliefSize_` imply that every possible draw yields a particle of the promoted node / a state in
    the support of the given belief.
  * `RPart` (history invariant, any interleaving of calls/horizons): below the root, the particle types of a node are
    listed once, their counts add up to the node's visit count `N`, every tracked particle is the outcome of a possible
    transition from a particle of the parent (`particles_total`, `particles_consistent`), and — max-of-belief — the
    knowledge measure is exactly `max_s count(s) / N ∈ [0, 1]` (`km_is_max_frequency`).
  * `promoted_head_total`: after a promotion the head's particle total is the promoted node's `N` and positive
    (`uniform_int_distribution(1, beliefSize_)` is well-formed).
  * `Ext`, `Sim.ext`, `advance_extends_subtree` (MCTS / POMCP): simulations only extend the tree, so after
    `sampleAction(a, key, h)` with any number of iterations every node of the promoted subtree is still there with counts at
    least as large, its old particles a prefix of the new list and its old returns still averaged in.
  * `RUp`, `rsim_up`, `up_is_N_times_V` (repaired leaf branch, fixes/C19-4): the datapoints a node has passed upwards add up to
    `N · V` after every history; `leaf_visit_breaks_sum_counterexample` for the source as first read.
  * `advance_without_tree_restarts`, `first_advance_is_fresh`, `advance_defined_partial`, `…_counterexample`,
    `…_as_extracted` (fixes/C19-3): the advancing overload on a planner without a tree.
  * `nodes_hold_particles`, `advance_promotes_existing_child` (MCTS / POMCP): every node below the root holds a particle, so
    POMCP's "lost track of the belief" restart is dead code and an advance on an existing child always keeps the subtree;
    `R.RExP`, `R.advance_promotes_existing_child`: the same for rPOMCP's `isSampleBeliefEmpty()` restart;
    `R.RExt`, `R.rsim_ext`, `R.advance_extends_subtree`: rPOMCP simulations only extend the tree.
  * `ReachX`, `ReachX.inv`, `node_count_is_sum_x`, `v_is_mean_x`, `particles_consistent_x`: histories in which
    `setExploration` changes the bonus between calls keep every invariant.
  * `rup_replaces_value`: the datapoint a node passes upwards is the one that turns a mean of `N - 1` copies of the old
    node value into `N` copies of the new one.
-/
import AITB.Props.C19

namespace AITB.Tree

/-! ### Simulations only ever extend the tree (what "keeps exactly the matching subtree" means once iterations follow) -/

/-- `t'` extends `t`: no node disappears, no count goes down, particle lists grow at the end, the returns already
    averaged into an action stay (new ones are consed in front) -/
structure Ext (t t' : Tree) : Prop where
  ex : ∀ q, t.ex q = true → t'.ex q = true
  nN : ∀ q, t.nN q ≤ t'.nN q
  aN : ∀ q a, t.aN q a ≤ t'.aN q a
  parts : ∀ q, t.ex q = true → t.parts q <+: t'.parts q
  rets : ∀ q a, t.rets q a <:+ t'.rets q a

theorem Ext.refl (t : Tree) : Ext t t :=
  ⟨fun _ h => h, fun _ => Nat.le_refl _, fun _ _ => Nat.le_refl _, fun _ _ => List.prefix_refl _, fun _ _ => List.suffix_refl _⟩

theorem Ext.trans {a b c : Tree} (h1 : Ext a b) (h2 : Ext b c) : Ext a c :=
  ⟨fun q h => h2.ex q (h1.ex q h), fun q => Nat.le_trans (h1.nN q) (h2.nN q), fun q x => Nat.le_trans (h1.aN q x) (h2.aN q x),
   fun q h => (h1.parts q h).trans (h2.parts q (h1.ex q h)), fun q x => (h1.rets q x).trans (h2.rets q x)⟩

theorem Ext.incN (t : Tree) (p : Path) : Ext t (t.incN p) := by
  refine ⟨fun _ h => h, fun q => ?_, fun _ _ => Nat.le_refl _, fun _ _ => List.prefix_refl _, fun _ _ => List.suffix_refl _⟩
  show t.nN q ≤ upd t.nN p (t.nN p + 1) q
  by_cases hq : q = p
  · subst hq; simp [upd]
  · simp [upd, hq]

theorem Ext.update (t : Tree) (p : Path) (a : Nat) (rew : Rat) : Ext t (t.update p a rew) := by
  refine ⟨fun _ h => h, fun _ => Nat.le_refl _, fun q b => ?_, fun _ _ => List.prefix_refl _, fun q b => ?_⟩
  · show t.aN q b ≤ upd t.aN p (updN (t.aN p) a (t.aN p a + 1)) q b
    by_cases hq : q = p
    · subst hq
      by_cases hb : b = a
      · subst hb; simp [upd, updN]
      · simp [upd, updN, hb]
    · simp [upd, hq]
  · show t.rets q b <:+ upd t.rets p (updN (t.rets p) a (rew :: t.rets p a)) q b
    by_cases hq : q = p
    · subst hq
      by_cases hb : b = a
      · subst hb; simp only [upd, updN, if_true]; exact List.suffix_cons _ _
      · simp only [upd, updN, hb, if_true, if_false]; exact List.suffix_refl _
    · simp only [upd, hq, if_false]; exact List.suffix_refl _

theorem Ext.descend {m : Mdl} {H : Nat} {t t1 : Tree} {p : Path} {depth : Nat} {st : Step} {mode : Mode}
    (hd : descend m H t p depth st = some (t1, mode)) : Ext t t1 := by
  obtain ⟨d1, d2, _, d4, _, _, hshape, _, _⟩ := descend_spec hd
  cases hshape with
  | created hc e1 e2 _ _ _ =>
    refine ⟨fun q hq => ?_, fun q => by rw [d1], fun q a => by rw [d2], fun q hq => ?_,
      fun q a => by rw [d4]; exact List.suffix_refl _⟩
    · rw [e1]
      by_cases hqc : q = p ++ [(st.a, m.key st)]
      · simp [upd, hqc]
      · simp only [upd, hqc, if_false]; exact hq
    · rw [e2]
      have hqc : q ≠ p ++ [(st.a, m.key st)] := by
        intro h; rw [h, hc] at hq; simp at hq
      simp only [upd, hqc, if_false]; exact List.prefix_refl _
  | pushed hc e1 e2 _ =>
    refine ⟨fun q hq => by rw [e1]; exact hq, fun q => by rw [d1], fun q a => by rw [d2],
      fun q _ => ?_, fun q a => by rw [d4]; exact List.suffix_refl _⟩
    rw [e2]
    by_cases hqc : q = p ++ [(st.a, m.key st)]
    · subst hqc; simp only [upd, if_true]; exact List.prefix_append _ _
    · simp only [upd, hqc, if_false]; exact List.prefix_refl _
  | untouched e _ _ => rw [e]; exact Ext.refl t

/-- **every `simulate` call only extends the tree** -/
theorem Sim.ext {m : Mdl} {H : Nat} {t t' : Tree} {p : Path} {s depth : Nat} {used : List Step} {r : Rat}
    (h : Sim m H t p s depth used t' r) : Ext t t' := by
  induction h with
  | stop t p s depth st t1 _ _ _ hd =>
    exact ((Ext.incN t p).trans (Ext.descend hd)).trans (Ext.update t1 p st.a _)
  | roll t p s depth st t1 n used fr _ _ _ hd _ =>
    exact ((Ext.incN t p).trans (Ext.descend hd)).trans (Ext.update t1 p st.a _)
  | deeper t p s depth st t1 t2 used fr _ _ _ hd _ ih =>
    exact (((Ext.incN t p).trans (Ext.descend hd)).trans ih).trans (Ext.update t2 p st.a _)

theorem Sims.ext {m : Mdl} {H n : Nat} {t t' : Tree} {useds : List (List Step)} (h : Sims m H n t useds t') : Ext t t' := by
  induction h with
  | zero t => exact Ext.refl t
  | succ n t t1 t2 s used r useds _ hS _ ih => exact hS.ext.trans ih

/-- **advance_extends_subtree.**  `sampleAction(a, key, horizon)` on an existing child (POMCP: holding a particle), with
    any number of iterations: the resulting tree *extends* the re-rooted `(a, key)` subtree of the old tree — every node
    of that subtree is still there, under the same path, with counts at least as large, the old particles as a prefix
    of its particle list and the old returns still among those averaged into its action values. -/
theorem advance_extends_subtree {m : Mdl} {t t' : Tree} {a k : Nat} {parts : List Nat} {nA H iters : Nat} {log rest : List Step}
    (hc : call m t (Op.adv a k parts nA H iters) log = some (t', rest)) (ha : a < t.nA []) (hex : t.ex [(a, k)] = true)
    (hp : m.pomcp = true → t.parts [(a, k)] ≠ []) : Ext (t.reroot (a, k)) t' := by
  unfold call at hc
  split at hc
  · simp at hc
  · rename_i t0 H' iters' hprep
    have h0 : Ext (t.reroot (a, k)) t0 := by
      rcases advance_keeps_subtree hprep with ⟨_, hq⟩ | ⟨hno, _⟩
      · refine ⟨fun q h => ?_, fun q => ?_, fun q b => ?_, fun q _ => ?_, fun q b => ?_⟩
        · rw [(hq q).1]; exact h
        · rw [(hq q).2.1]; exact Nat.le_refl _
        · rw [(hq q).2.2.2.1]; exact Nat.le_refl _
        · rw [(hq q).2.2.1]; exact List.prefix_refl _
        · rw [(hq q).2.2.2.2.2.1]; exact List.suffix_refl _
      · exfalso
        rcases hno with h0 | h1 | ⟨h1, h2⟩
        · omega
        · rw [hex] at h1; simp at h1
        · exact hp h1 h2
    split at hc
    · simp at hc; obtain ⟨rfl, _⟩ := hc; exact h0
    · obtain ⟨useds, _, hS⟩ := runSims_sound m _ _ _ _ _ _ hc
      exact h0.trans hS.ext


/-! ### `sampleAction(a, key, horizon)` without a tree to reuse (defect C19-3)

  Full-strength statement (what the documentation promises and the property asks for: "advancing … keeps exactly the
  matching subtree (or restarts cleanly)", for all sequences of calls): *an advance is defined on every tree, whatever `a`;
  when the root has no action node `a` — in particular on a planner that has not been called yet — it is a fresh call.*
  It holds for the repaired source (`advGuard = true`); the source as first read indexes `graph_.children[a]`
  unconditionally, which the model renders as `none` (undefined behaviour). -/

/-- **advance_without_tree_restarts** (needs the bounds test of fixes/C19-3): no action node `a` at the root ⇒ clean restart -/
theorem advance_without_tree_restarts {m : Mdl} (hg : m.advGuard = true) (t : Tree) (a k : Nat) (parts : List Nat) (nA H iters : Nat)
    (ha : t.nA [] ≤ a) :
    prepare m t (Op.adv a k parts nA H iters) = some (Tree.fresh parts nA (H + m.overrun), H, iters) := by
  have hn : ¬ a < t.nA [] := by omega
  simp [prepare, hn, hg]

/-- the advancing overload as the very first call on a planner is the fresh call it is documented to be -/
theorem first_advance_is_fresh {m : Mdl} (hg : m.advGuard = true) (a k : Nat) (parts : List Nat) (nA H iters : Nat) (log : List Step) :
    call m Tree.init (Op.adv a k parts nA H iters) log = call m Tree.init (Op.fresh parts nA H iters) log := by
  have h0 : Tree.init.nA [] ≤ a := by simp [Tree.init, Tree.fresh]
  simp only [call, advance_without_tree_restarts hg Tree.init a k parts nA H iters h0]
  rfl

/-- `_partial`: what holds without the bounds test — the advance is defined only when the root has an action node `a` -/
theorem advance_defined_partial {m : Mdl} {t t0 : Tree} {a k : Nat} {parts : List Nat} {nA H iters H' iters' : Nat}
    (hp : prepare m t (Op.adv a k parts nA H iters) = some (t0, H', iters')) : m.advGuard = true ∨ a < t.nA [] := by
  by_cases ha : a < t.nA []
  · exact Or.inr ha
  · left
    simp only [prepare, ha, if_false] at hp
    by_cases hg : m.advGuard = true
    · exact hg
    · simp [hg] at hp

/-- **counterexample** (the model shares the defect): the source as first read, a planner on which nothing has been called,
    `sampleAction(0, 0, 2)`: `graph_.children[0]` on an empty vector -/
theorem advance_before_first_call_counterexample :
    prepare { exM with advGuard := false } Tree.init (Op.adv 0 0 [0] 2 2 2) = none := by decide

/-- for the source as it is now (regenerated by tools/extract_c19.py): the first-call advance is defined exactly when the
    bounds test is there -/
theorem advance_before_first_call_as_extracted {m : Mdl} (a k : Nat) (parts : List Nat) (nA H iters : Nat) :
    (m.advGuard = Gen.C19.mctsAdvGuard →
      (prepare m Tree.init (Op.adv a k parts nA H iters)).isSome = Gen.C19.mctsAdvGuard) ∧
    (m.advGuard = Gen.C19.pomcpAdvGuard →
      (prepare m Tree.init (Op.adv a k parts nA H iters)).isSome = Gen.C19.pomcpAdvGuard) := by
  have hn : ¬ a < Tree.init.nA [] := by simp [Tree.init, Tree.fresh]
  refine ⟨fun h => ?_, fun h => ?_⟩
  · simp only [prepare, hn, if_false, h]
    cases Gen.C19.mctsAdvGuard <;> simp
  · simp only [prepare, hn, if_false, h]
    cases Gen.C19.pomcpAdvGuard <;> simp

example : ∃ m : Mdl, m.advGuard = true ∧ (call m Tree.init (Op.adv 1 0 [0] 2 2 0) []).isSome = true :=
  ⟨{ exM with advGuard := true }, rfl, by decide⟩

/-- **horizon 1**: with the repaired rollout length every simulation of a `sampleAction(·, 1)` call is exactly one call of
    the generative model (no descent, no rollout: `depth + 1 < maxDepth_` is false at the root) -/
theorem horizon_one_single_call {m : Mdl} (hoff : m.rollOff ≤ -1) {t t' : Tree} {p : Path} {s : Nat} {used : List Step} {r : Rat}
    (h : Sim m 1 t p s 0 used t' r) : used.length = 1 := by
  have h1 := h.length_le (by omega)
  have h0 : m.overrun = 0 := by unfold Mdl.overrun; omega
  have h2 : 1 ≤ used.length := by cases h <;> simp
  omega


/-! ### Every node below the root holds a particle: the "lost track of the belief" restart of POMCP is dead code -/

/-- below the root, a node that exists holds at least one particle (POMCP: `belief`; MCTS: the ghost list of states that
    passed through it) -/
def PNE (t : Tree) : Prop := ∀ q, q ≠ [] → t.ex q = true → t.parts q ≠ []

theorem PNE.of_eq {t t1 : Tree} (h : PNE t) (e1 : t1.ex = t.ex) (e2 : t1.parts = t.parts) : PNE t1 := by
  intro q hq hex; rw [e2]; rw [e1] at hex; exact h q hq hex

theorem PNE.descend {m : Mdl} {H : Nat} {t t1 : Tree} {p : Path} {depth : Nat} {st : Step} {mode : Mode}
    (hd : descend m H t p depth st = some (t1, mode)) (h : PNE t) : PNE t1 := by
  obtain ⟨_, _, _, _, _, _, hshape, _, _⟩ := descend_spec hd
  cases hshape with
  | created hc e1 e2 _ _ _ =>
    intro q hq hex
    rw [e2]
    by_cases hqc : q = p ++ [(st.a, m.key st)]
    · simp [upd, hqc]
    · rw [e1] at hex
      simp only [upd, hqc, if_false] at hex ⊢
      exact h q hq hex
  | pushed hc e1 e2 _ =>
    intro q hq hex
    rw [e2]
    by_cases hqc : q = p ++ [(st.a, m.key st)]
    · simp [upd, hqc]
    · rw [e1] at hex
      simp only [upd, hqc, if_false]
      exact h q hq hex
  | untouched e _ _ => rw [e]; exact h

theorem Sim.pne {m : Mdl} {H : Nat} {t t' : Tree} {p : Path} {s depth : Nat} {used : List Step} {r : Rat}
    (h : Sim m H t p s depth used t' r) : PNE t → PNE t' := by
  induction h with
  | stop t p s depth st t1 _ _ _ hd =>
    intro hI
    exact (PNE.descend hd (hI.of_eq (t1 := t.incN p) rfl rfl)).of_eq rfl rfl
  | roll t p s depth st t1 n used fr _ _ _ hd _ =>
    intro hI
    exact (PNE.descend hd (hI.of_eq (t1 := t.incN p) rfl rfl)).of_eq rfl rfl
  | deeper t p s depth st t1 t2 used fr _ _ _ hd _ ih =>
    intro hI
    exact (ih (PNE.descend hd (hI.of_eq (t1 := t.incN p) rfl rfl))).of_eq rfl rfl

theorem Sims.pne {m : Mdl} {H n : Nat} {t t' : Tree} {useds : List (List Step)} (h : Sims m H n t useds t') : PNE t → PNE t' := by
  induction h with
  | zero t => exact id
  | succ n t t1 t2 s used r useds _ hS _ ih => exact fun hI => ih (hS.pne hI)

theorem PNE.fresh (parts : List Nat) (nA b : Nat) : PNE (Tree.fresh parts nA b) := by
  intro q hq hex
  simp [Tree.fresh, hq] at hex

theorem PNE.reroot {t : Tree} (h : PNE t) (k : Key) : PNE (t.reroot k) := fun q _ hex => h (k :: q) (by simp) hex

theorem prepare_pne {m : Mdl} {t t0 : Tree} {op : Op} {H iters : Nat} (h : PNE t) (hp : prepare m t op = some (t0, H, iters)) : PNE t0 := by
  cases op with
  | fresh parts nA H' iters' =>
    simp [prepare] at hp
    obtain ⟨rfl, _, _⟩ := hp
    exact PNE.fresh _ _ _
  | adv a k parts nA H' iters' =>
    rcases advance_keeps_subtree hp with ⟨_, hq⟩ | ⟨_, rfl⟩
    · intro q hq0 hex
      rw [(hq q).2.2.1]
      rw [(hq q).1] at hex
      exact h ((a, k) :: q) (by simp) hex
    · exact PNE.fresh _ _ _

theorem Reach.pne {m : Mdl} {t : Tree} (h : Reach m t) : PNE t := by
  induction h with
  | init => exact PNE.fresh [] 0 0
  | call t t' op log rest _ hc ih =>
    unfold AITB.Tree.call at hc
    split at hc
    · simp at hc
    · rename_i t0 H iters hp
      have h0 := prepare_pne ih hp
      split at hc
      · simp at hc; obtain ⟨rfl, _⟩ := hc; exact h0
      · obtain ⟨useds, _, hS⟩ := runSims_sound m _ _ _ _ _ _ hc
        exact hS.pne h0

/-- **nodes_hold_particles.**  After any history of calls every node below the root holds at least one particle. -/
theorem nodes_hold_particles {m : Mdl} {t : Tree} (h : Reach m t) (q : Path) (hq : q ≠ []) (hex : t.ex q = true) :
    t.parts q ≠ [] := h.pne q hq hex

/-- **advance_promotes_existing_child.**  On a reachable tree, `sampleAction(a, key, horizon)` with an action node `a` and an
    existing `(a, key)` child *always* keeps exactly that subtree: POMCP's "lost track of the belief" restart
    (`if ( ! graph_.belief.size() )`) is never taken. -/
theorem advance_promotes_existing_child {m : Mdl} {t t0 : Tree} (h : Reach m t) {a k : Nat} {parts : List Nat}
    {nA H iters H' iters' : Nat} (ha : a < t.nA []) (hex : t.ex [(a, k)] = true)
    (hp : prepare m t (Op.adv a k parts nA H iters) = some (t0, H', iters')) :
    ∀ q, t0.ex q = t.ex ((a, k) :: q) ∧ t0.nN q = t.nN ((a, k) :: q) ∧ t0.parts q = t.parts ((a, k) :: q) ∧
      t0.aN q = t.aN ((a, k) :: q) ∧ t0.aV q = t.aV ((a, k) :: q) := by
  rcases advance_keeps_subtree hp with ⟨_, hq⟩ | ⟨hno, _⟩
  · intro q
    exact ⟨(hq q).1, (hq q).2.1, (hq q).2.2.1, (hq q).2.2.2.1, (hq q).2.2.2.2.1⟩
  · exfalso
    rcases hno with h0 | h1 | ⟨_, h2⟩
    · omega
    · rw [hex] at h1; simp at h1
    · exact nodes_hold_particles h [(a, k)] (by simp) hex h2


/-! ### Histories in which the exploration constant is changed between calls (`setExploration`)

  `Reach m` fixes the planner description `m` for the whole history.  The public setters change only what the UCT scan
  sees: `setExploration` the bonus (`m.bonus`; the driver's near-tie slack `uctSlack` is bookkeeping of the check).  None of
  the invariants mentions either field, so they survive a change of both between any two calls. -/

/-- `m'` is `m` with another exploration bonus / slack -/
def SameButBonus (m m' : Mdl) : Prop := m' = { m with bonus := m'.bonus, uctSlack := m'.uctSlack }

theorem Inv.change_bonus {m m' : Mdl} (hm : SameButBonus m m') {rmin rmax : Rat} {t : Tree} (h : Inv m rmin rmax t) :
    Inv m' rmin rmax t := by
  unfold SameButBonus at hm
  rw [hm]
  exact ⟨h.stat, fun hb => h.rng ⟨hb.g0, hb.r⟩, ⟨h.str.nex, h.str.pre, h.str.par⟩, h.zero, h.nodes, h.root⟩

/-- trees reachable by any history of public calls with the exploration constant changed at will between calls -/
inductive ReachX (m : Mdl) : Tree → Prop
  | init : ReachX m Tree.init
  | call (m' : Mdl) (t t' : Tree) (op : Op) (log rest : List Step) : SameButBonus m m' → ReachX m t →
      AITB.Tree.call m' t op log = some (t', rest) → ReachX m t'

theorem SameButBonus.symm' {m m' : Mdl} (h : SameButBonus m m') : SameButBonus m' m := by
  unfold SameButBonus at h ⊢
  rw [h]

/-- **every invariant of `Reach` holds on `ReachX`**: counts, means, ranges, particles, node set — whatever exploration
    constants the calls of the history were made with -/
theorem ReachX.inv {m : Mdl} (rmin rmax : Rat) {t : Tree} (h : ReachX m t) : Inv m rmin rmax t := by
  induction h with
  | init => exact Inv.fresh m rmin rmax [] 0 0
  | call m' t t' op log rest hm _ hc ih =>
    exact ((call_spec (ih.change_bonus hm) hc).1).change_bonus hm.symm'

theorem node_count_is_sum_x {m : Mdl} {t : Tree} (h : ReachX m t) (q : Path) : t.nN q = sumTo (t.aN q) (t.nA q) := by
  have := (h.inv 0 0).stat.cnt q
  simpa using this

theorem v_is_mean_x {m : Mdl} {t : Tree} (h : ReachX m t) (q : Path) (a : Nat) :
    t.aN q a = (t.rets q a).length ∧ t.aV q a = mean (t.rets q a) :=
  ⟨(h.inv 0 0).stat.len q a, (h.inv 0 0).stat.avg q a⟩

theorem particles_consistent_x {m : Mdl} {t : Tree} (h : ReachX m t) :
    ∀ (q : Path) (x : Nat), x ∈ t.parts q → Follows m (t.parts []) q x := by
  have hs := (h.inv 0 0).str
  intro q
  induction q using List.reverseRecOn with
  | nil => intro x hx; exact Follows.root x hx
  | append_singleton q k ih =>
    intro x hx
    obtain ⟨st, h1, h2, h3, h4, h5⟩ := hs.par q k x hx
    rw [← h4]
    exact Follows.step q k st (ih st.s h1) h2 h3 h5


end AITB.Tree

namespace AITB.Tree.R

/-! ### `HeadBeliefNode::sampleBelief()` -/

/-- the walk with the threshold the translator read from the source (`pick < 1`); a different threshold in the source
    re-opens this and everything below -/
theorem sampleWalk_cons (s c : Nat) (rest : List (Nat × Nat)) (pick : Int) :
    sampleWalk ((s, c) :: rest) pick = if pick - (c : Int) < 1 then some s else sampleWalk rest (pick - (c : Int)) := rfl

/-- **the walk of `sampleBelief()`**: for every draw `pick ∈ [1, Σ counts]` the walk stops inside the vector, at the
    entry whose cumulative-count interval contains `pick`; that entry has a positive count. -/
theorem sampleWalk_spec : ∀ (l : List (Nat × Nat)) (pick : Int), 1 ≤ pick → pick ≤ (beliefTotal l : Int) →
    ∃ (pre : List (Nat × Nat)) (s c : Nat) (post : List (Nat × Nat)), l = pre ++ (s, c) :: post ∧
      sampleWalk l pick = some s ∧ 0 < c ∧ (beliefTotal pre : Int) < pick ∧ pick ≤ (beliefTotal pre : Int) + (c : Int) := by
  intro l
  induction l with
  | nil => intro pick h1 h2; simp [beliefTotal] at h2; omega
  | cons x rest ih =>
    obtain ⟨s, c⟩ := x
    intro pick h1 h2
    simp only [beliefTotal] at h2
    by_cases h : pick - (c : Int) < 1
    · refine ⟨[], s, c, rest, rfl, by rw [sampleWalk_cons, if_pos h], by omega, by simp [beliefTotal]; omega, by simp [beliefTotal]; omega⟩
    · obtain ⟨pre, s', c', post, e1, e2, e3, e4, e5⟩ := ih (pick - (c : Int)) (by omega) (by push_cast at h2; omega)
      refine ⟨(s, c) :: pre, s', c', post, by rw [e1]; rfl, by rw [sampleWalk_cons, if_neg h]; exact e2, e3, ?_, ?_⟩
      · simp only [beliefTotal]; push_cast; omega
      · simp only [beliefTotal]; push_cast; omega

/-- every entry with a positive count is returned for some draw in range: nothing in the belief is unreachable -/
theorem sampleWalk_complete : ∀ (pre : List (Nat × Nat)) (s c : Nat) (post : List (Nat × Nat)), 0 < c →
    sampleWalk (pre ++ (s, c) :: post) ((beliefTotal pre : Int) + 1) = some s ∧
    ((beliefTotal pre : Int) + 1) ≤ (beliefTotal (pre ++ (s, c) :: post) : Int) := by
  intro pre
  induction pre with
  | nil =>
    intro s c post hc
    refine ⟨?_, ?_⟩
    · show sampleWalk ((s, c) :: post) ((beliefTotal ([] : List (Nat × Nat)) : Int) + 1) = some s
      have : ((beliefTotal ([] : List (Nat × Nat)) : Nat) : Int) + 1 - (c : Int) < 1 := by simp only [beliefTotal]; omega
      rw [sampleWalk_cons, if_pos this]
    · simp only [beliefTotal, List.nil_append]; push_cast; omega
  | cons x pre ih =>
    obtain ⟨s0, c0⟩ := x
    intro s c post hc
    obtain ⟨i1, i2⟩ := ih s c post hc
    refine ⟨?_, ?_⟩
    · have hn : ¬ (((beliefTotal ((s0, c0) :: pre) : Nat) : Int) + 1 - (c0 : Int) < 1) := by
        simp only [beliefTotal]; push_cast; omega
      have he : ((beliefTotal ((s0, c0) :: pre) : Nat) : Int) + 1 - (c0 : Int) = (beliefTotal pre : Int) + 1 := by
        simp only [beliefTotal]; push_cast; omega
      simp only [List.cons_append]
      rw [sampleWalk_cons, if_neg hn, he]
      exact i1
    · simp only [List.cons_append, beliefTotal]; push_cast; omega

/-- a draw above the total of the counts walks off the end of the vector: `beliefSize_` must not exceed the total -/
theorem sampleWalk_oob : ∀ (l : List (Nat × Nat)) (pick : Int), (beliefTotal l : Int) < pick → sampleWalk l pick = none := by
  intro l
  induction l with
  | nil => intro pick _; rfl
  | cons x rest ih =>
    obtain ⟨s, c⟩ := x
    intro pick h
    simp only [beliefTotal] at h
    push_cast at h
    have hn : ¬ (pick - (c : Int) < 1) := by omega
    rw [sampleWalk_cons, if_neg hn]
    exact ih _ (by omega)

example : sampleWalk [(0, 0), (3, 2), (5, 1)] 1 = some 3 ∧ sampleWalk [(0, 0), (3, 2), (5, 1)] 3 = some 5 ∧
    sampleWalk [(0, 0), (3, 2), (5, 1)] 4 = none := by decide   -- a test on literals (phantom zero entry first)

/-! ### `HeadBeliefNode::getMostCommonParticle()` -/

theorem mostCommonGo_spec : ∀ (l : List (Nat × Nat)) (best : Option Nat) (bc : Nat),
    ∃ w, bc ≤ w ∧ (∀ x ∈ l, x.2 ≤ w) ∧
      ((mostCommonGo l best bc = best ∧ w = bc) ∨ (∃ s, mostCommonGo l best bc = some s ∧ (s, w) ∈ l ∧ bc < w)) := by
  intro l
  induction l with
  | nil => intro best bc; exact ⟨bc, Nat.le_refl _, by simp, Or.inl ⟨rfl, rfl⟩⟩
  | cons x rest ih =>
    obtain ⟨s, c⟩ := x
    intro best bc
    by_cases h : bc < c
    · obtain ⟨w, h1, h2, h3⟩ := ih (some s) c
      refine ⟨w, by omega, ?_, Or.inr ?_⟩
      · intro x hx
        simp only [List.mem_cons] at hx
        rcases hx with rfl | hx
        · exact h1
        · exact h2 x hx
      · simp only [mostCommonGo, h, if_true]
        rcases h3 with ⟨e1, e2⟩ | ⟨s', e1, e2, e3⟩
        · exact ⟨s, e1, by rw [e2]; exact List.mem_cons_self, by omega⟩
        · exact ⟨s', e1, List.mem_cons_of_mem _ e2, by omega⟩
    · obtain ⟨w, h1, h2, h3⟩ := ih best bc
      refine ⟨w, h1, ?_, ?_⟩
      · intro x hx
        simp only [List.mem_cons] at hx
        rcases hx with rfl | hx
        · show c ≤ w; omega
        · exact h2 x hx
      · simp only [mostCommonGo, h, if_false]
        rcases h3 with ⟨e1, e2⟩ | ⟨s', e1, e2, e3⟩
        · exact Or.inl ⟨e1, e2⟩
        · exact Or.inr ⟨s', e1, List.mem_cons_of_mem _ e2, e3⟩

/-- **`getMostCommonParticle`**: either every count is 0 and nothing is assigned, or the returned state is listed with
    a positive count that no other entry exceeds -/
theorem mostCommon_spec (l : List (Nat × Nat)) :
    ((∀ x ∈ l, x.2 = 0) ∧ mostCommon l = none) ∨
    (∃ s w, mostCommon l = some s ∧ (s, w) ∈ l ∧ 0 < w ∧ ∀ x ∈ l, x.2 ≤ w) := by
  obtain ⟨w, _, h2, h3⟩ := mostCommonGo_spec l none 0
  rcases h3 with ⟨e1, e2⟩ | ⟨s, e1, e2, e3⟩
  · left
    refine ⟨fun x hx => ?_, e1⟩
    have := h2 x hx
    omega
  · right; exact ⟨s, w, e1, e2, e3, h2⟩

example : mostCommon [(0, 0), (3, 2), (5, 2), (1, 1)] = some 3 := by decide   -- test: first maximum, phantom entry ignored

/-! ### The checkers on the implementation's head node are sound -/

/-- **`headOk` is sound**: if the check passes on the implementation's private `sampleBelief_` / `beliefSize_`, then
    every draw `sampleBelief()` can make yields a particle the promoted node held (positive count in its map), without
    leaving the vector; and every particle of the promoted node can be drawn. -/
theorem headOk_sound {child head : List (Nat × Nat)} {bsz : Nat} (h : headOk child head bsz = true) :
    (∀ pick : Int, 1 ≤ pick → pick ≤ (bsz : Int) → ∃ s c, sampleWalk head pick = some s ∧ (s, c) ∈ child ∧ 0 < c) ∧
    (∀ s c, (s, c) ∈ child → 0 < c → ∃ pick : Int, 1 ≤ pick ∧ pick ≤ (bsz : Int) ∧ sampleWalk head pick = some s) := by
  simp only [headOk, Bool.and_eq_true, List.all_eq_true, beq_iff_eq, decide_eq_true_eq] at h
  obtain ⟨⟨⟨⟨⟨⟨_, hsub⟩, hsup⟩, _⟩, _⟩, hb⟩, _⟩ := h
  refine ⟨fun pick h1 h2 => ?_, fun s c hm hc => ?_⟩
  · obtain ⟨pre, s, c, post, e1, e2, e3, _, _⟩ := sampleWalk_spec head pick h1 (by rw [← hb]; exact h2)
    have hm : (s, c) ∈ head := by rw [e1]; simp
    have := hsub (s, c) hm
    exact ⟨s, c, e2, by simpa using this, e3⟩
  · have hh : (s, c) ∈ head := by simpa using hsup (s, c) hm
    obtain ⟨pre, post, e⟩ := List.append_of_mem hh
    obtain ⟨w1, w2⟩ := sampleWalk_complete pre s c post hc
    refine ⟨(beliefTotal pre : Int) + 1, by omega, ?_, by rw [e]; exact w1⟩
    rw [hb, e]; exact w2

/-- **`headFreshOk` is sound**: every draw from a head node built from a belief yields a state in the belief's support -/
theorem headFreshOk_sound {support : List Nat} {head : List (Nat × Nat)} {n bsz : Nat} (h : headFreshOk support head n bsz = true) :
    bsz = n ∧ ∀ pick : Int, 1 ≤ pick → pick ≤ (bsz : Int) → ∃ s, sampleWalk head pick = some s ∧ s ∈ support := by
  simp only [headFreshOk, Bool.and_eq_true, List.all_eq_true, beq_iff_eq, decide_eq_true_eq] at h
  obtain ⟨⟨⟨⟨hsub, _⟩, hb⟩, hn⟩, _⟩ := h
  refine ⟨hn, fun pick h1 h2 => ?_⟩
  obtain ⟨pre, s, c, post, e1, e2, _, _, _⟩ := sampleWalk_spec head pick h1 (by rw [← hb]; exact h2)
  have hm : (s, c) ∈ head := by rw [e1]; simp
  have := (hsub (s, c) hm).1
  exact ⟨s, e2, by simpa using this⟩

example : headOk [(0, 0), (3, 2), (5, 1)] [(5, 1), (0, 0), (3, 2)] 3 = true ∧ headOk [(0, 0), (3, 2)] [(3, 2), (0, 0)] 1 = false ∧
    headFreshOk [1, 2] [(2, 3), (1, 1)] 4 4 = true ∧ headFreshOk [1, 2] [(0, 4)] 4 4 = false := by decide  -- tests

/-! ### Sums over particle types -/

theorem sumOver_updN_not_mem (f : Nat → Nat) (s v : Nat) : ∀ l : List Nat, s ∉ l → sumOver (updN f s v) l = sumOver f l := by
  intro l
  induction l with
  | nil => intro _; rfl
  | cons x xs ih =>
    intro hs
    simp only [List.mem_cons, not_or] at hs
    have hx : x ≠ s := fun e => hs.1 e.symm
    show updN f s v x + sumOver (updN f s v) xs = f x + sumOver f xs
    rw [ih hs.2]; simp [updN, hx]

theorem sumOver_updN_mem (f : Nat → Nat) (s v : Nat) : ∀ l : List Nat, l.Nodup → s ∈ l →
    sumOver (updN f s v) l + f s = sumOver f l + v := by
  intro l
  induction l with
  | nil => intro _ hs; simp at hs
  | cons x xs ih =>
    intro hnd hs
    rw [List.nodup_cons] at hnd
    by_cases hx : x = s
    · subst hx
      show updN f x v x + sumOver (updN f x v) xs + f x = f x + sumOver f xs + v
      rw [sumOver_updN_not_mem f x v xs hnd.1]
      have hxv : updN f x v x = v := by simp [updN]
      rw [hxv]; omega
    · have hs' : s ∈ xs := by
        simp only [List.mem_cons] at hs
        rcases hs with e | e
        · exact absurd e.symm hx
        · exact e
      have := ih hnd.2 hs'
      show updN f s v x + sumOver (updN f s v) xs + f s = f x + sumOver f xs + v
      have hxv : updN f s v x = f x := by simp [updN, hx]
      rw [hxv]; omega

theorem sumOver_append (f : Nat → Nat) (l1 l2 : List Nat) : sumOver f (l1 ++ l2) = sumOver f l1 + sumOver f l2 := by
  induction l1 with
  | nil => simp [sumOver]
  | cons x xs ih => simp only [List.cons_append, sumOver, ih]; omega

theorem le_sumOver (f : Nat → Nat) : ∀ (l : List Nat) (s : Nat), s ∈ l → f s ≤ sumOver f l := by
  intro l
  induction l with
  | nil => intro s hs; simp at hs
  | cons x xs ih =>
    intro s hs
    simp only [List.mem_cons] at hs
    simp only [sumOver]
    rcases hs with rfl | hs
    · omega
    · have := ih s hs; omega

/-! ### The particle invariant of rPOMCP's belief nodes (every history) -/

/-- Below the root: particle types are listed once (`nodup`), unlisted types have count 0 (`zero`), the counts add up
    to the visit count plus the open frame (`tot`; `e q = 1` exactly while a `simulate` call on `q` has received its
    particle but not yet done `b.N++`), every tracked particle is the outcome of a possible transition from a particle
    of the parent under the node's action and observation (`par`), and with the max-of-belief measure `maxS_` is a most
    frequent type and the knowledge measure is its frequency (`kmf`). -/
structure RPart (m : Mdl) (e : Path → Nat) (t : RTree) : Prop where
  nodup : ∀ q, q ≠ [] → (t.keys q).Nodup
  zero : ∀ q, q ≠ [] → ∀ s, s ∉ t.keys q → t.tb q s = 0
  tot : ∀ q, q ≠ [] → sumOver (t.tb q) (t.keys q) = t.nN q + e q
  par : ∀ q k x, t.tb (q ++ [k]) x ≠ 0 →
    ∃ st : Step, t.tb q st.s ≠ 0 ∧ m.valid st = true ∧ st.a = k.1 ∧ st.s1 = x ∧ st.o = k.2
  kmf : m.entropy = false → ∀ q, q ≠ [] → (∀ x, t.tb q x ≤ t.tb q (t.maxS q)) ∧
    t.km q = ((t.tb q (t.maxS q) : Nat) : Rat) / ((t.nN q + e q : Nat) : Rat)

def Z : Path → Nat := fun _ => 0

theorem RPart.of_eq {m : Mdl} {e : Path → Nat} {t t1 : RTree} (h : RPart m e t) (e1 : t1.nN = t.nN) (e2 : t1.tb = t.tb)
    (e3 : t1.keys = t.keys) (e4 : t1.maxS = t.maxS) (e5 : t1.km = t.km) : RPart m e t1 := by
  refine ⟨fun q hq => ?_, fun q hq => ?_, fun q hq => ?_, fun q k x hx => ?_, fun hm q hq => ?_⟩
  · rw [e3]; exact h.nodup q hq
  · rw [e3, e2]; exact h.zero q hq
  · rw [e1, e2, e3]; exact h.tot q hq
  · rw [e2] at hx ⊢; exact h.par q k x hx
  · rw [e1, e2, e4, e5]; exact h.kmf hm q hq

theorem rdown_part_fields (m : Mdl) (t : RTree) (p : Path) (st : Step) :
    (rdown m t p st).1.nN = upd t.nN p (t.nN p + 1) ∧
    (rdown m t p st).1.tb = upd t.tb (p ++ [(st.a, st.o)])
      (updN (t.tb (p ++ [(st.a, st.o)])) st.s1 (t.tb (p ++ [(st.a, st.o)]) st.s1 + 1)) ∧
    (rdown m t p st).1.keys = upd t.keys (p ++ [(st.a, st.o)])
      (if (t.keys (p ++ [(st.a, st.o)])).contains st.s1 then t.keys (p ++ [(st.a, st.o)])
       else t.keys (p ++ [(st.a, st.o)]) ++ [st.s1]) ∧
    (m.entropy = false → (rdown m t p st).1.maxS = upd t.maxS (p ++ [(st.a, st.o)])
      (if updN (t.tb (p ++ [(st.a, st.o)])) st.s1 (t.tb (p ++ [(st.a, st.o)]) st.s1 + 1) (t.maxS (p ++ [(st.a, st.o)]))
          < t.tb (p ++ [(st.a, st.o)]) st.s1 + 1 then st.s1 else t.maxS (p ++ [(st.a, st.o)]))) ∧
    (m.entropy = false → (rdown m t p st).1.km = upd t.km (p ++ [(st.a, st.o)])
      (((updN (t.tb (p ++ [(st.a, st.o)])) st.s1 (t.tb (p ++ [(st.a, st.o)]) st.s1 + 1)
          (if updN (t.tb (p ++ [(st.a, st.o)])) st.s1 (t.tb (p ++ [(st.a, st.o)]) st.s1 + 1) (t.maxS (p ++ [(st.a, st.o)]))
            < t.tb (p ++ [(st.a, st.o)]) st.s1 + 1 then st.s1 else t.maxS (p ++ [(st.a, st.o)])) : Nat) : Rat)
        / ((upd t.nN p (t.nN p + 1) (p ++ [(st.a, st.o)]) + 1 : Nat) : Rat))) := by
  unfold rdown RTree.updBK
  simp only
  split
  · refine ⟨rfl, rfl, rfl, fun hm => ?_, fun hm => ?_⟩ <;> simp [hm]
  · refine ⟨rfl, rfl, rfl, fun hm => ?_, fun hm => ?_⟩ <;> simp [hm]

theorem rup_part_fields (m : Mdl) (k : Nat) (t : RTree) (p : Path) (a depth : Nat) (imm : Rat) :
    (rup m k t p a depth imm).1.nN = t.nN ∧ (rup m k t p a depth imm).1.tb = t.tb ∧
    (rup m k t p a depth imm).1.keys = t.keys ∧ (rup m k t p a depth imm).1.maxS = t.maxS ∧
    (rup m k t p a depth imm).1.km = t.km := by
  unfold rup
  dsimp only
  split <;> exact ⟨rfl, rfl, rfl, rfl, rfl⟩

theorem ralloc_part {t t1 : RTree} {p : Path} {n : Nat} (h : t.alloc p n = some t1) :
    t1.nN = t.nN ∧ t1.tb = t.tb ∧ t1.keys = t.keys ∧ t1.maxS = t.maxS ∧ t1.km = t.km := by
  unfold RTree.alloc at h
  split at h
  · simp at h; subst h; exact ⟨rfl, rfl, rfl, rfl, rfl⟩
  · split at h
    · simp at h; subst h; exact ⟨rfl, rfl, rfl, rfl, rfl⟩
    · simp at h

/-- `simulate`'s first half on node `p` with particle `st.s`: `b.N++` closes the frame of `p`, the child receives the
    particle `st.s1` and its frame opens -/
theorem RPart.rdown {m : Mdl} {t : RTree} {p : Path} {st : Step}
    (h : RPart m (upd Z p 1) t) (hs : t.tb p st.s ≠ 0) (hv : m.valid st = true) :
    RPart m (upd Z (p ++ [(st.a, st.o)]) 1) (rdown m t p st).1 := by
  obtain ⟨d1, d2, d3, d4, d5⟩ := rdown_part_fields m t p st
  have hcp : p ++ [(st.a, st.o)] ≠ p := fun h => ne_append_singleton p _ h.symm
  have hc0 : p ++ [(st.a, st.o)] ≠ [] := by simp
  have hinj : ∀ q k, q ++ [k] = p ++ [(st.a, st.o)] → q = p ∧ k = (st.a, st.o) := by
    intro q k hq
    obtain ⟨h1, h2⟩ := List.append_inj' hq rfl
    exact ⟨h1, by simpa using h2⟩
  generalize p ++ [(st.a, st.o)] = child at *
  have mono : ∀ q y, t.tb q y ≠ 0 → upd t.tb child (updN (t.tb child) st.s1 (t.tb child st.s1 + 1)) q y ≠ 0 := by
    intro q y hy
    by_cases hq : q = child
    · subst hq
      simp only [upd, if_true, updN]
      split
      · omega
      · exact hy
    · simp only [upd, hq, if_false]; exact hy
  refine ⟨fun q hq0 => ?_, fun q hq0 s' hs' => ?_, fun q hq0 => ?_, fun q k x hx => ?_, fun hm q hq0 => ?_⟩
  · -- nodup
    rw [d3]
    by_cases hq : q = child
    · subst hq
      simp only [upd, if_true]
      by_cases hc : st.s1 ∈ t.keys q
      · have hc' : (t.keys q).contains st.s1 = true := by simpa using hc
        simp only [hc', if_true]; exact h.nodup q hq0
      · have hc' : (t.keys q).contains st.s1 = false := by simpa using hc
        simp only [hc', Bool.false_eq_true, if_false]
        rw [List.nodup_append]
        refine ⟨h.nodup q hq0, by simp, fun a ha b hb => ?_⟩
        simp only [List.mem_singleton] at hb
        subst hb
        intro e; exact hc (e ▸ ha)
    · simp only [upd, hq, if_false]; exact h.nodup q hq0
  · -- zero
    rw [d3] at hs'; rw [d2]
    by_cases hq : q = child
    · subst hq
      simp only [upd, if_true] at hs' ⊢
      have h1 : s' ∉ t.keys q := by
        intro hm; apply hs'
        split
        · exact hm
        · exact List.mem_append_left _ hm
      have h2 : s' ≠ st.s1 := by
        intro he; apply hs'; subst he
        split
        · rename_i hc; simpa using hc
        · simp
      simp only [updN, h2, if_false]; exact h.zero q hq0 s' h1
    · simp only [upd, hq, if_false] at hs' ⊢; exact h.zero q hq0 s' hs'
  · -- tot
    rw [d1, d2, d3]
    have ht := h.tot q hq0
    by_cases hq : q = child
    · subst hq
      simp only [upd, if_true, hcp, if_false, Z] at ht ⊢
      by_cases hc : st.s1 ∈ t.keys q
      · have hc' : (t.keys q).contains st.s1 = true := by simpa using hc
        simp only [hc', if_true]
        have := sumOver_updN_mem (t.tb q) st.s1 (t.tb q st.s1 + 1) _ (h.nodup q hq0) hc
        omega
      · have hc' : (t.keys q).contains st.s1 = false := by simpa using hc
        simp only [hc', Bool.false_eq_true, if_false]
        rw [sumOver_append, sumOver_updN_not_mem _ _ _ _ hc]
        have hz := h.zero q hq0 _ hc
        simp only [sumOver, updN, if_true]
        omega
    · simp only [upd, hq, if_false] at ht ⊢
      by_cases hqp : q = p
      · subst hqp; simp only [if_true, Z] at ht ⊢; omega
      · simp only [hqp, if_false, Z] at ht ⊢; exact ht
  · -- par
    rw [d2] at hx ⊢
    by_cases hnew : q ++ [k] = child ∧ x = st.s1
    · obtain ⟨hqk, hx1⟩ := hnew
      obtain ⟨rfl, rfl⟩ := hinj q k hqk
      exact ⟨st, mono _ _ hs, hv, rfl, hx1.symm, rfl⟩
    · have hold : t.tb (q ++ [k]) x ≠ 0 := by
        by_cases hqk : q ++ [k] = child
        · have hx1 : x ≠ st.s1 := fun h => hnew ⟨hqk, h⟩
          rw [hqk] at hx ⊢
          simpa [upd, updN, hx1] using hx
        · simpa [upd, hqk] using hx
      obtain ⟨st', h1, h2, h3, h4, h5⟩ := h.par q k x hold
      exact ⟨st', mono _ _ h1, h2, h3, h4, h5⟩
  · -- kmf
    rw [d1, d2, d4 hm, d5 hm]
    obtain ⟨k1, k2⟩ := h.kmf hm q hq0
    by_cases hq : q = child
    · subst hq
      refine ⟨fun x => ?_, ?_⟩
      · simp only [upd, if_true]; exact max_upd_aux (t.tb q) (t.maxS q) st.s1 k1 x
      · simp only [upd, if_true, hcp, if_false, Z]
    · simp only [upd, hq, if_false]
      refine ⟨k1, ?_⟩
      rw [k2]
      by_cases hqp : q = p
      · subst hqp; simp only [upd, if_true, Z]
      · simp only [upd, hqp, if_false, Z]

/-- a visit that ends at the child as a leaf: `ot->second.N += 1` closes the child's frame -/
theorem RPart.rleaf {m : Mdl} {t : RTree} {child : Path} (recV : Bool) (imm : Rat) (h : RPart m (upd Z child 1) t) :
    RPart m Z (rleaf t child recV imm) := by
  refine ⟨fun q hq0 => h.nodup q hq0, fun q hq0 => h.zero q hq0, fun q hq0 => ?_, fun q k x hx => h.par q k x hx, fun hm q hq0 => ?_⟩
  · show sumOver (t.tb q) (t.keys q) = upd t.nN child (t.nN child + 1) q + Z q
    have ht := h.tot q hq0
    by_cases hq : q = child
    · subst hq; simp only [upd, if_true, Z] at ht ⊢; omega
    · simp only [upd, hq, if_false, Z] at ht ⊢; exact ht
  · obtain ⟨k1, k2⟩ := h.kmf hm q hq0
    refine ⟨k1, ?_⟩
    show t.km q = ((t.tb q (t.maxS q) : Nat) : Rat) / ((upd t.nN child (t.nN child + 1) q + Z q : Nat) : Rat)
    rw [k2]
    by_cases hq : q = child
    · subst hq; simp only [upd, if_true, Z]
    · simp only [upd, hq, if_false, Z]

/-- **rPOMCP: every `simulate` call keeps the particle invariant** (the frame of the node it is called on is open on
    entry: its particle has been counted, its `N` not yet) -/
theorem rsim_part (m : Mdl) (H k : Nat) : ∀ (fuel : Nat) (t : RTree) (p : Path) (s depth : Nat) (log : List Step)
    (t' : RTree) (r : Rat) (rest : List Step),
    rsim m H k fuel t p s depth log = some (t', r, rest) → t.tb p s ≠ 0 → RPart m (upd Z p 1) t → RPart m Z t' := by
  intro fuel
  induction fuel with
  | zero => intro t p s depth log t' r rest h; simp [rsim] at h
  | succ fuel ih =>
    intro t p s depth log t' r rest h hsp hI
    cases log with
    | nil => simp [rsim] at h
    | cons st log =>
      simp only [rsim] at h
      split at h
      · rename_i hc
        simp only [Bool.and_eq_true, decide_eq_true_eq] at hc
        obtain ⟨⟨⟨hs, _⟩, hv⟩, _⟩ := hc
        have hd := RPart.rdown (st := st) hI (by rw [hs]; exact hsp) hv
        split at h
        · simp at h
        · rename_i t3 imm log' hr
          simp at h
          obtain ⟨rfl, rfl, rfl⟩ := h
          obtain ⟨u1, u2, u3, u4, u5⟩ := rup_part_fields m k t3 p st.a depth imm
          refine RPart.of_eq ?_ u1 u2 u3 u4 u5
          split at hr
          · split at hr
            · simp at hr
            · rename_i t2 hal
              obtain ⟨a1, a2, a3, a4, a5⟩ := ralloc_part hal
              have hchild : t2.tb (p ++ [(st.a, st.o)]) st.s1 ≠ 0 := by
                rw [a2, (rdown_part_fields m t p st).2.1]; simp [upd, updN]
              exact ih _ _ _ _ _ _ _ _ hr hchild (hd.of_eq a1 a2 a3 a4 a5)
          · simp at hr
            obtain ⟨rfl, _, rfl⟩ := hr
            exact RPart.rleaf _ _ hd
      · simp at h

theorem RPart.open_root {m : Mdl} {t : RTree} (h : RPart m Z t) : RPart m (upd Z [] 1) t := by
  have he : ∀ q, q ≠ [] → upd Z [] 1 q = Z q := fun q hq => by simp [upd, hq]
  refine ⟨h.nodup, h.zero, fun q hq => ?_, h.par, fun hm q hq => ?_⟩
  · rw [he q hq]; exact h.tot q hq
  · rw [he q hq]; exact h.kmf hm q hq

theorem rrunSims_part (m : Mdl) (H k : Nat) : ∀ (n : Nat) (t : RTree) (log : List Step) (t' : RTree) (rest : List Step),
    rrunSims m H k n t log = some (t', rest) → RPart m Z t → RPart m Z t' := by
  intro n
  induction n with
  | zero => intro t log t' rest h hI; simp [rrunSims] at h; obtain ⟨rfl, _⟩ := h; exact hI
  | succ n ih =>
    intro t log t' rest h hI
    cases log with
    | nil => simp [rrunSims] at h
    | cons st log =>
      simp only [rrunSims] at h
      split at h
      · rename_i hroot
        have hr : t.tb [] st.s ≠ 0 := by simpa using hroot
        split at h
        · simp at h
        · rename_i t1 r log' hsim
          exact ih _ _ _ _ h (rsim_part m H k _ _ _ _ _ _ _ _ _ hsim hr hI.open_root)
      · simp at h

theorem RPart.fresh (m : Mdl) (support : List Nat) (nA : Nat) : RPart m Z (RTree.fresh support nA) := by
  refine ⟨fun q hq => ?_, fun q hq s _ => ?_, fun q hq => ?_, fun q k x hx => ?_, fun _ q hq => ⟨fun x => ?_, ?_⟩⟩
  · simp [RTree.fresh, hq]
  · simp [RTree.fresh, hq]
  · simp [RTree.fresh, hq, sumOver, Z]
  · exfalso; apply hx; simp [RTree.fresh]
  · simp [RTree.fresh, hq]
  · simp [RTree.fresh, hq]

theorem RPart.reroot {m : Mdl} {t : RTree} (h : RPart m Z t) (k : Key) : RPart m Z (t.reroot k) := by
  have hne : ∀ q : Path, k :: q ≠ [] := fun q => by simp
  exact ⟨fun q _ => h.nodup (k :: q) (hne q), fun q _ => h.zero (k :: q) (hne q), fun q _ => h.tot (k :: q) (hne q),
    fun q k' x hx => h.par (k :: q) k' x hx, fun hm q _ => h.kmf hm (k :: q) (hne q)⟩

theorem rprepare_part {m : Mdl} {t t0 : RTree} {op : Op} {H iters : Nat} (h : RPart m Z t)
    (hp : rprepare t op = some (t0, H, iters)) : RPart m Z t0 := by
  cases op with
  | fresh parts nA H' iters' =>
    simp [rprepare] at hp
    obtain ⟨rfl, _, _⟩ := hp
    exact RPart.fresh m parts nA
  | adv a o parts nA H' iters' =>
    simp only [rprepare] at hp
    split at hp
    · split at hp
      · cases hal : (t.reroot (a, o)).alloc [] nA with
        | none => simp [hal] at hp
        | some t1 =>
          simp [hal] at hp
          obtain ⟨rfl, _, _⟩ := hp
          obtain ⟨a1, a2, a3, a4, a5⟩ := ralloc_part hal
          exact (h.reroot (a, o)).of_eq a1 a2 a3 a4 a5
      · simp at hp
        obtain ⟨rfl, _, _⟩ := hp
        exact RPart.fresh m parts nA
    · simp at hp

theorem RReach.part {m : Mdl} {k : Nat} {t : RTree} (h : RReach m k t) : RPart m Z t := by
  induction h with
  | init nA => exact RPart.fresh m [] nA
  | call t t' op log rest _ hc ih =>
    unfold rcall at hc
    split at hc
    · simp at hc
    · rename_i t0 H iters hp
      have h0 := rprepare_part ih hp
      split at hc
      · simp at hc; obtain ⟨rfl, _⟩ := hc; exact h0
      · split at hc
        · simp at hc
        · rename_i t1 rest' hr
          simp at hc
          obtain ⟨rfl, _⟩ := hc
          exact (rrunSims_part m H k _ _ _ _ _ hr h0).of_eq rfl rfl rfl rfl rfl

/-- **rPOMCP, particle counts** (any history of public calls, both knowledge measures): below the root the particle map
    of a belief node lists each type once and its counts add up to the node's visit count `N` — the count the
    knowledge measure divides by is the number of particles. -/
theorem particles_total {m : Mdl} {k : Nat} {t : RTree} (h : RReach m k t) (q : Path) (hq : q ≠ []) :
    (t.keys q).Nodup ∧ (∀ s, s ∉ t.keys q → t.tb q s = 0) ∧ sumOver (t.tb q) (t.keys q) = t.nN q := by
  have hI := h.part
  exact ⟨hI.nodup q hq, hI.zero q hq, by simpa [Z] using hI.tot q hq⟩

/-- a state follows the history `q` from a root particle through possible transitions of the generative model -/
inductive RFollows (m : Mdl) (root : Nat → Prop) : Path → Nat → Prop
  | root (x : Nat) : root x → RFollows m root [] x
  | step (q : Path) (k : Key) (st : Step) : RFollows m root q st.s → m.valid st = true → st.a = k.1 → st.o = k.2 →
      RFollows m root (q ++ [k]) st.s1

/-- **rPOMCP particles_consistent**: after any history of calls (promotions and restarts included) every particle
    tracked in any belief node follows the node's action–observation history from a particle of the current root. -/
theorem particles_consistent {m : Mdl} {k : Nat} {t : RTree} (h : RReach m k t) :
    ∀ (q : Path) (x : Nat), t.tb q x ≠ 0 → RFollows m (fun s => t.tb [] s ≠ 0) q x := by
  have hI := h.part
  intro q
  induction q using List.reverseRecOn with
  | nil => intro x hx; exact RFollows.root x hx
  | append_singleton q k' ih =>
    intro x hx
    obtain ⟨st, h1, h2, h3, h4, h5⟩ := hI.par q k' x hx
    rw [← h4]
    exact RFollows.step q k' st (ih st.s h1) h2 h3 h5

/-- **rPOMCP, max-of-belief knowledge measure** (any history): below the root `maxS_` is a most frequent particle type and
    the stored measure is exactly its relative frequency `count(maxS_) / N`, a number in `[0, 1]`: the "return" rPOMCP
    averages lies within its achievable range. -/
theorem km_is_max_frequency {m : Mdl} {k : Nat} {t : RTree} (h : RReach m k t) (hm : m.entropy = false) (q : Path) (hq : q ≠ []) :
    (∀ x, t.tb q x ≤ t.tb q (t.maxS q)) ∧ t.km q = ((t.tb q (t.maxS q) : Nat) : Rat) / ((t.nN q : Nat) : Rat) ∧
    0 ≤ t.km q ∧ t.km q ≤ 1 := by
  have hI := h.part
  obtain ⟨k1, k2⟩ := hI.kmf hm q hq
  have k2' : t.km q = ((t.tb q (t.maxS q) : Nat) : Rat) / ((t.nN q : Nat) : Rat) := by simpa [Z] using k2
  have hle : t.tb q (t.maxS q) ≤ t.nN q := by
    have ht : sumOver (t.tb q) (t.keys q) = t.nN q := by simpa [Z] using hI.tot q hq
    by_cases hmem : t.maxS q ∈ t.keys q
    · rw [← ht]; exact le_sumOver _ _ _ hmem
    · rw [hI.zero q hq _ hmem]; omega
  have hc : ((t.tb q (t.maxS q) : Nat) : Rat) ≤ ((t.nN q : Nat) : Rat) := by exact_mod_cast hle
  have h0 : (0 : Rat) ≤ ((t.tb q (t.maxS q) : Nat) : Rat) := by exact_mod_cast Nat.zero_le _
  have h0' : (0 : Rat) ≤ ((t.nN q : Nat) : Rat) := by exact_mod_cast Nat.zero_le _
  refine ⟨k1, k2', ?_, ?_⟩
  · rw [k2']; exact div_nonneg h0 h0'
  · rw [k2']; exact div_le_one_of_le₀ hc h0'

/-- **promotion**: when `sampleAction(a, o, h)` promotes the `(a, o)` child, the head's particle total (what the
    constructor accumulates into `beliefSize_`) is the promoted node's visit count and is positive, so
    `uniform_int_distribution(1, beliefSize_)` is well-formed; otherwise the head is a clean fresh node. -/
theorem promoted_head_total {m : Mdl} {k : Nat} {t t0 : RTree} (h : RReach m k t) {a o : Nat} {parts : List Nat}
    {nA H iters H' iters' : Nat} (hp : rprepare t (Op.adv a o parts nA H iters) = some (t0, H', iters')) :
    t0 = RTree.fresh parts nA ∨
    (t0.tb [] = t.tb [(a, o)] ∧ t0.keys [] = t.keys [(a, o)] ∧ (t0.keys []).Nodup ∧
      sumOver (t0.tb []) (t0.keys []) = t0.nN [] ∧ 0 < t0.nN []) := by
  have hI := h.part
  simp only [rprepare] at hp
  split at hp
  · split at hp
    · rename_i hc
      simp only [Bool.and_eq_true, List.any_eq_true] at hc
      obtain ⟨_, s, hs1, hs2⟩ := hc
      cases hal : (t.reroot (a, o)).alloc [] nA with
      | none => simp [hal] at hp
      | some t1 =>
        simp [hal] at hp
        obtain ⟨rfl, _, _⟩ := hp
        right
        obtain ⟨a1, a2, a3, _, _⟩ := ralloc_part hal
        have hne : [(a, o)] ≠ ([] : Path) := by simp
        have ht : sumOver (t.tb [(a, o)]) (t.keys [(a, o)]) = t.nN [(a, o)] := by simpa [Z] using hI.tot _ hne
        have hpos : 0 < t.tb [(a, o)] s := by
          have : t.tb [(a, o)] s ≠ 0 := by simpa using hs2
          omega
        have hle := le_sumOver (t.tb [(a, o)]) _ _ hs1
        refine ⟨by rw [a2]; rfl, by rw [a3]; rfl, by rw [a3]; exact hI.nodup _ hne, ?_, ?_⟩
        · rw [a1, a2, a3]; exact ht
        · rw [a1]; show 0 < t.nN [(a, o)]; omega
    · simp at hp
      obtain ⟨rfl, _, _⟩ := hp
      left; rfl
  · simp at hp

/-- **the datapoint passed upwards** (`return (b.N - 1)*(b.V - oldV) + b.V`): below the root, with `N ≥ 1` the node's
    count, the datapoint `d` satisfies `(N - 1)·oldV + d = N·newV` — added to a mean that holds `N - 1` copies of the
    node's old value it yields `N` copies of the new one ("replaces our old value with the new value"). -/
theorem rup_replaces_value (m : Mdl) (k : Nat) (t : RTree) (p : Path) (a depth : Nat) (imm : Rat) (hd : depth ≠ 0)
    (hN : 0 < t.nN p) :
    ((t.nN p - 1 : Nat) : Rat) * t.v p + (rup m k t p a depth imm).2 = ((t.nN p : Nat) : Rat) * (rup m k t p a depth imm).1.v p := by
  unfold rup
  simp only [hd, if_false, upd, if_true]
  have hc : ((t.nN p : Nat) : Rat) = ((t.nN p - 1 : Nat) : Rat) + 1 := by
    have : t.nN p = (t.nN p - 1) + 1 := by omega
    exact_mod_cast this
  rw [hc]; ring

/-! ### The replacement datapoint is exact: "sum of the datapoints a node has passed upwards = N · V" (defect C19-4)

  Full-strength statement (every history of public calls, both knowledge measures): *below the root, the datapoints a
  belief node has passed to its parent add up to `N · V`* — which is what makes `(N - 1)·(V - oldV) + V` the datapoint that
  replaces `N - 1` copies of the old value in the parent's mean, and an action value the visit-weighted mean of its
  children's values.  It holds for the repaired leaf branch (`rLeafV = true`, fixes/C19-4).  In the source as first read a
  leaf visit passes its datapoint upwards and counts in `N` but leaves `V` alone: the statement fails after the first
  non-zero leaf datapoint (`leaf_visit_breaks_sum_counterexample`), and the next descent adds `N` copies of the new value on top. -/

/-- `e q = 1` while a `simulate` call on `q` has done `b.N++` but not yet computed the node's new value -/
def RUp (e : Path → Nat) (t : RTree) : Prop :=
  ∀ q, q ≠ [] → t.up q = (((t.nN q : Nat) : Rat) - ((e q : Nat) : Rat)) * t.v q

theorem rdown_up_fields (m : Mdl) (t : RTree) (p : Path) (st : Step) :
    (rdown m t p st).1.nN = upd t.nN p (t.nN p + 1) ∧ (rdown m t p st).1.v = t.v ∧ (rdown m t p st).1.up = t.up := by
  unfold rdown RTree.updBK
  simp only
  split <;> exact ⟨rfl, rfl, rfl⟩

theorem ralloc_up {t t1 : RTree} {p : Path} {n : Nat} (h : t.alloc p n = some t1) :
    t1.nN = t.nN ∧ t1.v = t.v ∧ t1.up = t.up := by
  unfold RTree.alloc at h
  split at h
  · simp at h; subst h; exact ⟨rfl, rfl, rfl⟩
  · split at h
    · simp at h; subst h; exact ⟨rfl, rfl, rfl⟩
    · simp at h

theorem rup_up_fields (m : Mdl) (k : Nat) (t : RTree) (p : Path) (a depth : Nat) (imm : Rat) :
    (rup m k t p a depth imm).1.nN = t.nN ∧
    (depth = 0 → (rup m k t p a depth imm).1.v = t.v ∧ (rup m k t p a depth imm).1.up = t.up) ∧
    (depth ≠ 0 → ∃ newV : Rat, (rup m k t p a depth imm).1.v = upd t.v p newV ∧
      (rup m k t p a depth imm).1.up = upd t.up p (t.up p + (((t.nN p - 1 : Nat) : Rat) * (newV - t.v p) + newV))) := by
  unfold rup
  dsimp only
  split
  · rename_i h0
    exact ⟨rfl, fun _ => ⟨rfl, rfl⟩, fun h => absurd h0 h⟩
  · rename_i h0
    exact ⟨rfl, fun h => absurd h h0, fun _ => ⟨_, rfl, rfl⟩⟩

theorem RUp.of_eq {e : Path → Nat} {t t1 : RTree} (h : RUp e t) (e1 : t1.nN = t.nN) (e2 : t1.v = t.v) (e3 : t1.up = t.up) : RUp e t1 := by
  intro q hq; rw [e1, e2, e3]; exact h q hq

/-- a leaf visit in the repaired form keeps the sum: `up + d = (N + 1) · (V + (d - V)/(N + 1))` -/
theorem RUp.rleaf {e : Path → Nat} {t : RTree} {child : Path} (imm : Rat) (h : RUp e t) (he : e child = 0) :
    RUp e (rleaf t child true imm) := by
  intro q hq
  show upd t.up child (t.up child + imm) q
    = (((upd t.nN child (t.nN child + 1) q : Nat) : Rat) - ((e q : Nat) : Rat)) *
      upd t.v child (t.v child + (imm - t.v child) / ((t.nN child + 1 : Nat) : Rat)) q
  by_cases hqc : q = child
  · subst hqc
    simp only [upd, if_true]
    have h1 := h q hq
    rw [h1, he]
    have hne : ((t.nN q + 1 : Nat) : Rat) ≠ 0 := by
      have : (t.nN q + 1 : Nat) ≠ 0 := Nat.succ_ne_zero _
      exact_mod_cast this
    have key : ∀ (x v i : Rat), x ≠ 0 → (x - 1) * v + i = x * (v + (i - v) / x) := by
      intro x v i hx; field_simp; ring
    have := key ((t.nN q + 1 : Nat) : Rat) (t.v q) imm hne
    push_cast at this ⊢
    linarith
  · simp only [upd, hqc, if_false]; exact h q hq

/-- **rPOMCP (repaired leaf branch): every `simulate` call keeps "datapoints passed upwards = N · V"** on every node
    below the root that has no open frame -/
theorem rsim_up (m : Mdl) (hm : m.rLeafV = true) (H k : Nat) : ∀ (fuel : Nat) (t : RTree) (p : Path) (s depth : Nat) (log : List Step)
    (t' : RTree) (r : Rat) (rest : List Step),
    rsim m H k fuel t p s depth log = some (t', r, rest) → (p = [] ↔ depth = 0) →
    ∀ e : Path → Nat, (∀ q, p <+: q → e q = 0) → RUp e t → RUp e t' := by
  intro fuel
  induction fuel with
  | zero => intro t p s depth log t' r rest h; simp [rsim] at h
  | succ fuel ih =>
    intro t p s depth log t' r rest h hpd e he hI
    cases log with
    | nil => simp [rsim] at h
    | cons st log =>
      simp only [rsim] at h
      split at h
      · obtain ⟨d1, d2, d3⟩ := rdown_up_fields m t p st
        have hcp : p ++ [(st.a, st.o)] ≠ p := fun h => ne_append_singleton p _ h.symm
        -- after `b.N++` the frame of `p` is open
        have hd : RUp (upd e p 1) (rdown m t p st).1 := by
          intro q hq
          rw [d1, d2, d3]
          by_cases hqp : q = p
          · subst hqp
            simp only [upd, if_true]
            rw [hI q hq, he q (List.prefix_refl _)]
            push_cast; ring
          · simp only [upd, hqp, if_false]; exact hI q hq
        have hec : ∀ q, (p ++ [(st.a, st.o)]) <+: q → upd e p 1 q = 0 := by
          intro q hq
          have hqp : q ≠ p := by
            intro hh; subst hh
            have := hq.length_le; simp at this
          simp only [upd, hqp, if_false]
          exact he q (List.IsPrefix.trans (List.prefix_append _ _) hq)
        -- closing the frame of `p`
        have hclose : ∀ (t3 : RTree) (imm : Rat), RUp (upd e p 1) t3 → 0 < t3.nN p → RUp e (rup m k t3 p st.a depth imm).1 := by
          intro t3 imm h3 hN
          obtain ⟨u1, u2, u3⟩ := rup_up_fields m k t3 p st.a depth imm
          intro q hq
          by_cases h0 : depth = 0
          · have hp0 : p = [] := hpd.mpr h0
            obtain ⟨v2, v3⟩ := u2 h0
            rw [u1, v2, v3]
            have hqp : q ≠ p := by rw [hp0]; exact hq
            have := h3 q hq
            simpa [upd, hqp] using this
          · obtain ⟨newV, v2, v3⟩ := u3 h0
            rw [u1, v2, v3]
            by_cases hqp : q = p
            · subst hqp
              simp only [upd, if_true]
              have h4 := h3 q hq
              simp only [upd, if_true] at h4
              have hc : ((t3.nN q - 1 : Nat) : Rat) = ((t3.nN q : Nat) : Rat) - 1 := Nat.cast_pred hN
              rw [h4, hc, he q (List.prefix_refl _)]
              push_cast; ring
            · simp only [upd, hqp, if_false]
              have := h3 q hq
              simpa [upd, hqp] using this
        split at h
        · simp at h
        · rename_i t3 imm log' hr
          simp at h
          obtain ⟨rfl, rfl, rfl⟩ := h
          split at hr
          · rename_i hdeep
            simp only [Bool.and_eq_true, decide_eq_true_eq] at hdeep
            split at hr
            · simp at hr
            · rename_i t2 hal
              obtain ⟨a1, a2, a3⟩ := ralloc_up hal
              have hpd' : (p ++ [(st.a, st.o)] = [] ↔ depth + 1 = 0) := by simp
              have h3 := ih _ _ _ _ _ _ _ _ hr hpd' (upd e p 1) hec (hd.of_eq a1 a2 a3)
              obtain ⟨_, _, _, _, _, hNf⟩ := rsim_spec m H k _ _ _ _ _ _ _ _ _ hdeep.1.1 hr
              have hnp : ¬ (p ++ [(st.a, st.o)]) <+: p := by
                intro hk; have := hk.length_le; simp at this
              have hN : 0 < t3.nN p := by rw [hNf p hnp, a1, d1]; simp [upd]
              exact hclose t3 imm h3 hN
          · simp at hr
            obtain ⟨rfl, _, rfl⟩ := hr
            have h3 : RUp (upd e p 1) (rleaf (rdown m t p st).1 (p ++ [(st.a, st.o)]) m.rLeafV
                (if depth + 1 < H then 0 else (rdown m t p st).1.km (p ++ [(st.a, st.o)]))) := by
              rw [hm]; exact RUp.rleaf _ hd (hec _ (List.prefix_refl _))
            refine hclose _ _ h3 ?_
            show 0 < upd (rdown m t p st).1.nN (p ++ [(st.a, st.o)]) _ p
            simp only [upd, hcp.symm, if_false]
            rw [d1]; simp [upd]
      · simp at h

theorem rrunSims_up (m : Mdl) (hm : m.rLeafV = true) (H k : Nat) : ∀ (n : Nat) (t : RTree) (log : List Step) (t' : RTree) (rest : List Step),
    rrunSims m H k n t log = some (t', rest) → RUp Z t → RUp Z t' := by
  intro n
  induction n with
  | zero => intro t log t' rest h hI; simp [rrunSims] at h; obtain ⟨rfl, _⟩ := h; exact hI
  | succ n ih =>
    intro t log t' rest h hI
    cases log with
    | nil => simp [rrunSims] at h
    | cons st log =>
      simp only [rrunSims] at h
      split at h
      · split at h
        · simp at h
        · rename_i t1 r log' hsim
          exact ih _ _ _ _ h (rsim_up m hm H k _ _ _ _ _ _ _ _ _ hsim (by simp) Z (fun _ _ => rfl) hI)
      · simp at h

theorem RUp.fresh (support : List Nat) (nA : Nat) : RUp Z (RTree.fresh support nA) := by
  intro q _; simp [RTree.fresh, Z]

theorem RUp.reroot {t : RTree} (h : RUp Z t) (k : Key) : RUp Z (t.reroot k) := fun q _ => h (k :: q) (by simp)

theorem rprepare_up {t t0 : RTree} {op : Op} {H iters : Nat} (h : RUp Z t) (hp : rprepare t op = some (t0, H, iters)) : RUp Z t0 := by
  cases op with
  | fresh parts nA H' iters' =>
    simp [rprepare] at hp
    obtain ⟨rfl, _, _⟩ := hp
    exact RUp.fresh parts nA
  | adv a o parts nA H' iters' =>
    simp only [rprepare] at hp
    split at hp
    · split at hp
      · cases hal : (t.reroot (a, o)).alloc [] nA with
        | none => simp [hal] at hp
        | some t1 =>
          simp [hal] at hp
          obtain ⟨rfl, _, _⟩ := hp
          obtain ⟨a1, a2, a3⟩ := ralloc_up hal
          exact (h.reroot (a, o)).of_eq a1 a2 a3
      · simp at hp
        obtain ⟨rfl, _, _⟩ := hp
        exact RUp.fresh parts nA
    · simp at hp

/-- **up_is_N_times_V** (repaired leaf branch, any history of public calls, both knowledge measures): below the root, the
    datapoints a belief node has passed to its parent add up to exactly `N · V`. -/
theorem up_is_N_times_V {m : Mdl} {k : Nat} {t : RTree} (hm : m.rLeafV = true) (h : RReach m k t) (q : Path) (hq : q ≠ []) :
    t.up q = ((t.nN q : Nat) : Rat) * t.v q := by
  have hI : RUp Z t := by
    induction h with
    | init nA => exact RUp.fresh [] nA
    | call t t' op log rest _ hc ih =>
      unfold rcall at hc
      split at hc
      · simp at hc
      · rename_i t0 H iters hp
        have h0 := rprepare_up ih hp
        split at hc
        · simp at hc; obtain ⟨rfl, _⟩ := hc; exact h0
        · split at hc
          · simp at hc
          · rename_i t1 rest' hr
            simp at hc
            obtain ⟨rfl, _⟩ := hc
            have h1 := rrunSims_up m hm H k _ _ _ _ _ hr h0
            intro q hq
            have := h1 q hq
            simpa [upd, hq] using this
  have := hI q hq
  simpa [Z] using this

/-- **counterexample** (the model shares the defect): in the source as first read a leaf visit with a non-zero datapoint
    (the knowledge measure at the last level) breaks "passed upwards = N · V" on a node whose value is still 0 — the
    parent now holds a datapoint the node's value does not account for, and the next descent through the node adds
    `N` copies of its new value on top of it. -/
theorem leaf_visit_breaks_sum_counterexample (t : RTree) (c : Path) (imm : Rat) (himm : imm ≠ 0)
    (h0 : t.up c = ((t.nN c : Nat) : Rat) * t.v c) (hv : t.v c = 0) :
    (rleaf t c false imm).up c ≠ (((rleaf t c false imm).nN c : Nat) : Rat) * (rleaf t c false imm).v c := by
  show upd t.up c (t.up c + imm) c ≠ ((upd t.nN c (t.nN c + 1) c : Nat) : Rat) * upd t.v c (t.v c) c
  simp only [upd, if_true]
  rw [h0, hv]
  simpa using himm


/-! ### rPOMCP: every node below the root tracks a particle — the "lost track of the belief" restart is dead code -/

/-- below the root, a node that exists has a listed particle type with a positive count -/
def RExP (t : RTree) : Prop := ∀ q, q ≠ [] → t.ex q = true → ∃ s, s ∈ t.keys q ∧ t.tb q s ≠ 0

theorem RExP.of_eq {t t1 : RTree} (h : RExP t) (e1 : t1.ex = t.ex) (e2 : t1.keys = t.keys) (e3 : t1.tb = t.tb) : RExP t1 := by
  intro q hq hex; rw [e2, e3]; rw [e1] at hex; exact h q hq hex

theorem rdown_ex (m : Mdl) (t : RTree) (p : Path) (st : Step) :
    ∀ q, (rdown m t p st).1.ex q = true → q = p ++ [(st.a, st.o)] ∨ t.ex q = true := by
  intro q
  unfold rdown RTree.updBK
  simp only
  split
  · intro h
    by_cases hq : q = p ++ [(st.a, st.o)]
    · exact Or.inl hq
    · right; simpa [upd, hq] using h
  · intro h; exact Or.inr h

theorem RExP.rdown {m : Mdl} {t : RTree} {p : Path} {st : Step} (h : RExP t) : RExP (rdown m t p st).1 := by
  obtain ⟨_, d2, d3, _, _⟩ := rdown_part_fields m t p st
  intro q hq hex
  rw [d2, d3]
  by_cases hqc : q = p ++ [(st.a, st.o)]
  · subst hqc
    refine ⟨st.s1, ?_, ?_⟩
    · simp only [upd, if_true]
      split
      · rename_i hc; simpa using hc
      · simp
    · simp [upd, updN]
  · rcases rdown_ex m t p st q hex with h1 | h1
    · exact absurd h1 hqc
    · obtain ⟨s, hs1, hs2⟩ := h q hq h1
      exact ⟨s, by simpa [upd, hqc] using hs1, by simpa [upd, hqc] using hs2⟩

theorem rup_ex_fields (m : Mdl) (k : Nat) (t : RTree) (p : Path) (a depth : Nat) (imm : Rat) :
    (rup m k t p a depth imm).1.ex = t.ex := by
  unfold rup
  dsimp only
  split <;> rfl

theorem ralloc_ex {t t1 : RTree} {p : Path} {n : Nat} (h : t.alloc p n = some t1) : t1.ex = t.ex := by
  unfold RTree.alloc at h
  split at h
  · simp at h; subst h; rfl
  · split at h
    · simp at h; subst h; rfl
    · simp at h

theorem rsim_exp (m : Mdl) (H k : Nat) : ∀ (fuel : Nat) (t : RTree) (p : Path) (s depth : Nat) (log : List Step)
    (t' : RTree) (r : Rat) (rest : List Step),
    rsim m H k fuel t p s depth log = some (t', r, rest) → RExP t → RExP t' := by
  intro fuel
  induction fuel with
  | zero => intro t p s depth log t' r rest h; simp [rsim] at h
  | succ fuel ih =>
    intro t p s depth log t' r rest h hI
    cases log with
    | nil => simp [rsim] at h
    | cons st log =>
      simp only [rsim] at h
      split at h
      · have hd : RExP (rdown m t p st).1 := RExP.rdown hI
        split at h
        · simp at h
        · rename_i t3 imm log' hr
          simp at h
          obtain ⟨rfl, rfl, rfl⟩ := h
          obtain ⟨_, u2, u3, _, _⟩ := rup_part_fields m k t3 p st.a depth imm
          refine RExP.of_eq ?_ (rup_ex_fields m k t3 p st.a depth imm) u3 u2
          split at hr
          · split at hr
            · simp at hr
            · rename_i t2 hal
              obtain ⟨_, a2, a3, _, _⟩ := ralloc_part hal
              exact ih _ _ _ _ _ _ _ _ hr (hd.of_eq (ralloc_ex hal) a3 a2)
          · simp at hr
            obtain ⟨rfl, _, rfl⟩ := hr
            exact hd.of_eq rfl rfl rfl
      · simp at h

theorem rrunSims_exp (m : Mdl) (H k : Nat) : ∀ (n : Nat) (t : RTree) (log : List Step) (t' : RTree) (rest : List Step),
    rrunSims m H k n t log = some (t', rest) → RExP t → RExP t' := by
  intro n
  induction n with
  | zero => intro t log t' rest h hI; simp [rrunSims] at h; obtain ⟨rfl, _⟩ := h; exact hI
  | succ n ih =>
    intro t log t' rest h hI
    cases log with
    | nil => simp [rrunSims] at h
    | cons st log =>
      simp only [rrunSims] at h
      split at h
      · split at h
        · simp at h
        · rename_i t1 r log' hsim
          exact ih _ _ _ _ h (rsim_exp m H k _ _ _ _ _ _ _ _ _ hsim hI)
      · simp at h

theorem RExP.fresh (support : List Nat) (nA : Nat) : RExP (RTree.fresh support nA) := by
  intro q hq hex; simp [RTree.fresh, hq] at hex

theorem RExP.reroot {t : RTree} (h : RExP t) (k : Key) : RExP (t.reroot k) := fun q _ hex => h (k :: q) (by simp) hex

theorem rprepare_exp {t t0 : RTree} {op : Op} {H iters : Nat} (h : RExP t) (hp : rprepare t op = some (t0, H, iters)) : RExP t0 := by
  cases op with
  | fresh parts nA H' iters' =>
    simp [rprepare] at hp
    obtain ⟨rfl, _, _⟩ := hp
    exact RExP.fresh parts nA
  | adv a o parts nA H' iters' =>
    simp only [rprepare] at hp
    split at hp
    · split at hp
      · cases hal : (t.reroot (a, o)).alloc [] nA with
        | none => simp [hal] at hp
        | some t1 =>
          simp [hal] at hp
          obtain ⟨rfl, _, _⟩ := hp
          obtain ⟨_, a2, a3, _, _⟩ := ralloc_part hal
          exact (h.reroot (a, o)).of_eq (ralloc_ex hal) a3 a2
      · simp at hp
        obtain ⟨rfl, _, _⟩ := hp
        exact RExP.fresh parts nA
    · simp at hp

theorem RReach.exp {m : Mdl} {k : Nat} {t : RTree} (h : RReach m k t) : RExP t := by
  induction h with
  | init nA => exact RExP.fresh [] nA
  | call t t' op log rest _ hc ih =>
    unfold rcall at hc
    split at hc
    · simp at hc
    · rename_i t0 H iters hp
      have h0 := rprepare_exp ih hp
      split at hc
      · simp at hc; obtain ⟨rfl, _⟩ := hc; exact h0
      · split at hc
        · simp at hc
        · rename_i t1 rest' hr
          simp at hc
          obtain ⟨rfl, _⟩ := hc
          exact (rrunSims_exp m H k _ _ _ _ _ hr h0).of_eq rfl rfl rfl

/-- **rPOMCP advance_promotes_existing_child.**  On a reachable tree, `sampleAction(a, o, horizon)` on an existing `(a, o)` child
    never takes the "rPOMCP lost track of the belief" restart (`isSampleBeliefEmpty()`): the promoted node always holds a
    particle, and the call starts from exactly that subtree. -/
theorem advance_promotes_existing_child {m : Mdl} {k : Nat} {t t0 : RTree} (h : RReach m k t) {a o : Nat} {parts : List Nat}
    {nA H iters H' iters' : Nat} (ha : a < t.nA []) (hex : t.ex [(a, o)] = true)
    (hp : rprepare t (Op.adv a o parts nA H iters) = some (t0, H', iters')) :
    (t.reroot (a, o)).alloc [] nA = some t0 := by
  obtain ⟨s, hs1, hs2⟩ := h.exp [(a, o)] (by simp) hex
  have hany : (t.keys [(a, o)]).any (fun s => t.tb [(a, o)] s != 0) = true := by
    rw [List.any_eq_true]; exact ⟨s, hs1, by simpa using hs2⟩
  simp only [rprepare, ha, if_true, hex, hany, Bool.and_self] at hp
  cases hal : (t.reroot (a, o)).alloc [] nA with
  | none => simp [hal] at hp
  | some t1 =>
    simp [hal] at hp
    rw [hp.1]


/-! ### rPOMCP: simulations only extend the tree (what the `advance_lost_subtree` clause on the dumps checks) -/

/-- `t'` extends `t`: no node disappears, no visit count, action count or particle count goes down -/
structure RExt (t t' : RTree) : Prop where
  ex : ∀ q, t.ex q = true → t'.ex q = true
  nN : ∀ q, t.nN q ≤ t'.nN q
  aN : ∀ q a, t.aN q a ≤ t'.aN q a
  tb : ∀ q s, t.tb q s ≤ t'.tb q s

theorem RExt.refl (t : RTree) : RExt t t := ⟨fun _ h => h, fun _ => Nat.le_refl _, fun _ _ => Nat.le_refl _, fun _ _ => Nat.le_refl _⟩

theorem RExt.trans {a b c : RTree} (h1 : RExt a b) (h2 : RExt b c) : RExt a c :=
  ⟨fun q h => h2.ex q (h1.ex q h), fun q => Nat.le_trans (h1.nN q) (h2.nN q), fun q x => Nat.le_trans (h1.aN q x) (h2.aN q x),
   fun q s => Nat.le_trans (h1.tb q s) (h2.tb q s)⟩

theorem RExt.of_eq {t t1 : RTree} (e1 : t1.ex = t.ex) (e2 : t1.nN = t.nN) (e3 : t1.aN = t.aN) (e4 : t1.tb = t.tb) : RExt t t1 :=
  ⟨fun q h => by rw [e1]; exact h, fun q => by rw [e2], fun q a => by rw [e3], fun q s => by rw [e4]⟩

theorem rdown_ex_mono (m : Mdl) (t : RTree) (p : Path) (st : Step) : ∀ q, t.ex q = true → (rdown m t p st).1.ex q = true := by
  intro q hq
  unfold rdown RTree.updBK
  simp only
  split
  · by_cases hqc : q = p ++ [(st.a, st.o)]
    · simp [upd, hqc]
    · simpa [upd, hqc] using hq
  · exact hq

theorem RExt.rdown (m : Mdl) (t : RTree) (p : Path) (st : Step) : RExt t (rdown m t p st).1 := by
  obtain ⟨d1, d2, _, _, _⟩ := rdown_part_fields m t p st
  obtain ⟨_, _, _, d4⟩ := rdown_fields m t p st
  refine ⟨rdown_ex_mono m t p st, fun q => ?_, fun q a => by rw [d4], fun q s => ?_⟩
  · rw [d1]
    by_cases hq : q = p
    · subst hq; simp [upd]
    · simp [upd, hq]
  · rw [d2]
    by_cases hq : q = p ++ [(st.a, st.o)]
    · subst hq
      by_cases hs : s = st.s1
      · subst hs; simp [upd, updN]
      · simp [upd, updN, hs]
    · simp [upd, hq]

theorem RExt.rup (m : Mdl) (k : Nat) (t : RTree) (p : Path) (a depth : Nat) (imm : Rat) : RExt t (rup m k t p a depth imm).1 := by
  obtain ⟨u1, _, _, u4⟩ := rup_fields m k t p a depth imm
  obtain ⟨_, u2, _, _, _⟩ := rup_part_fields m k t p a depth imm
  refine ⟨fun q h => by rw [rup_ex_fields]; exact h, fun q => by rw [u1], fun q b => ?_, fun q s => by rw [u2]⟩
  rw [u4]
  by_cases hq : q = p
  · subst hq
    by_cases hb : b = a
    · subst hb; simp [upd, updN]
    · simp [upd, updN, hb]
  · simp [upd, hq]

theorem RExt.rleaf (t : RTree) (child : Path) (recV : Bool) (imm : Rat) : RExt t (rleaf t child recV imm) := by
  refine ⟨fun _ h => h, fun q => ?_, fun _ _ => Nat.le_refl _, fun _ _ => Nat.le_refl _⟩
  show t.nN q ≤ upd t.nN child (t.nN child + 1) q
  by_cases hq : q = child
  · subst hq; simp [upd]
  · simp [upd, hq]

/-- **rPOMCP: every `simulate` call only extends the tree** -/
theorem rsim_ext (m : Mdl) (H k : Nat) : ∀ (fuel : Nat) (t : RTree) (p : Path) (s depth : Nat) (log : List Step)
    (t' : RTree) (r : Rat) (rest : List Step),
    rsim m H k fuel t p s depth log = some (t', r, rest) → RExt t t' := by
  intro fuel
  induction fuel with
  | zero => intro t p s depth log t' r rest h; simp [rsim] at h
  | succ fuel ih =>
    intro t p s depth log t' r rest h
    cases log with
    | nil => simp [rsim] at h
    | cons st log =>
      simp only [rsim] at h
      split at h
      · split at h
        · simp at h
        · rename_i t3 imm log' hr
          simp at h
          obtain ⟨rfl, rfl, rfl⟩ := h
          refine RExt.trans ?_ (RExt.rup m k t3 p st.a depth imm)
          refine RExt.trans (RExt.rdown m t p st) ?_
          split at hr
          · split at hr
            · simp at hr
            · rename_i t2 hal
              obtain ⟨a1, a2, _, _⟩ := ralloc_spec hal
              obtain ⟨_, a3, _, _, _⟩ := ralloc_part hal
              exact (RExt.of_eq (ralloc_ex hal) a1 a2 a3).trans (ih _ _ _ _ _ _ _ _ hr)
          · simp at hr
            obtain ⟨rfl, _, rfl⟩ := hr
            exact RExt.rleaf _ _ _ _
      · simp at h

theorem rrunSims_ext (m : Mdl) (H k : Nat) : ∀ (n : Nat) (t : RTree) (log : List Step) (t' : RTree) (rest : List Step),
    rrunSims m H k n t log = some (t', rest) → RExt t t' := by
  intro n
  induction n with
  | zero => intro t log t' rest h; simp [rrunSims] at h; obtain ⟨rfl, _⟩ := h; exact RExt.refl _
  | succ n ih =>
    intro t log t' rest h
    cases log with
    | nil => simp [rrunSims] at h
    | cons st log =>
      simp only [rrunSims] at h
      split at h
      · split at h
        · simp at h
        · rename_i t1 r log' hsim
          exact (rsim_ext m H k _ _ _ _ _ _ _ _ _ hsim).trans (ih _ _ _ _ h)
      · simp at h

/-- **rPOMCP advance_extends_subtree**: after any history, `sampleAction(a, o, horizon)` on an existing `(a, o)` child, with any
    number of iterations: the resulting tree extends the re-rooted `(a, o)` subtree of the old tree (every node still there
    under the same path; visit counts, action counts and particle counts at least as large). -/
theorem advance_extends_subtree {m : Mdl} {k : Nat} {t t' : RTree} (h : RReach m k t) {a o : Nat} {parts : List Nat} {nA H iters : Nat}
    {log rest : List Step} (ha : a < t.nA []) (hex : t.ex [(a, o)] = true)
    (hc : rcall m k t (Op.adv a o parts nA H iters) log = some (t', rest)) : RExt (t.reroot (a, o)) t' := by
  unfold rcall at hc
  split at hc
  · simp at hc
  · rename_i t0 H' iters' hp
    have hal := advance_promotes_existing_child h ha hex hp
    have h0 : RExt (t.reroot (a, o)) t0 := by
      obtain ⟨a1, a2, _, _⟩ := ralloc_spec hal
      obtain ⟨_, a3, _, _, _⟩ := ralloc_part hal
      exact RExt.of_eq (ralloc_ex hal) a1 a2 a3
    split at hc
    · simp at hc; obtain ⟨rfl, _⟩ := hc; exact h0
    · split at hc
      · simp at hc
      · rename_i t1 rest' hr
        simp at hc
        obtain ⟨rfl, _⟩ := hc
        exact h0.trans ((rrunSims_ext m H' k _ _ _ _ _ hr).trans (RExt.of_eq rfl rfl rfl rfl))


/-! hypotheses are satisfiable: a concrete rPOMCP history (fresh call with two simulations at horizon 2) -/
def exR : Mdl := { pomcp := true, gamma := 1/2, rollOff := -1, rollGuard := true, bonus := fun _ _ => .nan, uctSlack := none,
                   numA := fun _ => 1, valid := fun st => st.a == 0 && st.s1 == 1 - st.s && st.o == st.s1 && !st.term }
def exRS (s : Nat) : Step := { s := s, a := 0, s1 := 1 - s, o := 1 - s, r := 0, term := false }

/-- test (evaluation on literals): the example log is a run; the hypotheses of the theorems above are satisfiable by a
    non-trivial tree (a node visited once as a leaf and once descended through, holding two particles) -/
theorem ex_rreach : ∃ t, RReach exR 3 t ∧ t.tb [(0, 1)] 1 = 2 ∧ t.nN [(0, 1)] = 2 := by
  have h : (rcall exR 3 (RTree.fresh [] 0) (Op.fresh [0] 1 2 2) [exRS 0, exRS 0, exRS 1]).any
      (fun x => x.1.tb [(0, 1)] 1 == 2 && x.1.nN [(0, 1)] == 2 && x.2.isEmpty) = true := by decide
  rw [Option.any_eq_true] at h
  obtain ⟨x, hx, hp⟩ := h
  simp only [Bool.and_eq_true, beq_iff_eq] at hp
  exact ⟨x.1, RReach.call _ x.1 _ _ x.2 (RReach.init 0) (by rw [hx]), hp.1.1, hp.1.2⟩

example : ∃ t q, RReach exR 3 t ∧ q ≠ [] ∧ 0 < t.nN q ∧ t.km q ≤ 1 := by
  obtain ⟨t, h, _, h2⟩ := ex_rreach
  exact ⟨t, [(0, 1)], h, by simp, by omega, (km_is_max_frequency h rfl _ (by simp)).2.2.2⟩

end AITB.Tree.R
