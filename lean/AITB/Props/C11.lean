/-
  AITB.Props.C11 — one-step temporal-difference learners (property C11, clauses 1 and 2).

  PROPERTY TEXT (clause 1): "With rewards in [rmin, rmax] and zero-initialised tables, every table entry
  of every one-step temporal-difference learner stays within [rmin, rmax]/(1-discount) for any experience
  sequence and any step size in (0,1]".
  What is provable from a ZERO table is the hull with 0:  [min(rmin,0), max(rmax,0)]/(1-γ)
  (`*_bounded`, proved for every learner, every history, per-step step sizes in [0,1]); the property's
  own interval follows when rmin ≤ 0 ≤ rmax (`*_bounded_property`).  That the hull is needed is shown by
  `td_interval_without_hull_counterexample` (rmin = 1 > 0: the zero table is already outside [1,…]).

  (clause 2): "on a deterministic MDP the optimal Q-function is a fixed point of the control learners"
  (`*_qstar_fixed`).
-/
import AITB.Model.Learners
import Mathlib.Algebra.Order.Field.Rat
import Mathlib.Tactic.Linarith
import Mathlib.Tactic.Ring
import Mathlib.Tactic.FieldSimp

namespace AITB.Learn

/-! ### helpers on max / argmax / sums -/

theorem maxTo_mem (n : Nat) (f : Nat → Rat) : ∃ i, i ≤ n ∧ maxTo n f = f i := by
  induction n with
  | zero => exact ⟨0, le_refl _, rfl⟩
  | succ n ih =>
    unfold maxTo
    split
    · exact ⟨n+1, le_refl _, rfl⟩
    · obtain ⟨i, hi, h⟩ := ih; exact ⟨i, by omega, h⟩

theorem maxTo_ge (n : Nat) (f : Nat → Rat) : ∀ i, i ≤ n → f i ≤ maxTo n f := by
  induction n with
  | zero => intro i hi; have : i = 0 := by omega
            subst this; exact le_refl _
  | succ n ih =>
    intro i hi
    unfold maxTo
    by_cases hlt : maxTo n f < f (n+1)
    · simp only [hlt, if_true]
      by_cases hi' : i = n+1
      · subst hi'; exact le_refl _
      · exact le_trans (ih i (by omega)) hlt.le
    · simp only [hlt, if_false]
      by_cases hi' : i = n+1
      · subst hi'; exact not_lt.mp hlt
      · exact ih i (by omega)

theorem argmaxTo_le (n : Nat) (f : Nat → Rat) : argmaxTo n f ≤ n := by
  induction n with
  | zero => exact le_refl _
  | succ n ih => unfold argmaxTo; split <;> omega

/-- the index returned is a maximiser -/
theorem argmaxTo_spec (n : Nat) (f : Nat → Rat) : f (argmaxTo n f) = maxTo n f := by
  induction n with
  | zero => rfl
  | succ n ih =>
    by_cases h : maxTo n f < f (n+1)
    · simp only [argmaxTo, maxTo, h, if_true]
    · simp only [argmaxTo, maxTo, h, if_false]; exact ih

theorem maxA_mem (A : Nat) (f : Nat → Rat) : ∃ i, maxA A f = f i := by
  obtain ⟨i, _, h⟩ := maxTo_mem (A - 1) f; exact ⟨i, h⟩

theorem argmaxA_spec (A : Nat) (f : Nat → Rat) : f (argmaxA A f) = maxA A f := argmaxTo_spec _ _

theorem argmaxA_lt (A : Nat) (hA : 0 < A) (f : Nat → Rat) : argmaxA A f < A := by
  have := argmaxTo_le (A - 1) f; unfold argmaxA; omega

/-- a weighted sum with non-negative weights lies between `lo·Σw` and `hi·Σw` -/
theorem sumTo_convex (n : Nat) (w x : Nat → Rat) (lo hi : Rat)
    (hw : ∀ i, i < n → 0 ≤ w i) (hx : ∀ i, i < n → lo ≤ x i ∧ x i ≤ hi) :
    lo * sumTo n w ≤ sumTo n (fun i => w i * x i) ∧ sumTo n (fun i => w i * x i) ≤ hi * sumTo n w := by
  induction n with
  | zero => simp [sumTo]
  | succ n ih =>
    have ih' := ih (fun i hi => hw i (by omega)) (fun i hi => hx i (by omega))
    have hwn := hw n (by omega)
    have hxn := hx n (by omega)
    simp only [sumTo]
    constructor
    · nlinarith [mul_le_mul_of_nonneg_left hxn.1 hwn]
    · nlinarith [mul_le_mul_of_nonneg_left hxn.2 hwn]

/-! ### the interval and the two arithmetic facts every TD backup needs -/

/-- every entry of the table lies in `[lo, hi]` -/
def Bdd (lo hi : Rat) (q : QF) : Prop := ∀ s a, lo ≤ q s a ∧ q s a ≤ hi

/-- lower / upper end of the hull interval `[min(rmin,0), max(rmax,0)]/(1-γ)` -/
def loB (rmin γ : Rat) : Rat := min rmin 0 / (1 - γ)
def hiB (rmax γ : Rat) : Rat := max rmax 0 / (1 - γ)

/-- `[lo,hi]` is closed under one discounted backup with reward `r` -/
def Closed (lo hi γ r : Rat) : Prop := lo ≤ r + γ * lo ∧ r + γ * hi ≤ hi

theorem hull_closed (γ rmin rmax r : Rat) (_hγ0 : 0 ≤ γ) (hγ1 : γ < 1) (hr : rmin ≤ r ∧ r ≤ rmax) :
    Closed (loB rmin γ) (hiB rmax γ) γ r := by
  have h1g : 0 < 1 - γ := by linarith
  have hloE : loB rmin γ * (1 - γ) = min rmin 0 := by unfold loB; field_simp
  have hhiE : hiB rmax γ * (1 - γ) = max rmax 0 := by unfold hiB; field_simp
  have h1 : min rmin 0 ≤ r := le_trans (min_le_left _ _) hr.1
  have h2 : r ≤ max rmax 0 := le_trans hr.2 (le_max_left _ _)
  constructor <;> nlinarith

theorem hull_zero (γ rmin rmax : Rat) (hγ1 : γ < 1) : loB rmin γ ≤ 0 ∧ 0 ≤ hiB rmax γ := by
  have h1g : 0 < 1 - γ := by linarith
  exact ⟨div_nonpos_of_nonpos_of_nonneg (min_le_right _ _) h1g.le, div_nonneg (le_max_right _ _) h1g.le⟩

theorem Bdd_zero (γ rmin rmax : Rat) (hγ1 : γ < 1) : Bdd (loB rmin γ) (hiB rmax γ) (fun _ _ => 0) :=
  fun _ _ => hull_zero γ rmin rmax hγ1

/-- discounted target stays inside -/
theorem target_in (lo hi γ r m : Rat) (hγ0 : 0 ≤ γ) (hc : Closed lo hi γ r) (hm : lo ≤ m ∧ m ≤ hi) :
    lo ≤ r + γ * m ∧ r + γ * m ≤ hi := by
  obtain ⟨h1, h2⟩ := hc
  constructor
  · nlinarith [mul_le_mul_of_nonneg_left hm.1 hγ0]
  · nlinarith [mul_le_mul_of_nonneg_left hm.2 hγ0]

/-- `x + α (t - x)` is a convex combination of `x` and `t` -/
theorem mix_in (lo hi x t α : Rat) (hα0 : 0 ≤ α) (hα1 : α ≤ 1)
    (hx : lo ≤ x ∧ x ≤ hi) (ht : lo ≤ t ∧ t ≤ hi) :
    lo ≤ x + α * (t - x) ∧ x + α * (t - x) ≤ hi := by
  have e : x + α * (t - x) = (1 - α) * x + α * t := by ring
  have hα' : 0 ≤ 1 - α := by linarith
  rw [e]
  constructor
  · nlinarith [mul_le_mul_of_nonneg_left hx.1 hα', mul_le_mul_of_nonneg_left ht.1 hα0]
  · nlinarith [mul_le_mul_of_nonneg_left hx.2 hα', mul_le_mul_of_nonneg_left ht.2 hα0]

theorem Bdd_upd (lo hi : Rat) (q : QF) (s a : Nat) (v : Rat) (hq : Bdd lo hi q) (hv : lo ≤ v ∧ v ≤ hi) :
    Bdd lo hi (upd q s a v) := by
  intro s' a'; unfold upd; split
  · exact hv
  · exact hq s' a'

/-- the shape shared by every one-step learner: `q(s,a) += α (r + γ m − q(s,a))` with `m ∈ [lo,hi]` -/
theorem backup_Bdd (lo hi γ α r m : Rat) (q : QF) (s a : Nat)
    (hγ0 : 0 ≤ γ) (hα0 : 0 ≤ α) (hα1 : α ≤ 1) (hc : Closed lo hi γ r)
    (hq : Bdd lo hi q) (hm : lo ≤ m ∧ m ≤ hi) :
    Bdd lo hi (upd q s a (q s a + α * (r + γ * m - q s a))) :=
  Bdd_upd lo hi q s a _ hq (mix_in lo hi _ _ α hα0 hα1 (hq s a) (target_in lo hi γ r m hγ0 hc hm))

/-! ### one step of each learner keeps `[lo,hi]` -/

theorem qlStep_Bdd (lo hi γ α : Rat) (A : Nat) (q : QF) (s a s1 : Nat) (r : Rat)
    (hγ0 : 0 ≤ γ) (hα0 : 0 ≤ α) (hα1 : α ≤ 1) (hc : Closed lo hi γ r) (hq : Bdd lo hi q) :
    Bdd lo hi (qlStep γ α A q s a s1 r) := by
  obtain ⟨i, hm⟩ := maxA_mem A (q s1)
  unfold qlStep; rw [hm]
  exact backup_Bdd lo hi γ α r _ q s a hγ0 hα0 hα1 hc hq (hq s1 i)

theorem hystStep_Bdd (lo hi γ α β : Rat) (A : Nat) (q : QF) (s a s1 : Nat) (r : Rat)
    (hγ0 : 0 ≤ γ) (hα0 : 0 ≤ α) (hα1 : α ≤ 1) (hβ0 : 0 ≤ β) (hβ1 : β ≤ 1)
    (hc : Closed lo hi γ r) (hq : Bdd lo hi q) :
    Bdd lo hi (hystStep γ α β A q s a s1 r) := by
  obtain ⟨i, hm⟩ := maxA_mem A (q s1)
  unfold hystStep; simp only [hm]
  split
  · exact backup_Bdd lo hi γ α r _ q s a hγ0 hα0 hα1 hc hq (hq s1 i)
  · exact backup_Bdd lo hi γ β r _ q s a hγ0 hβ0 hβ1 hc hq (hq s1 i)

theorem sarsaStep_Bdd (lo hi γ α : Rat) (q : QF) (s a s1 a1 : Nat) (r : Rat)
    (hγ0 : 0 ≤ γ) (hα0 : 0 ≤ α) (hα1 : α ≤ 1) (hc : Closed lo hi γ r) (hq : Bdd lo hi q) :
    Bdd lo hi (sarsaStep γ α q s a s1 a1 r) :=
  backup_Bdd lo hi γ α r _ q s a hγ0 hα0 hα1 hc hq (hq s1 a1)

/-- a policy row is a probability distribution over the `A` actions -/
def IsDist (A : Nat) (π : Nat → Nat → Rat) : Prop :=
  ∀ s, (∀ a, a < A → 0 ≤ π s a) ∧ sumTo A (π s) = 1

theorem expectedQ_in (lo hi : Rat) (A : Nat) (π : Nat → Nat → Rat) (q : QF) (s1 : Nat)
    (hπ : IsDist A π) (hq : Bdd lo hi q) : lo ≤ expectedQ A π q s1 ∧ expectedQ A π q s1 ≤ hi := by
  have h := sumTo_convex A (π s1) (q s1) lo hi (hπ s1).1 (fun i _ => hq s1 i)
  rw [(hπ s1).2] at h
  unfold expectedQ
  constructor <;> linarith [h.1, h.2]

theorem esarsaStep_Bdd (lo hi γ α : Rat) (A : Nat) (π : Nat → Nat → Rat) (q : QF) (s a s1 : Nat) (r : Rat)
    (hγ0 : 0 ≤ γ) (hα0 : 0 ≤ α) (hα1 : α ≤ 1) (hπ : IsDist A π) (hc : Closed lo hi γ r) (hq : Bdd lo hi q) :
    Bdd lo hi (esarsaStep γ α A π q s a s1 r) :=
  backup_Bdd lo hi γ α r _ q s a hγ0 hα0 hα1 hc hq (expectedQ_in lo hi A π q s1 hπ hq)

/-- DoubleQLearning: both `qa` and `qb = qc − qa` are bounded -/
def DQBdd (lo hi : Rat) (d : DQ) : Prop := Bdd lo hi d.qa ∧ Bdd lo hi d.qb

/-- whichever action is bootstrapped from (any tie-break of the arg-max) -/
theorem dqStepAt_Bdd (lo hi γ α : Rat) (d : DQ) (coin : Bool) (a1 s a s1 : Nat) (r : Rat)
    (hγ0 : 0 ≤ γ) (hα0 : 0 ≤ α) (hα1 : α ≤ 1) (hc : Closed lo hi γ r) (hd : DQBdd lo hi d) :
    DQBdd lo hi (dqStepAt γ α d coin a1 s a s1 r) := by
  obtain ⟨ha, hb⟩ := hd
  cases coin with
  | true =>
    simp only [dqStepAt, if_true]
    have key := mix_in lo hi (d.qa s a) (r + γ * (d.qc s1 a1 - d.qa s1 a1)) α
      hα0 hα1 (ha s a) (target_in lo hi γ r _ hγ0 hc (hb s1 _))
    constructor
    · exact Bdd_upd lo hi _ s a _ ha key
    · intro s' a'
      have := hb s' a'
      simp only [DQ.qb, upd] at this ⊢
      split <;> rename_i h
      · obtain ⟨rfl, rfl⟩ := h
        constructor <;> linarith [this.1, this.2]
      · exact this
  | false =>
    simp only [dqStepAt, Bool.false_eq_true, if_false]
    refine ⟨ha, ?_⟩
    intro s' a'
    have hb' := hb s' a'
    have key := mix_in lo hi (d.qc s a - d.qa s a)
      (r + γ * d.qa s1 a1) α hα0 hα1 (hb s a)
      (target_in lo hi γ r _ hγ0 hc (ha s1 _))
    simp only [DQ.qb, upd] at hb' ⊢
    split <;> rename_i h
    · obtain ⟨rfl, rfl⟩ := h
      constructor <;> linarith [key.1, key.2]
    · exact hb'

theorem dqStep_Bdd (lo hi γ α : Rat) (A : Nat) (d : DQ) (coin : Bool) (s a s1 : Nat) (r : Rat)
    (hγ0 : 0 ≤ γ) (hα0 : 0 ≤ α) (hα1 : α ≤ 1) (hc : Closed lo hi γ r) (hd : DQBdd lo hi d) :
    DQBdd lo hi (dqStep γ α A d coin s a s1 r) :=
  dqStepAt_Bdd lo hi γ α d coin _ s a s1 r hγ0 hα0 hα1 hc hd

/-! ### histories -/

/-- one experience tuple; `α`/`β` are the step sizes in force at that step (they may be changed between
    steps with `setLearningRate`), `coin` is DoubleQLearning's internal Bernoulli draw -/
structure Ev where
  s : Nat
  a : Nat
  s1 : Nat
  a1 : Nat
  r : Rat
  α : Rat
  β : Rat
  coin : Bool

/-- rewards in `[rmin,rmax]`, step sizes in `[0,1]` (the library's setters enforce `(0,1]`, resp. `[0,1]` for β) -/
def Ev.ok (rmin rmax : Rat) (e : Ev) : Prop :=
  (rmin ≤ e.r ∧ e.r ≤ rmax) ∧ (0 ≤ e.α ∧ e.α ≤ 1) ∧ (0 ≤ e.β ∧ e.β ≤ 1)

def qlRun (γ : Rat) (A : Nat) (evs : List Ev) (q : QF) : QF :=
  evs.foldl (fun q e => qlStep γ e.α A q e.s e.a e.s1 e.r) q
def hystRun (γ : Rat) (A : Nat) (evs : List Ev) (q : QF) : QF :=
  evs.foldl (fun q e => hystStep γ e.α e.β A q e.s e.a e.s1 e.r) q
def sarsaRun (γ : Rat) (evs : List Ev) (q : QF) : QF :=
  evs.foldl (fun q e => sarsaStep γ e.α q e.s e.a e.s1 e.a1 e.r) q
def esarsaRun (γ : Rat) (A : Nat) (π : Nat → Nat → Rat) (evs : List Ev) (q : QF) : QF :=
  evs.foldl (fun q e => esarsaStep γ e.α A π q e.s e.a e.s1 e.r) q
def dqRun (γ : Rat) (A : Nat) (evs : List Ev) (d : DQ) : DQ :=
  evs.foldl (fun d e => dqStep γ e.α A d e.coin e.s e.a e.s1 e.r) d

theorem foldl_inv {σ ε : Type} (step : σ → ε → σ) (P : σ → Prop) (ok : ε → Prop)
    (hstep : ∀ st e, ok e → P st → P (step st e)) (evs : List ε) (h : ∀ e ∈ evs, ok e)
    (st : σ) (hP : P st) : P (evs.foldl step st) := by
  induction evs generalizing st with
  | nil => simpa using hP
  | cons e es ih =>
    simp only [List.foldl_cons]
    exact ih (fun x hx => h x (List.mem_cons_of_mem _ hx)) _ (hstep st e (h e List.mem_cons_self) hP)

section Histories
variable (γ rmin rmax : Rat) (hγ0 : 0 ≤ γ) (hγ1 : γ < 1)
include hγ0 hγ1

/-- **td_bounded (QLearning)**, any start table inside the hull interval -/
theorem ql_bounded_from (A : Nat) (evs : List Ev) (h : ∀ e ∈ evs, e.ok rmin rmax) (q0 : QF)
    (h0 : Bdd (loB rmin γ) (hiB rmax γ) q0) : Bdd (loB rmin γ) (hiB rmax γ) (qlRun γ A evs q0) :=
  foldl_inv _ (Bdd _ _) (Ev.ok rmin rmax)
    (fun q e he hq => qlStep_Bdd _ _ γ e.α A q e.s e.a e.s1 e.r hγ0 he.2.1.1 he.2.1.2
      (hull_closed γ rmin rmax e.r hγ0 hγ1 he.1) hq) evs h q0 h0

/-- **td_bounded (QLearning)**: zero table, any experience sequence -/
theorem ql_bounded (A : Nat) (evs : List Ev) (h : ∀ e ∈ evs, e.ok rmin rmax) :
    Bdd (loB rmin γ) (hiB rmax γ) (qlRun γ A evs (fun _ _ => 0)) :=
  ql_bounded_from γ rmin rmax hγ0 hγ1 A evs h _ (Bdd_zero γ rmin rmax hγ1)

theorem hyst_bounded_from (A : Nat) (evs : List Ev) (h : ∀ e ∈ evs, e.ok rmin rmax) (q0 : QF)
    (h0 : Bdd (loB rmin γ) (hiB rmax γ) q0) : Bdd (loB rmin γ) (hiB rmax γ) (hystRun γ A evs q0) :=
  foldl_inv _ (Bdd _ _) (Ev.ok rmin rmax)
    (fun q e he hq => hystStep_Bdd _ _ γ e.α e.β A q e.s e.a e.s1 e.r hγ0 he.2.1.1 he.2.1.2 he.2.2.1 he.2.2.2
      (hull_closed γ rmin rmax e.r hγ0 hγ1 he.1) hq) evs h q0 h0

/-- **td_bounded (HystereticQLearning)** -/
theorem hyst_bounded (A : Nat) (evs : List Ev) (h : ∀ e ∈ evs, e.ok rmin rmax) :
    Bdd (loB rmin γ) (hiB rmax γ) (hystRun γ A evs (fun _ _ => 0)) :=
  hyst_bounded_from γ rmin rmax hγ0 hγ1 A evs h _ (Bdd_zero γ rmin rmax hγ1)

theorem sarsa_bounded_from (evs : List Ev) (h : ∀ e ∈ evs, e.ok rmin rmax) (q0 : QF)
    (h0 : Bdd (loB rmin γ) (hiB rmax γ) q0) : Bdd (loB rmin γ) (hiB rmax γ) (sarsaRun γ evs q0) :=
  foldl_inv _ (Bdd _ _) (Ev.ok rmin rmax)
    (fun q e he hq => sarsaStep_Bdd _ _ γ e.α q e.s e.a e.s1 e.a1 e.r hγ0 he.2.1.1 he.2.1.2
      (hull_closed γ rmin rmax e.r hγ0 hγ1 he.1) hq) evs h q0 h0

/-- **td_bounded (SARSA)** -/
theorem sarsa_bounded (evs : List Ev) (h : ∀ e ∈ evs, e.ok rmin rmax) :
    Bdd (loB rmin γ) (hiB rmax γ) (sarsaRun γ evs (fun _ _ => 0)) :=
  sarsa_bounded_from γ rmin rmax hγ0 hγ1 evs h _ (Bdd_zero γ rmin rmax hγ1)

theorem esarsa_bounded_from (A : Nat) (π : Nat → Nat → Rat) (hπ : IsDist A π)
    (evs : List Ev) (h : ∀ e ∈ evs, e.ok rmin rmax) (q0 : QF)
    (h0 : Bdd (loB rmin γ) (hiB rmax γ) q0) : Bdd (loB rmin γ) (hiB rmax γ) (esarsaRun γ A π evs q0) :=
  foldl_inv _ (Bdd _ _) (Ev.ok rmin rmax)
    (fun q e he hq => esarsaStep_Bdd _ _ γ e.α A π q e.s e.a e.s1 e.r hγ0 he.2.1.1 he.2.1.2 hπ
      (hull_closed γ rmin rmax e.r hγ0 hγ1 he.1) hq) evs h q0 h0

/-- **td_bounded (ExpectedSARSA)**, any policy whose rows are probability distributions -/
theorem esarsa_bounded (A : Nat) (π : Nat → Nat → Rat) (hπ : IsDist A π)
    (evs : List Ev) (h : ∀ e ∈ evs, e.ok rmin rmax) :
    Bdd (loB rmin γ) (hiB rmax γ) (esarsaRun γ A π evs (fun _ _ => 0)) :=
  esarsa_bounded_from γ rmin rmax hγ0 hγ1 A π hπ evs h _ (Bdd_zero γ rmin rmax hγ1)

theorem dq_bounded_from (A : Nat) (evs : List Ev) (h : ∀ e ∈ evs, e.ok rmin rmax) (d0 : DQ)
    (h0 : DQBdd (loB rmin γ) (hiB rmax γ) d0) : DQBdd (loB rmin γ) (hiB rmax γ) (dqRun γ A evs d0) :=
  foldl_inv _ (DQBdd _ _) (Ev.ok rmin rmax)
    (fun d e he hd => dqStep_Bdd _ _ γ e.α A d e.coin e.s e.a e.s1 e.r hγ0 he.2.1.1 he.2.1.2
      (hull_closed γ rmin rmax e.r hγ0 hγ1 he.1) hd) evs h d0 h0

/-- **td_bounded (DoubleQLearning)**: both tables, for every sequence of internal coin flips -/
theorem dq_bounded (A : Nat) (evs : List Ev) (h : ∀ e ∈ evs, e.ok rmin rmax) :
    DQBdd (loB rmin γ) (hiB rmax γ) (dqRun γ A evs ⟨fun _ _ => 0, fun _ _ => 0⟩) := by
  apply dq_bounded_from γ rmin rmax hγ0 hγ1 A evs h
  refine ⟨Bdd_zero γ rmin rmax hγ1, ?_⟩
  intro s a
  simpa [DQ.qb] using hull_zero γ rmin rmax hγ1

/-- `getQFunction()` of DoubleQLearning returns `qc = qa + qb`, hence within twice the interval -/
theorem dq_sum_bounded (A : Nat) (evs : List Ev) (h : ∀ e ∈ evs, e.ok rmin rmax) (s a : Nat) :
    2 * loB rmin γ ≤ (dqRun γ A evs ⟨fun _ _ => 0, fun _ _ => 0⟩).qc s a ∧
    (dqRun γ A evs ⟨fun _ _ => 0, fun _ _ => 0⟩).qc s a ≤ 2 * hiB rmax γ := by
  obtain ⟨ha, hb⟩ := dq_bounded γ rmin rmax hγ0 hγ1 A evs h
  have h1 := ha s a
  have h2 := hb s a
  simp only [DQ.qb] at h2
  constructor <;> linarith [h1.1, h1.2, h2.1, h2.2]

end Histories

/-! ### DynaQ: the embedded learner, real steps and planning batches interleaved -/

inductive DynaOp where
  | step (s a s1 : Nat) (r : Rat)
  | batch (picks : List (Nat × Nat × Rat))

def dynaApply (γ α : Rat) (A : Nat) (d : Dyna) : DynaOp → Dyna
  | .step s a s1 r => dynaStep γ α A d s a s1 r
  | .batch picks => dynaBatch γ α A d picks

def DynaOp.ok (rmin rmax : Rat) : DynaOp → Prop
  | .step _ _ _ r => rmin ≤ r ∧ r ≤ rmax
  | .batch picks => ∀ p ∈ picks, rmin ≤ p.2.2 ∧ p.2.2 ≤ rmax

theorem dynaBatch_Bdd (lo hi γ α : Rat) (A : Nat) (hγ0 : 0 ≤ γ) (hα0 : 0 ≤ α) (hα1 : α ≤ 1)
    (picks : List (Nat × Nat × Rat)) (hc : ∀ p ∈ picks, Closed lo hi γ p.2.2) (d : Dyna) (hd : Bdd lo hi d.q) :
    Bdd lo hi (dynaBatch γ α A d picks).q := by
  induction picks generalizing d with
  | nil => simpa [dynaBatch] using hd
  | cons p ps ih =>
    obtain ⟨i, s1, r⟩ := p
    have hps : ∀ p ∈ ps, Closed lo hi γ p.2.2 := fun x hx => hc x (List.mem_cons_of_mem _ hx)
    unfold dynaBatch
    split
    · exact ih hps d hd
    · rename_i s a _
      exact ih hps _ (qlStep_Bdd lo hi γ α A d.q s a s1 r hγ0 hα0 hα1 (hc (i, s1, r) List.mem_cons_self) hd)

/-- **td_bounded (DynaQ's embedded learner)**: any interleaving of real steps and planning batches, whatever
    pairs the batch samples and whatever the model returns, as long as the rewards are in range -/
theorem dyna_bounded (γ α rmin rmax : Rat) (hγ0 : 0 ≤ γ) (hγ1 : γ < 1) (hα0 : 0 ≤ α) (hα1 : α ≤ 1) (A : Nat)
    (ops : List DynaOp) (h : ∀ o ∈ ops, o.ok rmin rmax) :
    Bdd (loB rmin γ) (hiB rmax γ) (ops.foldl (dynaApply γ α A) ⟨fun _ _ => 0, []⟩).q := by
  refine foldl_inv (dynaApply γ α A) (fun d => Bdd (loB rmin γ) (hiB rmax γ) d.q) (DynaOp.ok rmin rmax) ?_ ops h _
    (Bdd_zero γ rmin rmax hγ1)
  intro d o ho hd
  cases o with
  | step s a s1 r =>
    exact qlStep_Bdd _ _ γ α A d.q s a s1 r hγ0 hα0 hα1 (hull_closed γ rmin rmax r hγ0 hγ1 ho) hd
  | batch picks =>
    exact dynaBatch_Bdd _ _ γ α A hγ0 hα0 hα1 picks (fun p hp => hull_closed γ rmin rmax p.2.2 hγ0 hγ1 (ho p hp)) d hd

/-! ### the property's own interval (needs rmin ≤ 0 ≤ rmax) -/

theorem hull_eq_property (γ rmin rmax : Rat) (h0 : rmin ≤ 0) (h1 : 0 ≤ rmax) :
    loB rmin γ = rmin / (1 - γ) ∧ hiB rmax γ = rmax / (1 - γ) := by
  unfold loB hiB; rw [min_eq_left h0, max_eq_left h1]; exact ⟨rfl, rfl⟩

/-- the property's wording, QLearning: entries in `[rmin, rmax]/(1-γ)` when `rmin ≤ 0 ≤ rmax` -/
theorem ql_bounded_property (γ rmin rmax : Rat) (hγ0 : 0 ≤ γ) (hγ1 : γ < 1) (h0 : rmin ≤ 0) (h1 : 0 ≤ rmax)
    (A : Nat) (evs : List Ev) (h : ∀ e ∈ evs, e.ok rmin rmax) (s a : Nat) :
    rmin / (1 - γ) ≤ qlRun γ A evs (fun _ _ => 0) s a ∧ qlRun γ A evs (fun _ _ => 0) s a ≤ rmax / (1 - γ) := by
  have := ql_bounded γ rmin rmax hγ0 hγ1 A evs h s a
  rwa [(hull_eq_property γ rmin rmax h0 h1).1, (hull_eq_property γ rmin rmax h0 h1).2] at this

/-- Full-strength reading of the property text (interval `[rmin,rmax]/(1-γ)` without the hull) is FALSE for a
    zero-initialised table when `rmin > 0`: the untouched entries are 0 < rmin/(1-γ).  (test by evaluation) -/
theorem td_interval_without_hull_counterexample :
    ¬ (∀ (γ rmin rmax : Rat) (A : Nat) (evs : List Ev), 0 ≤ γ → γ < 1 → (∀ e ∈ evs, e.ok rmin rmax) →
        ∀ s a, rmin / (1 - γ) ≤ qlRun γ A evs (fun _ _ => 0) s a) := by
  intro h
  have := h (1/2) 1 1 1 [] (by norm_num) (by norm_num) (by simp) 0 0
  simp [qlRun] at this
  norm_num at this

/-- hypotheses of `ql_bounded` are satisfiable by a non-trivial history (test) -/
example : ∀ e ∈ [({ s := 0, a := 1, s1 := 1, a1 := 0, r := -2, α := 1/2, β := 1/4, coin := true } : Ev),
                  { s := 1, a := 0, s1 := 0, a1 := 1, r := 3, α := 1, β := 0, coin := false }], e.ok (-2) 3 := by
  intro e he
  simp only [List.mem_cons, List.mem_nil_iff, or_false] at he
  rcases he with rfl | rfl <;> simp [Ev.ok] <;> norm_num

/-! ### clause 2: Q* of a deterministic MDP is a fixed point of the control learners -/

/-- `q` is the optimal Q-function of the deterministic MDP `(next, R, γ)` over `A` actions -/
def IsQStar (γ : Rat) (A : Nat) (next : Nat → Nat → Nat) (R : Nat → Nat → Rat) (q : QF) : Prop :=
  ∀ s a, q s a = R s a + γ * maxA A (q (next s a))

theorem upd_self (q : QF) (s a : Nat) (v : Rat) (h : v = q s a) : upd q s a v = q := by
  funext s' a'; unfold upd; split
  · rename_i h'; obtain ⟨rfl, rfl⟩ := h'; exact h
  · rfl

section QStar
variable (γ : Rat) (A : Nat) (next : Nat → Nat → Nat) (R : Nat → Nat → Rat) (q : QF)
variable (hq : IsQStar γ A next R q)
include hq

/-- QLearning (and DynaQ's embedded learner, which is a QLearning), any step size -/
theorem ql_qstar_fixed (α : Rat) (s a : Nat) : qlStep γ α A q s a (next s a) (R s a) = q := by
  unfold qlStep; apply upd_self; rw [← hq s a]; ring

/-- HystereticQLearning, any pair of step sizes -/
theorem hyst_qstar_fixed (α β : Rat) (s a : Nat) : hystStep γ α β A q s a (next s a) (R s a) = q := by
  unfold hystStep
  have : R s a + γ * maxA A (q (next s a)) - q s a = 0 := by rw [← hq s a]; ring
  simp only [this]
  split <;> (apply upd_self; ring)

/-- SARSA when the next action is the greedy one -/
theorem sarsa_qstar_fixed (α : Rat) (s a : Nat) :
    sarsaStep γ α q s a (next s a) (argmaxA A (q (next s a))) (R s a) = q := by
  unfold sarsaStep; apply upd_self; rw [argmaxA_spec A (q (next s a)), ← hq s a]; ring

/-- DoubleQLearning with both tables at Q* (`setQFunction(Q*)` gives `qa = Q*`, `qc = 2 Q*`), either coin -/
theorem dq_qstar_fixed (α : Rat) (coin : Bool) (s a : Nat) :
    dqStep γ α A ⟨q, fun s a => q s a * 2⟩ coin s a (next s a) (R s a) = ⟨q, fun s a => q s a * 2⟩ := by
  have hb : (fun x => q (next s a) x * 2 - q (next s a) x) = q (next s a) := by funext x; ring
  cases coin with
  | true =>
    simp only [dqStep, dqStepAt, dqArg, if_true]
    have hch : α * (R s a + γ * (q (next s a) (argmaxA A (q (next s a))) * 2 - q (next s a) (argmaxA A (q (next s a)))) - q s a) = 0 := by
      have : q (next s a) (argmaxA A (q (next s a))) * 2 - q (next s a) (argmaxA A (q (next s a)))
          = maxA A (q (next s a)) := by rw [← argmaxA_spec A (q (next s a))]; ring
      rw [this, ← hq s a]; ring
    rw [hch]
    congr 1
    · apply upd_self; ring
    · exact upd_self (fun s a => q s a * 2) s a _ (by ring)
  | false =>
    simp only [dqStep, dqStepAt, dqArg, Bool.false_eq_true, if_false]
    congr 1
    refine upd_self (fun s a => q s a * 2) s a _ ?_
    rw [hb, argmaxA_spec A (q (next s a))]
    have := hq s a
    show q s a * 2 + α * (R s a + γ * maxA A (q (next s a)) - (q s a * 2 - q s a)) = q s a * 2
    rw [← this]; ring

end QStar

/-- ExpectedSARSA whose target policy is greedy w.r.t. the table -/
def greedyPi (A : Nat) (q : QF) : Nat → Nat → Rat := fun s x => if x = argmaxA A (q s) then 1 else 0

theorem sumTo_indicator (n k : Nat) (f : Nat → Rat) (hk : k < n) :
    sumTo n (fun i => (if i = k then 1 else 0) * f i) = f k := by
  induction n with
  | zero => omega
  | succ n ih =>
    simp only [sumTo]
    by_cases h : k = n
    · subst h
      have : sumTo k (fun i => (if i = k then (1:Rat) else 0) * f i) = 0 := by
        clear ih hk
        suffices H : ∀ m, m ≤ k → sumTo m (fun i => (if i = k then (1:Rat) else 0) * f i) = 0 from H k (le_refl _)
        intro m hm
        induction m with
        | zero => rfl
        | succ m ihm =>
          simp only [sumTo]
          rw [ihm (by omega)]
          have : m ≠ k := by omega
          simp [this]
      rw [this]; simp
    · rw [ih (by omega)]
      have : ¬ n = k := fun e => h e.symm
      simp [this]

theorem esarsa_qstar_fixed (γ : Rat) (A : Nat) (hA : 0 < A) (next : Nat → Nat → Nat) (R : Nat → Nat → Rat) (q : QF)
    (hq : IsQStar γ A next R q) (α : Rat) (s a : Nat) :
    esarsaStep γ α A (greedyPi A q) q s a (next s a) (R s a) = q := by
  unfold esarsaStep; apply upd_self
  have : expectedQ A (greedyPi A q) q (next s a) = maxA A (q (next s a)) := by
    unfold expectedQ greedyPi
    rw [sumTo_indicator A _ (q (next s a)) (argmaxA_lt A hA _), argmaxA_spec A (q (next s a))]
  rw [this, ← hq s a]; ring

/-- `IsQStar` is satisfiable by a non-trivial table: every (s,a) leads to state 0, action 0 pays 1, γ = 1/2
    (test by evaluation) -/
example : IsQStar (1/2) 2 (fun _ _ => 0) (fun _ a => if a = 0 then 1 else 0) (fun _ a => if a = 0 then 2 else 1) := by
  intro s a
  have : maxA 2 (fun a => if a = 0 then (2:Rat) else 1) = 2 := by
    simp [maxA, maxTo]
  rw [this]
  by_cases h : a = 0 <;> simp [h] <;> norm_num

end AITB.Learn
