/-
  AITB.Props.C10Contains — `sequential_sorted_contains(v, elems)` (scanning branch) as written decides `elems ⊆ v` for strictly sorted vectors.
-/
import AITB.Props.C10Util

namespace AITB.CursorUtil

theorem skipLess_drop (v : List Nat) (e : Nat) : ∀ (fuel i : Nat), i ≤ v.length → v.length - i < fuel →
    ∃ i', skipLess v e fuel i = some i' ∧ i ≤ i' ∧ i' ≤ v.length ∧ (∀ es, recContains (v.drop i) (e :: es) = recContains (v.drop i') (e :: es)) ∧
      (i' < v.length → ¬ v[i']! < e) := by
  intro fuel
  induction fuel with
  | zero => intro i _ h; omega
  | succ fuel ih =>
    intro i hi hf
    unfold skipLess
    by_cases h : i < v.length
    · simp only [h, if_true, List.getElem?_eq_getElem h]
      by_cases hlt : v[i] < e
      · simp only [hlt, if_true]
        obtain ⟨i', h1, h2, h3, h4, h5⟩ := ih (i+1) (by omega) (by omega)
        refine ⟨i', h1, by omega, h3, ?_, h5⟩
        intro es
        rw [List.drop_eq_getElem_cons h, recContains, if_pos hlt]; exact h4 es
      · simp only [hlt, if_false]
        refine ⟨i, rfl, Nat.le_refl _, hi, fun _ => rfl, fun hh => ?_⟩
        rw [getElem!_pos v i hh]; exact hlt
    · simp only [h, if_false]; exact ⟨i, rfl, Nat.le_refl _, hi, fun _ => rfl, fun hh => absurd hh h⟩

theorem containsLoop_eq_rec (v elems : List Nat) : ∀ (fuel i j : Nat), i ≤ v.length → j ≤ elems.length → elems.length - j < fuel →
    containsLoop v elems fuel i j = some (recContains (v.drop i) (elems.drop j)) := by
  intro fuel
  induction fuel with
  | zero => intro i j _ _ h; omega
  | succ fuel ih =>
    intro i j hi hj hf
    unfold containsLoop
    by_cases h : j < elems.length
    · have de : elems.drop j = elems[j] :: elems.drop (j+1) := List.drop_eq_getElem_cons h
      simp only [h, if_true, List.getElem?_eq_getElem h]
      obtain ⟨i', h1, h2, h3, h4, h5⟩ := skipLess_drop v elems[j] (v.length + 1) i hi (by omega)
      simp only [h1]
      rw [de, h4]
      by_cases hend : i' = v.length
      · simp only [hend, if_true, List.drop_length, recContains]
      · have hi' : i' < v.length := by omega
        have dv : v.drop i' = v[i'] :: v.drop (i'+1) := List.drop_eq_getElem_cons hi'
        have hnl : ¬ v[i'] < elems[j] := by have := h5 hi'; rwa [getElem!_pos v i' hi'] at this
        simp only [hend, if_false, List.getElem?_eq_getElem hi']
        rw [dv, recContains, if_neg hnl]
        by_cases hgt : v[i'] > elems[j]
        · simp only [hgt, if_true]
        · simp only [hgt, if_false]
          exact ih (i'+1) (j+1) (by omega) (by omega) (by omega)
    · simp only [h, if_false]
      have : elems.drop j = [] := List.drop_eq_nil_of_le (by omega)
      have hj' : j = elems.length := by omega
      rw [this]; simp [recContains, hj']

/-- on strictly sorted lists the suffix scan decides inclusion -/
theorem recContains_spec : ∀ (vs es : List Nat), vs.Pairwise (· < ·) → es.Pairwise (· < ·) →
    (recContains vs es = true ↔ ∀ e ∈ es, e ∈ vs) := by
  intro vs
  induction vs with
  | nil =>
    intro es _ _
    cases es with
    | nil => simp [recContains]
    | cons e es =>
      simp only [recContains, Bool.false_eq_true, false_iff]
      intro h; have := h e List.mem_cons_self; simp at this
  | cons x vs ih =>
    intro es hv he
    have hv' := List.pairwise_cons.mp hv
    induction es with
    | nil => simp [recContains]
    | cons e es ihe =>
      have he' := List.pairwise_cons.mp he
      by_cases hlt : x < e
      · rw [recContains, if_pos hlt, ih (e :: es) hv'.2 he]
        constructor
        · intro h y hy; exact List.mem_cons_of_mem _ (h y hy)
        · intro h y hy
          rcases List.mem_cons.mp (h y hy) with e1 | e1
          · exfalso
            rcases List.mem_cons.mp hy with e2 | e2
            · omega
            · have := he'.1 y e2; omega
          · exact e1
      · by_cases hgt : x > e
        · rw [recContains, if_neg hlt, if_pos hgt]
          simp only [Bool.false_eq_true, false_iff]
          intro h
          rcases List.mem_cons.mp (h e List.mem_cons_self) with e1 | e1
          · omega
          · have := hv'.1 e e1; omega
        · have hxe : x = e := by omega
          subst hxe
          rw [recContains, if_neg hlt, if_neg hgt, ih es hv'.2 he'.2]
          constructor
          · intro h y hy
            rcases List.mem_cons.mp hy with e1 | e1
            · rw [e1]; exact List.mem_cons_self
            · exact List.mem_cons_of_mem _ (h y e1)
          · intro h y hy
            rcases List.mem_cons.mp (h y (List.mem_cons_of_mem _ hy)) with e1 | e1
            · have := he'.1 y hy; omega
            · exact e1

/-- **containsScan_decides_inclusion** — the scanning branch of `sequential_sorted_contains(v, elems)` (taken whenever the sizes differ)
    returns, for ALL strictly sorted vectors, exactly whether every element of `elems` occurs in `v` (and reads nothing outside) -/
theorem containsScan_decides_inclusion (v elems : List Nat) (hv : v.Pairwise (· < ·)) (he : elems.Pairwise (· < ·)) :
    ∃ r, containsLoop v elems (elems.length + 1) 0 0 = some r ∧ (r = true ↔ ∀ e ∈ elems, e ∈ v) := by
  refine ⟨_, containsLoop_eq_rec v elems _ 0 0 (by omega) (by omega) (by omega), ?_⟩
  simpa using recContains_spec v elems hv he

example : containsLoop [1, 3, 5, 7] [3, 7] 3 0 0 = some true := by decide

end AITB.CursorUtil
