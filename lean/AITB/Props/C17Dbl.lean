/-
  AITB.Props.C17Dbl — "17 significant digits identify a double", proved for the executable model of
  `AITB.Model.CodecNum` at the numeric level (the text layout layer gText / accMant / floatValue is out of scope).

  Main results (namespace AITB.Codec):
    toDouble_sigDigits17     a positive finite double a:  toDouble (decValue 17 (sigDigits 17 a)) = some a
    toDouble_sigDigits_ge17  the same for every precision p ≥ 17
    toDouble_of_close        anything within relative distance 1/(2·10^16) of a positive double rounds to it
    toDouble_neg             sign symmetry of the model's rounding
    isDoubleB_iff_IsPosDbl   for a > 0 the structural predicate `IsPosDbl` and the executable `isDoubleB` coincide
    sixteen_digits_not_enough  1 + 2^-52 is not recovered from 16 digits (the bound 17 is sharp for this model)

  Supporting facts: pow2Q / pow10Q are zpow; floorLog10 a satisfies 10^(floorLog10 a) ≤ a for a ≥ 10^-400 (only the
  lower bound is needed); roundHalfEven is within 1/2 and returns the unique natural within < 1/2; floorLog2 is the
  exact binary exponent of a positive rational.
-/
import AITB.Model.CodecNum
import Mathlib.Algebra.Order.Field.Rat
import Mathlib.Algebra.Order.Field.Power
import Mathlib.Tactic.Ring
import Mathlib.Tactic.Linarith
import Mathlib.Tactic.FieldSimp
import Mathlib.Tactic.Positivity
import Mathlib.Tactic.NormNum

namespace AITB.Codec

theorem pow2Q_eq (e : Int) : pow2Q e = (2:ℚ)^e := by
  unfold pow2Q
  split
  · rename_i h
    lift e to ℕ using h
    simp [zpow_natCast]
  · rename_i h
    have h2 : e = -(((-e).toNat : ℕ) : ℤ) := by omega
    conv_rhs => rw [h2]
    rw [zpow_neg, zpow_natCast]
    simp

theorem pow10Q_eq (e : Int) : pow10Q e = (10:ℚ)^e := by
  unfold pow10Q
  split
  · rename_i h
    lift e to ℕ using h
    simp [zpow_natCast]
  · rename_i h
    have h2 : e = -(((-e).toNat : ℕ) : ℤ) := by omega
    conv_rhs => rw [h2]
    rw [zpow_neg, zpow_natCast]
    simp

theorem two_pow_1074_lt : (2:ℚ)^1074 < 10^400 := by
  calc (2:ℚ)^1074 ≤ 2^1080 := pow_le_pow_right₀ (by norm_num) (by norm_num)
    _ = (2^27)^40 := by rw [← pow_mul]
    _ < (10^9)^40 := pow_lt_pow_left₀ (by norm_num) (by positivity) (by norm_num)
    _ = 10^360 := by rw [← pow_mul]
    _ ≤ 10^400 := pow_le_pow_right₀ (by norm_num) (by norm_num)

theorem tiny_lt : (10:ℚ)^(-400:ℤ) < (2:ℚ)^(-1074:ℤ) := by
  rw [zpow_neg, zpow_neg]
  apply inv_strictAnti₀ (by positivity)
  exact_mod_cast two_pow_1074_lt

/-! ### floorLog10: lower bound -/

theorem floorLog10_up_inv (a : ℚ) : ∀ (f : ℕ) (x : ℤ), (x = 0 ∨ (10:ℚ)^x ≤ a) →
    (floorLog10.up a f x = 0 ∨ (10:ℚ)^(floorLog10.up a f x) ≤ a) := by
  intro f
  induction f with
  | zero => intro x h; simpa [floorLog10.up] using h
  | succ f ih =>
    intro x h
    unfold floorLog10.up
    split
    · rename_i h1
      apply ih
      right
      rwa [pow10Q_eq] at h1
    · exact h

theorem floorLog10_down_inv (a : ℚ) : ∀ (f : ℕ) (x : ℤ), (10:ℚ)^(x - (f:ℤ)) ≤ a →
    (10:ℚ)^(floorLog10.down a f x) ≤ a := by
  intro f
  induction f with
  | zero => intro x h; simpa [floorLog10.down] using h
  | succ f ih =>
    intro x h
    unfold floorLog10.down
    split
    · apply ih
      have : x - 1 - (f:ℤ) = x - ((f+1 : ℕ) : ℤ) := by push_cast; ring
      rw [this]; exact h
    · rename_i h1
      rw [pow10Q_eq] at h1
      exact not_lt.mp h1

theorem floorLog10_le (a : ℚ) (ha : (10:ℚ)^(-400:ℤ) ≤ a) : (10:ℚ)^(floorLog10 a) ≤ a := by
  unfold floorLog10
  apply floorLog10_down_inv
  rcases floorLog10_up_inv a 400 0 (Or.inl rfl) with h | h
  · rw [h]; simpa using ha
  · refine le_trans ?_ h
    apply zpow_le_zpow_right₀ (by norm_num)
    simp

/-! ### roundHalfEven -/

theorem roundHalfEven_close (r : ℚ) (hr : 0 ≤ r) : |((roundHalfEven r : ℕ) : ℚ) - r| ≤ 1/2 := by
  have hn : 0 ≤ r.num := Rat.num_nonneg.mpr hr
  have hd : (0:ℚ) < (r.den : ℚ) := by exact_mod_cast r.den_pos
  have hdn := Nat.div_add_mod r.num.toNat r.den
  have hmod : r.num.toNat % r.den < r.den := Nat.mod_lt _ r.den_pos
  have hr' : r = ((r.num.toNat / r.den : ℕ) : ℚ) + ((r.num.toNat % r.den : ℕ) : ℚ) / (r.den : ℚ) := by
    have h1 : r = (r.num : ℚ) / (r.den : ℚ) := (Rat.num_div_den r).symm
    have h2 : (r.num : ℚ) = ((r.num.toNat : ℕ) : ℚ) := by
      have h0 : ((r.num.toNat : ℕ) : ℤ) = r.num := Int.toNat_of_nonneg hn
      calc (r.num : ℚ) = (((r.num.toNat : ℕ) : ℤ) : ℚ) := by rw [h0]
        _ = _ := Int.cast_natCast _
    have h3 : ((r.num.toNat : ℕ) : ℚ) = (r.den : ℚ) * ((r.num.toNat / r.den : ℕ) : ℚ) + ((r.num.toNat % r.den : ℕ) : ℚ) := by
      exact_mod_cast hdn.symm
    conv_lhs => rw [h1, h2, h3]
    field_simp
  unfold roundHalfEven
  simp only []
  generalize r.num.toNat / r.den = fl at *
  generalize r.num.toNat % r.den = rm at *
  set t : ℚ := (rm : ℚ) / (r.den : ℚ) with ht
  rw [abs_le]
  split
  · rename_i h
    have : (1:ℚ)/2 < t := by
      rw [ht, lt_div_iff₀ hd]
      have : ((r.den : ℕ) : ℚ) < 2 * (rm : ℚ) := by exact_mod_cast h
      linarith
    have : t < 1 := by
      rw [ht, div_lt_one hd]; exact_mod_cast hmod
    push_cast
    constructor <;> linarith
  · split
    · rename_i h
      have h : 2 * rm = r.den := by simpa using h
      have : t = 1/2 := by
        rw [ht, div_eq_iff hd.ne']
        have : (2:ℚ) * (rm : ℚ) = (r.den : ℚ) := by exact_mod_cast h
        linarith
      split <;> (push_cast; constructor <;> linarith)
    · rename_i h1 h2
      have h2 : 2 * rm ≠ r.den := by simpa using h2
      have : t < 1/2 := by
        rw [ht, div_lt_iff₀ hd]
        have : 2 * rm < r.den := by omega
        have : (2:ℚ) * (rm : ℚ) < (r.den : ℚ) := by exact_mod_cast this
        linarith
      have : 0 ≤ t := by positivity
      constructor <;> linarith

theorem roundHalfEven_eq (r : ℚ) (hr : 0 ≤ r) (k : ℕ) (h : |r - (k:ℚ)| < 1/2) : roundHalfEven r = k := by
  have h1 := roundHalfEven_close r hr
  rw [abs_le] at h1
  rw [abs_lt] at h
  have h2 : ((roundHalfEven r : ℕ) : ℚ) < (k:ℚ) + 1 := by linarith
  have h3 : (k : ℚ) < ((roundHalfEven r : ℕ) : ℚ) + 1 := by linarith
  have h2' : roundHalfEven r < k + 1 := by exact_mod_cast h2
  have h3' : k < roundHalfEven r + 1 := by exact_mod_cast h3
  omega

/-! ### floorLog2 -/

theorem floorLog2_spec (y : ℚ) (hy : 0 < y) :
    (2:ℚ)^(floorLog2 y) ≤ y ∧ y < (2:ℚ)^(floorLog2 y + 1) := by
  have hn : 0 < y.num := Rat.num_pos.mpr hy
  have hN0 : y.num.toNat ≠ 0 := by omega
  have hD0 : y.den ≠ 0 := y.den_nz
  have hNq : ((y.num.toNat : ℕ) : ℚ) = (y.num : ℚ) := by
    have h0 : ((y.num.toNat : ℕ) : ℤ) = y.num := Int.toNat_of_nonneg hn.le
    calc ((y.num.toNat : ℕ) : ℚ) = (((y.num.toNat : ℕ) : ℤ) : ℚ) := (Int.cast_natCast _).symm
      _ = _ := by rw [h0]
  have hd : (0:ℚ) < (y.den : ℚ) := by exact_mod_cast y.den_pos
  have hyD : y * (y.den : ℚ) = ((y.num.toNat : ℕ) : ℚ) := by
    rw [hNq]; exact Rat.mul_den_eq_num y
  have hN1 : ((2:ℚ))^(Nat.log2 y.num.toNat) ≤ ((y.num.toNat : ℕ) : ℚ) := by
    exact_mod_cast Nat.log2_self_le hN0
  have hN2 : ((y.num.toNat : ℕ) : ℚ) < ((2:ℚ))^(Nat.log2 y.num.toNat + 1) := by
    exact_mod_cast (Nat.lt_log2_self (n := y.num.toNat))
  have hD1 : ((2:ℚ))^(Nat.log2 y.den) ≤ ((y.den : ℕ) : ℚ) := by
    exact_mod_cast Nat.log2_self_le hD0
  have hD2 : ((y.den : ℕ) : ℚ) < ((2:ℚ))^(Nat.log2 y.den + 1) := by
    exact_mod_cast (Nat.lt_log2_self (n := y.den))
  generalize hlN : Nat.log2 y.num.toNat = lN at *
  generalize hlD : Nat.log2 y.den = lD at *
  have two_ne : (2:ℚ) ≠ 0 := by norm_num
  have hup : y < (2:ℚ)^(((lN:ℤ) - (lD:ℤ)) + 1) := by
    have : ((lN:ℤ) - (lD:ℤ)) + 1 = ((lN + 1 : ℕ) : ℤ) - ((lD : ℕ) : ℤ) := by push_cast; ring
    rw [this, zpow_sub₀ two_ne, zpow_natCast, zpow_natCast, lt_div_iff₀ (by positivity)]
    calc y * 2^lD ≤ y * (y.den : ℚ) := by
          apply mul_le_mul_of_nonneg_left hD1 hy.le
      _ = ((y.num.toNat : ℕ) : ℚ) := hyD
      _ < _ := hN2
  have hlo : (2:ℚ)^(((lN:ℤ) - (lD:ℤ)) - 1) ≤ y := by
    have : ((lN:ℤ) - (lD:ℤ)) - 1 = ((lN : ℕ) : ℤ) - ((lD + 1 : ℕ) : ℤ) := by push_cast; ring
    rw [this, zpow_sub₀ two_ne, zpow_natCast, zpow_natCast, div_le_iff₀ (by positivity)]
    calc (2:ℚ)^lN ≤ ((y.num.toNat : ℕ) : ℚ) := hN1
      _ = y * (y.den : ℚ) := hyD.symm
      _ ≤ y * 2^(lD+1) := by
          apply mul_le_mul_of_nonneg_left hD2.le hy.le
  unfold floorLog2
  simp only [hlD, hlN]
  split
  · rename_i h
    rw [pow2Q_eq] at h
    exact ⟨h, hup⟩
  · rename_i h
    rw [pow2Q_eq] at h
    refine ⟨hlo, ?_⟩
    rw [sub_add_cancel]
    exact not_le.mp h

theorem floorLog2_unique (y : ℚ) (hy : 0 < y) (k : ℤ) (h1 : (2:ℚ)^k ≤ y) (h2 : y < (2:ℚ)^(k+1)) :
    floorLog2 y = k := by
  obtain ⟨h3, h4⟩ := floorLog2_spec y hy
  have a1 : k < floorLog2 y + 1 := (zpow_lt_zpow_iff_right₀ (by norm_num : (1:ℚ) < 2)).mp (lt_of_le_of_lt h1 h4)
  have a2 : floorLog2 y < k + 1 := (zpow_lt_zpow_iff_right₀ (by norm_num : (1:ℚ) < 2)).mp (lt_of_le_of_lt h3 h2)
  omega

/-! ### toDouble on positive input -/

theorem toDouble_pos (y : ℚ) (hy : 0 < y) (ue : ℤ) (m' : ℕ)
    (hue : ue = (if floorLog2 y - 52 < -1074 then -1074 else floorLog2 y - 52))
    (hm : roundHalfEven (y / (2:ℚ)^ue) = m') (hlt : (m' : ℚ) * (2:ℚ)^ue < (2:ℚ)^(1024:ℤ)) :
    toDouble y = some ((m' : ℚ) * (2:ℚ)^ue) := by
  unfold toDouble
  have h0 : ¬ (y < 0) := not_lt.mpr hy.le
  have h1 : (y == 0) = false := by simpa using hy.ne'
  simp only [h1, h0, if_false, ← hue, pow2Q_eq, hm, ge_iff_le, not_le.mpr hlt]
  simp

/-! ### the binary side: anything within relative distance 1/(2·10^16) of a double rounds to it -/

theorem toDouble_near (m : ℕ) (u : ℤ) (y : ℚ) (hm0 : 0 < m) (hm : m < 2^53)
    (hu1 : -1074 ≤ u) (hu2 : u ≤ 971) (hnorm : 2^52 ≤ m ∨ u = -1074)
    (hy : |y - (m:ℚ) * (2:ℚ)^u| ≤ ((m:ℚ) * (2:ℚ)^u) / (2 * 10^16)) :
    toDouble y = some ((m:ℚ) * (2:ℚ)^u) := by
  have two_ne : (2:ℚ) ≠ 0 := by norm_num
  have hP : (0:ℚ) < (2:ℚ)^u := by positivity
  have hmq0 : (1:ℚ) ≤ (m:ℚ) := by exact_mod_cast hm0
  have hmq1 : (m:ℚ) ≤ 2^53 - 1 := by
    have : m + 1 ≤ 2^53 := hm
    have : ((m + 1 : ℕ) : ℚ) ≤ ((2^53 : ℕ) : ℚ) := by exact_mod_cast this
    push_cast at this; linarith
  rw [abs_le] at hy
  obtain ⟨hyl, hyu⟩ := hy
  set P : ℚ := (2:ℚ)^u with hPdef
  set c : ℚ := y / P with hcdef
  have hyc : y = c * P := by rw [hcdef]; field_simp
  have hc1 : (m:ℚ) - (m:ℚ) / (2 * 10^16) ≤ c := by
    rw [hcdef, le_div_iff₀ hP]
    have : ((m:ℚ) - (m:ℚ) / (2 * 10^16)) * P = (m:ℚ) * P - (m:ℚ) * P / (2 * 10^16) := by ring
    rw [this]; linarith
  have hc2 : c ≤ (m:ℚ) + (m:ℚ) / (2 * 10^16) := by
    rw [hcdef, div_le_iff₀ hP]
    have : ((m:ℚ) + (m:ℚ) / (2 * 10^16)) * P = (m:ℚ) * P + (m:ℚ) * P / (2 * 10^16) := by ring
    rw [this]; linarith
  have hcpos : 0 < c := by
    have : (m:ℚ) / (2 * 10^16) ≤ (m:ℚ) / 2 := by
      apply div_le_div_of_nonneg_left <;> norm_num
    linarith
  have hypos : 0 < y := by rw [hyc]; positivity
  have hc53 : c < 2^53 := by
    have : (m:ℚ) / (2 * 10^16) ≤ (2^53 - 1) / (2 * 10^16) := by
      apply div_le_div_of_nonneg_right hmq1; norm_num
    have : ((2:ℚ)^53 - 1) / (2 * 10^16) < 1/2 := by norm_num
    linarith
  have hP53 : (2:ℚ)^(u + 53) = 2^53 * P := by
    rw [hPdef, zpow_add₀ two_ne, mul_comm]; norm_num
  have hP52 : (2:ℚ)^(u + 52) = 2^52 * P := by
    rw [hPdef, zpow_add₀ two_ne, mul_comm]; norm_num
  have hP51 : (2:ℚ)^(u + 51) = 2^51 * P := by
    rw [hPdef, zpow_add₀ two_ne, mul_comm]; norm_num
  have hy53 : y < (2:ℚ)^(u + 53) := by
    rw [hP53, hyc]; exact mul_lt_mul_of_pos_right hc53 hP
  obtain ⟨he1, he2⟩ := floorLog2_spec y hypos
  have he53 : floorLog2 y < u + 53 :=
    (zpow_lt_zpow_iff_right₀ (by norm_num : (1:ℚ) < 2)).mp (lt_of_le_of_lt he1 hy53)
  have hlt : (m:ℚ) * P < (2:ℚ)^(1024:ℤ) := by
    have h1 : P ≤ (2:ℚ)^(971:ℤ) := zpow_le_zpow_right₀ (by norm_num) hu2
    have h2 : (2:ℚ)^(1024:ℤ) = 2^53 * (2:ℚ)^(971:ℤ) := by
      rw [show (1024:ℤ) = 971 + 53 by norm_num, zpow_add₀ two_ne, mul_comm]; norm_num
    rw [h2]
    have h3 : (0:ℚ) < (2:ℚ)^(971:ℤ) := by positivity
    calc (m:ℚ) * P ≤ (m:ℚ) * (2:ℚ)^(971:ℤ) := mul_le_mul_of_nonneg_left h1 (by linarith)
      _ < 2^53 * (2:ℚ)^(971:ℤ) := by
          apply mul_lt_mul_of_pos_right _ h3
          linarith
  by_cases hB : c < 2^52 ∧ -1074 < u
  · -- the value fell into the binade below: a is a power of two
    obtain ⟨hc52, hu⟩ := hB
    have hm52 : 2^52 ≤ m := by
      rcases hnorm with h | h
      · exact h
      · omega
    have hmeq : m = 2^52 := by
      by_contra hne
      have : 2^52 + 1 ≤ m := by omega
      have : ((2^52 + 1 : ℕ) : ℚ) ≤ (m:ℚ) := by exact_mod_cast this
      push_cast at this
      have : (m:ℚ) / (2 * 10^16) ≤ (2^53 - 1) / (2 * 10^16) := by
        apply div_le_div_of_nonneg_right hmq1; norm_num
      have : ((2:ℚ)^53 - 1) / (2 * 10^16) < 1/2 := by norm_num
      linarith
    have hmq : (m:ℚ) = 2^52 := by rw [hmeq]; norm_num
    rw [hmq] at hc1 hc2
    have hc1' : (2:ℚ)^52 - 1/4 < c := by
      have : ((2:ℚ)^52) / (2 * 10^16) < 1/4 := by norm_num
      linarith
    have hy52 : y < (2:ℚ)^(u + 51 + 1) := by
      rw [show u + 51 + 1 = u + 52 by ring, hP52, hyc]; exact mul_lt_mul_of_pos_right hc52 hP
    have hy51 : (2:ℚ)^(u + 51) ≤ y := by
      rw [hP51, hyc]; apply mul_le_mul_of_nonneg_right _ hP.le
      have : (2:ℚ)^51 ≤ 2^52 - 1/4 := by norm_num
      linarith
    have he : floorLog2 y = u + 51 := floorLog2_unique y hypos _ hy51 hy52
    have hPm1 : (2:ℚ)^(u - 1) = P / 2 := by
      rw [hPdef, zpow_sub₀ two_ne]; norm_num
    have hres : toDouble y = some (((2^53 : ℕ) : ℚ) * (2:ℚ)^(u - 1)) := by
      apply toDouble_pos y hypos (u - 1) (2^53)
      · rw [he]; split <;> omega
      · apply roundHalfEven_eq
        · positivity
        · rw [hPm1]
          have : y / (P / 2) = 2 * c := by rw [hcdef]; field_simp
          rw [this, abs_lt]
          push_cast
          constructor <;> linarith
      · rw [hPm1]
        have : ((2^53 : ℕ) : ℚ) * (P / 2) = (m:ℚ) * P := by rw [hmq]; push_cast; ring
        rw [this]; exact hlt
    rw [hres, hPm1, hmq]
    congr 1
    push_cast; ring
  · -- same binade (or denormal range)
    have hA : 2^52 ≤ c ∨ u = -1074 := by
      by_cases h : c < 2^52
      · right
        have : ¬ (-1074 < u) := fun h' => hB ⟨h, h'⟩
        omega
      · left; exact not_lt.mp h
    apply toDouble_pos y hypos u m
    · rcases hA with h | h
      · have hy52 : (2:ℚ)^(u + 52) ≤ y := by
          rw [hP52, hyc]; exact mul_le_mul_of_nonneg_right h hP.le
        have : u + 52 < floorLog2 y + 1 :=
          (zpow_lt_zpow_iff_right₀ (by norm_num : (1:ℚ) < 2)).mp (lt_of_le_of_lt hy52 he2)
        split <;> omega
      · split <;> omega
    · apply roundHalfEven_eq _ hcpos.le
      have : (m:ℚ) / (2 * 10^16) ≤ (2^53 - 1) / (2 * 10^16) := by
        apply div_le_div_of_nonneg_right hmq1; norm_num
      have : ((2:ℚ)^53 - 1) / (2 * 10^16) < 1/2 := by norm_num
      rw [abs_lt]
      constructor <;> linarith
    · exact hlt

/-! ### the decimal side -/

def decValue (p : Nat) (nx : Nat × Int) : Rat := (nx.1 : Rat) * pow10Q (nx.2 - (p : Int) + 1)

/-- a positive finite double, structurally: m·2^u, m < 2^53, −1074 ≤ u ≤ 971, normalised unless u = −1074 -/
def IsPosDbl (a : Rat) : Prop :=
  ∃ (m : Nat) (u : Int), a = (m : Rat) * pow2Q u ∧ 0 < m ∧ m < 2^53 ∧ -1074 ≤ u ∧ u ≤ 971 ∧ (2^52 ≤ m ∨ u = -1074)

theorem decValue_sigDigits (p : ℕ) (hp : 1 ≤ p) (a : ℚ) :
    decValue p (sigDigits p a) =
      ((roundHalfEven (a / (10:ℚ)^(floorLog10 a - (p:ℤ) + 1)) : ℕ) : ℚ) * (10:ℚ)^(floorLog10 a - (p:ℤ) + 1) := by
  obtain ⟨k, rfl⟩ : ∃ k, p = k + 1 := ⟨p - 1, by omega⟩
  unfold sigDigits decValue
  simp only [pow10Q_eq]
  split
  · rename_i h
    have h : roundHalfEven (a / (10:ℚ)^(floorLog10 a - ((k + 1 : ℕ) : ℤ) + 1)) = 10 ^ (k + 1) := by simpa using h
    rw [h]
    have ten_ne : (10:ℚ) ≠ 0 := by norm_num
    have : floorLog10 a + 1 - ((k + 1 : ℕ) : ℤ) + 1 = (floorLog10 a - ((k + 1 : ℕ) : ℤ) + 1) + 1 := by ring
    simp only [Nat.add_sub_cancel]
    rw [this, zpow_add₀ ten_ne]
    push_cast
    ring
  · rfl

theorem decValue_sigDigits_close (p : ℕ) (hp : 17 ≤ p) (a : ℚ) (ha : (10:ℚ)^(-400:ℤ) ≤ a) :
    |decValue p (sigDigits p a) - a| ≤ a / (2 * 10^16) := by
  have ten_ne : (10:ℚ) ≠ 0 := by norm_num
  have hapos : 0 < a := lt_of_lt_of_le (by positivity) ha
  rw [decValue_sigDigits p (by omega) a]
  have hx0 := floorLog10_le a ha
  generalize floorLog10 a = x0 at *
  have hs : (0:ℚ) < (10:ℚ)^(x0 - (p:ℤ) + 1) := by positivity
  have hs16 : (10:ℚ)^(x0 - (p:ℤ) + 1) ≤ a / 10^16 := by
    rw [le_div_iff₀ (by positivity)]
    calc (10:ℚ)^(x0 - (p:ℤ) + 1) * 10^16 = (10:ℚ)^(x0 - (p:ℤ) + 1) * (10:ℚ)^(16:ℤ) := by norm_num
      _ = (10:ℚ)^(x0 - (p:ℤ) + 1 + 16) := (zpow_add₀ ten_ne _ _).symm
      _ ≤ (10:ℚ)^x0 := by
          apply zpow_le_zpow_right₀ (by norm_num)
          have : (17:ℤ) ≤ (p:ℤ) := by exact_mod_cast hp
          omega
      _ ≤ a := hx0
  generalize (10:ℚ)^(x0 - (p:ℤ) + 1) = s at *
  have hr := roundHalfEven_close (a / s) (by positivity)
  generalize ((roundHalfEven (a / s) : ℕ) : ℚ) = n at *
  have heq : n * s - a = (n - a / s) * s := by field_simp
  rw [heq, abs_mul, abs_of_pos hs]
  calc |n - a / s| * s ≤ 1/2 * s := mul_le_mul_of_nonneg_right hr hs.le
    _ ≤ 1/2 * (a / 10^16) := by linarith
    _ = a / (2 * 10^16) := by ring

theorem IsPosDbl.ge_tiny {a : ℚ} (h : IsPosDbl a) : (10:ℚ)^(-400:ℤ) ≤ a := by
  obtain ⟨m, u, rfl, hm0, _, hu1, _, _⟩ := h
  rw [pow2Q_eq]
  have h1 : (1:ℚ) ≤ (m:ℚ) := by exact_mod_cast hm0
  have h2 : (2:ℚ)^(-1074:ℤ) ≤ (2:ℚ)^u := zpow_le_zpow_right₀ (by norm_num) hu1
  have h3 : (0:ℚ) < (2:ℚ)^u := by positivity
  calc (10:ℚ)^(-400:ℤ) ≤ (2:ℚ)^(-1074:ℤ) := tiny_lt.le
    _ ≤ (2:ℚ)^u := h2
    _ = 1 * (2:ℚ)^u := (one_mul _).symm
    _ ≤ (m:ℚ) * (2:ℚ)^u := mul_le_mul_of_nonneg_right h1 h3.le

/-- Any value within relative distance 1/(2·10^16) of a positive double rounds to that double. -/
theorem toDouble_of_close (a : ℚ) (h : IsPosDbl a) (y : ℚ) (hy : |y - a| ≤ a / (2 * 10^16)) :
    toDouble y = some a := by
  obtain ⟨m, u, rfl, hm0, hm, hu1, hu2, hn⟩ := h
  rw [pow2Q_eq] at hy ⊢
  exact toDouble_near m u y hm0 hm hu1 hu2 hn hy

/-- **p ≥ 17 significant digits identify a double**: printing a positive double with `p ≥ 17` significant digits
    (round-half-even) and reading the decimal back with a correctly rounded `strtod` returns the same double. -/
theorem toDouble_sigDigits_ge17 (p : Nat) (hp : 17 ≤ p) (a : Rat) (h : IsPosDbl a) :
    toDouble (decValue p (sigDigits p a)) = some a :=
  toDouble_of_close a h _ (decValue_sigDigits_close p hp a h.ge_tiny)

theorem toDouble_sigDigits17 (a : Rat) (h : IsPosDbl a) :
    toDouble (decValue 17 (sigDigits 17 a)) = some a :=
  toDouble_sigDigits_ge17 17 (le_refl _) a h


/-! ### sign symmetry -/

theorem toDouble_neg (q : Rat) : toDouble (-q) = (toDouble q).map (fun r => -r) := by
  rcases lt_trichotomy q 0 with h | h | h
  · have h1 : ¬ (-q < 0) := by linarith
    have h2 : (-q == 0) = false := by simpa using h.ne
    have h3 : (q == 0) = false := by simpa using h.ne
    unfold toDouble
    simp only [h1, h2, h3, h, if_true, if_false, neg_neg]
    split_ifs <;> simp
  · subst h
    simp [toDouble]
  · have h1 : (-q < 0) := by linarith
    have h0 : ¬ (q < 0) := by linarith
    have h2 : (-q == 0) = false := by simpa using h.ne'
    have h3 : (q == 0) = false := by simpa using h.ne'
    unfold toDouble
    simp only [h1, h2, h3, h0, if_true, if_false, neg_neg]
    split_ifs <;> simp


/-! ### the structural predicate and the model's executable predicate -/

theorem toDouble_of_IsPosDbl (a : ℚ) (h : IsPosDbl a) : toDouble a = some a := by
  apply toDouble_of_close a h a
  have : 0 < a := lt_of_lt_of_le (by positivity) h.ge_tiny
  rw [sub_self, abs_zero]
  positivity

theorem isDoubleB_of_IsPosDbl (a : ℚ) (h : IsPosDbl a) : isDoubleB a = true := by
  unfold isDoubleB
  rw [toDouble_of_IsPosDbl a h]
  simp

theorem toDouble_pos_eq (y : ℚ) (hy : 0 < y) :
    toDouble y =
      if (2:ℚ)^(1024:ℤ) ≤ ((roundHalfEven (y / (2:ℚ)^(if floorLog2 y - 52 < -1074 then -1074 else floorLog2 y - 52)) : ℕ) : ℚ)
          * (2:ℚ)^(if floorLog2 y - 52 < -1074 then -1074 else floorLog2 y - 52) then none
      else some (((roundHalfEven (y / (2:ℚ)^(if floorLog2 y - 52 < -1074 then -1074 else floorLog2 y - 52)) : ℕ) : ℚ)
          * (2:ℚ)^(if floorLog2 y - 52 < -1074 then -1074 else floorLog2 y - 52)) := by
  unfold toDouble
  have h0 : ¬ (y < 0) := not_lt.mpr hy.le
  have h1 : (y == 0) = false := by simpa using hy.ne'
  simp only [h1, h0, if_false, pow2Q_eq, ge_iff_le]
  simp

theorem IsPosDbl_of_toDouble (a : ℚ) (ha : 0 < a) (h : toDouble a = some a) : IsPosDbl a := by
  have two_ne : (2:ℚ) ≠ 0 := by norm_num
  rw [toDouble_pos_eq a ha] at h
  obtain ⟨he1, he2⟩ := floorLog2_spec a ha
  generalize floorLog2 a = e at *
  generalize hue : (if e - 52 < -1074 then (-1074:ℤ) else e - 52) = ue at *
  generalize hm' : roundHalfEven (a / (2:ℚ)^ue) = m' at *
  split at h
  · exact absurd h (by simp)
  rename_i hlt
  have hlt : (m':ℚ) * (2:ℚ)^ue < (2:ℚ)^(1024:ℤ) := not_le.mp hlt
  have heq : (m':ℚ) * (2:ℚ)^ue = a := by simpa using h
  have hP : (0:ℚ) < (2:ℚ)^ue := by positivity
  have hm0 : 0 < m' := by
    rcases Nat.eq_zero_or_pos m' with h0 | h0
    · rw [h0] at heq; simp at heq; linarith
    · exact h0
  have he1024 : e < 1024 := by
    have : (2:ℚ)^e < (2:ℚ)^(1024:ℤ) := by rw [heq] at hlt; exact lt_of_le_of_lt he1 hlt
    exact (zpow_lt_zpow_iff_right₀ (by norm_num : (1:ℚ) < 2)).mp this
  refine ⟨m', ue, by rw [pow2Q_eq, heq], hm0, ?_, ?_, ?_, ?_⟩
  · -- m' < 2^53
    have hb : (2:ℚ)^(e + 1) ≤ (2:ℚ)^(ue + 53) := by
      apply zpow_le_zpow_right₀ (by norm_num)
      rw [← hue]; split <;> omega
    have : (m':ℚ) * (2:ℚ)^ue < 2^53 * (2:ℚ)^ue := by
      have h53 : (2:ℚ)^(ue + 53) = 2^53 * (2:ℚ)^ue := by
        rw [zpow_add₀ two_ne, mul_comm]; norm_num
      rw [heq, ← h53]; exact lt_of_lt_of_le he2 hb
    have : (m':ℚ) < 2^53 := lt_of_mul_lt_mul_right this hP.le
    exact_mod_cast this
  · rw [← hue]; split <;> omega
  · rw [← hue]; split <;> omega
  · by_cases hc : e - 52 < -1074
    · right; rw [← hue, if_pos hc]
    · left
      have hue' : ue = e - 52 := by rw [← hue, if_neg hc]
      have h52 : (2:ℚ)^e = 2^52 * (2:ℚ)^ue := by
        rw [show e = ue + 52 by omega, zpow_add₀ two_ne, mul_comm]; norm_num
      have : 2^52 * (2:ℚ)^ue ≤ (m':ℚ) * (2:ℚ)^ue := by rw [heq, ← h52]; exact he1
      have : (2:ℚ)^52 ≤ (m':ℚ) := le_of_mul_le_mul_right this hP
      exact_mod_cast this

theorem IsPosDbl_of_isDoubleB (a : ℚ) (ha : 0 < a) (h : isDoubleB a = true) : IsPosDbl a := by
  apply IsPosDbl_of_toDouble a ha
  unfold isDoubleB at h
  simpa using h

/-- For positive rationals the structural predicate and the model's executable predicate coincide. -/
theorem isDoubleB_iff_IsPosDbl (a : ℚ) (ha : 0 < a) : isDoubleB a = true ↔ IsPosDbl a :=
  ⟨IsPosDbl_of_isDoubleB a ha, isDoubleB_of_IsPosDbl a⟩

/-! ### examples: the predicate is satisfiable -/

/-- example: the double nearest 1/3 -/
example : IsPosDbl (6004799503160661 * pow2Q (-54)) :=
  ⟨6004799503160661, -54, by norm_num, by norm_num, by norm_num, by norm_num, by norm_num, Or.inl (by norm_num)⟩

/-- example: the smallest positive denormal -/
example : IsPosDbl (1 * pow2Q (-1074)) :=
  ⟨1, -1074, by norm_num, by norm_num, by norm_num, by norm_num, by norm_num, Or.inr rfl⟩

/-- example: the largest finite double -/
example : IsPosDbl ((2^53 - 1) * pow2Q 971) :=
  ⟨2^53 - 1, 971, by norm_num, by norm_num, by norm_num, by norm_num, by norm_num, Or.inl (by norm_num)⟩

/-- example: 1.0 -/
example : IsPosDbl 1 :=
  ⟨2^52, -52, by rw [pow2Q_eq]; norm_num, by norm_num, by norm_num, by norm_num, by norm_num, Or.inl (by norm_num)⟩

/-! ### 16 digits are not enough -/

/-- counterexample: the double 1 + 2^-52 printed with 16 significant digits reads back as 1 -/
theorem sixteen_digits_not_enough :
    ∃ a : Rat, IsPosDbl a ∧ toDouble (decValue 16 (sigDigits 16 a)) ≠ some a := by
  refine ⟨(4503599627370497 : Rat) * pow2Q (-52),
    ⟨4503599627370497, -52, by norm_num, by norm_num, by norm_num, by norm_num, by norm_num, Or.inl (by norm_num)⟩, ?_⟩
  decide +kernel


end AITB.Codec
