/-
  AITB.Props.C14c — C14 continued: PartialIndexEnumerator yields exactly the indices whose fixed factor
  has the fixed value, in ascending order (both constructors).
-/
import AITB.Props.C14b

namespace AITB.Factored

/-! ## arithmetic of the two-level counter (block index k / L, position k % L) -/

theorem div_mod_succ_lt (k L : Nat) (h : k % L + 1 < L) : (k + 1) / L = k / L ∧ (k + 1) % L = k % L + 1 := by
  have hL : 0 < L := by omega
  have e : k + 1 = (k % L + 1) + L * (k / L) := by have := Nat.mod_add_div k L; omega
  constructor
  · rw [e, Nat.add_mul_div_left _ _ hL, Nat.div_eq_of_lt h]; simp
  · rw [e, Nat.add_mul_mod_self_left, Nat.mod_eq_of_lt h]

theorem div_mod_succ_eq (k L : Nat) (hL : 0 < L) (h : k % L + 1 = L) : (k + 1) / L = k / L + 1 ∧ (k + 1) % L = 0 := by
  have e : k + 1 = L + L * (k / L) := by have := Nat.mod_add_div k L; omega
  constructor
  · rw [e, Nat.add_mul_div_left _ _ hL, Nat.div_self hL]; omega
  · rw [e, Nat.add_mul_mod_self_left, Nat.mod_self]

/-- the k-th index produced: block `k / L` (stride `L·D`), offset `L·val`, position `k % L` in the block -/
def pieK (L D val k : Nat) : Nat := L * val + (k / L) * (L * D) + k % L

/-- enumerator state after `k` calls of `advance()` -/
def pieState (L D val mx k : Nat) : PIE :=
  { len := L - 1, skip := L * D, offset := L * val, max := mx, curr := L * val + (k / L) * (L * D), currLen := k % L }

theorem pieState_value (L D val mx k : Nat) : (pieState L D val mx k).value = pieK L D val k := rfl

theorem pieState_advance (L D val mx k : Nat) (hL : 0 < L) :
    (pieState L D val mx k).advance = pieState L D val mx (k + 1) := by
  unfold PIE.advance pieState
  simp only
  by_cases h : k % L < L - 1
  · obtain ⟨h1, h2⟩ := div_mod_succ_lt k L (by omega)
    simp [h, h1, h2]
  · have hm := Nat.mod_lt k hL
    obtain ⟨h1, h2⟩ := div_mod_succ_eq k L hL (by omega)
    simp only [h, if_false, h1, h2]
    congr 1
    ring

theorem pieK_lt_iff (L D R val k : Nat) (hL : 0 < L) (hv : val < D) : pieK L D val k < L * D * R ↔ k < L * R := by
  unfold pieK
  have hm := Nat.mod_lt k hL
  have h2 : L * val + L ≤ L * D := by
    calc L * val + L = L * (val + 1) := by ring
      _ ≤ L * D := Nat.mul_le_mul_left _ hv
  constructor
  · intro h
    by_contra hk
    have hk' : R * L ≤ k := by rw [Nat.mul_comm]; omega
    have hq : R ≤ k / L := (Nat.le_div_iff_mul_le hL).mpr hk'
    have : R * (L * D) ≤ (k / L) * (L * D) := Nat.mul_le_mul_right _ hq
    have e : L * D * R = R * (L * D) := by ring
    omega
  · intro hk
    have hq : k / L < R := (Nat.div_lt_iff_lt_mul hL).mpr (by rw [Nat.mul_comm]; exact hk)
    have h1 : (k / L + 1) * (L * D) ≤ R * (L * D) := Nat.mul_le_mul_right _ hq
    have e1 : (k / L + 1) * (L * D) = (k / L) * (L * D) + L * D := by ring
    have e : L * D * R = R * (L * D) := by ring
    omega

theorem pieK_strictMono (L D val : Nat) (hL : 0 < L) (hv : val < D) {k k' : Nat} (h : k < k') :
    pieK L D val k < pieK L D val k' := by
  unfold pieK
  have hm := Nat.mod_lt k hL
  have hm' := Nat.mod_lt k' hL
  have hle : k / L ≤ k' / L := Nat.div_le_div_right (Nat.le_of_lt h)
  rcases Nat.eq_or_lt_of_le hle with heq | hlt
  · have e := Nat.mod_add_div k L
    have e' := Nat.mod_add_div k' L
    rw [heq] at e
    rw [heq]
    omega
  · have h1 : (k / L + 1) * (L * D) ≤ (k' / L) * (L * D) := Nat.mul_le_mul_right _ hlt
    have e1 : (k / L + 1) * (L * D) = (k / L) * (L * D) + L * D := by ring
    have hLD : L ≤ L * D := by
      calc L = L * 1 := by ring
        _ ≤ L * D := Nat.mul_le_mul_left _ (by omega)
    omega

/-- the run of the enumerator from its k-th state -/
theorem pieAll_state (L D R val : Nat) (hL : 0 < L) (hv : val < D) : ∀ (fuel k : Nat), k ≤ L * R →
    pieAll (pieState L D val (L * D * R) k) fuel = (List.range' k (min fuel (L * R - k))).map (pieK L D val) := by
  intro fuel
  induction fuel with
  | zero => intro k _; simp [pieAll]
  | succ f ih =>
    intro k hk
    simp only [pieAll, PIE.isValid, decide_eq_true_eq]
    have hval : (pieState L D val (L * D * R) k).curr + (pieState L D val (L * D * R) k).currLen = pieK L D val k := rfl
    have hmx : (pieState L D val (L * D * R) k).max = L * D * R := rfl
    rw [hval, hmx]
    by_cases hlt : k < L * R
    · have hmin : min (f + 1) (L * R - k) = min f (L * R - (k + 1)) + 1 := by omega
      simp only [(pieK_lt_iff L D R val k hL hv).mpr hlt, if_true]
      rw [pieState_advance _ _ _ _ _ hL, ih (k + 1) (by omega), hmin, List.range'_succ, List.map_cons, pieState_value]
    · have : ¬ pieK L D val k < L * D * R := fun h => hlt ((pieK_lt_iff L D R val k hL hv).mp h)
      have hz : L * R - k = 0 := by omega
      simp [this, hz]

/-! ## the fixed factor's digit of an index -/

theorem space_pos : ∀ (l : List Nat), (∀ d ∈ l, 0 < d) → 0 < space l
  | [], _ => by simp [space]
  | a :: t, h => by
    simp only [space]
    exact Nat.mul_pos (h a (List.mem_cons_self ..)) (space_pos t (fun e he => h e (List.mem_cons_of_mem _ he)))

theorem toFactors_digit : ∀ (sp : List Nat) (fixed id : Nat), fixed < sp.length →
    (toFactors sp id).getD fixed 0 = (id / space (sp.take fixed)) % sp.getD fixed 1
  | [], _, _, h => by simp at h
  | d :: ds, 0, id, _ => by simp [toFactors, space]
  | d :: ds, fixed + 1, id, h => by
    have ih := toFactors_digit ds fixed (id / d) (by simpa using h)
    simp only [toFactors, List.take_succ_cons, space, List.getD_cons_succ]
    rw [ih, Nat.div_div_eq_div_mul]

theorem space_split : ∀ (sp : List Nat) (fixed : Nat), fixed < sp.length →
    space sp = space (sp.take fixed) * sp.getD fixed 1 * space (sp.drop (fixed + 1))
  | [], _, h => by simp at h
  | d :: ds, 0, _ => by simp [space]
  | d :: ds, fixed + 1, h => by
    have ih := space_split ds fixed (by simpa using h)
    simp only [space, List.take_succ_cons, List.drop_succ_cons, List.getD_cons_succ]
    rw [ih]; ring

theorem take_pos (sp : List Nat) (n : Nat) (h : ∀ d ∈ sp, 0 < d) : ∀ d ∈ sp.take n, 0 < d :=
  fun d hd => h d (List.mem_of_mem_take hd)

/-! ## main theorems -/

/-- the indices produced are exactly those below the bound whose digit (block-local) equals `val` -/
theorem pieK_mem (L D R val id : Nat) (hL : 0 < L) (hv : val < D) :
    (∃ k, k < L * R ∧ pieK L D val k = id) ↔ id < L * D * R ∧ (id / L) % D = val := by
  constructor
  · rintro ⟨k, hk, rfl⟩
    refine ⟨(pieK_lt_iff L D R val k hL hv).mpr hk, ?_⟩
    unfold pieK
    have hm := Nat.mod_lt k hL
    have e : L * val + k / L * (L * D) + k % L = k % L + L * (val + D * (k / L)) := by ring
    rw [e, Nat.add_mul_div_left _ _ hL, Nat.div_eq_of_lt hm, Nat.zero_add, Nat.add_mul_mod_self_left, Nat.mod_eq_of_lt hv]
  · rintro ⟨hid, hdig⟩
    have hD : 0 < D := by omega
    refine ⟨(id / L / D) * L + id % L, ?_, ?_⟩
    · have h1 : id / L < D * R := (Nat.div_lt_iff_lt_mul hL).mpr (by
        calc id < L * D * R := hid
          _ = D * R * L := by ring)
      have h2 : id / L / D < R := (Nat.div_lt_iff_lt_mul hD).mpr (by rw [Nat.mul_comm]; exact h1)
      have hm := Nat.mod_lt id hL
      have h3 : (id / L / D + 1) * L ≤ R * L := Nat.mul_le_mul_right _ h2
      have e3 : (id / L / D + 1) * L = id / L / D * L + L := by ring
      have e4 : L * R = R * L := by ring
      omega
    · unfold pieK
      have hm := Nat.mod_lt id hL
      have hq : (id / L / D * L + id % L) / L = id / L / D := by
        rw [Nat.add_comm, Nat.mul_comm, Nat.add_mul_div_left _ _ hL, Nat.div_eq_of_lt hm, Nat.zero_add]
      have hr : (id / L / D * L + id % L) % L = id % L := by
        rw [Nat.add_comm, Nat.mul_comm, Nat.add_mul_mod_self_left, Nat.mod_eq_of_lt hm]
      rw [hq, hr]
      have e1 := Nat.mod_add_div id L
      have e2 := Nat.mod_add_div (id / L) D
      rw [hdig] at e2
      calc L * val + id / L / D * (L * D) + id % L
          = id % L + L * (val + D * (id / L / D)) := by ring
        _ = id % L + L * (id / L) := by rw [e2]
        _ = id := e1

theorem pieInit_eq_state (sp : List Nat) (fixed val : Nat) (hf : fixed < sp.length) :
    pieInit sp fixed val = pieState (space (sp.take fixed)) (sp.getD fixed 1) val
      (space (sp.take fixed) * sp.getD fixed 1 * space (sp.drop (fixed + 1))) 0 := by
  have hs := space_split sp fixed hf
  unfold pieInit pieState
  simp only [Nat.zero_div, Nat.zero_mul, Nat.add_zero, Nat.zero_mod, ← hs]

/-- **PartialIndexEnumerator(F, fixedFactor, val)**: run to exhaustion it yields, in strictly ascending order,
    exactly the indices `id < factorSpace(F)` whose `fixedFactor` component (of `toFactors F id`) equals `val`,
    each once. -/
theorem pie_yields_exactly (sp : List Nat) (fixed val fuel : Nat) (hpos : ∀ d ∈ sp, 0 < d)
    (hf : fixed < sp.length) (hv : val < sp.getD fixed 1) (hfuel : space sp ≤ fuel) :
    let out := pieAll (pieInit sp fixed val) fuel
    out.Pairwise (· < ·) ∧ ∀ id, id ∈ out ↔ (id < space sp ∧ (toFactors sp id).getD fixed 0 = val) := by
  intro out
  have hL : 0 < space (sp.take fixed) := space_pos _ (take_pos sp fixed hpos)
  have hsplit := space_split sp fixed hf
  have hD : 0 < sp.getD fixed 1 := by omega
  have hN : space (sp.take fixed) * space (sp.drop (fixed + 1)) ≤ fuel := by
    have : space (sp.take fixed) * space (sp.drop (fixed + 1)) ≤ space sp := by
      rw [hsplit]
      calc space (sp.take fixed) * space (sp.drop (fixed + 1))
          = space (sp.take fixed) * 1 * space (sp.drop (fixed + 1)) := by ring
        _ ≤ space (sp.take fixed) * sp.getD fixed 1 * space (sp.drop (fixed + 1)) :=
            Nat.mul_le_mul_right _ (Nat.mul_le_mul_left _ hD)
    omega
  have hout : out = (List.range (space (sp.take fixed) * space (sp.drop (fixed + 1)))).map
      (pieK (space (sp.take fixed)) (sp.getD fixed 1) val) := by
    show pieAll (pieInit sp fixed val) fuel = _
    rw [pieInit_eq_state sp fixed val hf, pieAll_state _ _ _ _ hL hv fuel 0 (Nat.zero_le _), List.range_eq_range']
    congr 2
    omega
  constructor
  · rw [hout, List.pairwise_map]
    exact (List.pairwise_lt_range).imp (fun h => pieK_strictMono _ _ _ hL hv h)
  · intro id
    rw [hout, List.mem_map, toFactors_digit sp fixed id hf, hsplit, ← pieK_mem _ _ _ _ id hL hv]
    constructor
    · rintro ⟨k, hk, rfl⟩; exact ⟨k, List.mem_range.mp hk, rfl⟩
    · rintro ⟨k, hk, rfl⟩; exact ⟨k, List.mem_range.mpr hk, rfl⟩

example : pieAll (pieInit [2, 3, 2] 1 2) 12 = [4, 5, 10, 11] := by decide

/-! ## the PartialKeys constructor is the same walk over the sub-space of the keys -/

theorem space_append : ∀ (a b : List Nat), space (a ++ b) = space a * space b
  | [], b => by simp [space]
  | x :: a, b => by simp only [List.cons_append, space, space_append a b]; ring

theorem sel_append (a b l : List Nat) : sel (a ++ b) l = sel a l ++ sel b l := by simp [sel]

theorem takeWhile_pre (pre rest : List Nat) (fixed : Nat) (hpre : ∀ k ∈ pre, k < fixed)
    (hrest : ∀ k ∈ rest.head?, ¬ k < fixed) : (pre ++ rest).takeWhile (· < fixed) = pre := by
  rw [List.takeWhile_append_of_pos (by simpa using hpre)]
  cases rest with
  | nil => simp
  | cons r rs =>
    have : ¬ r < fixed := hrest r (by simp)
    simp [this]

theorem getD_01 (sp : List Nat) (k : Nat) (h : k < sp.length) : sp.getD k 0 = sp.getD k 1 := by
  simp [List.getD_eq_getElem?_getD, List.getElem?_eq_getElem h]

/-- `PartialIndexEnumerator(F, factors, fixedFactor, val, missing = false)`, `factors = pre ++ fixed :: post`
    with the keys of `pre` below `fixed`: identical to the plain enumerator on the sub-space `F[factors]`,
    fixed position `|pre|` -/
theorem pieInitPK_present (sp pre post : List Nat) (fixed val : Nat) (hpre : ∀ k ∈ pre, k < fixed) (hf : fixed < sp.length) :
    pieInitPK sp (pre ++ fixed :: post) fixed val false = pieInit (sel (pre ++ fixed :: post) sp) pre.length val := by
  have htw := takeWhile_pre pre (fixed :: post) fixed hpre (by simp)
  unfold pieInitPK pieInit
  simp only [htw, Bool.false_eq_true, if_false, Nat.mul_one]
  have h1 : (sel (pre ++ fixed :: post) sp).take pre.length = sel pre sp := by
    rw [sel_append]; simp [sel_length]
  have h2 : (sel (pre ++ fixed :: post) sp).getD pre.length 1 = sp.getD fixed 1 := by
    rw [sel_append]; simp [sel, List.getD_eq_getElem?_getD, List.getElem?_eq_getElem hf]
  rw [h1, h2]
  rfl

/-- … and with `missing = true`, `factors = pre ++ post` not containing `fixed`: the walk over the sub-space of
    `pre ++ fixed :: post` -/
theorem pieInitPK_missing (sp pre post : List Nat) (fixed val : Nat) (hpre : ∀ k ∈ pre, k < fixed)
    (hpost : ∀ k ∈ post.head?, ¬ k < fixed) (hf : fixed < sp.length) :
    pieInitPK sp (pre ++ post) fixed val true = pieInit (sel (pre ++ fixed :: post) sp) pre.length val := by
  have htw := takeWhile_pre pre post fixed hpre hpost
  unfold pieInitPK pieInit
  simp only [htw, if_true]
  have h1 : (sel (pre ++ fixed :: post) sp).take pre.length = sel pre sp := by
    rw [sel_append]; simp [sel_length]
  have h2 : (sel (pre ++ fixed :: post) sp).getD pre.length 1 = sp.getD fixed 1 := by
    rw [sel_append]; simp [sel, List.getD_eq_getElem?_getD, List.getElem?_eq_getElem hf]
  rw [h1, h2]
  have h3 : spacePartial (pre ++ post) sp * sp.getD fixed 1 = space (sel (pre ++ fixed :: post) sp) := by
    unfold spacePartial
    rw [sel_append, sel_append, space_append, space_append]
    simp only [sel, List.map_cons, space, getD_01 sp fixed hf]
    ring
  rw [h3]

/-- **PartialIndexEnumerator(F, factors, fixedFactor, val, missing)** yields, ascending and each once, exactly the
    indices of the sub-space `F[factors ∪ {fixedFactor}]` whose `fixedFactor` component equals `val`. -/
theorem piePK_yields_exactly (sp pre post : List Nat) (fixed val fuel : Nat) (missing : Bool)
    (hkeys : ∀ k ∈ pre ++ fixed :: post, k < sp.length) (hpos : ∀ d ∈ sp, 0 < d)
    (hpre : ∀ k ∈ pre, k < fixed) (hpost : ∀ k ∈ post.head?, ¬ k < fixed)
    (hv : val < sp.getD fixed 1) (hfuel : space (sel (pre ++ fixed :: post) sp) ≤ fuel) :
    let keys := if missing then pre ++ post else pre ++ fixed :: post
    let dims := sel (pre ++ fixed :: post) sp
    let out := pieAll (pieInitPK sp keys fixed val missing) fuel
    out.Pairwise (· < ·) ∧ ∀ id, id ∈ out ↔ (id < space dims ∧ (toFactors dims id).getD pre.length 0 = val) := by
  intro keys dims out
  have hf : fixed < sp.length := hkeys fixed (by simp)
  have hinit : pieInitPK sp keys fixed val missing = pieInit dims pre.length val := by
    cases missing
    · exact pieInitPK_present sp pre post fixed val hpre hf
    · exact pieInitPK_missing sp pre post fixed val hpre hpost hf
  have hdpos : ∀ d ∈ dims, 0 < d := by
    intro d hd
    simp only [dims, sel, List.mem_map] at hd
    obtain ⟨k, hk, rfl⟩ := hd
    have hk' := hkeys k hk
    have : sp.getD k 0 ∈ sp := by
      simp [List.getD_eq_getElem?_getD, List.getElem?_eq_getElem hk']
    exact hpos _ this
  have hlen : pre.length < dims.length := by simp [dims, sel_length]
  have hd : dims.getD pre.length 1 = sp.getD fixed 1 := by
    simp only [dims]
    rw [sel_append]; simp [sel, List.getD_eq_getElem?_getD, List.getElem?_eq_getElem hf]
  have := pie_yields_exactly dims pre.length val fuel hdpos hlen (by rw [hd]; exact hv) hfuel
  simp only [out, hinit]
  exact this

example : pieAll (pieInitPK [2, 3, 2] [0, 2] 1 2 true) 12 = [4, 5, 10, 11] := by decide
example : pieAll (pieInitPK [2, 3, 2, 2] [1, 3] 3 1 false) 12 = [3, 4, 5] := by decide

end AITB.Factored
