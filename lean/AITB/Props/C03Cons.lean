/-
  AITB.Props.C03Cons — bestConservativeAction as modelled (`conservativeAlpha`, which follows the source through `Gen.C03Src.consSkips`).

  The source now (fix 28e25a2) gives every observation a vector of Γ — also one that is impossible from the query belief — so the
  α-vector is a genuine point backup and is sound at EVERY belief, without side condition: `conservativeAlpha_src_sound`,
  `bestConservative_sound`, `conservativeAlpha_is_backup` (= it is an instance of the event `Step.addVec` of `anytime_sound`).
  The as-found reading (observations skipped) and its machine-checked counterexample live in Props/C03AsFound.lean.
-/
import AITB.Props.C03Refs
import AITB.Props.C12Pruner
import Mathlib.Tactic.IntervalCases
import Mathlib.Tactic.NormNum

namespace AITB.POMDP3
open AITB.MDP

theorem getD_get_mem (Γ : Array Vec) (P : Vec → Prop) (hP : ∀ v, v ∈ Γ.toList → P v) (hne : 0 < Γ.size) (i : Nat) (hi : i ≤ Γ.size - 1) :
    P (Γ.getD i #[]) := by
  have hi' : i < Γ.size := by omega
  have : Γ.getD i #[] = Γ[i] := by simp [Array.getD, hi']
  rw [this]
  exact hP _ (by simp)

theorem bestAt_le (S : Nat) (x : Vec) (Γ : Array Vec) (hne : 0 < Γ.size) : bestAt S x Γ ≤ Γ.size - 1 := by
  unfold bestAt
  have h : (Γ.toList.map Array.toList) ≠ [] := by
    intro h
    have h2 := congrArg List.length h
    simp only [List.length_map, Array.length_toList, List.length_nil] at h2
    omega
  have := AITB.Prune.findBest_lt (fun v => AITB.Prune.dot x.toList v) _ h
  simp at this
  omega

theorem conservativeAlphaOf_get (skips : Bool) (m : POMDP) (b : Vec) (Γ : Array Vec) (a s : Nat) (hs : s < m.S) :
    (conservativeAlphaOf skips m b Γ a).get s = backupVec m a (fun o =>
      let nb := bstepV m b a o
      if skips && checkEqualSmall (mass m.S nb.get) 0 then (fun _ => 0) else (Γ.getD (bestAt m.S nb Γ) #[]).get) s := by
  unfold conservativeAlphaOf
  exact mkVec_get _ hs

/-- **repaired reading, full strength**: every α-vector of bestConservativeAction is sound at every belief -/
theorem conservativeAlpha_sound (m : POMDP) (hv : Valid m) (V : (Nat → Rat) → Rat) (hV : SuperSol m V) (b : Vec) (Γ : Array Vec)
    (hne : 0 < Γ.size) (hΓ : ∀ v, v ∈ Γ.toList → LBSound m V v.get) (a : Nat) (ha : a < m.A) :
    LBSound m V (conservativeAlphaOf false m b Γ a).get := by
  refine LBSound_congr m V (fun s hs => (conservativeAlphaOf_get false m b Γ a s hs).symm) ?_
  refine pointBackup_sound m hv V hV a ha _ (fun o _ => ?_)
  simp only [Bool.false_and, Bool.false_eq_true, if_false]
  exact getD_get_mem Γ (fun v => LBSound m V v.get) hΓ hne _ (bestAt_le _ _ _ hne)

/-! ### witness: 2 states that never mix, each announces itself, every reward −1, discount 1/2 (so `V* = −2` everywhere) -/

def mW : POMDP :=
  { S := 2, A := 1, O := 2, γ := 1/2,
    T := fun s _ s1 => if s = s1 then 1 else 0,
    R := fun _ _ => -1,
    Ob := fun s1 _ o => if s1 = o then 1 else 0 }

/-- the exact optimal value as a single vector: a sound lower bound -/
def ΓW : Array Vec := #[#[-2, -2]]
/-- query belief: the corner `e_0`, from which observation 1 is impossible -/
def bW : Vec := #[1, 0]

theorem mW_valid : Valid mW where
  γ0 := by unfold mW; norm_num
  γ1 := by unfold mW; norm_num
  A0 := by unfold mW; norm_num
  T0 := by intro s a s1; unfold mW; simp only; split <;> norm_num
  T1 := by
    intro s a hs
    have hs' : s < 2 := hs
    interval_cases s <;> simp [mW, sumTo]
  O0 := by intro s a o; unfold mW; simp only; split <;> norm_num
  O1 := by
    intro s a hs
    have hs' : s < 2 := hs
    interval_cases s <;> simp [mW, sumTo]

/-- the reference `U x = −2·Σx` is the optimal value of `mW`; it is a super-solution -/
theorem mW_ref_superSol : SuperSol mW (linV mW.S (fun _ => -2)) :=
  linV_superSol mW mW_valid _ (by
    intro s hs a ha
    have hs' : s < 2 := hs
    have ha' : a < 1 := ha
    interval_cases s <;> interval_cases a <;> simp [blindStep, mW, sumTo] <;> norm_num)

theorem ΓW_sound : ∀ v, v ∈ ΓW.toList → LBSound mW (linV mW.S (fun _ => -2)) v.get := by
  intro v hv x _
  have : v = #[-2, -2] := by simpa [ΓW] using hv
  subst this
  unfold linV dotS
  refine le_of_eq (sumTo_congr (fun s hs => ?_))
  have hs' : s < 2 := hs
  interval_cases s <;> rfl

/-- the repaired reading is sound on the same input (instance of `conservativeAlpha_sound`) -/
example : LBSound mW (linV mW.S (fun _ => -2)) (conservativeAlphaOf false mW bW ΓW 0).get :=
  conservativeAlpha_sound mW mW_valid _ mW_ref_superSol bW ΓW (by decide) ΓW_sound 0 (by decide)

/-! ### the source as it is now -/

/-- regenerated fact: bestConservativeAction no longer skips observations -/
theorem src_cons_no_skip : Gen.C03Src.consSkips = false := rfl

/-- **full strength**: the α-vector the modelled `bestConservativeAction` builds for any action is sound at every belief -/
theorem conservativeAlpha_src_sound (m : POMDP) (hv : Valid m) (V : (Nat → Rat) → Rat) (hV : SuperSol m V) (b : Vec) (Γ : Array Vec)
    (hne : 0 < Γ.size) (hΓ : ∀ v, v ∈ Γ.toList → LBSound m V v.get) (a : Nat) (ha : a < m.A) :
    LBSound m V (conservativeAlpha m b Γ a).get := by
  unfold conservativeAlpha
  rw [src_cons_no_skip]
  exact conservativeAlpha_sound m hv V hV b Γ hne hΓ a ha

/-- the vector is the point backup of vectors of Γ: SARSOP's `backupNode` is an instance of the event `addVec` -/
theorem conservativeAlpha_is_backup (m : POMDP) (b : Vec) (Γ : Array Vec) (hne : 0 < Γ.size) (a : Nat) :
    ∃ ch : Nat → Nat → Rat, (∀ o, ∃ i, i < Γ.size ∧ ch o = (Γ.getD i #[]).get) ∧
      ∀ s, s < m.S → (conservativeAlpha m b Γ a).get s = backupVec m a ch s := by
  refine ⟨fun o => (Γ.getD (bestAt m.S (bstepV m b a o) Γ) #[]).get, fun o => ⟨_, ?_, rfl⟩, fun s hs => ?_⟩
  · have := bestAt_le m.S (bstepV m b a o) Γ hne; omega
  · unfold conservativeAlpha
    rw [src_cons_no_skip, conservativeAlphaOf_get false m b Γ a s hs]
    simp

/-- what `bestConservativeAction` returns: a legal action, a vector sound at every belief, and its value at the query belief — hence
    `value ≤ V b` (SARSOP's `node.LB`, GapMin's `lbActionValue`) -/
theorem bestConservative_sound (m : POMDP) (hv : Valid m) (V : (Nat → Rat) → Rat) (hV : SuperSol m V) (b : Vec) (hb : NN b.get) (Γ : Array Vec)
    (hne : 0 < Γ.size) (hΓ : ∀ v, v ∈ Γ.toList → LBSound m V v.get) :
    (bestConservative m b Γ).1 < m.A ∧ LBSound m V (bestConservative m b Γ).2.2.get ∧
    (bestConservative m b Γ).2.1 = dotV m.S b (bestConservative m b Γ).2.2 ∧ (bestConservative m b Γ).2.1 ≤ V b.get := by
  have hid : argmaxTo (m.A - 1) (fun a => dotV m.S b (((Array.range m.A).map (conservativeAlpha m b Γ)).getD a #[])) < m.A := by
    have := argmaxTo_le (m.A - 1) (fun a => dotV m.S b (((Array.range m.A).map (conservativeAlpha m b Γ)).getD a #[]))
    have := hv.A0; omega
  have hget : ∀ a, a < m.A → ((Array.range m.A).map (conservativeAlpha m b Γ)).getD a #[] = conservativeAlpha m b Γ a := by
    intro a ha; simp [Array.getD, ha]
  have hs : LBSound m V (bestConservative m b Γ).2.2.get := by
    show LBSound m V (((Array.range m.A).map (conservativeAlpha m b Γ)).getD _ #[]).get
    rw [hget _ hid]
    exact conservativeAlpha_src_sound m hv V hV b Γ hne hΓ _ hid
  exact ⟨hid, hs, rfl, hs b.get hb⟩

end AITB.POMDP3
