/-
  AITB.Props.C03Cons — bestConservativeAction as modelled (`conservativeAlphaOf`).

  * repaired reading (`skips = false`): the α-vector is a point backup of vectors of Γ, hence sound at EVERY belief (full strength);
  * source as found (`skips = true`, `Gen.C03Src.consSkips`): an observation of probability ≤ 1e-6 from the query belief contributes
    the zero vector.  The value at the query belief itself is unaffected when the probability is exactly zero, but the vector is then
    stored by SARSOP (`backupNode`: `lbVList.emplace_back(alpha, …)`) and read at OTHER beliefs, where that observation can occur:
    with negative values the zero contribution over-estimates.  `conservative_skip_counterexample` is a 2-state witness;
    `conservativeAlpha_sound_partial` is what remains true.
-/
import AITB.Props.C03Refs
import AITB.Props.C12Pruner
import Mathlib.Tactic.IntervalCases
import Mathlib.Tactic.NormNum

namespace AITB.POMDP3
open AITB.MDP

theorem getD_get_mem (Γ : Array Vec) (P : Vec → Prop) (hP : ∀ v, v ∈ Γ.toList → P v) (hne : 0 < Γ.size) (i : Nat) (hi : i ≤ Γ.size - 1) :
    P (Γ.getD i #[]) := by
  have hi' : i < Γ.size := by omega
  have : Γ.getD i #[] = Γ[i] := by simp [Array.getD, hi']
  rw [this]
  exact hP _ (by simp)

theorem bestAt_le (S : Nat) (x : Vec) (Γ : Array Vec) (hne : 0 < Γ.size) : bestAt S x Γ ≤ Γ.size - 1 := by
  unfold bestAt
  have h : (Γ.toList.map Array.toList) ≠ [] := by
    intro h
    have h2 := congrArg List.length h
    simp only [List.length_map, Array.length_toList, List.length_nil] at h2
    omega
  have := AITB.Prune.findBest_lt (fun v => AITB.Prune.dot x.toList v) _ h
  simp at this
  omega

theorem conservativeAlphaOf_get (skips : Bool) (m : POMDP) (b : Vec) (Γ : Array Vec) (a s : Nat) (hs : s < m.S) :
    (conservativeAlphaOf skips m b Γ a).get s = backupVec m a (fun o =>
      let nb := bstepV m b a o
      if skips && checkEqualSmall (mass m.S nb.get) 0 then (fun _ => 0) else (Γ.getD (bestAt m.S nb Γ) #[]).get) s := by
  unfold conservativeAlphaOf
  exact mkVec_get _ hs

/-- **repaired reading, full strength**: every α-vector of bestConservativeAction is sound at every belief -/
theorem conservativeAlpha_sound (m : POMDP) (hv : Valid m) (V : (Nat → Rat) → Rat) (hV : SuperSol m V) (b : Vec) (Γ : Array Vec)
    (hne : 0 < Γ.size) (hΓ : ∀ v, v ∈ Γ.toList → LBSound m V v.get) (a : Nat) (ha : a < m.A) :
    LBSound m V (conservativeAlphaOf false m b Γ a).get := by
  refine LBSound_congr m V (fun s hs => (conservativeAlphaOf_get false m b Γ a s hs).symm) ?_
  refine pointBackup_sound m hv V hV a ha _ (fun o _ => ?_)
  simp only [Bool.false_and, Bool.false_eq_true, if_false]
  exact getD_get_mem Γ (fun v => LBSound m V v.get) hΓ hne _ (bestAt_le _ _ _ hne)

/-- **source as found, partial**: sound at the beliefs `x` where every observation that is skipped at the query belief `b` has
    non-negative reference value after `x` (in particular at `x = b` when the skipped observations have exactly zero mass).
    FULL STATEMENT `LBSound m V (conservativeAlphaOf true m b Γ a).get` is false: `conservative_skip_counterexample`. -/
theorem conservativeAlpha_sound_partial (m : POMDP) (hv : Valid m) (V : (Nat → Rat) → Rat) (hV : SuperSol m V) (b : Vec) (Γ : Array Vec)
    (hne : 0 < Γ.size) (hΓ : ∀ v, v ∈ Γ.toList → LBSound m V v.get) (a : Nat) (ha : a < m.A) (x : Nat → Rat) (hx : NN x)
    (hskip : ∀ o, o < m.O → checkEqualSmall (mass m.S (bstepV m b a o).get) 0 = true → 0 ≤ V (bstep m x a o)) :
    dotS m.S x (conservativeAlphaOf true m b Γ a).get ≤ V x := by
  have e : dotS m.S x (conservativeAlphaOf true m b Γ a).get = dotS m.S x (backupVec m a (fun o =>
      let nb := bstepV m b a o
      if true && checkEqualSmall (mass m.S nb.get) 0 then (fun _ => 0) else (Γ.getD (bestAt m.S nb Γ) #[]).get)) := by
    unfold dotS; exact sumTo_congr (fun s hs => by rw [conservativeAlphaOf_get true m b Γ a s hs])
  rw [e]
  refine pointBackup_skip_sound_partial m hv V hV a ha _ x hx (fun o ho => ?_)
  by_cases hc : checkEqualSmall (mass m.S (bstepV m b a o).get) 0 = true
  · right
    simp only [Bool.true_and, hc, if_true]
    exact ⟨fun _ => trivial, hskip o ho hc⟩
  · left
    simp only [Bool.true_and, hc]
    exact getD_get_mem Γ (fun v => LBSound m V v.get) hΓ hne _ (bestAt_le _ _ _ hne)

/-! ### witness: 2 states that never mix, each announces itself, every reward −1, discount 1/2 (so `V* = −2` everywhere) -/

def mW : POMDP :=
  { S := 2, A := 1, O := 2, γ := 1/2,
    T := fun s _ s1 => if s = s1 then 1 else 0,
    R := fun _ _ => -1,
    Ob := fun s1 _ o => if s1 = o then 1 else 0 }

/-- the exact optimal value as a single vector: a sound lower bound -/
def ΓW : Array Vec := #[#[-2, -2]]
/-- query belief: the corner `e_0`, from which observation 1 is impossible -/
def bW : Vec := #[1, 0]

/-- the vector the source builds at `e_0` is `(−2, −1)`: at the corner `e_1` it claims −1 while the optimal value is −2 -/
theorem conservative_skip_witness_values :
    (conservativeAlphaOf true mW bW ΓW 0).get 0 = -2 ∧ (conservativeAlphaOf true mW bW ΓW 0).get 1 = -1 ∧
    (conservativeAlphaOf false mW bW ΓW 0).get 0 = -2 ∧ (conservativeAlphaOf false mW bW ΓW 0).get 1 = -2 := by
  decide +kernel

theorem mW_valid : Valid mW where
  γ0 := by unfold mW; norm_num
  γ1 := by unfold mW; norm_num
  A0 := by unfold mW; norm_num
  T0 := by intro s a s1; unfold mW; simp only; split <;> norm_num
  T1 := by
    intro s a hs
    have hs' : s < 2 := hs
    interval_cases s <;> simp [mW, sumTo]
  O0 := by intro s a o; unfold mW; simp only; split <;> norm_num
  O1 := by
    intro s a hs
    have hs' : s < 2 := hs
    interval_cases s <;> simp [mW, sumTo]

/-- the reference `U x = −2·Σx` is the optimal value of `mW`; it is a super-solution -/
theorem mW_ref_superSol : SuperSol mW (linV mW.S (fun _ => -2)) :=
  linV_superSol mW mW_valid _ (by
    intro s hs a ha
    have hs' : s < 2 := hs
    have ha' : a < 1 := ha
    interval_cases s <;> interval_cases a <;> simp [blindStep, mW, sumTo] <;> norm_num)

theorem ΓW_sound : ∀ v, v ∈ ΓW.toList → LBSound mW (linV mW.S (fun _ => -2)) v.get := by
  intro v hv x _
  have : v = #[-2, -2] := by simpa [ΓW] using hv
  subst this
  unfold linV dotS
  refine le_of_eq (sumTo_congr (fun s hs => ?_))
  have hs' : s < 2 := hs
  interval_cases s <;> rfl

/-- **counterexample to the full-strength statement for the source as found**: all hypotheses of `conservativeAlpha_sound` hold
    (`mW_valid`, `mW_ref_superSol`, `ΓW_sound`), yet the α-vector built at `e_0` exceeds the optimal value at `e_1` -/
theorem conservative_skip_counterexample :
    ¬ LBSound mW (linV mW.S (fun _ => -2)) (conservativeAlphaOf true mW bW ΓW 0).get := by
  intro h
  have := h (unit 1) (NN_unit 1)
  revert this
  decide +kernel

/-- the repaired reading is sound on the same input (instance of `conservativeAlpha_sound`) -/
example : LBSound mW (linV mW.S (fun _ => -2)) (conservativeAlphaOf false mW bW ΓW 0).get :=
  conservativeAlpha_sound mW mW_valid _ mW_ref_superSol bW ΓW (by decide) ΓW_sound 0 (by decide)

end AITB.POMDP3
