/-
  AITB.Props.C12UsefulPoints — the documented contract of `extractBestUsefulPoints`
  (include/AIToolbox/Utils/Polytope.hpp, model: AITB.Model.UsefulPoints):

    "moves all non-useful points at the end of the input range and returns the iterator to the first
     non-useful point; when multiple Points support the same Hyperplane, the one with the best value is
     returned"

  Generic in the point type `α`, in `key` (index of the hyperplane `findBestAtPoint` returns for a point),
  in `val` (its value there) and in the number of hyperplanes `entriesN`.
  With `r := extractBestUsefulPoints key val entriesN pts`:

  * `bup_perm`        `r.1 ++ r.2` is a permutation of `pts`
  * `bup_keys_nodup`  the kept range `r.1` has at most one point per hyperplane
  * `bup_length_le`   `r.1.length ≤ entriesN` and `r.1.length ≤ pts.length`
  * `bup_complete`    (keys in range) every point of `pts` has a kept point on the same hyperplane with at least its value
  * `bup_kept_mem`    kept points are input points
  * `bup_kept_best`   (keys in range) a kept point has the maximal value among all input points of its hyperplane
-/
import AITB.Model.UsefulPoints
import Mathlib.Algebra.Order.Field.Rat
import Mathlib.Data.List.Perm.Subperm
import Mathlib.Data.List.Nodup

namespace AITB.UsefulPoints

variable {α : Type}

/-! ## `discardFront` -/

theorem discardFront_snd (x : α) (U' D : List α) : (discardFront x U' D).2 = x :: D := by
  unfold discardFront; split <;> rfl

theorem discardFront_fst_perm (x : α) (U' D : List α) : (discardFront x U' D).1.Perm U' := by
  unfold discardFront
  split
  next h =>
    have : U' = [] := List.getLast?_eq_none_iff.mp h
    subst this; exact List.Perm.refl _
  next z h =>
    have hU : U'.dropLast ++ [z] = U' := List.dropLast_append_getLast? z (by simp [h])
    show (z :: U'.dropLast).Perm U'
    conv => rhs; rw [← hU]
    exact (List.perm_append_singleton z _).symm

theorem discardFront_fst_length (x : α) (U' D : List α) : (discardFront x U' D).1.length = U'.length :=
  (discardFront_fst_perm x U' D).length_eq

theorem mem_discardFront_fst {x : α} {U' D : List α} {y : α} : y ∈ (discardFront x U' D).1 ↔ y ∈ U' :=
  (discardFront_fst_perm x U' D).mem_iff

/-- the statement suggested for `discardFront`: the two ranges are a permutation of `U' ++ x :: D` -/
theorem discardFront_perm (x : α) (U' D : List α) :
    ((discardFront x U' D).1 ++ (discardFront x U' D).2).Perm (U' ++ x :: D) := by
  rw [discardFront_snd]
  exact (discardFront_fst_perm x U' D).append_right _

section generic
variable (key : α → Nat) (val : α → Rat) (entriesN : Nat)

/-! ## `replaceKey` -/

theorem replaceKey_map_key (p : α) : ∀ K : List α, (replaceKey key p K).map key = K.map key
  | [] => rfl
  | q :: K => by
    unfold replaceKey
    split
    next h => simp [show key q = key p from by simpa using h]
    next h => simp [replaceKey_map_key p K]

theorem replaceKey_length (p : α) (K : List α) : (replaceKey key p K).length = K.length := by
  simpa using congrArg List.length (replaceKey_map_key key p K)

theorem find?_key_some {p q : α} {K : List α} (h : K.find? (fun q => key q == key p) = some q) :
    q ∈ K ∧ key q = key p := by
  refine ⟨List.mem_of_find?_eq_some h, ?_⟩
  have := List.find?_some h
  simpa using this

theorem find?_key_none {p : α} {K : List α} (h : K.find? (fun q => key q == key p) = none) :
    key p ∉ K.map key := by
  intro hm
  obtain ⟨x, hx, hk⟩ := List.mem_map.mp hm
  have := List.find?_eq_none.mp h x hx
  simp [hk] at this

/-- the found point is exchanged for `p` -/
theorem replaceKey_perm {p q : α} : ∀ {K : List α}, K.find? (fun q => key q == key p) = some q →
    (q :: replaceKey key p K).Perm (p :: K)
  | [], h => by simp at h
  | x :: K, h => by
    unfold replaceKey
    by_cases hx : (key x == key p) = true
    · rw [List.find?_cons_of_pos (p := fun q => key q == key p) (l := K) hx] at h
      cases h
      rw [if_pos hx]
      exact List.Perm.swap _ _ _
    · rw [List.find?_cons_of_neg (p := fun q => key q == key p) (l := K) hx] at h
      rw [if_neg hx]
      refine (List.Perm.swap _ _ _).trans ?_
      refine ((replaceKey_perm h).cons x).trans ?_
      exact List.Perm.swap _ _ _

theorem mem_replaceKey_self {p q : α} : ∀ {K : List α}, K.find? (fun q => key q == key p) = some q →
    p ∈ replaceKey key p K
  | [], h => by simp at h
  | x :: K, h => by
    unfold replaceKey
    by_cases hx : (key x == key p) = true
    · rw [if_pos hx]; exact List.mem_cons_self
    · rw [if_neg hx]
      rw [List.find?_cons_of_neg (p := fun q => key q == key p) (l := K) hx] at h
      exact List.mem_cons_of_mem _ (mem_replaceKey_self h)

/-! ## coverage -/

/-- every point of `X` has a point of `K` on the same hyperplane with at least its value -/
def Cov (K X : List α) : Prop := ∀ x ∈ X, ∃ q ∈ K, key q = key x ∧ val x ≤ val q

variable {key val}

theorem Cov.self (K : List α) : Cov key val K K := fun x hx => ⟨x, hx, rfl, le_refl _⟩

theorem Cov.trans {K' K X : List α} (h1 : Cov key val K' K) (h2 : Cov key val K X) : Cov key val K' X := by
  intro x hx
  obtain ⟨q, hq, hk, hv⟩ := h2 x hx
  obtain ⟨q', hq', hk', hv'⟩ := h1 q hq
  exact ⟨q', hq', hk'.trans hk, le_trans hv hv'⟩

theorem Cov.of_subset {K X : List α} (h : ∀ x ∈ X, x ∈ K) : Cov key val K X :=
  fun x hx => ⟨x, h x hx, rfl, le_refl _⟩

theorem cov_append {K X Y : List α} : Cov key val K (X ++ Y) ↔ Cov key val K X ∧ Cov key val K Y := by
  unfold Cov
  simp only [List.mem_append]
  constructor
  · intro h; exact ⟨fun x hx => h x (Or.inl hx), fun x hx => h x (Or.inr hx)⟩
  · rintro ⟨h1, h2⟩ x (hx | hx)
    · exact h1 x hx
    · exact h2 x hx

theorem cov_cons {K X : List α} {a : α} :
    Cov key val K (a :: X) ↔ (∃ q ∈ K, key q = key a ∧ val a ≤ val q) ∧ Cov key val K X := by
  unfold Cov
  simp only [List.mem_cons]
  constructor
  · intro h; exact ⟨h a (Or.inl rfl), fun x hx => h x (Or.inr hx)⟩
  · rintro ⟨h1, h2⟩ x (hx | hx)
    · subst hx; exact h1
    · exact h2 x hx

/-- replacing the found point by one of at least its value keeps everything covered -/
theorem cov_replaceKey {p q : α} {K : List α} (h : K.find? (fun q => key q == key p) = some q)
    (hv : val q ≤ val p) : Cov key val (replaceKey key p K) K := by
  intro x hx
  have hp := replaceKey_perm key h
  have hx' : x ∈ q :: replaceKey key p K := hp.mem_iff.mpr (List.mem_cons_of_mem _ hx)
  rcases List.mem_cons.mp hx' with h1 | h1
  · subst h1
    exact ⟨p, mem_replaceKey_self key h, ((find?_key_some key h).2).symm, hv⟩
  · exact ⟨x, h1, rfl, le_refl _⟩

variable (key val)

/-! ## first loop -/

omit key val in
theorem perm_step {K' K U1 U' D : List α} {p q : α} (h1 : (q :: K').Perm (p :: K)) (h2 : U1.Perm U') :
    (K' ++ U1 ++ q :: D).Perm (K ++ p :: U' ++ D) := by
  refine List.perm_middle.trans ?_
  have e1 : (q :: (K' ++ U1) ++ D).Perm (p :: K ++ U' ++ D) := (h1.append h2).append_right D
  refine e1.trans ?_
  exact (List.perm_middle (l₁ := K) (l₂ := U') (a := p)).symm.append_right D

theorem loop1_perm (n : Nat) (K U D : List α) :
    ((loop1 key val entriesN n K U D).1 ++ (loop1 key val entriesN n K U D).2.1
      ++ (loop1 key val entriesN n K U D).2.2).Perm (K ++ U ++ D) := by
  fun_induction loop1 key val entriesN n K U D with
  | case1 K U D => exact List.Perm.refl _
  | case2 n K D => exact List.Perm.refl _
  | case3 n K D p U' hlt hf ih =>
    refine ih.trans ?_
    simp
  | case4 n K D p U' hlt q hf hv r ih =>
    refine ih.trans ?_
    show (replaceKey key p K ++ (discardFront q U' D).1 ++ (discardFront q U' D).2).Perm _
    rw [discardFront_snd]
    exact perm_step (replaceKey_perm key hf) (discardFront_fst_perm q U' D)
  | case5 n K D p U' hlt q hf hv r ih =>
    refine ih.trans ?_
    show (K ++ (discardFront p U' D).1 ++ (discardFront p U' D).2).Perm _
    rw [discardFront_snd]
    exact perm_step (List.Perm.refl _) (discardFront_fst_perm p U' D)
  | case6 n K D p U' hlt => exact List.Perm.refl _

theorem loop1_keys_nodup (n : Nat) (K U D : List α) (h : (K.map key).Nodup) :
    ((loop1 key val entriesN n K U D).1.map key).Nodup := by
  fun_induction loop1 key val entriesN n K U D with
  | case1 K U D => exact h
  | case2 n K D => exact h
  | case3 n K D p U' hlt hf ih =>
    apply ih
    rw [List.map_append, List.map_singleton]
    refine List.Nodup.append h (List.nodup_singleton _) ?_
    intro a ha hb
    rw [List.mem_singleton] at hb
    subst hb
    exact find?_key_none key hf ha
  | case4 n K D p U' hlt q hf hv r ih =>
    apply ih
    rw [replaceKey_map_key]; exact h
  | case5 n K D p U' hlt q hf hv r ih => exact ih h
  | case6 n K D p U' hlt => exact h

theorem loop1_length_le (n : Nat) (K U D : List α) (h : K.length ≤ entriesN) :
    (loop1 key val entriesN n K U D).1.length ≤ entriesN := by
  fun_induction loop1 key val entriesN n K U D with
  | case1 K U D => exact h
  | case2 n K D => exact h
  | case3 n K D p U' hlt hf ih =>
    apply ih
    simp only [List.length_append, List.length_singleton]; omega
  | case4 n K D p U' hlt q hf hv r ih =>
    apply ih
    rw [replaceKey_length]; exact h
  | case5 n K D p U' hlt q hf hv r ih => exact ih h
  | case6 n K D p U' hlt => exact h

/-- with enough fuel the first loop stops only at `it == bound` or `it == maxBound` -/
theorem loop1_exit (n : Nat) (K U D : List α) (hn : U.length ≤ n) :
    (loop1 key val entriesN n K U D).2.1 = [] ∨ ¬ (loop1 key val entriesN n K U D).1.length < entriesN := by
  fun_induction loop1 key val entriesN n K U D with
  | case1 K U D =>
    left
    exact List.eq_nil_of_length_eq_zero (Nat.le_zero.mp hn)
  | case2 n K D => left; rfl
  | case3 n K D p U' hlt hf ih =>
    apply ih
    simp only [List.length_cons] at hn; omega
  | case4 n K D p U' hlt q hf hv r ih =>
    apply ih
    simp only [List.length_cons] at hn
    show (discardFront q U' D).1.length ≤ n
    rw [discardFront_fst_length]; omega
  | case5 n K D p U' hlt q hf hv r ih =>
    apply ih
    simp only [List.length_cons] at hn
    show (discardFront p U' D).1.length ≤ n
    rw [discardFront_fst_length]; omega
  | case6 n K D p U' hlt => right; exact hlt

/-- everything that has left the unexamined range is covered by the kept range -/
theorem loop1_cov (n : Nat) (K U D : List α) (h : Cov key val K D) :
    Cov key val (loop1 key val entriesN n K U D).1 (loop1 key val entriesN n K U D).2.2 := by
  fun_induction loop1 key val entriesN n K U D with
  | case1 K U D => exact h
  | case2 n K D => exact h
  | case3 n K D p U' hlt hf ih =>
    apply ih
    exact Cov.trans (Cov.of_subset (fun x hx => List.mem_append_left _ hx)) h
  | case4 n K D p U' hlt q hf hv r ih =>
    apply ih
    show Cov key val (replaceKey key p K) (discardFront q U' D).2
    rw [discardFront_snd]
    have hc := cov_replaceKey (val := val) hf (le_of_lt hv)
    refine cov_cons.mpr ⟨?_, hc.trans h⟩
    exact hc q (find?_key_some key hf).1
  | case5 n K D p U' hlt q hf hv r ih =>
    apply ih
    show Cov key val K (discardFront p U' D).2
    rw [discardFront_snd]
    refine cov_cons.mpr ⟨?_, h⟩
    exact ⟨q, (find?_key_some key hf).1, (find?_key_some key hf).2, not_lt.mp hv⟩
  | case6 n K D p U' hlt => exact h

/-! ## second loop -/

theorem loop2_perm (K U acc : List α) :
    ((loop2 key val K U acc).1 ++ (loop2 key val K U acc).2).Perm (K ++ U ++ acc) := by
  fun_induction loop2 key val K U acc with
  | case1 K acc =>
    simp only [List.append_nil]
    exact List.Perm.append_left K (List.reverse_perm acc)
  | case2 K p U' acc q hf hv ih =>
    refine ih.trans ?_
    exact perm_step (replaceKey_perm key hf) (List.Perm.refl _)
  | case3 K p U' acc q hf hv ih =>
    refine ih.trans ?_
    have := List.perm_middle (l₁ := K ++ U') (l₂ := acc) (a := p)
    refine this.trans ?_
    have e2 : (p :: (K ++ U') ++ acc).Perm (K ++ p :: U' ++ acc) :=
      (List.perm_middle (l₁ := K) (l₂ := U') (a := p)).symm.append_right acc
    exact e2
  | case4 K p U' acc hf ih =>
    refine ih.trans ?_
    have := List.perm_middle (l₁ := K ++ U') (l₂ := acc) (a := p)
    refine this.trans ?_
    exact (List.perm_middle (l₁ := K) (l₂ := U') (a := p)).symm.append_right acc

/-- the second loop only exchanges slot contents: the hyperplane of every slot is unchanged -/
theorem loop2_map_key (K U acc : List α) : (loop2 key val K U acc).1.map key = K.map key := by
  fun_induction loop2 key val K U acc with
  | case1 K acc => rfl
  | case2 K p U' acc q hf hv ih => rw [ih, replaceKey_map_key]
  | case3 K p U' acc q hf hv ih => exact ih
  | case4 K p U' acc hf ih => exact ih

/-- if every hyperplane met in `U` has a slot, the final slots cover `U` and whatever the slots covered before -/
theorem loop2_cov (K U acc Y : List α) (hY : Cov key val K Y) (hU : ∀ p ∈ U, key p ∈ K.map key) :
    Cov key val (loop2 key val K U acc).1 (Y ++ U) := by
  fun_induction loop2 key val K U acc generalizing Y with
  | case1 K acc => simpa using hY
  | case2 K p U' acc q hf hv ih =>
    have hc := cov_replaceKey (val := val) hf (le_of_lt hv)
    have h1 : Cov key val (replaceKey key p K) (Y ++ [p]) :=
      cov_append.mpr ⟨hc.trans hY, Cov.of_subset (fun x hx => by
        rw [List.mem_singleton] at hx; subst hx; exact mem_replaceKey_self key hf)⟩
    have h2 := ih (Y ++ [p]) h1 (fun x hx => by
      rw [replaceKey_map_key]; exact hU x (List.mem_cons_of_mem _ hx))
    simpa [List.append_assoc] using h2
  | case3 K p U' acc q hf hv ih =>
    have h1 : Cov key val K (Y ++ [p]) :=
      cov_append.mpr ⟨hY, cov_cons.mpr ⟨⟨q, (find?_key_some key hf).1, (find?_key_some key hf).2, not_lt.mp hv⟩,
        fun x hx => by simp at hx⟩⟩
    have h2 := ih (Y ++ [p]) h1 (fun x hx => hU x (List.mem_cons_of_mem _ hx))
    simpa [List.append_assoc] using h2
  | case4 K p U' acc hf ih =>
    exact absurd (hU p (by simp)) (find?_key_none key hf)

/-! ## pigeonhole -/

/-- a duplicate-free list of `n` naturals below `n` contains every natural below `n` -/
theorem mem_of_nodup_lt_length {l : List Nat} {n : Nat} (hnd : l.Nodup) (hlt : ∀ k ∈ l, k < n)
    (hlen : n ≤ l.length) : ∀ k, k < n → k ∈ l := by
  have hsub : l ⊆ List.range n := fun k hk => List.mem_range.mpr (hlt k hk)
  have hsp : l.Subperm (List.range n) := List.subperm_of_subset hnd hsub
  have hp : l.Perm (List.range n) := hsp.perm_of_length_le (by simpa using hlen)
  intro k hk
  exact hp.mem_iff.mpr (List.mem_range.mpr hk)

/-! ## the contract -/

theorem bup_perm (pts : List α) :
    ((extractBestUsefulPoints key val entriesN pts).1 ++ (extractBestUsefulPoints key val entriesN pts).2).Perm pts := by
  have h1 := loop1_perm key val entriesN pts.length [] pts []
  unfold extractBestUsefulPoints
  generalize loop1 key val entriesN pts.length [] pts [] = r at h1
  obtain ⟨K, U, D⟩ := r
  simp only [List.nil_append, List.append_nil] at h1
  cases U with
  | nil => simpa using h1
  | cons u U =>
    have h2 := loop2_perm key val K (u :: U) []
    simp only [List.append_nil] at h2
    show ((loop2 key val K (u :: U) []).1 ++ ((loop2 key val K (u :: U) []).2 ++ D)).Perm pts
    rw [← List.append_assoc]
    exact (h2.append_right D).trans h1

theorem bup_keys_nodup (pts : List α) :
    ((extractBestUsefulPoints key val entriesN pts).1.map key).Nodup := by
  have h1 := loop1_keys_nodup key val entriesN pts.length [] pts [] List.nodup_nil
  unfold extractBestUsefulPoints
  generalize loop1 key val entriesN pts.length [] pts [] = r at h1
  obtain ⟨K, U, D⟩ := r
  cases U with
  | nil => exact h1
  | cons u U =>
    show ((loop2 key val K (u :: U) []).1.map key).Nodup
    rw [loop2_map_key]; exact h1

theorem bup_length_le (pts : List α) :
    (extractBestUsefulPoints key val entriesN pts).1.length ≤ entriesN ∧
    (extractBestUsefulPoints key val entriesN pts).1.length ≤ pts.length := by
  refine ⟨?_, ?_⟩
  · have h1 := loop1_length_le key val entriesN pts.length [] pts [] (Nat.zero_le _)
    unfold extractBestUsefulPoints
    generalize loop1 key val entriesN pts.length [] pts [] = r at h1
    obtain ⟨K, U, D⟩ := r
    cases U with
    | nil => exact h1
    | cons u U =>
      show (loop2 key val K (u :: U) []).1.length ≤ entriesN
      have := congrArg List.length (loop2_map_key key val K (u :: U) [])
      simp only [List.length_map] at this
      rw [this]; exact h1
  · have := (bup_perm key val entriesN pts).length_eq
    rw [List.length_append] at this
    omega

theorem bup_kept_mem (pts : List α) : ∀ q ∈ (extractBestUsefulPoints key val entriesN pts).1, q ∈ pts :=
  fun _ hq => (bup_perm key val entriesN pts).mem_iff.mp (List.mem_append_left _ hq)

/-- every supported hyperplane keeps a supporter, of the best value among all its supporters.
    `hkey`: `findBestAtPoint` returns an index into the hyperplane range. -/
theorem bup_complete (pts : List α) (hkey : ∀ p ∈ pts, key p < entriesN) :
    ∀ p ∈ pts, ∃ q ∈ (extractBestUsefulPoints key val entriesN pts).1, key q = key p ∧ val p ≤ val q := by
  have hperm := loop1_perm key val entriesN pts.length [] pts []
  have hnd := loop1_keys_nodup key val entriesN pts.length [] pts [] List.nodup_nil
  have hlen := loop1_length_le key val entriesN pts.length [] pts [] (Nat.zero_le _)
  have hexit := loop1_exit key val entriesN pts.length [] pts [] (Nat.le_refl _)
  have hcov := loop1_cov key val entriesN pts.length [] pts [] (fun x hx => by simp at hx)
  unfold extractBestUsefulPoints
  generalize loop1 key val entriesN pts.length [] pts [] = r at hperm hnd hlen hexit hcov
  obtain ⟨K, U, D⟩ := r
  simp only [List.nil_append, List.append_nil] at hperm
  have hmem : ∀ x, x ∈ pts ↔ (x ∈ K ∨ x ∈ U) ∨ x ∈ D := by
    intro x; rw [← hperm.mem_iff]; simp only [List.mem_append]
  cases U with
  | nil =>
    intro p hp
    show ∃ q ∈ K, key q = key p ∧ val p ≤ val q
    rcases (hmem p).mp hp with (h | h) | h
    · exact ⟨p, h, rfl, le_refl _⟩
    · simp at h
    · exact hcov p h
  | cons u U =>
    show Cov key val (loop2 key val K (u :: U) []).1 pts
    -- the first loop stopped at `maxBound`: every hyperplane has a slot
    have hfull : entriesN ≤ K.length := by
      rcases hexit with h | h
      · simp at h
      · exact Nat.le_of_not_lt h
    have hall : ∀ k, k < entriesN → k ∈ K.map key := by
      refine mem_of_nodup_lt_length hnd ?_ (by simpa using hfull)
      intro k hk
      obtain ⟨x, hx, rfl⟩ := List.mem_map.mp hk
      exact hkey x ((hmem x).mpr (Or.inl (Or.inl hx)))
    have hY : Cov key val K (K ++ D) := cov_append.mpr ⟨Cov.self K, hcov⟩
    have h2 := loop2_cov key val K (u :: U) [] (K ++ D) hY
      (fun p hp => hall _ (hkey p ((hmem p).mpr (Or.inl (Or.inr hp)))))
    intro p hp
    apply h2 p
    rcases (hmem p).mp hp with (h | h) | h
    · exact List.mem_append_left _ (List.mem_append_left _ h)
    · exact List.mem_append_right _ h
    · exact List.mem_append_left _ (List.mem_append_right _ h)

/-- the kept point of a hyperplane has the maximal value among all the input points supporting that hyperplane -/
theorem bup_kept_best (pts : List α) (hkey : ∀ p ∈ pts, key p < entriesN) :
    ∀ q ∈ (extractBestUsefulPoints key val entriesN pts).1, ∀ p ∈ pts, key p = key q → val p ≤ val q := by
  intro q hq p hp hk
  obtain ⟨q', hq', hk', hv⟩ := bup_complete key val entriesN pts hkey p hp
  have : q' = q :=
    List.inj_on_of_nodup_map (bup_keys_nodup key val entriesN pts) hq' hq (hk'.trans hk)
  exact this ▸ hv

end generic

/-! ## test: three hyperplanes, seven points `(hyperplane, value)`; hyperplane 1 is met three times, the best value 9
    comes last, after the first loop has already stopped at `maxBound` -/

example :
    extractBestUsefulPoints (fun p : Nat × Int => p.1) (fun p => (p.2 : Rat)) 3
      [(0, 5), (1, 2), (0, 7), (1, 4), (2, 1), (2, 0), (1, 9)]
    = ([(0, 7), (1, 9), (2, 1)], [(1, 4), (2, 0), (1, 2), (0, 5)]) := by
  decide +kernel

/-- test: the first loop ends at `it == bound` (fewer supported hyperplanes than `entriesN`) -/
example :
    extractBestUsefulPoints (fun p : Nat × Int => p.1) (fun p => (p.2 : Rat)) 5
      [(0, 5), (1, 2), (0, 7), (1, 4), (2, 1), (2, 0), (1, 3), (0, 9), (1, 1)]
    = ([(0, 9), (1, 4), (2, 1)], [(2, 0), (1, 3), (1, 2), (0, 7), (1, 1), (0, 5)]) := by
  decide +kernel

end AITB.UsefulPoints
