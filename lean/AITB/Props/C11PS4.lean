/-
  AITB.Props.C11PS4 — PrioritizedSweeping with `setQFunction`, threshold θ ≥ 0 (round 3).

  `ps_residual_bound` (round 2) and `ps_fixed_point_setq` (round 3, θ = 0) combined: from ANY start state with a well-formed
  queue (arbitrary table, arbitrary stale value function), any interleaving of `stepUpdateQ`, `batchUpdateQ` (any pop order)
  and `setQFunction`: queue empty ∧ every pair backed up since the last replacement ⇒ the Bellman residual of every entry is
  at most γ·θ·N, N = number of backups performed since the last `setQFunction` (the ghost list is emptied by it).
  This is the theorem behind the clause `residual_exceeds_theta_bound` on runs that call `setQFunction`, and — the start state
  being arbitrary — on planners whose model was re-synced under them.
-/
import AITB.Props.C11PS2
import AITB.Props.C11PS3

namespace AITB.Learn

structure InvTW (m : MDP) (θ : Rat) (st : PS) : Prop where
  qok : QOk m st.queue
  dok : ∀ x y, (x, y) ∈ st.done → x < m.S ∧ y < m.A
  vmax : ∀ x y, (x, y) ∈ st.done → st.v x = maxA m.A (st.q x)
  stale : ∀ s a, (s, a) ∈ st.done → inQueue st.queue s a = true ∨
    absR (st.q s a - (m.R s a + sumTo m.S (fun s1 => m.T s a s1 * (st.v s1 * m.γ))))
      ≤ m.γ * θ * (st.done.length : Rat)

theorem invTW_of_done_nil (m : MDP) (θ : Rat) (st : PS) (hq : QOk m st.queue) (hd : st.done = []) : InvTW m θ st where
  qok := hq
  dok := by intro x y h; rw [hd] at h; cases h
  vmax := by intro x y h; rw [hd] at h; cases h
  stale := by intro x y h; rw [hd] at h; cases h

theorem psStep_invTW (m : MDP) (θ : Rat) (hθ : 0 ≤ θ) (hγ : 0 ≤ m.γ) (hT : ∀ s a s1, 0 ≤ m.T s a s1)
    (st : PS) (s a : Nat) (hs : s < m.S) (ha : a < m.A)
    (hqok : QOk m st.queue)
    (hdok : ∀ x y, (x, y) ∈ st.done → x < m.S ∧ y < m.A)
    (hvmax : ∀ x y, (x, y) ∈ st.done → st.v x = maxA m.A (st.q x))
    (hstale : ∀ x y, (x, y) ∈ st.done → inQueue st.queue x y = true ∨
      absR (st.q x y - (m.R x y + sumTo m.S (fun s1 => m.T x y s1 * (st.v s1 * m.γ))))
        ≤ m.γ * θ * (st.done.length : Rat) ∨ (x = s ∧ y = a)) :
    InvTW m θ (psStep m θ st s a) where
  qok := parentLoop_ok m _ _ _ _ hqok
  dok := by
    intro x y h
    simp only [psStep, List.mem_cons, Prod.mk.injEq] at h
    rcases h with ⟨rfl, rfl⟩ | h
    · exact ⟨hs, ha⟩
    · exact hdok x y h
  vmax := by
    intro x y h
    simp only [psStep, List.mem_cons, Prod.mk.injEq] at h
    simp only [psStep]
    by_cases hx : x = s
    · subst hx; simp
    · rw [if_neg hx, upd_row_ne _ _ _ _ _ hx]
      rcases h with ⟨h1, _⟩ | h
      · exact absurd h1 hx
      · exact hvmax x y h
  stale := by
    intro x y h
    simp only [psStep, List.mem_cons, Prod.mk.injEq] at h
    simp only [psStep, List.length_cons]
    have hB0 : 0 ≤ m.γ * θ * (st.done.length : Rat) :=
      mul_nonneg (mul_nonneg hγ hθ) (Nat.cast_nonneg _)
    have hlen : m.γ * θ * ((st.done.length + 1 : Nat) : Rat)
        = m.γ * θ * (st.done.length : Rat) + m.γ * θ := by
      push_cast; ring
    rw [hlen]
    have hxy : x < m.S ∧ y < m.A := by
      rcases h with ⟨rfl, rfl⟩ | h
      · exact ⟨hs, ha⟩
      · exact hdok x y h
    by_cases hsa : x = s ∧ y = a
    · obtain ⟨rfl, rfl⟩ := hsa
      apply ps2_step_pair m θ hγ hT _ st.v _ st.queue x x y hs hs ha
      have : upd st.q x y (m.R x y + sumTo m.S (fun s1 => m.T x y s1 * (st.v s1 * m.γ))) x y
          - (m.R x y + sumTo m.S (fun s1 => m.T x y s1 * (st.v s1 * m.γ))) = 0 := by
        simp [upd]
      rw [this, ps2_absR_zero]
      exact hB0
    · have hold : inQueue st.queue x y = true ∨
          absR (st.q x y - (m.R x y + sumTo m.S (fun s1 => m.T x y s1 * (st.v s1 * m.γ))))
            ≤ m.γ * θ * (st.done.length : Rat) := by
        rcases h with h | h
        · exact absurd h hsa
        · rcases hstale x y h with h1 | h1 | h1
          · exact Or.inl h1
          · exact Or.inr h1
          · exact absurd h1 hsa
      rcases hold with h1 | h1
      · exact Or.inl (parentLoop_mono m _ _ _ _ x y h1)
      · apply ps2_step_pair m θ hγ hT _ st.v _ st.queue s x y hs hxy.1 hxy.2
        simp only [upd, if_neg hsa]
        exact h1

theorem psBatch_invTW (m : MDP) (θ : Rat) (hθ : 0 ≤ θ) (hγ : 0 ≤ m.γ) (hT : ∀ s a s1, 0 ≤ m.T s a s1)
    (sel : List QE → Nat) (n : Nat) (st : PS) (h : InvTW m θ st) : InvTW m θ (psBatch m θ sel n st) := by
  induction n generalizing st with
  | zero => exact h
  | succ n ih =>
    unfold psBatch
    split
    · exact h
    · rename_i e he
      apply ih
      have hmem : e ∈ st.queue := List.mem_of_getElem? he
      have hin := h.qok e hmem
      apply psStep_invTW m θ hθ hγ hT _ e.s e.a hin.1 hin.2
      · intro e' he'
        exact h.qok e' (mem_of_mem_removeAt _ _ _ he')
      · exact h.dok
      · exact h.vmax
      · intro x y hxy
        rcases h.stale x y hxy with h1 | h1
        · by_cases hne : x = e.s ∧ y = e.a
          · exact Or.inr (Or.inr hne)
          · exact Or.inl (removeAt_inQueue _ _ e x y he h1 hne)
        · exact Or.inr (Or.inl h1)

theorem psApply3_invTW (m : MDP) (θ : Rat) (hθ : 0 ≤ θ) (hγ : 0 ≤ m.γ) (hT : ∀ s a s1, 0 ≤ m.T s a s1)
    (st : PS) (op : PSOp3) (hv : op.valid m) (h : InvTW m θ st) : InvTW m θ (psApply3 m θ st op) := by
  cases op with
  | step s a =>
    exact psStep_invTW m θ hθ hγ hT st s a hv.1 hv.2 h.qok h.dok h.vmax
      (fun x y hxy => (h.stale x y hxy).elim Or.inl (fun h1 => Or.inr (Or.inl h1)))
  | batch n sel => exact psBatch_invTW m θ hθ hγ hT sel n st h
  | setQ q0 => exact invTW_of_done_nil m θ (psSetQ st q0) h.qok rfl

theorem psRun3_invTW (m : MDP) (θ : Rat) (hθ : 0 ≤ θ) (hγ : 0 ≤ m.γ) (hT : ∀ s a s1, 0 ≤ m.T s a s1)
    (ops : List PSOp3) (hv : ∀ op ∈ ops, op.valid m) (st0 : PS) (h0 : InvTW m θ st0) : InvTW m θ (psRun3 m θ ops st0) := by
  unfold psRun3
  exact ps_foldl_inv (InvTW m θ) (psApply3 m θ) ops st0
    (fun st op hop hst => psApply3_invTW m θ hθ hγ hT st op (hv op hop) hst) h0

/-- **C11 (PrioritizedSweeping), threshold θ ≥ 0, with `setQFunction`, from any start state.**  Queue empty ∧ every pair
    backed up since the last `setQFunction` ⇒ the Bellman-optimality residual of every entry is at most γ·θ·N, N the number of
    backups since then.  (θ = 0: `ps_fixed_point_setq`.) -/
theorem ps_residual_bound_setq (m : MDP) (θ : Rat) (hθ : 0 ≤ θ) (hγ : 0 ≤ m.γ) (hT : ∀ s a s1, 0 ≤ m.T s a s1) (hA : 0 < m.A)
    (st0 : PS) (hq0 : QOk m st0.queue) (hd0 : st0.done = [])
    (ops : List PSOp3) (hv : ∀ op ∈ ops, op.valid m)
    (hempty : (psRun3 m θ ops st0).queue = [])
    (hall : ∀ s a, s < m.S → a < m.A → (s, a) ∈ (psRun3 m θ ops st0).done) :
    ∀ s a, s < m.S → a < m.A →
      absR ((psRun3 m θ ops st0).q s a
          - (m.R s a + m.γ * sumTo m.S (fun s1 => m.T s a s1 * maxA m.A ((psRun3 m θ ops st0).q s1))))
        ≤ m.γ * θ * ((psRun3 m θ ops st0).done.length : Rat) := by
  intro s a hs ha
  have hinv := psRun3_invTW m θ hθ hγ hT ops hv st0 (invTW_of_done_nil m θ st0 hq0 hd0)
  rcases hinv.stale s a (hall s a hs ha) with h | h
  · rw [hempty] at h
    simp [inQueue] at h
  · rw [sumTo_pull] at h
    have hv' : sumTo m.S (fun s1 => m.T s a s1 * (psRun3 m θ ops st0).v s1)
        = sumTo m.S (fun s1 => m.T s a s1 * maxA m.A ((psRun3 m θ ops st0).q s1)) := by
      apply sumTo_congr_lt
      intro s1 hs1
      rw [hinv.vmax s1 0 (hall s1 0 hs1 hA)]
    rw [hv'] at h
    exact h

/-- hypotheses satisfiable with a real threshold: the round-3 example run with θ = 1/4 (kernel evaluation) -/
example : (psRun3 PSTest.exM (1/4) PSTest3.exOps3 PS.init).queue = [] ∧
    (psRun3 PSTest.exM (1/4) PSTest3.exOps3 PS.init).done.length = 8 := by
  constructor
  · exact List.isEmpty_iff.mp (by decide +kernel)
  · decide +kernel

end AITB.Learn
