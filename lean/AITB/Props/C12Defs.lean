/-
  AITB.Props.C12Defs — vocabulary shared by the C12 theorem files.
-/
import AITB.Model.Prune
import AITB.Model.Interp
namespace AITB.Prune

/-- `Chain dom k a b`: `a` dominates `b` through `k ≥ 1` links `a ▷ x₁ ▷ … ▷ b` of the (tolerance-carrying,
    hence not transitive) test `dom` -/
inductive Chain {α : Type} (dom : α → α → Bool) : Nat → α → α → Prop
  | one {a b : α} : dom a b = true → Chain dom 1 a b
  | cons {k : Nat} {a b c : α} : dom a b = true → Chain dom k b c → Chain dom (k+1) a c

/-- a point of the belief simplex of dimension `n` -/
def IsBelief (n : Nat) (b : Vec) : Prop := b.length = n ∧ (∀ x ∈ b, 0 ≤ x) ∧ Interp.sumL b = 1

/-- unit vector `e_s` of dimension `n` -/
def unitVec (n s : Nat) : Vec := (List.range n).map (fun i => if i = s then 1 else 0)

end AITB.Prune
