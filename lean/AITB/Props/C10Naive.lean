/-
  AITB.Props.C10Naive — two cooperating sites: `SubsetEnumerator::advance()` returns the leftmost changed slot and
  `findVerticesNaive` re-copies the matrix rows from that slot on only.  The cached matrix is the matrix of the current subset.
-/
import AITB.Props.C10Util

namespace AITB.CursorUtil

/-- `size_t last = 0;` after `enumerator.reset()`: the first pass fills every row -/
theorem naive_rows_first {α : Type} (f : Nat → α) (rows : List α) (ids : List Nat) : refreshRows f rows ids 0 = ids.map f := by
  simp [refreshRows]

/-- **naive_row_cache_correct** — for EVERY id vector: if the rows held the previous subset and `last` is what `advance()` returned,
    the refreshed rows are exactly the rows of the new subset (nothing stale is left in the matrix) -/
theorem naive_row_cache_correct {α : Type} (f : Nat → α) (ids : List Nat) (U : Nat) (out : List Nat) (low : Nat)
    (h : advance ids U = some (out, low)) : refreshRows f (ids.map f) out low = out.map f := by
  obtain ⟨h1, _, _, _⟩ := advance_lowest ids U out low h
  unfold refreshRows
  rw [← List.map_take, ← h1, ← List.map_append, List.take_append_drop]

/-- a wrong `lowest` (the seeded change: the last slot instead of the leftmost changed one) leaves a stale row -/
theorem naive_stale_row_witness : refreshRows id ([0, 1, 5].map id) [0, 2, 3] 2 ≠ [0, 2, 3].map id := by decide

/-- every id of a valid subset of `[0, alphasSize + S)` names a plane (`index < alphasSize`) or a simplex boundary (`index - alphasSize < S`):
    `*std::next(alphasBegin, index)` and `m.row(i + 1)[index - alphasSize]` stay in range -/
theorem naive_index_in_range (A S : Nat) (ids : List Nat) (hv : Valid (A + S) ids) : ∀ x ∈ ids, x < A ∨ (A ≤ x ∧ x - A < S) := by
  intro x hx
  have := hv.2 x hx
  omega

example : advance [0, 1, 5] 6 = some ([0, 2, 3], 1) ∧ refreshRows id ([0, 1, 5].map id) [0, 2, 3] 1 = [0, 2, 3] := by decide

end AITB.CursorUtil
