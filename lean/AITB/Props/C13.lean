/-
  AITB.Props.C13 — "Coordination-graph maximisers return what they claim".

  Theorems about AITB.Model.VE / VETable.  Everything is for ALL rule sets (any number of
  agents and actions, overlapping / nested / duplicate / disconnected factors, agents in no
  rule, negative payoffs, absent entries = 0) and for EVERY elimination order.
-/
import Mathlib.Algebra.Order.Field.Rat
import Mathlib.Tactic.Linarith
import Mathlib.Tactic.Ring
import AITB.Model.VE
import AITB.Model.VETable
import AITB.Model.GVE
import AITB.Gen.C13Facts
import AITB.Props.C14

namespace AITB.VE
open AITB.Factored

/-! ## first-maximum scan -/

theorem argmaxTo_le (n : Nat) (f : Nat → Rat) : argmaxTo n f ≤ n := by
  induction n with
  | zero => simp [argmaxTo]
  | succ n ih =>
    simp only [argmaxTo]
    split
    · exact Nat.le_refl _
    · omega

theorem maxTo_succ (n : Nat) (f : Nat → Rat) :
    maxTo (n+1) f = if maxTo n f < f (n+1) then f (n+1) else maxTo n f := by
  simp only [maxTo, argmaxTo]
  by_cases h : f (argmaxTo n f) < f (n + 1) <;> simp [h]

theorem maxTo_ge (n : Nat) (f : Nat → Rat) : ∀ i, i ≤ n → f i ≤ maxTo n f := by
  induction n with
  | zero => intro i hi; have : i = 0 := by omega
            subst this; simp [maxTo, argmaxTo]
  | succ n ih =>
    intro i hi
    rw [maxTo_succ]
    split
    · rename_i h
      rcases Nat.lt_or_ge i (n+1) with h1 | h1
      · exact le_of_lt (lt_of_le_of_lt (ih i (by omega)) h)
      · have : i = n+1 := by omega
        subst this; exact le_refl _
    · rename_i h
      rcases Nat.lt_or_ge i (n+1) with h1 | h1
      · exact ih i (by omega)
      · have : i = n+1 := by omega
        subst this; exact not_lt.mp h

/-- the maximum is attained at `argmaxTo` (by definition), which is in range -/
theorem maxTo_attained (n : Nat) (f : Nat → Rat) : maxTo n f = f (argmaxTo n f) := rfl

/-! ## assignments -/

theorem upd_self (x : Asg) (v : Nat) : upd x v (x v) = x := by
  funext i; unfold upd; split <;> simp_all

theorem upd_same (x : Asg) (v k : Nat) : upd x v k v = k := by simp [upd]
theorem upd_other (x : Asg) (v k u : Nat) (h : u ≠ v) : upd x v k u = x u := by simp [upd, h]

/-! ## semantic factors -/

/-- a factor depends only on the agents in its scope -/
def Factor.WF (φ : Factor) : Prop := ∀ x y : Asg, (∀ v ∈ φ.scope, x v = y v) → φ.f x = φ.f y

def AllWF (fs : List Factor) : Prop := ∀ φ ∈ fs, φ.WF

theorem total_congr (fs : List Factor) (x y : Asg) (hwf : AllWF fs)
    (h : ∀ φ ∈ fs, ∀ u ∈ φ.scope, x u = y u) : total fs x = total fs y := by
  induction fs with
  | nil => rfl
  | cons φ fs ih =>
    simp only [total]
    rw [hwf φ (List.mem_cons_self ..) x y (h φ (List.mem_cons_self ..))]
    rw [ih (fun ψ hψ => hwf ψ (List.mem_cons_of_mem _ hψ)) (fun ψ hψ => h ψ (List.mem_cons_of_mem _ hψ))]

theorem total_split (v : Nat) (fs : List Factor) (x : Asg) :
    total fs x = total (deps v fs) x + total (rest v fs) x := by
  induction fs with
  | nil => simp [deps, rest, total]
  | cons φ fs ih =>
    by_cases h : v ∈ φ.scope
    · simp only [deps, rest, List.filter, h, decide_true, Bool.not_true, total] at *
      rw [ih]; ring
    · simp only [deps, rest, List.filter, h, decide_false, Bool.not_false, total] at *
      rw [ih]; ring

theorem mem_deps {v : Nat} {fs : List Factor} {φ : Factor} : φ ∈ deps v fs ↔ φ ∈ fs ∧ v ∈ φ.scope := by
  simp [deps, List.mem_filter]

theorem mem_rest {v : Nat} {fs : List Factor} {φ : Factor} : φ ∈ rest v fs ↔ φ ∈ fs ∧ v ∉ φ.scope := by
  simp [rest, List.mem_filter]

theorem total_eliminate (dom : Nat → Nat) (v : Nat) (fs : List Factor) (x : Asg) :
    total (eliminate dom v fs) x
      = maxTo (dom v) (fun k => total (deps v fs) (upd x v k)) + total (rest v fs) x := rfl

/-- the part of the graph not adjacent to `v` does not see `v`'s action -/
theorem total_rest_upd (v k : Nat) (fs : List Factor) (x : Asg) (hwf : AllWF fs) :
    total (rest v fs) (upd x v k) = total (rest v fs) x := by
  apply total_congr
  · intro φ hφ; exact hwf φ (mem_rest.mp hφ).1
  · intro φ hφ u hu
    have : u ≠ v := fun e => (mem_rest.mp hφ).2 (e ▸ hu)
    exact upd_other x v k u this

/-- I1: eliminating `v` never decreases the total at an assignment whose `v`-action is in range -/
theorem eliminate_ge (dom : Nat → Nat) (v : Nat) (fs : List Factor) (x : Asg) (hx : x v ≤ dom v) :
    total fs x ≤ total (eliminate dom v fs) x := by
  rw [total_eliminate, total_split v fs x]
  have := maxTo_ge (dom v) (fun k => total (deps v fs) (upd x v k)) (x v) hx
  simp only [upd_self] at this
  linarith

/-- I2: the recorded best response turns the new total back into the old one -/
theorem eliminate_attained (dom : Nat → Nat) (v : Nat) (fs : List Factor) (x : Asg) (hwf : AllWF fs) :
    total fs (upd x v (bestResp dom v fs x)) = total (eliminate dom v fs) x := by
  rw [total_eliminate, total_split v fs (upd x v _), total_rest_upd v _ fs x hwf]
  rfl

/-! ### well-formedness and scopes are preserved -/

theorem elimFactor_WF (dom : Nat → Nat) (v : Nat) (dep : List Factor) (hwf : AllWF dep) :
    (elimFactor dom v dep).WF := by
  intro x y hxy
  simp only [elimFactor]
  have : (fun k => total dep (upd x v k)) = (fun k => total dep (upd y v k)) := by
    funext k
    apply total_congr dep _ _ hwf
    intro φ hφ u hu
    by_cases huv : u = v
    · subst huv; simp [upd]
    · rw [upd_other _ _ _ _ huv, upd_other _ _ _ _ huv]
      apply hxy
      simp only [elimFactor, List.mem_filter, List.mem_flatMap]
      exact ⟨⟨φ, hφ, hu⟩, by simpa using huv⟩
  rw [this]

theorem eliminate_WF (dom : Nat → Nat) (v : Nat) (fs : List Factor) (hwf : AllWF fs) :
    AllWF (eliminate dom v fs) := by
  intro φ hφ
  simp only [eliminate, List.mem_cons] at hφ
  rcases hφ with h | h
  · subst h
    exact elimFactor_WF dom v _ (fun ψ hψ => hwf ψ (mem_deps.mp hψ).1)
  · exact hwf φ (mem_rest.mp h).1

/-- after eliminating `v` no scope mentions `v`, and no new agent appears in any scope -/
theorem eliminate_scope (dom : Nat → Nat) (v : Nat) (fs : List Factor) :
    ∀ φ ∈ eliminate dom v fs, ∀ u ∈ φ.scope, u ≠ v ∧ ∃ ψ ∈ fs, u ∈ ψ.scope := by
  intro φ hφ u hu
  simp only [eliminate, List.mem_cons] at hφ
  rcases hφ with h | h
  · subst h
    simp only [elimFactor, List.mem_filter, List.mem_flatMap] at hu
    obtain ⟨⟨ψ, hψ, huψ⟩, hne⟩ := hu
    exact ⟨by simpa using hne, ψ, (mem_deps.mp hψ).1, huψ⟩
  · have := mem_rest.mp h
    exact ⟨fun e => this.2 (e ▸ hu), φ, this.1, hu⟩

theorem elimAll_WF (dom : Nat → Nat) : ∀ (order : List Nat) (fs : List Factor), AllWF fs → AllWF (elimAll dom order fs)
  | [], _, h => h
  | v :: vs, fs, h => elimAll_WF dom vs _ (eliminate_WF dom v fs h)

theorem elimAll_scope (dom : Nat → Nat) : ∀ (order : List Nat) (fs : List Factor),
    ∀ φ ∈ elimAll dom order fs, ∀ u ∈ φ.scope, u ∉ order ∧ ∃ ψ ∈ fs, u ∈ ψ.scope
  | [], fs, φ, hφ, u, hu => ⟨by simp, φ, hφ, hu⟩
  | v :: vs, fs, φ, hφ, u, hu => by
    obtain ⟨h1, ψ, hψ, huψ⟩ := elimAll_scope dom vs (eliminate dom v fs) φ hφ u hu
    obtain ⟨h2, χ, hχ, huχ⟩ := eliminate_scope dom v fs ψ hψ u huψ
    exact ⟨by simp [h1, h2], χ, hχ, huχ⟩

/-- upper bound: the eliminated graph dominates every in-range joint action (any order) -/
theorem elimAll_ge (dom : Nat → Nat) : ∀ (order : List Nat) (fs : List Factor) (x : Asg),
    (∀ v ∈ order, x v ≤ dom v) → total fs x ≤ total (elimAll dom order fs) x
  | [], _, _, _ => le_refl _
  | v :: vs, fs, x, hx =>
    le_trans (eliminate_ge dom v fs x (hx v (List.mem_cons_self ..)))
      (elimAll_ge dom vs _ x (fun u hu => hx u (List.mem_cons_of_mem _ hu)))

/-- attained: back-substitution of the recorded best responses reaches the eliminated total -/
theorem solve_attained (dom : Nat → Nat) : ∀ (order : List Nat) (fs : List Factor), AllWF fs →
    total fs (asgT (solve dom order fs)) = total (elimAll dom order fs) (asgT (solve dom order fs))
  | [], _, _ => rfl
  | v :: vs, fs, hwf => by
    have hwf' := eliminate_WF dom v fs hwf
    have ih := solve_attained dom vs (eliminate dom v fs) hwf'
    simp only [solve, asgT, elimAll]
    rw [eliminate_attained dom v fs _ hwf, ih]
    apply total_congr _ _ _ (elimAll_WF dom vs _ hwf')
    intro φ hφ u hu
    obtain ⟨_, ψ, hψ, huψ⟩ := elimAll_scope dom vs _ φ hφ u hu
    have hne := (eliminate_scope dom v fs ψ hψ u huψ).1
    exact (upd_other _ _ _ _ hne).symm

/-- the recovered joint action is in range for every agent -/
theorem solve_range (dom : Nat → Nat) : ∀ (order : List Nat) (fs : List Factor) (u : Nat),
    asgT (solve dom order fs) u ≤ dom u
  | [], _, u => by simp [solve, asgT]
  | v :: vs, fs, u => by
    simp only [solve, asgT]
    by_cases h : u = v
    · subst h; rw [upd_same]; exact argmaxTo_le _ _
    · rw [upd_other _ _ _ _ h]; exact solve_range dom vs _ u

/-- once every agent that occurs in a scope has been eliminated, what is left is constant -/
theorem elimAll_const (dom : Nat → Nat) (order : List Nat) (fs : List Factor) (hwf : AllWF fs)
    (hcov : ∀ ψ ∈ fs, ∀ u ∈ ψ.scope, u ∈ order) (x y : Asg) :
    total (elimAll dom order fs) x = total (elimAll dom order fs) y := by
  apply total_congr _ _ _ (elimAll_WF dom order fs hwf)
  intro φ hφ u hu
  obtain ⟨h1, ψ, hψ, huψ⟩ := elimAll_scope dom order fs φ hφ u hu
  exact absurd (hcov ψ hψ u huψ) h1

/-- **Semantic VE is exact, for every elimination order.**  The action read off the tags is in
    range, no in-range joint action has a larger total, and the reported value (sum of the final
    constant factors) is the total of that action. -/
theorem ve_correct_sem (dom : Nat → Nat) (order : List Nat) (fs : List Factor) (hwf : AllWF fs)
    (hcov : ∀ ψ ∈ fs, ∀ u ∈ ψ.scope, u ∈ order) :
    (∀ u, asgT (solve dom order fs) u ≤ dom u) ∧
    (∀ x : Asg, (∀ u ∈ order, x u ≤ dom u) → total fs x ≤ total fs (asgT (solve dom order fs))) ∧
    total (elimAll dom order fs) zeroAsg = total fs (asgT (solve dom order fs)) := by
  refine ⟨solve_range dom order fs, ?_, ?_⟩
  · intro x hx
    calc total fs x ≤ total (elimAll dom order fs) x := elimAll_ge dom order fs x hx
      _ = total (elimAll dom order fs) (asgT (solve dom order fs)) := elimAll_const dom order fs hwf hcov _ _
      _ = total fs (asgT (solve dom order fs)) := (solve_attained dom order fs hwf).symm
  · rw [solve_attained dom order fs hwf]
    exact elimAll_const dom order fs hwf hcov _ _

/-! ## rules as factors -/

theorem matchKV_congr : ∀ (ks vs : List Nat) (x y : Asg), (∀ k ∈ ks, x k = y k) → matchKV ks vs x = matchKV ks vs y
  | [], _, _, _, _ => by simp [matchKV]
  | _ :: _, [], _, _, _ => by simp [matchKV]
  | k :: ks, v :: vs, x, y, h => by
    simp only [matchKV]
    rw [h k (List.mem_cons_self ..), matchKV_congr ks vs x y (fun k' hk' => h k' (List.mem_cons_of_mem _ hk'))]

theorem ofRule_WF (r : Rule) : (ofRule r).WF := by
  intro x y h
  simp only [ofRule, Rule.eval] at *
  rw [matchKV_congr r.keys r.vals x y h]

theorem rules_WF (rules : List Rule) : AllWF (rules.map ofRule) := by
  intro φ hφ
  obtain ⟨r, _, rfl⟩ := List.mem_map.mp hφ
  exact ofRule_WF r

theorem payoff_eq_total : ∀ (rules : List Rule) (x : Asg), payoff rules x = total (rules.map ofRule) x
  | [], _ => rfl
  | r :: rs, x => by simp only [payoff, List.map, total, ofRule]; rw [payoff_eq_total rs x]

/-- in-range joint actions of the space `A` -/
def InRange (A : List Nat) (x : Asg) : Prop := ∀ u, u < A.length → x u < A.getD u 0

/-- **`ve_correct`** — VariableElimination on ANY rule set and for ANY elimination order that
    covers the agents named in the rules: the returned joint action is in range, its payoff is
    the maximum over all in-range joint actions, and the reported value is exactly its payoff. -/
theorem ve_correct (A : List Nat) (order : List Nat) (rules : List Rule)
    (hA : ∀ u, u < A.length → 0 < A.getD u 0)
    (horder : ∀ u ∈ order, u < A.length)
    (hcov : ∀ r ∈ rules, ∀ k ∈ r.keys, k ∈ order) :
    InRange A (veAction A order rules) ∧
    (∀ x : Asg, InRange A x → payoff rules x ≤ payoff rules (veAction A order rules)) ∧
    veValue A order rules = payoff rules (veAction A order rules) := by
  have hcov' : ∀ ψ ∈ rules.map ofRule, ∀ u ∈ ψ.scope, u ∈ order := by
    intro ψ hψ u hu
    obtain ⟨r, hr, rfl⟩ := List.mem_map.mp hψ
    exact hcov r hr u hu
  obtain ⟨h1, h2, h3⟩ := ve_correct_sem (domOf A) order (rules.map ofRule) (rules_WF rules) hcov'
  have hdom : ∀ u, u < A.length → domOf A u = A.getD u 0 - 1 := by
    intro u hu
    simp [domOf, List.getD_eq_getElem?_getD, List.getElem?_eq_getElem hu]
  refine ⟨?_, ?_, ?_⟩
  · intro u hu
    have := h1 u
    rw [hdom u hu] at this
    have := hA u hu
    unfold veAction; omega
  · intro x hx
    rw [payoff_eq_total, payoff_eq_total]
    apply h2
    intro u hu
    have hu' := horder u hu
    rw [hdom u hu']
    have := hx u hu'
    omega
  · unfold veValue veAction
    rw [payoff_eq_total]
    exact h3

/-! ## the specification: exhaustive maximum over the joint action space -/

theorem mem_allActs : ∀ (A a : List Nat), a ∈ allActs A ↔ Valid A a
  | [], a => by cases a <;> simp [allActs, Valid]
  | d :: ds, [] => by simp [allActs, Valid]
  | d :: ds, x :: xs => by
    simp only [allActs, List.mem_flatMap, List.mem_map, List.mem_range, Valid]
    constructor
    · rintro ⟨t, ht, k, hk, h⟩
      injection h with h1 h2; subst h1; subst h2
      exact ⟨hk, (mem_allActs ds t).mp ht⟩
    · rintro ⟨hx, hv⟩
      exact ⟨xs, (mem_allActs ds xs).mpr hv, x, hx, rfl⟩

theorem maxL_ge : ∀ (l : List Rat) (q : Rat), q ∈ l → q ≤ maxL l
  | [], _, h => by simp at h
  | [p], q, h => by simp at h; subst h; simp [maxL]
  | p :: p' :: ps, q, h => by
    have ih := maxL_ge (p' :: ps)
    simp only [maxL]
    rcases List.mem_cons.mp h with h | h
    · subst h; split
      · exact le_refl _
      · rename_i hlt; exact not_lt.mp hlt
    · split
      · rename_i hlt; exact le_of_lt (lt_of_le_of_lt (ih q h) hlt)
      · exact ih q h

theorem maxL_mem : ∀ (l : List Rat), l ≠ [] → maxL l ∈ l
  | [], h => absurd rfl h
  | [p], _ => by simp [maxL]
  | p :: p' :: ps, _ => by
    have ih := maxL_mem (p' :: ps) (by simp)
    simp only [maxL]
    split
    · exact List.mem_cons_self ..
    · exact List.mem_cons_of_mem _ ih

/-- no valid joint action pays more than `bruteMax` -/
theorem bruteMax_ge (A : List Nat) (rules : List Rule) (a : List Nat) (ha : Valid A a) :
    payoffL rules a ≤ bruteMax A rules :=
  maxL_ge _ _ (List.mem_map.mpr ⟨a, (mem_allActs A a).mpr ha, rfl⟩)

/-- `bruteMax` is the payoff of some valid joint action (every agent has ≥ 1 action) -/
theorem bruteMax_attained (A : List Nat) (rules : List Rule) (hA : ∀ d ∈ A, 0 < d) :
    ∃ a, Valid A a ∧ payoffL rules a = bruteMax A rules := by
  have hne : (allActs A).map (payoffL rules) ≠ [] := by
    have : A.map (fun _ => 0) ∈ allActs A := (mem_allActs A _).mpr (valid_zeros A hA)
    intro h
    have h' := List.map_eq_nil_iff.mp h
    rw [h'] at this; simp at this
  obtain ⟨a, ha, hp⟩ := List.mem_map.mp (maxL_mem _ hne)
  exact ⟨a, (mem_allActs A a).mp ha, hp⟩

/-! ### lists and total functions -/

theorem valid_iff_getD : ∀ (A l : List Nat), Valid A l ↔ l.length = A.length ∧ ∀ i, i < A.length → l.getD i 0 < A.getD i 0
  | [], [] => by simp [Valid]
  | [], _ :: _ => by simp [Valid]
  | _ :: _, [] => by simp [Valid]
  | d :: ds, x :: xs => by
    simp only [Valid, valid_iff_getD ds xs, List.length_cons]
    constructor
    · rintro ⟨hx, hl, h⟩
      refine ⟨by omega, ?_⟩
      intro i hi
      cases i with
      | zero => simpa using hx
      | succ i => simpa using h i (by omega)
    · rintro ⟨hl, h⟩
      refine ⟨by simpa using h 0 (by omega), by omega, ?_⟩
      intro i hi
      simpa using h (i+1) (by omega)

theorem asgOf_listOf (n : Nat) (x : Asg) (k : Nat) (hk : k < n) : asgOf (listOf n x) k = x k := by
  simp [asgOf, listOf, List.getD_eq_getElem?_getD, hk]

theorem valid_listOf (A : List Nat) (x : Asg) (hx : InRange A x) : Valid A (listOf A.length x) := by
  rw [valid_iff_getD]
  refine ⟨by simp [listOf], ?_⟩
  intro i hi
  have := asgOf_listOf A.length x i hi
  simp only [asgOf] at this
  rw [this]; exact hx i hi

theorem inRange_asgOf (A a : List Nat) (ha : Valid A a) : InRange A (asgOf a) := by
  intro u hu
  exact ((valid_iff_getD A a).mp ha).2 u hu

theorem payoff_congr : ∀ (rules : List Rule) (x y : Asg), (∀ r ∈ rules, ∀ k ∈ r.keys, x k = y k) →
    payoff rules x = payoff rules y
  | [], _, _, _ => rfl
  | r :: rs, x, y, h => by
    simp only [payoff, Rule.eval]
    rw [matchKV_congr r.keys r.vals x y (h r (List.mem_cons_self ..)),
        payoff_congr rs x y (fun r' hr' => h r' (List.mem_cons_of_mem _ hr'))]

/-- **VE = brute force.**  For every rule set whose keys name existing agents and every
    elimination order covering them, the value VariableElimination reports equals the maximum
    of the total payoff over all joint actions, and its action attains it. -/
theorem ve_value_eq_bruteMax (A : List Nat) (order : List Nat) (rules : List Rule)
    (hA : ∀ d ∈ A, 0 < d)
    (horder : ∀ u ∈ order, u < A.length)
    (hcov : ∀ r ∈ rules, ∀ k ∈ r.keys, k ∈ order) :
    veValue A order rules = bruteMax A rules ∧
    Valid A (listOf A.length (veAction A order rules)) ∧
    payoffL rules (listOf A.length (veAction A order rules)) = bruteMax A rules := by
  have hA' : ∀ u, u < A.length → 0 < A.getD u 0 := by
    intro u hu
    have : A.getD u 0 = A[u] := by simp [List.getD_eq_getElem?_getD, List.getElem?_eq_getElem hu]
    rw [this]; exact hA _ (List.getElem_mem hu)
  obtain ⟨h1, h2, h3⟩ := ve_correct A order rules hA' horder hcov
  have hkeys : ∀ r ∈ rules, ∀ k ∈ r.keys, k < A.length := fun r hr k hk => horder k (hcov r hr k hk)
  have hval := valid_listOf A _ h1
  have hpay : payoffL rules (listOf A.length (veAction A order rules)) = payoff rules (veAction A order rules) := by
    unfold payoffL
    apply payoff_congr
    intro r hr k hk
    exact asgOf_listOf _ _ k (hkeys r hr k hk)
  have hle : veValue A order rules ≤ bruteMax A rules := by
    rw [h3, ← hpay]; exact bruteMax_ge A rules _ hval
  have hge : bruteMax A rules ≤ veValue A order rules := by
    obtain ⟨a, ha, hp⟩ := bruteMax_attained A rules hA
    rw [← hp, h3]
    exact h2 _ (inRange_asgOf A a ha)
  have heq := le_antisymm hle hge
  exact ⟨heq, hval, by rw [hpay, ← h3, heq]⟩

/-- **`approx_reports_truth`** (first half): whatever in-range joint action an approximate
    maximiser returns, its true payoff never exceeds the optimum, and the optimum is VE's value. -/
theorem approx_below_optimum (A : List Nat) (order : List Nat) (rules : List Rule) (a : List Nat)
    (hA : ∀ d ∈ A, 0 < d) (horder : ∀ u ∈ order, u < A.length)
    (hcov : ∀ r ∈ rules, ∀ k ∈ r.keys, k ∈ order) (ha : Valid A a) :
    payoffL rules a ≤ veValue A order rules := by
  rw [(ve_value_eq_bruteMax A order rules hA horder hcov).1]
  exact bruteMax_ge A rules a ha

/-! ## the dense-table graph of LocalSearch / MaxPlus / RILS and `evaluateGraph`

`UpdateGraph<LocalSearch>` accumulates every rule into `table[toIndexPartial(A, rule.action)]`
of the node with the rule's key set; `evaluateGraph` reads `table[toIndexPartial(keys, A, a)]`
of every node.  Theorem: what it returns is exactly the total payoff of `a`. -/

theorem getD_addAt : ∀ (t : List Rat) (i : Nat) (v : Rat) (j : Nat),
    (addAt t i v).getD j 0 = t.getD j 0 + (if j = i ∧ i < t.length then v else 0)
  | [], i, v, j => by simp [addAt]
  | q :: qs, 0, v, j => by
    cases j with
    | zero => simp [addAt]
    | succ j => simp [addAt]
  | q :: qs, i+1, v, j => by
    cases j with
    | zero => simp [addAt]
    | succ j =>
      have := getD_addAt qs i v j
      simp only [addAt, List.getD_cons_succ, List.length_cons] at *
      rw [this]
      by_cases h : j = i ∧ i < qs.length
      · have h' : j + 1 = i + 1 ∧ i + 1 < qs.length + 1 := ⟨by omega, by omega⟩
        simp [h, h']
      · have h' : ¬ (j + 1 = i + 1 ∧ i + 1 < qs.length + 1) := fun ⟨a, b⟩ => h ⟨by omega, by omega⟩
        simp [h, h']

theorem length_addAt : ∀ (t : List Rat) (i : Nat) (v : Rat), (addAt t i v).length = t.length
  | [], _, _ => rfl
  | _ :: _, 0, _ => rfl
  | q :: qs, i+1, v => by simp [addAt, length_addAt qs i v]

/-- a rule matches the joint action `a` iff the action restricted to the rule's keys is the rule's tuple -/
theorem matchKV_iff_sel : ∀ (ks vs : List Nat) (a : List Nat), ks.length = vs.length →
    (matchKV ks vs (asgOf a) = true ↔ sel ks a = vs)
  | [], [], _, _ => by simp [matchKV, sel]
  | [], _ :: _, _, h => by simp at h
  | _ :: _, [], _, h => by simp at h
  | k :: ks, v :: vs, a, h => by
    have ih := matchKV_iff_sel ks vs a (by simpa using h)
    simp only [matchKV, Bool.and_eq_true, beq_iff_eq, ih, sel, List.map_cons, List.cons.injEq, asgOf]

theorem valid_length : ∀ (ds xs : List Nat), Valid ds xs → xs.length = ds.length
  | [], [], _ => rfl
  | [], _ :: _, h => by simp [Valid] at h
  | _ :: _, [], h => by simp [Valid] at h
  | d :: ds, x :: xs, h => by simp [valid_length ds xs h.2]

theorem valid_sel (A a : List Nat) (ha : Valid A a) : ∀ (ks : List Nat), (∀ k ∈ ks, k < A.length) → Valid (sel ks A) (sel ks a)
  | [], _ => by simp [sel, Valid]
  | k :: ks, h => by
    simp only [sel, List.map_cons, Valid]
    exact ⟨((valid_iff_getD A a).mp ha).2 k (h k (List.mem_cons_self ..)),
           valid_sel A a ha ks (fun k' hk' => h k' (List.mem_cons_of_mem _ hk'))⟩

/-- well-formed rule: keys name existing agents and the tuple is valid for them -/
def Rule.WF (A : List Nat) (r : Rule) : Prop := (∀ k ∈ r.keys, k < A.length) ∧ Valid (sel r.keys A) r.vals

/-- the table cell a rule is accumulated into is the cell `evaluateFactor` reads iff the rule matches -/
theorem index_eq_iff_match (A a : List Nat) (r : Rule) (ha : Valid A a) (hr : r.WF A) :
    toIndexPartial r.keys A a = toIndexPartialPF A r.keys r.vals ↔ matchKV r.keys r.vals (asgOf a) = true := by
  have hv := valid_sel A a ha r.keys hr.1
  have hlen : r.keys.length = r.vals.length := by
    have := valid_length _ _ hr.2; simp [sel] at this; omega
  rw [matchKV_iff_sel r.keys r.vals a hlen]
  simp only [toIndexPartial, toIndexPartialPF, toIndexLoop_eq, Nat.zero_add, Nat.one_mul]
  constructor
  · intro h; exact toIndex_inj _ _ _ hv hr.2 h
  · intro h; rw [h]

theorem index_lt_space (A : List Nat) (r : Rule) (hr : r.WF A) :
    toIndexPartialPF A r.keys r.vals < spacePartial r.keys A := by
  simp only [toIndexPartialPF, spacePartial, toIndexLoop_eq, Nat.zero_add, Nat.one_mul]
  exact toIndex_lt _ _ hr.2

/-- graph invariant: every table has the size of its key space -/
def GInv (A : List Nat) (g : List Node) : Prop := ∀ nd ∈ g, nd.table.length = spacePartial nd.keys A

def HasNode (g : List Node) (ks : List Nat) : Prop := ∃ nd ∈ g, nd.keys = ks

theorem lsAdd_effect (A a : List Nat) (r : Rule) (ha : Valid A a) (hr : r.WF A) :
    ∀ (g : List Node), GInv A g → HasNode g r.keys →
      evalGraph A a (lsAdd A r g) = evalGraph A a g + r.eval (asgOf a)
  | [], _, h => by obtain ⟨_, h, _⟩ := h; simp at h
  | nd :: g, hinv, hex => by
    simp only [lsAdd]
    by_cases hk : nd.keys = r.keys
    · simp only [hk, beq_self_eq_true, if_true, evalGraph, evalNode, getD_addAt]
      have hlen : nd.table.length = spacePartial r.keys A := by rw [← hk]; exact hinv nd (List.mem_cons_self ..)
      have hlt := index_lt_space A r hr
      have hm := index_eq_iff_match A a r ha hr
      simp only [Rule.eval]
      by_cases hmatch : matchKV r.keys r.vals (asgOf a) = true
      · have := hm.mpr hmatch
        simp only [hmatch, if_true, this, hlen, hlt, and_self]
        ring
      · have hne : ¬ (toIndexPartial r.keys A a = toIndexPartialPF A r.keys r.vals) := fun e => hmatch (hm.mp e)
        simp only [hmatch, hne, false_and, if_false]
        simp
    · have hk' : (nd.keys == r.keys) = false := by simpa using hk
      simp only [hk', Bool.false_eq_true, if_false, evalGraph]
      have hex' : HasNode g r.keys := by
        obtain ⟨nd', hmem, hkeys⟩ := hex
        rcases List.mem_cons.mp hmem with h | h
        · subst h; exact absurd hkeys hk
        · exact ⟨nd', h, hkeys⟩
      rw [lsAdd_effect A a r ha hr g (fun n hn => hinv n (List.mem_cons_of_mem _ hn)) hex']
      ring

/-- `lsAdd` changes neither the key sets nor the table sizes -/
theorem lsAdd_sig (A : List Nat) (r : Rule) : ∀ (g : List Node),
    (lsAdd A r g).map (fun nd => (nd.keys, nd.table.length)) = g.map (fun nd => (nd.keys, nd.table.length))
  | [] => rfl
  | nd :: g => by
    simp only [lsAdd]
    split
    · simp [length_addAt]
    · simp [lsAdd_sig A r g]

theorem ginv_of_sig (A : List Nat) (g g' : List Node)
    (h : g'.map (fun nd => (nd.keys, nd.table.length)) = g.map (fun nd => (nd.keys, nd.table.length)))
    (hinv : GInv A g) : GInv A g' := by
  intro nd hnd
  have : (nd.keys, nd.table.length) ∈ g.map (fun nd => (nd.keys, nd.table.length)) := by
    rw [← h]; exact List.mem_map.mpr ⟨nd, hnd, rfl⟩
  obtain ⟨nd', hnd', he⟩ := List.mem_map.mp this
  have := hinv nd' hnd'
  simp only [Prod.mk.injEq] at he
  rw [← he.1, ← he.2]; exact this

theorem hasNode_of_sig (g g' : List Node) (ks : List Nat)
    (h : g'.map (fun nd => (nd.keys, nd.table.length)) = g.map (fun nd => (nd.keys, nd.table.length)))
    (hex : HasNode g ks) : HasNode g' ks := by
  obtain ⟨nd, hnd, hk⟩ := hex
  have : (nd.keys, nd.table.length) ∈ g'.map (fun nd => (nd.keys, nd.table.length)) := by
    rw [h]; exact List.mem_map.mpr ⟨nd, hnd, rfl⟩
  obtain ⟨nd', hnd', he⟩ := List.mem_map.mp this
  simp only [Prod.mk.injEq] at he
  exact ⟨nd', hnd', by rw [he.1, hk]⟩

theorem lsUpdate_effect (A a : List Nat) (ha : Valid A a) : ∀ (rules : List Rule) (g : List Node),
    (∀ r ∈ rules, r.WF A) → GInv A g → (∀ r ∈ rules, HasNode g r.keys) →
      evalGraph A a (lsUpdate A rules g) = evalGraph A a g + payoffL rules a
  | [], g, _, _, _ => by simp [lsUpdate, payoffL, payoff]
  | r :: rs, g, hwf, hinv, hex => by
    simp only [lsUpdate]
    have hsig := lsAdd_sig A r g
    rw [lsUpdate_effect A a ha rs (lsAdd A r g) (fun r' hr' => hwf r' (List.mem_cons_of_mem _ hr'))
          (ginv_of_sig A g _ hsig hinv)
          (fun r' hr' => hasNode_of_sig g _ _ hsig (hex r' (List.mem_cons_of_mem _ hr')))]
    rw [lsAdd_effect A a r ha (hwf r (List.mem_cons_self ..)) g hinv (hex r (List.mem_cons_self ..))]
    simp only [payoffL, payoff]; ring

/-! ### `MakeGraph`: a zero table of the right size for every key set in the rules -/

theorem getD_replicate_zero (n j : Nat) : (List.replicate n (0 : Rat)).getD j 0 = 0 := by
  simp only [List.getD_eq_getElem?_getD, List.getElem?_replicate]
  split <;> rfl

def ZeroG (A a : List Nat) (g : List Node) : Prop := evalGraph A a g = 0

theorem evalGraph_append (A a : List Nat) : ∀ (g h : List Node), evalGraph A a (g ++ h) = evalGraph A a g + evalGraph A a h
  | [], h => by simp [evalGraph]
  | nd :: g, h => by simp only [List.cons_append, evalGraph, evalGraph_append A a g h]; ring

theorem lsMake_spec (A a : List Nat) : ∀ (rules : List Rule) (g : List Node),
    GInv A g → evalGraph A a g = 0 →
      GInv A (lsMake A rules g) ∧ evalGraph A a (lsMake A rules g) = 0 ∧
      (∀ ks, HasNode g ks → HasNode (lsMake A rules g) ks) ∧
      (∀ r ∈ rules, HasNode (lsMake A rules g) r.keys)
  | [], g, hinv, hz => ⟨hinv, hz, fun _ h => h, by simp⟩
  | r :: rs, g, hinv, hz => by
    simp only [lsMake]
    split
    · rename_i hany
      obtain ⟨h1, h2, h3, h4⟩ := lsMake_spec A a rs g hinv hz
      refine ⟨h1, h2, h3, ?_⟩
      intro r' hr'
      rcases List.mem_cons.mp hr' with h | h
      · subst h
        obtain ⟨nd, hnd, hk⟩ := List.any_eq_true.mp hany
        exact h3 _ ⟨nd, hnd, by simpa using hk⟩
      · exact h4 r' h
    · have hinv' : GInv A (g ++ [⟨r.keys, List.replicate (spacePartial r.keys A) 0⟩]) := by
        intro nd hnd
        rcases List.mem_append.mp hnd with h | h
        · exact hinv nd h
        · simp at h; subst h; simp
      have hz' : evalGraph A a (g ++ [⟨r.keys, List.replicate (spacePartial r.keys A) 0⟩]) = 0 := by
        rw [evalGraph_append, hz]
        simp only [evalGraph, evalNode, getD_replicate_zero]; ring
      obtain ⟨h1, h2, h3, h4⟩ := lsMake_spec A a rs _ hinv' hz'
      refine ⟨h1, h2, fun ks hks => h3 ks ?_, ?_⟩
      · obtain ⟨nd, hnd, hk⟩ := hks
        exact ⟨nd, List.mem_append_left _ hnd, hk⟩
      · intro r' hr'
        rcases List.mem_cons.mp hr' with h | h
        · subst h
          exact h3 _ ⟨_, List.mem_append_right _ (List.mem_singleton.mpr rfl), rfl⟩
        · exact h4 r' h

/-- **`approx_reports_truth`** (second half): on the graph `MakeGraph`/`UpdateGraph` build from ANY
    well-formed rule set (duplicates, nesting, absent entries, several key sets …),
    `LocalSearch::evaluateGraph` of ANY in-range joint action is exactly its total payoff — the value
    LocalSearch, MaxPlus and ReusingIterativeLocalSearch report for the action they return. -/
theorem evalGraph_eq_payoff (A : List Nat) (rules : List Rule) (a : List Nat)
    (hwf : ∀ r ∈ rules, r.WF A) (ha : Valid A a) :
    evalGraph A a (lsGraph A rules) = payoffL rules a := by
  obtain ⟨h1, h2, _, h4⟩ := lsMake_spec A a rules [] (by intro nd h; simp at h) rfl
  unfold lsGraph
  rw [lsUpdate_effect A a ha rules _ hwf h1 h4, h2]; ring

/-- the structure may come from a different (earlier) rule set, as when the maximiser object and
    its graph are reused: only the key sets have to be present -/
theorem evalGraph_reuse (A : List Nat) (struct rules : List Rule) (a : List Nat)
    (hwf : ∀ r ∈ rules, r.WF A) (ha : Valid A a)
    (hsub : ∀ r ∈ rules, ∃ s ∈ struct, s.keys = r.keys) :
    evalGraph A a (lsUpdate A rules (lsMake A struct [])) = payoffL rules a := by
  obtain ⟨h1, h2, _, h4⟩ := lsMake_spec A a struct [] (by intro nd h; simp at h) rfl
  rw [lsUpdate_effect A a ha rules _ hwf h1 ?_, h2]; · ring
  intro r hr
  obtain ⟨s, hs, hk⟩ := hsub r hr
  rw [← hk]; exact h4 s hs

/-! ## MultiObjectiveVariableElimination (table-level model `moveRun`, generic GVE loop + MOVE callbacks)

FULL STATEMENT (the property's clause), NOT provable of the code as it is:
  ∀ A nobj rules, (rules well-formed) → moveValues A rules = moveSpec A nobj rules   (as sets)
It is refuted below on the model (which the driver shows to agree with the implementation on every generated
input, including the failing ones): `Global::endCrossSum` drops an agent action matched by no rule.
What is proved: the final merge (`makeResult`) is right — the cross-sum of the final factors contains exactly the
sums of one entry per factor, and the closing prune keeps exactly the vectors not dominated by a different one. -/

/-- the code (model) returns {(-3,-4)} where the Pareto set is {(0,0)}: DESIGN §12 #25, harness case 0 -/
theorem move_absent_entry_counterexample :
    moveValues [2,2] [⟨[0],[0],[-1,-1]⟩, ⟨[0,1],[0,1],[-2,-3]⟩] = [[-3,-4]] ∧
    moveSpec [2,2] 2 [⟨[0],[0],[-1,-1]⟩, ⟨[0,1],[0,1],[-2,-3]⟩] = [[0,0]] := by decide +kernel

/-- the repaired variant of the same table-level model (`keep = true`, fixes/C13-2) returns the Pareto set on the witness -/
theorem move_repaired_on_witness :
    moveValuesWith true 2 [2,2] [⟨[0],[0],[-1,-1]⟩, ⟨[0,1],[0,1],[-2,-3]⟩] = [[0,0]] := by decide +kernel

/-- translator facts the model relies on, re-checked against the CURRENT source on every run:
    VE's `endCrossSum` is strict (first maximum wins, as `bestOver`/`argmaxTo` are), and a rule found by
    `lower_bound` is used only on index equality (as `lookup` does) -/
theorem gen_facts_hold : AITB.Gen.veStrictMax = true ∧ AITB.Gen.gveLookupTestsEquality = true := by decide

/-- on full tables the same model gives the Pareto set (a test, by evaluation): two agents, one factor -/
example : moveValues [2,2] [⟨[0,1],[0,0],[1,0]⟩, ⟨[0,1],[1,0],[0,1]⟩, ⟨[0,1],[0,1],[-1,-1]⟩, ⟨[0,1],[1,1],[1/2,1/2]⟩]
        = moveSpec [2,2] 2 [⟨[0,1],[0,0],[1,0]⟩, ⟨[0,1],[1,0],[0,1]⟩, ⟨[0,1],[0,1],[-1,-1]⟩, ⟨[0,1],[1,1],[1/2,1/2]⟩] := by
  decide +kernel

theorem mem_mCrossSumF (l r : MFactor) (hl : l ≠ []) (hr : r ≠ []) (v : List Rat) :
    v ∈ (mCrossSumF l r).map (·.vals) ↔ ∃ a ∈ l, ∃ b ∈ r, v = vecAdd a.vals b.vals := by
  have hl' : l.isEmpty = false := by cases l <;> simp_all
  have hr' : r.isEmpty = false := by cases r <;> simp_all
  simp only [mCrossSumF, hl', hr', Bool.false_eq_true, if_false, List.mem_map, List.mem_flatMap]
  constructor
  · rintro ⟨e, ⟨a, ha, b, hb, rfl⟩, rfl⟩
    exact ⟨a, ha, b, hb, rfl⟩
  · rintro ⟨a, ha, b, hb, rfl⟩
    exact ⟨_, ⟨a, ha, b, hb, rfl⟩, rfl⟩

theorem mCrossSumF_ne_nil (l r : MFactor) (hl : l ≠ []) (hr : r ≠ []) : mCrossSumF l r ≠ [] := by
  obtain ⟨a, l', rfl⟩ := List.exists_cons_of_ne_nil hl
  obtain ⟨b, r', rfl⟩ := List.exists_cons_of_ne_nil hr
  simp [mCrossSumF]

/-- all sums of one entry per final factor, starting from the vectors in `acc` -/
def sumsOver : List (List Rat) → List MFactor → List (List Rat)
  | acc, [] => acc
  | acc, f :: fs => sumsOver (acc.flatMap (fun v => f.map (fun e => vecAdd v e.vals))) fs

/-- **`move_pareto_partial`** (final merge): with a non-empty accumulator and non-empty final factors,
    `makeResult`'s cross-sum holds exactly the sums of one entry per final factor (as a set). -/
theorem move_final_cross (fs : List MFactor) : ∀ (acc : MFactor), acc ≠ [] → (∀ f ∈ fs, f ≠ []) →
    ∀ v, v ∈ (fs.foldl mCrossSumF acc).map (·.vals) ↔ v ∈ sumsOver (acc.map (·.vals)) fs := by
  induction fs with
  | nil => intro acc _ _ v; simp [sumsOver]
  | cons f fs ih =>
    intro acc hacc hfs v
    have hf : f ≠ [] := hfs f (List.mem_cons_self ..)
    simp only [List.foldl_cons, sumsOver]
    rw [ih (mCrossSumF acc f) (mCrossSumF_ne_nil acc f hacc hf) (fun g hg => hfs g (List.mem_cons_of_mem _ hg)) v]
    have : ∀ w, w ∈ (mCrossSumF acc f).map (·.vals) ↔ w ∈ (acc.map (·.vals)).flatMap (fun v => f.map (fun e => vecAdd v e.vals)) := by
      intro w
      rw [mem_mCrossSumF acc f hacc hf]
      simp only [List.mem_flatMap, List.mem_map]
      constructor
      · rintro ⟨a, ha, b, hb, rfl⟩; exact ⟨a.vals, ⟨a, ha, rfl⟩, b, hb, rfl⟩
      · rintro ⟨_, ⟨a, ha, rfl⟩, b, hb, rfl⟩; exact ⟨a, ha, b, hb, rfl⟩
    -- sumsOver only depends on the accumulator as a set
    have hmono : ∀ (gs : List MFactor) (s t : List (List Rat)), (∀ w, w ∈ s ↔ w ∈ t) → ∀ w, w ∈ sumsOver s gs ↔ w ∈ sumsOver t gs := by
      intro gs
      induction gs with
      | nil => intro s t h w; simpa [sumsOver] using h w
      | cons g gs ihg =>
        intro s t h w
        simp only [sumsOver]
        apply ihg
        intro u
        simp only [List.mem_flatMap]
        constructor
        · rintro ⟨x, hx, hu⟩; exact ⟨x, (h x).mp hx, hu⟩
        · rintro ⟨x, hx, hu⟩; exact ⟨x, (h x).mpr hx, hu⟩
    exact hmono fs _ _ this v

/-- the closing prune, as modelled: exactly the vectors not weakly dominated by a different one -/
theorem paretoFront_spec (vs : List (List Rat)) (v : List Rat) :
    v ∈ paretoFront vs ↔ v ∈ vs ∧ ∀ w ∈ vs, w ≠ v → geAll w v = false := by
  simp only [paretoFront, List.mem_filter, Bool.not_eq_true', List.any_eq_false, Bool.and_eq_true,
             bne_iff_ne, ne_eq, not_and, Bool.not_eq_true]

/-! ## UCVE::makeResult

FULL STATEMENT, NOT provable of the code as it is: the joint action assembled by `makeResult` maximises
`M + sqrt(N·logtA/2)` over all combinations of one entry per final factor.  Refuted below for two final factors
(= two connected components).  What is proved (`ucve_final_partial`): with ONE final factor the chosen entry is a
maximiser of ANY objective the comparison `gt` is induced by. -/

theorem firstMax_spec {α : Type} [LinearOrder α] (val : UEntry → α) (gt : UEntry → UEntry → Bool)
    (hgt : ∀ a b, gt a b = true ↔ val b < val a) :
    ∀ (es : List UEntry) (best : UEntry),
      (firstMax gt best es = best ∨ firstMax gt best es ∈ es) ∧
      val best ≤ val (firstMax gt best es) ∧ ∀ e ∈ es, val e ≤ val (firstMax gt best es)
  | [], best => by simp [firstMax]
  | e :: es, best => by
    simp only [firstMax]
    by_cases h : gt e best = true
    · obtain ⟨h1, h2, h3⟩ := firstMax_spec val gt hgt es e
      simp only [h, if_true]
      refine ⟨Or.inr ?_, le_trans (le_of_lt ((hgt e best).mp h)) h2, ?_⟩
      · rcases h1 with h1 | h1
        · rw [h1]; exact List.mem_cons_self ..
        · exact List.mem_cons_of_mem _ h1
      · intro e' he'
        rcases List.mem_cons.mp he' with rfl | he'
        · exact h2
        · exact h3 e' he'
    · obtain ⟨h1, h2, h3⟩ := firstMax_spec val gt hgt es best
      have hle : val e ≤ val best := by
        by_contra hc
        exact h ((hgt e best).mpr (not_le.mp hc))
      simp only [h, Bool.false_eq_true, if_false]
      refine ⟨?_, h2, ?_⟩
      · rcases h1 with h1 | h1
        · exact Or.inl h1
        · exact Or.inr (List.mem_cons_of_mem _ h1)
      · intro e' he'
        rcases List.mem_cons.mp he' with rfl | he'
        · exact le_trans hle h2
        · exact h3 e' he'

/-- **`ucve_final_partial`**: one final factor (one connected component containing every rule): the reported
    value/tags are those of an entry of that factor whose objective is maximal among its entries. -/
theorem ucve_final_partial {α : Type} [LinearOrder α] (val : UEntry → α) (gt : UEntry → UEntry → Bool)
    (hgt : ∀ a b, gt a b = true ↔ val b < val a) (e : UEntry) (es : List UEntry) :
    ∃ b ∈ e :: es, ucveMakeResult gt [e :: es] = (b.m + 0, b.n + 0, b.tag ++ []) ∧ ∀ e' ∈ e :: es, val e' ≤ val b := by
  obtain ⟨h1, h2, h3⟩ := firstMax_spec val gt hgt es e
  refine ⟨firstMax gt e es, ?_, by simp [ucveMakeResult], ?_⟩
  · rcases h1 with h1 | h1
    · rw [h1]; exact List.mem_cons_self ..
    · exact List.mem_cons_of_mem _ h1
  · intro e' he'
    rcases List.mem_cons.mp he' with rfl | he'
    · exact h2
    · exact h3 e' he'

/-- two independent agents, tables {(0,1),(7/8,0)} each, logtA = 2 (so the objective is M + sqrt N):
    `makeResult` returns (0,2) [objective 1.414…]; the combination (7/8,0)+(7/8,0) = (7/4,0) is strictly
    better (1.75), decided exactly by `sqrtGt`.  Harness case 2; DESIGN §12 #17. -/
theorem ucve_makeResult_counterexample :
    let F0 : List UEntry := [⟨0, 1, [(0,0)]⟩, ⟨7/8, 0, [(0,1)]⟩]
    let F1 : List UEntry := [⟨0, 1, [(1,0)]⟩, ⟨7/8, 0, [(1,1)]⟩]
    ucveMakeResult (uGt 1) [F0, F1] = (0, 2, [(0,0),(1,0)]) ∧
    uGt 1 ⟨7/8 + 7/8, 0 + 0, [(0,1),(1,1)]⟩ ⟨0, 2, [(0,0),(1,0)]⟩ = true := by decide +kernel

/-! ## satisfiability of the hypotheses of the main theorems (concrete, non-trivial instance) -/

/-- `ve_correct` / `ve_value_eq_bruteMax` apply to: 4 agents (one in no rule), overlapping + nested +
    duplicate + negative rules, absent entries; elimination order 3,0,2,1 -/
example :
    let A := [2,3,2,2]
    let rules : List Rule := [⟨[0,1],[1,2],-3/2⟩, ⟨[1],[2],2⟩, ⟨[0,1],[1,2],1/4⟩, ⟨[3],[0],-1/2⟩, ⟨[0,1,3],[0,0,1],5/4⟩]
    let order := [3,0,2,1]
    (∀ d ∈ A, 0 < d) ∧ (∀ u ∈ order, u < A.length) ∧ (∀ r ∈ rules, ∀ k ∈ r.keys, k ∈ order) ∧
    (∀ r ∈ rules, r.WF A) ∧
    veValue A order rules = 2 ∧ bruteMax A rules = 2 ∧ listOf 4 (veAction A order rules) = [0,2,0,1] := by
  refine ⟨by decide, by decide, by decide, ?_, by decide +kernel, by decide +kernel, by decide +kernel⟩
  intro r hr
  simp only [List.mem_cons, List.mem_nil_iff, or_false] at hr
  rcases hr with rfl | rfl | rfl | rfl | rfl <;> exact ⟨by decide, (validB_iff _ _).mp (by decide)⟩

/-- the table-level model on the same instance gives the same answer (a test, by evaluation) -/
example : tveRun [2,3,2,2] [⟨[0,1],[1,2],-3/2⟩, ⟨[1],[2],2⟩, ⟨[0,1],[1,2],1/4⟩, ⟨[3],[0],-1/2⟩, ⟨[0,1,3],[0,0,1],5/4⟩]
    = ([0,2,0,1], 2) := by decide +kernel

/-! ## table-level VariableElimination (`VETable.lean`): the data structure the code manipulates

`graphVal` reads the graph the way `removeFactor` does (per node: `lower_bound` by partial index, equality test,
absent = contributes nothing).  First: `UpdateGraphImpl<VariableElimination, rules>` (sorted insertion, accumulate on
collision) represents the rule set exactly. -/

def valOf : Option TRule → Rat
  | some r => r.value
  | none => 0

def nodeVal (A a : List Nat) (nd : TNode) : Rat := valOf (lookup (toIndexPartial nd.keys A a) nd.rules)

def graphVal (A a : List Nat) : List TNode → Rat
  | [] => 0
  | nd :: g => nodeVal A a nd + graphVal A a g

/-- `lower_bound` lookup after `lower_bound` insertion/accumulation: the new rule is seen at its index only -/
theorem lookup_mergeRule (nr : TRule) (j : Nat) : ∀ (rs : List TRule),
    valOf (lookup j (mergeRule nr rs)) = valOf (lookup j rs) + (if j = nr.idx then nr.value else 0)
  | [] => by
    simp only [mergeRule, lookup]
    by_cases h1 : nr.idx < j
    · have : j ≠ nr.idx := by omega
      simp [h1, this, valOf]
    · by_cases h2 : nr.idx = j
      · simp [h2, valOf]
      · have : j ≠ nr.idx := fun e => h2 e.symm
        simp [h1, h2, this, valOf]
  | r :: rs => by
    simp only [mergeRule]
    by_cases c1 : r.idx < nr.idx
    · simp only [c1, if_true, lookup]
      by_cases h1 : r.idx < j
      · simp only [h1, if_true]; exact lookup_mergeRule nr j rs
      · by_cases h2 : r.idx = j
        · have : j ≠ nr.idx := by omega
          simp [h2, this]
        · have : j ≠ nr.idx := by omega
          simp [h1, h2, this]
    · by_cases c2 : r.idx = nr.idx
      · have c2' : (r.idx == nr.idx) = true := by simpa using c2
        simp only [c1, if_false, c2', if_true, lookup]
        by_cases h1 : r.idx < j
        · have : j ≠ nr.idx := by omega
          simp [h1, this]
        · by_cases h2 : r.idx = j
          · have : j = nr.idx := by omega
            simp [h2, this, valOf]
          · have : j ≠ nr.idx := by omega
            simp [h1, h2, this]
      · have c2' : (r.idx == nr.idx) = false := by simpa using c2
        simp only [c1, if_false, c2', Bool.false_eq_true, lookup]
        by_cases g1 : nr.idx < j
        · have : j ≠ nr.idx := by omega
          simp [g1, this]
        · by_cases g2 : nr.idx = j
          · have hj : ¬ r.idx < j := by omega
            have hj2 : ¬ r.idx = j := by omega
            simp [g2, hj, hj2, valOf]
          · have : j ≠ nr.idx := fun e => g2 e.symm
            have hj : ¬ r.idx < j := by omega
            have hj2 : ¬ r.idx = j := by omega
            simp [g1, g2, this, hj, hj2]

theorem graphVal_addToNode (A a keys : List Nat) (nr : TRule) : ∀ (g : List TNode),
    graphVal A a (addToNode keys nr g)
      = graphVal A a g + (if toIndexPartial keys A a = nr.idx then nr.value else 0)
  | [] => by
    have h0 : graphVal A a (addToNode keys nr []) = valOf (lookup (toIndexPartial keys A a) (mergeRule nr [])) + 0 := rfl
    rw [h0, lookup_mergeRule]
    simp [lookup, valOf, graphVal]
  | nd :: g => by
    simp only [addToNode]
    by_cases h : nd.keys = keys
    · subst h
      simp only [beq_self_eq_true, if_true, graphVal, nodeVal, lookup_mergeRule]; ring
    · have h' : (nd.keys == keys) = false := by simpa using h
      simp only [h', Bool.false_eq_true, if_false, graphVal, graphVal_addToNode A a keys nr g]; ring

/-- **`tInit_represents`**: the graph `UpdateGraph` builds from ANY well-formed rule list (any order, duplicates
    accumulated on collision, several key sets) evaluates — read with the code's own `lower_bound` lookup — to the
    total payoff of every in-range joint action. -/
theorem tInit_represents (A a : List Nat) (ha : Valid A a) : ∀ (rules : List Rule) (g : List TNode),
    (∀ r ∈ rules, r.WF A) → graphVal A a (tInit A rules g) = graphVal A a g + payoffL rules a
  | [], g, _ => by simp [tInit, payoffL, payoff]
  | r :: rs, g, hwf => by
    simp only [tInit]
    rw [tInit_represents A a ha rs _ (fun r' hr' => hwf r' (List.mem_cons_of_mem _ hr')), graphVal_addToNode]
    have hm := index_eq_iff_match A a r ha (hwf r (List.mem_cons_self ..))
    simp only [payoffL, payoff, Rule.eval]
    by_cases h : matchKV r.keys r.vals (asgOf a) = true
    · simp only [hm.mpr h, h, if_true]; ring
    · have : ¬ toIndexPartial r.keys A a = toIndexPartialPF A r.keys r.vals := fun e => h (hm.mp e)
      simp [this, h]

end AITB.VE
