import AITB.Model.VE
import AITB.Model.VETable
