/-
  AITB.Props.C14g — C14 continued: JointActionLearner vs flat QLearning, for ALL experience histories.
-/
import AITB.Props.C14f

namespace AITB.Factored

/-- the flat experience tuple of a factored one: the joint action becomes its index `toIndex(A, a)` -/
def flatEvent (A : List Nat) (e : Nat × List Nat × Nat × Rat) : Nat × Nat × Nat × Rat := (e.1, toIndex A e.2.1, e.2.2.1, e.2.2.2)

theorem jalStep_A (alpha gamma : Rat) (j : JAL) (e : Nat × List Nat × Nat × Rat) : (jalStep alpha gamma j e).A = j.A := rfl

theorem jalStep_q (alpha gamma : Rat) (j : JAL) (e : Nat × List Nat × Nat × Rat) :
    (jalStep alpha gamma j e).q = qlStep alpha gamma j.q (flatEvent j.A e) := by
  unfold jalStep flatEvent
  simp only
  rw [toIndexLoop_eq]; simp

/-- **JointActionLearner = flat QLearning on joint-action indices, for every history**: after any sequence of
    `stepUpdateQ(s, a, s1, r)` the joint Q-function is exactly the table flat `MDP::QLearning` (same discount and
    learning rate, same initial table) holds after the same experiences with `a` replaced by `toIndex(A, a)` —
    and `toIndex_inj` says distinct valid joint actions are distinct columns. -/
theorem jal_joint_is_flat (alpha gamma : Rat) : ∀ (hist : List (Nat × List Nat × Nat × Rat)) (j : JAL),
    (jalRun alpha gamma j hist).q = qlRun alpha gamma j.q (hist.map (flatEvent j.A)) ∧ (jalRun alpha gamma j hist).A = j.A
  | [], j => ⟨rfl, rfl⟩
  | e :: hist, j => by
    obtain ⟨ih1, ih2⟩ := jal_joint_is_flat alpha gamma hist (jalStep alpha gamma j e)
    simp only [jalRun, qlRun, List.foldl_cons, List.map_cons] at ih1 ih2 ⊢
    rw [ih1, ih2, jalStep_q, jalStep_A]
    exact ⟨rfl, rfl⟩

/-- with a single agent the enumerator over "the other agents" visits exactly one (empty) joint action -/
theorem enumAll_single (n fuel : Nat) : enumAll 0 [n] (fuel + 1) = [[0]] := by
  unfold enumAll
  simp only [advanceN, List.isEmpty_cons, Bool.false_eq_true, if_false, List.map_cons, List.map_nil]
  cases fuel with
  | zero => simp [enumAll.go]
  | succ f => simp [enumAll.go, advance, adv]

theorem jalProb_single (n : Nat) (j' : JAL) (s : Nat) (ja : List Nat) (hA : j'.A = [n]) (hid : j'.id = 0) :
    jalProb j' s ja = 1 := by
  unfold jalProb
  simp [JAL.others, hA, hid]

/-- **single agent**: when the learner is the only agent, the row of its own Q-function refreshed by an update is the
    row of the joint (= flat) Q-function: `singleQ(s, ·) = Q(s, ·)` on the updated state -/
theorem jal_single_agent (alpha gamma : Rat) (n : Nat) (j : JAL) (e : Nat × List Nat × Nat × Rat)
    (hA : j.A = [n]) (hid : j.id = 0) (hs : e.1 < j.single.length) :
    (jalStep alpha gamma j e).single.getD e.1 [] = (List.range n).map (fun ai => (jalStep alpha gamma j e).q.get e.1 ai) := by
  unfold jalStep
  simp only
  rw [List.getD_eq_getElem?_getD, List.getElem?_set_self hs]
  simp only [Option.getD_some, hA, hid, List.getD_cons_zero]
  rw [enumAll_single n (space [n])]
  apply List.map_congr_left
  intro ai _
  simp only [List.foldl_cons, List.foldl_nil, zero_add]
  rw [jalProb_single n _ _ _ rfl rfl]
  simp [toIndexLoop]

/-- non-vacuity (test on literals): a fresh single-agent learner meets the hypotheses of `jal_single_agent` -/
example : (jalInit 2 [3] 0).A = [3] ∧ (jalInit 2 [3] 0).id = 0 ∧ (1 : Nat) < (jalInit 2 [3] 0).single.length := by decide

end AITB.Factored
