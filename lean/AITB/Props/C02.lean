/-
  C02 — Exact POMDP solvers compute the true finite-horizon value.

  Property theorems about `AITB.Model.POMDP` (all sizes, horizons, beliefs; no bounds).
  Helper lemmas on `sumTo`/`maxTo`/`mkVec` are reused from `AITB.Props.C01`.
-/
import AITB.Model.POMDP
import AITB.Props.C01
import Mathlib.Algebra.Order.Field.Rat
import Mathlib.Algebra.BigOperators.Group.Finset.Basic
import Mathlib.Algebra.Order.BigOperators.Group.Finset
import Mathlib.Algebra.BigOperators.Ring.Finset
import Mathlib.Tactic.Ring
import Mathlib.Tactic.Linarith
import Mathlib.Tactic.FieldSimp
import Mathlib.Tactic.NormNum

namespace AITB.POMDP
open AITB.MDP (sumTo maxTo argmaxTo Vec Vec.get mkVec absR sumTo_eq sumTo_congr sumTo_le sumTo_add sumTo_mul_left mkVec_get maxTo_ge maxTo_attained maxTo_congr)

/-! ## `lmax`: the maximum of a non-empty list -/

theorem lmax_mem : ∀ (l : List Rat), l ≠ [] → lmax l ∈ l
  | [], h => absurd rfl h
  | [x], _ => by simp [lmax]
  | x :: y :: r, _ => by
    have ih := lmax_mem (y :: r) (by simp)
    unfold lmax
    split
    · exact List.mem_cons_self
    · exact List.mem_cons_of_mem _ ih

theorem lmax_ge : ∀ (l : List Rat) (x : Rat), x ∈ l → x ≤ lmax l
  | [], x, h => by simp at h
  | [y], x, h => by simp at h; simp [lmax, h]
  | y :: z :: r, x, h => by
    have ih := lmax_ge (z :: r)
    unfold lmax
    rcases List.mem_cons.mp h with h1 | h1
    · subst h1
      split
      · exact le_refl _
      · rename_i hlt; exact not_lt.mp hlt
    · have := ih x h1
      split
      · rename_i hlt; exact le_of_lt (lt_of_le_of_lt this hlt)
      · exact this

/-- characterisation used everywhere below: a member that bounds the list is its `lmax` -/
theorem lmax_eq_of (l : List Rat) (v : Rat) (hm : v ∈ l) (hb : ∀ x ∈ l, x ≤ v) : lmax l = v := by
  have h1 := lmax_ge l v hm
  have h2 := hb _ (lmax_mem l (List.ne_nil_of_mem hm))
  exact le_antisymm h2 h1

theorem lmax_append (l1 l2 : List Rat) (h1 : l1 ≠ []) (h2 : l2 ≠ []) :
    lmax (l1 ++ l2) = if lmax l1 < lmax l2 then lmax l2 else lmax l1 := by
  apply lmax_eq_of
  · split
    · exact List.mem_append_right _ (lmax_mem l2 h2)
    · exact List.mem_append_left _ (lmax_mem l1 h1)
  · intro x hx
    rcases List.mem_append.mp hx with h | h
    · have := lmax_ge l1 x h
      split
      · rename_i hlt; linarith
      · exact this
    · have := lmax_ge l2 x h
      split
      · exact this
      · rename_i hlt; linarith [not_lt.mp hlt]

theorem lmax_map_mul (c : Rat) (hc : 0 ≤ c) (l : List Rat) (h : l ≠ []) :
    lmax (l.map (fun x => c * x)) = c * lmax l := by
  apply lmax_eq_of
  · exact List.mem_map.mpr ⟨lmax l, lmax_mem l h, rfl⟩
  · intro x hx
    obtain ⟨y, hy, rfl⟩ := List.mem_map.mp hx
    exact mul_le_mul_of_nonneg_left (lmax_ge l y hy) hc

theorem lmax_map_add (c : Rat) (l : List Rat) (h : l ≠ []) :
    lmax (l.map (fun x => c + x)) = c + lmax l := by
  apply lmax_eq_of
  · exact List.mem_map.mpr ⟨lmax l, lmax_mem l h, rfl⟩
  · intro x hx
    obtain ⟨y, hy, rfl⟩ := List.mem_map.mp hx
    linarith [lmax_ge l y hy]

theorem lmax_congr_map {α : Type} (l : List α) (f g : α → Rat) (h : ∀ x ∈ l, f x = g x) :
    lmax (l.map f) = lmax (l.map g) := by
  rw [List.map_congr_left h]

/-- all sums `x + y`, `x ∈ l1`, `y ∈ l2` -/
def pairSums (l1 l2 : List Rat) : List Rat := l1.flatMap (fun x => l2.map (fun y => x + y))

theorem lmax_pairSums (l1 l2 : List Rat) (h1 : l1 ≠ []) (h2 : l2 ≠ []) :
    lmax (pairSums l1 l2) = lmax l1 + lmax l2 := by
  apply lmax_eq_of
  · exact List.mem_flatMap.mpr ⟨lmax l1, lmax_mem l1 h1, List.mem_map.mpr ⟨lmax l2, lmax_mem l2 h2, rfl⟩⟩
  · intro x hx
    obtain ⟨a, ha, hx⟩ := List.mem_flatMap.mp hx
    obtain ⟨b, hb, rfl⟩ := List.mem_map.mp hx
    linarith [lmax_ge l1 a ha, lmax_ge l2 b hb]

theorem pairSums_ne_nil (l1 l2 : List Rat) (h1 : l1 ≠ []) (h2 : l2 ≠ []) : pairSums l1 l2 ≠ [] := by
  intro h
  have : lmax l1 + lmax l2 ∈ pairSums l1 l2 :=
    List.mem_flatMap.mpr ⟨lmax l1, lmax_mem l1 h1, List.mem_map.mpr ⟨lmax l2, lmax_mem l2 h2, rfl⟩⟩
  rw [h] at this; simp at this

/-- every total obtainable by picking one entry from each of the lists `F 0 … F (k-1)` -/
def choiceSums : Nat → (Nat → List Rat) → List Rat
  | 0, _ => [0]
  | k+1, F => pairSums (choiceSums k F) (F k)

theorem choiceSums_ne_nil (k : Nat) (F : Nat → List Rat) (hF : ∀ o, o < k → F o ≠ []) : choiceSums k F ≠ [] := by
  induction k with
  | zero => simp [choiceSums]
  | succ k ih => exact pairSums_ne_nil _ _ (ih (fun o ho => hF o (by omega))) (hF k (by omega))

/-- **sum_max_eq_max_choice**: Σ_o max_i f o i = max over all choice functions of Σ_o f o (σ o). -/
theorem sum_max_eq_max_choice (k : Nat) (F : Nat → List Rat) (hF : ∀ o, o < k → F o ≠ []) :
    sumTo k (fun o => lmax (F o)) = lmax (choiceSums k F) := by
  induction k with
  | zero => simp [sumTo, choiceSums, lmax]
  | succ k ih =>
    simp only [sumTo, choiceSums]
    rw [lmax_pairSums _ _ (choiceSums_ne_nil k F (fun o ho => hF o (by omega))) (hF k (by omega)),
        ih (fun o ho => hF o (by omega))]

example : sumTo 2 (fun o => lmax (if o = 0 then [1, 3] else [2, -1])) = lmax (choiceSums 2 (fun o => if o = 0 then [1, 3] else [2, -1])) := by
  norm_num [sumTo, lmax, choiceSums, pairSums]  -- test on literals: 3 + 2 = max {3, 0, 5, 2}

/-! ## dot products and envelopes -/

theorem dot_vadd (n : Nat) (b v w : Vec) : dot n b (vadd n v w) = dot n b v + dot n b w := by
  unfold dot vadd
  rw [← sumTo_add]
  apply sumTo_congr
  intro s hs
  rw [mkVec_get _ hs]; ring

theorem dot_vzero (n : Nat) (b : Vec) : dot n b (vzero n) = 0 := by
  unfold dot vzero
  have : ∀ k, k ≤ n → sumTo k (fun s => b.get s * (mkVec n (fun _ => (0 : Rat))).get s) = 0 := by
    intro k
    induction k with
    | zero => intro _; rfl
    | succ k ih =>
      intro hk
      simp only [sumTo]
      rw [ih (by omega), mkVec_get _ (by omega : k < n)]; ring
  exact this n (le_refl _)

theorem env_ne (n : Nat) (Γ : List Vec) (b : Vec) (h : Γ ≠ []) : Γ.map (fun α => dot n b α) ≠ [] := by
  simpa using h

theorem env_ge (n : Nat) (Γ : List Vec) (b : Vec) (α : Vec) (h : α ∈ Γ) : dot n b α ≤ env n Γ b :=
  lmax_ge _ _ (List.mem_map.mpr ⟨α, h, rfl⟩)

theorem env_attained (n : Nat) (Γ : List Vec) (b : Vec) (h : Γ ≠ []) : ∃ α ∈ Γ, env n Γ b = dot n b α := by
  obtain ⟨α, hα, e⟩ := List.mem_map.mp (lmax_mem _ (env_ne n Γ b h))
  exact ⟨α, hα, e.symm⟩

theorem env_eq_of (n : Nat) (Γ : List Vec) (b : Vec) (v : Rat) (hm : ∃ α ∈ Γ, dot n b α = v) (hb : ∀ α ∈ Γ, dot n b α ≤ v) :
    env n Γ b = v := by
  apply lmax_eq_of
  · obtain ⟨α, hα, e⟩ := hm; exact List.mem_map.mpr ⟨α, hα, e⟩
  · intro x hx
    obtain ⟨α, hα, rfl⟩ := List.mem_map.mp hx
    exact hb α hα

theorem crossSum_ne_nil (n : Nat) (l1 l2 : List Vec) (h1 : l1 ≠ []) (h2 : l2 ≠ []) : crossSum n l1 l2 ≠ [] := by
  obtain ⟨a, ha⟩ := List.exists_mem_of_ne_nil l1 h1
  obtain ⟨b, hb⟩ := List.exists_mem_of_ne_nil l2 h2
  intro h
  have : vadd n a b ∈ crossSum n l1 l2 := List.mem_flatMap.mpr ⟨a, ha, List.mem_map.mpr ⟨b, hb, rfl⟩⟩
  rw [h] at this; simp at this

/-- **envelope_crossSum**: the upper envelope of a cross-sum is the sum of the envelopes, at every point `b`. -/
theorem envelope_crossSum (n : Nat) (l1 l2 : List Vec) (b : Vec) (h1 : l1 ≠ []) (h2 : l2 ≠ []) :
    env n (crossSum n l1 l2) b = env n l1 b + env n l2 b := by
  obtain ⟨a1, ha1, e1⟩ := env_attained n l1 b h1
  obtain ⟨a2, ha2, e2⟩ := env_attained n l2 b h2
  apply env_eq_of
  · exact ⟨vadd n a1 a2, List.mem_flatMap.mpr ⟨a1, ha1, List.mem_map.mpr ⟨a2, ha2, rfl⟩⟩, by rw [dot_vadd, e1, e2]⟩
  · intro α hα
    obtain ⟨x, hx, hα⟩ := List.mem_flatMap.mp hα
    obtain ⟨y, hy, rfl⟩ := List.mem_map.mp hα
    rw [dot_vadd]
    linarith [env_ge n l1 b x hx, env_ge n l2 b y hy]

/-- hence pruning each operand with an envelope-preserving pruner preserves the envelope of the cross-sum
    (what justifies Incremental Pruning's interleaving of cross-sums and pruning) -/
theorem envelope_crossSum_pruned (n : Nat) (l1 l2 l1' l2' : List Vec) (b : Vec)
    (h1 : l1 ≠ []) (h2 : l2 ≠ []) (h1' : l1' ≠ []) (h2' : l2' ≠ [])
    (e1 : env n l1' b = env n l1 b) (e2 : env n l2' b = env n l2 b) :
    env n (crossSum n l1' l2') b = env n (crossSum n l1 l2) b := by
  rw [envelope_crossSum n l1' l2' b h1' h2', envelope_crossSum n l1 l2 b h1 h2, e1, e2]

/-! ## `convex_dominance_sound`: the Farkas direction used by certificate checks -/

/-- if a convex combination Σ λ_i α_i of the list dominates β componentwise then the list's envelope dominates β·b at every
    non-negative point b (in particular at every belief).  `lam` and `Γ` are zipped; λ ≥ 0, Σλ = 1. -/
theorem convex_dominance_sound (n : Nat) (Γ : List Vec) (lam : List Rat) (β b : Vec)
    (hlen : lam.length = Γ.length) (hne : Γ ≠ [])
    (hl0 : ∀ x ∈ lam, 0 ≤ x) (hl1 : lam.sum = 1)
    (hdom : ∀ s, s < n → β.get s ≤ ((lam.zip Γ).map (fun p => p.1 * p.2.get s)).sum)
    (hb : ∀ s, s < n → 0 ≤ b.get s) :
    dot n b β ≤ env n Γ b := by
  -- Σ_s b_s β_s ≤ Σ_s b_s Σ_i λ_i α_i(s) = Σ_i λ_i (b·α_i) ≤ Σ_i λ_i env = env
  have step1 : dot n b β ≤ sumTo n (fun s => b.get s * ((lam.zip Γ).map (fun p => p.1 * p.2.get s)).sum) := by
    unfold dot
    apply sumTo_le
    intro s hs
    exact mul_le_mul_of_nonneg_left (hdom s hs) (hb s hs)
  have swap : ∀ (L : List (Rat × Vec)),
      sumTo n (fun s => b.get s * (L.map (fun p => p.1 * p.2.get s)).sum) = (L.map (fun p => p.1 * dot n b p.2)).sum := by
    intro L
    induction L with
    | nil =>
      simp only [List.map_nil, List.sum_nil, mul_zero]
      have : ∀ k, sumTo k (fun _ => (0 : Rat)) = 0 := by
        intro k; induction k with
        | zero => rfl
        | succ k ih => simp [sumTo, ih]
      exact this n
    | cons p L ih =>
      simp only [List.map_cons, List.sum_cons]
      rw [← ih]
      unfold dot
      rw [← sumTo_mul_left, ← sumTo_add]
      apply sumTo_congr
      intro s _; ring
  have step2 : ∀ (L : List (Rat × Vec)), (∀ p ∈ L, 0 ≤ p.1) → (∀ p ∈ L, p.2 ∈ Γ) →
      (L.map (fun p => p.1 * dot n b p.2)).sum ≤ (L.map (fun p => p.1)).sum * env n Γ b := by
    intro L
    induction L with
    | nil => intro _ _; simp
    | cons p L ih =>
      intro h0 hm
      simp only [List.map_cons, List.sum_cons]
      have i1 := ih (fun q hq => h0 q (List.mem_cons_of_mem _ hq)) (fun q hq => hm q (List.mem_cons_of_mem _ hq))
      have i2 : p.1 * dot n b p.2 ≤ p.1 * env n Γ b :=
        mul_le_mul_of_nonneg_left (env_ge n Γ b p.2 (hm p List.mem_cons_self)) (h0 p List.mem_cons_self)
      linarith [add_mul p.1 (List.map (fun p => p.1) L).sum (env n Γ b)]
  have hz0 : ∀ p ∈ lam.zip Γ, 0 ≤ p.1 := fun p hp => hl0 _ (List.of_mem_zip hp).1
  have hzm : ∀ p ∈ lam.zip Γ, p.2 ∈ Γ := fun p hp => (List.of_mem_zip hp).2
  have hfst : (lam.zip Γ).map (fun p => p.1) = lam := by
    rw [← List.unzip_fst]
    simp [List.unzip_zip, hlen]
  have := step2 (lam.zip Γ) hz0 hzm
  rw [hfst, hl1, one_mul] at this
  rw [swap] at step1
  linarith

/-- the hypotheses are satisfiable: the midpoint of (2,0) and (0,2) dominates (1,1) -/
example : ∃ (Γ : List Vec) (lam : List Rat) (β b : Vec), lam.length = Γ.length ∧ Γ ≠ [] ∧ (∀ x ∈ lam, 0 ≤ x) ∧ lam.sum = 1 ∧
    (∀ s, s < 2 → β.get s ≤ ((lam.zip Γ).map (fun p => p.1 * p.2.get s)).sum) ∧ (∀ s, s < 2 → 0 ≤ b.get s) := by
  refine ⟨[#[2, 0], #[0, 2]], [1/2, 1/2], #[1, 1], #[1/4, 3/4], rfl, by simp, ?_, by norm_num, ?_, ?_⟩
  · intro x hx; simp at hx; subst hx; norm_num
  · intro s hs
    have : s = 0 ∨ s = 1 := by omega
    rcases this with rfl | rfl <;> norm_num [Vec.get]
  · intro s hs
    have : s = 0 ∨ s = 1 := by omega
    rcases this with rfl | rfl <;> norm_num [Vec.get]

end AITB.POMDP
